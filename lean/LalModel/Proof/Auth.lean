import LalModel.Model.Auth
import LalModel.Spec.AccessSpec
/-
  Lemmas for C14 about the decision logic of Model/Auth.lean: simple auth, RTSP authentication, blacklist.
-/
namespace Lal.Auth
open Lal.Str

/-! ### simple auth -/

/-- the request carries the secret of the stream: its query parses and the first `lal_secret` value is, in
    either letter case, the MD5 of key ++ stream name, or is exactly the configured override secret -/
def Carries (E : Ext) (cfg : SimpleAuthConfig) (streamName urlParam : Bytes) : Prop :=
  ∃ q, E.parseQuery urlParam = some q ∧
    (lower (Url.get q Gen.c14SecretName) = E.md5hex (cfg.key ++ streamName) ∨
     (cfg.dangerousLalSecret ≠ [] ∧ Url.get q Gen.c14SecretName = cfg.dangerousLalSecret))

theorem md5_ne_nil {E : Ext} (hE : ExtLaws E) (x : Bytes) : E.md5hex x ≠ [] := by
  intro h
  have := hE.md5len x
  rw [h] at this
  simp at this

theorem check_ok_iff {E : Ext} (hE : ExtLaws E) (cfg : SimpleAuthConfig) (streamName urlParam : Bytes) :
    check E cfg streamName urlParam = .ok ↔ Carries E cfg streamName urlParam := by
  unfold check Carries
  cases hq : E.parseQuery urlParam with
  | none => simp
  | some q =>
    simp only [Option.some.injEq, exists_eq_left']
    by_cases hv : Url.get q Gen.c14SecretName = []
    · rw [if_pos hv]
      constructor
      · intro h; cases h
      · intro h
        rcases h with h | ⟨h1, h2⟩
        · rw [hv] at h
          exact absurd h.symm (md5_ne_nil hE (cfg.key ++ streamName))
        · exact absurd (hv ▸ h2).symm h1
    · rw [if_neg hv]
      by_cases ho : cfg.dangerousLalSecret ≠ [] ∧ Url.get q Gen.c14SecretName = cfg.dangerousLalSecret
      · rw [if_pos ho]
        exact ⟨fun _ => Or.inr ho, fun _ => rfl⟩
      · rw [if_neg ho]
        by_cases hm : lower (Url.get q Gen.c14SecretName) = calcSecret E cfg.key streamName
        · rw [if_pos hm]
          exact ⟨fun _ => Or.inl hm, fun _ => rfl⟩
        · rw [if_neg hm]
          constructor
          · intro h; cases h
          · intro h
            rcases h with h | h
            · exact absurd h hm
            · exact absurd h ho

/-! ### small string facts -/

theorem cut_eq_true {c : UInt8} {s a b : Bytes} (h : cut c s = (a, b, true)) : s = a ++ c :: b ∧ c ∉ a := by
  induction s generalizing a b with
  | nil => simp [cut] at h
  | cons x r ih =>
    unfold cut at h
    by_cases hx : x = c
    · rw [if_pos hx] at h
      simp only [Prod.mk.injEq, and_true] at h
      obtain ⟨h1, h2⟩ := h
      subst h1 h2 hx
      simp
    · rw [if_neg hx] at h
      generalize hr : cut c r = t at h
      obtain ⟨a', b', f'⟩ := t
      simp only [Prod.mk.injEq] at h
      obtain ⟨h1, h2, h3⟩ := h
      subst h1 h2 h3
      have := ih hr
      constructor
      · rw [this.1]; simp
      · intro hm
        rcases List.mem_cons.mp hm with h | h
        · exact hx h.symm
        · exact this.2 h

theorem cut_append {c : UInt8} (a b : Bytes) (h : c ∉ a) : cut c (a ++ c :: b) = (a, b, true) := by
  induction a with
  | nil => simp [cut]
  | cons x r ih =>
    have hx : x ≠ c := fun e => h (by simp [e])
    have hr : c ∉ r := fun e => h (by simp [e])
    simp only [List.cons_append, cut, if_neg hx, ih hr]

theorem cut2_eq_some_iff {c : UInt8} {s a b : Bytes} : cut2 c s = some (a, b) ↔ s = a ++ c :: b ∧ c ∉ a := by
  unfold cut2
  constructor
  · intro h
    generalize hr : cut c s = t at h
    obtain ⟨a', b', f'⟩ := t
    cases f' with
    | false => simp at h
    | true =>
      simp only [Option.some.injEq, Prod.mk.injEq] at h
      obtain ⟨h1, h2⟩ := h
      subst h1 h2
      exact cut_eq_true hr
  · intro ⟨h1, h2⟩
    rw [h1, cut_append a b h2]

theorem hasPrefix_iff {s p : Bytes} : hasPrefix s p = true ↔ ∃ c, s = p ++ c := by
  unfold hasPrefix
  constructor
  · intro h
    have h' : s.take p.length = p := by simpa using h
    refine ⟨s.drop p.length, ?_⟩
    have := (List.take_append_drop p.length s).symm
    rw [h'] at this
    exact this
  · intro ⟨c, hc⟩
    subst hc
    simp

theorem trimPrefix_append (p c : Bytes) : trimPrefix (p ++ c) p = c := by
  have : hasPrefix (p ++ c) p = true := hasPrefix_iff.mpr ⟨c, rfl⟩
  simp [trimPrefix, this]

/-! ### RTSP authentication -/

theorem basic_ne_digest : Gen.c14AuthTypeBasic ≠ Gen.c14AuthTypeDigest := by decide
theorem basic_ne_nil : Gen.c14AuthTypeBasic ≠ [] := by decide
theorem digest_ne_nil : Gen.c14AuthTypeDigest ≠ [] := by decide

/-- the header carries valid Basic credentials of the configured account (RFC 7617):
    `Basic ` followed by something that base64-decodes to `user:pass` -/
def ValidBasic (E : Ext) (conf : AuthConf) (authorization : Bytes) : Prop :=
  ∃ c, authorization = basicPrefix ++ c ∧ E.b64dec c = some (conf.username ++ 58 :: conf.password)

/-- the header carries valid Digest credentials of the configured account (RFC 2617 §3.2.2, no qop) for the
    nonce `issued` by this server: `Digest ` followed by parameters whose nonce is the issued one and whose
    response is the request-digest of the configured user and password, the realm and uri the header
    declares, and the request method. Parameters are read the way lal reads them (`getV`). -/
def ValidDigest (E : Ext) (conf : AuthConf) (issued method authorization : Bytes) : Prop :=
  ∃ s, authorization = digestPrefix ++ s ∧ hasPrefix authorization basicPrefix = false ∧ issued ≠ [] ∧
    getV s (asc "nonce=\"") = issued ∧
    getV s (asc "response=\"") =
      digestResponse E conf.username (getV s (asc "realm=\"")) conf.password issued method (getV s (asc "uri=\""))

theorem handle_pass_iff (E : Ext) (conf : AuthConf) (a : AuthSt) (m auth fresh : Bytes) (hne : auth ≠ []) :
    (handleAuthorized E conf a m auth fresh).2 = .pass ↔
      (((parseAuthorization E a auth).typ = Gen.c14AuthTypeBasic ∧ conf.method = 0) ∨
       ((parseAuthorization E a auth).typ = Gen.c14AuthTypeDigest ∧ conf.method = 1)) ∧
      checkAuthorization E (parseAuthorization E a auth) m conf.username conf.password = true := by
  unfold handleAuthorized
  rw [if_pos hne]
  dsimp only
  split
  · rename_i h; simp [h]
  · rename_i h; simp only [reduceCtorEq, false_iff]; exact h

theorem handle_pass0_iff (E : Ext) (conf : AuthConf) (a : AuthSt) (m auth fresh : Bytes) (hne : auth ≠ []) (hm : conf.method = 0) :
    (handleAuthorized E conf a m auth fresh).2 = .pass ↔
      (parseAuthorization E a auth).typ = Gen.c14AuthTypeBasic ∧
      checkAuthorization E (parseAuthorization E a auth) m conf.username conf.password = true := by
  rw [handle_pass_iff E conf a m auth fresh hne]
  constructor
  · intro ⟨h1, h2⟩
    rcases h1 with h | h
    · exact ⟨h.1, h2⟩
    · omega
  · intro ⟨h1, h2⟩
    exact ⟨Or.inl ⟨h1, hm⟩, h2⟩

theorem handle_pass1_iff (E : Ext) (conf : AuthConf) (a : AuthSt) (m auth fresh : Bytes) (hne : auth ≠ []) (hm : conf.method = 1) :
    (handleAuthorized E conf a m auth fresh).2 = .pass ↔
      (parseAuthorization E a auth).typ = Gen.c14AuthTypeDigest ∧
      checkAuthorization E (parseAuthorization E a auth) m conf.username conf.password = true := by
  rw [handle_pass_iff E conf a m auth fresh hne]
  constructor
  · intro ⟨h1, h2⟩
    rcases h1 with h | h
    · omega
    · exact ⟨h.1, h2⟩
  · intro ⟨h1, h2⟩
    exact ⟨Or.inr ⟨h1, hm⟩, h2⟩

theorem handle_nonempty_not_challenge (E : Ext) (conf : AuthConf) (a : AuthSt) (m auth fresh : Bytes) (hne : auth ≠ []) (s : Bytes) :
    (handleAuthorized E conf a m auth fresh).2 ≠ .challenge s := by
  unfold handleAuthorized
  rw [if_pos hne]
  dsimp only
  split <;> simp

/-- what `ParseAuthorization` leaves for a Basic header -/
theorem parse_basic (E : Ext) (a : AuthSt) (c : Bytes) :
    parseAuthorization E a (basicPrefix ++ c) =
      match E.b64dec c with
      | none => { issued := a.issued }
      | some info =>
        match cut2 58 info with
        | none => { issued := a.issued }
        | some (u, p) => { issued := a.issued, typ := Gen.c14AuthTypeBasic, username := u, password := p } := by
  unfold parseAuthorization
  have h : hasPrefix (basicPrefix ++ c) basicPrefix = true := hasPrefix_iff.mpr ⟨c, rfl⟩
  simp only [h, if_true, trimPrefix_append]
  cases E.b64dec c with
  | none => rfl
  | some info =>
    dsimp only
    cases cut2 58 info with
    | none => rfl
    | some up => rfl

theorem parse_other_typ (E : Ext) (a : AuthSt) (auth : Bytes) (h1 : hasPrefix auth basicPrefix = false)
    (h2 : hasPrefix auth digestPrefix = false) : (parseAuthorization E a auth).typ = [] := by
  unfold parseAuthorization
  simp [h1, h2]

theorem parse_digest (E : Ext) (a : AuthSt) (s : Bytes) (h1 : hasPrefix (digestPrefix ++ s) basicPrefix = false) :
    parseAuthorization E a (digestPrefix ++ s) =
      { issued := a.issued, typ := Gen.c14AuthTypeDigest,
        username := getV s (asc "username=\""), realm := getV s (asc "realm=\""), nonce := getV s (asc "nonce=\""),
        uri := getV s (asc "uri=\""), algorithm := getV s (asc "algorithm=\""), response := getV s (asc "response=\""),
        opaqueV := getV s (asc "opaque=\""), stale := getV s (asc "stale=\"") } := by
  unfold parseAuthorization
  have h : hasPrefix (digestPrefix ++ s) digestPrefix = true := hasPrefix_iff.mpr ⟨s, rfl⟩
  simp only [h1, h, if_true, trimPrefix_append]
  rfl

theorem basic_pass_iff {E : Ext} (conf : AuthConf) (a : AuthSt) (m auth fresh : Bytes)
    (hm : conf.method = 0) (hne : auth ≠ []) (hu : (58 : UInt8) ∉ conf.username) :
    (handleAuthorized E conf a m auth fresh).2 = .pass ↔ ValidBasic E conf auth := by
  rw [handle_pass0_iff E conf a m auth fresh hne hm]
  by_cases hb : hasPrefix auth basicPrefix = true
  · obtain ⟨c, hc⟩ := hasPrefix_iff.mp hb
    subst hc
    rw [parse_basic]
    unfold ValidBasic
    cases hd : E.b64dec c with
    | none =>
      simp only [List.append_cancel_left_eq, exists_eq_left', hd]
      constructor
      · intro h; exact absurd h.1.symm basic_ne_nil
      · intro h; cases h
    | some info =>
      dsimp only
      cases hc2 : cut2 58 info with
      | none =>
        simp only [List.append_cancel_left_eq, exists_eq_left', hd, Option.some.injEq]
        constructor
        · intro h; exact absurd h.1.symm basic_ne_nil
        · intro h
          have := (cut2_eq_some_iff (c := 58) (s := info) (a := conf.username) (b := conf.password)).mpr ⟨h, hu⟩
          rw [hc2] at this; cases this
      | some up =>
        obtain ⟨u, p⟩ := up
        simp only [List.append_cancel_left_eq, exists_eq_left', hd, Option.some.injEq, true_and]
        unfold checkAuthorization
        simp only [if_true]
        have hcut := cut2_eq_some_iff.mp hc2
        constructor
        · intro h
          have h' : conf.username = u ∧ conf.password = p := by simpa using h
          rw [hcut.1, h'.1, h'.2]
        · intro h
          have := (cut2_eq_some_iff (c := 58) (s := info) (a := conf.username) (b := conf.password)).mpr ⟨h, hu⟩
          rw [hc2] at this
          simp only [Option.some.injEq, Prod.mk.injEq] at this
          simp [this.1, this.2]
  · have hb' : hasPrefix auth basicPrefix = false := by simpa using hb
    constructor
    · intro h
      exfalso
      by_cases hd : hasPrefix auth digestPrefix = true
      · obtain ⟨s, hs⟩ := hasPrefix_iff.mp hd
        subst hs
        rw [parse_digest E a s hb'] at h
        exact basic_ne_digest h.1.symm
      · have := parse_other_typ E a auth hb' (by simpa using hd)
        rw [this] at h
        exact basic_ne_nil h.1.symm
    · intro ⟨c, hc, _⟩
      exact absurd (hasPrefix_iff.mpr ⟨c, hc⟩) hb

theorem digest_pass_iff {E : Ext} (conf : AuthConf) (a : AuthSt) (m auth fresh : Bytes)
    (hm : conf.method = 1) (hne : auth ≠ []) :
    (handleAuthorized E conf a m auth fresh).2 = .pass ↔ ValidDigest E conf a.issued m auth := by
  rw [handle_pass1_iff E conf a m auth fresh hne hm]
  by_cases hb : hasPrefix auth basicPrefix = true
  · constructor
    · intro h
      exfalso
      obtain ⟨c, hc⟩ := hasPrefix_iff.mp hb
      subst hc
      rw [parse_basic] at h
      cases hd : E.b64dec c with
      | none => rw [hd] at h; exact digest_ne_nil h.1.symm
      | some info =>
        rw [hd] at h
        dsimp only at h
        cases hc2 : cut2 58 info with
        | none => rw [hc2] at h; exact digest_ne_nil h.1.symm
        | some up => rw [hc2] at h; exact basic_ne_digest h.1
    · intro ⟨s, _, h2, _⟩
      rw [hb] at h2; cases h2
  · have hb' : hasPrefix auth basicPrefix = false := by simpa using hb
    by_cases hd : hasPrefix auth digestPrefix = true
    · obtain ⟨s, hs⟩ := hasPrefix_iff.mp hd
      subst hs
      rw [parse_digest E a s hb']
      unfold checkAuthorization ValidDigest
      simp only [if_neg basic_ne_digest.symm, if_true, List.append_cancel_left_eq, exists_eq_left', hb', true_and]
      rw [decide_eq_true_eq]
      constructor
      · intro ⟨h1, h2, h3⟩
        refine ⟨h1, h2, ?_⟩
        rw [h3, h2]
      · intro ⟨h1, h2, h3⟩
        refine ⟨h1, h2, ?_⟩
        rw [h3, h2]
    · have hd' : hasPrefix auth digestPrefix = false := by simpa using hd
      constructor
      · intro h
        rw [parse_other_typ E a auth hb' hd'] at h
        exact absurd h.1.symm digest_ne_nil
      · intro ⟨s, hs, _⟩
        exact absurd (hasPrefix_iff.mpr ⟨s, hs⟩) hd

theorem handle_empty_not_pass (E : Ext) (conf : AuthConf) (a : AuthSt) (m fresh : Bytes) :
    (handleAuthorized E conf a m [] fresh).2 ≠ .pass := by
  unfold handleAuthorized makeAuthenticate
  simp only [ne_eq, not_true_eq_false, if_false]
  split
  · simp
  · split <;> simp [basic_ne_digest.symm]

/-- without an Authorization header a Digest server issues `fresh` and remembers it -/
theorem handle_empty_digest (E : Ext) (conf : AuthConf) (a : AuthSt) (m fresh : Bytes) (hm : conf.method = 1) :
    handleAuthorized E conf a m [] fresh =
      ({ a with issued := fresh },
       .challenge (Gen.c14AuthTypeDigest ++ asc " realm=\"" ++ Gen.c14RtspRealm ++ asc "\", nonce=\"" ++ fresh ++ asc "\"")) := by
  unfold handleAuthorized makeAuthenticate
  have h0 : conf.method ≠ 0 := by omega
  simp [h0, hm, basic_ne_digest.symm]

theorem handle_empty_basic (E : Ext) (conf : AuthConf) (a : AuthSt) (m fresh : Bytes) (hm : conf.method = 0) :
    handleAuthorized E conf a m [] fresh =
      (a, .challenge (Gen.c14AuthTypeBasic ++ asc " realm=\"" ++ Gen.c14RtspRealm ++ asc "\"")) := by
  unfold handleAuthorized makeAuthenticate
  simp [hm]

/-! ### blacklist -/

/-- what the blacklist holds about `ip` while nobody adds `ip` again: every entry for `ip` runs until
    `until`, and there is one as long as no call has been made after `until` -/
def BlInv (ip : Bytes) (until_ t : Int) (l : Blacklist) : Prop :=
  (∀ e ∈ l, e.1 = ip → e.2 = until_) ∧ (t ≤ until_ → (ip, until_) ∈ l)

theorem blInv_add_self (l : Blacklist) (ip : Bytes) (d t0 t : Int) : BlInv ip (t0 + d) t (blAdd l ip d t0) := by
  unfold BlInv blAdd
  constructor
  · intro e he h1
    rcases List.mem_cons.mp he with h | h
    · rw [h]
    · have := (List.mem_filter.mp h).2
      simp [h1] at this
  · intro _; exact List.mem_cons_self

theorem blInv_add_other {ip ip' : Bytes} {u t : Int} {l : Blacklist} (h : BlInv ip u t l) (hne : ip' ≠ ip) (d t' : Int) :
    BlInv ip u t (blAdd l ip' d t') := by
  unfold BlInv blAdd at *
  constructor
  · intro e he h1
    rcases List.mem_cons.mp he with h2 | h2
    · rw [h2] at h1; exact absurd h1 hne
    · exact h.1 e (List.mem_filter.mp h2).1 h1
  · intro ht
    refine List.mem_cons_of_mem _ (List.mem_filter.mpr ⟨h.2 ht, ?_⟩)
    simp [Ne.symm hne]

theorem blInv_has {ip : Bytes} {u t : Int} {l : Blacklist} (h : BlInv ip u t l) (ip' : Bytes) (t' : Int) (ht' : t' ≤ t) :
    BlInv ip u t (blHas l ip' t').1 := by
  unfold BlInv blHas blErase at *
  constructor
  · intro e he h1
    exact h.1 e (List.mem_filter.mp he).1 h1
  · intro ht
    refine List.mem_filter.mpr ⟨h.2 ht, ?_⟩
    simp only [decide_eq_true_eq]
    omega

theorem blInv_run {ip : Bytes} {u t : Int} (ops : List (BlOp × Int)) :
    ∀ {l : Blacklist}, BlInv ip u t l → (∀ o ∈ ops, o.2 ≤ t ∧ ∀ d, o.1 ≠ .add ip d) → BlInv ip u t (blRun l ops) := by
  induction ops with
  | nil => intro l h _; exact h
  | cons o r ih =>
    intro l h hops
    obtain ⟨op, t'⟩ := o
    have ho := hops (op, t') List.mem_cons_self
    have hr : ∀ o ∈ r, o.2 ≤ t ∧ ∀ d, o.1 ≠ .add ip d := fun o ho' => hops o (List.mem_cons_of_mem _ ho')
    cases op with
    | add ip' d =>
      have hne : ip' ≠ ip := fun e => ho.2 d (by rw [e])
      exact ih (blInv_add_other h hne d t') hr
    | has ip' => exact ih (blInv_has h ip' t' ho.1) hr

theorem blHas_of_inv {ip : Bytes} {u t : Int} {l : Blacklist} (h : BlInv ip u t l) :
    (blHas l ip t).2 = decide (t ≤ u) := by
  unfold blHas blErase
  by_cases ht : t ≤ u
  · simp only [ht, decide_true]
    rw [List.any_eq_true]
    refine ⟨(ip, u), List.mem_filter.mpr ⟨h.2 ht, ?_⟩, by simp⟩
    simp only [decide_eq_true_eq]; omega
  · simp only [ht, decide_false]
    rw [List.any_eq_false]
    intro e he
    have hm := List.mem_filter.mp he
    simp only [decide_eq_true_eq]
    intro h1
    have := h.1 e hm.1 h1
    have h2 : ¬ e.2 < t := by simpa using hm.2
    omega

end Lal.Auth
