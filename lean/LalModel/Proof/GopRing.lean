import LalModel.Model.GopCache
/-
  remux.GopCache's ring of GOPs refines a plain queue of GOPs: `gops g` (oldest first) behaves like a
  list with push-back, drop-oldest-when-full and append-to-newest.
-/
set_option linter.unusedSimpArgs false
set_option linter.unusedVariables false
namespace Lal.GopCache

/-- the cached GOPs, oldest first -/
def gops (g : T) : List (List Bytes) := (List.range (gopCount g)).map (gopDataAt g)

/-- ring well-formedness: `NewGopCache` establishes it, every operation keeps it -/
structure WF (g : T) : Prop where
  size : g.gopSize ≥ 1
  len : g.ring.length = g.gopSize
  first : g.first < g.gopSize
  last : g.last < g.gopSize

theorem mod_lt2 (a n : Nat) (hn : n > 0) (h : a < 2 * n) : a % n = if a < n then a else a - n := by
  split
  · rename_i hlt; exact Nat.mod_eq_of_lt hlt
  · rename_i hge
    have : a - n < n := by omega
    rw [Nat.mod_eq_sub_mod (by omega), Nat.mod_eq_of_lt this]

theorem wf_new (gopNum cap : Nat) : WF (new gopNum cap) := by
  refine ⟨by simp [new], by simp [new], by simp [new], by simp [new]⟩

theorem gopCount_eq (g : T) (h : WF g) :
    gopCount g = if g.first ≤ g.last then g.last - g.first else g.last + g.gopSize - g.first := by
  have := h.first; have := h.last
  unfold gopCount
  rw [mod_lt2 _ _ (by omega) (by omega)]
  split <;> split <;> omega

theorem gopCount_lt (g : T) (h : WF g) : gopCount g < g.gopSize := by
  rw [gopCount_eq g h]; have := h.first; have := h.last; split <;> omega

/-- the ring slot of the `pos`-th cached GOP -/
def slot (g : T) (pos : Nat) : Nat := (pos + g.first) % g.gopSize

theorem slot_eq (g : T) (h : WF g) (pos : Nat) (hp : pos < g.gopSize) :
    slot g pos = if pos + g.first < g.gopSize then pos + g.first else pos + g.first - g.gopSize := by
  have := h.first
  unfold slot
  exact mod_lt2 _ _ (by omega) (by omega)

theorem gops_length (g : T) : (gops g).length = gopCount g := by simp [gops]

theorem gops_new (n c : Nat) : gops (new n c) = [] := by
  simp [gops, gopCount, new]

theorem gops_clear (g : T) (h : WF g) : gops (clear g) = [] := by
  have := h.size
  simp [gops, gopCount, clear]

theorem wf_clear (g : T) (h : WF g) : WF (clear g) :=
  ⟨h.size, h.len, by simp [clear]; exact h.size, by simp [clear]; exact h.size⟩

theorem getD_set_ne {α} (l : List α) (i j : Nat) (v d : α) (h : i ≠ j) : ((l.set i v)[j]?).getD d = (l[j]?).getD d := by
  rw [List.getElem?_set_ne h]

theorem getD_set_eq {α} (l : List α) (i : Nat) (v d : α) (h : i < l.length) : ((l.set i v)[i]?).getD d = v := by
  rw [List.getElem?_set_self h]; rfl

theorem slot_lt (g : T) (h : WF g) (pos : Nat) : slot g pos < g.gopSize := Nat.mod_lt _ (by have := h.size; omega)

/-- the slots of the cached GOPs are the cyclic interval [first, last): none of them is `last` -/
theorem slot_ne_last (g : T) (h : WF g) (j : Nat) (hj : j < gopCount g) : slot g j ≠ g.last := by
  have hc := gopCount_eq g h
  have := h.first; have := h.last
  have hjs : j < g.gopSize := Nat.lt_trans hj (gopCount_lt g h)
  rw [slot_eq g h j hjs]
  split at hc <;> split <;> omega

theorem slot_count (g : T) (h : WF g) : slot g (gopCount g) = g.last := by
  have hc := gopCount_eq g h
  have := h.first; have := h.last
  rw [slot_eq g h _ (gopCount_lt g h)]
  split at hc <;> split <;> omega

theorem slot_inj (g : T) (h : WF g) (i j : Nat) (hi : i < g.gopSize) (hj : j < g.gopSize) (e : slot g i = slot g j) : i = j := by
  have := h.first
  rw [slot_eq g h i hi, slot_eq g h j hj] at e
  split at e <;> split at e <;> omega

theorem gopDataAt_eq (g : T) (pos : Nat) (hp : pos < gopCount g) : gopDataAt g pos = (g.ring[slot g pos]?).getD [] := by
  unfold gopDataAt slot
  have : ¬ pos ≥ gopCount g := by omega
  simp [this]

theorem isFull_iff (g : T) (h : WF g) (h2 : g.gopSize ≥ 2) : isFull g = true ↔ gopCount g = g.gopSize - 1 := by
  have hc := gopCount_eq g h
  have := h.first; have := h.last
  unfold isFull
  rw [mod_lt2 _ _ (by omega) (by omega)]
  simp only [beq_iff_eq]
  split <;> split at hc <;> omega

theorem isEmpty_iff (g : T) (h : WF g) : isEmpty g = true ↔ gopCount g = 0 := by
  have hc := gopCount_eq g h
  have := h.first; have := h.last
  unfold isEmpty
  simp only [beq_iff_eq]
  split at hc <;> omega

theorem gops_get? (g : T) (i : Nat) :
    (gops g)[i]? = if i < gopCount g then some (gopDataAt g i) else none := by
  simp only [gops, List.getElem?_map, List.getElem?_range]
  split <;> simp_all

theorem tail_get? {α} (l : List α) (i : Nat) : l.tail[i]? = l[i + 1]? := by
  cases l <;> simp

theorem snoc_get? {α} (l : List α) (x : α) (i : Nat) :
    (l ++ [x])[i]? = if i < l.length then l[i]? else if i = l.length then some x else none := by
  by_cases h : i < l.length
  · simp [h, List.getElem?_append_left h]
  · simp only [h, if_false]
    rw [List.getElem?_append_right (by omega)]
    by_cases h2 : i = l.length
    · simp [h2]
    · have : i - l.length ≥ 1 := by omega
      simp only [h2, if_false]
      cases hh : i - l.length with
      | zero => omega
      | succ k => simp

/-- `feedNewGop`: push a new GOP; the oldest is dropped when the ring is full -/
theorem gops_feedNewGop (g : T) (h : WF g) (h2 : g.gopSize ≥ 2) (item : Bytes) :
    WF (feedNewGop g item) ∧
    gops (feedNewGop g item) =
      (if gopCount g = g.gopSize - 1 then (gops g).tail else gops g) ++ [[item]] := by
  have hf := h.first; have hl := h.last; have hlen := h.len
  have hcount := gopCount_eq g h
  have hclt := gopCount_lt g h
  by_cases hfull : gopCount g = g.gopSize - 1
  · -- full: drop the oldest
    have hisf : isFull g = true := (isFull_iff g h h2).mpr hfull
    have e : feedNewGop g item =
        { g with first := (g.first + 1) % g.gopSize, ring := g.ring.set g.last [item], last := (g.last + 1) % g.gopSize } := by
      simp [feedNewGop, hisf, setRing]
    have hf' : (g.first + 1) % g.gopSize = if g.first + 1 < g.gopSize then g.first + 1 else g.first + 1 - g.gopSize :=
      mod_lt2 _ _ (by omega) (by omega)
    have hl' : (g.last + 1) % g.gopSize = if g.last + 1 < g.gopSize then g.last + 1 else g.last + 1 - g.gopSize :=
      mod_lt2 _ _ (by omega) (by omega)
    have hwf : WF (feedNewGop g item) := by
      rw [e]
      refine ⟨h.size, by simp [hlen], ?_, ?_⟩
      · show (g.first + 1) % g.gopSize < g.gopSize; exact Nat.mod_lt _ (by omega)
      · show (g.last + 1) % g.gopSize < g.gopSize; exact Nat.mod_lt _ (by omega)
    refine ⟨hwf, ?_⟩
    simp only [hfull, if_true]
    have hc' : gopCount (feedNewGop g item) = g.gopSize - 1 := by
      rw [gopCount_eq _ hwf, e]
      simp only [hf', hl']
      split at hcount <;> split <;> split <;> split <;> omega
    have hring : (feedNewGop g item).ring = g.ring.set g.last [item] := by rw [e]
    have hsz : (feedNewGop g item).gopSize = g.gopSize := by rw [e]
    apply List.ext_getElem?
    intro i
    rw [gops_get?, hc', snoc_get?, tail_get?, gops_get?]
    have htl : (gops g).tail.length = g.gopSize - 2 := by simp [gops_length, hfull]; omega
    rw [htl]
    by_cases hi : i < g.gopSize - 1
    · simp only [hi, if_true]
      rw [gopDataAt_eq _ i (by rw [hc']; exact hi)]
      have hs : slot (feedNewGop g item) i = slot g (i + 1) := by
        rw [slot_eq _ hwf i (by rw [hsz]; omega), slot_eq g h (i + 1) (by omega), e]
        simp only [hf']
        split <;> split <;> split <;> omega
      rw [hs, hring]
      by_cases hlast : i = g.gopSize - 2
      · have h1 : ¬ i < g.gopSize - 2 := by omega
        simp only [h1, if_false, hlast, if_true]
        have : slot g (g.gopSize - 2 + 1) = g.last := by
          have : g.gopSize - 2 + 1 = gopCount g := by omega
          rw [this]; exact slot_count g h
        rw [this, getD_set_eq _ _ _ _ (by omega)]
        simp
      · have h1 : i < g.gopSize - 2 := by omega
        have hlt : i + 1 < gopCount g := by omega
        simp only [h1, if_true, hlt]
        rw [getD_set_ne _ _ _ _ _ (Ne.symm (slot_ne_last g h (i + 1) hlt)), gopDataAt_eq g (i + 1) hlt]
    · have h1 : ¬ i < g.gopSize - 2 := by omega
      have h3 : ¬ i = g.gopSize - 2 := by omega
      simp [hi, h1, h3]
  · -- not full
    have hisf : isFull g = false := by
      cases hh : isFull g with
      | false => rfl
      | true => exact absurd ((isFull_iff g h h2).mp hh) hfull
    have e : feedNewGop g item = { g with ring := g.ring.set g.last [item], last := (g.last + 1) % g.gopSize } := by
      simp [feedNewGop, hisf, setRing]
    have hl' : (g.last + 1) % g.gopSize = if g.last + 1 < g.gopSize then g.last + 1 else g.last + 1 - g.gopSize :=
      mod_lt2 _ _ (by omega) (by omega)
    have hwf : WF (feedNewGop g item) := by
      rw [e]
      exact ⟨h.size, by simp [hlen], hf, by show (g.last + 1) % g.gopSize < g.gopSize; exact Nat.mod_lt _ (by omega)⟩
    refine ⟨hwf, ?_⟩
    simp only [hfull, if_false]
    have hc' : gopCount (feedNewGop g item) = gopCount g + 1 := by
      rw [gopCount_eq _ hwf, e]
      simp only [hl']
      split at hcount <;> split <;> split <;> omega
    have hring : (feedNewGop g item).ring = g.ring.set g.last [item] := by rw [e]
    apply List.ext_getElem?
    intro i
    rw [gops_get?, hc', snoc_get?, gops_get?, gops_length]
    by_cases hi : i < gopCount g
    · have hi' : i < gopCount g + 1 := by omega
      simp only [hi, hi', if_true]
      rw [gopDataAt_eq _ i (by rw [hc']; exact hi')]
      have hs : slot (feedNewGop g item) i = slot g i := by rw [e]; rfl
      rw [hs, hring, getD_set_ne _ _ _ _ _ (Ne.symm (slot_ne_last g h i hi)), gopDataAt_eq g i hi]
    · by_cases hlast : i = gopCount g
      · have hi' : i < gopCount g + 1 := by omega
        simp only [hi, hi', hlast, if_true, if_false, Nat.lt_irrefl]
        rw [gopDataAt_eq _ _ (by rw [hc']; omega)]
        have hs : slot (feedNewGop g item) (gopCount g) = slot g (gopCount g) := by rw [e]; rfl
        rw [hs, hring, slot_count g h, getD_set_eq _ _ _ _ (by omega)]
        simp
      · have hi' : ¬ i < gopCount g + 1 := by omega
        simp [hi, hi', hlast]

/-- `feedLastGop`: append to the newest GOP unless it is over the frame limit (or nothing is cached) -/
theorem gops_feedLastGop (g : T) (h : WF g) (item : Bytes) :
    WF (feedLastGop g item).1 ∧
    gops (feedLastGop g item).1 =
      (if gopCount g = 0 then gops g
       else if (gopDataAt g (gopCount g - 1)).length < g.cap ∨ g.cap = 0
         then (gops g).set (gopCount g - 1) (gopDataAt g (gopCount g - 1) ++ [item])
         else gops g) := by
  have hf := h.first; have hl := h.last; have hlen := h.len; have hsz := h.size
  have hcount := gopCount_eq g h
  have hclt := gopCount_lt g h
  by_cases hz : gopCount g = 0
  · have he : isEmpty g = true := (isEmpty_iff g h).mpr hz
    have e : feedLastGop g item = (g, true) := by simp [feedLastGop, he]
    rw [e]; simp [hz]; exact h
  · have he : isEmpty g = false := by
      cases hh : isEmpty g with
      | false => rfl
      | true => exact absurd ((isEmpty_iff g h).mp hh) hz
    have hpos : (g.last + g.gopSize - 1) % g.gopSize = slot g (gopCount g - 1) := by
      rw [slot_eq g h _ (by omega), mod_lt2 _ _ (by omega) (by omega)]
      split at hcount <;> split <;> split <;> omega
    have hcur : (g.ring[(g.last + g.gopSize - 1) % g.gopSize]?).getD [] = gopDataAt g (gopCount g - 1) := by
      rw [hpos, gopDataAt_eq g _ (by omega)]
    simp only [hz, if_false]
    by_cases hc : (gopDataAt g (gopCount g - 1)).length < g.cap ∨ g.cap = 0
    · have e : feedLastGop g item =
          (setRing g ((g.last + g.gopSize - 1) % g.gopSize) (gopDataAt g (gopCount g - 1) ++ [item]), true) := by
        simp only [feedLastGop, he, Bool.not_false, if_true, hcur]
        have : ((gopDataAt g (gopCount g - 1)).length < g.cap || g.cap == 0) = true := by
          rcases hc with h1 | h1
          · simp [h1]
          · simp [h1]
        simp [this]
      rw [e]
      simp only [hc, if_true]
      have hwf : WF (setRing g ((g.last + g.gopSize - 1) % g.gopSize) (gopDataAt g (gopCount g - 1) ++ [item])) :=
        ⟨h.size, by simp [setRing, hlen], hf, hl⟩
      refine ⟨hwf, ?_⟩
      have hcnt : gopCount (setRing g ((g.last + g.gopSize - 1) % g.gopSize) (gopDataAt g (gopCount g - 1) ++ [item]))
          = gopCount g := rfl
      apply List.ext_getElem?
      intro i
      rw [gops_get?, hcnt, List.getElem?_set, gops_get?]
      by_cases hi : i < gopCount g
      · simp only [hi, if_true]
        rw [gopDataAt_eq _ i (by rw [hcnt]; exact hi)]
        have hs : slot (setRing g ((g.last + g.gopSize - 1) % g.gopSize) (gopDataAt g (gopCount g - 1) ++ [item])) i = slot g i := rfl
        rw [hs]
        have hr : (setRing g ((g.last + g.gopSize - 1) % g.gopSize) (gopDataAt g (gopCount g - 1) ++ [item])).ring
            = g.ring.set (slot g (gopCount g - 1)) (gopDataAt g (gopCount g - 1) ++ [item]) := by
          simp [setRing, hpos]
        rw [hr]
        by_cases hil : gopCount g - 1 = i
        · subst hil
          rw [getD_set_eq _ _ _ _ (by rw [hlen]; exact slot_lt g h _)]
          have : gopCount g - 1 < (gops g).length := by rw [gops_length]; omega
          simp [this]
        · have hne : slot g (gopCount g - 1) ≠ slot g i := by
            intro e2; exact hil (slot_inj g h _ _ (by omega) (by omega) e2)
          rw [getD_set_ne _ _ _ _ _ hne, gopDataAt_eq g i hi]
          simp [hil]
      · simp only [hi, if_false]
        by_cases h3 : gopCount g - 1 = i
        · omega
        · simp [h3]
    · have e : feedLastGop g item = (g, false) := by
        simp only [feedLastGop, he, Bool.not_false, if_true, hcur]
        have : ((gopDataAt g (gopCount g - 1)).length < g.cap || g.cap == 0) = false := by
          have h1 : ¬ (gopDataAt g (gopCount g - 1)).length < g.cap := fun x => hc (Or.inl x)
          have h2 : ¬ g.cap = 0 := fun x => hc (Or.inr x)
          simp [h1, h2]
        simp [this]
      rw [e]; simp only [hc, if_false]; exact ⟨h, trivial⟩

/-! ### the whole `Feed` as a step on the queue of GOPs -/

/-- what `Feed` does to the queue of cached GOPs (oldest first) -/
def specFeed (gopNum cap : Nat) (G : List (List Bytes)) (hdrChanged : Bool) (isHdr key : Bool) (item : Bytes) :
    List (List Bytes) :=
  if isHdr then (if hdrChanged then [] else G)
  else if gopNum = 0 then G
  else if key then (if G.length = gopNum then G.tail else G) ++ [[item]]
  else match G.getLast? with
    | none => G
    | some lastG => if lastG.length < cap ∨ cap = 0 then G.dropLast ++ [lastG ++ [item]] else G

theorem allGopData_eq (g : T) : allGopData g = (gops g).flatten := by
  simp [allGopData, gops, List.flatMap]

theorem gops_reset (g : T) (h : WF g) : gops ({ g with first := 0, last := 0 } : T) = [] := by
  have := h.size
  simp [gops, gopCount]

theorem set_last_eq {α} (l : List α) (x : α) (h : l ≠ []) (v : α) (hv : l.getLast? = some x) :
    l.set (l.length - 1) v = l.dropLast ++ [v] := by
  induction l with
  | nil => exact absurd rfl h
  | cons a as ih =>
    cases as with
    | nil => simp
    | cons b bs =>
      have hne : (b :: bs) ≠ [] := by simp
      have hv' : (b :: bs).getLast? = some x := by simpa [List.getLast?_cons_cons] using hv
      have := ih hne hv'
      simp only [List.length_cons] at this ⊢
      simp only [List.dropLast_cons₂, List.cons_append]
      have e : bs.length + 1 + 1 - 1 = (bs.length + 1 - 1) + 1 := by omega
      rw [e, List.set_cons_succ, this]

theorem wf_congr {g g' : T} (hr : g'.ring = g.ring) (hf : g'.first = g.first) (hl : g'.last = g.last)
    (hs : g'.gopSize = g.gopSize) (h : WF g) : WF g' :=
  ⟨by rw [hs]; exact h.size, by rw [hr, hs]; exact h.len, by rw [hf, hs]; exact h.first, by rw [hl, hs]; exact h.last⟩

theorem gops_congr {g g' : T} (hr : g'.ring = g.ring) (hf : g'.first = g.first) (hl : g'.last = g.last)
    (hs : g'.gopSize = g.gopSize) : gops g' = gops g := by
  simp [gops, gopCount, gopDataAt, hr, hf, hl, hs]

/-- storing a sequence header: the cached GOPs are dropped iff its content changed -/
theorem gops_header (g g1 g2 : T) (h : WF g) (changed : Bool)
    (hg1 : g1 = if changed then { g with first := 0, last := 0 } else g)
    (hr : g2.ring = g1.ring) (hf : g2.first = g1.first) (hl : g2.last = g1.last) (hs : g2.gopSize = g1.gopSize)
    (hc : g2.cap = g1.cap) :
    WF g2 ∧ g2.gopSize = g.gopSize ∧ g2.cap = g.cap ∧ gops g2 = if changed then [] else gops g := by
  cases changed with
  | true =>
    simp only [if_true] at hg1
    have hw1 : WF g1 := by rw [hg1]; exact ⟨h.size, h.len, h.size, h.size⟩
    refine ⟨wf_congr hr hf hl hs hw1, by rw [hs, hg1], by rw [hc, hg1], ?_⟩
    rw [gops_congr hr hf hl hs, hg1]; simp; exact gops_reset g h
  | false =>
    simp only [Bool.false_eq_true, if_false] at hg1
    subst hg1
    exact ⟨wf_congr hr hf hl hs h, hs, hc, by rw [gops_congr hr hf hl hs]; simp⟩

/-- `GopCache.Feed` refines `specFeed` on the queue of GOPs and keeps the ring well-formed -/
theorem gops_feed (g : T) (h : WF g) (typ : Nat) (payload item : Bytes) :
    WF (feed g typ payload item).1 ∧ (feed g typ payload item).1.gopSize = g.gopSize ∧
    (feed g typ payload item).1.cap = g.cap ∧
    gops (feed g typ payload item).1 =
      specFeed (g.gopSize - 1) g.cap (gops g)
        ((typ == 8 && Classify.isAacSeqHeader typ payload && (match g.ashPayload with | some o => o != payload | none => false)) ||
         (typ == 9 && Classify.isVideoKeySeqHeader typ payload && (match g.vshPayload with | some o => o != payload | none => false)))
        (typ == 18 || (typ == 8 && Classify.isAacSeqHeader typ payload) || (typ == 9 && Classify.isVideoKeySeqHeader typ payload))
        (Classify.isVideoKeyNalu typ payload) item := by
  unfold feed
  by_cases h18 : (typ == 18) = true
  · have t18 : typ = 18 := by simpa using h18
    subst t18
    simp only [specFeed]
    exact ⟨h, rfl, rfl, by simp⟩
  · simp only [h18, if_false, Bool.false_eq_true, Bool.false_or]
    by_cases ha : (typ == 8 && Classify.isAacSeqHeader typ payload) = true
    · have t8 : typ = 8 := by
        have := ha; simp only [Bool.and_eq_true, beq_iff_eq] at this; exact this.1
      have h9 : (typ == 9) = false := by simp [t8]
      simp only [ha, if_true, Bool.true_or, specFeed, Bool.true_and, h9, Bool.false_and, Bool.or_false]
      cases hp : g.ashPayload with
      | none =>
        simp only [hp]
        refine ⟨wf_congr (g := g) rfl rfl rfl rfl h, by first | rfl | trivial, by first | rfl | trivial, ?_⟩
        refine (gops_congr (g := g) ?_ ?_ ?_ ?_).trans ?_ <;> first | rfl | simp
      | some old =>
        by_cases hne : (old != payload) = true
        · simp only [hp, hne, if_true]
          have hw0 : WF ({ g with first := 0, last := 0 } : T) := ⟨h.size, h.len, h.size, h.size⟩
          refine ⟨wf_congr (g := { g with first := 0, last := 0 }) rfl rfl rfl rfl hw0, by first | rfl | trivial,
            by first | rfl | trivial, ?_⟩
          refine (gops_congr (g := { g with first := 0, last := 0 }) ?_ ?_ ?_ ?_).trans ?_
          · rfl
          · rfl
          · rfl
          · rfl
          · first | (rw [gops_reset g h]; done) | (rw [gops_reset g h]; simp)
        · simp only [hp, hne, if_false, Bool.false_eq_true]
          refine ⟨wf_congr (g := g) rfl rfl rfl rfl h, by first | rfl | trivial, by first | rfl | trivial, ?_⟩
          refine (gops_congr (g := g) ?_ ?_ ?_ ?_).trans ?_ <;> first | rfl | simp
    · simp only [ha, if_false, Bool.false_eq_true, Bool.false_or]
      by_cases hv : (typ == 9 && Classify.isVideoKeySeqHeader typ payload) = true
      · simp only [hv, if_true, specFeed, Bool.true_and]
        cases hp : g.vshPayload with
        | none =>
          simp only [hp]
          refine ⟨wf_congr (g := g) rfl rfl rfl rfl h, by first | rfl | trivial, by first | rfl | trivial, ?_⟩
          refine (gops_congr (g := g) ?_ ?_ ?_ ?_).trans ?_ <;> first | rfl | simp
        | some old =>
          by_cases hne : (old != payload) = true
          · simp only [hp, hne, if_true]
            have hw0 : WF ({ g with first := 0, last := 0 } : T) := ⟨h.size, h.len, h.size, h.size⟩
            refine ⟨wf_congr (g := { g with first := 0, last := 0 }) rfl rfl rfl rfl hw0, by first | rfl | trivial,
              by first | rfl | trivial, ?_⟩
            refine (gops_congr (g := { g with first := 0, last := 0 }) ?_ ?_ ?_ ?_).trans ?_
            · rfl
            · rfl
            · rfl
            · rfl
            · first | (rw [gops_reset g h]; done) | (rw [gops_reset g h]; simp)
          · simp only [hp, hne, if_false, Bool.false_eq_true]
            refine ⟨wf_congr (g := g) rfl rfl rfl rfl h, by first | rfl | trivial, by first | rfl | trivial, ?_⟩
            refine (gops_congr (g := g) ?_ ?_ ?_ ?_).trans ?_ <;> first | rfl | simp
      · simp only [hv, if_false, Bool.false_eq_true, specFeed]
        by_cases hsz : g.gopSize > 1
        · have hz : ¬ (g.gopSize - 1 = 0) := by omega
          simp only [hsz, if_true, hz, if_false]
          by_cases hk : Classify.isVideoKeyNalu typ payload = true
          · simp only [hk, if_true]
            obtain ⟨hw, hg⟩ := gops_feedNewGop g h (by omega) item
            refine ⟨hw, ?_, ?_, ?_⟩
            · simp only [feedNewGop, setRing]; split <;> rfl
            · simp only [feedNewGop, setRing]; split <;> rfl
            · rw [hg, gops_length]
          · simp only [hk, if_false, Bool.false_eq_true]
            obtain ⟨hw, hg⟩ := gops_feedLastGop g h item
            refine ⟨hw, ?_, ?_, ?_⟩
            · simp only [feedLastGop, setRing]; split <;> (try split) <;> rfl
            · simp only [feedLastGop, setRing]; split <;> (try split) <;> rfl
            · rw [hg]
              by_cases hc0 : gopCount g = 0
              · have : gops g = [] := List.eq_nil_of_length_eq_zero (by rw [gops_length]; exact hc0)
                simp [hc0, this]
              · have hne : gops g ≠ [] := by
                  intro e; have := congrArg List.length e; rw [gops_length] at this; exact hc0 this
                have hlast : (gops g).getLast? = some (gopDataAt g (gopCount g - 1)) := by
                  rw [List.getLast?_eq_getElem?, gops_length, gops_get?]
                  have : gopCount g - 1 < gopCount g := by omega
                  simp [this]
                simp only [hc0, if_false, hlast]
                split
                · rw [← gops_length, set_last_eq _ _ hne _ hlast]
                · rfl
        · have hz : g.gopSize - 1 = 0 := by omega
          simp only [hsz, if_false, hz, if_true]
          exact ⟨h, trivial, trivial, trivial⟩

end Lal.GopCache
