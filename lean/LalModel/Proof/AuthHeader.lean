import LalModel.Proof.Auth
/-
  `Auth.getV` (lal's reader of `name="value"` parameters: first occurrence of `name="`, up to the next quote) on
  well-formed Digest headers: it returns the value of the parameter, provided no value contains a quote or ends
  with `=` (a value ending in `nonce=` would be mistaken for the nonce parameter).
-/
namespace Lal.Auth
open Lal.Str

theorem hasPrefix_nil (s : Bytes) : hasPrefix s [] = true := by simp [hasPrefix]

theorem hasPrefix_cons_cons (x y : UInt8) (s p : Bytes) : hasPrefix (x :: s) (y :: p) = (x == y && hasPrefix s p) := by
  simp [hasPrefix, List.take]

theorem hasPrefix_nil_cons (y : UInt8) (p : Bytes) : hasPrefix [] (y :: p) = false := by simp [hasPrefix]

/-- the comparison of `p` against `l` fails at a position inside both -/
def mism : Bytes → Bytes → Bool
  | x :: l, y :: p => x != y || mism l p
  | _, _ => false

theorem mism_hasPrefix {l p : Bytes} (h : mism l p = true) (rest : Bytes) : hasPrefix (l ++ rest) p = false := by
  induction l generalizing p with
  | nil => simp [mism] at h
  | cons x l ih =>
    cases p with
    | nil => simp [mism] at h
    | cons y p =>
      simp only [mism, Bool.or_eq_true, bne_iff_ne, ne_eq] at h
      rw [List.cons_append, hasPrefix_cons_cons]
      by_cases hxy : x = y
      · rcases h with h | h
        · exact absurd hxy h
        · rw [ih h]; simp
      · simp [hxy]

/-- at every position of the literal `lit` the comparison with `p` fails inside the literal -/
def allMism : Bytes → Bytes → Bool
  | [], _ => true
  | x :: l, p => mism (x :: l) p && allMism l p

theorem indexOf_cons (pat : Bytes) (x : UInt8) (r : Bytes) :
    indexOf pat (x :: r) = if hasPrefix (x :: r) pat then some 0 else (indexOf pat r).map (· + 1) := by
  rw [indexOf]
  split
  · rfl
  · cases indexOf pat r <;> rfl

theorem getV_skip {x : UInt8} {r pre : Bytes} (h : hasPrefix (x :: r) pre = false) : getV (x :: r) pre = getV r pre := by
  unfold getV
  rw [indexOf_cons, h]
  cases indexOf pre r with
  | none => rfl
  | some b =>
    simp only [Bool.false_eq_true, if_false, Option.map_some]
    have : (x :: r).drop (b + 1 + pre.length) = r.drop (b + pre.length) := by
      have : b + 1 + pre.length = (b + pre.length) + 1 := by omega
      rw [this, List.drop_succ_cons]
    rw [this]

theorem getV_skip_lit (lit rest pre : Bytes) (h : allMism lit pre = true) : getV (lit ++ rest) pre = getV rest pre := by
  induction lit with
  | nil => rfl
  | cons x l ih =>
    simp only [allMism, Bool.and_eq_true] at h
    rw [List.cons_append, getV_skip (by have := mism_hasPrefix h.1 rest; simpa using this), ih h.2]

/-- a value that lal reads back: no quote inside, not ending with `=` -/
def FieldOK (v : Bytes) : Prop := (34 : UInt8) ∉ v ∧ ¬ ∃ w, v = w ++ [61]

theorem fieldOK_tail {x : UInt8} {v : Bytes} (h : FieldOK (x :: v)) : FieldOK v :=
  ⟨fun hm => h.1 (List.mem_cons_of_mem _ hm), fun ⟨w, hw⟩ => h.2 ⟨x :: w, by rw [hw]; rfl⟩⟩

/-- a parameter pattern: `name="` with no quote in the name -/
def IsPattern (pat : Bytes) : Prop := ∃ k, pat = k ++ [61, 34] ∧ (34 : UInt8) ∉ k

theorem hasPrefix_value_false {v rest pat : Bytes} (hv : FieldOK v) (hne : v ≠ []) (hp : IsPattern pat) :
    hasPrefix (v ++ 34 :: rest) pat = false := by
  obtain ⟨k, hk, hkq⟩ := hp
  cases h : hasPrefix (v ++ 34 :: rest) pat with
  | false => rfl
  | true =>
    exfalso
    obtain ⟨t, ht⟩ := hasPrefix_iff.mp h
    rw [hk] at ht
    -- compare the position of the first quote on both sides
    have h1 : cut 34 (v ++ 34 :: rest) = (v, rest, true) := cut_append v rest hv.1
    have h2 : cut 34 ((k ++ [61]) ++ 34 :: t) = (k ++ [61], t, true) :=
      cut_append (k ++ [61]) t (by
        intro hm
        rcases List.mem_append.mp hm with h3 | h3
        · exact hkq h3
        · simp at h3)
    have h3 : v ++ 34 :: rest = (k ++ [61]) ++ 34 :: t := by rw [ht]; simp
    rw [h3, h2] at h1
    have : k ++ [61] = v := (Prod.mk.inj h1).1
    exact hv.2 ⟨k, this.symm⟩

theorem getV_skip_value (v rest pat : Bytes) (hv : FieldOK v) (hp : IsPattern pat) :
    getV (v ++ 34 :: rest) pat = getV (34 :: rest) pat := by
  induction v with
  | nil => rfl
  | cons x v ih =>
    rw [List.cons_append, getV_skip (by
      have := hasPrefix_value_false (rest := rest) hv (by simp) hp
      simpa using this), ih (fieldOK_tail hv)]

/-- at the parameter itself `getV` returns its value -/
theorem getV_hit (pat v rest : Bytes) (hq : (34 : UInt8) ∉ v) : getV (pat ++ v ++ 34 :: rest) pat = v := by
  unfold getV
  have h0 : indexOf pat (pat ++ v ++ 34 :: rest) = some 0 := by
    have hp : hasPrefix (pat ++ v ++ 34 :: rest) pat = true := hasPrefix_iff.mpr ⟨v ++ 34 :: rest, by simp⟩
    cases hs : pat ++ v ++ 34 :: rest with
    | nil =>
      have : pat = [] := by
        cases pat with
        | nil => rfl
        | cons _ _ => simp at hs
      simp [indexOf, this]
    | cons y r =>
      rw [hs] at hp
      rw [indexOf_cons, hp]; rfl
  rw [h0]
  simp only [Nat.zero_add]
  have hd : (pat ++ v ++ 34 :: rest).drop pat.length = v ++ 34 :: rest := by
    rw [List.append_assoc, List.drop_left]
  rw [hd]
  have h1 : indexOf [34] (v ++ 34 :: rest) = some v.length := by
    clear h0 hd
    induction v with
    | nil => simp [indexOf_cons, hasPrefix_cons_cons, hasPrefix_nil]
    | cons x v ih =>
      have hx : x ≠ 34 := fun e => hq (by simp [e])
      have hv : (34 : UInt8) ∉ v := fun e => hq (List.mem_cons_of_mem _ e)
      rw [List.cons_append, indexOf_cons, hasPrefix_cons_cons]
      simp [hx, ih hv]
  rw [h1]
  simp

/-! ### the Digest header lal's client (and every RFC 2617 client) sends -/

theorem getV_hit' (pat v rest : Bytes) (hq : (34 : UInt8) ∉ v) : getV (pat ++ (v ++ 34 :: rest)) pat = v := by
  rw [← List.append_assoc]; exact getV_hit pat v rest hq

/-- skip the first parameter -/
theorem getV_skip0 (b v t pat : Bytes) (h : allMism b pat = true) (hv : FieldOK v) (hp : IsPattern pat) :
    getV (b ++ (v ++ 34 :: t)) pat = getV (34 :: t) pat := by
  rw [getV_skip_lit _ _ _ h, getV_skip_value _ _ _ hv hp]

/-- skip a later parameter: closing quote of the previous one, separator `a`, name `b`, value -/
theorem getV_skipN (a b v t pat : Bytes) (h : allMism (34 :: a ++ b) pat = true) (hv : FieldOK v) (hp : IsPattern pat) :
    getV (34 :: (a ++ (b ++ (v ++ 34 :: t)))) pat = getV (34 :: t) pat := by
  have : (34 : UInt8) :: (a ++ (b ++ (v ++ 34 :: t))) = (34 :: a ++ b) ++ (v ++ 34 :: t) := by simp
  rw [this, getV_skip_lit _ _ _ h, getV_skip_value _ _ _ hv hp]

/-- arrive at the parameter looked for -/
theorem getV_hitN (a v t pat : Bytes) (h : allMism (34 :: a) pat = true) (hq : (34 : UInt8) ∉ v) :
    getV (34 :: (a ++ (pat ++ (v ++ 34 :: t)))) pat = v := by
  have : (34 : UInt8) :: (a ++ (pat ++ (v ++ 34 :: t))) = (34 :: a) ++ (pat ++ (v ++ 34 :: t)) := by simp
  rw [this, getV_skip_lit _ _ _ h, getV_hit' _ _ _ hq]

/-- the parameter list after `Digest `, as `MakeAuthorization` prints it -/
def digestParams (user realm nonce uri response alg : Bytes) : Bytes :=
  asc "username=\"" ++ (user ++ 34 :: (asc ", " ++ (asc "realm=\"" ++ (realm ++ 34 :: (asc ", " ++ (asc "nonce=\"" ++ (nonce ++ 34 ::
    (asc ", " ++ (asc "uri=\"" ++ (uri ++ 34 :: (asc ", " ++ (asc "response=\"" ++ (response ++ 34 :: (asc ", " ++ (asc "algorithm=\"" ++
    (alg ++ 34 :: []))))))))))))))))

theorem isPattern_realm : IsPattern (asc "realm=\"") := ⟨asc "realm", by decide, by decide⟩
theorem isPattern_nonce : IsPattern (asc "nonce=\"") := ⟨asc "nonce", by decide, by decide⟩
theorem isPattern_uri : IsPattern (asc "uri=\"") := ⟨asc "uri", by decide, by decide⟩
theorem isPattern_response : IsPattern (asc "response=\"") := ⟨asc "response", by decide, by decide⟩

theorem getV_digestParams {user realm nonce uri response alg : Bytes}
    (hu : FieldOK user) (hr : FieldOK realm) (hn : FieldOK nonce) (hx : FieldOK uri) (hp : FieldOK response) :
    getV (digestParams user realm nonce uri response alg) (asc "realm=\"") = realm ∧
    getV (digestParams user realm nonce uri response alg) (asc "nonce=\"") = nonce ∧
    getV (digestParams user realm nonce uri response alg) (asc "uri=\"") = uri ∧
    getV (digestParams user realm nonce uri response alg) (asc "response=\"") = response := by
  unfold digestParams
  refine ⟨?_, ?_, ?_, ?_⟩
  · rw [getV_skip0 _ _ _ _ (by decide) hu isPattern_realm, getV_hitN _ _ _ _ (by decide) hr.1]
  · rw [getV_skip0 _ _ _ _ (by decide) hu isPattern_nonce, getV_skipN _ _ _ _ _ (by decide) hr isPattern_nonce,
      getV_hitN _ _ _ _ (by decide) hn.1]
  · rw [getV_skip0 _ _ _ _ (by decide) hu isPattern_uri, getV_skipN _ _ _ _ _ (by decide) hr isPattern_uri,
      getV_skipN _ _ _ _ _ (by decide) hn isPattern_uri, getV_hitN _ _ _ _ (by decide) hx.1]
  · rw [getV_skip0 _ _ _ _ (by decide) hu isPattern_response, getV_skipN _ _ _ _ _ (by decide) hr isPattern_response,
      getV_skipN _ _ _ _ _ (by decide) hn isPattern_response, getV_skipN _ _ _ _ _ (by decide) hx isPattern_response,
      getV_hitN _ _ _ _ (by decide) hp.1]

/-! ### the header `MakeAuthorization` builds is of that form; what `FeedWwwAuthenticate` reads from the challenge -/

theorem fieldOK_of_hex {v : Bytes} (h : ∀ c ∈ v, isHexDigit c = true) : FieldOK v := by
  constructor
  · intro hm; have := h 34 hm; revert this; decide
  · intro ⟨w, hw⟩
    have := h 61 (by rw [hw]; simp)
    revert this; decide

theorem fieldOK_md5 {E : Ext} (hE : ExtLaws E) (x : Bytes) : FieldOK (E.md5hex x) := fieldOK_of_hex (hE.md5hexDigits x)

theorem makeAuthorization_digest (E : Ext) (a : AuthSt) (method uri : Bytes) (hu : a.username ≠ []) (ht : a.typ = Gen.c14AuthTypeDigest) :
    makeAuthorization E a method uri =
      digestPrefix ++ digestParams a.username a.realm a.nonce uri
        (digestResponse E a.username a.realm a.password a.nonce method uri) a.algorithm := by
  unfold makeAuthorization
  rw [if_neg hu, ht, if_neg basic_ne_digest.symm, if_pos rfl]
  have e1 : asc " username=\"" = 32 :: asc "username=\"" := by decide
  have e2 : asc "\", realm=\"" = 34 :: (asc ", " ++ asc "realm=\"") := by decide
  have e3 : asc "\", nonce=\"" = 34 :: (asc ", " ++ asc "nonce=\"") := by decide
  have e4 : asc "\", uri=\"" = 34 :: (asc ", " ++ asc "uri=\"") := by decide
  have e5 : asc "\", response=\"" = 34 :: (asc ", " ++ asc "response=\"") := by decide
  have e6 : asc "\", algorithm=\"" = 34 :: (asc ", " ++ asc "algorithm=\"") := by decide
  have e7 : asc "\"" = [34] := by decide
  rw [e1, e2, e3, e4, e5, e6, e7]
  simp only [digestPrefix, digestParams, List.append_assoc, List.cons_append, List.nil_append, List.singleton_append]

/-- the Digest challenge of `MakeAuthenticate` -/
def challengeOf (fresh : Bytes) : Bytes :=
  Gen.c14AuthTypeDigest ++ asc " realm=\"" ++ Gen.c14RtspRealm ++ asc "\", nonce=\"" ++ fresh ++ asc "\""

theorem challenge_shape (fresh : Bytes) :
    challengeOf fresh = asc "Digest realm=\"" ++ (Gen.c14RtspRealm ++ 34 :: (asc ", " ++ (asc "nonce=\"" ++ (fresh ++ 34 :: [])))) := by
  have e1 : Gen.c14AuthTypeDigest ++ asc " realm=\"" = asc "Digest realm=\"" := by decide
  have e2 : asc "\", nonce=\"" = 34 :: (asc ", " ++ asc "nonce=\"") := by decide
  have e3 : asc "\"" = [34] := by decide
  unfold challengeOf
  rw [e1, e2, e3]
  simp only [List.append_assoc, List.cons_append, List.nil_append, List.singleton_append]

theorem trimSpace_id (s : Bytes) (x y : UInt8) (t : Bytes) (hs : s = x :: (t ++ [y])) (hx : isSpace x = false) (hy : isSpace y = false) :
    trimSpace s = s := by
  subst hs
  unfold trimSpace
  simp [List.dropWhile, hx, hy]

theorem realm_fieldOK : FieldOK Gen.c14RtspRealm := by
  constructor
  · decide
  · intro ⟨w, hw⟩
    have : (Gen.c14RtspRealm).getLast? = some 61 := by rw [hw]; simp
    revert this; decide

/-- what lal's client keeps from the server's Digest challenge -/
theorem feed_challenge (a : AuthSt) (fresh user pass : Bytes) (hf : FieldOK fresh) :
    feedWwwAuthenticate a [challengeOf fresh] user pass =
      { a with username := user, password := pass, typ := Gen.c14AuthTypeDigest, realm := Gen.c14RtspRealm, nonce := fresh,
               algorithm := asc "MD5" } := by
  unfold feedWwwAuthenticate
  have hshape := challenge_shape fresh
  have hnp : hasPrefix (challengeOf fresh) (asc "WWW-Authenticate") = false := by
    rw [hshape]; exact mism_hasPrefix (by decide) _
  have htrim : trimSpace (trimPrefix (challengeOf fresh) (asc "WWW-Authenticate")) = challengeOf fresh := by
    simp only [trimPrefix, hnp, Bool.false_eq_true, if_false]
    rw [hshape]
    exact trimSpace_id _ 68 34 (asc "igest realm=\"" ++ (Gen.c14RtspRealm ++ 34 :: (asc ", " ++ (asc "nonce=\"" ++ fresh))))
      (by simp [asc]) (by decide) (by decide)
  dsimp only
  rw [htrim]
  have hb : hasPrefix (challengeOf fresh) Gen.c14AuthTypeBasic = false := by
    rw [hshape]; exact mism_hasPrefix (by decide) _
  have hd : hasPrefix (challengeOf fresh) Gen.c14AuthTypeDigest = true := by
    rw [hshape]
    have : asc "Digest realm=\"" = Gen.c14AuthTypeDigest ++ asc " realm=\"" := by decide
    rw [this, List.append_assoc]
    exact hasPrefix_iff.mpr ⟨_, rfl⟩
  simp only [hb, hd, Bool.false_eq_true, if_false, Bool.not_true]
  have hrealm : getV (challengeOf fresh) (asc "realm=\"") = Gen.c14RtspRealm := by
    rw [hshape]
    have : asc "Digest realm=\"" = asc "Digest " ++ asc "realm=\"" := by decide
    rw [this, List.append_assoc, getV_skip_lit _ _ _ (by decide), getV_hit' _ _ _ realm_fieldOK.1]
  have hnonce : getV (challengeOf fresh) (asc "nonce=\"") = fresh := by
    rw [hshape, getV_skip0 _ _ _ _ (by decide) realm_fieldOK isPattern_nonce, getV_hitN _ _ _ _ (by decide) hf.1]
  have halg : getV (challengeOf fresh) (asc "algorithm=\"") = [] := by
    rw [hshape, getV_skip0 _ _ _ _ (by decide) realm_fieldOK ⟨asc "algorithm", by decide, by decide⟩,
      getV_skipN _ _ _ _ _ (by decide) hf ⟨asc "algorithm", by decide, by decide⟩]
    decide
  rw [hrealm, hnonce, halg]
  rfl

/-- what lal's client keeps from the server's Basic challenge -/
theorem feed_challenge_basic (a : AuthSt) (user pass : Bytes) :
    feedWwwAuthenticate a [Gen.c14AuthTypeBasic ++ asc " realm=\"" ++ Gen.c14RtspRealm ++ asc "\""] user pass =
      { a with username := user, password := pass, typ := Gen.c14AuthTypeBasic } := by
  have : feedWwwAuthenticate a [Gen.c14AuthTypeBasic ++ asc " realm=\"" ++ Gen.c14RtspRealm ++ asc "\""] user pass =
      feedWwwAuthenticate a [asc "Basic realm=\"lal\""] user pass := by
    have e : Gen.c14AuthTypeBasic ++ asc " realm=\"" ++ Gen.c14RtspRealm ++ asc "\"" = asc "Basic realm=\"lal\"" := by decide
    rw [e]
  rw [this]
  unfold feedWwwAuthenticate
  have h1 : trimSpace (trimPrefix (asc "Basic realm=\"lal\"") (asc "WWW-Authenticate")) = asc "Basic realm=\"lal\"" := by decide
  have h2 : hasPrefix (asc "Basic realm=\"lal\"") Gen.c14AuthTypeBasic = true := by decide
  simp only [h1, h2, if_true]

/-- a Digest header of the RFC 2617 form whose values lal reads back (`FieldOK`) passes exactly like its parameters say -/
theorem validDigest_of_params {E : Ext} (conf : AuthConf) (issued method user realm nonce uri response alg : Bytes)
    (hu : FieldOK user) (hr : FieldOK realm) (hn : FieldOK nonce) (hx : FieldOK uri) (hp : FieldOK response)
    (hi : issued ≠ []) (hni : nonce = issued)
    (hresp : response = digestResponse E conf.username realm conf.password issued method uri) :
    ValidDigest E conf issued method (digestPrefix ++ digestParams user realm nonce uri response alg) := by
  obtain ⟨g1, g2, g3, g4⟩ := getV_digestParams (alg := alg) hu hr hn hx hp
  refine ⟨_, rfl, ?_, hi, ?_, ?_⟩
  · exact mism_hasPrefix (l := digestPrefix) (by decide) _
  · rw [g2, hni]
  · rw [g4, g1, g3, hresp]

end Lal.Auth
