import LalModel.Model.Md5
import LalModel.Proof.Bytes
/-
  The executable MD5 / base64 of Model/Md5.lean satisfy the laws the C14 theorems assume of their parameters:
  a digest prints as 32 hexadecimal digits; `b64dec (b64enc x) = some x`.
-/
namespace Lal.Md5
open Lal.Str

theorem hexLower_length (b : Bytes) : (hexLower b).length = 2 * b.length := by
  induction b with
  | nil => rfl
  | cons y r ih => simp only [hexLower, List.length_cons, ih]; omega

theorem md5hex_length (x : Bytes) : (md5hex x).length = 32 := by
  simp [md5hex, hexLower_length, digest, le32]

theorem hexDigitLower_isHex : ∀ n, n < 16 → isHexDigit (hexDigitLower n) = true := by decide

theorem hexLower_digits (b : Bytes) : ∀ c ∈ hexLower b, isHexDigit c = true := by
  induction b with
  | nil => intro c hc; simp [hexLower] at hc
  | cons y r ih =>
    intro c hc
    simp only [hexLower, List.mem_cons] at hc
    rcases hc with h | h | h
    · rw [h]; exact hexDigitLower_isHex _ (by have := y.toNat_lt; omega)
    · rw [h]; exact hexDigitLower_isHex _ (Nat.mod_lt _ (by omega))
    · exact ih c h

theorem md5hex_digits (x : Bytes) : ∀ c ∈ md5hex x, isHexDigit c = true := hexLower_digits _

/-! ### base64 -/

theorem b64Val_char : ∀ n, n < 64 → b64Val (b64Char n) = some n ∧ b64Char n ≠ 13 ∧ b64Char n ≠ 10 ∧ b64Char n ≠ 61 := by
  decide +kernel

theorem b64decQ_quad (a b c d : UInt8) (r : Bytes) (hc : c ≠ 61) (hd : d ≠ 61) :
    b64decQ (a :: b :: c :: d :: r) =
      match b64Val a, b64Val b, b64Val c, b64Val d with
      | some x, some y, some z, some w =>
        match b64decQ r with
        | some t => some (b8 ((((x * 64 + y) * 64 + z) * 64 + w) / 65536) :: b8 ((((x * 64 + y) * 64 + z) * 64 + w) / 256) :: b8 (((x * 64 + y) * 64 + z) * 64 + w) :: t)
        | none => none
      | _, _, _, _ => none := by
  rw [b64decQ]
  all_goals first | rfl | (intros; simp_all)

theorem b64decQ_pad1 (a b c : UInt8) (hc : c ≠ 61) :
    b64decQ [a, b, c, 61] =
      match b64Val a, b64Val b, b64Val c with
      | some x, some y, some z => some [b8 (((x * 64 + y) * 64 + z) / 1024), b8 (((x * 64 + y) * 64 + z) / 4)]
      | _, _, _ => none := by
  rw [b64decQ]
  all_goals first | rfl | (intros; simp_all)

theorem b64decQ_pad2 (a b : UInt8) :
    b64decQ [a, b, 61, 61] =
      match b64Val a, b64Val b with
      | some x, some y => some [b8 ((x * 64 + y) / 16)]
      | _, _ => none := by
  rw [b64decQ]
  all_goals first | rfl | (split <;> rfl) | (intros; simp_all)

theorem b8_toNat_eq (a : UInt8) (n : Nat) (h : n % 256 = a.toNat) : b8 n = a := by
  apply UInt8.toNat_inj.mp
  rw [b8_toNat, h]

theorem b64decQ_enc (x : Bytes) : b64decQ (b64enc x) = some x := by
  fun_induction b64enc x with
  | case1 a b c r n ih =>
    have ha := a.toNat_lt; have hb := b.toNat_lt; have hc := c.toNat_lt
    have hn : n = a.toNat * 65536 + b.toNat * 256 + c.toNat := rfl
    have h1 := b64Val_char (n / 262144) (by omega)
    have h2 := b64Val_char (n / 4096 % 64) (by omega)
    have h3 := b64Val_char (n / 64 % 64) (by omega)
    have h4 := b64Val_char (n % 64) (by omega)
    rw [b64decQ_quad _ _ _ _ _ h3.2.2.2 h4.2.2.2, h1.1, h2.1, h3.1, h4.1, ih]
    simp only
    have e : ((n / 262144 * 64 + n / 4096 % 64) * 64 + n / 64 % 64) * 64 + n % 64 = n := by omega
    rw [e, b8_toNat_eq a (n / 65536) (by omega), b8_toNat_eq b (n / 256) (by omega), b8_toNat_eq c n (by omega)]
  | case2 a b n =>
    have ha := a.toNat_lt; have hb := b.toNat_lt
    have hn : n = a.toNat * 65536 + b.toNat * 256 := rfl
    have h1 := b64Val_char (n / 262144) (by omega)
    have h2 := b64Val_char (n / 4096 % 64) (by omega)
    have h3 := b64Val_char (n / 64 % 64) (by omega)
    rw [b64decQ_pad1 _ _ _ h3.2.2.2, h1.1, h2.1, h3.1]
    simp only
    rw [b8_toNat_eq a _ (by omega), b8_toNat_eq b _ (by omega)]
  | case3 a n =>
    have ha := a.toNat_lt
    have hn : n = a.toNat * 65536 := rfl
    have h1 := b64Val_char (n / 262144) (by omega)
    have h2 := b64Val_char (n / 4096 % 64) (by omega)
    rw [b64decQ_pad2, h1.1, h2.1]
    simp only
    rw [b8_toNat_eq a _ (by omega)]
  | case4 => rfl

theorem b64enc_noNewline (x : Bytes) : ∀ c ∈ b64enc x, (c != 13 && c != 10) = true := by
  fun_induction b64enc x with
  | case1 a b c r n ih =>
    have ha := a.toNat_lt; have hb := b.toNat_lt; have hc := c.toNat_lt
    have hn : n = a.toNat * 65536 + b.toNat * 256 + c.toNat := rfl
    intro ch hch
    simp only [List.mem_cons] at hch
    rcases hch with h | h | h | h | h
    · have := b64Val_char (n / 262144) (by omega); rw [h]; simp [this.2.1, this.2.2.1]
    · have := b64Val_char (n / 4096 % 64) (by omega); rw [h]; simp [this.2.1, this.2.2.1]
    · have := b64Val_char (n / 64 % 64) (by omega); rw [h]; simp [this.2.1, this.2.2.1]
    · have := b64Val_char (n % 64) (by omega); rw [h]; simp [this.2.1, this.2.2.1]
    · exact ih ch h
  | case2 a b n =>
    have ha := a.toNat_lt; have hb := b.toNat_lt
    have hn : n = a.toNat * 65536 + b.toNat * 256 := rfl
    intro ch hch
    simp only [List.mem_cons, List.not_mem_nil, or_false] at hch
    rcases hch with h | h | h | h
    · have := b64Val_char (n / 262144) (by omega); rw [h]; simp [this.2.1, this.2.2.1]
    · have := b64Val_char (n / 4096 % 64) (by omega); rw [h]; simp [this.2.1, this.2.2.1]
    · have := b64Val_char (n / 64 % 64) (by omega); rw [h]; simp [this.2.1, this.2.2.1]
    · rw [h]; decide
  | case3 a n =>
    have ha := a.toNat_lt
    have hn : n = a.toNat * 65536 := rfl
    intro ch hch
    simp only [List.mem_cons, List.not_mem_nil, or_false] at hch
    rcases hch with h | h | h | h
    · have := b64Val_char (n / 262144) (by omega); rw [h]; simp [this.2.1, this.2.2.1]
    · have := b64Val_char (n / 4096 % 64) (by omega); rw [h]; simp [this.2.1, this.2.2.1]
    · rw [h]; decide
    · rw [h]; decide
  | case4 => intro c hc; simp [b64enc] at hc

/-- `base64.StdEncoding`: decoding what was encoded returns it -/
theorem b64dec_enc (x : Bytes) : b64dec (b64enc x) = some x := by
  unfold b64dec
  rw [List.filter_eq_self.mpr (b64enc_noNewline x), b64decQ_enc]

end Lal.Md5
