import LalModel.Model.Chunk
import LalModel.Spec.ChunkSpec
import LalModel.Proof.Bytes
import LalModel.Proof.ChunkSim
/-
  The chunks lal's divider writes (message2Chunks with prevHeader = nil, as every
  caller does) are read by the strict RTMP-specification reader as the message.
-/
set_option linter.unusedSimpArgs false
set_option linter.unusedVariables false
namespace Lal.ChunkEnc
open Lal Lal.Chunk Lal.ChunkSim

/-- a message lal chunks with `Message2Chunks`: what the Go types and RTMP allow -/
structure WF (m : Msg) : Prop where
  len : m.hdr.msgLen = m.payload.length
  lenlt : m.payload.length < 16777216
  ts : m.hdr.ts < 4294967296
  csid_lo : 2 ≤ m.hdr.csid
  csid_hi : m.hdr.csid ≤ 65599
  typ : m.hdr.typ < 256
  notctl : m.hdr.typ ≠ 1 ∧ m.hdr.typ ≠ 22     -- Set Chunk Size / aggregate are not written by the divider
  msid : m.hdr.msid < 4294967296

def toSpec (m : Msg) : ChunkSpec.Message :=
  { csid := m.hdr.csid, typ := m.hdr.typ, msid := m.hdr.msid, ts := m.hdr.ts, payload := m.payload }

/-- finitely many chunk-reading steps of the specification reader -/
inductive Steps : ChunkSpec.St → Bytes → ChunkSpec.St → List ChunkSpec.Message → Bytes → Prop
  | refl (s inp) : Steps s inp s [] inp
  | step {s inp s1 ms1 r1 s2 ms2 r2} :
      ChunkSpec.readChunk s inp = some (s1, ms1, r1) → r1.length < inp.length →
      Steps s1 r1 s2 ms2 r2 → Steps s inp s2 (ms1 ++ ms2) r2

theorem Steps.trans {s inp s1 ms1 r1 s2 ms2 r2} (h1 : Steps s inp s1 ms1 r1) (h2 : Steps s1 r1 s2 ms2 r2) :
    Steps s inp s2 (ms1 ++ ms2) r2 := by
  induction h1 with
  | refl => simpa using h2
  | step hc hl _ ih => rw [List.append_assoc]; exact Steps.step hc hl (ih h2)

theorem steps_readAll {s inp s' ms} (h : Steps s inp s' ms []) :
    ∀ fuel acc, fuel ≥ inp.length → ChunkSpec.readAll fuel s inp acc = some (acc ++ ms) := by
  generalize hr : ([] : Bytes) = r at h
  induction h with
  | refl s inp => subst hr; intro fuel acc _; cases fuel <;> simp [ChunkSpec.readAll]
  | @step s inp s1 ms1 r1 s2 ms2 r2 hc hlt _ ih =>
    intro fuel acc hf
    cases inp with
    | nil => simp at hlt
    | cons b bs =>
      cases fuel with
      | zero => simp at hf
      | succ f =>
        simp only [ChunkSpec.readAll, hc]
        rw [ih hr f (acc ++ ms1) (by simp at hf hlt ⊢; omega)]
        simp

/-! ### what the divider writes -/

theorem calcHeader_none (h : Header) :
    calcHeader h none = basicHeader 0 h.csid ++
      (be24 (if h.ts ≥ 16777215 then 16777215 else h.ts) ++ be24 h.msgLen ++ [b8 h.typ] ++ le32 h.msid ++
        (if h.ts ≥ 16777215 then be32 h.ts else [])) := by
  simp [calcHeader, fmtOf, tsField, hasExt, maxTs_eq, List.append_assoc]

theorem calcHeader_some (h : Header) :
    calcHeader h (some h) = basicHeader 3 h.csid ++ (if h.ts ≥ 16777215 then be32 h.ts else []) := by
  by_cases ht : h.ts ≥ 16777215
  · simp [calcHeader, fmtOf, tsField, hasExt, maxTs_eq, ht]
  · have h0 : (h.ts + Chunk.u32 - h.ts) % Chunk.u32 = 0 := by unfold Chunk.u32; omega
    simp [calcHeader, fmtOf, tsField, hasExt, maxTs_eq, ht, h0]

theorem spec_basic (f csid : Nat) (r : Bytes) (hf : f < 4) (h1 : 2 ≤ csid) (h2 : csid ≤ 65599) :
    ChunkSpec.basicHeader (basicHeader f csid ++ r) = some (f, csid, r) := by
  unfold basicHeader
  by_cases c1 : 2 ≤ csid ∧ csid ≤ 63
  · simp only [c1, and_self, if_true, List.cons_append, List.nil_append, ChunkSpec.basicHeader, b8_toNat]
    have e : (f * 64 + csid) % 256 = f * 64 + csid := by omega
    have e0 : ¬ (f * 64 + csid) % 64 = 0 := by omega
    have e1 : ¬ (f * 64 + csid) % 64 = 1 := by omega
    simp only [e, e0, e1, if_false, Option.some.injEq, Prod.mk.injEq, and_true]
    omega
  · by_cases c2 : 64 ≤ csid ∧ csid ≤ 319
    · simp only [c1, c2, and_self, if_true, if_false, List.cons_append, List.nil_append, ChunkSpec.basicHeader, b8_toNat]
      have e : (f * 64) % 256 = f * 64 := by omega
      have e0 : (f * 64) % 64 = 0 := by omega
      have e2 : (csid - 64) % 256 = csid - 64 := by omega
      simp only [e, e0, if_true, e2, Option.some.injEq, Prod.mk.injEq, and_true]
      omega
    · simp only [c1, c2, if_false, List.cons_append, List.nil_append, ChunkSpec.basicHeader, b8_toNat]
      have e : (f * 64 + 1) % 256 = f * 64 + 1 := by omega
      have e0 : ¬ (f * 64 + 1) % 64 = 0 := by omega
      have e1 : (f * 64 + 1) % 64 = 1 := by omega
      have e3 : (f * 64 + 1) / 64 = f := by omega
      have e4 : (csid - 64) / 256 % 256 * 256 + (csid - 64) % 256 + 64 = csid := by omega
      simp only [e, e0, e1, e3, e4, if_true, if_false, Nat.one_ne_zero]

/-- state of a chunk stream while message `h` is being assembled with `pre` already read -/
def K (h : Header) (pre : Bytes) (op : Bool) : ChunkSpec.Cs :=
  { msid := h.msid, len := h.msgLen, typ := h.typ, msgTs := h.ts, delta := h.ts,
    ext := decide (h.ts ≥ 16777215), part := pre, open_ := op, have_ := true }

def specMsg (h : Header) (p : Bytes) : ChunkSpec.Message :=
  { csid := h.csid, typ := h.typ, msid := h.msid, ts := h.ts, payload := p }

/-- the chunk data stage on a message that is neither Set Chunk Size nor aggregate -/
theorem spec_data (s : ChunkSpec.St) (h : Header) (pre piece rest : Bytes) (op : Bool)
    (hctl : h.typ ≠ 1 ∧ h.typ ≠ 22)
    (hpiece : piece.length = (if h.msgLen - pre.length < s.chunkSize then h.msgLen - pre.length else s.chunkSize)) :
    ChunkSpec.chunkData s h.csid (K h pre op) (piece ++ rest) =
      if (pre ++ piece).length = h.msgLen
      then some (s.put h.csid (K h [] false), [specMsg h (pre ++ piece)], rest)
      else some (s.put h.csid (K h (pre ++ piece) true), [], rest) := by
  simp only [ChunkSpec.chunkData, K]
  by_cases hc : h.msgLen - pre.length < s.chunkSize
  · simp only [hc, if_true] at hpiece ⊢
    rw [← hpiece]
    simp only [List.length_append, Nat.not_lt.mpr (Nat.le_add_right _ _), if_false, List.take_left', List.drop_left']
    simp [hctl.1, hctl.2, specMsg]
  · simp only [hc, if_false] at hpiece ⊢
    rw [← hpiece]
    simp only [List.length_append, Nat.not_lt.mpr (Nat.le_add_right _ _), if_false, List.take_left', List.drop_left']
    simp [hctl.1, hctl.2, specMsg]

theorem spec_first (s : ChunkSpec.St) (m : Msg) (hwf : WF m) (rest : Bytes)
    (hclosed : (s.get m.hdr.csid).open_ = false ∧ (s.get m.hdr.csid).part = []) :
    ChunkSpec.readChunk s (calcHeader m.hdr none ++ m.payload.take s.chunkSize ++ rest) =
      if (m.payload.take s.chunkSize).length = m.hdr.msgLen
      then some (s.put m.hdr.csid (K m.hdr [] false), [specMsg m.hdr (m.payload.take s.chunkSize)], rest)
      else some (s.put m.hdr.csid (K m.hdr (m.payload.take s.chunkSize) true), [], rest) := by
  have hl := hwf.lenlt; have hts := hwf.ts; have hty := hwf.typ; have hms := hwf.msid
  have hlen := hwf.len
  have e24 : rd24 (b8 (m.hdr.msgLen / 65536)) (b8 (m.hdr.msgLen / 256)) (b8 m.hdr.msgLen) = m.hdr.msgLen :=
    rd24_be24 _ (by omega)
  have emsid : (b8 m.hdr.msid).toNat + (b8 (m.hdr.msid / 256)).toNat * 256 + (b8 (m.hdr.msid / 65536)).toNat * 65536 +
      (b8 (m.hdr.msid / 16777216)).toNat * 16777216 = m.hdr.msid := by
    simp only [b8_toNat]; omega
  have etyp : (b8 m.hdr.typ).toNat = m.hdr.typ := by simp only [b8_toNat]; omega
  have hpiece : (m.payload.take s.chunkSize).length =
      (if m.hdr.msgLen - ([] : Bytes).length < s.chunkSize then m.hdr.msgLen - ([] : Bytes).length else s.chunkSize) := by
    simp only [List.length_take, List.length_nil, Nat.sub_zero, hlen]
    split <;> omega
  have hdata := spec_data s m.hdr [] (m.payload.take s.chunkSize) rest false hwf.notctl hpiece
  simp only [List.nil_append] at hdata
  rw [calcHeader_none, List.append_assoc, List.append_assoc, ChunkSpec.readChunk,
    spec_basic 0 _ _ (by omega) hwf.csid_lo hwf.csid_hi]
  simp only [hclosed.1]
  by_cases hx : m.hdr.ts ≥ 16777215
  · have e32 := rd32_be32 m.hdr.ts hts
    simp only [hx, if_true]
    -- keep 0xFFFFFF symbolic inside the byte list so that no closed UInt8 term is ever evaluated
    generalize hM : be24 16777215 = mx
    have ex : ∃ a b c, mx = [a, b, c] ∧ rd24 a b c = 16777215 :=
      ⟨_, _, _, hM.symm, rd24_be24 16777215 (by omega)⟩
    obtain ⟨a, b, c, rfl, ex⟩ := ex
    simp only [be24, le32, be32, List.cons_append, List.nil_append]
    simp only [ChunkSpec.messageHeader, hclosed.1, Bool.false_eq_true, if_false, if_true, e24, emsid, etyp]
    simp only [ChunkSpec.timestamps, if_true, ex, e32]
    have : ¬ m.hdr.ts < 16777215 := by omega
    simp only [this, if_false]
    have hd : decide (m.hdr.ts ≥ 16777215) = true := decide_eq_true hx
    simp only [K, hd] at hdata ⊢
    simp only [hclosed.2]; exact hdata
  · have hlt : m.hdr.ts < 16777215 := by omega
    have ex : rd24 (b8 (m.hdr.ts / 65536)) (b8 (m.hdr.ts / 256)) (b8 m.hdr.ts) = m.hdr.ts := rd24_be24 _ (by omega)
    simp only [hx, if_false, be24, le32, List.cons_append, List.nil_append, List.append_nil, ChunkSpec.messageHeader,
      hclosed.1, Bool.false_eq_true, if_true, e24, emsid, etyp, ChunkSpec.timestamps, ex]
    have : ¬ m.hdr.ts = 16777215 := by omega
    simp only [this, if_false]
    have hd : decide (m.hdr.ts ≥ 16777215) = false := decide_eq_false hx
    simp only [K, hd] at hdata ⊢
    simp only [hclosed.2]; exact hdata

theorem ts3_ext (c : ChunkSpec.Cs) (e0 e1 e2 e3 : UInt8) (r : Bytes) (hext : c.ext = true)
    (hv : rd32 e0 e1 e2 e3 = c.delta) :
    ChunkSpec.timestamps 3 false c none (e0 :: e1 :: e2 :: e3 :: r) = some (c, r) := by
  simp [ChunkSpec.timestamps, hext, hv]

theorem ts3_noext (c : ChunkSpec.Cs) (r : Bytes) (hext : c.ext = false) :
    ChunkSpec.timestamps 3 false c none r = some (c, r) := by
  simp [ChunkSpec.timestamps, hext]

theorem mh3 (c : ChunkSpec.Cs) (r : Bytes) (hh : c.have_ = true) :
    ChunkSpec.messageHeader 3 c r = some (c, none, r) := by
  simp [ChunkSpec.messageHeader, hh]

theorem spec_cont (s : ChunkSpec.St) (h : Header) (pre piece rest : Bytes)
    (hts : h.ts < 4294967296) (hlo : 2 ≤ h.csid) (hhi : h.csid ≤ 65599) (hctl : h.typ ≠ 1 ∧ h.typ ≠ 22)
    (hk : s.get h.csid = K h pre true)
    (hpiece : piece.length = (if h.msgLen - pre.length < s.chunkSize then h.msgLen - pre.length else s.chunkSize)) :
    ChunkSpec.readChunk s (calcHeader h (some h) ++ piece ++ rest) =
      if (pre ++ piece).length = h.msgLen
      then some (s.put h.csid (K h [] false), [specMsg h (pre ++ piece)], rest)
      else some (s.put h.csid (K h (pre ++ piece) true), [], rest) := by
  have hdata := spec_data s h pre piece rest true hctl hpiece
  rw [calcHeader_some, List.append_assoc, List.append_assoc, ChunkSpec.readChunk,
    spec_basic 3 _ _ (by omega) hlo hhi]
  simp only [hk]
  rw [mh3 _ _ rfl]
  have hop : (!(K h pre true).open_) = false := rfl
  simp only [hop]
  by_cases hx : h.ts ≥ 16777215
  · have e32 := rd32_be32 h.ts hts
    simp only [hx, if_true, be32, List.cons_append, List.nil_append]
    rw [ts3_ext _ _ _ _ _ _ (by simp [K, hx]) (by simp [K, e32])]
    exact hdata
  · simp only [hx, if_false, List.nil_append]
    rw [ts3_noext _ _ (by simp [K, hx])]
    exact hdata

/-- all chunk streams idle: what holds between two messages written by the divider -/
def Closed (s : ChunkSpec.St) : Prop := ∀ csid, (s.get csid).open_ = false ∧ (s.get csid).part = []

theorem closed_put (s : ChunkSpec.St) (hc : Closed s) (h : Header) : Closed (s.put h.csid (K h [] false)) := by
  intro b
  rw [spec_get_put]
  by_cases e : h.csid = b
  · simp [e, K]
  · simp [e, hc b]

/-- the remaining chunks of a message whose first `pre` bytes have been read -/
theorem spec_tail (h : Header) (cs : Nat) (hcs : cs ≥ 1)
    (hts : h.ts < 4294967296) (hlo : 2 ≤ h.csid) (hhi : h.csid ≤ 65599) (hctl : h.typ ≠ 1 ∧ h.typ ≠ 22) :
    ∀ (fuel : Nat) (remaining pre : Bytes) (s : ChunkSpec.St) (rest : Bytes),
      fuel ≥ remaining.length → remaining ≠ [] → s.chunkSize = cs → h.msgLen = pre.length + remaining.length →
      s.get h.csid = K h pre true →
      ∃ s', Steps s (chunksAux fuel remaining h (some h) cs ++ rest) s' [specMsg h (pre ++ remaining)] rest ∧
        s'.chunkSize = cs ∧ s'.get h.csid = K h [] false ∧ ∀ b, b ≠ h.csid → s'.get b = s.get b := by
  intro fuel
  induction fuel with
  | zero => intro remaining pre s rest hf hne; cases remaining <;> simp_all
  | succ f ih =>
    intro remaining pre s rest hf hne hsz hlen hk
    have hne' : remaining.isEmpty = false := by cases remaining <;> simp_all
    simp only [chunksAux, hne', Bool.false_eq_true, if_false]
    have hpiece : (remaining.take cs).length =
        (if h.msgLen - pre.length < s.chunkSize then h.msgLen - pre.length else s.chunkSize) := by
      simp only [List.length_take, hsz, hlen]; split <;> omega
    have hstep := spec_cont s h pre (remaining.take cs) (chunksAux f (remaining.drop cs) h (some h) cs ++ rest)
      hts hlo hhi hctl hk hpiece
    have hassoc : calcHeader h (some h) ++ List.take cs remaining ++ chunksAux f (List.drop cs remaining) h (some h) cs ++ rest
        = calcHeader h (some h) ++ List.take cs remaining ++ (chunksAux f (List.drop cs remaining) h (some h) cs ++ rest) := by
      simp [List.append_assoc]
    rw [hassoc]
    have hlt : (chunksAux f (List.drop cs remaining) h (some h) cs ++ rest).length <
        (calcHeader h (some h) ++ List.take cs remaining ++ (chunksAux f (List.drop cs remaining) h (some h) cs ++ rest)).length := by
      have : (remaining.take cs).length ≥ 1 := by
        cases remaining with
        | nil => simp at hne
        | cons x xs => simp; omega
      simp only [List.length_append]; omega
    by_cases hdone : remaining.length ≤ cs
    · -- last chunk
      have htk : remaining.take cs = remaining := List.take_of_length_le hdone
      have hdr : remaining.drop cs = [] := List.drop_eq_nil_of_le hdone
      have hnil : chunksAux f ([] : Bytes) h (some h) cs = [] := by cases f <;> simp [chunksAux]
      simp only [htk, hdr, hnil, List.nil_append] at hstep hlt ⊢
      have hl : (pre ++ remaining).length = h.msgLen := by simp [hlen]
      simp only [hl, if_true] at hstep
      refine ⟨s.put h.csid (K h [] false), ?_, by simpa using hsz, ?_, ?_⟩
      · have := Steps.step hstep hlt (Steps.refl _ _)
        simpa using this
      · rw [spec_get_put]; simp
      · intro b hb; rw [spec_get_put]; simp [Ne.symm hb]
    · have hl : ¬ (pre ++ remaining.take cs).length = h.msgLen := by
        simp only [List.length_append, List.length_take, hlen]; omega
      simp only [hl, if_false] at hstep
      have hrem : remaining.drop cs ≠ [] := by
        intro e; have := congrArg List.length e; simp at this; omega
      obtain ⟨s', hsteps, hsz', hk', hoth⟩ := ih (remaining.drop cs) (pre ++ remaining.take cs)
        (s.put h.csid (K h (pre ++ remaining.take cs) true)) rest
        (by simp; omega) hrem (by simpa using hsz)
        (by simp only [List.length_append, List.length_take, List.length_drop, hlen]; omega)
        (by rw [spec_get_put]; simp)
      refine ⟨s', ?_, hsz', hk', ?_⟩
      · have := Steps.step hstep hlt hsteps
        simpa [List.append_assoc] using this
      · intro b hb; rw [hoth b hb, spec_get_put]; simp [Ne.symm hb]

/-- one message written by the divider (prevHeader = nil), read by the specification reader -/
theorem spec_message (m : Msg) (hwf : WF m) (hne : m.payload ≠ []) (cs : Nat) (hcs : cs ≥ 1)
    (s : ChunkSpec.St) (hsz : s.chunkSize = cs) (hc : Closed s) (rest : Bytes) :
    ∃ s', Steps s (message2Chunks m.payload m.hdr none cs ++ rest) s' [toSpec m] rest ∧
      s'.chunkSize = cs ∧ Closed s' := by
  have hne' : m.payload.isEmpty = false := by cases hp : m.payload <;> simp_all
  have hpos : m.payload.length ≥ 1 := by cases hp : m.payload <;> simp_all
  unfold message2Chunks
  cases hl : m.payload.length with
  | zero => omega
  | succ f =>
    simp only [chunksAux, hne', Bool.false_eq_true, if_false]
    have hstep := spec_first s m hwf (chunksAux f (m.payload.drop cs) m.hdr (some m.hdr) cs ++ rest) (hc m.hdr.csid)
    rw [hsz] at hstep
    have hassoc : calcHeader m.hdr none ++ List.take cs m.payload ++ chunksAux f (List.drop cs m.payload) m.hdr (some m.hdr) cs ++ rest
        = calcHeader m.hdr none ++ List.take cs m.payload ++ (chunksAux f (List.drop cs m.payload) m.hdr (some m.hdr) cs ++ rest) := by
      simp [List.append_assoc]
    rw [hassoc]
    have hlt : (chunksAux f (List.drop cs m.payload) m.hdr (some m.hdr) cs ++ rest).length <
        (calcHeader m.hdr none ++ List.take cs m.payload ++ (chunksAux f (List.drop cs m.payload) m.hdr (some m.hdr) cs ++ rest)).length := by
      have : (m.payload.take cs).length ≥ 1 := by simp; omega
      simp only [List.length_append]; omega
    by_cases hdone : m.payload.length ≤ cs
    · have htk : m.payload.take cs = m.payload := List.take_of_length_le hdone
      have hdr : m.payload.drop cs = [] := List.drop_eq_nil_of_le hdone
      have hnil : chunksAux f ([] : Bytes) m.hdr (some m.hdr) cs = [] := by cases f <;> simp [chunksAux]
      simp only [htk, hdr, hnil, List.nil_append] at hstep hlt ⊢
      simp only [hwf.len, if_true] at hstep
      refine ⟨s.put m.hdr.csid (K m.hdr [] false), ?_, by simpa using hsz, closed_put s hc m.hdr⟩
      have := Steps.step hstep hlt (Steps.refl _ _)
      simpa [specMsg, toSpec] using this
    · have hl2 : ¬ (m.payload.take cs).length = m.hdr.msgLen := by
        simp only [List.length_take, hwf.len]; omega
      simp only [hl2, if_false] at hstep
      have hrem : m.payload.drop cs ≠ [] := by
        intro e; have := congrArg List.length e; simp at this; omega
      obtain ⟨s', hsteps, hsz', hk', hoth⟩ := spec_tail m.hdr cs hcs hwf.ts hwf.csid_lo hwf.csid_hi hwf.notctl
        f (m.payload.drop cs) (m.payload.take cs) (s.put m.hdr.csid (K m.hdr (m.payload.take cs) true)) rest
        (by simp; omega) hrem (by simpa using hsz)
        (by simp only [List.length_take, List.length_drop, hwf.len]; omega)
        (by rw [spec_get_put]; simp)
      refine ⟨s', ?_, hsz', ?_⟩
      · have := Steps.step hstep hlt hsteps
        simpa [specMsg, toSpec] using this
      · intro b
        by_cases hb : b = m.hdr.csid
        · subst hb; rw [hk']; simp [K]
        · rw [hoth b hb, spec_get_put]; simp [Ne.symm hb, hc b]

/-- any sequence of messages -/
theorem spec_messages (cs : Nat) (hcs : cs ≥ 1) : ∀ (ms : List Msg), (∀ m ∈ ms, WF m ∧ m.payload ≠ []) →
    ∀ (s : ChunkSpec.St), s.chunkSize = cs → Closed s →
    ∃ s', Steps s (ms.flatMap fun m => message2Chunks m.payload m.hdr none cs) s' (ms.map toSpec) [] := by
  intro ms
  induction ms with
  | nil => intro _ s _ _; exact ⟨s, Steps.refl _ _⟩
  | cons m ms ih =>
    intro hall s hsz hc
    obtain ⟨hwf, hne⟩ := hall m (by simp)
    obtain ⟨s1, h1, hsz1, hc1⟩ := spec_message m hwf hne cs hcs s hsz hc
      (ms.flatMap fun m => message2Chunks m.payload m.hdr none cs)
    obtain ⟨s2, h2⟩ := ih (fun x hx => hall x (by simp [hx])) s1 hsz1 hc1
    exact ⟨s2, by simpa using Steps.trans h1 h2⟩

theorem closed_init (cs : Nat) : Closed { chunkSize := cs } := by
  intro b; simp [ChunkSpec.St.get, List.lookup]

/-- **the RTMP-specification reader decodes lal's chunking of any message sequence** -/
theorem spec_read_enc (cs : Nat) (hcs : cs ≥ 1) (ms : List Msg) (h : ∀ m ∈ ms, WF m ∧ m.payload ≠ []) :
    ChunkSpec.read cs (ms.flatMap fun m => message2Chunks m.payload m.hdr none cs) = some (ms.map toSpec) := by
  obtain ⟨s', hs⟩ := spec_messages cs hcs ms h { chunkSize := cs } rfl (closed_init cs)
  have := steps_readAll hs _ [] (Nat.le_refl _)
  simpa [ChunkSpec.read] using this

theorem ofSpec_toSpec (m : Msg) (h : WF m) : ofSpec (toSpec m) = m := by
  obtain ⟨hdr, payload⟩ := m
  obtain ⟨csid, msgLen, typ, msid, ts⟩ := hdr
  have := h.len
  simp [ofSpec, toSpec] at this ⊢
  exact this.symm

end Lal.ChunkEnc
