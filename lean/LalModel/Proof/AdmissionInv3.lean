import LalModel.Proof.AdmissionInv2
/- C03 — preservation of the invariant by the RTMP connection events. -/
set_option linter.unusedSimpArgs false
namespace Lal.Adm
open Grp Spec

theorem rtmpTail_sess_ne (s : Srv) (c : Sid) (r : RConn) {y : Sid} (h : y ≠ c) : (rtmpTail s c r).sess y = s.sess y := by
  unfold rtmpTail; dsimp only
  split
  · exact sess_modR_ne s c _ h
  · split <;> simp [sess_modR_ne s c _ h]

theorem rtmpTail_sess_self {s : Srv} {c : Sid} {r r0 : RConn} (h : s.sess c = some (.rtmp r0)) :
    (rtmpTail s c r).sess c = some (.rtmp { r0 with closed := true }) := by
  unfold rtmpTail; dsimp only
  split
  · exact sess_modR_self h _
  · split <;> simp [sess_modR_self h]

theorem CI.held_iff {s : Srv} (h : CI s) {x : Sid} {k : Stream} {sl0 : Slot} (hc : claimOf s x = some (k, sl0))
    (st : Stream) (sl : Slot) : holdsAt s st sl x ↔ (st = k ∧ sl = sl0) := by
  rw [← h x st sl, hc]; simp [eq_comm]

/-- after a removal of `x` from the only place it was registered, `x` is registered nowhere and everybody
    else where they were -/
theorem holds_after_remove {s : Srv} (h : CI s) {x : Sid} {k : Stream} {sl0 : Slot} (hc : claimOf s x = some (k, sl0))
    {H : Stream → Slot → Sid → Prop} {P : Slot → Prop} (hP : P sl0)
    (hh : ∀ st sl y, H st sl y ↔ (holdsAt s st sl y ∧ ¬(st = k ∧ P sl ∧ y = x))) (st : Stream) (sl : Slot) (y : Sid) :
    H st sl y ↔ (holdsAt s st sl y ∧ y ≠ x) := by
  rw [hh]
  by_cases hy : y = x
  · subst hy
    rw [h.held_iff hc]
    constructor
    · rintro ⟨⟨rfl, rfl⟩, h2⟩; exact absurd ⟨rfl, hP, rfl⟩ h2
    · rintro ⟨_, h2⟩; exact absurd rfl h2
  · simp [hy]

/-- after the tail of handleTcpConnect the session is registered nowhere; nobody else is affected -/
theorem rtmpTail_holds {s : Srv} (h : Inv s) {c : Sid} {r : RConn} (hc : s.sess c = some (.rtmp r)) (hcl : r.closed = false)
    (st : Stream) (sl : Slot) (y : Sid) : holdsAt (rtmpTail s c r) st sl y ↔ (holdsAt s st sl y ∧ y ≠ c) := by
  have hc0 := claimOf_of_sess hc
  have none_case : claimOf s c = none → (holdsAt s st sl y ↔ (holdsAt s st sl y ∧ y ≠ c)) := by
    intro hn
    constructor
    · intro hh; refine ⟨hh, ?_⟩; rintro rfl; exact h.ci.not_held hn st sl hh
    · exact fun hh => hh.1
  unfold rtmpTail; dsimp only
  split
  · rename_i hfl
    simp only [holdsAt_modR]
    exact none_case (by rw [hc0]; simp [Sess.claim, hfl])
  · rename_i hfl
    have hfl' : r.flag = false := by simpa using hfl
    split
    · rename_i htyp
      have hclaim : claimOf s c = some (r.stream, .rtmpPub) := by rw [hc0]; simp [Sess.claim, hcl, hfl', htyp]
      obtain ⟨g, hg, -⟩ := (h.ci c _ _).mp hclaim
      unfold Srv.onDelRtmpPub
      simp only [Srv.modR_groups, hg]
      exact holds_after_remove h.ci hclaim (P := (· = .rtmpPub)) rfl
        (holdsAt_remove (g := g) hg (by funext k; simp) (fun sl y => holds_delRtmpPub (h.ok _ g hg) c sl y)) st sl y
    · rename_i htyp
      have hclaim : claimOf s c = some (r.stream, .rtmpSub) := by rw [hc0]; simp [Sess.claim, hcl, hfl', htyp]
      obtain ⟨g, hg, -⟩ := (h.ci c _ _).mp hclaim
      unfold Srv.onDelRtmpSub
      simp only [Srv.modR_groups, hg]
      exact holds_after_remove h.ci hclaim (P := (· = .rtmpSub)) rfl
        (holdsAt_remove (g := g) hg (by funext k; simp) (fun sl y => holds_delRtmpSub g c sl y)) st sl y
    · rename_i htyp
      simp only [holdsAt_modR]
      exact none_case (by rw [hc0]; simp [Sess.claim, htyp])

/-- a session changes so that it claims nothing, and is registered nowhere afterwards -/
theorem CI.vanish {s s' : Srv} (h : CI s) (x : Sid)
    (hs : ∀ y, y ≠ x → claimOf s' y = claimOf s y) (hc : claimOf s' x = none)
    (hh : ∀ st sl y, holdsAt s' st sl y ↔ (holdsAt s st sl y ∧ y ≠ x)) : CI s' := by
  refine h.update x hs ?_ ?_
  · intro y st sl hy; rw [hh]; simp [hy]
  · intro st sl; rw [hc, hh]; simp

/-- the end of an RTMP connection -/
theorem inv_rtmpTail {s : Srv} (h : Inv s) {c : Sid} {r : RConn} (hc : s.sess c = some (.rtmp r)) (hcl : r.closed = false) :
    Inv (rtmpTail s c r) := by
  have hne : ∀ y, y ≠ c → (rtmpTail s c r).sess y = s.sess y := fun y hy => rtmpTail_sess_ne s c r hy
  have hself := rtmpTail_sess_self (r := r) hc
  have hframe : ∀ y, (rtmpTail s c r).sess y = s.sess y ∨ (¬isRtsp (s.sess y) ∧ ¬isRtsp ((rtmpTail s c r).sess y)) := by
    intro y; by_cases hy : y = c
    · subst hy; right; rw [hself, hc]; simp [isRtsp]
    · left; exact hne y hy
  refine ⟨ok_rtmpTail h.ok c r, ?_, h.link_frame hframe, h.cust_frame ?_, ?_, ?_⟩
  · refine h.ci.vanish c ?_ ?_ (rtmpTail_holds h hc hcl)
    · intro y hy; unfold claimOf; rw [hne y hy]
    · rw [claimOf_of_sess hself]; simp [Sess.claim]
  · intro y; by_cases hy : y = c
    · subst hy; right; rw [hself]; simp [isCust]
    · left; exact hne y hy
  · intro y r' st hy ho
    by_cases e : y = c
    · subst e; rw [hself] at hy; cases hy
      exact h.obs _ r st hc ho
    · exact h.obs y r' st (hne y e ▸ hy) ho
  · intro y r' hy hf
    by_cases e : y = c
    · subst e; rw [hself] at hy; cases hy; rfl
    · exact h.flag y r' (hne y e ▸ hy) hf


theorem inv_rClose {s : Srv} (h : Inv s) (c : Sid) : Inv (rClose s c).1 := by
  unfold rClose; split
  · rename_i r hr
    split
    · exact h
    · rename_i hcl; exact inv_rtmpTail h hr (by simpa using hcl)
  · exact h

/-! ### publish -/

theorem Srv.onNewRtmpPub_true {s : Srv} {x : Sid} {st : Stream} {a : Bool} (h : (s.onNewRtmpPub x st a).2 = true) :
    ((s.getOrCreate st).addRtmpPub x).2.1 = true ∧
    (s.onNewRtmpPub x st a).1 = (s.setG st ((s.getOrCreate st).addRtmpPub x).1).note .pubStart x := by
  unfold Srv.onNewRtmpPub at h ⊢
  split
  · rename_i ha; simp [ha] at h
  · rename_i ha
    simp only [ha, if_false] at h
    dsimp only at h ⊢
    split
    · rename_i hr; exact ⟨hr, rfl⟩
    · rename_i hr; simp [hr] at h

theorem Srv.onNewRtmpPub_false {s : Srv} {x : Sid} {st : Stream} {a : Bool} (h : (s.onNewRtmpPub x st a).2 = false) :
    (s.onNewRtmpPub x st a).1 = s := by
  unfold Srv.onNewRtmpPub at h ⊢
  split
  · rfl
  · rename_i ha
    simp only [ha, if_false] at h
    dsimp only at h ⊢
    split
    · rename_i hr; simp [hr] at h
    · rfl

/-- the shapes of the state after `publish` -/
theorem rPublish_eq (s : Srv) (c : Sid) (st : Stream) (a : Bool) :
    (rPublish Code.fixed s c st a).1 = s ∨
    (∃ r, s.sess c = some (.rtmp r) ∧ r.closed = false ∧ (rPublish Code.fixed s c st a).1 = rtmpTail s c r) ∨
    (∃ r, s.sess c = some (.rtmp r) ∧ r.closed = false ∧ r.typ = .unknown ∧
      (rPublish Code.fixed s c st a).1 =
        (if ((s.modR c fun r => { r with typ := .pub, stream := st }).onNewRtmpPub c st a).2 = true then
          ((s.modR c fun r => { r with typ := .pub, stream := st }).onNewRtmpPub c st a).1.modR c fun r => { r with obs := some st }
         else (s.modR c fun r => { r with typ := .pub, stream := st }).modR c fun r => { r with flag := true, closed := true })) := by
  unfold rPublish
  split
  · rename_i r hr
    split
    · exact Or.inl rfl
    · rename_i hcl
      have hcl' : r.closed = false := by simpa using hcl
      split
      · rename_i ht
        exact Or.inr (Or.inl ⟨r, hr, hcl', by simp [Code.fixed]⟩)
      · rename_i ht
        refine Or.inr (Or.inr ⟨r, hr, hcl', by simpa using ht, ?_⟩)
        dsimp only
        split <;> rfl
  · exact Or.inl rfl

theorem inv_rPublish {s : Srv} (h : Inv s) (c : Sid) (st : Stream) (a : Bool) : Inv (rPublish Code.fixed s c st a).1 := by
  have hok : OkAll (rPublish Code.fixed s c st a).1 := ok_step h.ok (.rPublish c st a)
  rcases rPublish_eq s c st a with e | ⟨r, hr, hcl, e⟩ | ⟨r, hr, hcl, htyp, e⟩
  · rw [e]; exact h
  · rw [e]; exact inv_rtmpTail h hr hcl
  · rw [e] at hok ⊢
    have hfl : r.flag = false := by
      cases hf : r.flag
      · rfl
      · have := h.flag c r hr hf; rw [hcl] at this; cases this
    have hobs : r.obs = none := by
      cases ho : r.obs with
      | none => rfl
      | some st' => have := (h.obs c r st' hr ho).1; rw [htyp] at this; cases this
    have hc0 : claimOf s c = none := by rw [claimOf_of_sess hr]; simp [Sess.claim, htyp]
    -- the intermediate state: the session has become a publisher of `st`, nothing else
    have hs1 : (s.modR c fun r => { r with typ := .pub, stream := st }).sess c = some (.rtmp { r with typ := .pub, stream := st }) :=
      sess_modR_self hr _
    by_cases hacc : ((s.modR c fun r => { r with typ := .pub, stream := st }).onNewRtmpPub c st a).2 = true
    · -- accepted
      rw [if_pos hacc] at hok ⊢
      obtain ⟨hadd, e1⟩ := Srv.onNewRtmpPub_true hacc
      rw [e1] at hok ⊢
      have hself : ((((s.modR c fun r => { r with typ := .pub, stream := st }).setG st
          (((s.modR c fun r => { r with typ := .pub, stream := st }).getOrCreate st).addRtmpPub c).1).note .pubStart c).modR c
          fun r => { r with obs := some st }).sess c = some (.rtmp { r with typ := .pub, stream := st, obs := some st }) := by
        rw [sess_modR_self (r := { r with typ := .pub, stream := st })]
        simpa using hs1
      have hne : ∀ y, y ≠ c → ((((s.modR c fun r => { r with typ := .pub, stream := st }).setG st
          (((s.modR c fun r => { r with typ := .pub, stream := st }).getOrCreate st).addRtmpPub c).1).note .pubStart c).modR c
          fun r => { r with obs := some st }).sess y = s.sess y := by
        intro y hy; rw [sess_modR_ne _ _ _ hy]; simp [sess_modR_ne _ _ _ hy]
      refine ⟨hok, ?_, h.link_frame ?_, h.cust_frame ?_, ?_, ?_⟩
      · refine h.ci.add c st .rtmpPub ?_ hc0 ?_ ?_
        · intro y hy; unfold claimOf; rw [hne y hy]
        · rw [claimOf_of_sess hself]; simp [Sess.claim, hcl, hfl]
        · have hgoc : (s.modR c fun r => { r with typ := .pub, stream := st }).getOrCreate st = s.getOrCreate st := by
            simp [Srv.getOrCreate]
          rw [hgoc] at hadd ⊢
          exact holdsAt_add (by funext k; simp) (fun sl y => holds_addRtmpPub hadd sl y)
      · intro y; by_cases hy : y = c
        · subst hy; right; rw [hself, hr]; simp [isRtsp]
        · left; exact hne y hy
      · intro y; by_cases hy : y = c
        · subst hy; right; rw [hself]; simp [isCust]
        · left; exact hne y hy
      · intro y r' st' hy ho
        by_cases e : y = c
        · subst e; rw [hself] at hy; cases hy
          simp at ho; subst ho
          exact ⟨rfl, rfl, hfl⟩
        · exact h.obs y r' st' (hne y e ▸ hy) ho
      · intro y r' hy hf
        by_cases e : y = c
        · subst e; rw [hself] at hy; cases hy
          simp [hfl] at hf
        · exact h.flag y r' (hne y e ▸ hy) hf
    · -- refused
      rw [if_neg hacc] at hok ⊢
      have hself : ((s.modR c fun r => { r with typ := .pub, stream := st }).modR c
          fun r => { r with flag := true, closed := true }).sess c =
          some (.rtmp { r with typ := .pub, stream := st, flag := true, closed := true }) := by
        rw [sess_modR_self hs1]
      have hne : ∀ y, y ≠ c → ((s.modR c fun r => { r with typ := .pub, stream := st }).modR c
          fun r => { r with flag := true, closed := true }).sess y = s.sess y := by
        intro y hy; rw [sess_modR_ne _ _ _ hy, sess_modR_ne _ _ _ hy]
      refine ⟨hok, ?_, h.link_frame ?_, h.cust_frame ?_, ?_, ?_⟩
      · refine h.ci.update c ?_ (fun y st sl _ => by simp) ?_
        · intro y hy; unfold claimOf; rw [hne y hy]
        · intro st' sl
          rw [claimOf_of_sess hself]
          simp only [Sess.claim, Bool.or_true, if_true, holdsAt_modR]
          constructor
          · intro e; cases e
          · intro hh; exact absurd hh (h.ci.not_held hc0 st' sl)
      · intro y; by_cases hy : y = c
        · subst hy; right; rw [hself, hr]; simp [isRtsp]
        · left; exact hne y hy
      · intro y; by_cases hy : y = c
        · subst hy; right; rw [hself]; simp [isCust]
        · left; exact hne y hy
      · intro y r' st' hy ho
        by_cases e : y = c
        · subst e; rw [hself] at hy; cases hy
          simp [hobs] at ho
        · exact h.obs y r' st' (hne y e ▸ hy) ho
      · intro y r' hy hf
        by_cases e : y = c
        · subst e; rw [hself] at hy; cases hy; rfl
        · exact h.flag y r' (hne y e ▸ hy) hf


/-! ### play -/

theorem pullIfNeeded_spawn (g : Grp) (n : Sid) : (g.pullIfNeeded n).2.1 = none ∨ (g.pullIfNeeded n).2.1 = some n := by
  unfold pullIfNeeded; split <;> simp

/-- the shapes of the state after `play` -/
theorem rPlay_eq (s : Srv) (c : Sid) (st : Stream) (a : Bool) (nid : Sid) :
    (rPlay Code.fixed s c st a nid).1 = s ∨
    (∃ r, s.sess c = some (.rtmp r) ∧ r.closed = false ∧ (rPlay Code.fixed s c st a nid).1 = rtmpTail s c r) ∨
    (∃ r, s.sess c = some (.rtmp r) ∧ r.closed = false ∧ r.typ = .unknown ∧ s.fresh nid = true ∧
      (((rPlay Code.fixed s c st a nid).1 = (s.modR c fun r => { r with typ := .sub, stream := st }).modR c fun r => { r with flag := true, closed := true }) ∨
       ∃ (g' : Grp) (n : Option Sid) (b : Bool), (n = none ∨ n = some nid) ∧
         (∀ sl y, g'.holds sl y ↔ ((s.getOrCreate st).holds sl y ∨ (sl = .rtmpSub ∧ y = c))) ∧
         (rPlay Code.fixed s c st a nid).1 =
           (((s.modR c fun r => { r with typ := .sub, stream := st }).setG st g').spawned st b n).note .subStart c)) := by
  unfold rPlay
  split
  · rename_i r hr
    split
    · exact Or.inl rfl
    · rename_i hcl
      simp only [Bool.or_eq_true, Bool.not_eq_true', not_or, Bool.not_eq_true, Bool.not_eq_false] at hcl
      split
      · exact Or.inr (Or.inl ⟨r, hr, hcl.1, by simp [Code.fixed]⟩)
      · rename_i ht
        refine Or.inr (Or.inr ⟨r, hr, hcl.1, by simpa using ht, hcl.2, ?_⟩)
        dsimp only
        unfold Srv.onNewRtmpSub
        split
        · left; simp
        · rename_i ha
          dsimp only
          simp only [if_true]
          right
          have hgoc : (s.modR c fun r => { r with typ := .sub, stream := st }).getOrCreate st = s.getOrCreate st := by
            simp [Srv.getOrCreate]
          rw [hgoc]
          exact ⟨_, _, _, pullIfNeeded_spawn _ nid, fun sl y => holds_addRtmpSub _ c nid sl y, rfl⟩
  · exact Or.inl rfl


theorem modR_eq_setS {s : Srv} {c : Sid} {r : RConn} (h : s.sess c = some (.rtmp r)) (f : RConn → RConn) :
    s.modR c f = s.setS c (.rtmp (f r)) := by
  unfold Srv.modR; rw [h]

theorem setS_setS (s : Srv) (c : Sid) (v w : Sess) : (s.setS c v).setS c w = s.setS c w := by
  unfold Srv.setS; congr 1; funext k; dsimp only; split <;> rfl

theorem modR_modR {s : Srv} {c : Sid} {r : RConn} (h : s.sess c = some (.rtmp r)) (f g : RConn → RConn) :
    (s.modR c f).modR c g = s.setS c (.rtmp (g (f r))) := by
  rw [modR_eq_setS h, modR_eq_setS (r := f r) (by simp), setS_setS]

/-- an RTMP session that was registered nowhere becomes a closed one -/
theorem Inv.setRtmpDead {s : Srv} (h : Inv s) {c : Sid} {r : RConn} (hr : s.sess c = some (.rtmp r))
    (hc0 : claimOf s c = none) (r' : RConn) (h1 : r'.closed = true) (h2 : r'.obs = none) : Inv (s.setS c (.rtmp r')) := by
  refine h.mk2 (OkAll.same h.ok (by simp)) ?_ c none ?_ (by simp) ?_ ?_ ?_ ?_
  · refine h.ci.update c ?_ (fun y st sl _ => by simp) ?_
    · intro y hy; simp [hy]
    · intro st sl; simp [Sess.claim, h1]; exact h.ci.not_held hc0 st sl
  · intro y hy _; simp [hy]
  · simp [hr, isRtsp]
  · simp
  · intro r'' st hs ho; simp at hs; subst hs; simp [h2] at ho
  · intro r'' hs _; simp at hs; subst hs; exact h1

theorem inv_rPlay {s : Srv} (h : Inv s) (c : Sid) (st : Stream) (a : Bool) (nid : Sid) : Inv (rPlay Code.fixed s c st a nid).1 := by
  have hok : OkAll (rPlay Code.fixed s c st a nid).1 := ok_step h.ok (.rPlay c st a nid)
  rcases rPlay_eq s c st a nid with e | ⟨r, hr, hcl, e⟩ | ⟨r, hr, hcl, htyp, hfr, e | ⟨g', n, b, hn, hg', e⟩⟩
  · rw [e]; exact h
  · rw [e]; exact inv_rtmpTail h hr hcl
  · -- refused (auth)
    rw [e, modR_modR hr]
    have hc0 : claimOf s c = none := by rw [claimOf_of_sess hr]; simp [Sess.claim, htyp]
    have hobs : r.obs = none := by
      cases ho : r.obs with
      | none => rfl
      | some st' => have := (h.obs c r st' hr ho).1; rw [htyp] at this; cases this
    exact h.setRtmpDead hr hc0 { r with typ := .sub, stream := st, flag := true, closed := true } rfl hobs
  · -- accepted
    rw [e] at hok ⊢
    have hfl : r.flag = false := by
      cases hf : r.flag
      · rfl
      · have := h.flag c r hr hf; rw [hcl] at this; cases this
    have hobs : r.obs = none := by
      cases ho : r.obs with
      | none => rfl
      | some st' => have := (h.obs c r st' hr ho).1; rw [htyp] at this; cases this
    have hc0 : claimOf s c = none := by rw [claimOf_of_sess hr]; simp [Sess.claim, htyp]
    have hnc : ∀ m, n = some m → m ≠ c ∧ s.sess m = none := by
      intro m hm
      rcases hn with hn | hn
      · rw [hn] at hm; cases hm
      · rw [hn] at hm; cases hm
        have : s.sess nid = none := by simpa [Srv.fresh] using hfr
        exact ⟨(by rintro rfl; rw [hr] at this; cases this), this⟩
    have hsess : ∀ y, ((((s.modR c fun r => { r with typ := .sub, stream := st }).setG st g').spawned st b n).note .subStart c).sess y =
        if some y = n then some (.pull { stream := st, rtsp := b }) else
        if y = c then some (.rtmp { r with typ := .sub, stream := st }) else s.sess y := by
      intro y
      simp only [Srv.note_sess, Srv.sess_spawned, Srv.setG_sess]
      split
      · rfl
      · split
        · rename_i hy; subst hy; exact sess_modR_self hr _
        · rename_i hy; exact sess_modR_ne _ _ _ hy
    have hself : ((((s.modR c fun r => { r with typ := .sub, stream := st }).setG st g').spawned st b n).note .subStart c).sess c =
        some (.rtmp { r with typ := .sub, stream := st }) := by
      rw [hsess]
      have : some c ≠ n := by intro e; exact (hnc c e.symm).1 rfl
      simp [this]
    refine h.mk2 hok ?_ c n ?_ ?_ ?_ ?_ ?_ ?_
    · refine h.ci.add c st .rtmpSub ?_ hc0 ?_ ?_
      · intro y hy
        unfold claimOf; rw [hsess]
        split
        · rename_i hyn
          have := (hnc y hyn.symm).2
          simp [this, Sess.claim]
        · simp [hy]
      · rw [claimOf_of_sess hself]; simp [Sess.claim, hcl, hfl]
      · intro st' sl y
        simp only [holdsAt_note, holdsAt_spawned]
        exact holdsAt_add (s := s) (by funext k; simp) hg' st' sl y
    · intro y hy hyn; rw [hsess]; simp [hyn, hy]
    · intro m hm hmc
      refine ⟨(hnc m hm).2, { stream := st, rtsp := b }, ?_⟩
      rw [hsess]; simp [hm]
    · rw [hself, hr]; simp [isRtsp]
    · intro cu hs; rw [hself] at hs; cases hs
    · intro r' st' hs ho; rw [hself] at hs; cases hs; simp [hobs] at ho
    · intro r' hs hf; rw [hself] at hs; cases hs; simp [hfl] at hf

end Lal.Adm
