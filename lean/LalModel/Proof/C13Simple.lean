import LalModel.Proof.Total
import LalModel.Model.WsRead
import LalModel.Model.UrlCtx
import LalModel.Model.Rtcp
import LalModel.Model.Rtp
/-
  Totality of the small entry points of C13: base.ReadWsPayload, the URL functions of pkg/base/url.go,
  ParseRtcpHeader / ParseSr under their length precondition.
-/
namespace Lal

/-! ### base.ReadWsPayload -/
namespace WsRead

theorem unmask_length (key : Bytes) : ∀ (i : Nat) (p : Bytes), (unmask key i p).length = p.length := by
  intro i p
  induction p generalizing i with
  | nil => rfl
  | cons x r ih => simp [unmask, ih]

theorem readLen_length (l : Nat) (r0 r1 : Bytes) (n : Nat) (h : readLen l r0 = some (n, r1)) : r1.length ≤ r0.length := by
  unfold readLen at h
  split at h
  · cases h; exact Nat.le_refl _
  · split at h
    · split at h
      · cases h; simp only [List.length_cons]; omega
      · cases h
    · split at h
      · cases h; simp only [List.length_cons]; omega
      · cases h

theorem readKey_length (m : Bool) (r1 r2 key : Bytes) (h : readKey m r1 = some (key, r2)) : r2.length ≤ r1.length := by
  unfold readKey at h
  split at h
  · split at h
    · cases h; simp only [List.length_cons]; omega
    · cases h
  · cases h; exact Nat.le_refl _

theorem readBody_noPanic (m : Bool) (key : Bytes) (n : Nat) (r2 : Bytes) : NoPanic (readBody m key n r2) := by
  unfold readBody
  apply NoPanic.ite; · intro _; exact NoPanic.err
  intro _; apply NoPanic.ite; · intro _; exact NoPanic.err
  intro _; exact NoPanic.ok _

theorem readBody_length (m : Bool) (key : Bytes) (n : Nat) (r2 p rest : Bytes) (h : readBody m key n r2 = .ok (p, rest)) :
    p.length + rest.length ≤ r2.length := by
  unfold readBody at h
  split at h; · cases h
  split at h; · cases h
  simp only [Except.ok.injEq, Prod.mk.injEq] at h
  obtain ⟨hp, hr⟩ := h
  subst hp; subst hr
  split <;> simp [unmask_length] <;> omega

theorem readWsPayload_noPanic (b : Bytes) : NoPanic (readWsPayload b) := by
  unfold readWsPayload
  split
  · split
    · exact NoPanic.err
    · split
      · exact NoPanic.err
      · exact readBody_noPanic _ _ _ _
  · exact NoPanic.err

/-- what is held in memory is bounded by what was received: payload and rest are disjoint parts of the input
    behind the two fixed header bytes -/
theorem readWsPayload_bounded (b p rest : Bytes) (h : readWsPayload b = .ok (p, rest)) : p.length + rest.length + 2 ≤ b.length := by
  unfold readWsPayload at h
  split at h
  · rename_i x b1 r0
    split at h
    · cases h
    · rename_i n r1 hl
      split at h
      · cases h
      · rename_i key r2 hk
        have h1 := readLen_length _ _ _ _ hl
        have h2 := readKey_length _ _ _ _ hk
        have h3 := readBody_length _ _ _ _ _ _ h
        simp only [List.length_cons]
        omega
  · cases h

end WsRead

end Lal

namespace Lal
namespace UrlCtx
open Lal.Sdp

theorem lastIndexByte_go (c : UInt8) : ∀ (r : Bytes) (i : Nat) (acc : Option Nat) (j : Nat),
    lastIndexByte.go c r i acc = some j → acc = some j ∨ (i ≤ j ∧ j < i + r.length) := by
  intro r
  induction r with
  | nil => intro i acc j h; left; simpa [lastIndexByte.go] using h
  | cons x r ih =>
    intro i acc j h
    simp only [lastIndexByte.go] at h
    rcases ih _ _ _ h with h1 | ⟨h1, h2⟩
    · split at h1
      · cases h1; right; simp only [List.length_cons]; omega
      · left; exact h1
    · right; simp only [List.length_cons]; omega

theorem lastIndexByte_lt (s : Bytes) (c : UInt8) (j : Nat) (h : lastIndexByte s c = some j) : j < s.length := by
  unfold lastIndexByte at h
  rcases lastIndexByte_go c s 0 none j h with h1 | ⟨_, h2⟩
  · cases h1
  · omega

theorem splitPath_noPanic (path : Bytes) : NoPanic (splitPath path) := by
  unfold splitPath
  split
  · exact NoPanic.ok _
  · rename_i index h
    have hl := lastIndexByte_lt _ _ _ h
    split
    · split
      · exact NoPanic.ok _
      · rw [from?_ok (by omega)]; exact NoPanic.ok _
    · rw [slice?_ok (by omega) (by omega), from?_ok (by omega)]; exact NoPanic.ok _

theorem parseUrl_noPanic (u : Std) (d : Int) : NoPanic (parseUrl u d) := by
  unfold parseUrl
  split; · exact NoPanic.err
  split; · exact NoPanic.err
  split; · exact NoPanic.err
  have := splitPath_noPanic u.path
  split
  · rename_i f hf
    intro s h; cases h; exact this s hf
  · exact NoPanic.ok _

theorem rtmpFix_noPanic (c : Ctx) : NoPanic (rtmpFix c) := by
  unfold rtmpFix
  dsimp only
  split
  · rename_i index h
    have hl := lastIndexByte_lt _ _ _ h
    by_cases hi : index > 0
    · simp only [hi, if_true]
      rw [slice?_ok (by omega) (by omega), from?_ok (by omega)]; exact NoPanic.ok _
    · simp only [hi, if_false]
      rw [from?_ok (by omega)]; exact NoPanic.ok _
  · rw [from?_ok (by omega)]; exact NoPanic.ok _

theorem parseRtmpUrl_noPanic (u : Std) : NoPanic (parseRtmpUrl u) := by
  unfold parseRtmpUrl
  have := parseUrl_noPanic u (-1)
  split
  · rename_i f hf
    intro s h; cases h; exact this s hf
  · split
    · exact NoPanic.err
    · dsimp only
      split <;> split <;> first | exact rtmpFix_noPanic _ | exact NoPanic.ok _

theorem parseRtspUrl_noPanic (u : Std) : NoPanic (parseRtspUrl u) := by
  unfold parseRtspUrl
  have := parseUrl_noPanic u (-1)
  split
  · rename_i f hf
    intro s h; cases h; exact this s hf
  · split
    · exact NoPanic.err
    · exact NoPanic.ok _

theorem parseHttpflvUrl_noPanic (u : Std) : NoPanic (parseHttpflvUrl u) := by
  unfold parseHttpflvUrl
  have := parseUrl_noPanic u (-1)
  split
  · rename_i f hf
    intro s h; cases h; exact this s hf
  · split
    · exact NoPanic.err
    · exact NoPanic.ok _

theorem fileNameType_noPanic (c : Ctx) : NoPanic (fileNameType c) := by
  unfold fileNameType
  split
  · exact NoPanic.ok _
  · rename_i index h
    have hl := lastIndexByte_lt _ _ _ h
    rw [upto?_ok (by omega), from?_ok (by omega)]; exact NoPanic.ok _

end UrlCtx
end Lal

namespace Lal
namespace Rtcp

theorem be32At_ok (site : String) (b : Bytes) (off : Nat) (h : off + 4 ≤ b.length) : ∃ v, be32At site b off = .ok v := by
  unfold be32At
  have hd : (b.drop off).length = b.length - off := by simp
  rw [from?_ok (by omega)]
  simp only [bind, Except.bind]
  rw [idx?_ok (by omega), idx?_ok (by omega), idx?_ok (by omega), idx?_ok (by omega)]
  exact ⟨_, rfl⟩

/-- `ParseSr` under its precondition `len(b) >= RtcpSrMinLength` -/
theorem parseSr_ok (b : Bytes) (h : 28 ≤ b.length) : ∃ s, parseSr b = .ok s := by
  unfold parseSr
  obtain ⟨a, ha⟩ := be32At_ok "ParseSr b[4:]" b 4 (by omega)
  obtain ⟨c, hc⟩ := be32At_ok "ParseSr b[8:]" b 8 (by omega)
  obtain ⟨d, hd⟩ := be32At_ok "ParseSr b[12:]" b 12 (by omega)
  obtain ⟨e, he⟩ := be32At_ok "ParseSr b[16:]" b 16 (by omega)
  obtain ⟨f, hf⟩ := be32At_ok "ParseSr b[20:]" b 20 (by omega)
  obtain ⟨g, hg⟩ := be32At_ok "ParseSr b[24:]" b 24 (by omega)
  rw [ha, hc, hd, he, hf, hg]
  exact ⟨_, rfl⟩

/-- `ParseRtcpHeader` under its precondition `len(b) >= RtcpHeaderLength` -/
theorem parseRtcpHeader_ok (b : Bytes) (h : 4 ≤ b.length) : ∃ s, parseRtcpHeader b = .ok s := by
  unfold parseRtcpHeader
  have hd : (b.drop 2).length = b.length - 2 := by simp
  rw [idx?_ok (by omega), idx?_ok (by omega), from?_ok (by omega)]
  simp only [bind, Except.bind]
  rw [idx?_ok (by omega), idx?_ok (by omega)]
  exact ⟨_, rfl⟩

end Rtcp
end Lal
