import LalModel.Model.RtpUnpack
/-
  Timestamp conversion of the RTP unpackers (C07 `ts_no_drift`).
  `tsMsPinned` is the pinned tree's `int64(Timestamp / uint32(clockRate/1000))`, kept for the negative witness (S11).
-/
namespace Lal.RtpUnpack
open Lal

/-- the pinned conversion (before the `fix:` commit of branch w-C07) -/
def tsMsPinned (rate ts : Nat) : GoM Nat := div? "Timestamp / uint32(clockRate/1000)" ts (rate / 1000 % 4294967296)

theorem tsMs_eq (rate ts : Nat) (hr : 0 < rate) : tsMs rate ts = .ok (msOf rate ts) := by
  unfold tsMs msOf
  rw [if_neg (by omega)]
  simp only [Int.toNat_natCast]

/-- ⌊ts·1000/rate⌋ is within one millisecond below the exact value, for every rate -/
theorem msOf_bounds (rate ts : Nat) (hr : 0 < rate) :
    msOf rate ts * rate ≤ ts * 1000 ∧ ts * 1000 < (msOf rate ts + 1) * rate := by
  unfold msOf
  constructor
  · exact Nat.div_mul_le_self _ _
  · have h1 := Nat.div_add_mod (ts * 1000) rate
    have h2 := Nat.mod_lt (ts * 1000) hr
    rw [Nat.add_mul, Nat.one_mul, Nat.mul_comm (ts * 1000 / rate) rate]
    omega

theorem msOf_mono (rate a b : Nat) (h : a ≤ b) : msOf rate a ≤ msOf rate b := by
  unfold msOf
  exact Nat.div_le_div_right (Nat.mul_le_mul_right 1000 h)

/-- after re-basing to the track's first unit (what AvPacketQueue does) the error against the exact elapsed time
    stays below one millisecond at every index: one constant per track, no cumulative drift -/
theorem msOf_rebased (rate ts0 ts : Nat) (hr : 0 < rate) (h : ts0 ≤ ts) :
    (msOf rate ts - msOf rate ts0) * rate < (ts - ts0) * 1000 + rate ∧
    (ts - ts0) * 1000 < (msOf rate ts - msOf rate ts0) * rate + rate := by
  have b1 := msOf_bounds rate ts hr
  have b0 := msOf_bounds rate ts0 hr
  have hm := msOf_mono rate ts0 ts h
  rw [Nat.sub_mul, Nat.sub_mul]
  rw [Nat.add_mul, Nat.one_mul] at b1 b0
  have hm' : msOf rate ts0 * rate ≤ msOf rate ts * rate := Nat.mul_le_mul_right rate hm
  omega

/-- S11, the pinned conversion at 44.1 kHz after `k` AAC frames (1024 samples each): the value `p` runs ahead of the
    exact time 1024·k/44.1 ms by more than 1024·k·(1/44 − 1/44.1) − 1 = 1024·k/19404 − 1 ms — linear in `k`
    (multiplied out: 19404·(p + 1) > 441·1024·k, where 19404 = 44·441) -/
theorem tsMsPinned_drift (k : Nat) :
    ∃ p, tsMsPinned 44100 (1024 * k) = .ok p ∧ 441 * (1024 * k) < 19404 * p + 19404 := by
  refine ⟨1024 * k / 44, ?_, by omega⟩
  simp [tsMsPinned, div?]

/-- … i.e. more than 51 ms after 1000 frames (23.2 s of audio), where the fixed conversion is exact to 1 ms -/
theorem tsMsPinned_1000 :
    tsMsPinned 44100 (1024 * 1000) = .ok 23272 ∧ msOf 44100 (1024 * 1000) = 23219 := by
  constructor
  · simp [tsMsPinned, div?]
  · simp [msOf]

end Lal.RtpUnpack
