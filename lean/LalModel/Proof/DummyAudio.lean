import LalModel.Model.DummyAudio
import LalModel.Proof.MsgClass
import LalModel.Proof.GoOk
/-
  `DummyAudioFilter.Feed` returns normally for every message, and the number of messages it hands on is bounded
  by a constant per input message (amortised over the analysis queue), whatever the timestamps.
  On the pinned tree the catch-up loop is unbounded (linear in the timestamp jump) and, with a timestamp of
  2^32 - 1, never terminates.
-/
namespace Lal.DummyAudio
open Lal Lal.MsgClass
set_option linter.unusedSimpArgs false

/-- messages handed on per input message: `maxGapMs / 21 + 2` -/
def K : Nat := maxGapMs / 21 + 2

theorem dur_ge (n : Nat) : 21 ≤ dur n := by unfold dur; split <;> omega
theorem dur_le (n : Nat) : dur n ≤ 22 := by unfold dur; split <;> omega

/-- every emitted frame advances the audio clock by at least 21 ms and never past the target -/
theorem catchUp_len : ∀ (f : Nat) (st : St) (ts : Nat), 21 * (catchUp f st ts).2.length + st.prevAudioTs ≤ max ts st.prevAudioTs := by
  intro f
  induction f with
  | zero => intro st ts; simp [catchUp]; omega
  | succ f ih =>
    intro st ts
    unfold catchUp
    dsimp only
    split
    · simp; omega
    · rename_i h
      have := ih { st with prevAudioTs := st.prevAudioTs + dur st.audioCount, audioCount := st.audioCount + 1 } ts
      have hd := dur_ge st.audioCount
      simp only [List.length_cons] at this ⊢
      omega

theorem catchUp_succ (f : Nat) (st : St) (ts : Nat) :
    catchUp (f + 1) st ts =
      if st.prevAudioTs + dur st.audioCount > ts then (st, [])
      else ((catchUp f { st with prevAudioTs := st.prevAudioTs + dur st.audioCount, audioCount := st.audioCount + 1 } ts).1,
            oneAudio (st.prevAudioTs + dur st.audioCount) ::
              (catchUp f { st with prevAudioTs := st.prevAudioTs + dur st.audioCount, audioCount := st.audioCount + 1 } ts).2) := rfl

/-- more fuel than `ts + 1 - prev` changes nothing: the Go loop (which has no budget) is what the model computes -/
theorem catchUp_fuel : ∀ (f : Nat) (st : St) (ts : Nat), ts + 1 - st.prevAudioTs ≤ f → catchUp (f + 1) st ts = catchUp f st ts := by
  intro f
  induction f with
  | zero =>
    intro st ts h
    have hd := dur_ge st.audioCount
    rw [catchUp_succ, if_pos (by omega)]
    rfl
  | succ f ih =>
    intro st ts h
    have hd := dur_ge st.audioCount
    rw [catchUp_succ (f + 1) st ts]
    conv => rhs; rw [catchUp_succ f st ts]
    split
    · rfl
    · rw [ih _ ts (by simp only; omega)]

theorem catchUp_fields : ∀ (f : Nat) (st : St) (ts : Nat),
    (catchUp f st ts).1.stage = st.stage ∧ (catchUp f st ts).1.queue = st.queue ∧ (catchUp f st ts).1.waitMs = st.waitMs := by
  intro f
  induction f with
  | zero => intro st ts; exact ⟨rfl, rfl, rfl⟩
  | succ f ih =>
    intro st ts
    rw [catchUp_succ]
    split
    · exact ⟨rfl, rfl, rfl⟩
    · exact ih _ ts

/-- `handleDummyStage`: at most `K` messages are handed on, whatever the timestamp -/
theorem handleDummy_ok (st : St) (m : Msg) :
    Ok (fun r => r.2.length ≤ K ∧ r.1.stage = st.stage ∧ r.1.queue = st.queue) (handleDummy st m) := by
  unfold handleDummy
  simp only [isVideoKeySeqHeader_eq, GoM.ok_bind, GoM.pure_eq]
  repeat' split
  all_goals first
    | exact Ok.ok ⟨by simp [K, maxGapMs], rfl, rfl⟩
    | skip
  rename_i h1 h2 h3 h4 h5
  have hf := catchUp_fields (m.ts + 1 - st.prevAudioTs) st m.ts
  refine Ok.ok ⟨?_, hf.1, hf.2.1⟩
  have := catchUp_len (m.ts + 1 - st.prevAudioTs) st m.ts
  simp only [List.length_append, List.length_singleton, K, maxGapMs]
  simp only [maxGapMs] at h5
  omega

theorem drainQueue_ok : ∀ (q : List Msg) (st : St),
    Ok (fun r => r.2.length ≤ K * q.length ∧ r.1.stage = st.stage ∧ r.1.queue = st.queue) (drainQueue st q) := by
  intro q
  induction q with
  | nil => intro st; exact Ok.ok ⟨by simp, rfl, rfl⟩
  | cons m rest ih =>
    intro st
    unfold drainQueue
    obtain ⟨r1, h1, hl1, hs1, hq1⟩ := handleDummy_ok st m
    obtain ⟨r2, h2, hl2, hs2, hq2⟩ := ih r1.1
    simp only [h1, h2, GoM.ok_bind, GoM.pure_eq]
    refine Ok.ok ⟨?_, by rw [hs2, hs1], by rw [hq2, hq1]⟩
    simp only [List.length_append, List.length_cons, Nat.mul_add, Nat.mul_one]
    omega

/-- the potential: messages parked in the analysis queue, each worth `K` later -/
def potential (st : St) : Nat := if st.stage = 1 then K * st.queue.length else 0

theorem K_pos : 1 ≤ K := by simp [K, maxGapMs]

theorem handleAnalysis_ok (st : St) (m : Msg) (hs : st.stage = 1) :
    Ok (fun r => r.2.length + potential r.1 ≤ potential st + K) (handleAnalysis st m) := by
  have hk := K_pos
  unfold handleAnalysis
  simp only [isVideoKeySeqHeader_eq, GoM.ok_bind, GoM.pure_eq]
  have cache : ∀ (st' : St), st'.stage = 1 → st'.queue = st.queue ++ [m] →
      ([] : List Msg).length + potential st' ≤ potential st + K := by
    intro st' h1 h2
    simp only [potential, hs, h1, h2, if_true, List.length_append, List.length_singleton, List.length_nil, Nat.mul_add, Nat.mul_one]
    omega
  repeat' split
  all_goals first
    | exact Ok.ok (cache _ hs rfl)
    | skip
  · -- audio: the queue is released, stage normal
    refine Ok.ok ?_
    simp only [potential, hs, if_true, List.length_append, List.length_singleton]
    have : st.queue.length ≤ K * st.queue.length := Nat.le_mul_of_pos_left _ hk
    split <;> omega
  · -- threshold reached: drain the queue through the dummy stage, then this message
    obtain ⟨r1, h1, hl1, hs1, hq1⟩ := drainQueue_ok st.queue { st with stage := 3 }
    simp only [h1, GoM.ok_bind]
    obtain ⟨r2, h2, hl2, hs2, hq2⟩ := handleDummy_ok { r1.1 with queue := [] } m
    simp only [h2, GoM.ok_bind]
    refine Ok.ok ?_
    have hst : r2.1.stage = 3 := by rw [hs2]; exact hs1
    simp only [potential, hs, hst, if_true, List.length_append]
    simp only [show ¬ ((3 : Nat) = 1) by decide, if_false]
    omega
  · exact Ok.ok (by simp [potential])

/-- `Feed`: amortised, at most `K` messages handed on per input message -/
theorem feed_ok (st : St) (m : Msg) : Ok (fun r => r.2.length + potential r.1 ≤ potential st + K) (feed st m) := by
  have hk := K_pos
  unfold feed
  split
  · exact handleAnalysis_ok st m ‹_›
  · split
    · refine Ok.ok ?_
      simp only [potential, List.length_singleton]
      split <;> omega
    · split
      · obtain ⟨r, h, hl, hs, hq⟩ := handleDummy_ok st m
        refine ⟨r, h, ?_⟩
        have h3 : st.stage ≠ 1 := by omega
        have h3' : r.1.stage ≠ 1 := by rw [hs]; exact h3
        simp only [potential, h3, h3', if_false]
        omega
      · refine Ok.ok ?_
        have h1 : st.stage ≠ 1 := by omega
        simp [potential, h1]

theorem feedAll_ok : ∀ (ms : List Msg) (st : St),
    Ok (fun r => r.2.length + potential r.1 ≤ potential st + K * ms.length) (feedAll st ms) := by
  intro ms
  induction ms with
  | nil => intro st; exact Ok.ok (by simp)
  | cons m rest ih =>
    intro st
    unfold feedAll
    obtain ⟨r1, h1, hb1⟩ := feed_ok st m
    obtain ⟨r2, h2, hb2⟩ := ih r1.1
    simp only [h1, h2, GoM.ok_bind, GoM.pure_eq]
    refine Ok.ok ?_
    simp only [List.length_append, List.length_cons, Nat.mul_add, Nat.mul_one]
    omega

/-! ### the pinned tree -/

/-- S7, wrap-around: with a target timestamp of 2^32 - 1 the pinned loop never reaches `ats > ts`: whatever the
    budget, it is used up (the Go loop has none and spins for ever, holding the group mutex). -/
theorem Pinned.catchUp_never_ends : ∀ (f : Nat) (st : St), (Pinned.catchUp f st maxU32).2.length = f := by
  intro f
  induction f with
  | zero => intro st; rfl
  | succ f ih =>
    intro st
    unfold Pinned.catchUp
    dsimp only
    have : ¬ ((st.prevAudioTs + dur st.audioCount) % 4294967296 > maxU32) := by simp only [maxU32]; omega
    rw [if_neg this]
    simp only [List.length_cons, ih]

/-- S7, cost: without wrap-around the pinned loop emits at least `(ts - prev) / 22 - 1` frames — linear in the jump -/
theorem Pinned.catchUp_linear : ∀ (f : Nat) (st : St) (ts : Nat), ts < 4294967296 - 22 → st.prevAudioTs ≤ ts →
    (ts - st.prevAudioTs) / 21 < f → (ts - st.prevAudioTs) / 22 ≤ (Pinned.catchUp f st ts).2.length := by
  intro f
  induction f with
  | zero => intro st ts _ _ h; omega
  | succ f ih =>
    intro st ts hts hle hf
    have hd := dur_le st.audioCount
    have hd' := dur_ge st.audioCount
    unfold Pinned.catchUp
    dsimp only
    have hmod : (st.prevAudioTs + dur st.audioCount) % 4294967296 = st.prevAudioTs + dur st.audioCount := Nat.mod_eq_of_lt (by omega)
    rw [hmod]
    split
    · simp only [List.length_nil]; omega
    · have := ih { st with prevAudioTs := st.prevAudioTs + dur st.audioCount, audioCount := st.audioCount + 1 } ts hts
        (by simp only; omega) (by simp only; omega)
      simp only [List.length_cons] at this ⊢
      omega

end Lal.DummyAudio
