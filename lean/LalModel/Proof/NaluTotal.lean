import LalModel.Model.Nalu
import LalModel.Model.Rtp
import LalModel.Proof.GoOk
/-
  `avc.IterateNaluAvcc` never hands an empty unit to its handler (so `nal[0]` in the callers is in range), and
  `RtpPackerPayloadAvcHevc.PackNal` with the packer's `MaxPayloadSize = 1200` returns normally.
-/
namespace Lal.Nalu

theorem avccLoop_nonempty : ∀ (fuel : Nat) (s : Bytes), ∀ n ∈ (avccLoop fuel s).1, n ≠ [] := by
  intro fuel
  induction fuel with
  | zero => intro s n hn; simp [avccLoop] at hn
  | succ f ih =>
    intro s n hn
    unfold avccLoop at hn
    split at hn
    · rename_i a b c d s'
      dsimp only at hn
      by_cases he : s'.isEmpty
      · simp [he] at hn
      · simp only [he, Bool.false_eq_true, if_false] at hn
        by_cases h1 : rd32 a b c d < s'.length
        · simp only [h1, if_true] at hn
          by_cases h0 : rd32 a b c d = 0
          · simp only [h0, if_true] at hn; exact ih _ n hn
          · simp only [h0, if_false] at hn
            simp only [List.mem_cons] at hn
            rcases hn with rfl | hn
            · intro hz
              have : (s'.take (rd32 a b c d)).length = 0 := by rw [hz]; rfl
              simp only [List.length_take] at this
              omega
            · exact ih _ n hn
        · simp only [h1, if_false] at hn
          have hs' : s' ≠ [] := by
            cases s' with
            | nil => simp at he
            | cons _ _ => simp
          by_cases h2 : rd32 a b c d = s'.length
          · simp only [h2, if_true, List.mem_singleton] at hn; rw [hn]; exact hs'
          · simp only [h2, if_false, List.mem_singleton] at hn; rw [hn]; exact hs'
    · simp at hn

theorem splitNaluAvcc_nonempty (b : Bytes) : ∀ n ∈ (splitNaluAvcc b).1, n ≠ [] := by
  intro n hn
  unfold splitNaluAvcc iterateNaluAvcc at hn
  split at hn
  · simp at hn
  · exact avccLoop_nonempty _ _ n hn

end Lal.Nalu

namespace Lal.Rtp

theorem packNal_np (hevc : Bool) (nal : Bytes) : NoPanicB (packNal hevc nal 1200) := by
  unfold packNal
  cases hevc <;> simp <;> (repeat' split) <;> first | exact NoPanicB.ok _ | (simp_all [fuHeaderSize]; done)

end Lal.Rtp
