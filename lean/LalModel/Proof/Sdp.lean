import LalModel.Model.Sdp
namespace Lal.Sdp
open Lal

/-- The laws the SDP theorems use of base64 / hex: decoding inverts encoding, and the encoded text contains
    no white space, comma or semicolon (RFC 4648 alphabets); hex doubles the length. -/
structure CodecLaws (c : Codec) : Prop where
  b64_rt : ∀ x, c.b64dec (c.b64enc x) = (x, true)
  hex_rt : ∀ x, c.hexdec (c.hexenc x) = (x, true)
  b64_clean : ∀ x, ∀ ch ∈ c.b64enc x, isSpace ch = false ∧ ch ≠ 44 ∧ ch ≠ 59
  hex_clean : ∀ x, ∀ ch ∈ c.hexenc x, isSpace ch = false ∧ ch ≠ 44 ∧ ch ≠ 59
  hex_len : ∀ x, (c.hexenc x).length = 2 * x.length

/- ---------------- strings ---------------- -/

theorem cut_append (c : UInt8) (a b : Bytes) (h : c ∉ a) : cut c (a ++ c :: b) = some (a, b) := by
  induction a with
  | nil => simp [cut]
  | cons x xs ih =>
    have hx : x ≠ c := fun e => h (by simp [e])
    have hxs : c ∉ xs := fun e => h (by simp [e])
    simp [cut, hx, ih hxs]

theorem cut_none (c : UInt8) (a : Bytes) (h : c ∉ a) : cut c a = none := by
  induction a with
  | nil => rfl
  | cons x xs ih =>
    have hx : x ≠ c := fun e => h (by simp [e])
    have hxs : c ∉ xs := fun e => h (by simp [e])
    simp [cut, hx, ih hxs]

theorem splitByte_none (c : UInt8) (a : Bytes) (h : c ∉ a) : splitByte c a = [a] := by
  induction a with
  | nil => rfl
  | cons x xs ih =>
    have hx : x ≠ c := fun e => h (by simp [e])
    have hxs : c ∉ xs := fun e => h (by simp [e])
    simp [splitByte, hx, ih hxs]

theorem splitByte_append (c : UInt8) (a b : Bytes) (h : c ∉ a) : splitByte c (a ++ c :: b) = a :: splitByte c b := by
  induction a with
  | nil => simp [splitByte]
  | cons x xs ih =>
    have hx : x ≠ c := fun e => h (by simp [e])
    have hxs : c ∉ xs := fun e => h (by simp [e])
    simp [splitByte, hx, ih hxs]

theorem hasPrefix_append (p l x : Bytes) (h : p.length ≤ l.length) : hasPrefix p (l ++ x) = hasPrefix p l := by
  simp [hasPrefix, List.take_append_of_le_length h]

theorem splitCRLF_line (l : Bytes) (rest : Bytes) (h : 13 ∉ l) :
    splitCRLF (l ++ 13 :: 10 :: rest) = l :: splitCRLF rest := by
  induction l with
  | nil => simp [splitCRLF]
  | cons x xs ih =>
    have hx : x ≠ 13 := fun e => h (by simp [e])
    have hxs : (13 : UInt8) ∉ xs := fun e => h (by simp [e])
    have ih' := ih hxs
    cases xs with
    | nil =>
      simp only [List.cons_append, List.nil_append] at ih' ⊢
      rw [splitCRLF.eq_def]
      simp [hx, ih']
    | cons y ys =>
      simp only [List.cons_append] at ih' ⊢
      rw [splitCRLF.eq_def]
      simp [hx, ih']

theorem splitCRLF_join (ls : List Bytes) (h : ∀ l ∈ ls, (13 : UInt8) ∉ l) : splitCRLF (joinCRLF ls) = ls ++ [[]] := by
  induction ls with
  | nil => rfl
  | cons l rest ih =>
    have := splitCRLF_line l (joinCRLF rest) (h l (by simp))
    simp only [joinCRLF, List.flatMap_cons, List.append_assoc, List.cons_append, List.nil_append] at this ⊢
    rw [this, ← joinCRLF, ih (fun l' hl => h l' (by simp [hl]))]

theorem dropWhile_all_false {α} (f : α → Bool) (l : List α) (h : ∀ x ∈ l, f x = false) : l.dropWhile f = l := by
  cases l with
  | nil => rfl
  | cons x xs => simp [List.dropWhile, h x (by simp)]

theorem trimSpace_clean (s : Bytes) (h : ∀ x ∈ s, isSpace x = false) : trimSpace s = s := by
  simp only [trimSpace]
  rw [dropWhile_all_false _ s h, dropWhile_all_false _ s.reverse (fun x hx => h x (by simpa using hx))]
  simp

theorem trimSpace_lead (s : Bytes) (h : ∀ x ∈ s, isSpace x = false) : trimSpace (32 :: s) = s := by
  have : (32 :: s).dropWhile isSpace = s := by
    simp only [List.dropWhile, show isSpace 32 = true by decide]
    exact dropWhile_all_false _ s h
  simp only [trimSpace, this]
  rw [dropWhile_all_false _ s.reverse (fun x hx => h x (by simpa using hx))]
  simp

theorem trimLeftByte_cons (c x : UInt8) (xs : Bytes) (h : x ≠ c) : trimLeftByte c (x :: xs) = x :: xs := by
  have hb : (x == c) = false := by simpa using h
  simp [trimLeftByte, List.dropWhile, hb]

theorem trimRightByte_append (c : UInt8) (a lit : Bytes) (x : UInt8) (h : x ≠ c) :
    trimRightByte c (a ++ (lit ++ [x])) = a ++ (lit ++ [x]) := by
  have hb : (x == c) = false := by simpa using h
  simp [trimRightByte, List.dropWhile, hb]

/-- the three things the laws say about an encoded value -/
theorem b64_mem (c : Codec) (hc : CodecLaws c) (x : Bytes) :
    (∀ ch ∈ c.b64enc x, isSpace ch = false) ∧ (44 : UInt8) ∉ c.b64enc x ∧ (59 : UInt8) ∉ c.b64enc x :=
  ⟨fun ch h => (hc.b64_clean x ch h).1, fun h => (hc.b64_clean x 44 h).2.1 rfl, fun h => (hc.b64_clean x 59 h).2.2 rfl⟩

/- ---------------- the H264 a=fmtp line ---------------- -/

def fmtpAvc (c : Codec) (sps pps : Bytes) : Bytes :=
  asc "a=fmtp:96 packetization-mode=1; sprop-parameter-sets=" ++ c.b64enc sps ++ asc "," ++ c.b64enc pps
    ++ asc "; profile-level-id=640016"

theorem parseAFmtPBase_avc (c : Codec) (hc : CodecLaws c) (sps pps : Bytes) :
    parseAFmtPBase (fmtpAvc c sps pps) = some
      { format := 96, parameters := [(asc "packetization-mode", asc "1"),
          (asc "sprop-parameter-sets", c.b64enc sps ++ 44 :: c.b64enc pps), (asc "profile-level-id", asc "640016")] } := by
  obtain ⟨hs1, hs2, hs3⟩ := b64_mem c hc sps
  obtain ⟨hp1, hp2, hp3⟩ := b64_mem c hc pps
  have e : fmtpAvc c sps pps = asc "a=fmtp" ++ 58 :: (asc "96" ++ 32 :: (112 :: (asc "acketization-mode=1" ++ 59 ::
      ((32 :: (asc "sprop-parameter-sets" ++ 61 :: (c.b64enc sps ++ 44 :: c.b64enc pps))) ++ 59 :: (asc " profile-level-id=64001" ++ [54]))))) := by
    have l1 : asc "a=fmtp:96 packetization-mode=1; sprop-parameter-sets=" =
        asc "a=fmtp" ++ 58 :: (asc "96" ++ 32 :: (112 :: (asc "acketization-mode=1" ++ 59 :: (32 :: (asc "sprop-parameter-sets" ++ [61]))))) := by decide
    have l2 : asc "; profile-level-id=640016" = 59 :: (asc " profile-level-id=64001" ++ [54]) := by decide
    have l3 : asc "," = [44] := by decide
    simp only [fmtpAvc, l1, l2, l3, List.append_assoc, List.cons_append, List.nil_append]
  rw [e]
  have n1 : (58 : UInt8) ∉ asc "a=fmtp" := by decide
  have n2 : (32 : UInt8) ∉ asc "96" := by decide
  have a96 : atoi (asc "96") = (96, true) := by decide
  simp only [parseAFmtPBase, cut_append _ _ _ n1, cut_append _ _ _ n2, a96]
  rw [trimLeftByte_cons 59 112 _ (by decide)]
  have tr : ∀ (s : Bytes) (init : Bytes), s = init ++ [54] → trimRightByte 59 s = s := by
    intro s init hs
    rw [hs]
    have := trimRightByte_append 59 init [] 54 (by decide)
    simpa using this
  rw [tr _ (112 :: (asc "acketization-mode=1" ++ 59 ::
      ((32 :: (asc "sprop-parameter-sets" ++ 61 :: (c.b64enc sps ++ 44 :: c.b64enc pps))) ++ 59 :: asc " profile-level-id=64001"))) (by simp)]
  -- split at the two semicolons
  have m1 : (59 : UInt8) ∉ (112 :: asc "acketization-mode=1") := by decide
  have m2 : (59 : UInt8) ∉ (32 :: (asc "sprop-parameter-sets" ++ 61 :: (c.b64enc sps ++ 44 :: c.b64enc pps))) := by
    have : (59 : UInt8) ∉ asc "sprop-parameter-sets" := by decide
    simp [this, hs3, hp3]
  have m3 : (59 : UInt8) ∉ (asc " profile-level-id=64001" ++ [54]) := by decide
  have sp : splitByte 59 (112 :: (asc "acketization-mode=1" ++ 59 ::
      ((32 :: (asc "sprop-parameter-sets" ++ 61 :: (c.b64enc sps ++ 44 :: c.b64enc pps))) ++ 59 :: (asc " profile-level-id=64001" ++ [54])))) =
      [112 :: asc "acketization-mode=1", 32 :: (asc "sprop-parameter-sets" ++ 61 :: (c.b64enc sps ++ 44 :: c.b64enc pps)),
       asc " profile-level-id=64001" ++ [54]] := by
    have := splitByte_append 59 (112 :: asc "acketization-mode=1") ((32 :: (asc "sprop-parameter-sets" ++ 61 :: (c.b64enc sps ++ 44 :: c.b64enc pps))) ++ 59 :: (asc " profile-level-id=64001" ++ [54])) m1
    rw [List.cons_append] at this
    rw [this, splitByte_append 59 _ _ m2, splitByte_none 59 _ m3]
  rw [sp]
  -- the three parameters
  have p1 : cut 61 (trimSpace (112 :: asc "acketization-mode=1")) = some (asc "packetization-mode", asc "1") := by decide
  have p3 : cut 61 (trimSpace (asc " profile-level-id=64001" ++ [54])) = some (asc "profile-level-id", asc "640016") := by decide
  have clean : ∀ x ∈ asc "sprop-parameter-sets" ++ 61 :: (c.b64enc sps ++ 44 :: c.b64enc pps), isSpace x = false := by
    intro x hx
    simp only [List.mem_append, List.mem_cons] at hx
    rcases hx with h | h | h | h | h
    · have : ∀ y ∈ asc "sprop-parameter-sets", isSpace y = false := by decide
      exact this x h
    · subst h; decide
    · exact hs1 x h
    · subst h; decide
    · exact hp1 x h
  have p2 : cut 61 (trimSpace (32 :: (asc "sprop-parameter-sets" ++ 61 :: (c.b64enc sps ++ 44 :: c.b64enc pps)))) =
      some (asc "sprop-parameter-sets", c.b64enc sps ++ 44 :: c.b64enc pps) := by
    rw [trimSpace_lead _ clean, cut_append 61 _ _ (by decide)]
  simp [parseParams, p1, p2, p3]

theorem parseSpsPps_avc (c : Codec) (hc : CodecLaws c) (sps pps : Bytes) (a : AFmtPBase)
    (ha : parseAFmtPBase (fmtpAvc c sps pps) = some a) : parseSpsPps c a = (some sps, some pps) := by
  rw [parseAFmtPBase_avc c hc sps pps] at ha
  injection ha with ha
  subst ha
  obtain ⟨_, hs2, _⟩ := b64_mem c hc sps
  have k1 : (asc "profile-level-id" == asc "sprop-parameter-sets") = false := by decide
  have k2 : (asc "sprop-parameter-sets" == asc "sprop-parameter-sets") = true := by decide
  simp [parseSpsPps, AFmtPBase.get, List.find?, k1, k2, cut_append 44 _ _ hs2, hc.b64_rt]

/- ---------------- %d and Atoi ---------------- -/

theorem digitsVal_snoc (ds : Bytes) (d : UInt8) : digitsVal (ds ++ [d]) = digitsVal ds * 10 + (d.toNat - 48) := by
  simp [digitsVal, List.foldl_append]

theorem digit_props (k : Nat) (hk : k < 10) :
    isDigit (UInt8.ofNat (48 + k)) = true ∧ (UInt8.ofNat (48 + k)).toNat - 48 = k := by
  have : (UInt8.ofNat (48 + k)).toNat = 48 + k := by
    simp only [UInt8.toNat_ofNat']; omega
  simp only [isDigit, this]
  refine ⟨by simp; omega, by omega⟩

theorem natDigits_spec : ∀ (fuel n : Nat) (acc : Bytes), n < fuel →
    ∃ ds, natDigits fuel n acc = ds ++ acc ∧ ds ≠ [] ∧ (∀ d ∈ ds, isDigit d = true) ∧ digitsVal ds = n := by
  intro fuel
  induction fuel with
  | zero => intro n acc h; omega
  | succ fuel ih =>
    intro n acc hn
    simp only [natDigits]
    by_cases h10 : n < 10
    · simp only [h10, if_true]
      obtain ⟨hd, hv⟩ := digit_props n h10
      refine ⟨[UInt8.ofNat (48 + n)], rfl, by simp, ?_, ?_⟩
      · intro d hd'; rw [List.mem_singleton] at hd'; subst hd'; exact hd
      · show 0 * 10 + ((UInt8.ofNat (48 + n)).toNat - 48) = n
        rw [hv]; omega
    · simp only [h10, if_false]
      obtain ⟨ds', he, hne, hall, hval⟩ := ih (n / 10) (UInt8.ofNat (48 + n % 10) :: acc) (by omega)
      obtain ⟨hd, hv⟩ := digit_props (n % 10) (by omega)
      refine ⟨ds' ++ [UInt8.ofNat (48 + n % 10)], by rw [he]; simp, by simp, ?_, ?_⟩
      · intro d hd'
        simp only [List.mem_append, List.mem_singleton] at hd'
        rcases hd' with h | h
        · exact hall d h
        · subst h; exact hd
      · rw [digitsVal_snoc, hval, hv]; omega

/-- `%d` of a non-negative number: only digits, and `Atoi` reads it back -/
theorem itoa_nat (n : Nat) (hn : n < 9223372036854775808) :
    (∀ d ∈ itoa (n : Int), isDigit d = true) ∧ atoi (itoa (n : Int)) = ((n : Int), true) := by
  obtain ⟨ds, he, hne, hall, hval⟩ := natDigits_spec (n + 1) n [] (by omega)
  have hi : itoa (n : Int) = ds := by
    have : ¬ ((n : Int) < 0) := by omega
    simp only [itoa, this, if_false, Int.natAbs_natCast, he, List.append_nil]
  rw [hi]
  refine ⟨hall, ?_⟩
  cases ds with
  | nil => exact absurd rfl hne
  | cons d0 rest =>
    have hd0 := hall d0 (by simp)
    have h45 : d0 ≠ 45 := by intro h; subst h; simp [isDigit] at hd0
    have h43 : d0 ≠ 43 := by intro h; subst h; simp [isDigit] at hd0
    have hallb : (d0 :: rest).all isDigit = true := by
      simp only [List.all_eq_true]; exact hall
    have hss : signSplit (d0 :: rest) = (false, d0 :: rest) := by
      unfold signSplit
      split
      · next r heq => injection heq with h1 _; exact absurd h1 h45
      · next r heq => injection heq with h1 _; exact absurd h1 h43
      · rfl
    have hgt : ¬ (n > 9223372036854775807) := by omega
    simp only [atoi, hss, List.isEmpty_cons, hallb, Bool.false_or, Bool.not_true, Bool.false_eq_true, if_false, hval, hgt]

theorem isDigit_ne (d : UInt8) (h : isDigit d = true) (c : UInt8) (hc : isDigit c = false) : d ≠ c := by
  intro e; subst e; rw [h] at hc; cases hc

theorem itoa_nat_notin (n : Nat) (hn : n < 9223372036854775808) (c : UInt8) (hc : isDigit c = false) : c ∉ itoa (n : Int) := by
  intro h
  exact isDigit_ne c ((itoa_nat n hn).1 c h) c hc rfl

/- ---------------- the line loop ---------------- -/

/-- which of the four prefixes of `parseSdp2RawContext` a line has -/
def pre4 (line : Bytes) : Bool × Bool × Bool × Bool :=
  (hasPrefix (asc "m=") line, hasPrefix (asc "a=rtpmap") line, hasPrefix (asc "a=fmtp") line, hasPrefix (asc "a=control") line)

theorem pre4_append (lit x : Bytes) (h : 9 ≤ lit.length) : pre4 (lit ++ x) = pre4 lit := by
  have l1 : (asc "m=").length = 2 := by decide
  have l2 : (asc "a=rtpmap").length = 8 := by decide
  have l3 : (asc "a=fmtp").length = 6 := by decide
  have l4 : (asc "a=control").length = 9 := by decide
  simp only [pre4, hasPrefix_append _ lit x (by omega : (asc "m=").length ≤ lit.length),
    hasPrefix_append _ lit x (by omega : (asc "a=rtpmap").length ≤ lit.length),
    hasPrefix_append _ lit x (by omega : (asc "a=fmtp").length ≤ lit.length),
    hasPrefix_append _ lit x (by omega : (asc "a=control").length ≤ lit.length)]

def closePrev (cur : Option MediaDesc) (done : List MediaDesc) : List MediaDesc :=
  match cur with | some d => d :: done | none => done

theorem rawLoop_m (line : Bytes) (rest : List Bytes) (done : List MediaDesc) (cur : Option MediaDesc)
    (h : pre4 line = (true, false, false, false)) :
    rawLoop (line :: rest) done cur = rawLoop rest (closePrev cur done) (some { m := parseM line }) := by
  simp only [pre4, Prod.mk.injEq] at h
  simp only [rawLoop, h.1, if_true, closePrev]
  cases cur <;> rfl

theorem rawLoop_rtpmap (line : Bytes) (rest : List Bytes) (done : List MediaDesc) (cur : Option MediaDesc) (v : ARtpMap)
    (h : pre4 line = (false, true, false, false)) (hp : parseARtpMap line = some v) :
    rawLoop (line :: rest) done cur = rawLoop rest done (cur.map fun d => { d with aRtpMap := v }) := by
  simp only [pre4, Prod.mk.injEq] at h
  simp only [rawLoop, h.1, h.2.1, Bool.false_eq_true, if_false, if_true, hp]

theorem rawLoop_fmtp (line : Bytes) (rest : List Bytes) (done : List MediaDesc) (cur : Option MediaDesc) (v : AFmtPBase)
    (h : pre4 line = (false, false, true, false)) (hp : parseAFmtPBase line = some v) :
    rawLoop (line :: rest) done cur = rawLoop rest done (cur.map fun d => { d with aFmtPBase := some v }) := by
  simp only [pre4, Prod.mk.injEq] at h
  simp only [rawLoop, h.1, h.2.1, h.2.2.1, Bool.false_eq_true, if_false, if_true, hp]

theorem rawLoop_control (line : Bytes) (rest : List Bytes) (done : List MediaDesc) (cur : Option MediaDesc) (v : Bytes)
    (h : pre4 line = (false, false, false, true)) (hp : parseAControl line = some v) :
    rawLoop (line :: rest) done cur = rawLoop rest done (cur.map fun d => { d with aControl := v }) := by
  simp only [pre4, Prod.mk.injEq] at h
  simp only [rawLoop, h.1, h.2.1, h.2.2.1, h.2.2.2, Bool.false_eq_true, if_false, if_true, hp]

theorem rawLoop_other (line : Bytes) (rest : List Bytes) (done : List MediaDesc) (cur : Option MediaDesc)
    (h : pre4 line = (false, false, false, false)) :
    rawLoop (line :: rest) done cur = rawLoop rest done cur := by
  simp only [pre4, Prod.mk.injEq] at h
  simp only [rawLoop, h.1, h.2.1, h.2.2.1, h.2.2.2, Bool.false_eq_true, if_false]

theorem hasPrefix_lit_ne (p lit x : Bytes) (hl : lit.length ≤ p.length) (hne : p.take lit.length ≠ lit) :
    hasPrefix p (lit ++ x) = false := by
  simp only [hasPrefix, beq_eq_false_iff_ne, ne_eq]
  intro h
  apply hne
  have := congrArg (List.take lit.length) h
  rw [List.take_take, Nat.min_eq_left hl, List.take_left' rfl] at this
  exact this.symm

/-- the six session-level lines -/
theorem rawLoop_header (tool : Bytes) (rest : List Bytes) :
    rawLoop (headerLines tool ++ rest) [] none = rawLoop rest [] none := by
  have h6 : pre4 (asc "a=tool:" ++ tool) = (false, false, false, false) := by
    simp only [pre4, Prod.mk.injEq]
    refine ⟨?_, ?_, ?_, ?_⟩
    · rw [hasPrefix_append _ _ _ (by decide)]; decide
    · exact hasPrefix_lit_ne _ _ _ (by decide) (by decide)
    · rw [hasPrefix_append _ _ _ (by decide)]; decide
    · exact hasPrefix_lit_ne _ _ _ (by decide) (by decide)
  simp only [headerLines, List.cons_append, List.nil_append]
  rw [rawLoop_other _ _ _ _ (by decide), rawLoop_other _ _ _ _ (by decide), rawLoop_other _ _ _ _ (by decide),
      rawLoop_other _ _ _ _ (by decide), rawLoop_other _ _ _ _ (by decide), rawLoop_other _ _ _ _ h6]

/- ---------------- media sections ---------------- -/

theorem control_line (sid : Nat) :
    pre4 (asc "a=control:streamid=" ++ itoa (sid : Int)) = (false, false, false, true)
    ∧ parseAControl (asc "a=control:streamid=" ++ itoa (sid : Int)) = some (asc "streamid=" ++ itoa (sid : Int)) := by
  refine ⟨?_, ?_⟩
  · rw [pre4_append _ _ (by decide)]; decide
  · have hp : hasPrefix (asc "a=control:") (asc "a=control:streamid=" ++ itoa (sid : Int)) = true := by
      rw [hasPrefix_append _ _ _ (by decide)]; decide
    simp only [parseAControl, hp, if_true]
    rw [List.drop_append_of_le_length (by decide)]
    have : (asc "a=control:streamid=").drop 10 = asc "streamid=" := by decide
    rw [this]

def mdAvc (c : Codec) (sps pps : Bytes) (sid : Nat) : MediaDesc :=
  { m := { media := asc "video", pt := 96 },
    aRtpMap := { payloadType := 96, encodingName := asc "H264", clockRate := 90000, encodingParameters := [] },
    aFmtPBase := some { format := 96, parameters := [(asc "packetization-mode", asc "1"),
      (asc "sprop-parameter-sets", c.b64enc sps ++ 44 :: c.b64enc pps), (asc "profile-level-id", asc "640016")] },
    aControl := asc "streamid=" ++ itoa (sid : Int) }

theorem videoLines_avc (c : Codec) (sps pps : Bytes) (sid : Nat) :
    videoLines c { videoPt := ptAvc, vps := none, sps := some sps, pps := some pps } sid =
      [asc "m=video 0 RTP/AVP " ++ itoa ptAvc, asc "a=rtpmap:96 H264/90000", fmtpAvc c sps pps,
       asc "a=control:streamid=" ++ itoa (sid : Int)] := by
  simp [videoLines, fmtpAvc]

theorem section_avc (c : Codec) (hc : CodecLaws c) (sps pps : Bytes) (sid : Nat) (rest : List Bytes)
    (done : List MediaDesc) (cur : Option MediaDesc) :
    rawLoop (videoLines c { videoPt := ptAvc, vps := none, sps := some sps, pps := some pps } sid ++ rest) done cur =
      rawLoop rest (closePrev cur done) (some (mdAvc c sps pps sid)) := by
  rw [videoLines_avc]
  simp only [List.cons_append, List.nil_append]
  have hf : pre4 (fmtpAvc c sps pps) = (false, false, true, false) := by
    have e : fmtpAvc c sps pps = asc "a=fmtp:96 packetization-mode=1; sprop-parameter-sets=" ++
        (c.b64enc sps ++ (asc "," ++ (c.b64enc pps ++ asc "; profile-level-id=640016"))) := by
      simp [fmtpAvc]
    rw [e, pre4_append _ _ (by decide)]; decide
  obtain ⟨hc1, hc2⟩ := control_line sid
  rw [rawLoop_m _ _ _ _ (by decide), rawLoop_rtpmap _ _ _ _ _ (by decide) (by decide : parseARtpMap (asc "a=rtpmap:96 H264/90000") = some
        { payloadType := 96, encodingName := asc "H264", clockRate := 90000, encodingParameters := [] }),
      rawLoop_fmtp _ _ _ _ _ hf (parseAFmtPBase_avc c hc sps pps), rawLoop_control _ _ _ _ _ hc1 hc2]
  have hm : parseM (asc "m=video 0 RTP/AVP " ++ itoa ptAvc) = { media := asc "video", pt := 96 } := by decide
  simp only [Option.map, hm, mdAvc]

theorem trimRightByte_tail (c : UInt8) (a b : Bytes) (hb : b ≠ []) (hc : c ∉ b) : trimRightByte c (a ++ b) = a ++ b := by
  obtain ⟨init, x, rfl⟩ : ∃ init x, b = init ++ [x] := by
    have := List.getLast?_eq_some_iff (xs := b) (a := b.getLast hb)
    obtain ⟨ys, hys⟩ := this.mp (List.getLast?_eq_some_getLast hb)
    exact ⟨ys, _, hys⟩
  have hx : x ≠ c := fun e => hc (by simp [e])
  exact trimRightByte_append c a init x hx

theorem hex_mem (c : Codec) (hc : CodecLaws c) (x : Bytes) :
    (∀ ch ∈ c.hexenc x, isSpace ch = false) ∧ (59 : UInt8) ∉ c.hexenc x :=
  ⟨fun ch h => (hc.hex_clean x ch h).1, fun h => (hc.hex_clean x 59 h).2.2 rfl⟩

/- ---------------- AAC ---------------- -/

def fmtpAac (c : Codec) (a : Bytes) : Bytes :=
  asc "a=fmtp:" ++ itoa ptAac ++ asc " profile-level-id=1;mode=AAC-hbr;sizelength=13;indexlength=3;indexdeltalength=3; config=" ++ c.hexenc a

def aacParams (c : Codec) (a : Bytes) : List (Bytes × Bytes) :=
  [(asc "profile-level-id", asc "1"), (asc "mode", asc "AAC-hbr"), (asc "sizelength", asc "13"), (asc "indexlength", asc "3"),
   (asc "indexdeltalength", asc "3"), (asc "config", c.hexenc a)]

theorem parseAFmtPBase_aac (c : Codec) (hc : CodecLaws c) (a : Bytes) (ha : a ≠ []) :
    parseAFmtPBase (fmtpAac c a) = some { format := 97, parameters := aacParams c a } := by
  obtain ⟨h1, h3⟩ := hex_mem c hc a
  have hne : c.hexenc a ≠ [] := by
    intro h
    have := hc.hex_len a
    rw [h] at this
    cases a with
    | nil => exact ha rfl
    | cons x xs => simp at this
  have e : fmtpAac c a = asc "a=fmtp" ++ 58 :: (asc "97" ++ 32 :: (112 :: (asc "rofile-level-id=1" ++ 59 :: (asc "mode=AAC-hbr" ++ 59 ::
      (asc "sizelength=13" ++ 59 :: (asc "indexlength=3" ++ 59 :: (asc "indexdeltalength=3" ++ 59 :: (32 :: (asc "config" ++ 61 :: c.hexenc a))))))))) := by
    have l1 : asc "a=fmtp:" ++ itoa ptAac ++ asc " profile-level-id=1;mode=AAC-hbr;sizelength=13;indexlength=3;indexdeltalength=3; config=" =
        asc "a=fmtp" ++ 58 :: (asc "97" ++ 32 :: (112 :: (asc "rofile-level-id=1" ++ 59 :: (asc "mode=AAC-hbr" ++ 59 ::
          (asc "sizelength=13" ++ 59 :: (asc "indexlength=3" ++ 59 :: (asc "indexdeltalength=3" ++ 59 :: (32 :: (asc "config" ++ [61]))))))))) := by decide
    simp only [fmtpAac, l1, List.append_assoc, List.cons_append, List.nil_append]
  rw [e]
  have n1 : (58 : UInt8) ∉ asc "a=fmtp" := by decide
  have n2 : (32 : UInt8) ∉ asc "97" := by decide
  have a97 : atoi (asc "97") = (97, true) := by decide
  simp only [parseAFmtPBase, cut_append _ _ _ n1, cut_append _ _ _ n2, a97]
  rw [trimLeftByte_cons 59 112 _ (by decide)]
  have tr := trimRightByte_tail 59 (112 :: (asc "rofile-level-id=1" ++ 59 :: (asc "mode=AAC-hbr" ++ 59 ::
      (asc "sizelength=13" ++ 59 :: (asc "indexlength=3" ++ 59 :: (asc "indexdeltalength=3" ++ 59 :: (32 :: (asc "config" ++ [61])))))))) (c.hexenc a) hne h3
  have re : (112 :: (asc "rofile-level-id=1" ++ 59 :: (asc "mode=AAC-hbr" ++ 59 ::
      (asc "sizelength=13" ++ 59 :: (asc "indexlength=3" ++ 59 :: (asc "indexdeltalength=3" ++ 59 :: (32 :: (asc "config" ++ [61])))))))) ++ c.hexenc a =
      112 :: (asc "rofile-level-id=1" ++ 59 :: (asc "mode=AAC-hbr" ++ 59 ::
      (asc "sizelength=13" ++ 59 :: (asc "indexlength=3" ++ 59 :: (asc "indexdeltalength=3" ++ 59 :: (32 :: (asc "config" ++ 61 :: c.hexenc a))))))) := by
    simp only [List.append_assoc, List.cons_append, List.nil_append]
  rw [re] at tr
  rw [tr]
  have m1 : (59 : UInt8) ∉ (112 :: asc "rofile-level-id=1") := by decide
  have m2 : (59 : UInt8) ∉ asc "mode=AAC-hbr" := by decide
  have m3 : (59 : UInt8) ∉ asc "sizelength=13" := by decide
  have m4 : (59 : UInt8) ∉ asc "indexlength=3" := by decide
  have m5 : (59 : UInt8) ∉ asc "indexdeltalength=3" := by decide
  have m6 : (59 : UInt8) ∉ (32 :: (asc "config" ++ 61 :: c.hexenc a)) := by
    have : (59 : UInt8) ∉ asc "config" := by decide
    simp [this, h3]
  have s1 := splitByte_append 59 (112 :: asc "rofile-level-id=1") (asc "mode=AAC-hbr" ++ 59 ::
      (asc "sizelength=13" ++ 59 :: (asc "indexlength=3" ++ 59 :: (asc "indexdeltalength=3" ++ 59 :: (32 :: (asc "config" ++ 61 :: c.hexenc a)))))) m1
  rw [List.cons_append] at s1
  rw [s1, splitByte_append 59 _ _ m2, splitByte_append 59 _ _ m3, splitByte_append 59 _ _ m4, splitByte_append 59 _ _ m5,
      splitByte_none 59 _ m6]
  have p1 : cut 61 (trimSpace (112 :: asc "rofile-level-id=1")) = some (asc "profile-level-id", asc "1") := by decide
  have p2 : cut 61 (trimSpace (asc "mode=AAC-hbr")) = some (asc "mode", asc "AAC-hbr") := by decide
  have p3 : cut 61 (trimSpace (asc "sizelength=13")) = some (asc "sizelength", asc "13") := by decide
  have p4 : cut 61 (trimSpace (asc "indexlength=3")) = some (asc "indexlength", asc "3") := by decide
  have p5 : cut 61 (trimSpace (asc "indexdeltalength=3")) = some (asc "indexdeltalength", asc "3") := by decide
  have clean : ∀ x ∈ asc "config" ++ 61 :: c.hexenc a, isSpace x = false := by
    intro x hx
    simp only [List.mem_append, List.mem_cons] at hx
    rcases hx with h | h | h
    · have : ∀ y ∈ asc "config", isSpace y = false := by decide
      exact this x h
    · subst h; decide
    · exact h1 x h
  have p6 : cut 61 (trimSpace (32 :: (asc "config" ++ 61 :: c.hexenc a))) = some (asc "config", c.hexenc a) := by
    rw [trimSpace_lead _ clean, cut_append 61 _ _ (by decide)]
  simp [parseParams, p1, p2, p3, p4, p5, p6, aacParams]

theorem parseAsc_aac (c : Codec) (hc : CodecLaws c) (a : Bytes) (ha : 2 ≤ a.length) :
    parseAsc c { format := 97, parameters := aacParams c a } = some a := by
  have hl := hc.hex_len a
  have k : (asc "config" == asc "config") = true := by decide
  have c1 : ¬ ((c.hexenc a).length < 4 ∨ (c.hexenc a).length % 2 ≠ 0) := by omega
  simp [parseAsc, AFmtPBase.get, aacParams, k, hc.hex_rt]
  omega

def rtpmapAac (f : Nat) : Bytes := asc "a=rtpmap:" ++ itoa ptAac ++ asc " MPEG4-GENERIC/" ++ itoa (f : Int) ++ asc "/2"

theorem parseARtpMap_aac (f : Nat) (hf : f < 9223372036854775808) :
    parseARtpMap (rtpmapAac f) = some { payloadType := 97, encodingName := asc "MPEG4-GENERIC", clockRate := f, encodingParameters := asc "2" } := by
  have e : rtpmapAac f = asc "a=rtpmap" ++ 58 :: (asc "97" ++ 32 :: (asc "MPEG4-GENERIC" ++ 47 :: (itoa (f : Int) ++ 47 :: asc "2"))) := by
    have l1 : asc "a=rtpmap:" ++ itoa ptAac ++ asc " MPEG4-GENERIC/" = asc "a=rtpmap" ++ 58 :: (asc "97" ++ 32 :: (asc "MPEG4-GENERIC" ++ [47])) := by decide
    have l2 : asc "/2" = 47 :: asc "2" := by decide
    simp only [rtpmapAac, l1, l2, List.append_assoc, List.cons_append, List.nil_append]
  rw [e]
  have n1 : (58 : UInt8) ∉ asc "a=rtpmap" := by decide
  have n2 : (32 : UInt8) ∉ asc "97" := by decide
  have n3 : (47 : UInt8) ∉ asc "MPEG4-GENERIC" := by decide
  have n4 : (47 : UInt8) ∉ itoa (f : Int) := itoa_nat_notin f hf 47 (by decide)
  have a97 : atoi (asc "97") = (97, true) := by decide
  simp only [parseARtpMap, cut_append _ _ _ n1, cut_append _ _ _ n2, a97, cut_append _ _ _ n3, cut_append _ _ _ n4,
    (itoa_nat f hf).2]
  simp

def mdAac (c : Codec) (a : Bytes) (f sid : Nat) : MediaDesc :=
  { m := { media := asc "audio", pt := 97 },
    aRtpMap := { payloadType := 97, encodingName := asc "MPEG4-GENERIC", clockRate := f, encodingParameters := asc "2" },
    aFmtPBase := some { format := 97, parameters := aacParams c a },
    aControl := asc "streamid=" ++ itoa (sid : Int) }

theorem audioLines_aac (c : Codec) (a : Bytes) (f sid : Nat) :
    audioLines c { audioPt := ptAac, samplingFrequency := f, asc := some a } sid =
      [asc "m=audio 0 RTP/AVP " ++ itoa ptAac, asc "b=AS:128", rtpmapAac f, fmtpAac c a, asc "a=control:streamid=" ++ itoa (sid : Int)] := by
  simp [audioLines, rtpmapAac, fmtpAac]

theorem section_aac (c : Codec) (hc : CodecLaws c) (a : Bytes) (ha : a ≠ []) (f sid : Nat) (hf : f < 9223372036854775808)
    (rest : List Bytes) (done : List MediaDesc) (cur : Option MediaDesc) :
    rawLoop (audioLines c { audioPt := ptAac, samplingFrequency := f, asc := some a } sid ++ rest) done cur =
      rawLoop rest (closePrev cur done) (some (mdAac c a f sid)) := by
  rw [audioLines_aac]
  simp only [List.cons_append, List.nil_append]
  have hr : pre4 (rtpmapAac f) = (false, true, false, false) := by
    have e : rtpmapAac f = (asc "a=rtpmap:" ++ itoa ptAac ++ asc " MPEG4-GENERIC/") ++ (itoa (f : Int) ++ asc "/2") := by
      simp [rtpmapAac]
    rw [e, pre4_append _ _ (by decide)]; decide
  have hfm : pre4 (fmtpAac c a) = (false, false, true, false) := by
    simp only [fmtpAac]
    rw [pre4_append _ _ (by decide)]; decide
  obtain ⟨hc1, hc2⟩ := control_line sid
  rw [rawLoop_m _ _ _ _ (by decide), rawLoop_other _ _ _ _ (by decide), rawLoop_rtpmap _ _ _ _ _ hr (parseARtpMap_aac f hf),
      rawLoop_fmtp _ _ _ _ _ hfm (parseAFmtPBase_aac c hc a ha), rawLoop_control _ _ _ _ _ hc1 hc2]
  have hm : parseM (asc "m=audio 0 RTP/AVP " ++ itoa ptAac) = { media := asc "audio", pt := 97 } := by decide
  simp only [Option.map, hm, mdAac]

/- ---------------- end to end: H264 + AAC ---------------- -/

theorem lines_no_cr_avc_aac (c : Codec) (hc : CodecLaws c) (tool sps pps a : Bytes) (f : Nat) (hf : f < 9223372036854775808)
    (ht : (13 : UInt8) ∉ tool) :
    ∀ l ∈ headerLines tool ++ videoLines c { videoPt := ptAvc, vps := none, sps := some sps, pps := some pps } 0
        ++ audioLines c { audioPt := ptAac, samplingFrequency := f, asc := some a } 1, (13 : UInt8) ∉ l := by
  have hb : ∀ x, (13 : UInt8) ∉ c.b64enc x := fun x h => by
    have := (hc.b64_clean x 13 h).1; simp [isSpace] at this
  have hh : ∀ x, (13 : UInt8) ∉ c.hexenc x := fun x h => by
    have := (hc.hex_clean x 13 h).1; simp [isSpace] at this
  have hi : (13 : UInt8) ∉ itoa (f : Int) := itoa_nat_notin f hf 13 (by decide)
  rw [videoLines_avc, audioLines_aac]
  intro l hl
  simp only [headerLines, List.cons_append, List.nil_append, List.mem_cons, List.mem_nil_iff, or_false] at hl
  have d1 : (13 : UInt8) ∉ asc "a=fmtp:96 packetization-mode=1; sprop-parameter-sets=" := by decide
  have d2 : (13 : UInt8) ∉ asc "," := by decide
  have d3 : (13 : UInt8) ∉ asc "; profile-level-id=640016" := by decide
  have d4 : (13 : UInt8) ∉ asc "a=rtpmap:" ++ itoa ptAac ++ asc " MPEG4-GENERIC/" := by decide
  have d5 : (13 : UInt8) ∉ asc "/2" := by decide
  have d6 : (13 : UInt8) ∉ asc "a=fmtp:" ++ itoa ptAac ++ asc " profile-level-id=1;mode=AAC-hbr;sizelength=13;indexlength=3;indexdeltalength=3; config=" := by decide
  have d7 : (13 : UInt8) ∉ asc "a=tool:" := by decide
  rcases hl with h | h | h | h | h | h | h | h | h | h | h | h | h | h | h <;> subst h
  all_goals first
    | decide
    | (simp only [fmtpAvc, rtpmapAac, fmtpAac, List.mem_append, not_or]; simp_all)

theorem parseSpsPps_params (c : Codec) (hc : CodecLaws c) (sps pps : Bytes) :
    parseSpsPps c { format := 96, parameters := [(asc "packetization-mode", asc "1"),
      (asc "sprop-parameter-sets", c.b64enc sps ++ 44 :: c.b64enc pps), (asc "profile-level-id", asc "640016")] } = (some sps, some pps) :=
  parseSpsPps_avc c hc sps pps _ (parseAFmtPBase_avc c hc sps pps)

theorem logicStep_avc (c : Codec) (hc : CodecLaws c) (r : LogicContext) (sps pps : Bytes) (sid : Nat) :
    logicStep c r (mdAvc c sps pps sid) =
      { r with hasVideo := true, videoClockRate := 90000, videoAControl := asc "streamid=" ++ itoa (sid : Int),
               videoPayloadTypeOrigin := 96, videoPayloadTypeBase := ptAvc, sps := some sps, pps := some pps } := by
  have h1 : ¬ (asc "video" = asc "audio") := by decide
  simp only [logicStep, mdAvc, h1, if_false, if_true, parseSpsPps_params c hc sps pps]

theorem logicStep_aac (c : Codec) (hc : CodecLaws c) (r : LogicContext) (a : Bytes) (ha : 2 ≤ a.length) (f sid : Nat) :
    logicStep c r (mdAac c a f sid) =
      { r with hasAudio := true, audioClockRate := f, audioAControl := asc "streamid=" ++ itoa (sid : Int),
               audioPayloadTypeOrigin := 97, audioPayloadTypeBase := ptAac, asc := some a } := by
  have h2 : equalFold (asc "MPEG4-GENERIC") (asc "MPEG4-GENERIC") = true := by decide
  simp only [logicStep, mdAac, if_true, h2, parseAsc_aac c hc a ha]

/-- what lal's own parser makes of the SDP lal packs for an H.264 + AAC stream -/
theorem pack_avc_aac (c : Codec) (hc : CodecLaws c) (tool sps pps a : Bytes) (f : Nat) (hf : f < 9223372036854775808)
    (ht : (13 : UInt8) ∉ tool) (ha : 2 ≤ a.length) :
    pack c tool { videoPt := ptAvc, vps := none, sps := some sps, pps := some pps }
                { audioPt := ptAac, samplingFrequency := f, asc := some a } =
      some { rawSdp := joinCRLF (headerLines tool ++ videoLines c { videoPt := ptAvc, vps := none, sps := some sps, pps := some pps } 0
                ++ audioLines c { audioPt := ptAac, samplingFrequency := f, asc := some a } 1),
             hasVideo := true, videoClockRate := 90000, videoAControl := asc "streamid=" ++ itoa (0 : Int),
             videoPayloadTypeOrigin := 96, videoPayloadTypeBase := ptAvc, sps := some sps, pps := some pps,
             hasAudio := true, audioClockRate := f, audioAControl := asc "streamid=" ++ itoa (1 : Int),
             audioPayloadTypeOrigin := 97, audioPayloadTypeBase := ptAac, asc := some a } := by
  have hane : a ≠ [] := by intro h; subst h; simp at ha
  have hv : (videoLines c { videoPt := ptAvc, vps := none, sps := some sps, pps := some pps } 0).isEmpty = false := by
    rw [videoLines_avc]; rfl
  have hcr := lines_no_cr_avc_aac c hc tool sps pps a f hf ht
  have hraw : parseRaw (joinCRLF (headerLines tool ++ videoLines c { videoPt := ptAvc, vps := none, sps := some sps, pps := some pps } 0
      ++ audioLines c { audioPt := ptAac, samplingFrequency := f, asc := some a } 1)) = some [mdAvc c sps pps 0, mdAac c a f 1] := by
    simp only [parseRaw]
    rw [splitCRLF_join _ hcr]
    simp only [parseRawLines, List.append_assoc]
    rw [rawLoop_header, section_avc c hc, section_aac c hc a hane f 1 hf, rawLoop_other _ _ _ _ (by decide)]
    simp [rawLoop, closePrev]
  simp only [pack, packLines, hv, Bool.false_eq_true, false_and, if_false, parseLogic, hraw, Option.map, List.foldl,
    logicStep_avc c hc, logicStep_aac c hc _ a ha]
  rfl

/- ---------------- H265 ---------------- -/

def fmtpHevc (c : Codec) (vps sps pps : Bytes) : Bytes :=
  asc "a=fmtp:98 profile-id=1;sprop-sps=" ++ c.b64enc sps ++ asc ";sprop-pps=" ++ c.b64enc pps ++ asc ";sprop-vps=" ++ c.b64enc vps

def hevcParams (c : Codec) (vps sps pps : Bytes) : List (Bytes × Bytes) :=
  [(asc "profile-id", asc "1"), (asc "sprop-sps", c.b64enc sps), (asc "sprop-pps", c.b64enc pps), (asc "sprop-vps", c.b64enc vps)]

theorem kv_clean (key v : Bytes) (hk : ∀ y ∈ key, isSpace y = false) (hv : ∀ y ∈ v, isSpace y = false) (h61 : (61 : UInt8) ∉ key) :
    cut 61 (trimSpace (key ++ 61 :: v)) = some (key, v) := by
  have clean : ∀ x ∈ key ++ 61 :: v, isSpace x = false := by
    intro x hx
    simp only [List.mem_append, List.mem_cons] at hx
    rcases hx with h | h | h
    · exact hk x h
    · subst h; decide
    · exact hv x h
  rw [trimSpace_clean _ clean, cut_append 61 _ _ h61]

theorem parseAFmtPBase_hevc (c : Codec) (hc : CodecLaws c) (vps sps pps : Bytes) :
    parseAFmtPBase (fmtpHevc c vps sps pps) = some { format := 98, parameters := hevcParams c vps sps pps } := by
  obtain ⟨hs1, _, hs3⟩ := b64_mem c hc sps
  obtain ⟨hp1, _, hp3⟩ := b64_mem c hc pps
  obtain ⟨hv1, _, hv3⟩ := b64_mem c hc vps
  have e : fmtpHevc c vps sps pps = asc "a=fmtp" ++ 58 :: (asc "98" ++ 32 :: (112 :: (asc "rofile-id=1" ++ 59 ::
      ((asc "sprop-sps" ++ 61 :: c.b64enc sps) ++ 59 :: ((asc "sprop-pps" ++ 61 :: c.b64enc pps) ++ 59 :: (asc "sprop-vps" ++ 61 :: c.b64enc vps)))))) := by
    have l1 : asc "a=fmtp:98 profile-id=1;sprop-sps=" = asc "a=fmtp" ++ 58 :: (asc "98" ++ 32 :: (112 :: (asc "rofile-id=1" ++ 59 :: (asc "sprop-sps" ++ [61])))) := by decide
    have l2 : asc ";sprop-pps=" = 59 :: (asc "sprop-pps" ++ [61]) := by decide
    have l3 : asc ";sprop-vps=" = 59 :: (asc "sprop-vps" ++ [61]) := by decide
    simp only [fmtpHevc, l1, l2, l3, List.append_assoc, List.cons_append, List.nil_append]
  rw [e]
  have n1 : (58 : UInt8) ∉ asc "a=fmtp" := by decide
  have n2 : (32 : UInt8) ∉ asc "98" := by decide
  have a98 : atoi (asc "98") = (98, true) := by decide
  simp only [parseAFmtPBase, cut_append _ _ _ n1, cut_append _ _ _ n2, a98]
  rw [trimLeftByte_cons 59 112 _ (by decide)]
  have tr := trimRightByte_tail 59 (112 :: (asc "rofile-id=1" ++ 59 ::
      ((asc "sprop-sps" ++ 61 :: c.b64enc sps) ++ 59 :: ((asc "sprop-pps" ++ 61 :: c.b64enc pps) ++ 59 :: asc "sprop-vps")))) (61 :: c.b64enc vps)
      (by simp) (by simp [hv3])
  have re : (112 :: (asc "rofile-id=1" ++ 59 ::
      ((asc "sprop-sps" ++ 61 :: c.b64enc sps) ++ 59 :: ((asc "sprop-pps" ++ 61 :: c.b64enc pps) ++ 59 :: asc "sprop-vps")))) ++ (61 :: c.b64enc vps) =
      112 :: (asc "rofile-id=1" ++ 59 ::
      ((asc "sprop-sps" ++ 61 :: c.b64enc sps) ++ 59 :: ((asc "sprop-pps" ++ 61 :: c.b64enc pps) ++ 59 :: (asc "sprop-vps" ++ 61 :: c.b64enc vps)))) := by
    simp only [List.append_assoc, List.cons_append, List.nil_append]
  rw [re] at tr
  rw [tr]
  have k59 : ∀ (k : Bytes) (v : Bytes), (59 : UInt8) ∉ k → (59 : UInt8) ∉ v → (59 : UInt8) ∉ (k ++ 61 :: v) := by
    intro k v hk hv; simp [hk, hv]
  have m1 : (59 : UInt8) ∉ (112 :: asc "rofile-id=1") := by decide
  have m2 := k59 (asc "sprop-sps") _ (by decide) hs3
  have m3 := k59 (asc "sprop-pps") _ (by decide) hp3
  have m4 := k59 (asc "sprop-vps") _ (by decide) hv3
  have s1 := splitByte_append 59 (112 :: asc "rofile-id=1")
      ((asc "sprop-sps" ++ 61 :: c.b64enc sps) ++ 59 :: ((asc "sprop-pps" ++ 61 :: c.b64enc pps) ++ 59 :: (asc "sprop-vps" ++ 61 :: c.b64enc vps))) m1
  rw [List.cons_append] at s1
  rw [s1, splitByte_append 59 _ _ m2, splitByte_append 59 _ _ m3, splitByte_none 59 _ m4]
  have p1 : cut 61 (trimSpace (112 :: asc "rofile-id=1")) = some (asc "profile-id", asc "1") := by decide
  have p2 := kv_clean (asc "sprop-sps") (c.b64enc sps) (by decide) hs1 (by decide)
  have p3 := kv_clean (asc "sprop-pps") (c.b64enc pps) (by decide) hp1 (by decide)
  have p4 := kv_clean (asc "sprop-vps") (c.b64enc vps) (by decide) hv1 (by decide)
  simp [parseParams, p1, p2, p3, p4, hevcParams]

theorem parseVpsSpsPps_params (c : Codec) (hc : CodecLaws c) (vps sps pps : Bytes) :
    parseVpsSpsPps c { format := 98, parameters := hevcParams c vps sps pps } = (some vps, some sps, some pps) := by
  have k1 : (asc "sprop-vps" == asc "sprop-vps") = true := by decide
  have k2 : (asc "sprop-vps" == asc "sprop-sps") = false := by decide
  have k3 : (asc "sprop-vps" == asc "sprop-pps") = false := by decide
  have k4 : (asc "sprop-pps" == asc "sprop-pps") = true := by decide
  have k5 : (asc "sprop-pps" == asc "sprop-sps") = false := by decide
  have k6 : (asc "sprop-sps" == asc "sprop-sps") = true := by decide
  simp [parseVpsSpsPps, AFmtPBase.get, hevcParams, List.find?, k1, k2, k3, k4, k5, k6, hc.b64_rt]

def mdHevc (c : Codec) (vps sps pps : Bytes) (sid : Nat) : MediaDesc :=
  { m := { media := asc "video", pt := 98 },
    aRtpMap := { payloadType := 98, encodingName := asc "H265", clockRate := 90000, encodingParameters := [] },
    aFmtPBase := some { format := 98, parameters := hevcParams c vps sps pps },
    aControl := asc "streamid=" ++ itoa (sid : Int) }

theorem videoLines_hevc (c : Codec) (vps sps pps : Bytes) (sid : Nat) :
    videoLines c { videoPt := ptHevc, vps := some vps, sps := some sps, pps := some pps } sid =
      [asc "m=video 0 RTP/AVP " ++ itoa ptHevc, asc "a=rtpmap:98 H265/90000", fmtpHevc c vps sps pps,
       asc "a=control:streamid=" ++ itoa (sid : Int)] := by
  have h : ¬ (ptHevc = ptAvc) := by decide
  simp [videoLines, fmtpHevc, h]

theorem section_hevc (c : Codec) (hc : CodecLaws c) (vps sps pps : Bytes) (sid : Nat) (rest : List Bytes)
    (done : List MediaDesc) (cur : Option MediaDesc) :
    rawLoop (videoLines c { videoPt := ptHevc, vps := some vps, sps := some sps, pps := some pps } sid ++ rest) done cur =
      rawLoop rest (closePrev cur done) (some (mdHevc c vps sps pps sid)) := by
  rw [videoLines_hevc]
  simp only [List.cons_append, List.nil_append]
  have hf : pre4 (fmtpHevc c vps sps pps) = (false, false, true, false) := by
    have e : fmtpHevc c vps sps pps = asc "a=fmtp:98 profile-id=1;sprop-sps=" ++
        (c.b64enc sps ++ (asc ";sprop-pps=" ++ (c.b64enc pps ++ (asc ";sprop-vps=" ++ c.b64enc vps)))) := by
      simp [fmtpHevc]
    rw [e, pre4_append _ _ (by decide)]; decide
  obtain ⟨hc1, hc2⟩ := control_line sid
  rw [rawLoop_m _ _ _ _ (by decide), rawLoop_rtpmap _ _ _ _ _ (by decide) (by decide : parseARtpMap (asc "a=rtpmap:98 H265/90000") = some
        { payloadType := 98, encodingName := asc "H265", clockRate := 90000, encodingParameters := [] }),
      rawLoop_fmtp _ _ _ _ _ hf (parseAFmtPBase_hevc c hc vps sps pps), rawLoop_control _ _ _ _ _ hc1 hc2]
  have hm : parseM (asc "m=video 0 RTP/AVP " ++ itoa ptHevc) = { media := asc "video", pt := 98 } := by decide
  simp only [Option.map, hm, mdHevc]

theorem logicStep_hevc (c : Codec) (hc : CodecLaws c) (r : LogicContext) (vps sps pps : Bytes) (sid : Nat) :
    logicStep c r (mdHevc c vps sps pps sid) =
      { r with hasVideo := true, videoClockRate := 90000, videoAControl := asc "streamid=" ++ itoa (sid : Int),
               videoPayloadTypeOrigin := 98, videoPayloadTypeBase := ptHevc, vps := some vps, sps := some sps, pps := some pps } := by
  have h1 : ¬ (asc "video" = asc "audio") := by decide
  have h2 : ¬ (asc "H265" = asc "H264") := by decide
  simp only [logicStep, mdHevc, h1, h2, if_false, if_true, parseVpsSpsPps_params c hc vps sps pps]

/-- `%d` never prints a carriage return -/
theorem natDigits_notin_cr : ∀ (fuel n : Nat) (acc : Bytes), (13 : UInt8) ∉ acc → (13 : UInt8) ∉ natDigits fuel n acc := by
  intro fuel
  induction fuel with
  | zero => intro n acc h; exact h
  | succ fuel ih =>
    intro n acc h
    simp only [natDigits]
    have hd : ∀ k, k < 10 → UInt8.ofNat (48 + k) ≠ 13 := by
      intro k hk e
      have := (digit_props k hk).1
      rw [e] at this; simp [isDigit] at this
    split
    · next h10 =>
      intro hm
      simp only [List.mem_cons] at hm
      rcases hm with e | e
      · exact hd n h10 e.symm
      · exact h e
    · next h10 =>
      apply ih
      intro hm
      simp only [List.mem_cons] at hm
      rcases hm with e | e
      · exact hd (n % 10) (by omega) e.symm
      · exact h e

theorem itoa_any_notin_cr (i : Int) : (13 : UInt8) ∉ itoa i := by
  simp only [itoa]
  split
  · intro hm
    simp only [List.mem_cons] at hm
    rcases hm with e | e
    · cases e
    · exact natDigits_notin_cr _ _ [] (by simp) e
  · exact natDigits_notin_cr _ _ [] (by simp)

/- ---------------- PCMA ---------------- -/

def rtpmapPCMA (f : Nat) : Bytes := asc "a=rtpmap:" ++ itoa ptG711A ++ asc " PCMA/" ++ itoa (f : Int)

theorem parseARtpMap_PCMA (f : Nat) (hf : f < 9223372036854775808) :
    parseARtpMap (rtpmapPCMA f) = some { payloadType := 8, encodingName := asc "PCMA", clockRate := f, encodingParameters := [] } := by
  have e : rtpmapPCMA f = asc "a=rtpmap" ++ 58 :: (asc "8" ++ 32 :: (asc "PCMA" ++ 47 :: itoa (f : Int))) := by
    have l1 : asc "a=rtpmap:" ++ itoa ptG711A ++ asc " PCMA/" = asc "a=rtpmap" ++ 58 :: (asc "8" ++ 32 :: (asc "PCMA" ++ [47])) := by decide
    simp only [rtpmapPCMA, l1, List.append_assoc, List.cons_append, List.nil_append]
  rw [e]
  have n1 : (58 : UInt8) ∉ asc "a=rtpmap" := by decide
  have n2 : (32 : UInt8) ∉ asc "8" := by decide
  have n3 : (47 : UInt8) ∉ asc "PCMA" := by decide
  have n4 : (47 : UInt8) ∉ itoa (f : Int) := itoa_nat_notin f hf 47 (by decide)
  have apt : atoi (asc "8") = (8, true) := by decide
  simp only [parseARtpMap, cut_append _ _ _ n1, cut_append _ _ _ n2, apt, cut_append _ _ _ n3, cut_none _ _ n4, (itoa_nat f hf).2]
  simp

def mdPCMA (f sid : Nat) : MediaDesc :=
  { m := { media := asc "audio", pt := 8 },
    aRtpMap := { payloadType := 8, encodingName := asc "PCMA", clockRate := f, encodingParameters := [] },
    aControl := asc "streamid=" ++ itoa (sid : Int) }

theorem audioLines_PCMA (c : Codec) (f sid : Nat) (a : Option Bytes) :
    audioLines c { audioPt := ptG711A, samplingFrequency := f, asc := a } sid =
      [asc "m=audio 0 RTP/AVP " ++ itoa ptG711A, rtpmapPCMA f, asc "a=control:streamid=" ++ itoa (sid : Int)] := by
  have h1 : ¬ (ptG711A = ptAac) := by decide
  
  simp [audioLines, rtpmapPCMA, h1]

theorem section_PCMA (c : Codec) (f sid : Nat) (hf : f < 9223372036854775808) (a : Option Bytes)
    (rest : List Bytes) (done : List MediaDesc) (cur : Option MediaDesc) :
    rawLoop (audioLines c { audioPt := ptG711A, samplingFrequency := f, asc := a } sid ++ rest) done cur =
      rawLoop rest (closePrev cur done) (some (mdPCMA f sid)) := by
  rw [audioLines_PCMA]
  simp only [List.cons_append, List.nil_append]
  have hr : pre4 (rtpmapPCMA f) = (false, true, false, false) := by
    have e : rtpmapPCMA f = (asc "a=rtpmap:" ++ itoa ptG711A ++ asc " PCMA/") ++ itoa (f : Int) := by simp [rtpmapPCMA]
    rw [e, pre4_append _ _ (by decide)]; decide
  obtain ⟨hc1, hc2⟩ := control_line sid
  rw [rawLoop_m _ _ _ _ (by decide), rawLoop_rtpmap _ _ _ _ _ hr (parseARtpMap_PCMA f hf), rawLoop_control _ _ _ _ _ hc1 hc2]
  have hm : parseM (asc "m=audio 0 RTP/AVP " ++ itoa ptG711A) = { media := asc "audio", pt := 8 } := by decide
  simp only [Option.map, hm, mdPCMA]

theorem logicStep_PCMA (c : Codec) (r : LogicContext) (f sid : Nat) :
    logicStep c r (mdPCMA f sid) =
      { r with hasAudio := true, audioClockRate := f, audioAControl := asc "streamid=" ++ itoa (sid : Int),
               audioPayloadTypeOrigin := 8, audioPayloadTypeBase := ptG711A } := by
  have e1 : equalFold (asc "PCMA") (asc "MPEG4-GENERIC") = false := by decide
  have e2 : equalFold (asc "PCMA") (asc "PCMA") = true := by decide
  have e3 : equalFold (asc "PCMA") (asc "PCMU") = false := by decide
  simp only [logicStep, mdPCMA, if_true, e1, e2, e3, Bool.false_eq_true, if_false]

theorem no_cr_PCMA (c : Codec) (f sid : Nat) (hf : f < 9223372036854775808) (a : Option Bytes) :
    ∀ l ∈ audioLines c { audioPt := ptG711A, samplingFrequency := f, asc := a } sid, (13 : UInt8) ∉ l := by
  rw [audioLines_PCMA]
  have hi : (13 : UInt8) ∉ itoa (f : Int) := itoa_nat_notin f hf 13 (by decide)
  have hs : (13 : UInt8) ∉ itoa (sid : Int) := by
    by_cases h : sid < 9223372036854775808
    · exact itoa_nat_notin sid h 13 (by decide)
    · exact itoa_any_notin_cr _
  have d1 : (13 : UInt8) ∉ asc "a=rtpmap:" ++ itoa ptG711A ++ asc " PCMA/" := by decide
  have d2 : (13 : UInt8) ∉ asc "a=control:streamid=" := by decide
  intro l hl
  simp only [List.mem_cons, List.mem_nil_iff, or_false] at hl
  rcases hl with h | h | h <;> subst h
  · decide
  · simp only [rtpmapPCMA, List.mem_append, not_or]; simp only [List.mem_append, not_or] at d1; exact ⟨d1, hi⟩
  · simp only [List.mem_append, not_or]; exact ⟨d2, hs⟩

/- ---------------- PCMU ---------------- -/

def rtpmapPCMU (f : Nat) : Bytes := asc "a=rtpmap:" ++ itoa ptG711U ++ asc " PCMU/" ++ itoa (f : Int)

theorem parseARtpMap_PCMU (f : Nat) (hf : f < 9223372036854775808) :
    parseARtpMap (rtpmapPCMU f) = some { payloadType := 0, encodingName := asc "PCMU", clockRate := f, encodingParameters := [] } := by
  have e : rtpmapPCMU f = asc "a=rtpmap" ++ 58 :: (asc "0" ++ 32 :: (asc "PCMU" ++ 47 :: itoa (f : Int))) := by
    have l1 : asc "a=rtpmap:" ++ itoa ptG711U ++ asc " PCMU/" = asc "a=rtpmap" ++ 58 :: (asc "0" ++ 32 :: (asc "PCMU" ++ [47])) := by decide
    simp only [rtpmapPCMU, l1, List.append_assoc, List.cons_append, List.nil_append]
  rw [e]
  have n1 : (58 : UInt8) ∉ asc "a=rtpmap" := by decide
  have n2 : (32 : UInt8) ∉ asc "0" := by decide
  have n3 : (47 : UInt8) ∉ asc "PCMU" := by decide
  have n4 : (47 : UInt8) ∉ itoa (f : Int) := itoa_nat_notin f hf 47 (by decide)
  have apt : atoi (asc "0") = (0, true) := by decide
  simp only [parseARtpMap, cut_append _ _ _ n1, cut_append _ _ _ n2, apt, cut_append _ _ _ n3, cut_none _ _ n4, (itoa_nat f hf).2]
  simp

def mdPCMU (f sid : Nat) : MediaDesc :=
  { m := { media := asc "audio", pt := 0 },
    aRtpMap := { payloadType := 0, encodingName := asc "PCMU", clockRate := f, encodingParameters := [] },
    aControl := asc "streamid=" ++ itoa (sid : Int) }

theorem audioLines_PCMU (c : Codec) (f sid : Nat) (a : Option Bytes) :
    audioLines c { audioPt := ptG711U, samplingFrequency := f, asc := a } sid =
      [asc "m=audio 0 RTP/AVP " ++ itoa ptG711U, rtpmapPCMU f, asc "a=control:streamid=" ++ itoa (sid : Int)] := by
  have h1 : ¬ (ptG711U = ptAac) := by decide
  have h2 : ¬ (ptG711U = ptG711A) := by decide
  simp [audioLines, rtpmapPCMU, h1, h2]

theorem section_PCMU (c : Codec) (f sid : Nat) (hf : f < 9223372036854775808) (a : Option Bytes)
    (rest : List Bytes) (done : List MediaDesc) (cur : Option MediaDesc) :
    rawLoop (audioLines c { audioPt := ptG711U, samplingFrequency := f, asc := a } sid ++ rest) done cur =
      rawLoop rest (closePrev cur done) (some (mdPCMU f sid)) := by
  rw [audioLines_PCMU]
  simp only [List.cons_append, List.nil_append]
  have hr : pre4 (rtpmapPCMU f) = (false, true, false, false) := by
    have e : rtpmapPCMU f = (asc "a=rtpmap:" ++ itoa ptG711U ++ asc " PCMU/") ++ itoa (f : Int) := by simp [rtpmapPCMU]
    rw [e, pre4_append _ _ (by decide)]; decide
  obtain ⟨hc1, hc2⟩ := control_line sid
  rw [rawLoop_m _ _ _ _ (by decide), rawLoop_rtpmap _ _ _ _ _ hr (parseARtpMap_PCMU f hf), rawLoop_control _ _ _ _ _ hc1 hc2]
  have hm : parseM (asc "m=audio 0 RTP/AVP " ++ itoa ptG711U) = { media := asc "audio", pt := 0 } := by decide
  simp only [Option.map, hm, mdPCMU]

theorem logicStep_PCMU (c : Codec) (r : LogicContext) (f sid : Nat) :
    logicStep c r (mdPCMU f sid) =
      { r with hasAudio := true, audioClockRate := f, audioAControl := asc "streamid=" ++ itoa (sid : Int),
               audioPayloadTypeOrigin := 0, audioPayloadTypeBase := ptG711U } := by
  have e1 : equalFold (asc "PCMU") (asc "MPEG4-GENERIC") = false := by decide
  have e2 : equalFold (asc "PCMU") (asc "PCMA") = false := by decide
  have e3 : equalFold (asc "PCMU") (asc "PCMU") = true := by decide
  simp only [logicStep, mdPCMU, if_true, e1, e2, e3, Bool.false_eq_true, if_false]

theorem no_cr_PCMU (c : Codec) (f sid : Nat) (hf : f < 9223372036854775808) (a : Option Bytes) :
    ∀ l ∈ audioLines c { audioPt := ptG711U, samplingFrequency := f, asc := a } sid, (13 : UInt8) ∉ l := by
  rw [audioLines_PCMU]
  have hi : (13 : UInt8) ∉ itoa (f : Int) := itoa_nat_notin f hf 13 (by decide)
  have hs : (13 : UInt8) ∉ itoa (sid : Int) := by
    by_cases h : sid < 9223372036854775808
    · exact itoa_nat_notin sid h 13 (by decide)
    · exact itoa_any_notin_cr _
  have d1 : (13 : UInt8) ∉ asc "a=rtpmap:" ++ itoa ptG711U ++ asc " PCMU/" := by decide
  have d2 : (13 : UInt8) ∉ asc "a=control:streamid=" := by decide
  intro l hl
  simp only [List.mem_cons, List.mem_nil_iff, or_false] at hl
  rcases hl with h | h | h <;> subst h
  · decide
  · simp only [rtpmapPCMU, List.mem_append, not_or]; simp only [List.mem_append, not_or] at d1; exact ⟨d1, hi⟩
  · simp only [List.mem_append, not_or]; exact ⟨d2, hs⟩

/- ---------------- opus ---------------- -/

def mdOpus (sid : Nat) : MediaDesc :=
  { m := { media := asc "audio", pt := 101 },
    aRtpMap := { payloadType := 101, encodingName := asc "opus", clockRate := 48000, encodingParameters := asc "2" },
    aControl := asc "streamid=" ++ itoa (sid : Int) }

theorem audioLines_opus (c : Codec) (f : Int) (sid : Nat) (a : Option Bytes) :
    audioLines c { audioPt := ptOpus, samplingFrequency := f, asc := a } sid =
      [asc "m=audio 0 RTP/AVP " ++ itoa ptOpus, asc "a=rtpmap:" ++ itoa ptOpus ++ asc " opus/48000/2",
       asc "a=control:streamid=" ++ itoa (sid : Int)] := by
  have h1 : ¬ (ptOpus = ptAac) := by decide
  have h2 : ¬ (ptOpus = ptG711A) := by decide
  have h3 : ¬ (ptOpus = ptG711U) := by decide
  simp [audioLines, h1, h2, h3]

theorem section_opus (c : Codec) (f : Int) (sid : Nat) (a : Option Bytes)
    (rest : List Bytes) (done : List MediaDesc) (cur : Option MediaDesc) :
    rawLoop (audioLines c { audioPt := ptOpus, samplingFrequency := f, asc := a } sid ++ rest) done cur =
      rawLoop rest (closePrev cur done) (some (mdOpus sid)) := by
  rw [audioLines_opus]
  simp only [List.cons_append, List.nil_append]
  obtain ⟨hc1, hc2⟩ := control_line sid
  rw [rawLoop_m _ _ _ _ (by decide), rawLoop_rtpmap _ _ _ _ _ (by decide)
        (by decide : parseARtpMap (asc "a=rtpmap:" ++ itoa ptOpus ++ asc " opus/48000/2") = some
          { payloadType := 101, encodingName := asc "opus", clockRate := 48000, encodingParameters := asc "2" }),
      rawLoop_control _ _ _ _ _ hc1 hc2]
  have hm : parseM (asc "m=audio 0 RTP/AVP " ++ itoa ptOpus) = { media := asc "audio", pt := 101 } := by decide
  simp only [Option.map, hm, mdOpus]

theorem logicStep_opus (c : Codec) (r : LogicContext) (sid : Nat) :
    logicStep c r (mdOpus sid) =
      { r with hasAudio := true, audioClockRate := 48000, audioAControl := asc "streamid=" ++ itoa (sid : Int),
               audioPayloadTypeOrigin := 101, audioPayloadTypeBase := ptOpus } := by
  have e1 : equalFold (asc "opus") (asc "MPEG4-GENERIC") = false := by decide
  have e2 : equalFold (asc "opus") (asc "PCMA") = false := by decide
  have e3 : equalFold (asc "opus") (asc "PCMU") = false := by decide
  have e4 : equalFold (asc "opus") (asc "opus") = true := by decide
  simp only [logicStep, mdOpus, if_true, e1, e2, e3, e4, Bool.false_eq_true, if_false]

theorem no_cr_opus (c : Codec) (f : Int) (sid : Nat) (a : Option Bytes) :
    ∀ l ∈ audioLines c { audioPt := ptOpus, samplingFrequency := f, asc := a } sid, (13 : UInt8) ∉ l := by
  rw [audioLines_opus]
  have d2 : (13 : UInt8) ∉ asc "a=control:streamid=" := by decide
  intro l hl
  simp only [List.mem_cons, List.mem_nil_iff, or_false] at hl
  rcases hl with h | h | h <;> subst h
  · decide
  · decide
  · simp only [List.mem_append, not_or]; exact ⟨d2, itoa_any_notin_cr _⟩

/- ---------------- no carriage return inside a line ---------------- -/

theorem no_cr_header (tool : Bytes) (ht : (13 : UInt8) ∉ tool) : ∀ l ∈ headerLines tool, (13 : UInt8) ∉ l := by
  intro l hl
  simp only [headerLines, List.mem_cons, List.mem_nil_iff, or_false] at hl
  have d : (13 : UInt8) ∉ asc "a=tool:" := by decide
  rcases hl with h | h | h | h | h | h <;> subst h
  all_goals first
    | decide
    | (simp only [List.mem_append, not_or]; exact ⟨d, ht⟩)

theorem b64_no_cr (c : Codec) (hc : CodecLaws c) (x : Bytes) : (13 : UInt8) ∉ c.b64enc x := fun h => by
  have := (hc.b64_clean x 13 h).1; simp [isSpace] at this

theorem hex_no_cr (c : Codec) (hc : CodecLaws c) (x : Bytes) : (13 : UInt8) ∉ c.hexenc x := fun h => by
  have := (hc.hex_clean x 13 h).1; simp [isSpace] at this

theorem no_cr_avc (c : Codec) (hc : CodecLaws c) (sps pps : Bytes) (sid : Nat) :
    ∀ l ∈ videoLines c { videoPt := ptAvc, vps := none, sps := some sps, pps := some pps } sid, (13 : UInt8) ∉ l := by
  rw [videoLines_avc]
  have d1 : (13 : UInt8) ∉ asc "a=fmtp:96 packetization-mode=1; sprop-parameter-sets=" := by decide
  have d2 : (13 : UInt8) ∉ asc "," := by decide
  have d3 : (13 : UInt8) ∉ asc "; profile-level-id=640016" := by decide
  have d4 : (13 : UInt8) ∉ asc "a=control:streamid=" := by decide
  intro l hl
  simp only [List.mem_cons, List.mem_nil_iff, or_false] at hl
  rcases hl with h | h | h | h <;> subst h
  · decide
  · decide
  · simp only [fmtpAvc, List.mem_append, not_or]
    exact ⟨⟨⟨⟨d1, b64_no_cr c hc sps⟩, d2⟩, b64_no_cr c hc pps⟩, d3⟩
  · simp only [List.mem_append, not_or]; exact ⟨d4, itoa_any_notin_cr _⟩

theorem no_cr_hevc (c : Codec) (hc : CodecLaws c) (vps sps pps : Bytes) (sid : Nat) :
    ∀ l ∈ videoLines c { videoPt := ptHevc, vps := some vps, sps := some sps, pps := some pps } sid, (13 : UInt8) ∉ l := by
  rw [videoLines_hevc]
  have d1 : (13 : UInt8) ∉ asc "a=fmtp:98 profile-id=1;sprop-sps=" := by decide
  have d2 : (13 : UInt8) ∉ asc ";sprop-pps=" := by decide
  have d3 : (13 : UInt8) ∉ asc ";sprop-vps=" := by decide
  have d4 : (13 : UInt8) ∉ asc "a=control:streamid=" := by decide
  intro l hl
  simp only [List.mem_cons, List.mem_nil_iff, or_false] at hl
  rcases hl with h | h | h | h <;> subst h
  · decide
  · decide
  · simp only [fmtpHevc, List.mem_append, not_or]
    exact ⟨⟨⟨⟨⟨d1, b64_no_cr c hc sps⟩, d2⟩, b64_no_cr c hc pps⟩, d3⟩, b64_no_cr c hc vps⟩
  · simp only [List.mem_append, not_or]; exact ⟨d4, itoa_any_notin_cr _⟩

theorem no_cr_aac (c : Codec) (hc : CodecLaws c) (a : Bytes) (f sid : Nat) :
    ∀ l ∈ audioLines c { audioPt := ptAac, samplingFrequency := f, asc := some a } sid, (13 : UInt8) ∉ l := by
  rw [audioLines_aac]
  have d1 : (13 : UInt8) ∉ asc "a=rtpmap:" ++ itoa ptAac ++ asc " MPEG4-GENERIC/" := by decide
  have d2 : (13 : UInt8) ∉ asc "/2" := by decide
  have d3 : (13 : UInt8) ∉ asc "a=fmtp:" ++ itoa ptAac ++ asc " profile-level-id=1;mode=AAC-hbr;sizelength=13;indexlength=3;indexdeltalength=3; config=" := by decide
  have d4 : (13 : UInt8) ∉ asc "a=control:streamid=" := by decide
  intro l hl
  simp only [List.mem_cons, List.mem_nil_iff, or_false] at hl
  rcases hl with h | h | h | h | h <;> subst h
  · decide
  · decide
  · simp only [rtpmapAac, List.mem_append, not_or] at d1 ⊢
    exact ⟨⟨d1, itoa_any_notin_cr _⟩, d2⟩
  · simp only [fmtpAac, List.mem_append, not_or] at d3 ⊢
    exact ⟨d3, hex_no_cr c hc a⟩
  · simp only [List.mem_append, not_or]; exact ⟨d4, itoa_any_notin_cr _⟩

/- ---------------- composition ---------------- -/

/-- `sdp.Pack` for a video section and an audio section whose line loops are known -/
theorem pack_compose (c : Codec) (tool : Bytes) (v : VideoInfo) (a : AudioInfo) (mdV mdA : MediaDesc)
    (hvne : (videoLines c v 0).isEmpty = false)
    (hcr : ∀ l ∈ headerLines tool ++ videoLines c v 0 ++ audioLines c a 1, (13 : UInt8) ∉ l)
    (hsv : ∀ rest done cur, rawLoop (videoLines c v 0 ++ rest) done cur = rawLoop rest (closePrev cur done) (some mdV))
    (hsa : ∀ rest done cur, rawLoop (audioLines c a 1 ++ rest) done cur = rawLoop rest (closePrev cur done) (some mdA)) :
    pack c tool v a = some { logicStep c (logicStep c {} mdV) mdA with
      rawSdp := joinCRLF (headerLines tool ++ videoLines c v 0 ++ audioLines c a 1) } := by
  have hraw : parseRaw (joinCRLF (headerLines tool ++ videoLines c v 0 ++ audioLines c a 1)) = some [mdV, mdA] := by
    simp only [parseRaw]
    rw [splitCRLF_join _ hcr]
    simp only [parseRawLines, List.append_assoc]
    rw [rawLoop_header, hsv, hsa, rawLoop_other _ _ _ _ (by decide)]
    simp [rawLoop, closePrev]
  simp only [pack, packLines, hvne, Bool.false_eq_true, false_and, if_false, parseLogic, hraw, Option.map, List.foldl]

theorem mem_append3 {α} (x : α) (a b c : List α) (h : x ∈ a ++ b ++ c) : x ∈ a ∨ x ∈ b ∨ x ∈ c := by
  simp only [List.mem_append] at h
  rcases h with (h | h) | h
  · exact Or.inl h
  · exact Or.inr (Or.inl h)
  · exact Or.inr (Or.inr h)

/- ---------------- what lal packs ---------------- -/

inductive VideoCfg where
  | avc (sps pps : Bytes)
  | hevc (vps sps pps : Bytes)

inductive AudioCfg where
  | aac (config : Bytes) (freq : Nat)
  | pcma (freq : Nat)
  | pcmu (freq : Nat)
  | opus

def VideoCfg.info : VideoCfg → VideoInfo
  | .avc sps pps => { videoPt := ptAvc, vps := none, sps := some sps, pps := some pps }
  | .hevc vps sps pps => { videoPt := ptHevc, vps := some vps, sps := some sps, pps := some pps }

def AudioCfg.info : AudioCfg → AudioInfo
  | .aac a f => { audioPt := ptAac, samplingFrequency := f, asc := some a }
  | .pcma f => { audioPt := ptG711A, samplingFrequency := f, asc := none }
  | .pcmu f => { audioPt := ptG711U, samplingFrequency := f, asc := none }
  | .opus => { audioPt := ptOpus, samplingFrequency := 48000, asc := none }

def AudioCfg.WF : AudioCfg → Prop
  | .aac a f => 2 ≤ a.length ∧ f < 9223372036854775808
  | .pcma f => f < 9223372036854775808
  | .pcmu f => f < 9223372036854775808
  | .opus => True

def VideoCfg.pt : VideoCfg → Int
  | .avc .. => ptAvc
  | .hevc .. => ptHevc
def VideoCfg.vps : VideoCfg → Option Bytes
  | .avc .. => none
  | .hevc v _ _ => some v
def VideoCfg.sps : VideoCfg → Bytes
  | .avc s _ => s
  | .hevc _ s _ => s
def VideoCfg.pps : VideoCfg → Bytes
  | .avc _ p => p
  | .hevc _ _ p => p
def AudioCfg.pt : AudioCfg → Int
  | .aac .. => ptAac
  | .pcma _ => ptG711A
  | .pcmu _ => ptG711U
  | .opus => ptOpus
def AudioCfg.clock : AudioCfg → Int
  | .aac _ f => f
  | .pcma f => f
  | .pcmu f => f
  | .opus => 48000
def AudioCfg.config : AudioCfg → Option Bytes
  | .aac a _ => some a
  | _ => none

/-- what a reader of the packed SDP must come back with -/
def Reads (ctx : LogicContext) (v : VideoCfg) (a : AudioCfg) : Prop :=
  ctx.vps = v.vps ∧ ctx.sps = some v.sps ∧ ctx.pps = some v.pps
  ∧ ctx.videoPayloadTypeBase = v.pt ∧ ctx.videoPayloadTypeOrigin = v.pt ∧ ctx.videoClockRate = 90000
  ∧ ctx.videoAControl = asc "streamid=0"
  ∧ ctx.asc = a.config ∧ ctx.audioPayloadTypeBase = a.pt ∧ ctx.audioPayloadTypeOrigin = a.pt ∧ ctx.audioClockRate = a.clock
  ∧ ctx.audioAControl = asc "streamid=1"

theorem itoa01 : itoa ((0 : Nat) : Int) = asc "0" ∧ itoa ((1 : Nat) : Int) = asc "1" := by decide

theorem pack_reads (c : Codec) (hc : CodecLaws c) (tool : Bytes) (ht : (13 : UInt8) ∉ tool) (v : VideoCfg) (a : AudioCfg) (ha : a.WF) :
    ∃ ctx, pack c tool v.info a.info = some ctx ∧ Reads ctx v a
      ∧ ctx.rawSdp = joinCRLF (headerLines tool ++ videoLines c v.info 0 ++ audioLines c a.info 1) := by
  have hh := no_cr_header tool ht
  have h0 : asc "streamid=" ++ itoa ((0 : Nat) : Int) = asc "streamid=0" := by decide
  have h1 : asc "streamid=" ++ itoa ((1 : Nat) : Int) = asc "streamid=1" := by decide
  cases v with
  | avc sps pps =>
    have hvne : (videoLines c (VideoCfg.avc sps pps).info 0).isEmpty = false := by
      simp only [VideoCfg.info]; rw [videoLines_avc]; rfl
    have hv := no_cr_avc c hc sps pps 0
    cases a with
    | aac cfg f =>
      obtain ⟨hcfg, hf⟩ := ha
      have hne : cfg ≠ [] := by intro h; subst h; simp at hcfg
      refine ⟨_, pack_compose c tool _ _ (mdAvc c sps pps 0) (mdAac c cfg f 1) hvne ?_ (section_avc c hc sps pps 0) (section_aac c hc cfg hne f 1 hf), ?_, rfl⟩
      · intro l hl
        rcases mem_append3 l _ _ _ hl with h | h | h
        · exact hh l h
        · exact hv l h
        · exact no_cr_aac c hc cfg f 1 l h
      · simp only [logicStep_avc c hc, logicStep_aac c hc _ cfg hcfg, Reads, VideoCfg.vps, VideoCfg.sps, VideoCfg.pps, VideoCfg.pt,
          AudioCfg.config, AudioCfg.pt, AudioCfg.clock, h0, h1, and_self]
        decide
    | pcma f =>
      refine ⟨_, pack_compose c tool _ _ (mdAvc c sps pps 0) (mdPCMA f 1) hvne ?_ (section_avc c hc sps pps 0) (section_PCMA c f 1 ha none), ?_, rfl⟩
      · intro l hl
        rcases mem_append3 l _ _ _ hl with h | h | h
        · exact hh l h
        · exact hv l h
        · exact no_cr_PCMA c f 1 ha none l h
      · simp only [logicStep_avc c hc, logicStep_PCMA, Reads, VideoCfg.vps, VideoCfg.sps, VideoCfg.pps, VideoCfg.pt,
          AudioCfg.config, AudioCfg.pt, AudioCfg.clock, h0, h1, and_self]
        decide
    | pcmu f =>
      refine ⟨_, pack_compose c tool _ _ (mdAvc c sps pps 0) (mdPCMU f 1) hvne ?_ (section_avc c hc sps pps 0) (section_PCMU c f 1 ha none), ?_, rfl⟩
      · intro l hl
        rcases mem_append3 l _ _ _ hl with h | h | h
        · exact hh l h
        · exact hv l h
        · exact no_cr_PCMU c f 1 ha none l h
      · simp only [logicStep_avc c hc, logicStep_PCMU, Reads, VideoCfg.vps, VideoCfg.sps, VideoCfg.pps, VideoCfg.pt,
          AudioCfg.config, AudioCfg.pt, AudioCfg.clock, h0, h1, and_self]
        decide
    | opus =>
      refine ⟨_, pack_compose c tool _ _ (mdAvc c sps pps 0) (mdOpus 1) hvne ?_ (section_avc c hc sps pps 0) (section_opus c 48000 1 none), ?_, rfl⟩
      · intro l hl
        rcases mem_append3 l _ _ _ hl with h | h | h
        · exact hh l h
        · exact hv l h
        · exact no_cr_opus c 48000 1 none l h
      · simp only [logicStep_avc c hc, logicStep_opus, Reads, VideoCfg.vps, VideoCfg.sps, VideoCfg.pps, VideoCfg.pt,
          AudioCfg.config, AudioCfg.pt, AudioCfg.clock, h0, h1, and_self]
        decide
  | hevc vps sps pps =>
    have hvne : (videoLines c (VideoCfg.hevc vps sps pps).info 0).isEmpty = false := by
      simp only [VideoCfg.info]; rw [videoLines_hevc]; rfl
    have hv := no_cr_hevc c hc vps sps pps 0
    cases a with
    | aac cfg f =>
      obtain ⟨hcfg, hf⟩ := ha
      have hne : cfg ≠ [] := by intro h; subst h; simp at hcfg
      refine ⟨_, pack_compose c tool _ _ (mdHevc c vps sps pps 0) (mdAac c cfg f 1) hvne ?_ (section_hevc c hc vps sps pps 0) (section_aac c hc cfg hne f 1 hf), ?_, rfl⟩
      · intro l hl
        rcases mem_append3 l _ _ _ hl with h | h | h
        · exact hh l h
        · exact hv l h
        · exact no_cr_aac c hc cfg f 1 l h
      · simp only [logicStep_hevc c hc, logicStep_aac c hc _ cfg hcfg, Reads, VideoCfg.vps, VideoCfg.sps, VideoCfg.pps, VideoCfg.pt,
          AudioCfg.config, AudioCfg.pt, AudioCfg.clock, h0, h1, and_self]
        decide
    | pcma f =>
      refine ⟨_, pack_compose c tool _ _ (mdHevc c vps sps pps 0) (mdPCMA f 1) hvne ?_ (section_hevc c hc vps sps pps 0) (section_PCMA c f 1 ha none), ?_, rfl⟩
      · intro l hl
        rcases mem_append3 l _ _ _ hl with h | h | h
        · exact hh l h
        · exact hv l h
        · exact no_cr_PCMA c f 1 ha none l h
      · simp only [logicStep_hevc c hc, logicStep_PCMA, Reads, VideoCfg.vps, VideoCfg.sps, VideoCfg.pps, VideoCfg.pt,
          AudioCfg.config, AudioCfg.pt, AudioCfg.clock, h0, h1, and_self]
        decide
    | pcmu f =>
      refine ⟨_, pack_compose c tool _ _ (mdHevc c vps sps pps 0) (mdPCMU f 1) hvne ?_ (section_hevc c hc vps sps pps 0) (section_PCMU c f 1 ha none), ?_, rfl⟩
      · intro l hl
        rcases mem_append3 l _ _ _ hl with h | h | h
        · exact hh l h
        · exact hv l h
        · exact no_cr_PCMU c f 1 ha none l h
      · simp only [logicStep_hevc c hc, logicStep_PCMU, Reads, VideoCfg.vps, VideoCfg.sps, VideoCfg.pps, VideoCfg.pt,
          AudioCfg.config, AudioCfg.pt, AudioCfg.clock, h0, h1, and_self]
        decide
    | opus =>
      refine ⟨_, pack_compose c tool _ _ (mdHevc c vps sps pps 0) (mdOpus 1) hvne ?_ (section_hevc c hc vps sps pps 0) (section_opus c 48000 1 none), ?_, rfl⟩
      · intro l hl
        rcases mem_append3 l _ _ _ hl with h | h | h
        · exact hh l h
        · exact hv l h
        · exact no_cr_opus c 48000 1 none l h
      · simp only [logicStep_hevc c hc, logicStep_opus, Reads, VideoCfg.vps, VideoCfg.sps, VideoCfg.pps, VideoCfg.pt,
          AudioCfg.config, AudioCfg.pt, AudioCfg.clock, h0, h1, and_self]
        decide

/- ---------------- a codec that satisfies the laws (non-vacuity) ---------------- -/

def enc16 (x : Bytes) : Bytes := x.flatMap fun b => [UInt8.ofNat (65 + b.toNat / 16), UInt8.ofNat (65 + b.toNat % 16)]

def dec16 : Bytes → Bytes × Bool
  | [] => ([], true)
  | [_] => ([], false)
  | a :: b :: rest =>
    let (r, ok) := dec16 rest
    (UInt8.ofNat ((a.toNat - 65) * 16 + (b.toNat - 65)) :: r, ok)

def codec16 : Codec := { b64enc := enc16, b64dec := dec16, hexenc := enc16, hexdec := dec16 }

theorem dec16_enc16 (x : Bytes) : dec16 (enc16 x) = (x, true) := by
  induction x with
  | nil => rfl
  | cons b rest ih =>
    have hb := b.toNat_lt
    simp only [enc16, List.flatMap_cons, List.cons_append, List.nil_append] at ih ⊢
    simp only [dec16, ih]
    congr 1
    have e1 : (UInt8.ofNat (65 + b.toNat / 16)).toNat = 65 + b.toNat / 16 := by simp only [UInt8.toNat_ofNat']; omega
    have e2 : (UInt8.ofNat (65 + b.toNat % 16)).toNat = 65 + b.toNat % 16 := by simp only [UInt8.toNat_ofNat']; omega
    rw [e1, e2]
    have : (65 + b.toNat / 16 - 65) * 16 + (65 + b.toNat % 16 - 65) = b.toNat := by omega
    rw [this]
    simp

theorem enc16_mem (x : Bytes) : ∀ ch ∈ enc16 x, 65 ≤ ch.toNat ∧ ch.toNat ≤ 80 := by
  intro ch h
  simp only [enc16, List.mem_flatMap, List.mem_cons, List.mem_nil_iff, or_false] at h
  obtain ⟨b, _, hb⟩ := h
  have := b.toNat_lt
  rcases hb with h | h <;> subst h <;> simp only [UInt8.toNat_ofNat'] <;> omega

theorem codec16_laws : CodecLaws codec16 := by
  have clean : ∀ x, ∀ ch ∈ enc16 x, isSpace ch = false ∧ ch ≠ 44 ∧ ch ≠ 59 := by
    intro x ch h
    obtain ⟨h1, h2⟩ := enc16_mem x ch h
    refine ⟨?_, ?_, ?_⟩
    · simp only [isSpace, Bool.or_eq_false_iff, beq_eq_false_iff_ne, ne_eq]
      refine ⟨⟨⟨⟨⟨?_, ?_⟩, ?_⟩, ?_⟩, ?_⟩, ?_⟩ <;> (intro e; subst e; revert h1; decide)
    · intro e; subst e; revert h1; decide
    · intro e; subst e; revert h1; decide
  refine ⟨dec16_enc16, dec16_enc16, clean, clean, ?_⟩
  intro x
  induction x with
  | nil => rfl
  | cons b rest ih => simp only [codec16, enc16, List.flatMap_cons, List.length_append, List.length_cons, List.length_nil] at ih ⊢; omega

end Lal.Sdp
