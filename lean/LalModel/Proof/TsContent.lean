import LalModel.Proof.TsScenario
import LalModel.Proof.SeqHeader
import LalModel.Spec.Publisher
/-
  What `feedVideo` / `feedAudio` make of the messages that carry the elements of a well-formed publish
  (Spec/Publisher.lean), and from there: the frames the remuxer sends are the published ones.
-/
namespace Lal.TsContent
open Lal Lal.Nalu Lal.TsRmx Lal.Publish Lal.TsVideo Lal.TsScenario

/-! ### spec-side well-formedness is the one the C19 lemmas are stated with -/

theorem noSc_eq : ∀ n : Bytes, nalOK.noSc n = noStartCode n := by
  intro n
  induction n with
  | nil => rfl
  | cons x rest ih =>
    simp only [nalOK.noSc, noStartCode, ih]
    congr 1

theorem nalOK_wf (n : Bytes) (h : nalOK n = true) : NalWF n := by
  simp only [nalOK, Bool.and_eq_true, Bool.not_eq_true', bne_iff_ne, ne_eq] at h
  refine ⟨?_, by rw [← noSc_eq]; exact h.1.2, h.2⟩
  intro e; rw [e] at h; simp at h

/-! ### the first five payload bytes -/

theorem pb_cons_zero (x : UInt8) (r : Bytes) : pb (x :: r) 0 = x.toNat := by simp [pb]
theorem pb_cons_succ (x : UInt8) (r : Bytes) (i : Nat) : pb (x :: r) (i + 1) = pb r i := by simp [pb]

/-! ### sequence headers -/

theorem videoAu_avcConfig (sp : Option Bytes) (x y : UInt8) (sps pps : Bytes) (hs : sps.length < 65536) (hp : pps.length < 65536) :
    videoAu sp (render .avc (.avcConfig x y sps pps)) = .cache (some (joinAnnexb [(3, sps), (3, pps)])) := by
  have hl : (render .avc (.avcConfig x y sps pps)).payload = SeqHeader.avcLayout x y sps pps := rfl
  have h2a := SeqHeader.avcSeqHeader2Annexb_layout x y sps pps hs hp
  unfold videoAu
  simp only [hl]
  have hlen : ¬ (SeqHeader.avcLayout x y sps pps).length ≤ 5 := by simp [SeqHeader.avcLayout, be16]
  have e : SeqHeader.avcLayout x y sps pps = 0x17 :: 0 :: 0 :: 0 :: 0 :: ([1, x, 0, y, 0xFF, 0xE1] ++ be16 sps.length ++ sps ++ [1] ++ be16 pps.length ++ pps) := by
    simp [SeqHeader.avcLayout]
  have hcodec : videoCodecId (SeqHeader.avcLayout x y sps pps) = Gen.rtmpCodecIdAvc := by
    rw [e]; simp [videoCodecId, isExt, pb_cons_zero]; decide
  have hsh : isAvcKeySeqHeader (SeqHeader.avcLayout x y sps pps) = true := by
    rw [e]; simp [isAvcKeySeqHeader, pb_cons_zero, pb_cons_succ]
  rw [if_neg hlen, hcodec]
  simp only [hsh, if_true, h2a, goErr]
  have : ¬ (Gen.rtmpCodecIdAvc ≠ Gen.rtmpCodecIdAvc ∧ Gen.rtmpCodecIdAvc ≠ Gen.rtmpCodecIdHevc) := by decide
  rw [if_neg this]
  simp [joinAnnexb, zeros, startCode4]

theorem videoAu_hevcConfig (sp : Option Bytes) (g vps sps pps : Bytes) (hg : g.length = 22)
    (hv : vps.length < 65536) (hs : sps.length < 65536) (hp : pps.length < 65536) :
    videoAu sp (render .hevc (.hevcConfig g vps sps pps)) = .cache (some (joinAnnexb [(3, vps), (3, sps), (3, pps)])) := by
  have hl : (render .hevc (.hevcConfig g vps sps pps)).payload = SeqHeader.hevcLayout g vps sps pps := by
    simp [render, SeqHeader.hevcLayout, SeqHeader.hevcArr]
  have hpa := SeqHeader.hevcParse_layout g vps sps pps hg hv hs hp
  unfold videoAu
  simp only [hl]
  have hlen : ¬ (SeqHeader.hevcLayout g vps sps pps).length ≤ 5 := by
    rw [SeqHeader.hevcLayout_length g vps sps pps hg]; omega
  have e : SeqHeader.hevcLayout g vps sps pps = 0x1c :: 0 :: 0 :: 0 :: 0 :: (g ++ [3] ++ SeqHeader.hevcArr 32 vps ++ SeqHeader.hevcArr 33 sps ++ SeqHeader.hevcArr 34 pps) := by
    simp [SeqHeader.hevcLayout]
  have hext : isExt (SeqHeader.hevcLayout g vps sps pps) = false := by rw [e]; simp [isExt, pb_cons_zero]
  have hcodec : videoCodecId (SeqHeader.hevcLayout g vps sps pps) = Gen.rtmpCodecIdHevc := by
    simp only [videoCodecId, hext]; rw [e]; simp [pb_cons_zero]; decide
  have hsa : isAvcKeySeqHeader (SeqHeader.hevcLayout g vps sps pps) = false := by
    rw [e]; simp [isAvcKeySeqHeader, pb_cons_zero]
  have hsh : isHevcKeySeqHeader (SeqHeader.hevcLayout g vps sps pps) = true := by
    simp only [isHevcKeySeqHeader, hext]; rw [e]; simp [pb_cons_zero, pb_cons_succ]
  rw [if_neg hlen, hcodec]
  have : ¬ (Gen.rtmpCodecIdHevc ≠ Gen.rtmpCodecIdAvc ∧ Gen.rtmpCodecIdHevc ≠ Gen.rtmpCodecIdHevc) := by decide
  rw [if_neg this]
  simp only [hsa, hsh, hext, Bool.false_eq_true, if_false, if_true, SeqHeader.hevcSeqHeader2Annexb, hpa, goErr]
  simp [SeqHeader.annexb3, joinAnnexb, zeros, startCode4, bind, Except.bind, pure, Except.pure]

/-! ### access units -/

def isHevc (c : VCodec) : Bool := match c with | .hevc => true | .avc => false

theorem codecOf_isHevc (c : VCodec) : codecOf (isHevc c) = c := by cases c <;> rfl

theorem sample_eq (nals : List Bytes) : sample nals = joinNaluAvcc nals := rfl

theorem sample_length_pos (nals : List Bytes) (h : nals ≠ []) : 0 < (sample nals).length := by
  cases nals with
  | nil => exact absurd rfl h
  | cons n ns => simp [sample, be32]

theorem cts_be24 (b0 : UInt8) (hb : b0.toNat < 128) (c : Nat) (hc : c < 16777216) (rest : Bytes) :
    cts (b0 :: 1 :: (be24 c ++ rest)) = c := by
  simp only [be24, List.cons_append, List.nil_append]
  have hext : isExt (b0 :: 1 :: b8 (c / 65536) :: b8 (c / 256) :: b8 c :: rest) = false := by
    simp only [isExt, pb_cons_zero]
    have : b0.toNat / 128 % 2 = 0 := by omega
    simp [this]
  simp only [cts, hext, Bool.false_eq_true, if_false, pb_cons_succ, pb_cons_zero, b8_toNat]
  omega

/-- what `feedVideo`'s first part makes of an access unit message when the cache holds well-formed parameter sets -/
theorem videoAu_video (c : VCodec) (ps : List (Nat × Bytes)) (hps : PsItems c ps) (ts ct : Nat) (key : Bool) (nals : List Bytes)
    (hwf : ElemWF c (.video ts ct key nals)) :
    ∃ l units, nalLoop (isHevc c) { spspps := some (joinAnnexb ps) } nals = some l
      ∧ AnnexB.read l.out = some units ∧ normTs c units = normTs c nals
      ∧ (∃ ps', l.spspps = some (joinAnnexb ps') ∧ PsItems c ps')
      ∧ videoAu (some (joinAnnexb ps)) (render c (.video ts ct key nals))
          = if forwards c nals then .frame l.spspps l.out key ct else .cache l.spspps := by
  obtain ⟨hne, hall, hts, hct⟩ := hwf
  have hnwf : ∀ n ∈ nals, NalWF n := fun n hn => nalOK_wf n (hall n hn).1
  have hc := codecOf_isHevc c
  obtain ⟨l, units, hloop, hread, hnorm, hfw, hcache⟩ := access_unit (isHevc c) ps (hc.symm ▸ hps) nals hnwf
  rw [hc] at hnorm hfw hcache
  refine ⟨l, units, hloop, hread, hnorm, hcache, ?_⟩
  have hsplit : Nalu.splitNaluAvcc (sample nals) = (nals, false) :=
    splitNaluAvcc_join nals hne (fun n hn => ⟨(hnwf n hn).1, (hall n hn).2⟩)
  have hpos := sample_length_pos nals hne
  -- the four tag bytes
  have key_fact : ∀ (b0 : UInt8) (codec : Nat) (hv : Bool), b0.toNat < 128 → b0.toNat % 16 = codec →
      (codec = Gen.rtmpCodecIdAvc ∨ codec = Gen.rtmpCodecIdHevc) → decide (codec = Gen.rtmpCodecIdHevc) = hv →
      ((b0.toNat == 0x17 && true) || (b0.toNat == 0x1c && true)) = key →
      hv = isHevc c →
      videoAu (some (joinAnnexb ps)) { typ := 9, ts := ts, payload := b0 :: 1 :: (be24 ct ++ sample nals) }
        = if forwards c nals then .frame l.spspps l.out key ct else .cache l.spspps := by
    intro b0 codec hv hb hcod hcod2 hhv hkey hhc
    have hext : isExt (b0 :: 1 :: (be24 ct ++ sample nals)) = false := by
      simp only [isExt, pb_cons_zero]
      have : b0.toNat / 128 % 2 = 0 := by omega
      simp [this]
    have hlen : ¬ (b0 :: 1 :: (be24 ct ++ sample nals)).length ≤ 5 := by
      have e : (b0 :: 1 :: (be24 ct ++ sample nals)).length = (sample nals).length + 5 := by
        simp only [be24, List.length_cons, List.length_append, List.length_nil]; omega
      rw [e]; omega
    have hvc : videoCodecId (b0 :: 1 :: (be24 ct ++ sample nals)) = codec := by
      simp only [videoCodecId, hext, Bool.not_false, if_true, pb_cons_zero, hcod]
    have hsa : isAvcKeySeqHeader (b0 :: 1 :: (be24 ct ++ sample nals)) = false := by
      simp [isAvcKeySeqHeader, pb_cons_zero, pb_cons_succ]
    have hsh : isHevcKeySeqHeader (b0 :: 1 :: (be24 ct ++ sample nals)) = false := by
      simp [isHevcKeySeqHeader, hext, pb_cons_zero, pb_cons_succ]
    have hen : isEnhancedNalu (b0 :: 1 :: (be24 ct ++ sample nals)) = false := by simp [isEnhancedNalu, hext]
    have hkn : isVideoKeyNalu (b0 :: 1 :: (be24 ct ++ sample nals)) = key := by
      simp only [isVideoKeyNalu, hext, pb_cons_zero, pb_cons_succ, Bool.false_eq_true, if_false]
      rw [← hkey]; simp
    have hdrop : (b0 :: 1 :: (be24 ct ++ sample nals)).drop 5 = sample nals := by simp [be24]
    unfold videoAu
    simp only []
    rw [if_neg hlen, hvc]
    have hnot : ¬ (codec ≠ Gen.rtmpCodecIdAvc ∧ codec ≠ Gen.rtmpCodecIdHevc) := by
      rcases hcod2 with h | h <;> simp [h]
    rw [if_neg hnot]
    simp only [hsa, hsh, hen, Bool.false_eq_true, if_false, Bool.and_false, hdrop, hsplit, hhv, hhc, hloop, hkn,
      cts_be24 b0 hb ct hct (sample nals)]
    rw [← hfw]
    cases h : l.out.isEmpty <;> simp
  cases c <;> cases key
  · exact key_fact 0x27 7 false (by decide) (by decide) (Or.inl (by decide)) (by decide) (by decide) rfl
  · exact key_fact 0x17 7 false (by decide) (by decide) (Or.inl (by decide)) (by decide) (by decide) rfl
  · exact key_fact 0x2c 12 true (by decide) (by decide) (Or.inr (by decide)) (by decide) (by decide) rfl
  · exact key_fact 0x1c 12 true (by decide) (by decide) (Or.inr (by decide)) (by decide) (by decide) rfl

/-! ### the video side of the remuxer on its own -/

/-- the part of the remuxer state the video frames depend on -/
structure VSt where
  spspps : Option Bytes
  baseV  : Option Nat
  cc     : Nat

def proj (s : St) : VSt := ⟨s.spspps, s.baseV, s.videoCc⟩

def vframe (v : VSt) (ts : Nat) (raw : Bytes) (key : Bool) (c : Nat) : Ts.Frame :=
  { pts := (rebase v.baseV (ts * 90)).2 + 90 * c, dts := (rebase v.baseV (ts * 90)).2, cc := v.cc, pid := Gen.tsPidVideo,
    sid := Gen.tsStreamIdVideo, key := key, raw := raw }

/-- one message, seen from the video side -/
def vstep (v : VSt) (m : Msg) : VSt × List Ts.Frame :=
  if m.typ = 9 then
    match videoAu v.spspps m with
    | .ignore => (v, [])
    | .cache ps => ({ v with spspps := ps }, [])
    | .frame ps raw key c =>
      ({ spspps := ps, baseV := some (rebase v.baseV (m.ts * 90)).1, cc := (Ts.pack (vframe v m.ts raw key c)).2 },
       [vframe v m.ts raw key c])
  else (v, [])

def vrun : VSt → List Msg → VSt × List Ts.Frame
  | v, [] => (v, [])
  | v, m :: ms => ((vrun (vstep v m).1 ms).1, (vstep v m).2 ++ (vrun (vstep v m).1 ms).2)

theorem vrun_append (v : VSt) (a b : List Msg) :
    vrun v (a ++ b) = ((vrun (vrun v a).1 b).1, (vrun v a).2 ++ (vrun (vrun v a).1 b).2) := by
  induction a generalizing v with
  | nil => simp [vrun]
  | cons m ms ih => simp only [List.cons_append, vrun, ih, List.append_assoc]

section
variable {σ : Type} (obs : Observer σ)

theorem audioOnly_proj {s s' : St} {out : List Out} (h : AudioOnly s s' out) : vOf (frames out) = [] ∧ proj s' = proj s :=
  ⟨h.novideo, by simp only [proj, h.spspps, h.baseV, h.vcc]⟩

/-- `onPop`, projected on the video side, is `vstep` -/
theorem onPop_proj (aacS : Bool) (s : St) (o : σ) (m : Msg) (hs : SInv s) (hop : aacS = false → s.cache = [])
    (hb : Bounded aacS m) :
    vOf (frames (onPop obs s o m).2.2) = (vstep (proj s) m).2 ∧ proj (onPop obs s o m).1 = (vstep (proj s) m).1 := by
  unfold onPop vstep
  by_cases h8 : m.typ = 8
  · have h9 : ¬ m.typ = 9 := by omega
    rw [if_pos h8, if_neg h9]
    exact audioOnly_proj (feedAudio_good obs aacS s o m hs hop hb h8).1
  · rw [if_neg h8]
    by_cases h9 : m.typ = 9
    · rw [if_pos h9, if_pos h9]
      unfold feedVideo
      show _ ∧ _
      have hp : (proj s).spspps = s.spspps := rfl
      rw [hp]
      cases hv : videoAu s.spspps m with
      | ignore => exact ⟨rfl, rfl⟩
      | cache ps => exact ⟨rfl, rfl⟩
      | frame ps raw key c =>
        have hraw : raw ≠ [] := videoAu_frame_raw hv
        have hs' : SInv { s with spspps := ps } := { vcc := hs.vcc, acc := hs.acc, cache := hs.cache }
        have h := videoFrame_good obs { s with spspps := ps } o hs' m.ts raw key c hraw
        have hf : vframeOf { s with spspps := ps } m.ts raw key c = vframe (proj s) m.ts raw key c := rfl
        refine ⟨by rw [h.vframes, hf], ?_⟩
        have hcc : (videoFrame obs { s with spspps := ps } o m.ts raw key c).1.videoCc = (Ts.pack (vframe (proj s) m.ts raw key c)).2 := by
          have := h.good.vchain
          rw [h.vframes, hf] at this
          exact this.2.symm
        simp only [proj, h.baseV, h.spspps, hcc]
    · rw [if_neg h9, if_neg h9]
      exact ⟨rfl, rfl⟩

theorem popAll_proj (aacS : Bool) : ∀ (ms : List Msg) (s : St) (o : σ), SInv s → (aacS = false → s.cache = []) →
    (∀ m ∈ ms, Bounded aacS m) →
    vOf (frames (popAll obs s o ms).2.2) = (vrun (proj s) ms).2 ∧ proj (popAll obs s o ms).1 = (vrun (proj s) ms).1 := by
  intro ms
  induction ms with
  | nil => intro s o _ _ _; exact ⟨rfl, rfl⟩
  | cons m ms ih =>
    intro s o hs hop hb
    have h1 := onPop_proj obs aacS s o m hs hop (hb m (by simp))
    have hst := onPop_step obs aacS s o m hs hop (hb m (by simp))
    have h2 := ih (onPop obs s o m).1 (onPop obs s o m).2.1 hst.inv hst.opus (fun m' hm' => hb m' (by simp [hm']))
    simp only [popAll, vrun, frames_append, vOf, List.filter_append]
    rw [← vOf, ← vOf, h1.1, h2.1, h1.2]
    exact ⟨rfl, by rw [h2.2, h1.2]⟩

/-! ### through the probe filter -/

theorem flushAudio_done (s : St) (o : σ) : (flushAudio obs s o).1.done = s.done := by
  unfold flushAudio; split <;> rfl

theorem onPop_done (s : St) (o : σ) (m : Msg) : (onPop obs s o m).1.done = s.done := by
  unfold onPop
  split
  · unfold feedAudio
    split
    · rfl
    · rfl
    · simp only []
      split <;> (split <;> first | rfl | (unfold flushAudio; split <;> rfl))
    · unfold flushAudio; split <;> rfl
  · split
    · unfold feedVideo
      split
      · rfl
      · rfl
      · unfold videoFrame
        simp only []
        repeat' split
        all_goals first | rfl | (unfold flushAudio; repeat' split; all_goals rfl)
    · rfl

theorem popAll_done : ∀ (ms : List Msg) (s : St) (o : σ), (popAll obs s o ms).1.done = s.done := by
  intro ms
  induction ms with
  | nil => intro s o; rfl
  | cons m ms ih => intro s o; simp only [popAll]; rw [ih, onPop_done]

def msgsOf : List Ev → List Msg
  | [] => []
  | .msg m :: r => m :: msgsOf r
  | .flush :: r => msgsOf r

def v0 : VSt := ⟨none, none, 0⟩

/-- where a run stands: either the PAT/PMT is out and the video frames sent so far are those of all messages so far, or
    nothing has been sent and all messages so far wait in the probe filter -/
def RunInv (s : St) (out : List Out) (ms : List Msg) : Prop :=
  (s.done = true ∧ vOf (frames out) = (vrun v0 ms).2 ∧ proj s = (vrun v0 ms).1)
  ∨ (s.done = false ∧ frames out = [] ∧ s.queue = ms ∧ proj s = v0 ∧ s.cache = [])

theorem vrun_snoc (v : VSt) (ms : List Msg) (m : Msg) :
    (vrun v (ms ++ [m])).2 = (vrun v ms).2 ++ (vstep (vrun v ms).1 m).2 ∧ (vrun v (ms ++ [m])).1 = (vstep (vrun v ms).1 m).1 := by
  rw [vrun_append]
  simp [vrun]

theorem step_proj (aacS : Bool) (s : St) (o : σ) (e : Ev) (out : List Out) (ms : List Msg)
    (hs : SInv s) (hop : aacS = false → s.cache = []) (hq : QInv aacS s) (he : EvBounded aacS e) (hi : RunInv s out ms) :
    RunInv (step obs s o e).1 (out ++ (step obs s o e).2.2) (ms ++ msgsOf [e]) := by
  cases e with
  | flush =>
    have h := (flushAudio_good obs s o hs).1
    have hp := audioOnly_proj h
    simp only [msgsOf, List.append_nil]
    show RunInv (flushAudio obs s o).1 (out ++ (flushAudio obs s o).2.2) ms
    rcases hi with ⟨hd, hv, hpj⟩ | ⟨hd, hf, hqu, hpj, hc⟩
    · left
      refine ⟨by rw [flushAudio_done]; exact hd, ?_, by rw [hp.2]; exact hpj⟩
      rw [frames_append]; simp only [vOf, List.filter_append]; rw [← vOf, ← vOf, hp.1, hv, List.append_nil]
    · -- before the PAT/PMT nothing has reached `feedAudio`: the cache is empty and `FlushAudio` does nothing
      right
      have he : s.cache.isEmpty = true := by rw [hc]; rfl
      have hfl : flushAudio obs s o = (s, o, []) := by unfold flushAudio; rw [if_pos he]
      rw [hfl]
      exact ⟨hd, by simpa using hf, hqu, hpj, hc⟩
  | msg m =>
    simp only [msgsOf]
    show RunInv (feed obs s o m).1 (out ++ (feed obs s o m).2.2) (ms ++ [m])
    have hsn := vrun_snoc v0 ms m
    unfold feed
    rcases hi with ⟨hd, hv, hpj⟩ | ⟨hd, hf, hqu, hpj, hc⟩
    · rw [if_pos hd]
      have h1 := onPop_proj obs aacS s o m hs hop he
      left
      refine ⟨by rw [onPop_done]; exact hd, ?_, ?_⟩
      · rw [frames_append]; simp only [vOf, List.filter_append]; rw [← vOf, ← vOf, h1.1, hv, hsn.1, hpj]
      · rw [h1.2, hsn.2, hpj]
    · have hd' : ¬ s.done = true := by rw [hd]; simp
      rw [if_neg hd']
      simp only []
      generalize hs1 : (if m.typ = 8 then { ({ s with queue := s.queue ++ [m] } : St) with audioId := (audioCodecId m.payload : Nat) }
          else if m.typ = 9 then { ({ s with queue := s.queue ++ [m] } : St) with videoId := (videoCodecId m.payload : Nat) }
          else ({ s with queue := s.queue ++ [m] } : St)) = s1
      have hfields : s1.videoCc = s.videoCc ∧ s1.audioCc = s.audioCc ∧ s1.cache = s.cache ∧ s1.queue = s.queue ++ [m]
          ∧ s1.spspps = s.spspps ∧ s1.baseV = s.baseV ∧ s1.done = s.done := by
        rw [← hs1]; split
        · exact ⟨rfl, rfl, rfl, rfl, rfl, rfl, rfl⟩
        · split <;> exact ⟨rfl, rfl, rfl, rfl, rfl, rfl, rfl⟩
      obtain ⟨f1, f2, f3, f4, f5, f6, f7⟩ := hfields
      have hs1inv : SInv s1 := step_cc s s1 f1 f2 f3 hs
      have hop1 : aacS = false → s1.cache = [] := fun h => by rw [f3]; exact hop h
      have hq1 : QInv aacS s1 := by
        intro m' hm'
        rw [f4, List.mem_append] at hm'
        rcases hm' with h | h
        · exact hq m' h
        · simp only [List.mem_singleton] at h; rw [h]; exact he
      have hdrain : RunInv (drain obs s1 o).1 (out ++ (drain obs s1 o).2.2) (ms ++ [m]) := by
        left
        unfold drain
        simp only []
        have hs2 : SInv { s1 with queue := [], done := true } := step_cc s1 _ rfl rfl rfl hs1inv
        have hpp := popAll_proj obs aacS s1.queue { s1 with queue := [], done := true }
          (obs.patpmt o (Psi.packPat ++ Psi.packPmt s1.videoId s1.audioId)) hs2 hop1 hq1
        have hpj2 : proj ({ s1 with queue := [], done := true } : St) = v0 := by
          simp only [proj, f5, f6, f1]; exact hpj
        have hq4 : s1.queue = ms ++ [m] := by rw [f4, hqu]
        rw [hpj2, hq4] at hpp
        rw [hq4]
        refine ⟨by rw [popAll_done], ?_, hpp.2⟩
        rw [frames_append]
        simp only [vOf, List.filter_append, frames]
        rw [← vOf, ← vOf, hpp.1, hf]
        rfl
      have hnone : RunInv s1 (out ++ []) (ms ++ [m]) := by
        right
        exact ⟨by rw [f7]; exact hd, by simpa using hf, by rw [f4, hqu], by simp only [proj, f5, f6, f1]; exact hpj, by rw [f3]; exact hc⟩
      split
      · exact hdrain
      · split
        · exact hdrain
        · exact hnone

theorem msgsOf_append (a b : List Ev) : msgsOf (a ++ b) = msgsOf a ++ msgsOf b := by
  induction a with
  | nil => rfl
  | cons e es ih => cases e <;> simp [msgsOf, ih]

theorem run_proj (aacS : Bool) : ∀ (evs : List Ev) (s : St) (o : σ) (out : List Out) (ms : List Msg),
    SInv s → (aacS = false → s.cache = []) → QInv aacS s → (∀ e ∈ evs, EvBounded aacS e) → RunInv s out ms →
    RunInv (run obs s o evs).1 (out ++ (run obs s o evs).2.2) (ms ++ msgsOf evs) := by
  intro evs
  induction evs with
  | nil => intro s o out ms _ _ _ _ hi; simpa [run, msgsOf] using hi
  | cons e es ih =>
    intro s o out ms hs hop hq hb hi
    obtain ⟨h1, hq1⟩ := step_step obs aacS s o e hs hop hq (hb e (by simp))
    have hi1 := step_proj obs aacS s o e out ms hs hop hq (hb e (by simp)) hi
    have := ih (step obs s o e).1 (step obs s o e).2.1 _ _ h1.inv h1.opus hq1 (fun e' he' => hb e' (by simp [he'])) hi1
    simp only [run]
    have e1 : msgsOf (e :: es) = msgsOf [e] ++ msgsOf es := msgsOf_append [e] es
    rw [e1, ← List.append_assoc, ← List.append_assoc]
    exact this

end

/-! ### the frames of a well-formed publish -/

/-- the frames the remuxer packs against the published access units: key flag, re-based times, and an Annex B payload
    whose units are the published ones up to the normalisation -/
def Match (c : VCodec) : Option Nat → List Ts.Frame → List Au → Prop
  | _, [], [] => True
  | b, f :: fs, a :: as =>
    f.key = a.key ∧ f.dts = (rebase b (a.ts * 90)).2 ∧ f.pts = f.dts + 90 * a.cts
    ∧ (∃ units, AnnexB.read f.raw = some units ∧ normTs c units = normTs c a.nals)
    ∧ Match c (some (rebase b (a.ts * 90)).1) fs as
  | _, _, _ => False

def CacheWF (c : VCodec) (v : VSt) : Prop := ∃ ps, v.spspps = some (joinAnnexb ps) ∧ PsItems c ps

def fwd (c : VCodec) (a : Au) : Bool := forwards c a.nals

theorem render_typ_audio (c : VCodec) (e : Elem) (h : e.isVideoConfig = false) (h2 : e.isVideoFrame = false) :
    (render c e).typ = 8 := by
  cases e <;> simp_all [Elem.isVideoConfig, Elem.isVideoFrame, render]

theorem vstep_audio (v : VSt) (m : Msg) (h : m.typ = 8) : vstep v m = (v, []) := by
  unfold vstep
  rw [if_neg (by omega)]

theorem videoAus_other (e : Elem) (es : List Elem) (h2 : e.isVideoFrame = false) : videoAus (e :: es) = videoAus es := by
  cases e <;> simp_all [Elem.isVideoFrame, videoAus]

theorem vrun_match (c : VCodec) : ∀ (elems : List Elem) (v : VSt), CacheWF c v → (∀ e ∈ elems, ElemWF c e) →
    Match c v.baseV (vrun v (elems.map (render c))).2 ((videoAus elems).filter (fwd c)) := by
  intro elems
  induction elems with
  | nil => intro v _ _; trivial
  | cons e es ih =>
    intro v hv hwf
    have hwfe := hwf e (by simp)
    have hrest : ∀ e' ∈ es, ElemWF c e' := fun e' he' => hwf e' (by simp [he'])
    obtain ⟨ps, hsp, hps⟩ := hv
    simp only [List.map_cons, vrun]
    cases e with
    | avcConfig x y sps pps =>
      obtain ⟨hc, h1, h2, h3, h4, h5, h6⟩ := hwfe
      subst hc
      have hau := videoAu_avcConfig v.spspps x y sps pps h5 h6
      have hst : vstep v (render .avc (.avcConfig x y sps pps)) = ({ v with spspps := some (joinAnnexb [(3, sps), (3, pps)]) }, []) := by
        unfold vstep
        have ht : ∀ (cc : VCodec) (e : Elem), e.isVideoConfig = true → (render cc e).typ = 9 := by
          intro cc e he; cases e <;> simp_all [Elem.isVideoConfig, render]
        rw [if_pos (ht _ _ rfl), hau]
      rw [hst]
      simp only [List.nil_append, videoAus]
      refine ih { v with spspps := some (joinAnnexb [(3, sps), (3, pps)]) } ⟨_, rfl, ?_⟩ hrest
      refine ⟨?_, ?_⟩
      · intro it hit
        simp only [List.mem_cons, List.mem_nil_iff, or_false] at hit
        rcases hit with rfl | rfl
        · exact ⟨three_ge _, nalOK_wf _ h1⟩
        · exact ⟨three_ge _, nalOK_wf _ h2⟩
      · intro it hit
        simp only [List.mem_cons, List.mem_nil_iff, or_false] at hit
        rcases hit with rfl | rfl
        · simp [isParamSet, h3]
        · simp [isParamSet, h4]
    | hevcConfig g vps sps pps =>
      obtain ⟨hc, hg, h1, h2, h3, t1, t2, t3, l1, l2, l3⟩ := hwfe
      subst hc
      have hau := videoAu_hevcConfig v.spspps g vps sps pps hg l1 l2 l3
      have hst : vstep v (render .hevc (.hevcConfig g vps sps pps))
          = ({ v with spspps := some (joinAnnexb [(3, vps), (3, sps), (3, pps)]) }, []) := by
        unfold vstep
        have ht : ∀ (cc : VCodec) (e : Elem), e.isVideoConfig = true → (render cc e).typ = 9 := by
          intro cc e he; cases e <;> simp_all [Elem.isVideoConfig, render]
        rw [if_pos (ht _ _ rfl), hau]
      rw [hst]
      simp only [List.nil_append, videoAus]
      refine ih { v with spspps := some (joinAnnexb [(3, vps), (3, sps), (3, pps)]) } ⟨_, rfl, ?_⟩ hrest
      refine ⟨?_, ?_⟩
      · intro it hit
        simp only [List.mem_cons, List.mem_nil_iff, or_false] at hit
        rcases hit with rfl | rfl | rfl
        · exact ⟨three_ge _, nalOK_wf _ h1⟩
        · exact ⟨three_ge _, nalOK_wf _ h2⟩
        · exact ⟨three_ge _, nalOK_wf _ h3⟩
      · intro it hit
        simp only [List.mem_cons, List.mem_nil_iff, or_false] at hit
        rcases hit with rfl | rfl | rfl
        · simp [isParamSet, t1]
        · simp [isParamSet, t2]
        · simp [isParamSet, t3]
    | video ts ct key nals =>
      obtain ⟨l, units, hloop, hread, hnorm, ⟨ps', hc', hps'⟩, hau⟩ := videoAu_video c ps hps ts ct key nals hwfe
      rw [← hsp] at hau
      by_cases hf : forwards c nals = true
      · rw [if_pos hf] at hau
        have hst : vstep v (render c (.video ts ct key nals))
            = ({ spspps := l.spspps, baseV := some (rebase v.baseV (ts * 90)).1, cc := (Ts.pack (vframe v ts l.out key ct)).2 },
               [vframe v ts l.out key ct]) := by
          unfold vstep
          have ht : (render c (.video ts ct key nals)).typ = 9 := rfl
          have hts : (render c (.video ts ct key nals)).ts = ts := rfl
          rw [if_pos ht, hau]
          simp only [hts]
        rw [hst]
        simp only [videoAus, List.filter_cons, fwd, hf, if_true, List.singleton_append]
        refine ⟨rfl, rfl, rfl, ⟨units, hread, hnorm⟩, ?_⟩
        exact ih { spspps := l.spspps, baseV := some (rebase v.baseV (ts * 90)).1, cc := (Ts.pack (vframe v ts l.out key ct)).2 }
          ⟨ps', hc', hps'⟩ hrest
      · rw [if_neg hf] at hau
        have hst : vstep v (render c (.video ts ct key nals)) = ({ v with spspps := l.spspps }, []) := by
          unfold vstep
          have ht : (render c (.video ts ct key nals)).typ = 9 := rfl
          rw [if_pos ht, hau]
        rw [hst]
        simp only [videoAus, List.filter_cons, fwd, hf, Bool.false_eq_true, if_false, List.nil_append]
        exact ih { v with spspps := l.spspps } ⟨ps', hc', hps'⟩ hrest
    | aacConfig o sf ch =>
      rw [vstep_audio v _ rfl]
      simp only [List.nil_append, videoAus]
      exact ih v ⟨ps, hsp, hps⟩ hrest
    | aacFrame ts f =>
      rw [vstep_audio v _ rfl]
      simp only [List.nil_append, videoAus]
      exact ih v ⟨ps, hsp, hps⟩ hrest
    | opus ts p =>
      rw [vstep_audio v _ rfl]
      simp only [List.nil_append, videoAus]
      exact ih v ⟨ps, hsp, hps⟩ hrest

/-- from the fresh state: nothing of the video side moves until the first decoder configuration -/
theorem vrun_match0 (c : VCodec) : ∀ (elems : List Elem), ConfigFirst elems = true → (∀ e ∈ elems, ElemWF c e) →
    Match c none (vrun v0 (elems.map (render c))).2 ((videoAus elems).filter (fwd c)) := by
  intro elems
  induction elems with
  | nil => intro _ _; trivial
  | cons e es ih =>
    intro hcf hwf
    have hrest : ∀ e' ∈ es, ElemWF c e' := fun e' he' => hwf e' (by simp [he'])
    by_cases h1 : e.isVideoConfig = true
    · -- the configuration: from here on the cache is well-formed
      have hwfe := hwf e (by simp)
      simp only [List.map_cons, vrun]
      cases e with
      | avcConfig x y sps pps =>
        obtain ⟨hc, a1, a2, a3, a4, a5, a6⟩ := hwfe
        subst hc
        have hau := videoAu_avcConfig v0.spspps x y sps pps a5 a6
        have hst : vstep v0 (render .avc (.avcConfig x y sps pps)) = ({ v0 with spspps := some (joinAnnexb [(3, sps), (3, pps)]) }, []) := by
          unfold vstep
          have ht : ∀ (cc : VCodec) (e : Elem), e.isVideoConfig = true → (render cc e).typ = 9 := by
            intro cc e he; cases e <;> simp_all [Elem.isVideoConfig, render]
          rw [if_pos (ht _ _ rfl), hau]
        rw [hst]
        simp only [List.nil_append, videoAus]
        refine vrun_match .avc es { v0 with spspps := some (joinAnnexb [(3, sps), (3, pps)]) } ⟨_, rfl, ?_⟩ hrest
        refine ⟨?_, ?_⟩
        · intro it hit
          simp only [List.mem_cons, List.mem_nil_iff, or_false] at hit
          rcases hit with rfl | rfl
          · exact ⟨three_ge _, nalOK_wf _ a1⟩
          · exact ⟨three_ge _, nalOK_wf _ a2⟩
        · intro it hit
          simp only [List.mem_cons, List.mem_nil_iff, or_false] at hit
          rcases hit with rfl | rfl
          · simp [isParamSet, a3]
          · simp [isParamSet, a4]
      | hevcConfig g vps sps pps =>
        obtain ⟨hc, hg, b1, b2, b3, t1, t2, t3, l1, l2, l3⟩ := hwfe
        subst hc
        have hau := videoAu_hevcConfig v0.spspps g vps sps pps hg l1 l2 l3
        have hst : vstep v0 (render .hevc (.hevcConfig g vps sps pps))
            = ({ v0 with spspps := some (joinAnnexb [(3, vps), (3, sps), (3, pps)]) }, []) := by
          unfold vstep
          have ht : ∀ (cc : VCodec) (e : Elem), e.isVideoConfig = true → (render cc e).typ = 9 := by
            intro cc e he; cases e <;> simp_all [Elem.isVideoConfig, render]
          rw [if_pos (ht _ _ rfl), hau]
        rw [hst]
        simp only [List.nil_append, videoAus]
        refine vrun_match .hevc es { v0 with spspps := some (joinAnnexb [(3, vps), (3, sps), (3, pps)]) } ⟨_, rfl, ?_⟩ hrest
        refine ⟨?_, ?_⟩
        · intro it hit
          simp only [List.mem_cons, List.mem_nil_iff, or_false] at hit
          rcases hit with rfl | rfl | rfl
          · exact ⟨three_ge _, nalOK_wf _ b1⟩
          · exact ⟨three_ge _, nalOK_wf _ b2⟩
          · exact ⟨three_ge _, nalOK_wf _ b3⟩
        · intro it hit
          simp only [List.mem_cons, List.mem_nil_iff, or_false] at hit
          rcases hit with rfl | rfl | rfl
          · simp [isParamSet, t1]
          · simp [isParamSet, t2]
          · simp [isParamSet, t3]
      | video _ _ _ _ => simp [Elem.isVideoConfig] at h1
      | aacConfig _ _ _ => simp [Elem.isVideoConfig] at h1
      | aacFrame _ _ => simp [Elem.isVideoConfig] at h1
      | opus _ _ => simp [Elem.isVideoConfig] at h1
    · have h1' : e.isVideoConfig = false := by simpa using h1
      by_cases h2 : e.isVideoFrame = true
      · simp [ConfigFirst, h1', h2] at hcf
      · have h2' : e.isVideoFrame = false := by simpa using h2
        have hcf' : ConfigFirst es = true := by simpa [ConfigFirst, h1', h2'] using hcf
        simp only [List.map_cons, vrun]
        rw [vstep_audio v0 _ (render_typ_audio c e h1' h2'), videoAus_other e es h2']
        simp only [List.nil_append]
        exact ih hcf' hrest

end Lal.TsContent
