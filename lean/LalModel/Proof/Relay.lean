import LalModel.Model.Relay
import LalModel.Spec.RelaySpec
/- Lemmas about the relay state machine (Model/Relay.lean) against the rules of Spec/RelaySpec.lean. -/
namespace Lal.Relay
open Lal

/-- what the property's rule looks at, read off the group's bookkeeping -/
def view (s : State) : RelaySpec.View :=
  { enabled := s.pull.staticEnable || s.pull.apiEnable, hasInput := s.hasIn, inFlight := s.pull.pulling,
    attempts := s.pull.startCount, budget := s.pull.retryNum, autoStop := s.pull.autoStopMs,
    consumerPresent := s.hasOut, lastConsumer := s.pull.lastHasOut }

theorem shouldAutoStop_iff (s : State) (now : Int) (h : s.pull.lastHasOut ≠ -1) :
    shouldAutoStop s now = true ↔ RelaySpec.consumerGoneForWindow (view s) now := by
  unfold shouldAutoStop RelaySpec.consumerGoneForWindow view
  simp only
  by_cases h1 : s.pull.autoStopMs < 0
  · simp [h1]; omega
  · by_cases h2 : s.hasOut = true
    · simp [h1, h2]
    · by_cases h3 : s.pull.autoStopMs = 0
      · simp [h1, h2, h3]
      · simp [h1, h2, h3, h]
        omega

theorem shouldStartPull_iff (s : State) (now : Int) (h : s.hasOut = true ∨ s.pull.lastHasOut ≠ -1) :
    shouldStartPull s now = .ok () ↔ RelaySpec.wantPull (view s) now := by
  unfold shouldStartPull shouldAutoStop RelaySpec.wantPull RelaySpec.budgetLeft RelaySpec.consumerWithinWindow view
  simp only
  generalize s.hasIn = hi
  generalize s.pull.pulling = pl
  generalize s.pull.staticEnable = se
  generalize s.pull.apiEnable = ae
  generalize s.hasOut = ho at h ⊢
  generalize s.pull.autoStopMs = a
  generalize s.pull.retryNum = r
  generalize s.pull.startCount = c
  generalize s.pull.lastHasOut = l at h ⊢
  cases ho
  · have h' : l ≠ -1 := by simpa using h
    cases hi <;> cases pl <;> cases se <;> cases ae <;> simp [h'] <;>
      (repeat' split) <;> simp_all <;> omega
  · cases hi <;> cases pl <;> cases se <;> cases ae <;> simp <;>
      (repeat' split) <;> simp_all <;> omega

/-! ### which observations a step can emit -/

def isStartPull : Obs → Bool
  | .startPull _ => true
  | _ => false

/-- number of pull attempts started in a history -/
def attempts (obs : List Obs) : Nat := obs.countP isStartPull

/-- `lastHasOutTs = now` when a consumer is present (first statement of `pullIfNeeded`) -/
def refreshOut (s : State) (now : Int) : State :=
  if s.hasOut then { s with pull := { s.pull with lastHasOut := now } } else s

theorem view_refreshOut_want (s : State) (now : Int) :
    RelaySpec.wantPull (view (refreshOut s now)) now ↔ RelaySpec.wantPull (view s) now := by
  unfold refreshOut
  by_cases ho : s.hasOut = true
  · simp only [ho, if_true]
    unfold RelaySpec.wantPull RelaySpec.budgetLeft RelaySpec.consumerWithinWindow view
    have : ({ s with pull := { s.pull with lastHasOut := now } } : State).hasOut = true := ho
    simp only [this, ho]
    constructor <;> (intro h; exact ⟨h.1, h.2.1, h.2.2.1, h.2.2.2.1, Or.inr (Or.inl trivial)⟩)
  · simp [ho]

theorem pullIfNeeded_obs (s : State) (now : Int) :
    (pullIfNeeded s now).2.2 = (if shouldStartPull (refreshOut s now) now = .ok () then [.startPull (refreshOut s now).nextId] else []) := by
  unfold pullIfNeeded refreshOut
  by_cases ho : s.hasOut = true
  · simp only [ho, if_true]
    cases hsp : shouldStartPull { s with pull := { s.pull with lastHasOut := now } } now <;> simp
  · simp only [ho, if_false, Bool.false_eq_true]
    cases hsp : shouldStartPull s now <;> simp

theorem pullIfNeeded_starts_iff (s : State) (now : Int) (h : s.hasOut = true ∨ s.pull.lastHasOut ≠ -1) :
    (pullIfNeeded s now).2.2.any isStartPull = true ↔ RelaySpec.wantPull (view s) now := by
  rw [pullIfNeeded_obs, ← view_refreshOut_want]
  have h' : (refreshOut s now).hasOut = true ∨ (refreshOut s now).pull.lastHasOut ≠ -1 := by
    unfold refreshOut
    by_cases ho : s.hasOut = true
    · left; simp only [ho, if_true]; exact ho
    · simp only [ho, if_false, Bool.false_eq_true]
      rcases h with h | h
      · exact absurd h ho
      · exact Or.inr h
  rw [← shouldStartPull_iff _ _ h']
  split <;> simp_all [isStartPull]

theorem startPushLoop_obs (q : Nat) (ps : List Push) (i n : Nat) :
    ∀ o ∈ (startPushLoop q i n ps).2.2, isStartPull o = false := by
  induction ps generalizing i n with
  | nil => simp [startPushLoop]
  | cons p ps ih =>
    unfold startPushLoop
    split
    · exact ih _ _
    · intro o ho
      simp only [List.mem_cons] at ho
      rcases ho with rfl | ho
      · rfl
      · exact ih _ _ o ho

theorem startPushIfNeeded_obs (s : State) : ∀ o ∈ (startPushIfNeeded s).2, isStartPull o = false := by
  unfold startPushIfNeeded
  split
  · simp
  · split
    · simp
    · exact startPushLoop_obs _ _ _ _

theorem startPushIfNeeded_pull (s : State) : (startPushIfNeeded s).1.pull = s.pull := by
  unfold startPushIfNeeded
  split
  · rfl
  · split <;> rfl

theorem stopPull_obs (s : State) : ∀ o ∈ (stopPull s).2.2, isStartPull o = false := by
  unfold stopPull
  split
  · simp [isStartPull]
  · split
    · cases s.pull.pullingId <;> simp [isStartPull]
    · simp [isStartPull]

theorem stopPushLoop_obs (ps : List Push) (i : Nat) : ∀ o ∈ (stopPushLoop i ps).2, isStartPull o = false := by
  induction ps generalizing i with
  | nil => simp [stopPushLoop]
  | cons p ps ih =>
    unfold stopPushLoop
    simp only
    split
    · intro o ho
      simp only [List.mem_cons] at ho
      rcases ho with rfl | ho
      · rfl
      · exact ih _ o ho
    · exact ih _

theorem stopPushIfNeeded_obs (s : State) : ∀ o ∈ (stopPushIfNeeded s).2, isStartPull o = false := by
  unfold stopPushIfNeeded
  split
  · simp
  · exact stopPushLoop_obs _ _

theorem delIn_obs (s : State) : ∀ o ∈ (delIn s).2, isStartPull o = false := by
  unfold delIn
  exact stopPushIfNeeded_obs s

theorem any_false_of_forall {l : List Obs} (h : ∀ o ∈ l, isStartPull o = false) : l.any isStartPull = false := by
  simp only [List.any_eq_false]
  intro o ho
  simp [h o ho]

/-! ### `pull_attempt_iff` -/

/-- the state in which the decision to pull is taken (after the event's own preparation) and the clock value used -/
def decision (s : State) : Event → Option (State × Int)
  | .subJoin now => some ({ s with subs := s.subs + 1 }, now)
  | .tick now => some (if s.hasSub then { s with pull := { s.pull with lastHasOut := now } } else s, now)
  | .apiStart r a now => some ({ s with pull := { s.pull with apiEnable := true, retryNum := r, autoStopMs := a } }, now)
  | _ => none

theorem autoStop_not_start (s : State) (now : Int) (h : shouldAutoStop s now = true) : shouldStartPull s now ≠ .ok () := by
  unfold shouldStartPull
  repeat' split
  all_goals simp_all

theorem any_append_false {l1 l2 : List Obs} (h : ∀ o ∈ l2, isStartPull o = false) :
    (l1 ++ l2).any isStartPull = l1.any isStartPull := by
  rw [List.any_append, any_false_of_forall h, Bool.or_false]

theorem tickPull_attempt_iff (s : State) (now : Int) (h : s.pull.lastHasOut ≠ -1) :
    (tickPull s now).2.any isStartPull = true ↔
      RelaySpec.wantPull (view (if s.hasSub then { s with pull := { s.pull with lastHasOut := now } } else s)) now := by
  unfold tickPull
  simp only
  generalize hs1 : (if s.hasSub then { s with pull := { s.pull with lastHasOut := now } } else s : State) = s1
  have h1 : s1.hasOut = true ∨ s1.pull.lastHasOut ≠ -1 := by
    subst hs1
    by_cases hs : s.hasSub = true
    · left; simp only [hs, if_true]; show (s.hasSub || s.hasPush) = true; simp [hs]
    · right; simp only [hs, if_false, Bool.false_eq_true]; exact h
  by_cases ha : shouldAutoStop s1 now = true
  · simp only [ha, if_true]
    rw [any_false_of_forall (stopPull_obs _)]
    simp only [Bool.false_eq_true, false_iff]
    intro hw
    exact autoStop_not_start _ _ ha ((shouldStartPull_iff _ _ h1).mpr hw)
  · simp only [ha, if_false, Bool.false_eq_true]
    exact pullIfNeeded_starts_iff s1 now h1

theorem step_attempt_iff (s : State) (e : Event) (h : s.pull.lastHasOut ≠ -1) :
    (step s e).2.any isStartPull = true ↔ ∃ d now, decision s e = some (d, now) ∧ RelaySpec.wantPull (view d) now := by
  cases e with
  | subJoin now =>
    have hd : ({ s with subs := s.subs + 1 } : State).hasOut = true := by
      simp [State.hasOut, State.hasSub]
    have := pullIfNeeded_starts_iff { s with subs := s.subs + 1 } now (Or.inl hd)
    simp only [decision, Option.some.injEq, Prod.mk.injEq, step]
    constructor
    · intro hh; exact ⟨_, _, ⟨rfl, rfl⟩, this.mp hh⟩
    · rintro ⟨d, n, ⟨rfl, rfl⟩, hw⟩; exact this.mpr hw
  | tick now =>
    simp only [decision, Option.some.injEq, Prod.mk.injEq, step]
    rw [any_append_false (startPushIfNeeded_obs _)]
    have := tickPull_attempt_iff s now h
    constructor
    · intro hh; exact ⟨_, _, ⟨rfl, rfl⟩, this.mp hh⟩
    · rintro ⟨d, n, ⟨rfl, rfl⟩, hw⟩; exact this.mpr hw
  | apiStart r a now =>
    simp only [decision, Option.some.injEq, Prod.mk.injEq, step, apiStartPull]
    rw [any_append_false (by intro o ho; simp at ho; subst ho; rfl)]
    have := pullIfNeeded_starts_iff { s with pull := { s.pull with apiEnable := true, retryNum := r, autoStopMs := a } } now (Or.inr h)
    constructor
    · intro hh; exact ⟨_, _, ⟨rfl, rfl⟩, this.mp hh⟩
    · rintro ⟨d, n, ⟨rfl, rfl⟩, hw⟩; exact this.mpr hw
  | subLeave => simp [step, decision]
  | apiStop =>
    simp only [step, decision, apiStopPull]
    rw [any_append_false (by intro o ho; simp at ho; subst ho; rfl), any_false_of_forall (stopPull_obs _)]
    simp
  | kick id =>
    simp only [step, decision, kickPull]
    split
    · rw [any_append_false (by intro o ho; simp at ho; subst ho; rfl), any_false_of_forall (stopPull_obs _)]
      simp
    · simp [isStartPull]
  | pullAttach id =>
    simp only [step, decision, pullAttach]
    split
    · split
      · simp [isStartPull]
      · split
        · simp [isStartPull]
        · simp only [List.any_cons, isStartPull, Bool.false_or]
          rw [any_false_of_forall (startPushIfNeeded_obs _)]
          simp
    · simp
  | pullDone id =>
    simp only [step, decision, pullDone]
    split
    · split
      · simp only [List.any_cons, isStartPull, Bool.false_or]
        rw [any_false_of_forall (delIn_obs _)]
        simp
      · simp [isStartPull]
    · simp
  | pubArrive p =>
    simp only [step, decision, pubArrive]
    split
    · simp [isStartPull]
    · simp only [List.any_cons, isStartPull, Bool.false_or]
      rw [any_false_of_forall (startPushIfNeeded_obs _)]
      simp
  | pubLeave =>
    simp only [step, decision]
    split
    · rw [any_false_of_forall (delIn_obs _)]; simp
    · simp
  | pushAttach t id =>
    simp only [step, decision, pushAttach]
    split
    · split <;> simp [isStartPull]
    · simp
  | pushDone t id =>
    simp only [step, decision, pushDone]
    split <;> simp [isStartPull]

/-! ### `retry_budget` -/

def isStop : Obs → Bool
  | .stopCalled => true
  | _ => false

/-- the event does not reconfigure the retry budget to something else than `n` -/
def keepsBudget (n : Int) : Event → Prop
  | .apiStart r _ _ => r = n
  | _ => True

theorem attempts_zero {l : List Obs} (h : ∀ o ∈ l, isStartPull o = false) : attempts l = 0 := by
  unfold attempts
  rw [List.countP_eq_zero]
  intro o ho
  simp [h o ho]

theorem attempts_append (a b : List Obs) : attempts (a ++ b) = attempts a + attempts b := by
  unfold attempts; exact List.countP_append

theorem stopPull_stopCalled (s : State) : .stopCalled ∈ (stopPull s).2.2 := by
  unfold stopPull
  split
  · simp
  · split <;> simp

theorem stopPull_count (s : State) : (stopPull s).1.pull.startCount = 0 := by
  unfold stopPull
  split
  · rfl
  · split <;> rfl

theorem stopPull_attached (s : State) (id : Nat) (h : s.pull.attached = some id) :
    stopPull s = ({ s with pull := { s.pull with startCount := 0 } }, some id, [.stopCalled, .disposePull id]) := by
  unfold stopPull; simp [h]

theorem stopPull_connecting (s : State) (id : Nat) (ha : s.pull.attached = none) (hc : s.connecting = true)
    (hp : s.pull.pullingId = some id) :
    stopPull s = ({ s with pull := { s.pull with startCount := 0, pullingId := none } }, some id, [.stopCalled, .cancelPull id]) := by
  unfold stopPull; simp [ha, hc, hp]

theorem stopPull_idle (s : State) (ha : s.pull.attached = none) (hc : s.connecting = false) :
    stopPull s = ({ s with pull := { s.pull with startCount := 0 } }, none, [.stopCalled]) := by
  unfold stopPull; simp [ha, hc]

theorem delIn_pull (s : State) : (delIn s).1.pull = s.pull := by
  unfold delIn stopPushIfNeeded
  split <;> rfl

/-- what `pullIfNeeded` does to the retry bookkeeping -/
theorem pullIfNeeded_count (s : State) (now : Int) :
    (pullIfNeeded s now).1.pull.retryNum = s.pull.retryNum ∧
    (pullIfNeeded s now).1.pull.startCount = s.pull.startCount + attempts (pullIfNeeded s now).2.2 ∧
    (attempts (pullIfNeeded s now).2.2 > 0 → s.pull.retryNum ≥ 0 → (s.pull.startCount : Int) ≤ s.pull.retryNum) := by
  unfold pullIfNeeded
  simp only
  generalize hs1 : (if s.hasOut then { s with pull := { s.pull with lastHasOut := now } } else s : State) = s1
  have e1 : s1.pull.retryNum = s.pull.retryNum := by subst hs1; split <;> rfl
  have e2 : s1.pull.startCount = s.pull.startCount := by subst hs1; split <;> rfl
  cases hsp : shouldStartPull s1 now with
  | error e => simp [attempts, e1, e2]
  | ok u =>
    simp only [attempts, isStartPull, List.countP_cons, List.countP_nil, e1, e2]
    refine ⟨trivial, by simp, ?_⟩
    intro _ hr
    unfold shouldStartPull at hsp
    rw [e1, e2] at hsp
    repeat' split at hsp
    all_goals (try simp_all)
    all_goals (try omega)

theorem tickPull_count (s : State) (now : Int) (hno : ∀ o ∈ (tickPull s now).2, isStop o = false) :
    (tickPull s now).1.pull.retryNum = s.pull.retryNum ∧
    (tickPull s now).1.pull.startCount = s.pull.startCount + attempts (tickPull s now).2 ∧
    (attempts (tickPull s now).2 > 0 → s.pull.retryNum ≥ 0 → ((tickPull s now).1.pull.startCount : Int) ≤ s.pull.retryNum + 1) := by
  unfold tickPull at hno ⊢
  simp only at hno ⊢
  generalize hs1 : (if s.hasSub then { s with pull := { s.pull with lastHasOut := now } } else s : State) = s1 at hno ⊢
  have e1 : s1.pull.retryNum = s.pull.retryNum := by subst hs1; split <;> rfl
  have e2 : s1.pull.startCount = s.pull.startCount := by subst hs1; split <;> rfl
  by_cases ha : shouldAutoStop s1 now = true
  · simp only [ha, if_true] at hno
    have := hno .stopCalled (stopPull_stopCalled _)
    simp [isStop] at this
  · simp only [ha, if_false, Bool.false_eq_true]
    obtain ⟨a, b, c⟩ := pullIfNeeded_count s1 now
    rw [e1] at a c
    rw [e2] at b c
    refine ⟨a, b, ?_⟩
    intro hp hr
    have := c hp hr
    have hle : attempts (pullIfNeeded s1 now).2.2 ≤ 1 := by
      rw [pullIfNeeded_obs]; split <;> simp [attempts, isStartPull]
    omega

theorem step_count (s : State) (e : Event) (hno : ∀ o ∈ (step s e).2, isStop o = false) (hk : keepsBudget s.pull.retryNum e) :
    (step s e).1.pull.retryNum = s.pull.retryNum ∧
    (step s e).1.pull.startCount = s.pull.startCount + attempts (step s e).2 ∧
    (attempts (step s e).2 > 0 → s.pull.retryNum ≥ 0 → ((step s e).1.pull.startCount : Int) ≤ s.pull.retryNum + 1) := by
  have fin : ∀ (s' : State) (obs : List Obs), s'.pull.retryNum = s.pull.retryNum → s'.pull.startCount = s.pull.startCount →
      (∀ o ∈ obs, isStartPull o = false) →
      s'.pull.retryNum = s.pull.retryNum ∧ s'.pull.startCount = s.pull.startCount + attempts obs ∧
      (attempts obs > 0 → s.pull.retryNum ≥ 0 → (s'.pull.startCount : Int) ≤ s.pull.retryNum + 1) := by
    intro s' obs h1 h2 h3
    rw [attempts_zero h3]
    exact ⟨h1, by omega, by omega⟩
  have viaPull : ∀ (s0 : State) (now : Int), s0.pull.retryNum = s.pull.retryNum → s0.pull.startCount = s.pull.startCount →
      (pullIfNeeded s0 now).1.pull.retryNum = s.pull.retryNum ∧
      (pullIfNeeded s0 now).1.pull.startCount = s.pull.startCount + attempts (pullIfNeeded s0 now).2.2 ∧
      (attempts (pullIfNeeded s0 now).2.2 > 0 → s.pull.retryNum ≥ 0 → ((pullIfNeeded s0 now).1.pull.startCount : Int) ≤ s.pull.retryNum + 1) := by
    intro s0 now h1 h2
    obtain ⟨a, b, c⟩ := pullIfNeeded_count s0 now
    rw [h1] at a c
    rw [h2] at b c
    refine ⟨a, b, ?_⟩
    intro hp hr
    have := c hp hr
    have hle : attempts (pullIfNeeded s0 now).2.2 ≤ 1 := by
      rw [pullIfNeeded_obs]; split <;> simp [attempts, isStartPull]
    omega
  cases e with
  | subJoin now => exact viaPull { s with subs := s.subs + 1 } now rfl rfl
  | subLeave => exact fin _ _ rfl rfl (by simp [step])
  | tick now =>
    simp only [step] at hno ⊢
    rw [startPushIfNeeded_pull, attempts_append, attempts_zero (startPushIfNeeded_obs _), Nat.add_zero]
    exact tickPull_count s now (fun o ho => hno o (List.mem_append_left _ ho))
  | apiStart r a now =>
    simp only [step, apiStartPull]
    rw [attempts_append, attempts_zero (l := [Obs.apiStart _]) (by intro o ho; simp at ho; subst ho; rfl), Nat.add_zero]
    exact viaPull _ now hk rfl
  | apiStop =>
    have := hno .stopCalled (by simp only [step, apiStopPull]; exact List.mem_append_left _ (stopPull_stopCalled _))
    simp [isStop] at this
  | kick id =>
    simp only [step, kickPull] at hno ⊢
    split
    · rename_i hc
      simp only [hc, if_true] at hno
      have := hno .stopCalled (List.mem_append_left _ (stopPull_stopCalled _))
      simp [isStop] at this
    · exact fin _ _ rfl rfl (by simp [isStartPull])
  | pullAttach id =>
    simp only [step, pullAttach]
    split
    · split
      · exact fin _ _ rfl rfl (by simp [isStartPull])
      · split
        · exact fin _ _ rfl rfl (by simp [isStartPull])
        · refine fin _ _ (by rw [startPushIfNeeded_pull]) (by rw [startPushIfNeeded_pull]) ?_
          intro o ho
          simp only [List.mem_cons] at ho
          rcases ho with rfl | ho
          · rfl
          · exact startPushIfNeeded_obs _ o ho
    · exact fin _ _ rfl rfl (by simp)
  | pullDone id =>
    simp only [step, pullDone]
    split
    · split
      · refine fin _ _ (by rw [delIn_pull]) (by rw [delIn_pull]) ?_
        intro o ho
        simp only [List.mem_cons] at ho
        rcases ho with rfl | ho
        · rfl
        · exact delIn_obs _ o ho
      · exact fin _ _ rfl rfl (by simp [isStartPull])
    · exact fin _ _ rfl rfl (by simp)
  | pubArrive p =>
    simp only [step, pubArrive]
    split
    · exact fin _ _ rfl rfl (by simp [isStartPull])
    · refine fin _ _ (by rw [startPushIfNeeded_pull]) (by rw [startPushIfNeeded_pull]) ?_
      intro o ho
      simp only [List.mem_cons] at ho
      rcases ho with rfl | ho
      · rfl
      · exact startPushIfNeeded_obs _ o ho
  | pubLeave =>
    simp only [step]
    split
    · exact fin _ _ (by rw [delIn_pull]) (by rw [delIn_pull]) (delIn_obs _)
    · exact fin _ _ rfl rfl (by simp)
  | pushAttach t id =>
    simp only [step, pushAttach]
    split
    · split <;> exact fin _ _ rfl rfl (by simp [isStartPull])
    · exact fin _ _ rfl rfl (by simp)
  | pushDone t id =>
    simp only [step, pushDone]
    split
    · exact fin _ _ rfl rfl (by simp [isStartPull])
    · exact fin _ _ rfl rfl (by simp)

theorem run_count (n : Int) (es : List Event) : ∀ (s : State), s.pull.retryNum = n → (∀ e ∈ es, keepsBudget n e) →
    (∀ o ∈ (run s es).2, isStop o = false) →
    (run s es).1.pull.retryNum = n ∧ (run s es).1.pull.startCount = s.pull.startCount + attempts (run s es).2 ∧
    (0 ≤ n → attempts (run s es).2 > 0 → ((run s es).1.pull.startCount : Int) ≤ n + 1) := by
  induction es with
  | nil => intro s hn _ _; simp [run, attempts, hn]
  | cons e es ih =>
    intro s hn hk hno
    simp only [run] at hno ⊢
    have hno1 : ∀ o ∈ (step s e).2, isStop o = false := fun o ho => hno o (List.mem_append_left _ ho)
    have hno2 : ∀ o ∈ (run (step s e).1 es).2, isStop o = false := fun o ho => hno o (List.mem_append_right _ ho)
    obtain ⟨a1, b1, c1⟩ := step_count s e hno1 (by rw [hn]; exact hk e (List.mem_cons_self ..))
    obtain ⟨a2, b2, c2⟩ := ih (step s e).1 (by rw [a1, hn]) (fun e' he' => hk e' (List.mem_cons_of_mem _ he')) hno2
    refine ⟨a2, ?_, ?_⟩
    · rw [b2, b1, attempts_append]; omega
    · intro h0 hp
      rw [attempts_append] at hp
      by_cases h2 : attempts (run (step s e).1 es).2 > 0
      · exact c2 h0 h2
      · have h2' : attempts (run (step s e).1 es).2 = 0 := by omega
        rw [b2, h2', Nat.add_zero]
        rw [hn] at c1
        exact c1 (by omega) h0

/-! ### budget −1: attempts are unbounded -/

/-- enabled, idle, forever budget, a consumer present -/
structure Ready (s : State) : Prop where
  en : (s.pull.staticEnable || s.pull.apiEnable) = true
  pub : s.pub = none
  att : s.pull.attached = none
  idle : s.pull.pulling = false
  live : s.pullLive = []
  forever : s.pull.retryNum < 0
  consumer : s.subs > 0

/-- `k` times: a tick (which starts an attempt) and the failure of that attempt -/
def cycles : Nat → Nat → List Event
  | 0, _ => []
  | k+1, id => .tick 0 :: .pullDone id :: cycles k (id + 1)

theorem ready_cycle (s : State) (h : Ready s) :
    ∃ s1 s2, step s (.tick 0) = (s1, [.startPull s.nextId]) ∧ step s1 (.pullDone s.nextId) = (s2, [.pullEnded s.nextId]) ∧
      Ready s2 ∧ s2.nextId = s.nextId + 1 := by
  obtain ⟨en, pub, att, idle, live, forever, consumer⟩ := h
  have hsub : s.hasSub = true := by simp [State.hasSub, consumer]
  have hen : (!s.pull.staticEnable && !s.pull.apiEnable) = false := by
    cases h1 : s.pull.staticEnable <;> cases h2 : s.pull.apiEnable <;> simp_all
  have hauto : ∀ (s' : State) (now : Int), s'.hasOut = true → shouldAutoStop s' now = false := by
    intro s' now ho; unfold shouldAutoStop; simp [ho]
  -- the state after the refresh of tickPullModule
  let sa : State := { s with pull := { s.pull with lastHasOut := 0 } }
  have hoa : sa.hasOut = true := by show (s.hasSub || s.hasPush) = true; simp [hsub]
  have hia : sa.hasIn = false := by show (s.pub.isSome || s.pull.attached.isSome) = false; simp [pub, att]
  have hstart : shouldStartPull sa 0 = .ok () := by
    unfold shouldStartPull
    simp only [hia, hauto sa 0 hoa, Bool.false_eq_true, if_false]
    have : sa.pull.pulling = false := idle
    have e1 : sa.pull.staticEnable = s.pull.staticEnable := rfl
    have e2 : sa.pull.apiEnable = s.pull.apiEnable := rfl
    have e3 : sa.pull.retryNum = s.pull.retryNum := rfl
    simp only [this, e1, e2, e3, hen, Bool.false_eq_true, if_false]
    split
    · omega
    · rfl
  let sb : State := { sa with pull := { sa.pull with pulling := true, startCount := sa.pull.startCount + 1, pullingId := some sa.nextId },
                              nextId := sa.nextId + 1,
                              pullLive := sa.pullLive ++ [sa.nextId] }
  have hpin : pullIfNeeded sa 0 = (sb, .ok sa.nextId, [.startPull sa.nextId]) := by
    unfold pullIfNeeded
    simp only [hoa, if_true]
    have : ({ sa with pull := { sa.pull with lastHasOut := 0 } } : State) = sa := rfl
    rw [this, hstart]
  have htick : tickPull s 0 = ((pullIfNeeded sa 0).1, (pullIfNeeded sa 0).2.2) := by
    unfold tickPull
    simp only [hsub, if_true]
    have hf : shouldAutoStop sa 0 = false := hauto sa 0 hoa
    show (if shouldAutoStop sa 0 = true then _ else _) = _
    rw [hf]
    rfl
  let sc0 : State := { sb with pullLive := sb.pullLive.erase sa.nextId, pullStops := sb.pullStops + 1 }
  let sc : State := { sc0 with pull := { sc0.pull with pulling := false } }
  refine ⟨sb, sc, ?_, ?_, ?_, ?_⟩
  · simp only [step, htick, hpin]
    have : ∀ (x : State), x.pub = none → startPushIfNeeded x = (x, []) := by
      intro x hx
      unfold startPushIfNeeded State.pushSource
      split
      · rfl
      · simp [hx]
    rw [this sb pub]
    rfl
  · simp only [step, pullDone]
    have hmem : s.nextId ∈ sb.pullLive := by
      show s.nextId ∈ s.pullLive ++ [s.nextId]
      simp
    have hatt : ¬ ({ sb with pullLive := sb.pullLive.erase s.nextId, pullStops := sb.pullStops + 1 } : State).pull.attached = some s.nextId := by
      show ¬ s.pull.attached = some s.nextId
      simp [att]
    simp only [hmem, if_true, hatt, if_false]
    rfl
  · refine ⟨en, pub, att, rfl, ?_, forever, consumer⟩
    show (s.pullLive ++ [s.nextId]).erase s.nextId = []
    simp [live]
  · rfl

theorem run_cycles (k : Nat) : ∀ (s : State), Ready s →
    attempts (run s (cycles k s.nextId)).2 = k ∧ (∀ o ∈ (run s (cycles k s.nextId)).2, isStop o = false) := by
  induction k with
  | zero => intro s _; simp [cycles, run, attempts]
  | succ k ih =>
    intro s h
    obtain ⟨s1, s2, e1, e2, r2, n2⟩ := ready_cycle s h
    obtain ⟨a, b⟩ := ih s2 r2
    rw [n2] at a b
    simp only [cycles, run, e1, e2]
    constructor
    · simp only [attempts_append, a]
      simp [attempts, isStartPull]; omega
    · intro o ho
      simp only [List.mem_append, List.mem_cons, List.mem_nil_iff, or_false] at ho
      rcases ho with rfl | rfl | ho
      · rfl
      · rfl
      · exact b o ho

/-! ### auto stop -/

theorem hasSub_false_of_hasOut {s : State} (h : s.hasOut = false) : s.hasSub = false := by
  unfold State.hasOut at h
  cases hs : s.hasSub <;> simp_all

theorem tick_auto_stop (s : State) (now : Int) (hl : s.pull.lastHasOut ≠ -1)
    (hg : RelaySpec.consumerGoneForWindow (view s) now) :
    .stopCalled ∈ (step s (.tick now)).2 ∧ (step s (.tick now)).1.pull.startCount = 0 ∧
    (∀ id, s.pull.attached = some id → .disposePull id ∈ (step s (.tick now)).2) ∧
    (∀ id, s.pull.attached = none → s.connecting = true → s.pull.pullingId = some id →
        .cancelPull id ∈ (step s (.tick now)).2 ∧ (step s (.tick now)).1.pull.pullingId = none) := by
  have ha := (shouldAutoStop_iff s now hl).mpr hg
  have hsub : s.hasSub = false := hasSub_false_of_hasOut hg.2.1
  have htp : tickPull s now = ((stopPull s).1, (stopPull s).2.2) := by
    unfold tickPull
    simp only [hsub, Bool.false_eq_true, if_false, ha, if_true]
  simp only [step, htp, startPushIfNeeded_pull]
  refine ⟨List.mem_append_left _ (stopPull_stopCalled s), stopPull_count s, ?_, ?_⟩
  · intro id hatt
    apply List.mem_append_left
    rw [stopPull_attached s id hatt]; simp
  · intro id hatt hc hp
    rw [stopPull_connecting s id hatt hc hp]
    exact ⟨List.mem_append_left _ (by simp), rfl⟩

theorem tick_stop_only_if (s : State) (now : Int) (hl : s.pull.lastHasOut ≠ -1)
    (h : .stopCalled ∈ (step s (.tick now)).2) :
    RelaySpec.consumerGoneForWindow
      (view (if s.hasSub then { s with pull := { s.pull with lastHasOut := now } } else s)) now := by
  simp only [step, List.mem_append] at h
  rcases h with h | h
  · unfold tickPull at h
    simp only at h
    generalize hs1 : (if s.hasSub then { s with pull := { s.pull with lastHasOut := now } } else s : State) = s1 at h ⊢
    have h1 : s1.hasOut = true ∨ s1.pull.lastHasOut ≠ -1 := by
      subst hs1
      by_cases hs : s.hasSub = true
      · left; simp only [hs, if_true]; show (s.hasSub || s.hasPush) = true; simp [hs]
      · right; simp only [hs, if_false, Bool.false_eq_true]; exact hl
    by_cases ha : shouldAutoStop s1 now = true
    · rcases h1 with h1 | h1
      · unfold shouldAutoStop at ha
        simp [h1] at ha
      · exact (shouldAutoStop_iff s1 now h1).mp ha
    · simp only [ha, if_false, Bool.false_eq_true] at h
      rw [pullIfNeeded_obs] at h
      split at h <;> simp at h
  · have := startPushIfNeeded_obs _ _ h
    have hh : ∀ o ∈ (startPushIfNeeded (tickPull s now).1).2, o ≠ .stopCalled := by
      intro o ho
      unfold startPushIfNeeded at ho
      split at ho
      · simp at ho
      · split at ho
        · simp at ho
        · rename_i q _
          have key : ∀ (ps : List Push) (i n : Nat), ∀ o ∈ (startPushLoop q i n ps).2.2, o ≠ .stopCalled := by
            intro ps
            induction ps with
            | nil => intro i n o ho; simp [startPushLoop] at ho
            | cons p ps ih =>
              intro i n o ho
              unfold startPushLoop at ho
              split at ho
              · exact ih _ _ o ho
              · simp only [List.mem_cons] at ho
                rcases ho with rfl | ho
                · simp
                · exact ih _ _ o ho
          exact key _ _ _ o ho
    exact absurd rfl (hh _ h)

/-! ### API answers -/

theorem pullIfNeeded_result (s : State) (now : Int) :
    (∀ id, (pullIfNeeded s now).2.1 = .ok id ↔ .startPull id ∈ (pullIfNeeded s now).2.2) ∧
    (∀ e, (pullIfNeeded s now).2.1 = .error e → (pullIfNeeded s now).2.2 = [] ∧ shouldStartPull (refreshOut s now) now = .error e) := by
  unfold pullIfNeeded refreshOut
  simp only
  generalize (if s.hasOut then { s with pull := { s.pull with lastHasOut := now } } else s : State) = s1
  cases hsp : shouldStartPull s1 now with
  | error e => simp
  | ok u => simp [eq_comm]

/-- why `shouldStartPull` answers an error -/
theorem shouldStartPull_error (s : State) (now : Int) (e : StartErr) (h : shouldStartPull s now = .error e) :
    match e with
    | .dupIn => s.hasIn = true
    | .pulling => s.hasIn = false ∧ s.pull.pulling = true
    | .notEnable => s.pull.staticEnable = false ∧ s.pull.apiEnable = false
    | .autoStop => shouldAutoStop s now = true
    | .retryLimited => s.pull.retryNum ≥ 0 ∧ (s.pull.startCount : Int) > s.pull.retryNum := by
  unfold shouldStartPull at h
  repeat' split at h
  all_goals (simp at h; try subst h)
  all_goals simp_all

theorem apiStart_truth (s : State) (r a now : Int) :
    ∃ res, (step s (.apiStart r a now)).2 = (step s (.apiStart r a now)).2.dropLast ++ [.apiStart res] ∧
      (∀ id, res = .ok id ↔ .startPull id ∈ (step s (.apiStart r a now)).2) ∧
      (∀ e, res = .error e → attempts (step s (.apiStart r a now)).2 = 0) ∧
      (ctrlStartCode res = .succ ↔ attempts (step s (.apiStart r a now)).2 = 1) := by
  simp only [step, apiStartPull]
  generalize ({ s with pull := { s.pull with apiEnable := true, retryNum := r, autoStopMs := a } } : State) = s1
  obtain ⟨h1, h2⟩ := pullIfNeeded_result s1 now
  refine ⟨(pullIfNeeded s1 now).2.1, by simp, ?_, ?_, ?_⟩
  · intro id
    rw [h1 id]
    simp
  · intro e he
    rw [attempts_append, (h2 e he).1]
    simp [attempts, isStartPull]
  · rw [attempts_append]
    cases hres : (pullIfNeeded s1 now).2.1 with
    | error e => simp [ctrlStartCode, (h2 e hres).1, attempts, isStartPull]
    | ok id =>
      have := (h1 id).mp hres
      rw [pullIfNeeded_obs] at this ⊢
      split at this
      · rename_i hc; simp [hc, ctrlStartCode, attempts, isStartPull]
      · simp at this

theorem apiStop_truth (s : State) :
    (∀ id, s.pull.attached = some id → (step s .apiStop).2 = [.stopCalled, .disposePull id, .apiStop (some id)]) ∧
    (∀ id, s.pull.attached = none → s.connecting = true → s.pull.pullingId = some id →
        (step s .apiStop).2 = [.stopCalled, .cancelPull id, .apiStop (some id)]) ∧
    (s.pull.attached = none → s.connecting = false → (step s .apiStop).2 = [.stopCalled, .apiStop none]) ∧
    (step s .apiStop).1.pull.apiEnable = false ∧ (step s .apiStop).1.pull.startCount = 0 ∧ (step s .apiStop).1.connecting = false := by
  simp only [step, apiStopPull]
  generalize hs1 : ({ s with pull := { s.pull with apiEnable := false } } : State) = s1
  have e1 : s1.pull.attached = s.pull.attached := by subst hs1; rfl
  have e2 : s1.connecting = s.connecting := by subst hs1; rfl
  have e3 : s1.pull.pullingId = s.pull.pullingId := by subst hs1; rfl
  have e4 : s1.pull.apiEnable = false := by subst hs1; rfl
  refine ⟨?_, ?_, ?_, ?_, stopPull_count s1, ?_⟩
  · intro id h; rw [stopPull_attached s1 id (e1 ▸ h)]; rfl
  · intro id h hc hp; rw [stopPull_connecting s1 id (e1 ▸ h) (e2 ▸ hc) (e3 ▸ hp)]; rfl
  · intro h hc; rw [stopPull_idle s1 (e1 ▸ h) (e2 ▸ hc)]; rfl
  · unfold stopPull; split
    · exact e4
    · split <;> exact e4
  · unfold stopPull; split
    · rename_i id h; simp [State.connecting, State.hasPull, h]
    · split
      · simp [State.connecting]
      · rename_i hc; simp only [Bool.not_eq_true] at hc; exact hc

/-! ### a stopped attempt never attaches -/

/-- no attempt can attach: nothing is attached and no connecting attempt is still wanted -/
def NoAttach (s : State) : Prop := s.pull.attached = none ∧ (s.pull.pulling = false ∨ s.pull.pullingId = none)

theorem stopPull_noAttach (s : State) (h : s.pull.attached = none) : NoAttach (stopPull s).1 := by
  unfold stopPull
  simp only [h]
  split
  · exact ⟨rfl, Or.inr rfl⟩
  · rename_i hc
    refine ⟨rfl, ?_⟩
    show s.pull.pulling = false ∨ s.pull.pullingId = none
    simp only [State.connecting, State.hasPull, h, Option.isSome_none, Bool.not_false, Bool.and_true, Bool.and_eq_true,
      Option.isSome_iff_ne_none, ne_eq, not_and, Bool.not_eq_true, Decidable.not_not] at hc
    cases hp : s.pull.pulling
    · exact Or.inl rfl
    · exact Or.inr (hc hp)

theorem pullIfNeeded_noAttach (s : State) (now : Int) (h : NoAttach s) (hno : (pullIfNeeded s now).2.2 = []) :
    NoAttach (pullIfNeeded s now).1 := by
  unfold pullIfNeeded at hno ⊢
  simp only at hno ⊢
  generalize hs1 : (if s.hasOut then { s with pull := { s.pull with lastHasOut := now } } else s : State) = s1 at hno ⊢
  have h1 : NoAttach s1 := by subst hs1; split <;> exact h
  cases hsp : shouldStartPull s1 now with
  | error e => simpa using h1
  | ok u => simp [hsp] at hno

theorem step_noAttach (s : State) (e : Event) (h : NoAttach s) (hno : attempts (step s e).2 = 0) : NoAttach (step s e).1 := by
  have nil_of : ∀ (s0 : State) (now : Int), attempts (pullIfNeeded s0 now).2.2 = 0 → (pullIfNeeded s0 now).2.2 = [] := by
    intro s0 now h0
    rw [pullIfNeeded_obs] at h0 ⊢
    split at h0
    · simp [attempts, isStartPull] at h0
    · rename_i hc; simp [hc]
  cases e with
  | subJoin now => exact pullIfNeeded_noAttach _ now h (nil_of _ _ hno)
  | subLeave => exact h
  | tick now =>
    simp only [step, attempts_append] at hno ⊢
    unfold NoAttach
    rw [startPushIfNeeded_pull]
    unfold tickPull at hno ⊢
    simp only at hno ⊢
    generalize hs1 : (if s.hasSub then { s with pull := { s.pull with lastHasOut := now } } else s : State) = s1 at hno ⊢
    have h1 : NoAttach s1 := by subst hs1; split <;> exact h
    by_cases ha : shouldAutoStop s1 now = true
    · simp only [ha, if_true]; exact stopPull_noAttach s1 h1.1
    · simp only [ha, if_false, Bool.false_eq_true] at hno ⊢
      exact pullIfNeeded_noAttach s1 now h1 (nil_of _ _ (by omega))
  | apiStart r a now =>
    simp only [step, apiStartPull, attempts_append] at hno ⊢
    exact pullIfNeeded_noAttach _ now h (nil_of _ _ (by omega))
  | apiStop => simp only [step, apiStopPull]; exact stopPull_noAttach _ h.1
  | kick id =>
    simp only [step, kickPull]
    split
    · exact stopPull_noAttach _ h.1
    · exact h
  | pullAttach id =>
    simp only [step, pullAttach]
    split
    · split
      · exact h
      · split
        · exact h
        · rename_i hc
          exfalso
          simp only [Bool.not_eq_true', Bool.not_eq_false, Bool.and_eq_true, beq_iff_eq] at hc
          rcases h.2 with hp | hp
          · rw [hp] at hc; exact absurd hc.1 (by simp)
          · rw [hp] at hc; exact absurd hc.2 (by simp)
    · exact h
  | pullDone id =>
    simp only [step, pullDone]
    split
    · split
      · unfold NoAttach; rw [delIn_pull]; exact ⟨rfl, Or.inl rfl⟩
      · exact ⟨h.1, Or.inl rfl⟩
    · exact h
  | pubArrive p =>
    simp only [step, pubArrive]
    split
    · exact h
    · unfold NoAttach; rw [startPushIfNeeded_pull]; exact h
  | pubLeave =>
    simp only [step]
    split
    · unfold NoAttach; rw [delIn_pull]; exact h
    · exact h
  | pushAttach t id =>
    simp only [step, pushAttach]
    split
    · split <;> exact h
    · exact h
  | pushDone t id =>
    simp only [step, pushDone]
    split <;> exact h

theorem run_noAttach (es : List Event) : ∀ (s : State), NoAttach s → attempts (run s es).2 = 0 → NoAttach (run s es).1 := by
  induction es with
  | nil => intro s h _; exact h
  | cons e es ih =>
    intro s h hno
    simp only [run, attempts_append] at hno ⊢
    exact ih _ (step_noAttach s e h (by omega)) (by omega)

theorem stopPull_after (s : State) : (stopPull s).1.pull.apiEnable = s.pull.apiEnable ∧ (stopPull s).1.connecting = false := by
  unfold stopPull; split
  · rename_i id h; exact ⟨rfl, by simp [State.connecting, State.hasPull, h]⟩
  · split
    · exact ⟨rfl, by simp [State.connecting]⟩
    · rename_i hc; simp only [Bool.not_eq_true] at hc; exact ⟨rfl, hc⟩

theorem kick_truth (s : State) (id : Nat) :
    (Obs.kick true ∈ (step s (.kick id)).2 ↔ (s.pull.attached = some id ∨ (s.connecting = true ∧ s.pull.pullingId = some id))) ∧
    (Obs.kick true ∈ (step s (.kick id)).2 →
        (step s (.kick id)).1.pull.apiEnable = false ∧ (step s (.kick id)).1.pull.startCount = 0 ∧
        (step s (.kick id)).1.connecting = false ∧ (s.pull.attached = some id → Obs.disposePull id ∈ (step s (.kick id)).2)) ∧
    (Obs.kick false ∈ (step s (.kick id)).2 → (step s (.kick id)).1 = s) := by
  simp only [step, kickPull]
  by_cases hc : s.pull.attached = some id ∨ (s.connecting = true ∧ s.pull.pullingId = some id)
  · simp only [hc, if_true]
    refine ⟨⟨fun _ => trivial, fun _ => by simp⟩, ?_, ?_⟩
    · intro _
      have h2 := stopPull_after { s with pull := { s.pull with apiEnable := false } }
      refine ⟨h2.1, stopPull_count _, h2.2, ?_⟩
      intro hatt
      rw [stopPull_attached _ id (by exact hatt)]
      simp
    · intro h
      exfalso
      simp only [List.mem_append, List.mem_cons, List.mem_nil_iff, or_false] at h
      rcases h with h | h
      · have := stopPull_obs _ _ h
        unfold stopPull at h
        split at h
        · simp at h
        · split at h
          · cases hp : s.pull.pullingId <;> simp [hp] at h
          · simp at h
      · simp at h
  · simp only [hc, if_false]
    simp
