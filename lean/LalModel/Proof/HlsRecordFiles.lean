import LalModel.Proof.HlsDirLaw
/- In the modes that keep a record playlist no segment file is ever removed or overwritten: every segment closed
   since the directory was wiped is still present and closed. -/
namespace Lal.HlsC
open Lal Lal.Hls Lal.Fs

variable {c : Cfg}

/-- every logged segment is present, closed, and numbered below `n` -/
def LogFiles (d : Dir) (log : List (Nat × Nat)) (n : Nat) : Prop :=
  ∀ p ∈ log, p.2 < n ∧ ∃ chunks, d (.seg p.1 p.2) = some { content := .data chunks, isOpen := false }

/-- the open fragment's file exists and is a segment -/
def CurFile (m : Mux) (d : Dir) : Prop :=
  m.opened = true → ∃ chunks b, d m.cur = some { content := .data chunks, isOpen := b }

theorem logFiles_frame {d d' : Dir} {log : List (Nat × Nat)} {n n' : Nat} (h : LogFiles d log n) (hn : n ≤ n')
    (hd : ∀ now id, id < n → d' (.seg now id) = d (.seg now id)) : LogFiles d' log n' := by
  intro p hp
  obtain ⟨h1, chunks, h2⟩ := h p hp
  exact ⟨by omega, chunks, by rw [hd p.1 p.2 h1]; exact h2⟩

theorem applyAll_noSeg : ∀ (ops : List FOp) (d : Dir), (∀ op ∈ ops, NoSegNoLive op) →
    ∀ now id, applyAll under d ops (.seg now id) = d (.seg now id)
  | [], _, _, _, _ => rfl
  | op :: ops, d, h, now, id => by
    rw [applyAll_cons, applyAll_noSeg ops _ (fun op' h' => h op' (List.mem_cons_of_mem _ h'))]
    exact (h op List.mem_cons_self d).2 now id

theorem closedLog_noClose : ∀ (ops : List FOp) (log : List (Nat × Nat)),
    (∀ op ∈ ops, ∀ l, logStep l op = l) → closedLog log ops = log
  | [], _, _ => rfl
  | op :: ops, log, h => by
    rw [closedLog_cons, h op List.mem_cons_self]
    exact closedLog_noClose ops log (fun op' h' => h op' (List.mem_cons_of_mem _ h'))

theorem writeRecord_noClose (m : Mux) (old : Option HFile) : ∀ op ∈ (writeRecord c m old).2, ∀ l, logStep l op = l := by
  intro op hop l
  have hq : quietB op = true := List.all_eq_true.mp (by
    unfold writeRecord
    cases old with
    | none => rfl
    | some f => obtain ⟨ct, b⟩ := f; cases ct <;> rfl) op hop
  have hns : NoSegNoLive op := by
    obtain ⟨r, ops, hw, hns⟩ := writeRecord_spec (c := c) m old
    rw [hw] at hop; exact hns op hop
  cases op with
  | close p =>
    -- a `close` of a segment would change the segment's `isOpen`: not one of writeRecord's operations
    exfalso
    unfold writeRecord at hop
    cases old with
    | none => simp [writeM3u8] at hop
    | some f => obtain ⟨ct, b⟩ := f; cases ct <;> simp [writeM3u8] at hop
  | removeAll p =>
    exfalso
    unfold writeRecord at hop
    cases old with
    | none => simp [writeM3u8] at hop
    | some f => obtain ⟨ct, b⟩ := f; cases ct <;> simp [writeM3u8] at hop
  | _ => rfl

/-- `closeFragment` in the modes that keep a record playlist: the closed fragment joins the log, nothing else moves -/
theorem files_close (h01 : c.cleanup = Gen.c10CleanupNever ∨ c.cleanup = Gen.c10CleanupInTheEnd)
    (l : Bool) (m : Mux) (d : Dir) (log : List (Nat × Nat)) (hm : RecM c m) (hc : CurFile m d) (hl : LogFiles d log (cid m)) :
    LogFiles (applyAll under d (closeFragment c l m d).2) (closedLog log (closeFragment c l m d).2) (cid (closeFragment c l m d).1) ∧
    cid m ≤ cid (closeFragment c l m d).1 := by
  by_cases ho : m.opened = true
  · obtain ⟨now, hcur, _⟩ := hm.2 ho
    obtain ⟨chunks, b, hfile⟩ := hc ho
    rw [closeFragment_eq l d ho]
    have htail : closeTail c (closedMux c m) (applyAll under d (closeOps1 c m l)) =
        writeRecord c (closedMux c m) (applyAll under d (closeOps1 c m l) .record) := by
      unfold closeTail; simp only [h01, if_true]
    rw [htail]
    have hcid : cid (writeRecord c (closedMux c m) (applyAll under d (closeOps1 c m l) .record)).1 = cid m + 1 := by
      obtain ⟨r, ops, hw, _⟩ := writeRecord_spec (c := c) (closedMux c m) (applyAll under d (closeOps1 c m l) .record)
      rw [hw]; exact closedMux_cid
    rw [hcid]
    refine ⟨?_, by omega⟩
    show LogFiles (applyAll under d (closeOps1 c m l ++ _)) (closedLog log (closeOps1 c m l ++ _)) _
    rw [applyAll_append, closedLog_append]
    have hlog1 : closedLog log (closeOps1 c m l) = log ++ [(now, cid m)] := by
      have h0 : closedLog log (closeOps1 c m l) = logStep (logStep (logStep log (.close m.cur))
          (.writeFile .liveBak (livePlaylist c (closedMux c m) l))) (.rename .liveBak .live) := rfl
      rw [h0, hcur]; rfl
    rw [hlog1, closedLog_noClose _ _ (writeRecord_noClose _ _)]
    -- segment files after close / write .bak / rename
    have hseg1 : ∀ now' id, applyAll under d (closeOps1 c m l) (.seg now' id) =
        Fs.apply under d (.close m.cur) (.seg now' id) := by
      intro now' id
      have e0 : applyAll under d (closeOps1 c m l) = Fs.apply under (Fs.apply under (Fs.apply under d (.close m.cur))
          (.writeFile .liveBak (livePlaylist c (closedMux c m) l))) (.rename .liveBak .live) := rfl
      rw [e0]
      have h2 : Fs.apply under (Fs.apply under d (.close m.cur)) (.writeFile .liveBak (livePlaylist c (closedMux c m) l)) .liveBak
          = some { content := .doc (livePlaylist c (closedMux c m) l), isOpen := false } := set_same _ _ _
      rw [apply_rename_some h2, set_other _ _ (by simp), set_other _ _ (by simp)]
      exact set_other _ _ (by simp)
    have hclose := apply_close_some (d := d) (p := m.cur) hfile
    have hsegAll : ∀ now' id, applyAll under (applyAll under d (closeOps1 c m l))
        (writeRecord c (closedMux c m) (applyAll under d (closeOps1 c m l) .record)).2 (.seg now' id) =
        Fs.set d m.cur (some { content := .data chunks, isOpen := false }) (.seg now' id) := by
      intro now' id
      obtain ⟨r, ops, hw, hns⟩ := writeRecord_spec (c := c) (closedMux c m) (applyAll under d (closeOps1 c m l) .record)
      rw [hw, applyAll_noSeg ops _ hns, hseg1, hclose]
    intro p hp
    rcases List.mem_append.mp hp with h | h
    · obtain ⟨h1, ch, h2⟩ := hl p h
      refine ⟨by omega, ch, ?_⟩
      rw [hsegAll, hcur, set_other _ _ (by simp only [ne_eq, Path.seg.injEq, not_and]; omega)]
      exact h2
    · have : p = (now, cid m) := by simpa using h
      subst this
      refine ⟨by simp, chunks, ?_⟩
      rw [hsegAll, hcur, set_same]
  · have ho' : m.opened = false := by cases hx : m.opened <;> simp_all
    rw [closeFragment_closed l d ho']
    exact ⟨hl, Nat.le_refl _⟩

theorem closeTail_fst (m1 : Mux) (d1 : Dir) : ∃ r, (closeTail c m1 d1).1 = { m1 with recMax := r } := by
  unfold closeTail
  split
  · obtain ⟨r, ops, hw, _⟩ := writeRecord_spec (c := c) m1 (d1 .record)
    exact ⟨r, by rw [hw]⟩
  · split
    · split <;> exact ⟨m1.recMax, rfl⟩
    · exact ⟨m1.recMax, rfl⟩

theorem recM_close (l : Bool) (m : Mux) (d : Dir) (hm : RecM c m) : RecM c (closeFragment c l m d).1 := by
  by_cases ho : m.opened = true
  · rw [closeFragment_eq l d ho]
    obtain ⟨r, hr⟩ := closeTail_fst (c := c) (closedMux c m) (applyAll under d (closeOps1 c m l))
    show RecM c (closeTail c (closedMux c m) _).1
    rw [hr]
    refine ⟨?_, ?_⟩
    · show (closedMux c m).frags.length = _; rw [closedMux_frags]; exact hm.1
    · intro hop
      have : (closedMux c m).opened = true := hop
      rw [closedMux_opened] at this; cases this
  · have ho' : m.opened = false := by cases hx : m.opened <;> simp_all
    rw [closeFragment_closed l d ho']; exact hm

theorem recM_openMux (m : Mux) (now ts : Nat) (dc : Bool) (hm : RecM c m) : RecM c (openMux c m now ts dc) := by
  refine ⟨?_, fun _ => ⟨now, rfl, ?_⟩⟩
  · show (m.frags.set _ _).length = _; rw [List.length_set]; exact hm.1
  · rw [cid_openMux, slot_openMux_self hm.1]

theorem recM_updDur (m : Mux) (fi ts : Nat) (hm : RecM c m) : RecM c (updDur m fi ts) := by
  refine ⟨by rw [(slot_updDur (c := c) m fi ts 0).2]; exact hm.1, ?_⟩
  intro hop
  rw [updDur_opened] at hop
  obtain ⟨now, h1, h2⟩ := hm.2 hop
  exact ⟨now, by rw [updDur_cur, updDur_cid]; exact h1, by rw [updDur_cid, (slot_updDur m fi ts _).1]; exact h2⟩

theorem files_acts (h01 : c.cleanup = Gen.c10CleanupNever ∨ c.cleanup = Gen.c10CleanupInTheEnd) :
    ∀ (as : List Act) (m : Mux) (d : Dir) (log : List (Nat × Nat)) (o : Bool),
    actsOk as m.opened = some o → RecM c m → CurFile m d → LogFiles d log (cid m) →
    RecM c (actsRun c as m d).1 ∧ CurFile (actsRun c as m d).1 (applyAll under d (actsRun c as m d).2) ∧
    LogFiles (applyAll under d (actsRun c as m d).2) (closedLog log (actsRun c as m d).2) (cid (actsRun c as m d).1)
  | [], m, d, log, _, _, hm, hc, hl => ⟨hm, hc, hl⟩
  | .close l :: as, m, d, log, o, hv, hm, hc, hl => by
    simp only [actsRun, actStep]
    obtain ⟨h1, _⟩ := files_close h01 l m d log hm hc hl
    have hv' : actsOk as (closeFragment c l m d).1.opened = some o := by rw [closeFragment_opened]; exact hv
    have hc' : CurFile (closeFragment c l m d).1 (applyAll under d (closeFragment c l m d).2) := by
      intro ho; rw [closeFragment_opened] at ho; cases ho
    have := files_acts h01 as _ _ _ o hv' (recM_close l m d hm) hc' h1
    rw [applyAll_append, closedLog_append]; exact this
  | .opn now ts dc :: as, m, d, log, o, hv, hm, hc, hl => by
    simp only [actsRun, actStep]
    have hmo : m.opened = false := by
      cases hx : m.opened with
      | false => rfl
      | true => simp [actsOk, hx] at hv
    have hv' : actsOk as (openMux c m now ts dc).opened = some o := by
      simp only [actsOk, hmo, Bool.false_eq_true, if_false] at hv; exact hv
    have hc1 : Fs.apply under d (.create (.seg now (fragmentId m))) (.seg now (fragmentId m)) = some { content := .data [], isOpen := true } := set_same _ _ _
    have hd' : applyAll under d (openOps m now) =
        Fs.set (Fs.apply under d (.create (.seg now (fragmentId m)))) (.seg now (fragmentId m))
          (some { content := .data ([] ++ [Chunk.patpmt m.patpmt]), isOpen := true }) := by
      show Fs.apply under (Fs.apply under d (.create _)) (.write _ _) = _
      rw [apply_write_data _ hc1]
    have hcf : CurFile (openMux c m now ts dc) (applyAll under d (openOps m now)) := by
      intro _
      refine ⟨[.patpmt m.patpmt], true, ?_⟩
      show applyAll under d (openOps m now) (.seg now (fragmentId m)) = _
      rw [hd', set_same]; rfl
    have hlf : LogFiles (applyAll under d (openOps m now)) (closedLog log (openOps m now)) (cid (openMux c m now ts dc)) := by
      have hl0 : closedLog log (openOps m now) = log := rfl
      rw [hl0, cid_openMux]
      apply logFiles_frame hl (Nat.le_refl _)
      intro now' id hid
      have hne : Path.seg now' id ≠ Path.seg now (fragmentId m) := by
        simp only [ne_eq, Path.seg.injEq, not_and]; intro _; show id ≠ cid m; omega
      rw [hd', set_other _ _ hne]
      exact set_other _ _ hne
    have := files_acts h01 as _ _ _ o hv' (recM_openMux m now ts dc hm) hcf hlf
    rw [applyAll_append, closedLog_append]; exact this
  | .wr f :: as, m, d, log, o, hv, hm, hc, hl => by
    simp only [actsRun, actStep]
    have hmo : m.opened = true := by
      cases hx : m.opened with
      | true => rfl
      | false => simp [actsOk, hx] at hv
    have hv' : actsOk as m.opened = some o := by simp only [actsOk, hmo, if_true] at hv; rw [hmo]; exact hv
    obtain ⟨now, hcur, _⟩ := hm.2 hmo
    obtain ⟨chunks, b, hfile⟩ := hc hmo
    have hd' : applyAll under d [.write m.cur (.frame f)] =
        Fs.set d m.cur (some { content := .data (chunks ++ [Chunk.frame f]), isOpen := b }) := by
      show Fs.apply under d (.write m.cur (.frame f)) = _
      exact apply_write_data _ hfile
    have hcf : CurFile m (applyAll under d [.write m.cur (.frame f)]) := by
      intro _; exact ⟨_, b, by rw [hd', set_same]⟩
    have hlf : LogFiles (applyAll under d [.write m.cur (.frame f)]) (closedLog log [.write m.cur (.frame f)]) (cid m) := by
      have hl0 : closedLog log [.write m.cur (.frame f)] = log := rfl
      rw [hl0]
      apply logFiles_frame hl (Nat.le_refl _)
      intro now' id hid
      rw [hd', hcur]
      exact set_other _ _ (by simp only [ne_eq, Path.seg.injEq, not_and]; omega)
    have := files_acts h01 as m _ _ o hv' hm hcf hlf
    rw [applyAll_append, closedLog_append]; exact this
  | .dur fi ts :: as, m, d, log, o, hv, hm, hc, hl => by
    simp only [actsRun, actStep]
    have hv' : actsOk as (updDur m fi ts).opened = some o := by rw [updDur_opened]; exact hv
    have hcf : CurFile (updDur m fi ts) (applyAll under d []) := by
      intro ho; rw [updDur_opened] at ho; rw [updDur_cur]; exact hc ho
    have hlf : LogFiles (applyAll under d []) (closedLog log []) (cid (updDur m fi ts)) := by rw [updDur_cid]; exact hl
    exact files_acts h01 as _ (applyAll under d []) (closedLog log []) o hv' (recM_updDur m fi ts hm) hcf hlf

/-- where the next publish will start numbering: the end of the live playlist that is still there, else 0 -/
def liveFin (d : Dir) : Nat :=
  match d .live with
  | some { content := .doc pl, .. } => pl.fin
  | _ => 0

/-- world invariant for the record-keeping modes -/
def FilesW (c : Cfg) (w : World) (log : List (Nat × Nat)) : Prop :=
  match w.mux with
  | none => LogFiles w.dir log (liveFin w.dir)
  | some m => RecM c m ∧ CurFile m w.dir ∧ LogFiles w.dir log (cid m) ∧ (m.opened = false → cid m = liveFin w.dir)

theorem closeFragment_liveFin (l : Bool) (m : Mux) (d : Dir) (ho : m.opened = true) :
    liveFin (applyAll under d (closeFragment c l m d).2) = cid (closeFragment c l m d).1 := by
  rw [closeFragment_eq l d ho]
  obtain ⟨r, hr⟩ := closeTail_fst (c := c) (closedMux c m) (applyAll under d (closeOps1 c m l))
  have hl : applyAll under d (closeOps1 c m l ++ (closeTail c (closedMux c m) (applyAll under d (closeOps1 c m l))).2) .live =
      some { content := .doc (livePlaylist c (closedMux c m) l), isOpen := false } := by
    rw [applyAll_append, closeTail_live, closeOps1_live]
  unfold liveFin
  show (match applyAll under d (closeOps1 c m l ++ _) .live with
    | some { content := .doc pl, .. } => pl.fin
    | _ => 0) = cid (closeTail c (closedMux c m) _).1
  rw [hl, hr]
  exact livePlaylist_fin _ _

theorem files_step (h01 : c.cleanup = Gen.c10CleanupNever ∨ c.cleanup = Gen.c10CleanupInTheEnd)
    (w : World) (log : List (Nat × Nat)) (e : Ev) (h : FilesW c w log) :
    FilesW c (step c w e).1 (closedLog log (step c w e).2) := by
  unfold FilesW at h
  cases e with
  | start =>
    cases hmx : w.mux with
    | some m0 => rw [hmx] at h; simp only [step, hmx]; unfold FilesW; rw [hmx]; exact h
    | none =>
      rw [hmx] at h
      simp only [step, hmx]
      unfold FilesW
      simp only []
      have hcl : closedLog log [Fs.Op.mkdirAll Path.dir, Fs.Op.readFile Path.live] = log := rfl
      rw [hcl]
      cases hl : w.dir .live with
      | none =>
        have hlf : liveFin w.dir = 0 := by unfold liveFin; rw [hl]
        rw [hlf] at h ⊢
        refine ⟨⟨?_, ?_⟩, ?_, ?_, ?_⟩
        · simp [newMux]
        · intro ho; cases ho
        · intro ho; cases ho
        · exact h
        · intro _; rfl
      | some f0 =>
        obtain ⟨ct, b⟩ := f0
        cases ct with
        | data l0 =>
          have hlf : liveFin w.dir = 0 := by unfold liveFin; rw [hl]
          rw [hlf] at h ⊢
          refine ⟨⟨?_, ?_⟩, ?_, ?_, ?_⟩
          · simp [newMux]
          · intro ho; cases ho
          · intro ho; cases ho
          · exact h
          · intro _; rfl
        | doc pl =>
          have hlf : liveFin w.dir = pl.fin := by unfold liveFin; rw [hl]
          rw [hlf] at h ⊢
          have hcid : cid { newMux c with frag := pl.mediaSeq + pl.entries.length } = pl.fin := by
            simp [cid, newMux, Playlist.fin]
          refine ⟨⟨?_, ?_⟩, ?_, ?_, ?_⟩
          · simp [newMux]
          · intro ho; cases ho
          · intro ho; cases ho
          · show LogFiles w.dir log (cid { newMux c with frag := pl.mediaSeq + pl.entries.length })
            rw [hcid]; exact h
          · intro _; exact hcid
  | patpmt b =>
    cases hmx : w.mux with
    | some m0 => rw [hmx] at h; simp only [step, hmx]; unfold FilesW; exact h
    | none => rw [hmx] at h; simp only [step, hmx]; unfold FilesW; rw [hmx]; exact h
  | pend a => simp only [step]; unfold FilesW; exact h
  | feed f now =>
    cases hmx : w.mux with
    | none => rw [hmx] at h; simp only [step, hmx]; unfold FilesW; rw [hmx]; exact h
    | some m0 =>
      rw [hmx] at h
      obtain ⟨hm, hc, hl, hcl⟩ := h
      simp only [step, hmx]
      unfold FilesW
      simp only []
      obtain ⟨as, h1, h2, h3, _, _⟩ := feed_acts (c := c) now f m0 w.dir w.pending
      obtain ⟨g1, g2, g3⟩ := files_acts h01 as m0 w.dir log _ h3 hm hc hl
      rw [h1, h2]
      refine ⟨g1, g2, g3, ?_⟩
      intro hop
      have hop' := actsRun_opened (c := c) as m0 w.dir _ h3
      rw [hop] at hop'
      have hmo : m0.opened = false := by
        cases hx : m0.opened with
        | false => rfl
        | true => rw [hx] at hop'; simp at hop'
      have hfb : f.boundary = false := by
        cases hx : f.boundary with
        | false => rfl
        | true => rw [hx] at hop'; simp at hop'
      have hno := feed_noop (c := c) now f m0 w.dir w.pending hmo hfb
      rw [← h1, ← h2, hno]
      exact hcl hmo
  | dispose =>
    cases hmx : w.mux with
    | none => rw [hmx] at h; simp only [step, hmx]; unfold FilesW; rw [hmx]; exact h
    | some m0 =>
      rw [hmx] at h
      obtain ⟨hm, hc, hl, hcl⟩ := h
      simp only [step, hmx]
      unfold FilesW
      simp only []
      obtain ⟨g1, _⟩ := files_close h01 true m0 w.dir log hm hc hl
      by_cases ho : m0.opened = true
      · rw [closeFragment_liveFin true m0 w.dir ho]; exact g1
      · have ho' : m0.opened = false := by cases hx : m0.opened <;> simp_all
        rw [closeFragment_closed true w.dir ho'] at g1 ⊢
        show LogFiles w.dir log (liveFin w.dir)
        rw [← hcl ho']; exact hl
  | cleanup =>
    simp only [step]
    split
    · cases hmx : w.mux with
      | some m0 => rw [hmx] at h; simp only []; unfold FilesW; rw [hmx]; exact h
      | none =>
        simp only []
        unfold FilesW
        simp only []
        intro p hp
        have : closedLog log [Fs.Op.removeAll Path.dir] = [] := rfl
        rw [this] at hp; cases hp
    · unfold FilesW; exact h

theorem files_run (h01 : c.cleanup = Gen.c10CleanupNever ∨ c.cleanup = Gen.c10CleanupInTheEnd) :
    ∀ (evs : List Ev) (w : World) (log : List (Nat × Nat)), FilesW c w log →
    FilesW c (runWorld c w evs) (closedLog log (run c w evs).flatten)
  | [], _, _, h => h
  | e :: es, w, log, h => by
    have h1 := files_step h01 w log e h
    have ih := files_run h01 es _ _ h1
    show FilesW c (runWorld c (step c w e).1 es) (closedLog log ((step c w e).2 :: run c (step c w e).1 es).flatten)
    rw [List.flatten_cons, closedLog_append]
    exact ih

end Lal.HlsC
