import LalModel.Proof.AdmissionInv3
/- C03 — preservation of the invariant by the customize / GB28181 / relay-pull / API / tick events. -/
set_option linter.unusedSimpArgs false
namespace Lal.Adm
open Grp Spec

theorem sess_modC_ne (s : Srv) (c : Sid) (f : Cust → Cust) {y : Sid} (h : y ≠ c) : (s.modC c f).sess y = s.sess y := by
  unfold Srv.modC; split <;> simp [h]
theorem modC_eq_setS {s : Srv} {c : Sid} {r : Cust} (h : s.sess c = some (.cust r)) (f : Cust → Cust) :
    s.modC c f = s.setS c (.cust (f r)) := by
  unfold Srv.modC; rw [h]
theorem sess_modP_ne (s : Srv) (c : Sid) (f : Pull → Pull) {y : Sid} (h : y ≠ c) : (s.modP c f).sess y = s.sess y := by
  unfold Srv.modP; split <;> simp [h]
theorem modP_eq_setS {s : Srv} {c : Sid} {r : Pull} (h : s.sess c = some (.pull r)) (f : Pull → Pull) :
    s.modP c f = s.setS c (.pull (f r)) := by
  unfold Srv.modP; rw [h]

/-! ### customize publisher -/

theorem custAdd_eq (s : Srv) (k : Sid) (st : Stream) :
    (custAdd s k st).1 = s ∨
    (s.fresh k = true ∧ ((s.getOrCreate st).addCustPub k).2.1 = true ∧
      (custAdd s k st).1 = (s.setG st ((s.getOrCreate st).addCustPub k).1).setS k (.cust { stream := st })) := by
  unfold custAdd; split
  · exact Or.inl rfl
  · rename_i hf
    dsimp only; split
    · rename_i hacc; exact Or.inr ⟨by simpa using hf, hacc, rfl⟩
    · exact Or.inl rfl

theorem inv_custAdd {s : Srv} (h : Inv s) (k : Sid) (st : Stream) : Inv (custAdd s k st).1 := by
  have hok : OkAll (custAdd s k st).1 := ok_step h.ok (.custAdd k st)
  rcases custAdd_eq s k st with e | ⟨hfr, hacc, e⟩
  · rw [e]; exact h
  · rw [e] at hok ⊢
    have hn : s.sess k = none := by simpa [Srv.fresh] using hfr
    refine h.mk2 hok ?_ k none ?_ (by simp) ?_ ?_ ?_ ?_
    · refine h.ci.add k st .custPub ?_ (claimOf_fresh hfr) ?_ ?_
      · intro y hy; simp [hy]
      · simp [Sess.claim]
      · intro st' sl y
        simp only [holdsAt_setS]
        exact holdsAt_add (s := s) (by funext j; simp) (fun sl y => holds_addCustPub hacc sl y) st' sl y
    · intro y hy _; simp [hy]
    · simp [hn, isRtsp]
    · intro cu hs hd; simp at hs; subst hs; simp at hd
    · intro r st' hs; simp at hs
    · intro r hs; simp at hs

theorem inv_custDel {s : Srv} (h : Inv s) (k : Sid) : Inv (custDel Code.fixed s k).1 := by
  have hok : OkAll (custDel Code.fixed s k).1 := ok_step h.ok (.custDel k)
  unfold custDel at hok ⊢
  split
  · rename_i cu hcu
    simp only [hcu] at hok
    split
    · exact h
    · rename_i hdel
      have hdel' : cu.deleted = false := by simpa using hdel
      simp only [hdel, if_false] at hok
      dsimp only at hok ⊢
      have hclaim : claimOf s k = some (cu.stream, .custPub) := by rw [claimOf_of_sess hcu]; simp [Sess.claim, hdel']
      obtain ⟨g, hg, hgh⟩ := (h.ci k _ _).mp hclaim
      have hg1 : (s.modC k fun x => { x with deleted := true }).groups cu.stream = some g := by simpa using hg
      simp only [hg1] at hok ⊢
      have hcp : g.custPub = some k := hgh
      simp only [Code.fixed, hcp, Bool.true_and, decide_true, if_true] at hok ⊢
      have hs' : ∀ y, (((s.modC k fun x => { x with deleted := true }).setG cu.stream (g.delCustPub k).1).modC k
          fun x => { x with disposed := true }).sess y =
          if y = k then some (.cust { cu with deleted := true, disposed := true }) else s.sess y := by
        intro y
        rw [modC_eq_setS hcu, modC_eq_setS (r := { cu with deleted := true }) (by simp)]
        simp only [Srv.setS_sess, Srv.setG_sess]
        split <;> simp [*]
      refine h.mk2 hok ?_ k none ?_ (by simp) ?_ ?_ ?_ ?_
      · refine h.ci.vanish k ?_ ?_ ?_
        · intro y hy; unfold claimOf; rw [hs']; simp [hy]
        · unfold claimOf; rw [hs']; simp [Sess.claim]
        · intro st sl y
          simp only [holdsAt_modC]
          exact holds_after_remove h.ci hclaim (P := (· = .custPub)) rfl
            (holdsAt_remove (g := g) hg (by funext j; simp) (fun sl y => holds_delCustPub (h.ok _ g hg) k sl y)) st sl y
      · intro y hy _; rw [hs']; simp [hy]
      · rw [hs', hcu]; simp [isRtsp]
      · intro cu' hs hd; rw [hs'] at hs; simp at hs; subst hs; rfl
      · intro r st' hs; rw [hs'] at hs; simp at hs
      · intro r hs; rw [hs'] at hs; simp at hs
  · exact h

/-! ### GB28181 -/

theorem rtpPub_eq (s : Srv) (k : Sid) (st : Stream) :
    (rtpPub Code.fixed s k st).1 = s ∨
    (s.fresh k = true ∧ ((s.getOrCreate st).startRtpPub Code.fixed k).2.1 = true ∧
      (rtpPub Code.fixed s k st).1 = (s.setG st ((s.getOrCreate st).startRtpPub Code.fixed k).1).setS k (.ps { stream := st })) := by
  unfold rtpPub; split
  · exact Or.inl rfl
  · rename_i hf
    dsimp only; split
    · rename_i hacc; exact Or.inr ⟨by simpa using hf, hacc, rfl⟩
    · exact Or.inl rfl

theorem inv_rtpPub {s : Srv} (h : Inv s) (k : Sid) (st : Stream) : Inv (rtpPub Code.fixed s k st).1 := by
  have hok : OkAll (rtpPub Code.fixed s k st).1 := ok_step h.ok (.rtpPub k st)
  rcases rtpPub_eq s k st with e | ⟨hfr, hacc, e⟩
  · rw [e]; exact h
  · rw [e] at hok ⊢
    have hn : s.sess k = none := by simpa [Srv.fresh] using hfr
    refine h.mk2 hok ?_ k none ?_ (by simp) ?_ ?_ ?_ ?_
    · refine h.ci.add k st .psPub ?_ (claimOf_fresh hfr) ?_ ?_
      · intro y hy; simp [hy]
      · simp [Sess.claim]
      · intro st' sl y
        simp only [holdsAt_setS]
        exact holdsAt_add (s := s) (by funext j; simp) (fun sl y => holds_startRtpPub hacc sl y) st' sl y
    · intro y hy _; simp [hy]
    · simp [hn, isRtsp]
    · intro cu hs; simp at hs
    · intro r st' hs; simp at hs
    · intro r hs; simp at hs

theorem inv_psEnd {s : Srv} (h : Inv s) (k : Sid) : Inv (psEnd s k).1 := by
  have hok : OkAll (psEnd s k).1 := ok_step h.ok (.psEnd k)
  unfold psEnd at hok ⊢
  split
  · rename_i p hp
    simp only [hp] at hok
    split
    · exact h
    · rename_i hend
      have hend' : p.ended = false := by simpa using hend
      simp only [hend, if_false] at hok
      dsimp only at hok ⊢
      have hclaim : claimOf s k = some (p.stream, .psPub) := by rw [claimOf_of_sess hp]; simp [Sess.claim, hend']
      obtain ⟨g, hg, hgh⟩ := (h.ci k _ _).mp hclaim
      have hg1 : (s.setS k (.ps { p with ended := true })).groups p.stream = some g := by simpa using hg
      simp only [hg1] at hok ⊢
      refine h.mk2 hok ?_ k none ?_ (by simp) ?_ ?_ ?_ ?_
      · refine h.ci.vanish k ?_ ?_ ?_
        · intro y hy; simp [hy]
        · simp [Sess.claim]
        · intro st sl y
          exact holds_after_remove h.ci hclaim (P := (· = .psPub)) rfl
            (holdsAt_remove (g := g) hg (by funext j; simp) (fun sl y => holds_delPsPub (h.ok _ g hg) k sl y)) st sl y
      · intro y hy _; simp [hy]
      · simp [hp, isRtsp]
      · intro cu hs; simp at hs
      · intro r st' hs; simp at hs
      · intro r hs; simp at hs
  · exact h


/-! ### relay pull, API calls, tick -/

/-- the session table is untouched -/
theorem Inv.sameSess {s s' : Srv} (h : Inv s) (hok : OkAll s') (hci : CI s') (e : s'.sess = s.sess) : Inv s' := by
  refine ⟨hok, hci, ?_, ?_, ?_, ?_⟩
  · rw [e]; exact h.link
  · rw [e]; exact h.cust
  · rw [e]; exact h.obs
  · rw [e]; exact h.flag

/-- like `holds_after_remove`, from the weaker knowledge of where `x` can be registered at all -/
theorem holds_after_remove' {s : Srv} {x : Sid} {k : Stream} {P : Slot → Prop}
    (hx : ∀ st sl, holdsAt s st sl x → st = k ∧ P sl)
    {H : Stream → Slot → Sid → Prop}
    (hh : ∀ st sl y, H st sl y ↔ (holdsAt s st sl y ∧ ¬(st = k ∧ P sl ∧ y = x))) (st : Stream) (sl : Slot) (y : Sid) :
    H st sl y ↔ (holdsAt s st sl y ∧ y ≠ x) := by
  rw [hh]
  by_cases hy : y = x
  · subst hy
    constructor
    · rintro ⟨h1, h2⟩; exact absurd ⟨(hx st sl h1).1, (hx st sl h1).2, rfl⟩ h2
    · rintro ⟨_, h2⟩; exact absurd rfl h2
  · simp [hy]

/-- a new relay-pull attempt (or none) next to a group update that registers nothing -/
theorem Inv.spawnOnly {s : Srv} (h : Inv s) {st : Stream} {g' : Grp} {b : Bool} {n : Option Sid} {nid : Sid}
    (hok : OkAll ((s.setG st g').spawned st b n)) (hfr : s.fresh nid = true) (hn : n = none ∨ n = some nid)
    (hg' : ∀ sl y, g'.holds sl y ↔ (s.getOrCreate st).holds sl y) : Inv ((s.setG st g').spawned st b n) := by
  have hnone : s.sess nid = none := by simpa [Srv.fresh] using hfr
  have hsess : ∀ y, ((s.setG st g').spawned st b n).sess y =
      if some y = n then some (.pull { stream := st, rtsp := b }) else s.sess y := by
    intro y; rw [Srv.sess_spawned]; rfl
  refine h.mk2 hok ?_ nid none ?_ (by simp) ?_ ?_ ?_ ?_
  · refine h.ci.same ?_ ?_
    · funext y; unfold claimOf; rw [hsess]
      split
      · rename_i hy
        have : y = nid := by rcases hn with hn | hn <;> rw [hn] at hy <;> cases hy; rfl
        subst this; simp [hnone, Sess.claim]
      · rfl
    · rw [holdsAt_spawned]; exact holdsAt_keep (s := s) (by funext j; simp) hg'
  · intro y hy _; rw [hsess]
    have : some y ≠ n := by rcases hn with hn | hn <;> rw [hn] <;> simp [hy]
    simp [this]
  · rw [hsess, hnone]; split <;> simp [isRtsp]
  · intro cu hs; rw [hsess] at hs; split at hs
    · cases hs
    · rw [hnone] at hs; cases hs
  · intro r st' hs; rw [hsess] at hs; split at hs
    · cases hs
    · rw [hnone] at hs; cases hs
  · intro r hs; rw [hsess] at hs; split at hs
    · cases hs
    · rw [hnone] at hs; cases hs

theorem inv_startPull {s : Srv} (h : Inv s) (st : Stream) (r : Bool) (retry : Option Nat) (nid : Sid) :
    Inv (startPull s st r retry nid).1 := by
  have hok : OkAll (startPull s st r retry nid).1 := ok_step h.ok (.startPull st r retry nid)
  unfold startPull at hok ⊢
  split
  · exact h
  · rename_i hf
    simp only [hf, if_false] at hok
    refine h.spawnOnly hok (by simpa using hf) ?_ (fun sl y => holds_startPull _ r retry nid sl y)
    unfold Grp.startPull; exact pullIfNeeded_spawn _ nid

theorem inv_stopPull {s : Srv} (h : Inv s) (st : Stream) : Inv (stopPull Code.fixed s st).1 := by
  have hok : OkAll (stopPull Code.fixed s st).1 := ok_step h.ok (.stopPull st)
  unfold stopPull at hok ⊢
  split
  · exact h
  · rename_i g hg
    simp only [hg] at hok
    refine h.sameSess hok (h.ci.same rfl ?_) rfl
    exact holdsAt_keep (s := s) (k := st) (g' := (g.stopPull Code.fixed).1) rfl (fun sl y => by rw [getOrCreate_of_groups hg]; exact holds_stopPull _ g sl y)

theorem inv_kick {s : Srv} (h : Inv s) (st : Stream) (x : Sid) : Inv (kick Code.fixed s st x).1 := by
  have hok : OkAll (kick Code.fixed s st x).1 := ok_step h.ok (.kick st x)
  unfold kick at hok ⊢
  split
  · exact h
  · rename_i g hg
    simp only [hg] at hok
    refine h.sameSess hok (h.ci.same rfl ?_) rfl
    exact holdsAt_keep (s := s) (k := st) (g' := (g.kick Code.fixed (kkind s x) x).1) rfl (fun sl y => by rw [getOrCreate_of_groups hg]; exact holds_kick _ g _ x sl y)

theorem inv_tick {s : Srv} (h : Inv s) (st : Stream) (nid : Sid) : Inv (tick s st nid).1 := by
  have hok : OkAll (tick s st nid).1 := ok_step h.ok (.tick st nid)
  unfold tick at hok ⊢
  split
  · exact h
  · rename_i hf
    simp only [hf, if_false] at hok
    split
    · exact h
    · rename_i g hg
      simp only [hg] at hok
      split
      · rename_i hin
        simp only [hin, if_true] at hok
        refine h.sameSess hok (h.ci.same rfl ?_) rfl
        funext st' sl y
        rw [holdsAt_eraseG]
        apply propext
        constructor
        · exact fun hh => hh.2
        · intro hh
          refine ⟨?_, hh⟩
          rintro rfl
          rw [holdsAt_of_groups hg] at hh
          exact not_holds_of_inactive hin sl y hh
      · rename_i hin
        simp only [hin, if_false] at hok
        refine h.spawnOnly hok (by simpa using hf) ?_ (fun sl y => by rw [getOrCreate_of_groups hg]; exact holds_tick g nid sl y)
        unfold Grp.tick; exact pullIfNeeded_spawn _ nid


/-- where a relay-pull session can be registered at all -/
theorem pull_held {s : Srv} (h : Inv s) {a : Sid} {p : Pull} (hp : s.sess a = some (.pull p)) {st : Stream} {sl : Slot}
    (hh : holdsAt s st sl a) : st = p.stream ∧ (sl = .pullRtmp ∨ sl = .pullRtsp) ∧ p.st = .attached := by
  have := (h.ci a st sl).mpr hh
  rw [claimOf_of_sess hp] at this
  simp only [Sess.claim] at this
  split at this
  · rename_i hst
    cases hr : p.rtsp <;> simp [hr] at this <;> exact ⟨this.1.symm, by simp [this.2], hst⟩
  · cases this

/-- the pull goroutine ends: `Del…PullSession` -/
theorem inv_pullEnd {s : Srv} (h : Inv s) {a : Sid} {p : Pull} (hp : s.sess a = some (.pull p)) (w : Bool) :
    Inv ((s.modP a fun x => { x with st := .done, wasAttached := w || x.wasAttached }).delPull Code.fixed a p.stream) := by
  have hok : OkAll ((s.modP a fun x => { x with st := .done, wasAttached := w || x.wasAttached }).delPull Code.fixed a p.stream) :=
    Srv.ok_delPull (s := s.modP a _) (OkAll.same h.ok (by simp)) _ _
  have hsess : ∀ y, ((s.modP a fun x => { x with st := .done, wasAttached := w || x.wasAttached }).delPull Code.fixed a p.stream).sess y =
      if y = a then some (.pull { p with st := .done, wasAttached := w || p.wasAttached }) else s.sess y := by
    intro y; rw [Srv.sess_delPull, modP_eq_setS hp]; simp
  refine h.mk2 hok ?_ a none ?_ (by simp) ?_ ?_ ?_ ?_
  · refine h.ci.vanish a ?_ ?_ ?_
    · intro y hy; unfold claimOf; rw [hsess]; simp [hy]
    · unfold claimOf; rw [hsess]; simp [Sess.claim]
    · intro st sl y
      unfold Srv.delPull
      simp only [Srv.modP_groups]
      cases hg : s.groups p.stream with
      | none =>
        simp only [holdsAt_note, holdsAt_modP]
        constructor
        · intro hh; refine ⟨hh, ?_⟩; rintro rfl
          obtain ⟨e, -, -⟩ := pull_held h hp hh
          subst e; obtain ⟨g, hg', -⟩ := hh; rw [hg] at hg'; cases hg'
        · exact fun hh => hh.1
      | some g =>
        simp only [holdsAt_noteRelay]
        exact holds_after_remove' (P := fun sl => sl = .pullRtmp ∨ sl = .pullRtsp)
          (fun st sl hh => ⟨(pull_held h hp hh).1, (pull_held h hp hh).2.1⟩)
          (holdsAt_remove (g := g) hg (by funext j; simp) (fun sl y => holds_delPull (h.ok _ g hg) a sl y)) st sl y
  · intro y hy _; rw [hsess]; simp [hy]
  · rw [hsess, hp]; simp [isRtsp]
  · intro cu hs; rw [hsess] at hs; simp at hs
  · intro r st' hs; rw [hsess] at hs; simp at hs
  · intro r hs; rw [hsess] at hs; simp at hs

theorem inv_pullDone {s : Srv} (h : Inv s) (a : Sid) : Inv (pullDone Code.fixed s a).1 := by
  unfold pullDone; split
  · rename_i p hp
    split
    · exact h
    · have := inv_pullEnd h hp false
      simpa using this
  · exact h

theorem inv_pullAttach {s : Srv} (h : Inv s) (a : Sid) : Inv (pullAttach Code.fixed s a).1 := by
  have hok : OkAll (pullAttach Code.fixed s a).1 := ok_step h.ok (.pullAttach a)
  unfold pullAttach at hok ⊢
  split
  · rename_i p hp
    simp only [hp] at hok
    split
    · exact h
    · rename_i hst
      have hst' : p.st = .inflight := by simpa using hst
      simp only [hst, if_false] at hok
      split
      · exact h
      · rename_i g hg
        simp only [hg] at hok
        have hc0 : claimOf s a = none := by rw [claimOf_of_sess hp]; simp [Sess.claim, hst']
        -- the common part of the accepted case, for both protocols
        have accepted : ∀ (g' : Grp) (l : List GObs) (sl0 : Slot), sl0 = (if p.rtsp then Slot.pullRtsp else Slot.pullRtmp) →
            (∀ sl y, g'.holds sl y ↔ (g.holds sl y ∨ (sl = sl0 ∧ y = a))) →
            OkAll (((s.setG p.stream g').modP a fun x => { x with st := .attached, wasAttached := true }).noteRelay l) →
            Inv (((s.setG p.stream g').modP a fun x => { x with st := .attached, wasAttached := true }).noteRelay l) := by
          intro g' l sl0 hsl hg' hok'
          have hsess : ∀ y, (((s.setG p.stream g').modP a fun x => { x with st := .attached, wasAttached := true }).noteRelay l).sess y =
              if y = a then some (.pull { p with st := .attached, wasAttached := true }) else s.sess y := by
            intro y; rw [Srv.noteRelay_sess, modP_eq_setS (r := p) (by simpa using hp)]; simp
          refine h.mk2 hok' ?_ a none ?_ (by simp) ?_ ?_ ?_ ?_
          · refine h.ci.add a p.stream sl0 ?_ hc0 ?_ ?_
            · intro y hy; unfold claimOf; rw [hsess]; simp [hy]
            · unfold claimOf; rw [hsess]; simp [Sess.claim, hsl]
            · intro st sl y
              simp only [holdsAt_noteRelay, holdsAt_modP]
              exact holdsAt_add (s := s) (k := p.stream) (g' := g') (by funext j; simp)
                (fun sl y => by rw [getOrCreate_of_groups hg]; exact hg' sl y) st sl y
          · intro y hy _; rw [hsess]; simp [hy]
          · rw [hsess, hp]; simp [isRtsp]
          · intro cu hs; rw [hsess] at hs; simp at hs
          · intro r st' hs; rw [hsess] at hs; simp at hs
          · intro r hs; rw [hsess] at hs; simp at hs
        cases hr : p.rtsp
        · simp only [hr, Bool.false_eq_true, if_false] at hok ⊢
          by_cases hacc : (g.addRtmpPull Code.fixed a).2.1 = true
          · rw [if_pos hacc] at hok ⊢
            exact accepted _ _ .pullRtmp (by simp [hr]) (fun sl y => holds_addRtmpPull hacc sl y) hok
          · rw [if_neg hacc]
            have := inv_pullEnd h hp false
            simpa using this
        · simp only [hr, if_true] at hok ⊢
          by_cases hacc : (g.addRtspPull Code.fixed a).2.1 = true
          · rw [if_pos hacc] at hok ⊢
            exact accepted _ _ .pullRtsp (by simp [hr]) (fun sl y => holds_addRtspPull hacc sl y) hok
          · rw [if_neg hacc]
            have := inv_pullEnd h hp false
            simpa using this
  · exact h

end Lal.Adm
