import LalModel.Model.SeqHeader
import LalModel.Model.Aac
import LalModel.Proof.GoOk
/-
  No sequence-header parser reaches a Go run-time failure, whatever the payload (the tree with the `fix:` commits of
  branch w-C05: `hevcParseRecord` checks 33 bytes, the Annex-B fallback skips empty units, the enhanced parser checks
  that the payload is non-empty).
-/
namespace Lal.SeqHeader
open Lal Lal.Nalu

theorem avcParse_np (p : Bytes) : NoPanicB (avcParse p) := by
  unfold avcParse; np_norm; np

theorem avcParseLists_np (p : Bytes) : NoPanicB (avcParseLists p) := by
  unfold avcParseLists
  repeat' split
  all_goals first | exact NoPanicB.err | exact NoPanicB.ok _

theorem avcSeqHeader2Annexb_np (p : Bytes) : NoPanicB (avcSeqHeader2Annexb p) := by
  have := avcParseLists_np p
  unfold avcSeqHeader2Annexb; np_norm; np

theorem hevcParseRecord_np (p : Bytes) : NoPanicB (hevcParseRecord p) := by
  unfold hevcParseRecord; np_norm; np

theorem indexSc4_bound : ∀ (b : Bytes) (i r : Nat), indexSc4 b i = some r → i ≤ r ∧ (r - i) + 4 ≤ b.length := by
  intro b
  induction b with
  | nil => intro i r h; simp [indexSc4] at h
  | cons x rest ih =>
    intro i r h
    unfold indexSc4 at h
    split at h
    · rename_i hm
      cases h
      have : 4 ≤ ((x :: rest).take 4).length := by rw [hm]; decide
      simp only [List.length_take] at this
      constructor <;> omega
    · obtain ⟨h1, h2⟩ := ih (i + 1) r h
      simp only [List.length_cons]
      constructor <;> omega

theorem hevcAnnexbLoop_np (p : Bytes) : ∀ (fuel i : Nat) (acc : Bytes × Bytes × Bytes), NoPanicB (hevcAnnexbLoop p fuel i acc) := by
  intro fuel
  induction fuel with
  | zero => intro i acc; exact NoPanicB.ok _
  | succ f ih =>
    intro i acc
    obtain ⟨vps, sps, pps⟩ := acc
    unfold hevcAnnexbLoop
    by_cases hc : i + 4 < p.length
    · simp only [hc, not_true_eq_false, if_false]
      cases hs : indexSc4 (p.drop i) 0 with
      | none => exact NoPanicB.ok _
      | some start =>
        obtain ⟨_, hb⟩ := indexSc4_bound _ _ _ hs
        simp only [List.length_drop, Nat.sub_zero] at hb
        dsimp only
        have hsl : ∀ endv, 4 ≤ endv → i + start + endv ≤ p.length →
            ∃ nal, slice? "hevc.annexb nal" p (i + start + 4) (i + start + endv) = .ok nal ∧ nal.length = endv - 4 := by
          intro endv h4 hle
          refine ⟨_, by simp only [slice?]; rw [if_pos (by omega)], ?_⟩
          simp only [List.length_take, List.length_drop]; omega
        have fin : ∀ endv, 4 ≤ endv → i + start + endv ≤ p.length →
            NoPanicB (match slice? "hevc.annexb nal" p (i + start + 4) (i + start + endv) with
              | Except.error e => Except.error e
              | Except.ok nal =>
                if List.isEmpty nal = true then hevcAnnexbLoop p f (i + start + endv) (vps, sps, pps)
                else
                  match idx? "hevc.annexb nal[0]" nal 0 with
                  | Except.error e => Except.error e
                  | Except.ok h =>
                    hevcAnnexbLoop p f (i + start + endv)
                      (if hevcNaluType h = 32 then (vps ++ nal, sps, pps)
                      else if hevcNaluType h = 33 then (vps, sps ++ nal, pps)
                      else if hevcNaluType h = 34 then (vps, sps, pps ++ nal) else (vps, sps, pps))) := by
          intro endv h4 hle
          obtain ⟨nal, hn, hnl⟩ := hsl endv h4 hle
          rw [hn]
          dsimp only
          by_cases hemp : nal.isEmpty
          · simp only [hemp, if_true]; exact ih _ _
          · simp only [hemp, Bool.false_eq_true, if_false]
            have hpos : 0 < nal.length := by
              cases nal with
              | nil => simp at hemp
              | cons _ _ => simp
            obtain ⟨h0, hh0, _⟩ := Ok.idx? "hevc.annexb nal[0]" nal 0 hpos
            rw [hh0]
            exact ih _ _
        cases he : indexSc4 (p.drop (i + start + 4)) 0 with
        | none => exact fin (p.length - (i + start)) (by omega) (by omega)
        | some e =>
          obtain ⟨_, hb2⟩ := indexSc4_bound _ _ _ he
          simp only [List.length_drop, Nat.sub_zero] at hb2
          exact fin (e + 4) (by omega) (by omega)
    · simp only [hc, not_false_eq_true, if_true]; exact NoPanicB.ok _

theorem hevcParseAnnexbRecord_np (p : Bytes) : NoPanicB (hevcParseAnnexbRecord p) := by
  have := hevcAnnexbLoop_np p (p.length + 1) 0 ([], [], [])
  unfold hevcParseAnnexbRecord; np_norm; np

theorem hevcParse_np (p : Bytes) : NoPanicB (hevcParse p) := by
  have h1 := hevcParseRecord_np p
  have h2 := hevcParseAnnexbRecord_np p
  unfold hevcParse; np_norm; np

theorem hevcParseEnhanced_np (p : Bytes) : NoPanicB (hevcParseEnhanced p) := by
  have h1 := hevcParseRecord_np p
  unfold hevcParseEnhanced; np_norm; np

theorem hevcSeqHeader2Annexb_np (p : Bytes) : NoPanicB (hevcSeqHeader2Annexb p) := by
  have := hevcParse_np p
  unfold hevcSeqHeader2Annexb; np_norm; np

theorem hevcEnhancedSeqHeader2Annexb_np (p : Bytes) : NoPanicB (hevcEnhancedSeqHeader2Annexb p) := by
  have := hevcParseEnhanced_np p
  unfold hevcEnhancedSeqHeader2Annexb; np_norm; np

end Lal.SeqHeader

namespace Lal.Aac
theorem ascUnpack_np (b : Bytes) : NoPanicB (ascUnpack b) := by
  unfold ascUnpack; split <;> first | exact NoPanicB.ok _ | exact NoPanicB.err
end Lal.Aac
