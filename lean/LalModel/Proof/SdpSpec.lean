import LalModel.Spec.SdpSpec
import LalModel.Proof.Sdp
/-
  The RFC-side reader of Spec/SdpSpec.lean on the SDP `sdp.Pack` writes.
-/
namespace Lal.SdpSpec
open Lal

theorem str_eq_asc (s : String) : str s = Sdp.asc s := rfl

/- ---------------- string helpers of the reader ---------------- -/

def fstep (sep : UInt8) (x : UInt8) (acc : List Bytes) : List Bytes :=
  if x = sep then [] :: acc else match acc with
    | cur :: rest => (x :: cur) :: rest
    | [] => [[x]]

theorem fields_def (sep : UInt8) (s : Bytes) : fields sep s = s.foldr (fstep sep) [[]] := rfl

theorem foldr_fstep_clean (sep : UInt8) (a : Bytes) (h : sep ∉ a) (cur : Bytes) (rest : List Bytes) :
    a.foldr (fstep sep) (cur :: rest) = (a ++ cur) :: rest := by
  induction a with
  | nil => rfl
  | cons x xs ih =>
    have hx : x ≠ sep := fun e => h (by simp [e])
    have hxs : sep ∉ xs := fun e => h (by simp [e])
    simp only [List.foldr_cons, ih hxs, fstep, hx, if_false, List.cons_append]

theorem fields_none (sep : UInt8) (a : Bytes) (h : sep ∉ a) : fields sep a = [a] := by
  rw [fields_def, foldr_fstep_clean sep a h]; simp

theorem fields_append (sep : UInt8) (a b : Bytes) (h : sep ∉ a) : fields sep (a ++ sep :: b) = a :: fields sep b := by
  rw [fields_def, List.foldr_append, List.foldr_cons]
  have : fstep sep sep (List.foldr (fstep sep) [[]] b) = [] :: fields sep b := by simp [fstep, fields_def]
  rw [this, foldr_fstep_clean sep a h]; simp

theorem before_append (c : UInt8) (a b : Bytes) (h : c ∉ a) : before c (a ++ c :: b) = a := by
  induction a with
  | nil => simp [before, List.takeWhile]
  | cons x xs ih =>
    have hx : x ≠ c := fun e => h (by simp [e])
    have hxs : c ∉ xs := fun e => h (by simp [e])
    have hb : (x != c) = true := by simpa using hx
    simp only [before, List.cons_append, List.takeWhile, hb] at ih ⊢
    rw [ih hxs]

theorem after_append (c : UInt8) (a b : Bytes) (h : c ∉ a) : after c (a ++ c :: b) = some b := by
  induction a with
  | nil => simp [after, List.dropWhile]
  | cons x xs ih =>
    have hx : x ≠ c := fun e => h (by simp [e])
    have hxs : c ∉ xs := fun e => h (by simp [e])
    have hb : (x != c) = true := by simpa using hx
    simp only [after, List.cons_append, List.dropWhile, hb] at ih ⊢
    exact ih hxs

theorem crlfLines_line (l rest cur : Bytes) (h : (13 : UInt8) ∉ l) :
    crlfLines (l ++ 13 :: 10 :: rest) cur = (crlfLines rest []).map ((cur.reverse ++ l) :: ·) := by
  induction l generalizing cur with
  | nil => simp [crlfLines]
  | cons x xs ih =>
    have hx : x ≠ 13 := fun e => h (by simp [e])
    have hxs : (13 : UInt8) ∉ xs := fun e => h (by simp [e])
    have step : crlfLines (x :: (xs ++ 13 :: 10 :: rest)) cur = crlfLines (xs ++ 13 :: 10 :: rest) (x :: cur) := by
      rw [crlfLines.eq_def]
      split
      · next heq => cases heq
      · next heq => cases heq
      · next r c heq => injection heq with h1 _; exact absurd h1 hx
      · next y r c hne heq =>
        injection heq with h1 h2
        subst h1; subst h2; rfl
    rw [List.cons_append, step, ih (x :: cur) hxs]
    simp

theorem crlfLines_join (ls : List Bytes) (h : ∀ l ∈ ls, (13 : UInt8) ∉ l) : crlfLines (Sdp.joinCRLF ls) [] = some ls := by
  induction ls with
  | nil => rfl
  | cons l rest ih =>
    have := crlfLines_line l (Sdp.joinCRLF rest) [] (h l (by simp))
    simp only [Sdp.joinCRLF, List.flatMap_cons, List.append_assoc, List.cons_append, List.nil_append] at this ⊢
    rw [this, ← Sdp.joinCRLF, ih (fun l' hl => h l' (by simp [hl]))]
    simp

theorem decimal_itoa (n : Nat) (hn : n < 9223372036854775808) : decimal (Sdp.itoa (n : Int)) = some n := by
  obtain ⟨ds, he, hne, hall, hval⟩ := Sdp.natDigits_spec (n + 1) n [] (by omega)
  have hi : Sdp.itoa (n : Int) = ds := by
    have : ¬ ((n : Int) < 0) := by omega
    simp only [Sdp.itoa, this, if_false, Int.natAbs_natCast, he, List.append_nil]
  rw [hi]
  have hall' : ds.all (fun x => decide (48 ≤ x.toNat ∧ x.toNat ≤ 57)) = true := by
    simp only [List.all_eq_true, decide_eq_true_eq]
    intro x hx
    have := hall x hx
    simpa [Sdp.isDigit] using this
  have hemp : ds.isEmpty = false := by cases ds <;> simp_all
  simp only [decimal, hemp, hall', Bool.false_eq_true, not_true_eq_false, or_self, if_false]
  exact congrArg some hval

def isBlank (x : UInt8) : Bool := x == 32 || x == 9

theorem strip_clean (s : Bytes) (h : ∀ x ∈ s, isBlank x = false) : strip s = s := by
  have e : (fun (x : UInt8) => x == 32 || x == 9) = isBlank := rfl
  simp only [strip, e]
  rw [Sdp.dropWhile_all_false _ s h, Sdp.dropWhile_all_false _ s.reverse (fun x hx => h x (by simpa using hx))]
  simp

theorem strip_lead (s : Bytes) (h : ∀ x ∈ s, isBlank x = false) : strip (32 :: s) = s := by
  have e : (fun (x : UInt8) => x == 32 || x == 9) = isBlank := rfl
  have : (32 :: s).dropWhile isBlank = s := by
    simp only [List.dropWhile, show isBlank 32 = true by decide]
    exact Sdp.dropWhile_all_false _ s h
  simp only [strip, e, this]
  rw [Sdp.dropWhile_all_false _ s.reverse (fun x hx => h x (by simpa using hx))]
  simp

theorem blank_of_space (x : UInt8) (h : Sdp.isSpace x = false) : isBlank x = false := by
  simp only [Sdp.isSpace, Bool.or_eq_false_iff] at h
  simp only [isBlank, Bool.or_eq_false_iff]
  exact ⟨h.2, h.1.1.1.1.1⟩

/-- `name=value` with a clean name and value, possibly after one blank -/
theorem readParam_kv (lead : Bool) (key v : Bytes) (hk : ∀ y ∈ key, isBlank y = false) (hv : ∀ y ∈ v, isBlank y = false) (h61 : (61 : UInt8) ∉ key) :
    readParam ((if lead then [32] else []) ++ (key ++ 61 :: v)) = some (key, v) := by
  have clean : ∀ x ∈ key ++ 61 :: v, isBlank x = false := by
    intro x hx
    simp only [List.mem_append, List.mem_cons] at hx
    rcases hx with h | h | h
    · exact hk x h
    · subst h; decide
    · exact hv x h
  have hs : strip ((if lead then [32] else []) ++ (key ++ 61 :: v)) = key ++ 61 :: v := by
    cases lead
    · simp only [Bool.false_eq_true, if_false, List.nil_append]; exact strip_clean _ clean
    · simp only [if_true, List.cons_append, List.nil_append]; exact strip_lead _ clean
  simp only [readParam, hs, after_append 61 key v h61, before_append 61 key v h61]

theorem readParam_plain (key v : Bytes) (hk : ∀ y ∈ key, isBlank y = false) (hv : ∀ y ∈ v, isBlank y = false) (h61 : (61 : UInt8) ∉ key) :
    readParam (key ++ 61 :: v) = some (key, v) := by
  have := readParam_kv false key v hk hv h61
  simpa using this

theorem readParam_lead (key v : Bytes) (hk : ∀ y ∈ key, isBlank y = false) (hv : ∀ y ∈ v, isBlank y = false) (h61 : (61 : UInt8) ∉ key) :
    readParam (32 :: (key ++ 61 :: v)) = some (key, v) := by
  have := readParam_kv true key v hk hv h61
  simpa using this

/- ---------------- the line loop ---------------- -/

def closePrev (cur : Option Media) (done : List Media) : List Media :=
  match cur with | some c => c :: done | none => done

theorem ml_m (v : Bytes) (m : Media) (rest : List Bytes) (done : List Media) (cur : Option Media) (h : readM v = some m) :
    mediaLoop ((109 :: 61 :: v) :: rest) done cur = mediaLoop rest (closePrev cur done) (some m) := by
  have e : (109 : UInt8) = ch 'm' := by decide
  rw [e]
  simp only [mediaLoop, if_true, h, closePrev]
  cases cur <;> rfl

theorem ml_a (v : Bytes) (m m' : Media) (rest : List Bytes) (done : List Media) (h : addAttr m v = some m') :
    mediaLoop ((97 :: 61 :: v) :: rest) done (some m) = mediaLoop rest done (some m') := by
  have e1 : ¬ (ch 'a' = ch 'm') := by decide
  have e2 : (97 : UInt8) = ch 'a' := by decide
  rw [e2]
  simp only [mediaLoop, e1, if_false, if_true, h]

theorem ml_a_session (v : Bytes) (rest : List Bytes) (done : List Media) :
    mediaLoop ((97 :: 61 :: v) :: rest) done none = mediaLoop rest done none := by
  have e1 : ¬ (ch 'a' = ch 'm') := by decide
  have e2 : (97 : UInt8) = ch 'a' := by decide
  rw [e2]
  simp only [mediaLoop, e1, if_false, if_true]

theorem ml_other (t : UInt8) (v : Bytes) (rest : List Bytes) (done : List Media) (cur : Option Media)
    (h1 : t ≠ ch 'm') (h2 : t ≠ ch 'a') :
    mediaLoop ((t :: 61 :: v) :: rest) done cur = mediaLoop rest done cur := by
  simp only [mediaLoop, h1, h2, if_false]

/-- the header `sdp.Pack` writes: `v=0` is checked by `read`, the other five lines are session-level -/
theorem read_header (tool : Bytes) (rest : List Bytes) (h : ∀ l ∈ Sdp.headerLines tool ++ rest, (13 : UInt8) ∉ l) :
    read (Sdp.joinCRLF (Sdp.headerLines tool ++ rest)) = mediaLoop rest [] none := by
  have l2 : Sdp.asc "o=- 0 0 IN IP4 127.0.0.1" = 111 :: 61 :: Sdp.asc "- 0 0 IN IP4 127.0.0.1" := by decide
  have l3 : Sdp.asc "s=No Name" = 115 :: 61 :: Sdp.asc "No Name" := by decide
  have l4 : Sdp.asc "c=IN IP4 127.0.0.1" = 99 :: 61 :: Sdp.asc "IN IP4 127.0.0.1" := by decide
  have l5 : Sdp.asc "t=0 0" = 116 :: 61 :: Sdp.asc "0 0" := by decide
  have l6 : Sdp.asc "a=tool:" ++ tool = 97 :: 61 :: (Sdp.asc "tool:" ++ tool) := by
    have : Sdp.asc "a=tool:" = 97 :: 61 :: Sdp.asc "tool:" := by decide
    rw [this]; rfl
  simp only [read]
  rw [crlfLines_join _ h]
  simp only [Sdp.headerLines, List.cons_append, List.nil_append]
  have hv0 : Sdp.asc "v=0" = str "v=0" := rfl
  simp only [hv0, if_true, l2, l3, l4, l5, l6]
  rw [ml_other _ _ _ _ _ (by decide) (by decide), ml_other _ _ _ _ _ (by decide) (by decide),
      ml_other _ _ _ _ _ (by decide) (by decide), ml_other _ _ _ _ _ (by decide) (by decide), ml_a_session]

/- ---------------- sections ---------------- -/

theorem b64_blank (c : Sdp.Codec) (hc : Sdp.CodecLaws c) (x : Bytes) : ∀ y ∈ c.b64enc x, isBlank y = false :=
  fun y h => blank_of_space y (hc.b64_clean x y h).1

theorem hex_blank (c : Sdp.Codec) (hc : Sdp.CodecLaws c) (x : Bytes) : ∀ y ∈ c.hexenc x, isBlank y = false :=
  fun y h => blank_of_space y (hc.hex_clean x y h).1

theorem control_attr (m : Media) (sid : Nat) :
    Sdp.asc "a=control:streamid=" ++ Sdp.itoa (sid : Int) = 97 :: 61 :: (Sdp.asc "control" ++ 58 :: (Sdp.asc "streamid=" ++ Sdp.itoa (sid : Int)))
    ∧ addAttr m (Sdp.asc "control" ++ 58 :: (Sdp.asc "streamid=" ++ Sdp.itoa (sid : Int))) =
        some { m with control := some (Sdp.asc "streamid=" ++ Sdp.itoa (sid : Int)) } := by
  refine ⟨?_, ?_⟩
  · have : Sdp.asc "a=control:streamid=" = 97 :: 61 :: (Sdp.asc "control" ++ 58 :: Sdp.asc "streamid=") := by decide
    rw [this]; simp
  · have n : (58 : UInt8) ∉ Sdp.asc "control" := by decide
    have e1 : ¬ (Sdp.asc "control" = str "rtpmap") := by decide
    have e2 : ¬ (Sdp.asc "control" = str "fmtp") := by decide
    have e3 : Sdp.asc "control" = str "control" := rfl
    simp only [addAttr, before_append 58 _ _ n, after_append 58 _ _ n, e1, e2, if_false]
    simp only [e3, if_true]

def avcM0 : Media := { media := str "video", port := str "0", proto := str "RTP/AVP", fmts := [96] }
def avcM1 : Media := { avcM0 with rtpmaps := [{ pt := 96, encoding := str "H264", clockRate := 90000, params := none }] }
def avcParams (c : Sdp.Codec) (sps pps : Bytes) : List (Bytes × Bytes) :=
  [(Sdp.asc "packetization-mode", Sdp.asc "1"), (Sdp.asc "sprop-parameter-sets", c.b64enc sps ++ 44 :: c.b64enc pps),
   (Sdp.asc "profile-level-id", Sdp.asc "640016")]
def avcM2 (c : Sdp.Codec) (sps pps : Bytes) : Media := { avcM1 with fmtps := [(96, avcParams c sps pps)] }
def specAvc (c : Sdp.Codec) (sps pps : Bytes) (sid : Nat) : Media :=
  { avcM2 c sps pps with control := some (Sdp.asc "streamid=" ++ Sdp.itoa (sid : Int)) }

def avcFmtpBody (c : Sdp.Codec) (sps pps : Bytes) : Bytes :=
  Sdp.asc "fmtp" ++ 58 :: (Sdp.asc "96" ++ 32 :: (Sdp.asc "packetization-mode=1" ++ 59 ::
    ((32 :: (Sdp.asc "sprop-parameter-sets" ++ 61 :: (c.b64enc sps ++ 44 :: c.b64enc pps))) ++ 59 ::
      (32 :: (Sdp.asc "profile-level-id" ++ 61 :: Sdp.asc "640016")))))

theorem fmtpAvc_body (c : Sdp.Codec) (sps pps : Bytes) : Sdp.fmtpAvc c sps pps = 97 :: 61 :: avcFmtpBody c sps pps := by
  have a1 : Sdp.asc "a=fmtp:96 packetization-mode=1; sprop-parameter-sets=" =
      97 :: 61 :: (Sdp.asc "fmtp" ++ 58 :: (Sdp.asc "96" ++ 32 :: (Sdp.asc "packetization-mode=1" ++ 59 :: (32 :: (Sdp.asc "sprop-parameter-sets" ++ [61]))))) := by decide
  have a2 : Sdp.asc "; profile-level-id=640016" = 59 :: (32 :: (Sdp.asc "profile-level-id" ++ 61 :: Sdp.asc "640016")) := by decide
  have a3 : Sdp.asc "," = [44] := by decide
  simp only [Sdp.fmtpAvc, avcFmtpBody, a1, a2, a3, List.append_assoc, List.cons_append, List.nil_append]

theorem addAttr_fmtp_avc (c : Sdp.Codec) (hc : Sdp.CodecLaws c) (sps pps : Bytes) :
    addAttr avcM1 (avcFmtpBody c sps pps) = some (avcM2 c sps pps) := by
  obtain ⟨_, _, hs3⟩ := Sdp.b64_mem c hc sps
  obtain ⟨_, _, hp3⟩ := Sdp.b64_mem c hc pps
  have n1 : (58 : UInt8) ∉ Sdp.asc "fmtp" := by decide
  have n2 : (32 : UInt8) ∉ Sdp.asc "96" := by decide
  have e1 : ¬ (Sdp.asc "fmtp" = str "rtpmap") := by decide
  have e2 : Sdp.asc "fmtp" = str "fmtp" := rfl
  have d96 : decimal (Sdp.asc "96") = some 96 := by decide
  have m1 : (59 : UInt8) ∉ Sdp.asc "packetization-mode=1" := by decide
  have m2 : (59 : UInt8) ∉ (32 :: (Sdp.asc "sprop-parameter-sets" ++ 61 :: (c.b64enc sps ++ 44 :: c.b64enc pps))) := by
    have : (59 : UInt8) ∉ Sdp.asc "sprop-parameter-sets" := by decide
    simp [this, hs3, hp3]
  have m3 : (59 : UInt8) ∉ (32 :: (Sdp.asc "profile-level-id" ++ 61 :: Sdp.asc "640016")) := by decide
  have p1 : readParam (Sdp.asc "packetization-mode=1") = some (Sdp.asc "packetization-mode", Sdp.asc "1") := by decide
  have p3 : readParam (32 :: (Sdp.asc "profile-level-id" ++ 61 :: Sdp.asc "640016")) = some (Sdp.asc "profile-level-id", Sdp.asc "640016") := by decide
  have vclean : ∀ y ∈ c.b64enc sps ++ 44 :: c.b64enc pps, isBlank y = false := by
    intro y hy
    simp only [List.mem_append, List.mem_cons] at hy
    rcases hy with h | h | h
    · exact b64_blank c hc sps y h
    · subst h; decide
    · exact b64_blank c hc pps y h
  have p2 := readParam_lead (Sdp.asc "sprop-parameter-sets") (c.b64enc sps ++ 44 :: c.b64enc pps) (by decide) vclean (by decide)
  have hcont : avcM1.fmts.contains 96 = true := by decide
  simp only [avcFmtpBody, addAttr, before_append 58 _ _ n1, after_append 58 _ _ n1, e1, if_false]
  simp only [e2, if_true, Option.bind, readFmtp, before_append 32 _ _ n2, after_append 32 _ _ n2, d96,
    fields_append 59 _ _ m1, fields_append 59 _ _ m2, fields_none 59 _ m3]
  simp [p1, p2, p3, hcont, avcM2, avcParams, avcM1]
  decide

theorem section_avc (c : Sdp.Codec) (hc : Sdp.CodecLaws c) (sps pps : Bytes) (sid : Nat) (rest : List Bytes)
    (done : List Media) (cur : Option Media) :
    mediaLoop (Sdp.videoLines c { videoPt := Sdp.ptAvc, vps := none, sps := some sps, pps := some pps } sid ++ rest) done cur =
      mediaLoop rest (closePrev cur done) (some (specAvc c sps pps sid)) := by
  rw [Sdp.videoLines_avc]
  simp only [List.cons_append, List.nil_append]
  have l1 : Sdp.asc "m=video 0 RTP/AVP " ++ Sdp.itoa Sdp.ptAvc = 109 :: 61 :: Sdp.asc "video 0 RTP/AVP 96" := by decide
  have l2 : Sdp.asc "a=rtpmap:96 H264/90000" = 97 :: 61 :: Sdp.asc "rtpmap:96 H264/90000" := by decide
  obtain ⟨l4, hctl⟩ := control_attr (avcM2 c sps pps) sid
  rw [l1, l2, fmtpAvc_body, l4]
  have hm : readM (Sdp.asc "video 0 RTP/AVP 96") = some avcM0 := by decide
  have hr : addAttr avcM0 (Sdp.asc "rtpmap:96 H264/90000") = some avcM1 := by decide
  rw [ml_m _ _ _ _ _ hm, ml_a _ _ _ _ _ hr, ml_a _ _ _ _ _ (addAttr_fmtp_avc c hc sps pps), ml_a _ _ _ _ _ hctl]
  rfl

/- ---------------- H265 ---------------- -/

def hevcM0 : Media := { media := str "video", port := str "0", proto := str "RTP/AVP", fmts := [98] }
def hevcM1 : Media := { hevcM0 with rtpmaps := [{ pt := 98, encoding := str "H265", clockRate := 90000, params := none }] }
def hevcM2 (c : Sdp.Codec) (vps sps pps : Bytes) : Media := { hevcM1 with fmtps := [(98, Sdp.hevcParams c vps sps pps)] }
def specHevc (c : Sdp.Codec) (vps sps pps : Bytes) (sid : Nat) : Media :=
  { hevcM2 c vps sps pps with control := some (Sdp.asc "streamid=" ++ Sdp.itoa (sid : Int)) }

def hevcFmtpBody (c : Sdp.Codec) (vps sps pps : Bytes) : Bytes :=
  Sdp.asc "fmtp" ++ 58 :: (Sdp.asc "98" ++ 32 :: (Sdp.asc "profile-id=1" ++ 59 ::
    ((Sdp.asc "sprop-sps" ++ 61 :: c.b64enc sps) ++ 59 :: ((Sdp.asc "sprop-pps" ++ 61 :: c.b64enc pps) ++ 59 :: (Sdp.asc "sprop-vps" ++ 61 :: c.b64enc vps)))))

theorem fmtpHevc_body (c : Sdp.Codec) (vps sps pps : Bytes) : Sdp.fmtpHevc c vps sps pps = 97 :: 61 :: hevcFmtpBody c vps sps pps := by
  have a1 : Sdp.asc "a=fmtp:98 profile-id=1;sprop-sps=" =
      97 :: 61 :: (Sdp.asc "fmtp" ++ 58 :: (Sdp.asc "98" ++ 32 :: (Sdp.asc "profile-id=1" ++ 59 :: (Sdp.asc "sprop-sps" ++ [61])))) := by decide
  have a2 : Sdp.asc ";sprop-pps=" = 59 :: (Sdp.asc "sprop-pps" ++ [61]) := by decide
  have a3 : Sdp.asc ";sprop-vps=" = 59 :: (Sdp.asc "sprop-vps" ++ [61]) := by decide
  simp only [Sdp.fmtpHevc, hevcFmtpBody, a1, a2, a3, List.append_assoc, List.cons_append, List.nil_append]

theorem addAttr_fmtp_hevc (c : Sdp.Codec) (hc : Sdp.CodecLaws c) (vps sps pps : Bytes) :
    addAttr hevcM1 (hevcFmtpBody c vps sps pps) = some (hevcM2 c vps sps pps) := by
  obtain ⟨_, _, hs3⟩ := Sdp.b64_mem c hc sps
  obtain ⟨_, _, hp3⟩ := Sdp.b64_mem c hc pps
  obtain ⟨_, _, hv3⟩ := Sdp.b64_mem c hc vps
  have n1 : (58 : UInt8) ∉ Sdp.asc "fmtp" := by decide
  have n2 : (32 : UInt8) ∉ Sdp.asc "98" := by decide
  have e1 : ¬ (Sdp.asc "fmtp" = str "rtpmap") := by decide
  have e2 : Sdp.asc "fmtp" = str "fmtp" := rfl
  have d98 : decimal (Sdp.asc "98") = some 98 := by decide
  have k59 : ∀ (k : Bytes) (v : Bytes), (59 : UInt8) ∉ k → (59 : UInt8) ∉ v → (59 : UInt8) ∉ (k ++ 61 :: v) := by
    intro k v hk hv; simp [hk, hv]
  have m1 : (59 : UInt8) ∉ Sdp.asc "profile-id=1" := by decide
  have m2 := k59 (Sdp.asc "sprop-sps") _ (by decide) hs3
  have m3 := k59 (Sdp.asc "sprop-pps") _ (by decide) hp3
  have m4 := k59 (Sdp.asc "sprop-vps") _ (by decide) hv3
  have p1 : readParam (Sdp.asc "profile-id=1") = some (Sdp.asc "profile-id", Sdp.asc "1") := by decide
  have p2 := readParam_plain (Sdp.asc "sprop-sps") (c.b64enc sps) (by decide) (b64_blank c hc sps) (by decide)
  have p3 := readParam_plain (Sdp.asc "sprop-pps") (c.b64enc pps) (by decide) (b64_blank c hc pps) (by decide)
  have p4 := readParam_plain (Sdp.asc "sprop-vps") (c.b64enc vps) (by decide) (b64_blank c hc vps) (by decide)
  have hcont : hevcM1.fmts.contains 98 = true := by decide
  simp only [hevcFmtpBody, addAttr, before_append 58 _ _ n1, after_append 58 _ _ n1, e1, if_false]
  simp only [e2, if_true, Option.bind, readFmtp, before_append 32 _ _ n2, after_append 32 _ _ n2, d98,
    fields_append 59 _ _ m1, fields_append 59 _ _ m2, fields_append 59 _ _ m3, fields_none 59 _ m4]
  simp [p1, p2, p3, p4, hcont, hevcM2, Sdp.hevcParams, hevcM1]
  decide

theorem section_hevc (c : Sdp.Codec) (hc : Sdp.CodecLaws c) (vps sps pps : Bytes) (sid : Nat) (rest : List Bytes)
    (done : List Media) (cur : Option Media) :
    mediaLoop (Sdp.videoLines c { videoPt := Sdp.ptHevc, vps := some vps, sps := some sps, pps := some pps } sid ++ rest) done cur =
      mediaLoop rest (closePrev cur done) (some (specHevc c vps sps pps sid)) := by
  rw [Sdp.videoLines_hevc]
  simp only [List.cons_append, List.nil_append]
  have l1 : Sdp.asc "m=video 0 RTP/AVP " ++ Sdp.itoa Sdp.ptHevc = 109 :: 61 :: Sdp.asc "video 0 RTP/AVP 98" := by decide
  have l2 : Sdp.asc "a=rtpmap:98 H265/90000" = 97 :: 61 :: Sdp.asc "rtpmap:98 H265/90000" := by decide
  obtain ⟨l4, hctl⟩ := control_attr (hevcM2 c vps sps pps) sid
  rw [l1, l2, fmtpHevc_body, l4]
  have hm : readM (Sdp.asc "video 0 RTP/AVP 98") = some hevcM0 := by decide
  have hr : addAttr hevcM0 (Sdp.asc "rtpmap:98 H265/90000") = some hevcM1 := by decide
  rw [ml_m _ _ _ _ _ hm, ml_a _ _ _ _ _ hr, ml_a _ _ _ _ _ (addAttr_fmtp_hevc c hc vps sps pps), ml_a _ _ _ _ _ hctl]
  rfl

/- ---------------- AAC ---------------- -/

def aacM0 : Media := { media := str "audio", port := str "0", proto := str "RTP/AVP", fmts := [97] }
def aacM1 (f : Nat) : Media :=
  { aacM0 with rtpmaps := [{ pt := 97, encoding := str "MPEG4-GENERIC", clockRate := f, params := some (Sdp.asc "2") }] }
def aacM2 (c : Sdp.Codec) (a : Bytes) (f : Nat) : Media := { aacM1 f with fmtps := [(97, Sdp.aacParams c a)] }
def specAac (c : Sdp.Codec) (a : Bytes) (f sid : Nat) : Media :=
  { aacM2 c a f with control := some (Sdp.asc "streamid=" ++ Sdp.itoa (sid : Int)) }

def aacFmtpBody (c : Sdp.Codec) (a : Bytes) : Bytes :=
  Sdp.asc "fmtp" ++ 58 :: (Sdp.asc "97" ++ 32 :: (Sdp.asc "profile-level-id=1" ++ 59 :: (Sdp.asc "mode=AAC-hbr" ++ 59 ::
    (Sdp.asc "sizelength=13" ++ 59 :: (Sdp.asc "indexlength=3" ++ 59 :: (Sdp.asc "indexdeltalength=3" ++ 59 :: (32 :: (Sdp.asc "config" ++ 61 :: c.hexenc a))))))))

theorem fmtpAac_body (c : Sdp.Codec) (a : Bytes) : Sdp.fmtpAac c a = 97 :: 61 :: aacFmtpBody c a := by
  have a1 : Sdp.asc "a=fmtp:" ++ Sdp.itoa Sdp.ptAac ++ Sdp.asc " profile-level-id=1;mode=AAC-hbr;sizelength=13;indexlength=3;indexdeltalength=3; config=" =
      97 :: 61 :: (Sdp.asc "fmtp" ++ 58 :: (Sdp.asc "97" ++ 32 :: (Sdp.asc "profile-level-id=1" ++ 59 :: (Sdp.asc "mode=AAC-hbr" ++ 59 ::
        (Sdp.asc "sizelength=13" ++ 59 :: (Sdp.asc "indexlength=3" ++ 59 :: (Sdp.asc "indexdeltalength=3" ++ 59 :: (32 :: (Sdp.asc "config" ++ [61])))))))))  := by decide
  simp only [Sdp.fmtpAac, aacFmtpBody, a1, List.append_assoc, List.cons_append, List.nil_append]

theorem addAttr_fmtp_aac (c : Sdp.Codec) (hc : Sdp.CodecLaws c) (a : Bytes) (f : Nat) :
    addAttr (aacM1 f) (aacFmtpBody c a) = some (aacM2 c a f) := by
  obtain ⟨_, h3⟩ := Sdp.hex_mem c hc a
  have n1 : (58 : UInt8) ∉ Sdp.asc "fmtp" := by decide
  have n2 : (32 : UInt8) ∉ Sdp.asc "97" := by decide
  have e1 : ¬ (Sdp.asc "fmtp" = str "rtpmap") := by decide
  have e2 : Sdp.asc "fmtp" = str "fmtp" := rfl
  have d97 : decimal (Sdp.asc "97") = some 97 := by decide
  have m1 : (59 : UInt8) ∉ Sdp.asc "profile-level-id=1" := by decide
  have m2 : (59 : UInt8) ∉ Sdp.asc "mode=AAC-hbr" := by decide
  have m3 : (59 : UInt8) ∉ Sdp.asc "sizelength=13" := by decide
  have m4 : (59 : UInt8) ∉ Sdp.asc "indexlength=3" := by decide
  have m5 : (59 : UInt8) ∉ Sdp.asc "indexdeltalength=3" := by decide
  have m6 : (59 : UInt8) ∉ (32 :: (Sdp.asc "config" ++ 61 :: c.hexenc a)) := by
    have : (59 : UInt8) ∉ Sdp.asc "config" := by decide
    simp [this, h3]
  have p1 : readParam (Sdp.asc "profile-level-id=1") = some (Sdp.asc "profile-level-id", Sdp.asc "1") := by decide
  have p2 : readParam (Sdp.asc "mode=AAC-hbr") = some (Sdp.asc "mode", Sdp.asc "AAC-hbr") := by decide
  have p3 : readParam (Sdp.asc "sizelength=13") = some (Sdp.asc "sizelength", Sdp.asc "13") := by decide
  have p4 : readParam (Sdp.asc "indexlength=3") = some (Sdp.asc "indexlength", Sdp.asc "3") := by decide
  have p5 : readParam (Sdp.asc "indexdeltalength=3") = some (Sdp.asc "indexdeltalength", Sdp.asc "3") := by decide
  have p6 := readParam_lead (Sdp.asc "config") (c.hexenc a) (by decide) (hex_blank c hc a) (by decide)
  have hcont : (aacM1 f).fmts.contains 97 = true := by rfl
  simp only [aacFmtpBody, addAttr, before_append 58 _ _ n1, after_append 58 _ _ n1, e1, if_false]
  simp only [e2, if_true, Option.bind, readFmtp, before_append 32 _ _ n2, after_append 32 _ _ n2, d97,
    fields_append 59 _ _ m1, fields_append 59 _ _ m2, fields_append 59 _ _ m3, fields_append 59 _ _ m4, fields_append 59 _ _ m5,
    fields_none 59 _ m6]
  simp [p1, p2, p3, p4, p5, p6, hcont, aacM2, Sdp.aacParams, aacM1]
  decide

theorem section_aac (c : Sdp.Codec) (hc : Sdp.CodecLaws c) (a : Bytes) (f sid : Nat) (hf : f < 9223372036854775808)
    (rest : List Bytes) (done : List Media) (cur : Option Media) :
    mediaLoop (Sdp.audioLines c { audioPt := Sdp.ptAac, samplingFrequency := f, asc := some a } sid ++ rest) done cur =
      mediaLoop rest (closePrev cur done) (some (specAac c a f sid)) := by
  rw [Sdp.audioLines_aac]
  simp only [List.cons_append, List.nil_append]
  have l1 : Sdp.asc "m=audio 0 RTP/AVP " ++ Sdp.itoa Sdp.ptAac = 109 :: 61 :: Sdp.asc "audio 0 RTP/AVP 97" := by decide
  have lb : Sdp.asc "b=AS:128" = 98 :: 61 :: Sdp.asc "AS:128" := by decide
  have l2 : Sdp.rtpmapAac f = 97 :: 61 :: (Sdp.asc "rtpmap" ++ 58 :: (Sdp.asc "97" ++ 32 :: (Sdp.asc "MPEG4-GENERIC" ++ 47 :: (Sdp.itoa (f : Int) ++ 47 :: Sdp.asc "2")))) := by
    have a1 : Sdp.asc "a=rtpmap:" ++ Sdp.itoa Sdp.ptAac ++ Sdp.asc " MPEG4-GENERIC/" = 97 :: 61 :: (Sdp.asc "rtpmap" ++ 58 :: (Sdp.asc "97" ++ 32 :: (Sdp.asc "MPEG4-GENERIC" ++ [47]))) := by decide
    have a2 : Sdp.asc "/2" = 47 :: Sdp.asc "2" := by decide
    simp only [Sdp.rtpmapAac, a1, a2, List.append_assoc, List.cons_append, List.nil_append]
  obtain ⟨l4, hctl⟩ := control_attr (aacM2 c a f) sid
  rw [l1, lb, l2, fmtpAac_body, l4]
  have hm : readM (Sdp.asc "audio 0 RTP/AVP 97") = some aacM0 := by decide
  have hr : addAttr aacM0 (Sdp.asc "rtpmap" ++ 58 :: (Sdp.asc "97" ++ 32 :: (Sdp.asc "MPEG4-GENERIC" ++ 47 :: (Sdp.itoa (f : Int) ++ 47 :: Sdp.asc "2")))) = some (aacM1 f) := by
    have n1 : (58 : UInt8) ∉ Sdp.asc "rtpmap" := by decide
    have n2 : (32 : UInt8) ∉ Sdp.asc "97" := by decide
    have n3 : (47 : UInt8) ∉ Sdp.asc "MPEG4-GENERIC" := by decide
    have n4 : (47 : UInt8) ∉ Sdp.itoa (f : Int) := Sdp.itoa_nat_notin f hf 47 (by decide)
    have n5 : (47 : UInt8) ∉ Sdp.asc "2" := by decide
    have e1 : Sdp.asc "rtpmap" = str "rtpmap" := rfl
    have dpt : decimal (Sdp.asc "97") = some 97 := by decide
    have hcont : aacM0.fmts.contains 97 = true := by decide
    simp only [addAttr, before_append 58 _ _ n1, after_append 58 _ _ n1]
    rw [if_pos e1]
    simp only [Option.bind, readRtpMap,
      before_append 32 _ _ n2, after_append 32 _ _ n2, dpt, fields_append 47 _ _ n3, fields_append 47 _ _ n4, fields_none 47 _ n5,
      decimal_itoa f hf, Option.map, hcont, if_true]
    rfl
  rw [ml_m _ _ _ _ _ hm, ml_other _ _ _ _ _ (by decide) (by decide), ml_a _ _ _ _ _ hr, ml_a _ _ _ _ _ (addAttr_fmtp_aac c hc a f),
      ml_a _ _ _ _ _ hctl]
  rfl

/- ---------------- PCMA ---------------- -/

def gPCMAM0 : Media := { media := str "audio", port := str "0", proto := str "RTP/AVP", fmts := [8] }
def gPCMAM1 (f : Nat) : Media := { gPCMAM0 with rtpmaps := [{ pt := 8, encoding := str "PCMA", clockRate := f, params := none }] }
def specPCMA (f sid : Nat) : Media := { gPCMAM1 f with control := some (Sdp.asc "streamid=" ++ Sdp.itoa (sid : Int)) }

theorem section_PCMA (c : Sdp.Codec) (f sid : Nat) (hf : f < 9223372036854775808) (a : Option Bytes) (rest : List Bytes)
    (done : List Media) (cur : Option Media) :
    mediaLoop (Sdp.audioLines c { audioPt := Sdp.ptG711A, samplingFrequency := f, asc := a } sid ++ rest) done cur =
      mediaLoop rest (closePrev cur done) (some (specPCMA f sid)) := by
  rw [Sdp.audioLines_PCMA]
  simp only [List.cons_append, List.nil_append]
  have l1 : Sdp.asc "m=audio 0 RTP/AVP " ++ Sdp.itoa Sdp.ptG711A = 109 :: 61 :: Sdp.asc "audio 0 RTP/AVP 8" := by decide
  have l2 : Sdp.rtpmapPCMA f = 97 :: 61 :: (Sdp.asc "rtpmap" ++ 58 :: (Sdp.asc "8" ++ 32 :: (Sdp.asc "PCMA" ++ 47 :: Sdp.itoa (f : Int)))) := by
    have a1 : Sdp.asc "a=rtpmap:" ++ Sdp.itoa Sdp.ptG711A ++ Sdp.asc " PCMA/" = 97 :: 61 :: (Sdp.asc "rtpmap" ++ 58 :: (Sdp.asc "8" ++ 32 :: (Sdp.asc "PCMA" ++ [47]))) := by decide
    simp only [Sdp.rtpmapPCMA, a1, List.append_assoc, List.cons_append, List.nil_append]
  obtain ⟨l4, hctl⟩ := control_attr (gPCMAM1 f) sid
  rw [l1, l2, l4]
  have hm : readM (Sdp.asc "audio 0 RTP/AVP 8") = some gPCMAM0 := by decide
  have hr : addAttr gPCMAM0 (Sdp.asc "rtpmap" ++ 58 :: (Sdp.asc "8" ++ 32 :: (Sdp.asc "PCMA" ++ 47 :: Sdp.itoa (f : Int)))) = some (gPCMAM1 f) := by
    have n1 : (58 : UInt8) ∉ Sdp.asc "rtpmap" := by decide
    have n2 : (32 : UInt8) ∉ Sdp.asc "8" := by decide
    have n3 : (47 : UInt8) ∉ Sdp.asc "PCMA" := by decide
    have n4 : (47 : UInt8) ∉ Sdp.itoa (f : Int) := Sdp.itoa_nat_notin f hf 47 (by decide)
    have e1 : Sdp.asc "rtpmap" = str "rtpmap" := rfl
    have dpt : decimal (Sdp.asc "8") = some 8 := by decide
    have hcont : gPCMAM0.fmts.contains 8 = true := by decide
    simp only [addAttr, before_append 58 _ _ n1, after_append 58 _ _ n1]
    rw [if_pos e1]
    simp only [Option.bind, readRtpMap,
      before_append 32 _ _ n2, after_append 32 _ _ n2, dpt, fields_append 47 _ _ n3, fields_none 47 _ n4, decimal_itoa f hf, Option.map,
      hcont, if_true]
    rfl
  rw [ml_m _ _ _ _ _ hm, ml_a _ _ _ _ _ hr, ml_a _ _ _ _ _ hctl]
  rfl

/- ---------------- PCMU ---------------- -/

def gPCMUM0 : Media := { media := str "audio", port := str "0", proto := str "RTP/AVP", fmts := [0] }
def gPCMUM1 (f : Nat) : Media := { gPCMUM0 with rtpmaps := [{ pt := 0, encoding := str "PCMU", clockRate := f, params := none }] }
def specPCMU (f sid : Nat) : Media := { gPCMUM1 f with control := some (Sdp.asc "streamid=" ++ Sdp.itoa (sid : Int)) }

theorem section_PCMU (c : Sdp.Codec) (f sid : Nat) (hf : f < 9223372036854775808) (a : Option Bytes) (rest : List Bytes)
    (done : List Media) (cur : Option Media) :
    mediaLoop (Sdp.audioLines c { audioPt := Sdp.ptG711U, samplingFrequency := f, asc := a } sid ++ rest) done cur =
      mediaLoop rest (closePrev cur done) (some (specPCMU f sid)) := by
  rw [Sdp.audioLines_PCMU]
  simp only [List.cons_append, List.nil_append]
  have l1 : Sdp.asc "m=audio 0 RTP/AVP " ++ Sdp.itoa Sdp.ptG711U = 109 :: 61 :: Sdp.asc "audio 0 RTP/AVP 0" := by decide
  have l2 : Sdp.rtpmapPCMU f = 97 :: 61 :: (Sdp.asc "rtpmap" ++ 58 :: (Sdp.asc "0" ++ 32 :: (Sdp.asc "PCMU" ++ 47 :: Sdp.itoa (f : Int)))) := by
    have a1 : Sdp.asc "a=rtpmap:" ++ Sdp.itoa Sdp.ptG711U ++ Sdp.asc " PCMU/" = 97 :: 61 :: (Sdp.asc "rtpmap" ++ 58 :: (Sdp.asc "0" ++ 32 :: (Sdp.asc "PCMU" ++ [47]))) := by decide
    simp only [Sdp.rtpmapPCMU, a1, List.append_assoc, List.cons_append, List.nil_append]
  obtain ⟨l4, hctl⟩ := control_attr (gPCMUM1 f) sid
  rw [l1, l2, l4]
  have hm : readM (Sdp.asc "audio 0 RTP/AVP 0") = some gPCMUM0 := by decide
  have hr : addAttr gPCMUM0 (Sdp.asc "rtpmap" ++ 58 :: (Sdp.asc "0" ++ 32 :: (Sdp.asc "PCMU" ++ 47 :: Sdp.itoa (f : Int)))) = some (gPCMUM1 f) := by
    have n1 : (58 : UInt8) ∉ Sdp.asc "rtpmap" := by decide
    have n2 : (32 : UInt8) ∉ Sdp.asc "0" := by decide
    have n3 : (47 : UInt8) ∉ Sdp.asc "PCMU" := by decide
    have n4 : (47 : UInt8) ∉ Sdp.itoa (f : Int) := Sdp.itoa_nat_notin f hf 47 (by decide)
    have e1 : Sdp.asc "rtpmap" = str "rtpmap" := rfl
    have dpt : decimal (Sdp.asc "0") = some 0 := by decide
    have hcont : gPCMUM0.fmts.contains 0 = true := by decide
    simp only [addAttr, before_append 58 _ _ n1, after_append 58 _ _ n1]
    rw [if_pos e1]
    simp only [Option.bind, readRtpMap,
      before_append 32 _ _ n2, after_append 32 _ _ n2, dpt, fields_append 47 _ _ n3, fields_none 47 _ n4, decimal_itoa f hf, Option.map,
      hcont, if_true]
    rfl
  rw [ml_m _ _ _ _ _ hm, ml_a _ _ _ _ _ hr, ml_a _ _ _ _ _ hctl]
  rfl

/- ---------------- opus ---------------- -/

def opusM0 : Media := { media := str "audio", port := str "0", proto := str "RTP/AVP", fmts := [101] }
def opusM1 : Media := { opusM0 with rtpmaps := [{ pt := 101, encoding := str "opus", clockRate := 48000, params := some (Sdp.asc "2") }] }
def specOpus (sid : Nat) : Media := { opusM1 with control := some (Sdp.asc "streamid=" ++ Sdp.itoa (sid : Int)) }

theorem section_opus (c : Sdp.Codec) (f : Int) (sid : Nat) (a : Option Bytes) (rest : List Bytes)
    (done : List Media) (cur : Option Media) :
    mediaLoop (Sdp.audioLines c { audioPt := Sdp.ptOpus, samplingFrequency := f, asc := a } sid ++ rest) done cur =
      mediaLoop rest (closePrev cur done) (some (specOpus sid)) := by
  rw [Sdp.audioLines_opus]
  simp only [List.cons_append, List.nil_append]
  have l1 : Sdp.asc "m=audio 0 RTP/AVP " ++ Sdp.itoa Sdp.ptOpus = 109 :: 61 :: Sdp.asc "audio 0 RTP/AVP 101" := by decide
  have l2 : Sdp.asc "a=rtpmap:" ++ Sdp.itoa Sdp.ptOpus ++ Sdp.asc " opus/48000/2" = 97 :: 61 :: Sdp.asc "rtpmap:101 opus/48000/2" := by decide
  obtain ⟨l4, hctl⟩ := control_attr opusM1 sid
  rw [l1, l2, l4]
  have hm : readM (Sdp.asc "audio 0 RTP/AVP 101") = some opusM0 := by decide
  have hr : addAttr opusM0 (Sdp.asc "rtpmap:101 opus/48000/2") = some opusM1 := by decide
  rw [ml_m _ _ _ _ _ hm, ml_a _ _ _ _ _ hr, ml_a _ _ _ _ _ hctl]
  rfl

/- ---------------- what the RFC reader learns ---------------- -/

def specVideo (c : Sdp.Codec) : Sdp.VideoCfg → Media
  | .avc sps pps => specAvc c sps pps 0
  | .hevc vps sps pps => specHevc c vps sps pps 0

def specAudio (c : Sdp.Codec) : Sdp.AudioCfg → Media
  | .aac cfg f => specAac c cfg f 1
  | .pcma f => specPCMA f 1
  | .pcmu f => specPCMU f 1
  | .opus => specOpus 1

theorem mem3 {α} (x : α) (a b c : List α) (h : x ∈ a ++ b ++ c) : x ∈ a ∨ x ∈ b ∨ x ∈ c := Sdp.mem_append3 x a b c h

theorem read_packed (c : Sdp.Codec) (hc : Sdp.CodecLaws c) (tool : Bytes) (ht : (13 : UInt8) ∉ tool)
    (v : Sdp.VideoCfg) (a : Sdp.AudioCfg) (ha : a.WF) :
    read (Sdp.joinCRLF (Sdp.headerLines tool ++ Sdp.videoLines c v.info 0 ++ Sdp.audioLines c a.info 1)) =
      some [specVideo c v, specAudio c a] := by
  have hh := Sdp.no_cr_header tool ht
  have key : ∀ (VL AL : List Bytes) (mV mA : Media),
      (∀ l ∈ VL, (13 : UInt8) ∉ l) → (∀ l ∈ AL, (13 : UInt8) ∉ l) →
      (∀ rest done cur, mediaLoop (VL ++ rest) done cur = mediaLoop rest (closePrev cur done) (some mV)) →
      (∀ rest done cur, mediaLoop (AL ++ rest) done cur = mediaLoop rest (closePrev cur done) (some mA)) →
      read (Sdp.joinCRLF (Sdp.headerLines tool ++ VL ++ AL)) = some [mV, mA] := by
    intro VL AL mV mA hv hal hsv hsa
    have hcr : ∀ l ∈ Sdp.headerLines tool ++ (VL ++ AL), (13 : UInt8) ∉ l := by
      intro l hl
      simp only [List.mem_append] at hl
      rcases hl with h | h | h
      · exact hh l h
      · exact hv l h
      · exact hal l h
    rw [List.append_assoc, read_header tool (VL ++ AL) hcr]
    have := hsa [] (closePrev none []) (some mV)
    rw [List.append_nil] at this
    rw [hsv, this]
    simp [mediaLoop, closePrev]
  cases v with
  | avc sps pps =>
    cases a with
    | aac cfg f => exact key _ _ _ _ (Sdp.no_cr_avc c hc sps pps 0) (Sdp.no_cr_aac c hc cfg f 1) (section_avc c hc sps pps 0) (section_aac c hc cfg f 1 ha.2)
    | pcma f => exact key _ _ _ _ (Sdp.no_cr_avc c hc sps pps 0) (Sdp.no_cr_PCMA c f 1 ha none) (section_avc c hc sps pps 0) (section_PCMA c f 1 ha none)
    | pcmu f => exact key _ _ _ _ (Sdp.no_cr_avc c hc sps pps 0) (Sdp.no_cr_PCMU c f 1 ha none) (section_avc c hc sps pps 0) (section_PCMU c f 1 ha none)
    | opus => exact key _ _ _ _ (Sdp.no_cr_avc c hc sps pps 0) (Sdp.no_cr_opus c 48000 1 none) (section_avc c hc sps pps 0) (section_opus c 48000 1 none)
  | hevc vps sps pps =>
    cases a with
    | aac cfg f => exact key _ _ _ _ (Sdp.no_cr_hevc c hc vps sps pps 0) (Sdp.no_cr_aac c hc cfg f 1) (section_hevc c hc vps sps pps 0) (section_aac c hc cfg f 1 ha.2)
    | pcma f => exact key _ _ _ _ (Sdp.no_cr_hevc c hc vps sps pps 0) (Sdp.no_cr_PCMA c f 1 ha none) (section_hevc c hc vps sps pps 0) (section_PCMA c f 1 ha none)
    | pcmu f => exact key _ _ _ _ (Sdp.no_cr_hevc c hc vps sps pps 0) (Sdp.no_cr_PCMU c f 1 ha none) (section_hevc c hc vps sps pps 0) (section_PCMU c f 1 ha none)
    | opus => exact key _ _ _ _ (Sdp.no_cr_hevc c hc vps sps pps 0) (Sdp.no_cr_opus c 48000 1 none) (section_hevc c hc vps sps pps 0) (section_opus c 48000 1 none)

/-- what an RFC 4566 / 6184 / 7798 / 3640 receiver learns about the two streams -/
def VideoLearned (c : Sdp.Codec) (m : Media) : Sdp.VideoCfg → Prop
  | .avc sps pps => ∃ s, m.stream = some s ∧ s.media = str "video" ∧ s.pt = 96 ∧ s.encoding = str "H264" ∧ s.clockRate = 90000
      ∧ s.control = some (str "streamid=0") ∧ s.h264Sets c.b64dec = some [sps, pps]
  | .hevc vps sps pps => ∃ s, m.stream = some s ∧ s.media = str "video" ∧ s.pt = 98 ∧ s.encoding = str "H265" ∧ s.clockRate = 90000
      ∧ s.control = some (str "streamid=0") ∧ s.h265Sets c.b64dec = some ([vps], [sps], [pps])

def AudioLearned (c : Sdp.Codec) (m : Media) : Sdp.AudioCfg → Prop
  | .aac cfg f => ∃ s, m.stream = some s ∧ s.media = str "audio" ∧ s.pt = 97 ∧ s.encoding = str "MPEG4-GENERIC" ∧ s.clockRate = f
      ∧ s.encParams = some (str "2") ∧ s.control = some (str "streamid=1") ∧ s.aacConfig c.hexdec = some cfg
  | .pcma f => ∃ s, m.stream = some s ∧ s.media = str "audio" ∧ s.pt = 8 ∧ s.encoding = str "PCMA" ∧ s.clockRate = f
      ∧ s.control = some (str "streamid=1")
  | .pcmu f => ∃ s, m.stream = some s ∧ s.media = str "audio" ∧ s.pt = 0 ∧ s.encoding = str "PCMU" ∧ s.clockRate = f
      ∧ s.control = some (str "streamid=1")
  | .opus => ∃ s, m.stream = some s ∧ s.media = str "audio" ∧ s.pt = 101 ∧ s.encoding = str "opus" ∧ s.clockRate = 48000
      ∧ s.encParams = some (str "2") ∧ s.control = some (str "streamid=1")

theorem ctl0 : Sdp.asc "streamid=" ++ Sdp.itoa ((0 : Nat) : Int) = str "streamid=0" := by decide
theorem ctl1 : Sdp.asc "streamid=" ++ Sdp.itoa ((1 : Nat) : Int) = str "streamid=1" := by decide

theorem video_learned (c : Sdp.Codec) (hc : Sdp.CodecLaws c) (v : Sdp.VideoCfg) : VideoLearned c (specVideo c v) v := by
  cases v with
  | avc sps pps =>
    obtain ⟨_, hs2, _⟩ := Sdp.b64_mem c hc sps
    obtain ⟨_, hp2, _⟩ := Sdp.b64_mem c hc pps
    refine ⟨_, rfl, rfl, rfl, rfl, rfl, ?_, ?_⟩
    · show some (Sdp.asc "streamid=" ++ Sdp.itoa ((0 : Nat) : Int)) = _
      rw [ctl0]
    · have k1 : (Sdp.asc "packetization-mode" = str "sprop-parameter-sets") = False := by simp; decide
      have k2 : (Sdp.asc "sprop-parameter-sets" = str "sprop-parameter-sets") = True := by simp; rfl
      simp only [Stream.h264Sets, Stream.param, specVideo, specAvc, avcM2, avcM1, avcM0, avcParams, Media.stream,
        List.find?, decide_true, k1, k2, decide_false, Option.map, Option.bind, Option.getD, b64List,
        fields_append 44 _ _ hs2, fields_none 44 _ hp2]
      simp [hc.b64_rt]
  | hevc vps sps pps =>
    obtain ⟨_, hv2, _⟩ := Sdp.b64_mem c hc vps
    obtain ⟨_, hs2, _⟩ := Sdp.b64_mem c hc sps
    obtain ⟨_, hp2, _⟩ := Sdp.b64_mem c hc pps
    refine ⟨_, rfl, rfl, rfl, rfl, rfl, ?_, ?_⟩
    · show some (Sdp.asc "streamid=" ++ Sdp.itoa ((0 : Nat) : Int)) = _
      rw [ctl0]
    · have e1 : (Sdp.asc "profile-id" = str "sprop-vps") = False := by simp; decide
      have e2 : (Sdp.asc "sprop-sps" = str "sprop-vps") = False := by simp; decide
      have e3 : (Sdp.asc "sprop-pps" = str "sprop-vps") = False := by simp; decide
      have e4 : (Sdp.asc "sprop-vps" = str "sprop-vps") = True := by simp; rfl
      have e5 : (Sdp.asc "profile-id" = str "sprop-sps") = False := by simp; decide
      have e6 : (Sdp.asc "sprop-sps" = str "sprop-sps") = True := by simp; rfl
      have e7 : (Sdp.asc "profile-id" = str "sprop-pps") = False := by simp; decide
      have e8 : (Sdp.asc "sprop-sps" = str "sprop-pps") = False := by simp; decide
      have e9 : (Sdp.asc "sprop-pps" = str "sprop-pps") = True := by simp; rfl
      simp only [Stream.h265Sets, Stream.param, specVideo, specHevc, hevcM2, hevcM1, hevcM0, Sdp.hevcParams, Media.stream,
        List.find?, decide_true, decide_false, e1, e2, e3, e4, e5, e6, e7, e8, e9, Option.map, Option.bind, Option.getD, b64List,
        fields_none 44 _ hv2, fields_none 44 _ hs2, fields_none 44 _ hp2]
      simp [hc.b64_rt]

theorem audio_learned (c : Sdp.Codec) (hc : Sdp.CodecLaws c) (a : Sdp.AudioCfg) : AudioLearned c (specAudio c a) a := by
  cases a with
  | aac cfg f =>
    refine ⟨_, rfl, rfl, rfl, rfl, rfl, rfl, ?_, ?_⟩
    · show some (Sdp.asc "streamid=" ++ Sdp.itoa ((1 : Nat) : Int)) = _
      rw [ctl1]
    · have e1 : (Sdp.asc "profile-level-id" = str "config") = False := by simp; decide
      have e2 : (Sdp.asc "mode" = str "config") = False := by simp; decide
      have e3 : (Sdp.asc "sizelength" = str "config") = False := by simp; decide
      have e4 : (Sdp.asc "indexlength" = str "config") = False := by simp; decide
      have e5 : (Sdp.asc "indexdeltalength" = str "config") = False := by simp; decide
      have e6 : (Sdp.asc "config" = str "config") = True := by simp; rfl
      simp only [Stream.aacConfig, Stream.param, specAudio, specAac, aacM2, aacM1, aacM0, Sdp.aacParams, Media.stream,
        List.find?, decide_true, decide_false, e1, e2, e3, e4, e5, e6, Option.map, Option.bind, Option.getD]
      simp [hc.hex_rt]
  | pcma f =>
    refine ⟨_, rfl, rfl, rfl, rfl, rfl, ?_⟩
    show some (Sdp.asc "streamid=" ++ Sdp.itoa ((1 : Nat) : Int)) = _
    rw [ctl1]
  | pcmu f =>
    refine ⟨_, rfl, rfl, rfl, rfl, rfl, ?_⟩
    show some (Sdp.asc "streamid=" ++ Sdp.itoa ((1 : Nat) : Int)) = _
    rw [ctl1]
  | opus =>
    refine ⟨_, rfl, rfl, rfl, rfl, rfl, rfl, ?_⟩
    show some (Sdp.asc "streamid=" ++ Sdp.itoa ((1 : Nat) : Int)) = _
    rw [ctl1]

end Lal.SdpSpec
