import LalModel.Proof.AdmissionDepart
/- C03 — refusals: an arrival the server refuses leaves every group and the notification log as they
   were (a refused relay-pull attach additionally ends the attempt: its one `relay_pull_stop`), and the
   refused connection is closed. -/
namespace Lal.Adm
open Grp Spec

/-- the state after a refused `publish` -/
theorem rPublish_refused_eq {s : Srv} {c : Sid} {st : Stream} {a : Bool} (h : (rPublish Code.fixed s c st a).2 = .refused) :
    ∃ r, s.sess c = some (.rtmp r) ∧ (rPublish Code.fixed s c st a).1 =
      (s.modR c fun r => { r with typ := .pub, stream := st }).modR c fun r => { r with flag := true, closed := true } := by
  unfold rPublish at h ⊢
  split
  · rename_i r hr
    simp only [hr] at h
    refine ⟨r, hr, ?_⟩
    split
    · rename_i h1; simp [h1] at h
    · rename_i h1
      split
      · rename_i h2; simp [h1, h2, Code.fixed] at h
      · rename_i h2
        simp only [h1, h2, Bool.false_eq_true, if_false] at h
        dsimp only
        split
        · rename_i h3; simp [h3] at h
        · rfl
  · rename_i h1
    split at h
    · exact absurd ‹_› (h1 _)
    · simp at h

theorem rPlay_refused_eq {s : Srv} {c : Sid} {st : Stream} {a : Bool} {n : Sid} (h : (rPlay Code.fixed s c st a n).2 = .refused) :
    ∃ r, s.sess c = some (.rtmp r) ∧ (rPlay Code.fixed s c st a n).1 =
      (s.modR c fun r => { r with typ := .sub, stream := st }).modR c fun r => { r with flag := true, closed := true } := by
  unfold rPlay at h ⊢
  split
  · rename_i r hr
    simp only [hr] at h
    refine ⟨r, hr, ?_⟩
    split
    · rename_i h1; simp [h1] at h
    · rename_i h1
      split
      · rename_i h2; simp [h1, h2, Code.fixed] at h
      · rename_i h2
        simp only [h1, h2, Bool.false_eq_true, if_false] at h
        dsimp only
        split
        · rename_i h3; simp [h3] at h
        · rfl
  · rename_i h1
    split at h
    · exact absurd ‹_› (h1 _)
    · simp at h

/-- the tail of handleTcpConnect does nothing for a connection whose only session was refused -/
theorem rtspTail_flagged_pub {s : Srv} {c p : Sid} {k : SConn} {pp : SPub} (hk : k.pub = some p)
    (hp : s.sess p = some (.rtspPub pp)) (hpc : p ≠ c) (hf : pp.flag = true) :
    (rtspTail Code.fixed s c k).groups = s.groups ∧ (rtspTail Code.fixed s c k).log = s.log := by
  unfold rtspTail
  simp [hk, hpc, hp, hf, Code.fixed]

theorem rtspTail_flagged_sub {s : Srv} {c q : Sid} {k : SConn} {qq : SSub} (hk0 : k.pub = none) (hk : k.sub = some q)
    (hq : s.sess q = some (.rtspSub qq)) (hqc : q ≠ c) (hf : qq.flag = true) :
    (rtspTail Code.fixed s c k).groups = s.groups ∧ (rtspTail Code.fixed s c k).log = s.log := by
  unfold rtspTail
  simp [hk0, hk, hqc, hq, hf, Code.fixed]

theorem sAnnounce_refused {s : Srv} {c p : Sid} {st : Stream} {a : Bool} (h : (sAnnounce Code.fixed s c p st a).2 = .refused) :
    (sAnnounce Code.fixed s c p st a).1.groups = s.groups ∧ (sAnnounce Code.fixed s c p st a).1.log = s.log := by
  unfold sAnnounce at h ⊢
  split
  · rename_i k hk
    simp only [hk] at h
    split
    · rename_i h1; simp [h1] at h
    · rename_i h1
      split
      · rename_i h2; simp [h1, h2] at h
      · rename_i h2
        simp only [h1, h2, Bool.false_eq_true, if_false] at h
        dsimp only
        split
        · rename_i h3; simp [h3] at h
        · have hpc : p ≠ c := by
            rintro rfl
            simp [Srv.fresh, hk] at h1
          have := rtspTail_flagged_pub (c := c) (p := p) (k := { k with pub := some p })
            (s := ((s.setS c (.rtspConn { k with pub := some p })).setS p (.rtspPub { conn := c, stream := st })).modSP p fun x => { x with flag := true })
            (pp := { conn := c, stream := st, flag := true }) rfl (by simp [Srv.modSP]) hpc rfl
          simpa using this
  · rename_i h1
    split at h
    · exact absurd ‹_› (h1 _)
    · simp at h

theorem sDescribe_refused {s : Srv} {c q : Sid} {st : Stream} {a : Bool} (h : (sDescribe Code.fixed s c q st a).2 = .refused) :
    (sDescribe Code.fixed s c q st a).1.groups = s.groups ∧ (sDescribe Code.fixed s c q st a).1.log = s.log := by
  unfold sDescribe at h ⊢
  split
  · rename_i k hk
    simp only [hk] at h
    split
    · rename_i h1; simp [h1] at h
    · rename_i h1
      split
      · rename_i h2; simp [h1, h2] at h
      · rename_i h2
        simp only [h1, h2, Bool.false_eq_true, if_false] at h
        dsimp only
        split
        · rename_i h3; simp [h3] at h
        · have hqc : q ≠ c := by
            rintro rfl
            simp [Srv.fresh, hk] at h1
          have hk0 : k.pub = none := by
            simp [Code.fixed] at h2; exact h2.1
          have := rtspTail_flagged_sub (c := c) (q := q) (k := { k with sub := some q })
            (s := ((s.setS c (.rtspConn { k with sub := some q })).setS q (.rtspSub { conn := c, stream := st })).modSS q fun x => { x with flag := true })
            (qq := { conn := c, stream := st, flag := true }) hk0 rfl (by simp [Srv.modSS]) hqc rfl
          simpa using this
  · rename_i h1
    split at h
    · exact absurd ‹_› (h1 _)
    · simp at h

theorem custAdd_refused {s : Srv} {k : Sid} {st : Stream} (h : (custAdd s k st).2 = .refused) : (custAdd s k st).1 = s := by
  unfold custAdd at h ⊢
  split
  · rfl
  · rename_i h1
    simp only [h1, Bool.false_eq_true, if_false] at h
    dsimp only at h ⊢
    split
    · rename_i h3; simp [h3] at h
    · rfl

theorem rtpPub_refused {s : Srv} {k : Sid} {st : Stream} (h : (rtpPub Code.fixed s k st).2 = .refused) : (rtpPub Code.fixed s k st).1 = s := by
  unfold rtpPub at h ⊢
  split
  · rfl
  · rename_i h1
    simp only [h1, Bool.false_eq_true, if_false] at h
    dsimp only at h ⊢
    split
    · rename_i h3; simp [h3] at h
    · rfl

/-- a refused relay-pull attach: the attempt is over (one `relay_pull_stop`), the stream's input and
    pipeline are those of the publisher that overtook it -/
theorem pullAttach_refused {s : Srv} {a : Sid} (h : (pullAttach Code.fixed s a).2 = .refused) :
    ∃ p, s.sess a = some (.pull p) ∧ p.st = .inflight ∧
      (pullAttach Code.fixed s a).1 = (s.modP a fun x => { x with st := .done }).delPull Code.fixed a p.stream ∧
      (s.groups p.stream).isSome := by
  unfold pullAttach at h ⊢
  split
  · rename_i p hp
    simp only [hp] at h
    refine ⟨p, hp, ?_⟩
    split
    · rename_i h1; simp [h1] at h
    · rename_i h1
      simp only [h1, Bool.false_eq_true, if_false] at h
      refine ⟨by simpa using h1, ?_⟩
      split
      · rename_i hg; simp [hg] at h
      · rename_i g hg
        simp only [hg] at h
        refine ⟨?_, by simp [hg]⟩
        cases hr : p.rtsp
        · simp only [hr, Bool.false_eq_true, if_false] at h ⊢
          split
          · rename_i h3; simp [h3] at h
          · rfl
        · simp only [hr, if_true] at h ⊢
          split
          · rename_i h3; simp [h3] at h
          · rfl
  · rename_i h1
    split at h
    · exact absurd ‹_› (h1 _)
    · simp at h

end Lal.Adm
