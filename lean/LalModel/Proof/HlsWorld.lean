import LalModel.Proof.HlsRun
/- Whole event sequences: publish / PAT-PMT / frames / unpublish / delayed cleanup / re-publish. -/
namespace Lal.HlsC
open Lal Lal.Hls Lal.Fs

variable {PP : Bytes → Prop} {kd : Prop} {c : Cfg}

/-- What the event source must respect (everything lal's `Rtmp2MpegtsRemuxer` + `Group` guarantee):
    `alive` = a muxer exists, `rdy` = it has been given PAT/PMT. Frames are fed only after PAT/PMT; every PAT/PMT
    satisfies `PP`; frames and cached audio are well formed. -/
def WF (PP : Bytes → Prop) (kd : Prop) : Bool → Bool → List Ev → Prop
  | _, _, [] => True
  | alive, rdy, .start :: es => if alive then WF PP kd alive rdy es else WF PP kd true false es
  | alive, rdy, .patpmt b :: es => (alive = true → PP b) ∧ WF PP kd alive (alive || rdy) es
  | alive, rdy, .pend a :: es => PendOk kd a ∧ WF PP kd alive rdy es
  | alive, rdy, .feed f _ :: es => (alive = true → rdy = true ∧ FrameOk kd f) ∧ WF PP kd alive rdy es
  | _, _, .dispose :: es => WF PP kd false false es
  | alive, rdy, .cleanup :: es => WF PP kd alive rdy es

/-- The world invariant. -/
def WInv (PP : Bytes → Prop) (kd : Prop) (c : Cfg) (alive rdy : Bool) (w : World) (o : Obs) : Prop :=
  o.dir = w.dir ∧ (∀ a, w.pending = some a → PendOk kd a) ∧
  match w.mux with
  | none => alive = false ∧ Good PP c.delThr o
  | some m => alive = true ∧ (rdy = false → m.opened = false) ∧ ∃ base, Inv PP kd False (rdy = true) c base m o

theorem winv_none {alive rdy : Bool} {w : World} {o : Obs} (hd : o.dir = w.dir)
    (hp : ∀ a, w.pending = some a → PendOk kd a) (hm : w.mux = none) (ha : alive = false) (hg : Good PP c.delThr o) :
    WInv PP kd c alive rdy w o := by
  refine ⟨hd, hp, ?_⟩; rw [hm]; exact ⟨ha, hg⟩

theorem winv_some {alive rdy : Bool} {w : World} {o : Obs} {m : Mux} {base : Nat} (hd : o.dir = w.dir)
    (hp : ∀ a, w.pending = some a → PendOk kd a) (hm : w.mux = some m) (ha : alive = true)
    (hc : rdy = false → m.opened = false) (hi : Inv PP kd False (rdy = true) c base m o) :
    WInv PP kd c alive rdy w o := by
  refine ⟨hd, hp, ?_⟩; rw [hm]; exact ⟨ha, hc, base, hi⟩

theorem slot_newMux (x : Nat) (n : Nat) : slot c { newMux c with frag := n } x = {} := by
  unfold slot newMux
  simp only [List.getD_eq_getElem?_getD, List.getElem?_replicate]
  split <;> rfl

theorem inv_setPatpmt {aw rdy : Prop} {base : Nat} {m : Mux} {o : Obs} (h : Inv PP kd aw rdy c base m o) (b : Bytes) (hb : PP b) :
    Inv PP kd aw True c base { m with patpmt := b } o :=
  { ring := ⟨h.ring.len, h.ring.nle, h.ring.ble, h.ring.bfill, h.ring.used, h.ring.unused⟩
    good := h.good, pp := fun _ => hb, closedSegs := h.closedSegs, curSeg := h.curSeg, vers := h.vers }

theorem inv_rdy_true {aw : Prop} {base : Nat} {m : Mux} {o : Obs} {r : Bool} (h : Inv PP kd aw (r = true) c base m o) (hr : r = true) :
    Inv PP kd aw True c base m o :=
  { ring := h.ring, good := h.good, pp := fun _ => h.pp hr, closedSegs := h.closedSegs, curSeg := h.curSeg, vers := h.vers }

theorem inv_rdy_of_true {aw : Prop} {base : Nat} {m : Mux} {o : Obs} (h : Inv PP kd aw True c base m o) (rdy : Prop) :
    Inv PP kd aw rdy c base m o :=
  { ring := h.ring, good := h.good, pp := fun _ => h.pp trivial, closedSegs := h.closedSegs, curSeg := h.curSeg, vers := h.vers }

/-- `Start()` on a directory that satisfies the property: the new muxer continues after the playlist it finds. -/
theorem inv_start {o : Obs} (hg : Good PP c.delThr o) :
    let m' : Mux := match o.dir .live with
      | some { content := .doc pl, .. } => { newMux c with frag := pl.mediaSeq + pl.entries.length }
      | _ => newMux c
    ∃ base, Inv PP kd False (false = true) c base m' o ∧ m'.opened = false := by
  have key : ∀ n, (∀ v ∈ o.versions, v.fin ≤ n) → Inv PP kd False (false = true) c n { newMux c with frag := n } o := by
    intro n hn
    have hnxt : nxt { newMux c with frag := n } = n := by unfold nxt cid newMux; simp
    constructor
    · constructor
      · simp [newMux]
      · simp [newMux]
      · exact Nat.le_refl _
      · intro _; rfl
      · intro x h1 h2 _; rw [hnxt] at h2; omega
      · intro y _ _; rw [slot_newMux]
    · exact hg
    · intro h; cases h
    · intro x now h1 h2 _ _
      have : cid { newMux c with frag := n } = n := by unfold cid newMux; simp
      omega
    · intro h; cases h
    · intro k v hkv
      left
      have hmem : v ∈ o.versions := by
        rw [List.getElem?_eq_some_iff] at hkv
        obtain ⟨hk, rfl⟩ := hkv
        exact List.getElem_mem hk
      exact hn v hmem
  cases hl : o.dir .live with
  | none =>
    have hv := hg.live_none hl
    exact ⟨0, by
      have := key 0 (by intro v hv'; rw [hv] at hv'; cases hv')
      exact this, rfl⟩
  | some f =>
    obtain ⟨pl, rfl, hh⟩ := hg.live_doc f hl
    refine ⟨pl.fin, key pl.fin ?_, rfl⟩
    intro v hv
    cases hvs : o.versions with
    | nil => rw [hvs] at hv; cases hv
    | cons a l =>
      rw [hvs] at hh hv
      simp only [List.head?_cons, Option.some.injEq] at hh
      subst hh
      have hm := hg.mono
      rw [hvs, List.pairwise_cons] at hm
      cases hv with
      | head => exact Nat.le_refl _
      | tail _ hv' => exact (hm.1 v hv').2

theorem good_removeAll {o : Obs} (hg : Good PP c.delThr o) : Good PP c.delThr (o.step (.removeAll .dir)) := by
  have hd : ∀ q, (o.step (.removeAll .dir)).dir q = none := fun q => by rw [step_dir]; simp [Fs.apply, under]
  have hv : (o.step (.removeAll .dir)).versions = [] := by
    show (match Fs.apply under o.dir (.removeAll .dir) .live with
      | none => []
      | some f => match f.content with
        | .doc pl => if o.versions.head? = some pl then o.versions else pl :: o.versions
        | .data _ => o.versions) = []
    simp [Fs.apply, under]
  constructor
  · intro f hf; rw [hd] at hf; cases hf
  · intro _; exact hv
  · intro v hv'; rw [hv] at hv'; cases hv'
  · rw [hv]; exact List.Pairwise.nil

/-- One event: every intermediate directory is consistent and the world invariant is re-established. -/
theorem step_spec {alive rdy : Bool} {w : World} {o : Obs} (e : Ev) (es : List Ev)
    (hw : WInv PP kd c alive rdy w o) (hwf : WF PP kd alive rdy (e :: es)) :
    AllGood PP c.delThr o (step c w e).2 ∧
    ∃ alive' rdy', WInv PP kd c alive' rdy' (step c w e).1 (o.run (step c w e).2) ∧ WF PP kd alive' rdy' es := by
  obtain ⟨hdir, hpend, hmux⟩ := hw
  cases e with
  | start =>
    cases hm : w.mux with
    | some m0 =>
      rw [hm] at hmux
      obtain ⟨ha, hrest⟩ := hmux
      subst ha
      simp only [step, hm]
      obtain ⟨hcl, base, hinv⟩ := hrest
      exact ⟨hinv.good, true, rdy, winv_some hdir hpend hm rfl hcl hinv, (by simpa [WF] using hwf)⟩
    | none =>
      rw [hm] at hmux
      obtain ⟨ha, hg⟩ := hmux
      subst ha
      simp only [step, hm]
      have hwf' : WF PP kd true false es := by simpa [WF] using hwf
      obtain ⟨base, hinv, hop⟩ := inv_start (kd := kd) hg
      rw [hdir] at hinv hop
      obtain ⟨hag, hinv'⟩ := inv_frame_ops (ops := [.mkdirAll .dir, .readFile .live])
        (by intro op hop'
            have : op = .mkdirAll .dir ∨ op = .readFile .live := by simpa using hop'
            rcases this with rfl | rfl
            · exact noSegNoLive_mkdirAll _
            · exact noSegNoLive_readFile _) hinv
      refine ⟨hag, true, false, winv_some (base := base) ?_ ?_ rfl rfl (fun _ => hop) hinv', hwf'⟩
      · rw [run_dir]; simp [hdir, applyAll, Fs.apply]
      · intro a ha; cases ha
  | patpmt b =>
    cases hm : w.mux with
    | some m0 =>
      rw [hm] at hmux
      obtain ⟨ha, hcl, base, hinv⟩ := hmux
      subst ha
      simp only [step, hm]
      have hwf' : PP b ∧ WF PP kd true true es := by simpa [WF] using hwf
      exact ⟨hinv.good, true, true, winv_some (base := base) hdir hpend rfl rfl (fun h => by cases h)
        (inv_rdy_of_true (inv_setPatpmt hinv b hwf'.1) _), hwf'.2⟩
    | none =>
      rw [hm] at hmux
      obtain ⟨ha, hg⟩ := hmux
      subst ha
      simp only [step, hm]
      have hwf' : WF PP kd false rdy es := by simpa [WF] using hwf
      exact ⟨hg, false, rdy, winv_none hdir hpend hm rfl hg, hwf'⟩
  | pend a =>
    have hwf' : PendOk kd a ∧ WF PP kd alive rdy es := by simpa [WF] using hwf
    simp only [step]
    have hgood : Good PP c.delThr o := by
      cases hm : w.mux with
      | none => rw [hm] at hmux; exact hmux.2
      | some m0 => rw [hm] at hmux; exact hmux.2.2.choose_spec.good
    refine ⟨hgood, alive, rdy, ⟨hdir, ?_, hmux⟩, hwf'.2⟩
    intro a' ha'
    simp only [Option.some.injEq] at ha'
    subst ha'; exact hwf'.1
  | feed f now =>
    cases hm : w.mux with
    | some m0 =>
      rw [hm] at hmux
      obtain ⟨ha, hcl, base, hinv⟩ := hmux
      subst ha
      have hwf' : (rdy = true ∧ FrameOk kd f) ∧ WF PP kd true rdy es := by simpa [WF] using hwf
      obtain ⟨⟨hr, hfo⟩, hwfes⟩ := hwf'
      subst hr
      simp only [step, hm]
      have hs := feed_spec (inv_rdy_true hinv rfl) trivial now f w.pending hfo hpend
      rw [hdir] at hs
      refine ⟨hs.1, true, true, winv_some (base := base) ?_ ?_ rfl rfl (fun h => by cases h) (inv_rdy_of_true hs.2.1 _), hwfes⟩
      · rw [run_dir, hdir]
      · intro a ha
        rcases hs.2.2 with hp | hp
        · rw [hp] at ha; exact hpend a ha
        · rw [hp] at ha; cases ha
    | none =>
      rw [hm] at hmux
      obtain ⟨ha, hg⟩ := hmux
      subst ha
      simp only [step, hm]
      have hwf' : WF PP kd false rdy es := by simpa [WF] using hwf
      exact ⟨hg, false, rdy, winv_none hdir hpend hm rfl hg, hwf'⟩
  | dispose =>
    have hwf' : WF PP kd false false es := by simpa [WF] using hwf
    cases hm : w.mux with
    | some m0 =>
      rw [hm] at hmux
      obtain ⟨ha, hcl, base, hinv⟩ := hmux
      simp only [step, hm]
      have hs := inv_closeFragment hinv true
      rw [hdir] at hs
      refine ⟨hs.1, false, false, winv_none ?_ hpend rfl rfl hs.2.1.good, hwf'⟩
      rw [run_dir, hdir]
    | none =>
      rw [hm] at hmux
      obtain ⟨ha, hg⟩ := hmux
      simp only [step, hm]
      exact ⟨hg, false, false, winv_none hdir hpend hm rfl hg, hwf'⟩
  | cleanup =>
    have hwf' : WF PP kd alive rdy es := by simpa [WF] using hwf
    simp only [step]
    have hgood : Good PP c.delThr o := by
      cases hm : w.mux with
      | none => rw [hm] at hmux; exact hmux.2
      | some m0 => rw [hm] at hmux; exact hmux.2.2.choose_spec.good
    split
    · cases hm : w.mux with
      | some m0 =>
        simp only []
        exact ⟨hgood, alive, rdy, ⟨hdir, hpend, hmux⟩, hwf'⟩
      | none =>
        rw [hm] at hmux
        simp only []
        have hg' := good_removeAll hgood
        refine ⟨⟨hgood, hg'⟩, alive, rdy, winv_none ?_ hpend rfl hmux.1 hg', hwf'⟩
        show (o.step (.removeAll .dir)).dir = _
        rw [step_dir, hdir]; rfl
    · exact ⟨hgood, alive, rdy, ⟨hdir, hpend, hmux⟩, hwf'⟩

/-- Every event sequence: the property holds after every single file-system operation. -/
theorem run_allGood : ∀ (evs : List Ev) {alive rdy : Bool} {w : World} {o : Obs},
    WInv PP kd c alive rdy w o → WF PP kd alive rdy evs → AllGood PP c.delThr o (run c w evs).flatten
  | [], _, _, w, o, hw, _ => by
    obtain ⟨_, _, hmux⟩ := hw
    show Good PP c.delThr o
    cases hm : w.mux with
    | none => rw [hm] at hmux; exact hmux.2
    | some m0 => rw [hm] at hmux; exact hmux.2.2.choose_spec.good
  | e :: es, _, _, w, o, hw, hwf => by
    obtain ⟨hag, alive', rdy', hw', hwf'⟩ := step_spec e es hw hwf
    have ih := run_allGood es hw' hwf'
    show AllGood PP c.delThr o ((step c w e).2 :: run c (step c w e).1 es).flatten
    rw [List.flatten_cons]
    exact allGood_append.mpr ⟨hag, ih⟩

/-- …and the world invariant holds at the end. -/
theorem run_winv : ∀ (evs : List Ev) {alive rdy : Bool} {w : World} {o : Obs},
    WInv PP kd c alive rdy w o → WF PP kd alive rdy evs →
    ∃ alive' rdy', WInv PP kd c alive' rdy' (runWorld c w evs) (o.run (run c w evs).flatten)
  | [], alive, rdy, _, _, hw, _ => ⟨alive, rdy, hw⟩
  | e :: es, _, _, w, o, hw, hwf => by
    obtain ⟨_, alive', rdy', hw', hwf'⟩ := step_spec e es hw hwf
    obtain ⟨a2, r2, h2⟩ := run_winv es hw' hwf'
    refine ⟨a2, r2, ?_⟩
    show WInv PP kd c a2 r2 (runWorld c (step c w e).1 es) (o.run ((step c w e).2 :: run c (step c w e).1 es).flatten)
    rw [List.flatten_cons, run_append]
    exact h2

theorem winv_init : WInv PP kd c false false {} {} := by
  refine winv_none rfl (fun a ha => by cases ha) rfl rfl ?_
  constructor
  · intro f hf; cases hf
  · intro _; rfl
  · intro v hv; cases hv
  · exact List.Pairwise.nil

end Lal.HlsC
