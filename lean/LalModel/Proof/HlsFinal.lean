import LalModel.Proof.TsObserver
import LalModel.Proof.HlsConcat
/-
  HLS, end to end: the remuxer drives lal's HLS muxer; the segment files it writes, concatenated, are the PAT/PMT-prefixed
  partition of the transport stream from the first opened segment on.
-/
namespace Lal.HlsFinal
open Lal Lal.TsRmx Lal.TsScenario Lal.TsObserver Lal.TsStream

section
variable {σ : Type} (obs : Observer σ)

theorem step_done (s : St) (o : σ) (e : Ev) (h : s.done = true) : (step obs s o e).1.done = true := by
  cases e with
  | flush => show (flushAudio obs s o).1.done = true; rw [TsContent.flushAudio_done]; exact h
  | msg m =>
    show (feed obs s o m).1.done = true
    unfold feed
    rw [if_pos h, TsContent.onPop_done]; exact h

/-- a whole run, as the observer saw it -/
theorem run_traced : ∀ (evs : List Ev) (s : St) (o : σ),
    (s.done = true → Traced obs o (run obs s o evs).2.2 (run obs s o evs).2.1)
    ∧ (s.done = false → s.cache = [] →
        ((run obs s o evs).2.2 = [] ∧ (run obs s o evs).2.1 = o)
        ∨ (∃ b rest, (run obs s o evs).2.2 = .patpmt b :: rest ∧ Traced obs (obs.patpmt o b) rest (run obs s o evs).2.1)) := by
  intro evs
  induction evs with
  | nil => intro s o; exact ⟨fun _ => traced_refl obs o, fun _ _ => Or.inl ⟨rfl, rfl⟩⟩
  | cons e es ih =>
    intro s o
    have hs := step_traced obs s o e
    have hi := ih (step obs s o e).1 (step obs s o e).2.1
    simp only [run]
    refine ⟨fun hd => ?_, fun hd hc => ?_⟩
    · exact traced_trans obs (hs.1 hd) (hi.1 (step_done obs s o e hd))
    · rcases hs.2 hd hc with ⟨h1, h2, h3, h4⟩ | ⟨b, rest, h1, h2, h3⟩
      · have hi' := hi.2 h3 h4
        rw [h2] at hi'
        rw [h1, h2]
        rcases hi' with ⟨a1, a2⟩ | ⟨b, rest, a1, a2⟩
        · exact Or.inl ⟨by simpa using a1, a2⟩
        · exact Or.inr ⟨b, rest, by simpa using a1, a2⟩
      · right
        refine ⟨b, rest ++ (run obs (step obs s o e).1 (step obs s o e).2.1 es).2.2, by rw [h1]; rfl, ?_⟩
        exact traced_trans obs h2 (hi.1 h3)

end

/-! ### with the HLS muxer as the observer -/

theorem calls_eq (m : HlsConcat.St) (cs : List (Item × List Item × List Item)) :
    ocalls HlsConcat.observer m cs = HlsConcat.calls m cs := by
  induction cs generalizing m with
  | nil => rfl
  | cons c cs ih => obtain ⟨it, n1, n2⟩ := c; simp only [ocalls, HlsConcat.calls]; rw [← ih]; rfl

theorem leaveOrder_eq (cs : List (Item × List Item × List Item)) : TsObserver.leaveOrder cs = HlsConcat.leaveOrder cs := by
  induction cs with
  | nil => rfl
  | cons c cs ih => obtain ⟨it, n1, n2⟩ := c; simp only [TsObserver.leaveOrder, HlsConcat.leaveOrder, ih]

theorem frames_items (out : List Out) : frames out = (itemsOf out).map (·.frame) := by
  induction out with
  | nil => rfl
  | cons x xs ih => cases x <;> simp [frames, itemsOf, ih]

theorem bytes_stream (its : List Item) : its.flatMap HlsConcat.bytesOf = (stream (its.map (·.frame))).flatten := by
  induction its with
  | nil => rfl
  | cons i is ih => simp only [List.flatMap_cons, List.map_cons, stream, List.flatten_append, ih, HlsConcat.bytesOf, Item.packets]

/-- cutting a concatenation of 188-byte packets into 188-byte pieces gives the packets back -/
theorem chunk188_flatten : ∀ (l : List Bytes), (∀ p ∈ l, p.length = 188) → ∀ fuel, fuel ≥ l.length →
    TsSpec.chunk188 fuel l.flatten = l := by
  intro l
  induction l with
  | nil => intro _ fuel _; cases fuel <;> rfl
  | cons p ps ih =>
    intro h fuel hf
    cases fuel with
    | zero => simp at hf
    | succ fuel =>
      have hp := h p (by simp)
      have hne : (p ++ ps.flatten).isEmpty = false := by
        cases p with
        | nil => simp at hp
        | cons x xs => rfl
      simp only [List.flatten_cons, TsSpec.chunk188, hne, Bool.false_eq_true, if_false]
      rw [List.take_left' hp, List.drop_left' hp, ih (fun q hq => h q (by simp [hq])) fuel (by simp at hf; omega)]

/-- HLS CONCAT. For every event list, with lal's HLS muxer (any segment duration) wired to the remuxer as the server
    wires it: when nothing has been sent there is no file; otherwise every segment file begins with the PAT/PMT the
    remuxer announced, and the files' contents after it, concatenated in the order of creation, are exactly the
    transport packets of the `OnTsPackets` calls from some call `k` on — a suffix of the stream an HTTP-TS consumer that
    was there from the start receives. -/
theorem hls_concat (fragMs : Nat) (evs : List Ev) :
    let r := run HlsConcat.observer {} { fragMs := fragMs } evs
    (r.2.2 = [] ∧ r.2.1.segs = [])
    ∨ (∃ b rest k, r.2.2 = .patpmt b :: rest ∧ k ≤ (frames rest).length
        ∧ (∀ g ∈ r.2.1.segs, g.take b.length = b)
        ∧ r.2.1.segs.flatMap (fun g => g.drop b.length) = (stream ((frames rest).drop k)).flatten) := by
  intro r
  have h := (run_traced HlsConcat.observer evs {} { fragMs := fragMs }).2 rfl rfl
  rcases h with ⟨h1, h2⟩ | ⟨b, rest, h1, cs, h2, h3⟩
  · left; exact ⟨h1, by show r.2.1.segs = []; rw [h2]⟩
  · right
    have hwf0 : HlsConcat.WF (HlsConcat.observer.patpmt { fragMs := fragMs } b) :=
      { pre := fun g hg => by simp [HlsConcat.observer] at hg, cur := fun h => by simp [HlsConcat.observer] at h }
    have hg := HlsConcat.calls_grows cs _ hwf0
    rw [← calls_eq, ← h2, ← leaveOrder_eq, h3] at hg
    obtain ⟨k, hk, hbody, _, _⟩ := hg.body
    have hpat : r.2.1.patpmt = b := by rw [hg.pat]; rfl
    refine ⟨b, rest, k, h1, by rw [frames_items]; simpa using hk, ?_, ?_⟩
    · intro g hgm
      have := hg.wf.pre g hgm
      rw [hpat] at this; exact this
    · have hb0 : HlsConcat.bodies (HlsConcat.observer.patpmt { fragMs := fragMs } b) = [] := by simp [HlsConcat.bodies, HlsConcat.observer]
      rw [hb0, List.nil_append] at hbody
      have : HlsConcat.bodies r.2.1 = r.2.1.segs.flatMap (fun g => g.drop b.length) := by simp only [HlsConcat.bodies, hpat]
      rw [← this, hbody, bytes_stream, frames_items, List.map_drop]

theorem stream_all188 (fs : List Ts.Frame) : ∀ p ∈ stream fs, p.length = 188 := by
  intro p hp
  simp only [stream, List.mem_flatMap] at hp
  obtain ⟨f, _, hpf⟩ := hp
  exact ((Ts.packLoop_all188 f f.raw.length true f.cc f.raw) p hpf).1

/-- …and therefore: a client that downloads the segments in order, strips the repeated PAT/PMT and cuts the rest into
    188-byte packets has the transport packets of the calls from `k` on, which the demultiplexer reads as exactly the PES
    packets of the frames packed from that call on (video and audio). -/
theorem hls_demux (fragMs : Nat) (aac : Bool) (evs : List Ev) (hb : ∀ e ∈ evs, EvBounded aac e) :
    let r := run HlsConcat.observer {} { fragMs := fragMs } evs
    r.2.2 = [] ∨ ∃ b rest k, r.2.2 = .patpmt b :: rest
      ∧ (let body := r.2.1.segs.flatMap (fun g => g.drop b.length)
         let pkts := TsSpec.chunk188 body.length body
         Demux.pidUnits vpid pkts = some ((vOf ((frames rest).drop k)).map unitOf)
         ∧ Demux.pidUnits apid pkts = some ((aOf ((frames rest).drop k)).map unitOf)) := by
  intro r
  rcases hls_concat fragMs evs with ⟨h1, _⟩ | ⟨b, rest, k, h1, _, _, h4⟩
  · exact Or.inl h1
  · right
    refine ⟨b, rest, k, h1, ?_⟩
    have hq0 : QInv aac ({} : St) := fun m hm => by simp at hm
    have hstep := run_step HlsConcat.observer aac evs {} { fragMs := fragMs } sinv_init (fun _ => rfl) hq0 hb
    have hfr : frames r.2.2 = frames rest := by rw [h1]; rfl
    have hd := demux_from hstep k
    rw [hfr] at hd
    simp only []
    rw [h4]
    have h188 := stream_all188 ((frames rest).drop k)
    have hlen : (stream ((frames rest).drop k)).flatten.length ≥ (stream ((frames rest).drop k)).length := by
      have : ∀ (l : List Bytes), (∀ p ∈ l, p.length = 188) → l.flatten.length ≥ l.length := by
        intro l hl
        induction l with
        | nil => simp
        | cons p ps ih =>
          have := ih (fun q hq => hl q (by simp [hq]))
          have hp := hl p (by simp)
          simp only [List.flatten_cons, List.length_append, List.length_cons]; omega
      exact this _ h188
    rw [chunk188_flatten _ h188 _ hlen]
    exact hd

end Lal.HlsFinal
