import LalModel.Proof.GroupFlv
import LalModel.Proof.GopRing
/-
  Every cached GOP starts with a key frame (C02 "each consumer's first video frame is a key frame": what a fresh
  consumer is replayed is `headers ++ cached GOPs`, `prologue_is_headers_then_gops`).

  `run_cache_pred`: any pair of predicates on the two caches that holds for a new cache and is kept by `clear`, by
  `feed` of a published message with that cache's item, and by `setMetadata`, holds in every reachable state of the
  group model (the generic form of `run_caches`).
-/
namespace Lal.Group
open Lal

theorem run_cache_pred (cfg : Cfg) (Pr Pf : GopCache.T → Prop)
    (hnewR : Pr (GopCache.new cfg.rtmpGopNum cfg.rtmpCap)) (hnewF : Pf (GopCache.new cfg.flvGopNum cfg.flvCap))
    (hclrR : ∀ g, Pr g → Pr (GopCache.clear g)) (hclrF : ∀ g, Pf g → Pf (GopCache.clear g))
    (hfeedR : ∀ g (m : InMsg), Pr g → Pr (GopCache.feed g m.typ m.payload (chunksWithoutSdf m)).1)
    (hfeedF : ∀ g (m : InMsg), Pf g → Pf (GopCache.feed g m.typ m.payload (tagWithoutSdf m)).1)
    (hmetaR : ∀ g w wo, Pr g → Pr (GopCache.setMetadata g w wo))
    (hmetaF : ∀ g w wo, Pf g → Pf (GopCache.setMetadata g w wo))
    (evs : List Ev) : Pr (run cfg evs).rtmpGop ∧ Pf (run cfg evs).flvGop := by
  unfold run
  have : ∀ (s0 : St), Inv s0 → Pr s0.rtmpGop ∧ Pf s0.flvGop →
      Pr (evs.foldl step s0).rtmpGop ∧ Pf (evs.foldl step s0).flvGop := by
    induction evs with
    | nil => intro s0 _ h; exact h
    | cons e es ih =>
      intro s0 hI h
      simp only [List.foldl_cons]
      apply ih _ (step_inv s0 e hI)
      cases e with
      | addPub =>
        simp only [step]
        split
        · exact h
        · split <;> exact h
      | delPub =>
        simp only [step]
        split
        · exact h
        · have hg : (if s0.cfg.mergeSize > 0 then s0.mergeFlush else s0).rtmpGop = s0.rtmpGop ∧
              (if s0.cfg.mergeSize > 0 then s0.mergeFlush else s0).flvGop = s0.flvGop := by
            split
            · exact ⟨(flush_effect s0 hI).1.rtmpGop, (flush_effect s0 hI).1.flvGop⟩
            · exact ⟨rfl, rfl⟩
          show Pr (GopCache.clear _) ∧ Pf (GopCache.clear _)
          rw [hg.1, hg.2]
          exact ⟨hclrR _ h.1, hclrF _ h.2⟩
      | msg m =>
        simp only [step]
        split
        · unfold broadcast
          split
          · exact h
          · simp only
            obtain ⟨h0, f0⟩ := rtmpLoop_inv (Classify.isVideoKeyNalu m.typ m.payload)
              (if isHeaderMsg m then some (chunksWithoutSdf m) else none) s0 hI
            obtain ⟨_, _, _, _, fr, ff, _⟩ := forward_frame (rtmpLoop (Classify.isVideoKeyNalu m.typ m.payload)
              (if isHeaderMsg m then some (chunksWithoutSdf m) else none) s0) m h0
            obtain ⟨l1, l2, _⟩ := flvLoop_gops (Classify.isVideoKeyNalu m.typ m.payload) (isHeaderMsg m) (tagWithoutSdf m)
              (forward (rtmpLoop (Classify.isVideoKeyNalu m.typ m.payload) (if isHeaderMsg m then some (chunksWithoutSdf m) else none) s0) m)
            generalize flvLoop (Classify.isVideoKeyNalu m.typ m.payload) (isHeaderMsg m) (tagWithoutSdf m)
              (forward (rtmpLoop (Classify.isVideoKeyNalu m.typ m.payload) (if isHeaderMsg m then some (chunksWithoutSdf m) else none) s0) m) = s3 at l1 l2 ⊢
            have h3 : Pr s3.rtmpGop ∧ Pf s3.flvGop := by
              rw [l1, l2, fr, ff, f0.rtmpGop, f0.flvGop]; exact h
            have h4 : Pr (recordStage s3 m).rtmpGop ∧ Pf (recordStage s3 m).flvGop := by
              unfold recordStage; split <;> exact h3
            generalize recordStage s3 m = s4 at h4 ⊢
            have h5 : Pr (rtmpCacheStage s4 m).rtmpGop ∧ Pf (rtmpCacheStage s4 m).flvGop := by
              unfold rtmpCacheStage; split
              · refine ⟨?_, h4.2⟩
                show Pr (if (m.typ == 18) = true then _ else _)
                split
                · exact hmetaR _ _ _ (hfeedR _ m h4.1)
                · exact hfeedR _ m h4.1
              · exact h4
            generalize rtmpCacheStage s4 m = s5 at h5 ⊢
            have h6 : Pr (flvCacheStage s5 m).rtmpGop ∧ Pf (flvCacheStage s5 m).flvGop := by
              unfold flvCacheStage; split
              · refine ⟨h5.1, ?_⟩
                show Pf (if (m.typ == 18) = true then _ else _)
                split
                · exact hmetaF _ _ _ (hfeedF _ m h5.2)
                · exact hfeedF _ m h5.2
              · exact h5
            generalize flvCacheStage s5 m = s6 at h6 ⊢
            unfold statStage; split <;> exact h6
        · exact h
      | join k id =>
        cases k <;> simp only [step] <;> (try split) <;> first | exact h | (simp only [joinFlv]; exact h)
      | leave k id => cases k <;> exact h
  exact this _ (init_inv cfg) ⟨hnewR, hnewF⟩

/-- every GOP of the queue is non-empty and begins with the cached item of a key-frame message -/
def KeyHeads (itemOf : InMsg → Bytes) (G : List (List Bytes)) : Prop :=
  ∀ gop ∈ G, ∃ m : InMsg, Classify.isVideoKeyNalu m.typ m.payload = true ∧ gop.head? = some (itemOf m)

theorem specFeed_keyHeads (itemOf : InMsg → Bytes) (gopNum cap : Nat) (G : List (List Bytes)) (c h : Bool) (m : InMsg)
    (hG : KeyHeads itemOf G) :
    KeyHeads itemOf (GopCache.specFeed gopNum cap G c h (Classify.isVideoKeyNalu m.typ m.payload) (itemOf m)) := by
  unfold GopCache.specFeed
  intro gop hgop
  split at hgop
  · split at hgop
    · cases hgop
    · exact hG gop hgop
  · split at hgop
    · exact hG gop hgop
    · split at hgop
      · rename_i hk
        simp only [List.mem_append, List.mem_singleton] at hgop
        rcases hgop with h1 | rfl
        · split at h1
          · exact hG gop (List.mem_of_mem_tail h1)
          · exact hG gop h1
        · exact ⟨m, hk, rfl⟩
      · split at hgop
        · exact hG gop hgop
        · rename_i lastG hl
          split at hgop
          · simp only [List.mem_append, List.mem_singleton] at hgop
            rcases hgop with h1 | rfl
            · exact hG gop ((List.dropLast_sublist _).subset h1)
            · have hmem : lastG ∈ G := List.mem_of_getLast? hl
              obtain ⟨m', hk', hh⟩ := hG lastG hmem
              refine ⟨m', hk', ?_⟩
              cases lastG with
              | nil => simp at hh
              | cons x r => simpa using hh
          · exact hG gop hgop

/-- in every reachable state each cached GOP of both caches begins with the cached form (RTMP chunks, FLV tag) of a
    key-frame message -/
theorem run_keyheads (cfg : Cfg) (evs : List Ev) :
    KeyHeads chunksWithoutSdf (GopCache.gops (run cfg evs).rtmpGop) ∧
    KeyHeads tagWithoutSdf (GopCache.gops (run cfg evs).flvGop) := by
  have key : ∀ (itemOf : InMsg → Bytes) (n c : Nat),
      (GopCache.WF (GopCache.new n c) ∧ KeyHeads itemOf (GopCache.gops (GopCache.new n c))) ∧
      (∀ g, (GopCache.WF g ∧ KeyHeads itemOf (GopCache.gops g)) →
        (GopCache.WF (GopCache.clear g) ∧ KeyHeads itemOf (GopCache.gops (GopCache.clear g)))) ∧
      (∀ g (m : InMsg), (GopCache.WF g ∧ KeyHeads itemOf (GopCache.gops g)) →
        (GopCache.WF (GopCache.feed g m.typ m.payload (itemOf m)).1 ∧
          KeyHeads itemOf (GopCache.gops (GopCache.feed g m.typ m.payload (itemOf m)).1))) ∧
      (∀ g w wo, (GopCache.WF g ∧ KeyHeads itemOf (GopCache.gops g)) →
        (GopCache.WF (GopCache.setMetadata g w wo) ∧ KeyHeads itemOf (GopCache.gops (GopCache.setMetadata g w wo)))) := by
    intro itemOf n c
    refine ⟨⟨GopCache.wf_new n c, by rw [GopCache.gops_new]; intro _ hh; cases hh⟩, ?_, ?_, ?_⟩
    · intro g ⟨hw, _⟩
      exact ⟨GopCache.wf_clear g hw, by rw [GopCache.gops_clear g hw]; intro _ hh; cases hh⟩
    · intro g m ⟨hw, hk⟩
      obtain ⟨hw', _, _, hg⟩ := GopCache.gops_feed g hw m.typ m.payload (itemOf m)
      refine ⟨hw', ?_⟩
      rw [hg]
      exact specFeed_keyHeads itemOf _ _ _ _ _ m hk
    · intro g w wo ⟨hw, hk⟩
      exact ⟨GopCache.wf_congr (g := g) (g' := GopCache.setMetadata g w wo) rfl rfl rfl rfl hw, by
        rw [GopCache.gops_congr (g := g) (g' := GopCache.setMetadata g w wo) rfl rfl rfl rfl]; exact hk⟩
  obtain ⟨r1, r2, r3, r4⟩ := key chunksWithoutSdf cfg.rtmpGopNum cfg.rtmpCap
  obtain ⟨f1, f2, f3, f4⟩ := key tagWithoutSdf cfg.flvGopNum cfg.flvCap
  have := run_cache_pred cfg (fun g => GopCache.WF g ∧ KeyHeads chunksWithoutSdf (GopCache.gops g))
    (fun g => GopCache.WF g ∧ KeyHeads tagWithoutSdf (GopCache.gops g)) r1 f1 r2 f2 r3 f3 r4 f4 evs
  exact ⟨this.1.2, this.2.2⟩

end Lal.Group
