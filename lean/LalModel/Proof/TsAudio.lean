import LalModel.Proof.TsContent
import LalModel.Proof.AudioSpec
/-
  The audio side: every audio PES packet the remuxer sends is a run of whole ADTS frames (or one Opus packet), the
  runs partition the published frames in order, what is not yet sent waits in the cache, and each PES packet is
  stamped with its first frame's time.
-/
namespace Lal.TsAudio
open Lal Lal.TsRmx Lal.Publish Lal.TsScenario Lal.TsContent Lal.TsStream Lal.Bits

/-! ### ADTS: the specification's reader on `PackAdtsHeader ++ frame ++ …` -/

theorem bitsOf_append (a b : Bytes) : bitsOf (a ++ b) = bitsOf a ++ bitsOf b := by
  induction a with
  | nil => rfl
  | cons x xs ih => simp only [List.cons_append, bitsOf, ih, List.append_assoc]

/-- the header fields a conforming reader must find for configuration `c` and a frame of `n` bytes -/
def adtsOf (c : Aac.AscContext) (n : Nat) : AudioSpec.Adts :=
  { id := 0, layer := 0, protectionAbsent := 1, profileObjectType := c.audioObjectType - 1,
    samplingFrequencyIndex := c.samplingFrequencyIndex, channelConfiguration := c.channelConfiguration,
    frameLength := n + 7, bufferFullness := 2047, rawDataBlocks := 0 }

theorem readAdts_header_append (c : Aac.AscContext) (n : Nat) (rest : Bytes)
    (ho : 1 ≤ c.audioObjectType ∧ c.audioObjectType ≤ 4) (hs : c.samplingFrequencyIndex < 16)
    (hc : c.channelConfiguration < 8) (hn : n + 7 < 8192) :
    AudioSpec.readAdts (Aac.packAdtsHeader c n ++ rest) = some (adtsOf c n) := by
  have hb := AudioSpec.bitsOf_packAdtsHeader c n ho hs hc hn
  have m1 : (c.audioObjectType - 1) % 2 ^ 2 = c.audioObjectType - 1 := by
    have : c.audioObjectType - 1 < 4 := by omega
    exact Nat.mod_eq_of_lt this
  have m2 : c.samplingFrequencyIndex % 2 ^ 4 = c.samplingFrequencyIndex := Nat.mod_eq_of_lt hs
  have m3 : c.channelConfiguration % 2 ^ 3 = c.channelConfiguration := Nat.mod_eq_of_lt hc
  have m4 : (n + 7) % 2 ^ 13 = n + 7 := Nat.mod_eq_of_lt hn
  simp only [AudioSpec.readAdts, bitsOf_append, hb, AudioSpec.adtsBits, List.append_assoc, AudioSpec.take?_natBits, bind,
    Option.bind, pure, m1, m2, m3, m4, adtsOf]
  simp

/-- frames behind their headers, one after the other, are split back into the frames -/
theorem adtsFrames_join (c : Aac.AscContext) (ho : 1 ≤ c.audioObjectType ∧ c.audioObjectType ≤ 4)
    (hs : c.samplingFrequencyIndex < 16) (hc : c.channelConfiguration < 8) :
    ∀ (fs : List Bytes), (∀ f ∈ fs, f.length + 7 < 8192) → ∀ fuel, fuel ≥ fs.length →
    Demux.adtsFrames fuel (fs.flatMap fun f => Aac.packAdtsHeader c f.length ++ f) = some (fs.map fun f => (adtsOf c f.length, f)) := by
  intro fs
  induction fs with
  | nil => intro _ fuel _; cases fuel <;> rfl
  | cons f fs ih =>
    intro hall fuel hf
    cases fuel with
    | zero => simp at hf
    | succ fuel =>
      have hfl := hall f (by simp)
      have hrd := readAdts_header_append c f.length (f ++ (fs.flatMap fun f => Aac.packAdtsHeader c f.length ++ f)) ho hs hc hfl
      have e : ((f :: fs).flatMap fun f => Aac.packAdtsHeader c f.length ++ f)
          = Aac.packAdtsHeader c f.length ++ (f ++ (fs.flatMap fun f => Aac.packAdtsHeader c f.length ++ f)) := by
        simp [List.flatMap_cons, List.append_assoc]
      rw [e]
      have hne : Aac.packAdtsHeader c f.length ++ (f ++ (fs.flatMap fun f => Aac.packAdtsHeader c f.length ++ f)) ≠ [] := by
        simp [Aac.packAdtsHeader]
      have hlen : (Aac.packAdtsHeader c f.length).length = 7 := rfl
      generalize hL : Aac.packAdtsHeader c f.length ++ (f ++ (fs.flatMap fun f => Aac.packAdtsHeader c f.length ++ f)) = L at hrd hne
      obtain ⟨x, xs, hx⟩ : ∃ x xs, L = x :: xs := by
        cases L with
        | nil => exact absurd rfl hne
        | cons x xs => exact ⟨x, xs, rfl⟩
      have hstep : Demux.adtsFrames (fuel + 1) L =
          (match AudioSpec.readAdts L with
           | none => none
           | some h =>
             let hl := if h.protectionAbsent = 1 then 7 else 9
             if h.frameLength < hl ∨ L.length < h.frameLength then none
             else (Demux.adtsFrames fuel (L.drop h.frameLength)).map fun r => (h, (L.take h.frameLength).drop hl) :: r) := by
        rw [hx]; rfl
      rw [hstep, hrd]
      simp only [adtsOf, if_true]
      have hLlen : L.length = 7 + (f.length + (fs.flatMap fun f => Aac.packAdtsHeader c f.length ++ f).length) := by
        rw [← hL]; simp only [List.length_append, hlen]
      have hlt : ¬ (f.length + 7 < 7 ∨ L.length < f.length + 7) := by rw [hLlen]; omega
      rw [if_neg hlt]
      have hdrop : L.drop (f.length + 7) = fs.flatMap fun f => Aac.packAdtsHeader c f.length ++ f := by
        rw [← hL, ← List.append_assoc]
        rw [List.drop_left' (by simp [hlen]; omega)]
      have htake : (L.take (f.length + 7)).drop 7 = f := by
        rw [← hL, ← List.append_assoc]
        rw [List.take_left' (by simp [hlen]; omega)]
        rw [List.drop_left' hlen]
      rw [hdrop, htake, ih (fun g hg => hall g (by simp [hg])) fuel (by simp at hf; omega)]
      simp [adtsOf]

/-! ### groups of entries -/

/-- an entry of the audio cache: the message's time (ms) and the bytes appended (ADTS header + frame, or an Opus packet) -/
abbrev Ent := Nat × Bytes

def gts (g : List Ent) : Nat := (g.headD (0, [])).1
def graw (g : List Ent) : Bytes := g.flatMap (·.2)

/-- audio frames against groups of entries: each frame carries one group, stamped with its first entry's time -/
def FG : Option Nat → List Ts.Frame → List (List Ent) → Prop
  | _, [], [] => True
  | b, f :: fs, g :: gs =>
    g ≠ [] ∧ f.raw = graw g ∧ f.dts = (rebase b (gts g * 90)).2 ∧ f.pts = f.dts ∧ FG (some (rebase b (gts g * 90)).1) fs gs
  | _, _, _ => False

def endBase : Option Nat → List (List Ent) → Option Nat
  | b, [] => b
  | b, g :: gs => endBase (some (rebase b (gts g * 90)).1) gs

theorem endBase_snoc (b : Option Nat) (gs : List (List Ent)) (g : List Ent) :
    endBase b (gs ++ [g]) = some (rebase (endBase b gs) (gts g * 90)).1 := by
  induction gs generalizing b with
  | nil => rfl
  | cons x xs ih => simp only [List.cons_append, endBase, ih]

theorem FG_snoc : ∀ (fs : List Ts.Frame) (b : Option Nat) (gs : List (List Ent)) (f : Ts.Frame) (g : List Ent),
    FG b fs gs → g ≠ [] → f.raw = graw g → f.dts = (rebase (endBase b gs) (gts g * 90)).2 → f.pts = f.dts →
    FG b (fs ++ [f]) (gs ++ [g]) := by
  intro fs
  induction fs with
  | nil =>
    intro b gs f g h hg hr hd hp
    cases gs with
    | nil => exact ⟨hg, hr, hd, hp, trivial⟩
    | cons x xs => exact absurd h (by simp [FG])
  | cons f0 fs ih =>
    intro b gs f g h hg hr hd hp
    cases gs with
    | nil => exact absurd h (by simp [FG])
    | cons x xs =>
      obtain ⟨h1, h2, h3, h4, h5⟩ := h
      exact ⟨h1, h2, h3, h4, ih _ xs f g h5 hg hr hd hp⟩

theorem graw_nil_iff (g : List Ent) (hne : ∀ en ∈ g, en.2 ≠ []) : graw g = [] ↔ g = [] := by
  cases g with
  | nil => simp [graw]
  | cons x xs =>
    have := hne x (by simp)
    simp only [graw, List.flatMap_cons, List.append_eq_nil_iff, reduceCtorEq, iff_false, not_and]
    intro h; exact absurd h this

/-- the audio side of the remuxer state against what has been sent (`fsA`, in groups `gs`) and what waits (`pend`) -/
structure AInv (s : St) (fsA : List Ts.Frame) (gs : List (List Ent)) (pend : List Ent) : Prop where
  fg : FG none fsA gs
  base : s.baseA = endBase none gs
  cache : s.cache = graw pend
  first : pend ≠ [] → s.cacheFirst = gts pend * 90
  ne : ∀ en ∈ pend, en.2 ≠ []

theorem ainv_congr {s t : St} {fsA : List Ts.Frame} {gs : List (List Ent)} {pend : List Ent} (h : AInv s fsA gs pend)
    (h1 : t.baseA = s.baseA) (h2 : t.cache = s.cache) (h3 : t.cacheFirst = s.cacheFirst) : AInv t fsA gs pend :=
  { fg := h.fg, base := h1 ▸ h.base, cache := h2 ▸ h.cache, first := fun x => h3 ▸ h.first x, ne := h.ne }

section
variable {σ : Type} (obs : Observer σ)

theorem aOf_audioItem (f : Ts.Frame) (bd : Bool) (h : f.pid = Gen.tsPidAudio) :
    aOf (frames [Out.ts { frame := f, boundary := bd }]) = [f] := by
  simp [frames, aOf, apid, h]

/-- `FlushAudio`: what waited becomes one more group -/
theorem flush_ainv (s : St) (o : σ) (fsA : List Ts.Frame) (gs : List (List Ent)) (pend : List Ent) (h : AInv s fsA gs pend) :
    ∃ gs', AInv (flushAudio obs s o).1 (fsA ++ aOf (frames (flushAudio obs s o).2.2)) gs' []
      ∧ gs'.flatten = gs.flatten ++ pend ∧ (flushAudio obs s o).1.asc = s.asc
      ∧ (gs' = gs ∨ (gs' = gs ++ [pend] ∧ pend ≠ [])) := by
  unfold flushAudio
  by_cases he : s.cache.isEmpty = true
  · rw [if_pos he]
    have hc : s.cache = [] := by simpa using he
    have hp : pend = [] := (graw_nil_iff pend h.ne).mp (by rw [← h.cache]; exact hc)
    subst hp
    exact ⟨gs, by simpa [frames, aOf] using h, by simp, rfl, Or.inl rfl⟩
  · rw [if_neg he]
    have hc : s.cache ≠ [] := by intro e; rw [e] at he; exact he rfl
    have hp : pend ≠ [] := by intro e; rw [e] at h; exact hc h.cache
    simp only [audioFrame]
    refine ⟨gs ++ [pend], ?_, by simp, trivial, Or.inr ⟨rfl, hp⟩⟩
    rw [aOf_audioItem _ _ rfl]
    refine { fg := ?_, base := ?_, cache := rfl, first := fun x => absurd rfl x, ne := fun _ hx => by simp at hx }
    · apply FG_snoc _ _ _ _ _ h.fg hp
      · exact h.cache
      · show (rebase s.baseA s.cacheFirst).2 = _
        rw [h.base, h.first hp]
      · rfl
    · show some (rebase s.baseA s.cacheFirst).1 = _
      rw [endBase_snoc, h.base, h.first hp]

/-- where the groups and the waiting entries of the state after a step come from: a new group is what waited before
    (possibly with the new entries appended), what waits is nothing, what waited, that with the new entries, or the
    new entries alone -/
def Prov (gs : List (List Ent)) (pend new : List Ent) (gs' : List (List Ent)) (pend' : List Ent) : Prop :=
  (∀ g ∈ gs', g ∈ gs ∨ (g ≠ [] ∧ (g = pend ∨ g = pend ++ new)))
  ∧ (pend' = [] ∨ pend' = pend ∨ pend' = pend ++ new ∨ pend' = new)

/-- what a step leaves of the audio side: the frames sent, in groups, and the entries that wait, together are the old
    ones plus `new` -/
def AStep (s' : St) (fsA' : List Ts.Frame) (gs : List (List Ent)) (pend : List Ent) (new : List Ent) : Prop :=
  ∃ gs' pend', AInv s' fsA' gs' pend' ∧ gs'.flatten ++ pend' = gs.flatten ++ pend ++ new ∧ Prov gs pend new gs' pend'

theorem prov_refl (gs : List (List Ent)) (pend new : List Ent) : Prov gs pend new gs pend :=
  ⟨fun _ hg => Or.inl hg, Or.inr (Or.inl rfl)⟩

/-- two steps without new entries -/
theorem prov0_trans {gs gs1 gs2 : List (List Ent)} {pend p1 p2 : List Ent} (h1 : Prov gs pend [] gs1 p1) (h2 : Prov gs1 p1 [] gs2 p2) :
    Prov gs pend [] gs2 p2 := by
  obtain ⟨a1, b1⟩ := h1
  obtain ⟨a2, b2⟩ := h2
  simp only [List.append_nil] at a1 b1 a2 b2
  have hp1 : p1 = [] ∨ p1 = pend := by rcases b1 with h | h | h | h <;> simp [h]
  refine ⟨?_, ?_⟩
  · intro g hg
    rcases a2 g hg with h | ⟨hne, h⟩
    · rcases a1 g h with h' | ⟨hne', h'⟩
      · exact Or.inl h'
      · exact Or.inr ⟨hne', Or.inl (by rcases h' with x | x <;> exact x)⟩
    · have hgp : g = p1 := by rcases h with h | h <;> exact h
      rcases hp1 with e | e
      · rw [hgp, e] at hne; exact absurd rfl hne
      · right; exact ⟨hne, Or.inl (by rw [hgp, e])⟩
  · have hp2 : p2 = [] ∨ p2 = p1 := by rcases b2 with h | h | h | h <;> simp [h]
    rcases hp2 with e | e
    · exact Or.inl e
    · rcases hp1 with e1 | e1
      · exact Or.inl (by rw [e, e1])
      · exact Or.inr (Or.inl (by rw [e, e1]))

theorem maybe_ainv (s : St) (o : σ) (b : Prop) [Decidable b] (fsA : List Ts.Frame) (gs : List (List Ent)) (pend : List Ent)
    (h : AInv s fsA gs pend) :
    AStep (if b then flushAudio obs s o else (s, o, [])).1 (fsA ++ aOf (frames (if b then flushAudio obs s o else (s, o, [])).2.2))
      gs pend []
    ∧ (if b then flushAudio obs s o else (s, o, [])).1.asc = s.asc := by
  by_cases hb : b
  · rw [if_pos hb]
    obtain ⟨gs', h1, h2, h3, h4⟩ := flush_ainv obs s o fsA gs pend h
    refine ⟨⟨gs', [], h1, by simp [h2], ?_, Or.inl rfl⟩, h3⟩
    intro g hg
    rcases h4 with rfl | ⟨rfl, hp⟩
    · exact Or.inl hg
    · simp only [List.mem_append, List.mem_singleton] at hg
      rcases hg with hg | rfl
      · exact Or.inl hg
      · exact Or.inr ⟨hp, Or.inl rfl⟩
  · rw [if_neg hb]
    exact ⟨⟨gs, pend, by simpa [frames, aOf] using h, by simp, prov_refl _ _ _⟩, rfl⟩

/-- what an audio message adds: the new `ascCtx` and the entries -/
def aeffect (asc : Option Aac.AscContext) (m : Msg) : Option Aac.AscContext × List Ent :=
  match audioAu asc m with
  | .ignore => (asc, [])
  | .config a => (a, [])
  | .aac e => (asc, [(m.ts, e)])
  | .opus p => (asc, [(m.ts, p)])

theorem graw_snoc (g : List Ent) (e : Ent) : graw (g ++ [e]) = graw g ++ e.2 := by simp [graw]

theorem gts_snoc (g : List Ent) (e : Ent) (h : g ≠ []) : gts (g ++ [e]) = gts g := by
  cases g with
  | nil => exact absurd rfl h
  | cons x xs => rfl

theorem feedAudio_ainv (aacS : Bool) (s : St) (o : σ) (m : Msg) (fsA : List Ts.Frame) (gs : List (List Ent)) (pend : List Ent)
    (h : AInv s fsA gs pend) (hop : aacS = false → s.cache = []) (hb : Bounded aacS m) (ht : m.typ = 8) :
    AStep (feedAudio obs s o m).1 (fsA ++ aOf (frames (feedAudio obs s o m).2.2)) gs pend (aeffect s.asc m).2
    ∧ (feedAudio obs s o m).1.asc = (aeffect s.asc m).1 := by
  unfold feedAudio aeffect
  cases hau : audioAu s.asc m with
  | ignore => exact ⟨⟨gs, pend, by simpa [frames, aOf] using h, by simp, prov_refl _ _ _⟩, rfl⟩
  | config a =>
    refine ⟨⟨gs, pend, ?_, by simp, prov_refl _ _ _⟩, rfl⟩
    simp only [frames, aOf, List.filter_nil, List.append_nil]
    exact ainv_congr h rfl rfl rfl
  | aac entry =>
    obtain ⟨_, hlen⟩ := audioAu_aac hau
    have hene : entry ≠ [] := by intro e; rw [e] at hlen; simp only [List.length_nil] at hlen; omega
    simp only []
    generalize hr : (if !s.cache.isEmpty ∧ (s.cacheFirst + Gen.maxAudioCacheDelayByAudio < m.ts * 90 ∨ m.ts * 90 < s.cacheFirst
        ∨ s.cache.length + entry.length > Gen.maxAudioCacheSize) then flushAudio obs s o else (s, o, [])) = r
    obtain ⟨⟨gs', pend', h1, h2, hp1, hp2⟩, hasc⟩ := maybe_ainv obs s o (!s.cache.isEmpty ∧ (s.cacheFirst + Gen.maxAudioCacheDelayByAudio < m.ts * 90
      ∨ m.ts * 90 < s.cacheFirst ∨ s.cache.length + entry.length > Gen.maxAudioCacheSize)) fsA gs pend h
    rw [hr] at h1 hasc
    simp only [List.append_nil] at hp1 hp2
    have hprov : Prov gs pend [(m.ts, entry)] gs' (pend' ++ [(m.ts, entry)]) := by
      refine ⟨?_, ?_⟩
      · intro g hg
        rcases hp1 g hg with h | ⟨hne, h⟩
        · exact Or.inl h
        · right; exact ⟨hne, Or.inl (by rcases h with h | h <;> exact h)⟩
      · rcases hp2 with e | e | e | e
        · right; right; right; rw [e]; rfl
        · right; right; left; rw [e]
        · right; right; left; rw [e]
        · right; right; right; rw [e]; rfl
    have hfin : ∀ t : St, t.baseA = r.1.baseA → t.cache = r.1.cache → (pend' ≠ [] → t.cacheFirst = r.1.cacheFirst) →
        (pend' = [] → t.cacheFirst = m.ts * 90) → t.asc = r.1.asc →
        AStep { t with cache := t.cache ++ entry } (fsA ++ aOf (frames r.2.2)) gs pend [(m.ts, entry)]
        ∧ ({ t with cache := t.cache ++ entry } : St).asc = s.asc := by
      intro t e1 e2 e3 e4 e5
      refine ⟨⟨gs', pend' ++ [(m.ts, entry)], ?_, by rw [← List.append_assoc, h2]; simp, hprov⟩, by show t.asc = _; rw [e5, hasc]⟩
      refine { fg := h1.fg, base := by show t.baseA = _; rw [e1]; exact h1.base,
               cache := by show t.cache ++ entry = _; rw [graw_snoc, e2, h1.cache], first := ?_, ne := ?_ }
      · intro _
        show t.cacheFirst = _
        by_cases hp : pend' = []
        · rw [e4 hp, hp]; rfl
        · rw [e3 hp, h1.first hp, gts_snoc _ _ hp]
      · intro en hen
        simp only [List.mem_append, List.mem_singleton] at hen
        rcases hen with hen | rfl
        · exact h1.ne en hen
        · exact hene
    have hpe : r.1.cache.isEmpty = true ↔ pend' = [] := by
      rw [h1.cache]
      constructor
      · intro hx; exact (graw_nil_iff pend' h1.ne).mp (by simpa using hx)
      · intro hx; rw [hx]; rfl
    by_cases he2 : r.1.cache.isEmpty = true
    · rw [if_pos he2]
      exact hfin _ rfl rfl (fun hp => absurd (hpe.mp he2) hp) (fun _ => rfl) rfl
    · rw [if_neg he2]
      exact hfin _ rfl rfl (fun _ => rfl) (fun hp => absurd (hpe.mpr hp) he2) rfl
  | opus pkt =>
    obtain ⟨hcodec, _, hpne⟩ := audioAu_opus hau
    have hbb := (hb ht).2 hcodec
    have hc0 := hop hbb.1
    have hp0 : pend = [] := (graw_nil_iff pend h.ne).mp (by rw [← h.cache]; exact hc0)
    subst hp0
    have h' : AInv { s with cacheFirst := m.ts * 90, cache := s.cache ++ pkt } fsA gs [(m.ts, pkt)] :=
      { fg := h.fg, base := h.base, cache := by show s.cache ++ pkt = _; rw [hc0]; simp [graw],
        first := fun _ => rfl, ne := fun en hen => by simp only [List.mem_singleton] at hen; rw [hen]; exact hpne }
    obtain ⟨gs', h1, h2, h3, h4⟩ := flush_ainv obs { s with cacheFirst := m.ts * 90, cache := s.cache ++ pkt } o fsA gs [(m.ts, pkt)] h'
    refine ⟨⟨gs', [], h1, by simp [h2], ⟨?_, Or.inl rfl⟩⟩, h3⟩
    intro g hg
    rcases h4 with rfl | ⟨rfl, hp⟩
    · exact Or.inl hg
    · simp only [List.mem_append, List.mem_singleton] at hg
      rcases hg with hg | rfl
      · exact Or.inl hg
      · exact Or.inr ⟨hp, Or.inr rfl⟩

theorem aOf_append (a b : List Ts.Frame) : aOf (a ++ b) = aOf a ++ aOf b := by simp [aOf]

/-- the second part of `feedVideo`: up to three flushes, the video frame itself is not audio -/
theorem videoFrame_ainv (s : St) (o : σ) (ts : Nat) (raw : Bytes) (key : Bool) (c : Nat) (fsA : List Ts.Frame)
    (gs : List (List Ent)) (pend : List Ent) (h : AInv s fsA gs pend) :
    AStep (videoFrame obs s o ts raw key c).1 (fsA ++ aOf (frames (videoFrame obs s o ts raw key c).2.2)) gs pend []
    ∧ (videoFrame obs s o ts raw key c).1.asc = s.asc := by
  unfold videoFrame
  simp only []
  generalize hr0 : (if !s.cache.isEmpty ∧ s.cacheFirst + Gen.maxAudioCacheDelayByVideo < ts * 90 then flushAudio obs s o else (s, o, [])) = r0
  obtain ⟨⟨gs0, p0, a0, e0, pv0⟩, c0⟩ := maybe_ainv obs s o (!s.cache.isEmpty ∧ s.cacheFirst + Gen.maxAudioCacheDelayByVideo < ts * 90) fsA gs pend h
  rw [hr0] at a0 c0
  generalize hbd : (key && (r0.1.asc.isNone || !r0.1.opened || !r0.1.cache.isEmpty)) = bd
  generalize hs1 : ({ r0.1 with baseV := some (rebase r0.1.baseV (ts * 90)).1, opened := r0.1.opened || bd } : St) = s1
  have a1 : AInv s1 (fsA ++ aOf (frames r0.2.2)) gs0 p0 := by rw [← hs1]; exact ainv_congr a0 rfl rfl rfl
  have c1 : s1.asc = s.asc := by rw [← hs1]; exact c0
  generalize hf : ({ pts := (rebase r0.1.baseV (ts * 90)).2 + 90 * c, dts := (rebase r0.1.baseV (ts * 90)).2, cc := r0.1.videoCc, pid := Gen.tsPidVideo, sid := Gen.tsStreamIdVideo, key := key, raw := raw } : Ts.Frame) = f
  have hfp : f.pid = Gen.tsPidVideo := by rw [← hf]
  generalize hit : ({ frame := f, boundary := bd } : Item) = it
  generalize he1 : obs.enter1 r0.2.1 it = e1
  generalize hr1 : (if e1.2.2 = true then flushAudio obs s1 e1.1 else (s1, e1.1, [])) = r1
  obtain ⟨⟨gs1, p1, a2, e2, pv1⟩, c2⟩ := maybe_ainv obs s1 e1.1 (e1.2.2 = true) _ gs0 p0 a1
  rw [hr1] at a2 c2
  generalize he2 : obs.enter2 r1.2.1 e1.2.1 it = e2'
  generalize hr2 : (if e2'.2 = true then flushAudio obs r1.1 e2'.1 else (r1.1, e2'.1, [])) = r2
  obtain ⟨⟨gs2, p2, a3, e3, pv2⟩, c3⟩ := maybe_ainv obs r1.1 e2'.1 (e2'.2 = true) _ gs1 p1 a2
  rw [hr2] at a3 c3
  refine ⟨⟨gs2, p2, ?_, ?_, prov0_trans (prov0_trans pv0 pv1) pv2⟩, ?_⟩
  · have hv : aOf (frames [Out.ts it]) = [] := by
      rw [← hit]; simp [frames, aOf, apid, hfp, Gen.tsPidAudio, Gen.tsPidVideo]
    simp only [frames_append, aOf_append, hv, List.append_nil]
    have := ainv_congr a3 (t := { r2.1 with videoCc := it.cc }) rfl rfl rfl
    simpa [List.append_assoc] using this
  · rw [e3]; simp only [List.append_nil] at e2 e0 ⊢; rw [e2, e0]
  · show r2.1.asc = s.asc
    rw [c3, c2, c1]

/-! ### messages, one after the other -/

/-- the audio side of one message: `ascCtx` and the entries so far -/
def astep (a : Option Aac.AscContext × List Ent) (m : Msg) : Option Aac.AscContext × List Ent :=
  if m.typ = 8 then ((aeffect a.1 m).1, a.2 ++ (aeffect a.1 m).2) else a

def afold : Option Aac.AscContext × List Ent → List Msg → Option Aac.AscContext × List Ent
  | a, [] => a
  | a, m :: ms => afold (astep a m) ms

theorem afold_append (a : Option Aac.AscContext × List Ent) (x y : List Msg) : afold a (x ++ y) = afold (afold a x) y := by
  induction x generalizing a with
  | nil => rfl
  | cons m ms ih => simp only [List.cons_append, afold, ih]

/-- on a stream without AAC every group is a single entry (an Opus packet is sent at once) -/
def GroupOK (aacS : Bool) (g : List Ent) : Prop := aacS = true ∨ g.length = 1

/-- the audio side of the whole state: sent groups + waiting entries = all entries so far -/
def AAll (aacS : Bool) (s : St) (fsA : List Ts.Frame) (a : Option Aac.AscContext × List Ent) : Prop :=
  ∃ gs pend, AInv s fsA gs pend ∧ s.asc = a.1 ∧ gs.flatten ++ pend = a.2 ∧ (∀ g ∈ gs, GroupOK aacS g)

theorem aeffect_len (asc : Option Aac.AscContext) (m : Msg) : (aeffect asc m).2.length ≤ 1 := by
  unfold aeffect; split <;> simp

theorem groupOK_of_prov (aacS : Bool) (gs gs' : List (List Ent)) (pend new pend' : List Ent) (hnew : new.length ≤ 1)
    (hp : Prov gs pend new gs' pend') (hpe : aacS = false → pend = []) (hg : ∀ g ∈ gs, GroupOK aacS g) :
    ∀ g ∈ gs', GroupOK aacS g := by
  intro g hgm
  rcases hp.1 g hgm with h | ⟨hne, h⟩
  · exact hg g h
  · cases aacS with
    | true => exact Or.inl rfl
    | false =>
      right
      have hp0 := hpe rfl
      rw [hp0] at h
      rcases h with h | h
      · exact absurd h hne
      · simp only [List.nil_append] at h
        rw [h] at hne ⊢
        have : new.length ≠ 0 := fun x => hne (List.length_eq_zero_iff.mp x)
        omega

theorem onPop_ainv (aacS : Bool) (s : St) (o : σ) (m : Msg) (fsA : List Ts.Frame) (a : Option Aac.AscContext × List Ent)
    (h : AAll aacS s fsA a) (hop : aacS = false → s.cache = []) (hb : Bounded aacS m) :
    AAll aacS (onPop obs s o m).1 (fsA ++ aOf (frames (onPop obs s o m).2.2)) (astep a m) := by
  obtain ⟨gs, pend, hinv, hasc, hall, hgrp⟩ := h
  have hpe : aacS = false → pend = [] := fun hf => (graw_nil_iff pend hinv.ne).mp (by rw [← hinv.cache]; exact hop hf)
  unfold onPop astep
  by_cases h8 : m.typ = 8
  · rw [if_pos h8, if_pos h8]
    obtain ⟨⟨gs', pend', h1, h2, hpv⟩, h3⟩ := feedAudio_ainv obs aacS s o m fsA gs pend hinv hop hb h8
    exact ⟨gs', pend', h1, by rw [h3, hasc], by rw [h2, hall, hasc],
           groupOK_of_prov aacS gs gs' pend _ pend' (aeffect_len _ _) hpv hpe hgrp⟩
  · rw [if_neg h8, if_neg h8]
    by_cases h9 : m.typ = 9
    · rw [if_pos h9]
      unfold feedVideo
      cases hv : videoAu s.spspps m with
      | ignore => exact ⟨gs, pend, by simpa [frames, aOf] using hinv, hasc, hall, hgrp⟩
      | cache ps =>
        refine ⟨gs, pend, ?_, hasc, hall, hgrp⟩
        simp only [frames, aOf, List.filter_nil, List.append_nil]
        exact ainv_congr hinv rfl rfl rfl
      | frame ps raw key c =>
        have hinv' : AInv { s with spspps := ps } fsA gs pend := ainv_congr hinv rfl rfl rfl
        obtain ⟨⟨gs', pend', h1, h2, hpv⟩, h3⟩ := videoFrame_ainv obs { s with spspps := ps } o m.ts raw key c fsA gs pend hinv'
        exact ⟨gs', pend', h1, by rw [h3]; exact hasc, by rw [h2, hall]; simp,
               groupOK_of_prov aacS gs gs' pend [] pend' (by simp) hpv hpe hgrp⟩
    · rw [if_neg h9]
      exact ⟨gs, pend, by simpa [frames, aOf] using hinv, hasc, hall, hgrp⟩

theorem popAll_ainv (aacS : Bool) : ∀ (ms : List Msg) (s : St) (o : σ) (fsA : List Ts.Frame) (a : Option Aac.AscContext × List Ent),
    AAll aacS s fsA a → SInv s → (aacS = false → s.cache = []) → (∀ m ∈ ms, Bounded aacS m) →
    AAll aacS (popAll obs s o ms).1 (fsA ++ aOf (frames (popAll obs s o ms).2.2)) (afold a ms) := by
  intro ms
  induction ms with
  | nil => intro s o fsA a h _ _ _; simpa [popAll, frames, aOf, afold] using h
  | cons m ms ih =>
    intro s o fsA a h hs hop hb
    have h1 := onPop_ainv obs aacS s o m fsA a h hop (hb m (by simp))
    have hst := onPop_step obs aacS s o m hs hop (hb m (by simp))
    have h2 := ih (onPop obs s o m).1 (onPop obs s o m).2.1 _ _ h1 hst.inv hst.opus (fun m' hm' => hb m' (by simp [hm']))
    simp only [popAll, afold, frames_append, aOf_append]
    simpa [List.append_assoc] using h2

/-! ### through the probe filter -/

/-- where a run stands on the audio side -/
def ARun (aacS : Bool) (s : St) (out : List Out) (ms : List Msg) : Prop :=
  (s.done = true ∧ AAll aacS s (aOf (frames out)) (afold (none, []) ms))
  ∨ (s.done = false ∧ frames out = [] ∧ s.queue = ms ∧ s.cache = [] ∧ s.baseA = none ∧ s.asc = none ∧ s.cacheFirst = 0)

theorem aall_init (aacS : Bool) (s : St) (h1 : s.cache = []) (h2 : s.baseA = none) (h3 : s.asc = none) : AAll aacS s [] (none, []) :=
  ⟨[], [], { fg := trivial, base := h2, cache := h1, first := fun x => absurd rfl x, ne := fun _ hx => by simp at hx }, h3, rfl,
   fun _ hx => by simp at hx⟩

theorem afold_snoc (a : Option Aac.AscContext × List Ent) (ms : List Msg) (m : Msg) : afold a (ms ++ [m]) = astep (afold a ms) m := by
  rw [afold_append]; rfl

/-- `FlushAudio` on the whole-state invariant: nothing waits afterwards -/
theorem flush_aall (aacS : Bool) (s : St) (o : σ) (fsA : List Ts.Frame) (a : Option Aac.AscContext × List Ent)
    (h : AAll aacS s fsA a) (hop : aacS = false → s.cache = []) :
    ∃ gs, AInv (flushAudio obs s o).1 (fsA ++ aOf (frames (flushAudio obs s o).2.2)) gs [] ∧ (flushAudio obs s o).1.asc = a.1
      ∧ gs.flatten = a.2 ∧ (∀ g ∈ gs, GroupOK aacS g) := by
  obtain ⟨gs, pend, hinv, hasc, hall, hgrp⟩ := h
  have hpe : aacS = false → pend = [] := fun hf => (graw_nil_iff pend hinv.ne).mp (by rw [← hinv.cache]; exact hop hf)
  obtain ⟨gs', h1, h2, h3, h4⟩ := flush_ainv obs s o fsA gs pend hinv
  refine ⟨gs', h1, by rw [h3]; exact hasc, by rw [h2]; exact hall, ?_⟩
  intro g hg
  rcases h4 with rfl | ⟨rfl, hp⟩
  · exact hgrp g hg
  · simp only [List.mem_append, List.mem_singleton] at hg
    rcases hg with hg | rfl
    · exact hgrp g hg
    · cases aacS with
      | true => exact Or.inl rfl
      | false => exact absurd (hpe rfl) hp

theorem step_arun (aacS : Bool) (s : St) (o : σ) (e : Ev) (out : List Out) (ms : List Msg)
    (hs : SInv s) (hop : aacS = false → s.cache = []) (hq : QInv aacS s) (he : EvBounded aacS e) (hi : ARun aacS s out ms) :
    ARun aacS (step obs s o e).1 (out ++ (step obs s o e).2.2) (ms ++ msgsOf [e]) := by
  cases e with
  | flush =>
    simp only [msgsOf, List.append_nil]
    show ARun aacS (flushAudio obs s o).1 (out ++ (flushAudio obs s o).2.2) ms
    rcases hi with ⟨hd, hall⟩ | ⟨hd, hf, hqu, hc, hb, ha, hcf⟩
    · left
      obtain ⟨gs', h1, h2, h3, h4⟩ := flush_aall obs aacS s o _ _ hall hop
      refine ⟨by rw [flushAudio_done]; exact hd, gs', [], ?_, h2, by rw [List.append_nil]; exact h3, h4⟩
      rw [frames_append, aOf_append]; exact h1
    · right
      have hemp : s.cache.isEmpty = true := by rw [hc]; rfl
      have hfl : flushAudio obs s o = (s, o, []) := by unfold flushAudio; rw [if_pos hemp]
      rw [hfl]
      exact ⟨hd, by simpa using hf, hqu, hc, hb, ha, hcf⟩
  | msg m =>
    simp only [msgsOf]
    show ARun aacS (feed obs s o m).1 (out ++ (feed obs s o m).2.2) (ms ++ [m])
    unfold feed
    rcases hi with ⟨hd, hall⟩ | ⟨hd, hf, hqu, hc, hb, ha, hcf⟩
    · rw [if_pos hd]
      left
      refine ⟨by rw [onPop_done]; exact hd, ?_⟩
      rw [frames_append, aOf_append, afold_snoc]
      exact onPop_ainv obs aacS s o m _ _ hall hop he
    · have hd' : ¬ s.done = true := by rw [hd]; simp
      rw [if_neg hd']
      simp only []
      generalize hs1 : (if m.typ = 8 then { ({ s with queue := s.queue ++ [m] } : St) with audioId := (audioCodecId m.payload : Nat) }
          else if m.typ = 9 then { ({ s with queue := s.queue ++ [m] } : St) with videoId := (videoCodecId m.payload : Nat) }
          else ({ s with queue := s.queue ++ [m] } : St)) = s1
      have hfields : s1.videoCc = s.videoCc ∧ s1.audioCc = s.audioCc ∧ s1.cache = s.cache ∧ s1.queue = s.queue ++ [m]
          ∧ s1.baseA = s.baseA ∧ s1.asc = s.asc ∧ s1.done = s.done ∧ s1.cacheFirst = s.cacheFirst := by
        rw [← hs1]; split
        · exact ⟨rfl, rfl, rfl, rfl, rfl, rfl, rfl, rfl⟩
        · split <;> exact ⟨rfl, rfl, rfl, rfl, rfl, rfl, rfl, rfl⟩
      obtain ⟨f1, f2, f3, f4, f5, f6, f7, f8⟩ := hfields
      have hs1inv : SInv s1 := step_cc s s1 f1 f2 f3 hs
      have hop1 : aacS = false → s1.cache = [] := fun h => by rw [f3]; exact hop h
      have hq1 : QInv aacS s1 := by
        intro m' hm'
        rw [f4, List.mem_append] at hm'
        rcases hm' with h | h
        · exact hq m' h
        · simp only [List.mem_singleton] at h; rw [h]; exact he
      have hdrain : ARun aacS (drain obs s1 o).1 (out ++ (drain obs s1 o).2.2) (ms ++ [m]) := by
        left
        unfold drain
        simp only []
        have hs2 : SInv { s1 with queue := [], done := true } := step_cc s1 _ rfl rfl rfl hs1inv
        have hinit : AAll aacS ({ s1 with queue := [], done := true } : St) [] (none, []) :=
          aall_init aacS _ (by show s1.cache = []; rw [f3]; exact hc) (by show s1.baseA = none; rw [f5]; exact hb)
            (by show s1.asc = none; rw [f6]; exact ha)
        have hpp := popAll_ainv obs aacS s1.queue { s1 with queue := [], done := true }
          (obs.patpmt o (Psi.packPat ++ Psi.packPmt s1.videoId s1.audioId)) [] (none, []) hinit hs2 hop1 hq1
        have hq4 : s1.queue = ms ++ [m] := by rw [f4, hqu]
        rw [hq4] at hpp
        rw [hq4]
        refine ⟨by rw [popAll_done], ?_⟩
        rw [frames_append, aOf_append]
        simp only [frames, hf, aOf, List.filter_nil, List.nil_append] at hpp ⊢
        exact hpp
      have hnone : ARun aacS s1 (out ++ []) (ms ++ [m]) := by
        right
        exact ⟨by rw [f7]; exact hd, by simpa using hf, by rw [f4, hqu], by rw [f3]; exact hc, by rw [f5]; exact hb,
               by rw [f6]; exact ha, by rw [f8]; exact hcf⟩
      split
      · exact hdrain
      · split
        · exact hdrain
        · exact hnone

theorem run_arun (aacS : Bool) : ∀ (evs : List Ev) (s : St) (o : σ) (out : List Out) (ms : List Msg),
    SInv s → (aacS = false → s.cache = []) → QInv aacS s → (∀ e ∈ evs, EvBounded aacS e) → ARun aacS s out ms →
    ARun aacS (run obs s o evs).1 (out ++ (run obs s o evs).2.2) (ms ++ msgsOf evs) := by
  intro evs
  induction evs with
  | nil => intro s o out ms _ _ _ _ hi; simpa [run, msgsOf] using hi
  | cons e es ih =>
    intro s o out ms hs hop hq hb hi
    obtain ⟨h1, hq1⟩ := step_step obs aacS s o e hs hop hq (hb e (by simp))
    have hi1 := step_arun obs aacS s o e out ms hs hop hq (hb e (by simp)) hi
    have := ih (step obs s o e).1 (step obs s o e).2.1 _ _ h1.inv h1.opus hq1 (fun e' he' => hb e' (by simp [he'])) hi1
    simp only [run]
    have e1 : msgsOf (e :: es) = msgsOf [e] ++ msgsOf es := msgsOf_append [e] es
    rw [e1, ← List.append_assoc, ← List.append_assoc]
    exact this

end

end Lal.TsAudio
