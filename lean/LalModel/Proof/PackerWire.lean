import LalModel.Proof.PackerBuf
import LalModel.Proof.ChunkEnc
/- What `ChunkAndWrite` hands to the connection is a chunk stream the specification reader of C08 reads back. -/
namespace Lal.PackerBuf
open Lal Lal.Chunk

theorem chunksAux_nil (fuel : Nat) (h : Header) (p : Option Header) (cs : Nat) : chunksAux fuel [] h p cs = [] := by
  cases fuel <;> simp [chunksAux]

/-- the hand-written single-chunk header is what the divider would have written -/
theorem frame_eq_chunks (body : Bytes) (csid typ sid : Nat) (hne : body ≠ []) (hc : 2 ≤ csid ∧ csid ≤ 63) :
    frame body csid typ sid =
      message2Chunks body { csid := csid, msgLen := body.length, typ := typ, msid := sid, ts := 0 } none Gen.localChunkSize := by
  unfold frame
  split
  · rename_i hle
    unfold message2Chunks
    obtain ⟨x, xs, rfl⟩ : ∃ x xs, body = x :: xs := by
      cases body with
      | nil => exact absurd rfl hne
      | cons x xs => exact ⟨x, xs, rfl⟩
    simp only [List.length_cons, chunksAux, List.isEmpty_cons, Bool.false_eq_true, if_false]
    rw [List.take_of_length_le (by simpa using hle), List.drop_of_length_le (by simpa using hle), chunksAux_nil]
    rw [ChunkEnc.calcHeader_none]
    simp [basicHeader, hc.1, hc.2, be24]
    rfl
  · rfl

/-- a peer that reads the chunk stream as RTMP 1.0 specifies gets exactly one message: the body, on the packer's
    chunk stream, type 20, the stream id, timestamp 0 -/
theorem frame_readable (body : Bytes) (csid sid : Nat) (hne : body ≠ []) (hlen : body.length < 16777216)
    (hc : 2 ≤ csid ∧ csid ≤ 63) (hs : sid < 4294967296) :
    ChunkSpec.read Gen.localChunkSize (frame body csid typeCommandAmf0 sid) =
      some [{ csid := csid, typ := typeCommandAmf0, msid := sid, ts := 0, payload := body }] := by
  rw [frame_eq_chunks body csid _ sid hne hc]
  let m : Msg := { hdr := { csid := csid, msgLen := body.length, typ := typeCommandAmf0, msid := sid, ts := 0 }, payload := body }
  have hwf : ChunkEnc.WF m :=
    { len := rfl, lenlt := hlen, ts := by show (0:Nat) < 4294967296; omega, csid_lo := hc.1, csid_hi := by show csid ≤ 65599; omega, typ := by show typeCommandAmf0 < 256; decide,
      notctl := by show typeCommandAmf0 ≠ 1 ∧ typeCommandAmf0 ≠ 22; decide, msid := hs }
  have := ChunkEnc.spec_read_enc Gen.localChunkSize (by decide) [m] (by
    intro x hx
    simp at hx
    subst hx
    exact ⟨hwf, hne⟩)
  simpa [m, ChunkEnc.toSpec] using this

theorem writeString_append_ne (s r : Bytes) : Amf0.writeString s ++ r ≠ [] := by
  unfold Amf0.writeString
  split <;> simp

theorem newPacker_wf : PackerWF newPacker := by
  refine ⟨rfl, ?_⟩
  show 12 ≤ (List.replicate Gen.packerInitCap (0 : UInt8)).length
  rw [List.length_replicate]
  decide

end Lal.PackerBuf
