import LalModel.Proof.HlsActs
/- The segments, in the order they were created, contain exactly the accepted frames, each once, in order. -/
namespace Lal.HlsC
open Lal Lal.Hls Lal.Fs

variable {c : Cfg}

theorem segRun_nil (s : SegLog) : s.run [] = s := rfl
theorem segRun_cons (s : SegLog) (op : FOp) (ops : List FOp) : s.run (op :: ops) = (s.step op).run ops := rfl
theorem segRun_append (s : SegLog) (a b : List FOp) : s.run (a ++ b) = (s.run a).run b := by
  simp [SegLog.run, List.foldl_append]

/-- operations that neither create a file nor append a frame -/
def Quiet (op : FOp) : Prop := (∀ s : SegLog, s.step op = s) ∧ hasCreate [op] = false

theorem segRun_quiet : ∀ (ops : List FOp) (s : SegLog), (∀ op ∈ ops, Quiet op) → s.run ops = s
  | [], _, _ => rfl
  | op :: ops, s, h => by
    rw [segRun_cons, (h op List.mem_cons_self).1 s]
    exact segRun_quiet ops s (fun op' h' => h op' (List.mem_cons_of_mem _ h'))

theorem hasCreate_append (a b : List FOp) : hasCreate (a ++ b) = (hasCreate a || hasCreate b) := by
  simp [hasCreate, List.any_append]

theorem hasCreate_quiet : ∀ (ops : List FOp), (∀ op ∈ ops, Quiet op) → hasCreate ops = false
  | [], _ => rfl
  | op :: ops, h => by
    have h1 := (h op List.mem_cons_self).2
    have h2 := hasCreate_quiet ops (fun op' h' => h op' (List.mem_cons_of_mem _ h'))
    have : hasCreate (op :: ops) = (hasCreate [op] || hasCreate ops) := hasCreate_append [op] ops
    rw [this, h1, h2]; rfl

/-- the same, as a test -/
def quietB : FOp → Bool
  | .create _ => false
  | .write _ (.frame _) => false
  | _ => true

theorem quiet_of_quietB : ∀ (op : FOp), quietB op = true → Quiet op
  | .mkdirAll _, _ => ⟨fun _ => rfl, rfl⟩
  | .create _, h => by cases h
  | .write _ (.frame _), h => by cases h
  | .write _ (.patpmt _), _ => ⟨fun _ => rfl, rfl⟩
  | .close _, _ => ⟨fun _ => rfl, rfl⟩
  | .writeFile _ _, _ => ⟨fun _ => rfl, rfl⟩
  | .rename _ _, _ => ⟨fun _ => rfl, rfl⟩
  | .remove _, _ => ⟨fun _ => rfl, rfl⟩
  | .readFile _, _ => ⟨fun _ => rfl, rfl⟩
  | .removeAll _, _ => ⟨fun _ => rfl, rfl⟩

theorem quiet_of_all {ops : List FOp} (h : ops.all quietB = true) : ∀ op ∈ ops, Quiet op := by
  intro op hop
  exact quiet_of_quietB op (List.all_eq_true.mp h op hop)

theorem writeRecord_quiet (m : Mux) (old : Option HFile) : ∀ op ∈ (writeRecord c m old).2, Quiet op := by
  apply quiet_of_all
  unfold writeRecord
  cases old with
  | none => rfl
  | some f =>
    obtain ⟨ct, b⟩ := f
    cases ct <;> rfl

theorem closeTail_quiet (m1 : Mux) (d1 : Dir) : ∀ op ∈ (closeTail c m1 d1).2, Quiet op := by
  unfold closeTail
  split
  · exact writeRecord_quiet m1 _
  · split
    · split
      · exact quiet_of_all rfl
      · exact quiet_of_all rfl
    · exact quiet_of_all rfl

theorem closeFragment_quiet (l : Bool) (m : Mux) (d : Dir) : ∀ op ∈ (closeFragment c l m d).2, Quiet op := by
  by_cases ho : m.opened = true
  · rw [closeFragment_eq l d ho]
    intro op hop
    rcases List.mem_append.mp hop with h | h
    · exact quiet_of_all (ops := closeOps1 c m l) rfl op h
    · exact closeTail_quiet _ _ op h
  · have ho' : m.opened = false := by cases hm : m.opened <;> simp_all
    rw [closeFragment_closed l d ho']
    intro op hop; cases hop

/-- while a fragment is open, the file the fragment writer holds is the newest segment file -/
def CurNewest (m : Mux) (s : SegLog) : Prop := m.opened = true → ∃ fs rest, s.segs = (m.cur, fs) :: rest

theorem updDur_cur (m : Mux) (fi ts : Nat) : (updDur m fi ts).cur = m.cur := by
  unfold updDur; split
  · split <;> rfl
  · rfl

theorem frames_push (segs : List (Path × List Frame)) (q : Path) (fs : List Frame) (f : Frame) :
    (SegLog.mk ((q, fs ++ [f]) :: segs)).frames = (SegLog.mk ((q, fs) :: segs)).frames ++ [f] := by
  simp [SegLog.frames, List.flatMap_append]

/-- the frames the segment files gain are exactly the frames of the append actions; a fragment is created exactly by the open actions -/
theorem actsRun_segs : ∀ (as : List Act) (m : Mux) (d : Dir) (s : SegLog) (o : Bool),
    actsOk as m.opened = some o → CurNewest m s →
    (s.run (actsRun c as m d).2).frames = s.frames ++ writesOf as ∧
    CurNewest (actsRun c as m d).1 (s.run (actsRun c as m d).2) ∧
    hasCreate (actsRun c as m d).2 = hasOpn as
  | [], m, d, s, _, _, hj => by simp [actsRun, writesOf, segRun_nil, hj, hasCreate, hasOpn]
  | .close l :: as, m, d, s, o, hv, hj => by
    simp only [actsRun, actStep]
    have hq := closeFragment_quiet (c := c) l m d
    have hs := segRun_quiet _ s hq
    have hj' : CurNewest (closeFragment c l m d).1 s := by
      intro ho; rw [closeFragment_opened] at ho; cases ho
    have hv' : actsOk as (closeFragment c l m d).1.opened = some o := by rw [closeFragment_opened]; exact hv
    obtain ⟨h1, h2, h3⟩ := actsRun_segs as _ (applyAll under d (closeFragment c l m d).2) s o hv' hj'
    rw [segRun_append, hs, hasCreate_append, hasCreate_quiet _ hq]
    exact ⟨by simpa [writesOf] using h1, h2, by simpa [hasOpn] using h3⟩
  | .opn now ts dc :: as, m, d, s, o, hv, hj => by
    simp only [actsRun, actStep]
    have hmo : m.opened = false := by
      cases hx : m.opened with
      | false => rfl
      | true => simp [actsOk, hx] at hv
    have hv' : actsOk as (openMux c m now ts dc).opened = some o := by
      simp only [actsOk, hmo, Bool.false_eq_true, if_false] at hv; exact hv
    have hs : s.run (openOps m now) = { segs := (.seg now (fragmentId m), []) :: s.segs } := rfl
    have hj' : CurNewest (openMux c m now ts dc) { segs := (.seg now (fragmentId m), []) :: s.segs } :=
      fun _ => ⟨[], s.segs, rfl⟩
    obtain ⟨h1, h2, h3⟩ := actsRun_segs as _ (applyAll under d (openOps m now)) _ o hv' hj'
    rw [segRun_append, hs, hasCreate_append]
    refine ⟨?_, h2, ?_⟩
    · rw [h1]; simp [SegLog.frames, writesOf]
    · simp [hasOpn, hasCreate, openOps]
  | .wr f :: as, m, d, s, o, hv, hj => by
    simp only [actsRun, actStep]
    have hmo : m.opened = true := by
      cases hx : m.opened with
      | true => rfl
      | false => simp [actsOk, hx] at hv
    have hv' : actsOk as m.opened = some o := by simp only [actsOk, hmo, if_true] at hv; rw [hmo]; exact hv
    obtain ⟨fs, rest, hsegs⟩ := hj hmo
    have hs : s.run [.write m.cur (.frame f)] = { segs := (m.cur, fs ++ [f]) :: rest } := by
      have h0 : s.run [.write m.cur (.frame f)] = s.step (.write m.cur (.frame f)) := rfl
      rw [h0]
      simp [SegLog.step, hsegs]
    have hj' : CurNewest m { segs := (m.cur, fs ++ [f]) :: rest } := fun _ => ⟨fs ++ [f], rest, rfl⟩
    obtain ⟨h1, h2, h3⟩ := actsRun_segs as m (applyAll under d [.write m.cur (.frame f)]) _ o hv' hj'
    rw [segRun_append, hs, hasCreate_append]
    refine ⟨?_, h2, ?_⟩
    · rw [h1, frames_push]
      have : s = { segs := (m.cur, fs) :: rest } := by cases s; simp_all
      rw [this]; simp [writesOf]
    · rw [h3]; simp [hasOpn, hasCreate]
  | .dur fi ts :: as, m, d, s, o, hv, hj => by
    simp only [actsRun, actStep]
    have hv' : actsOk as (updDur m fi ts).opened = some o := by rw [updDur_opened]; exact hv
    have hj' : CurNewest (updDur m fi ts) s := by
      intro ho; rw [updDur_opened] at ho; rw [updDur_cur]; exact hj ho
    obtain ⟨h1, h2, h3⟩ := actsRun_segs as _ (applyAll under d []) s o hv' hj'
    simp only [List.nil_append]
    exact ⟨by simpa [writesOf] using h1, h2, by simpa [hasOpn] using h3⟩

/-- how the specification's bookkeeping relates to the model's world -/
def AccRel (st : AccState) (w : World) (s : SegLog) : Prop :=
  st.pend = w.pending ∧
  match w.mux with
  | none => st.alive = false
  | some m => st.alive = true ∧ st.opened = m.opened ∧ CurNewest m s

theorem accRel_none {st : AccState} {w : World} {s : SegLog} (hp : st.pend = w.pending) (hm : w.mux = none)
    (ha : st.alive = false) : AccRel st w s := by
  refine ⟨hp, ?_⟩; rw [hm]; exact ha

theorem accRel_some {st : AccState} {w : World} {s : SegLog} {m : Mux} (hp : st.pend = w.pending) (hm : w.mux = some m)
    (ha : st.alive = true) (ho : st.opened = m.opened) (hj : CurNewest m s) : AccRel st w s := by
  refine ⟨hp, ?_⟩; rw [hm]; exact ⟨ha, ho, hj⟩

theorem partition_step (st : AccState) (w : World) (s : SegLog) (e : Ev) (h : AccRel st w s) :
    (s.run (step c w e).2).frames = s.frames ++ (accStep st e (step c w e).2).2 ∧
    AccRel (accStep st e (step c w e).2).1 (step c w e).1 (s.run (step c w e).2) := by
  obtain ⟨hp, hm⟩ := h
  cases e with
  | start =>
    cases hmx : w.mux with
    | some m0 =>
      rw [hmx] at hm
      have hs : step c w .start = (w, []) := by simp only [step, hmx]
      have ha : accStep st .start [] = (st, []) := by simp only [accStep, hm.1, if_true]
      rw [hs, ha]
      exact ⟨by simp [segRun_nil], accRel_some hp hmx hm.1 hm.2.1 hm.2.2⟩
    | none =>
      rw [hmx] at hm
      have ha : ∀ g, accStep st .start g = ({ alive := true, opened := false, pend := none }, []) := by
        intro g; simp only [accStep, hm, Bool.false_eq_true, if_false]
      rw [ha]
      have hq : s.run (step c w .start).2 = s := by
        simp only [step, hmx]
        exact segRun_quiet _ s (quiet_of_all rfl)
      rw [hq]
      refine ⟨by simp, ?_⟩
      simp only [step, hmx]
      refine accRel_some (m := _) rfl rfl rfl ?_ ?_
      · cases hl : w.dir .live with
        | none => rfl
        | some f0 =>
          obtain ⟨ct, b⟩ := f0
          cases ct <;> rfl
      · intro ho
        exfalso
        cases hl : w.dir .live with
        | none => rw [hl] at ho; cases ho
        | some f0 =>
          obtain ⟨ct, b⟩ := f0
          cases ct <;> (rw [hl] at ho; cases ho)
  | patpmt b =>
    have ha : ∀ g, accStep st (.patpmt b) g = (st, []) := fun _ => rfl
    rw [ha]
    cases hmx : w.mux with
    | some m0 =>
      rw [hmx] at hm
      simp only [step, hmx]
      exact ⟨by simp [segRun_nil], accRel_some hp rfl hm.1 hm.2.1 hm.2.2⟩
    | none =>
      rw [hmx] at hm
      simp only [step, hmx]
      exact ⟨by simp [segRun_nil], accRel_none hp hmx hm⟩
  | pend a =>
    have ha : ∀ g, accStep st (.pend a) g = ({ st with pend := some a }, []) := fun _ => rfl
    rw [ha]
    simp only [step]
    refine ⟨by simp [segRun_nil], rfl, ?_⟩
    exact hm
  | feed f now =>
    cases hmx : w.mux with
    | none =>
      rw [hmx] at hm
      have ha : ∀ g, accStep st (.feed f now) g = (st, []) := by
        intro g; simp only [accStep, hm, Bool.not_false, if_true]
      rw [ha]
      simp only [step, hmx]
      exact ⟨by simp [segRun_nil], accRel_none hp hmx hm⟩
    | some m0 =>
      rw [hmx] at hm
      obtain ⟨ha, hopn, hj⟩ := hm
      obtain ⟨as, h1, h2, h3, h4, h5⟩ := feed_acts (c := c) now f m0 w.dir w.pending
      obtain ⟨g1, g2, g3⟩ := actsRun_segs (c := c) as m0 w.dir s _ h3 hj
      have hst : (step c w (.feed f now)) =
          ({ mux := some (feed c now f m0 w.dir w.pending).1,
             dir := applyAll under w.dir (feed c now f m0 w.dir w.pending).2.2,
             pending := (feed c now f m0 w.dir w.pending).2.1 }, (feed c now f m0 w.dir w.pending).2.2) := by
        simp only [step, hmx]
      rw [hst]
      simp only [accStep, ha, Bool.not_true, Bool.false_eq_true, if_false]
      rw [h2, g1, g3, h5, hp, hopn]
      refine ⟨rfl, ?_⟩
      refine accRel_some (m := (feed c now f m0 w.dir w.pending).1) ?_ rfl rfl ?_ ?_
      · show (if hasOpn as = true then none else w.pending) = (feed c now f m0 w.dir w.pending).2.1
        rw [h4]
      · show (m0.opened || f.boundary) = _
        rw [h1]; exact (actsRun_opened as m0 w.dir _ h3).symm
      · rw [h1]; exact g2
  | dispose =>
    have ha : ∀ g, accStep st .dispose g = ({ st with alive := false, opened := false }, []) := fun _ => rfl
    rw [ha]
    cases hmx : w.mux with
    | none =>
      rw [hmx] at hm
      simp only [step, hmx]
      exact ⟨by simp [segRun_nil], accRel_none hp hmx rfl⟩
    | some m0 =>
      rw [hmx] at hm
      simp only [step, hmx]
      rw [segRun_quiet _ s (closeFragment_quiet true m0 w.dir)]
      exact ⟨by simp, accRel_none hp rfl rfl⟩
  | cleanup =>
    have ha : ∀ g, accStep st .cleanup g = (st, []) := fun _ => rfl
    rw [ha]
    simp only [step]
    split
    · cases hmx : w.mux with
      | some m0 =>
        rw [hmx] at hm
        exact ⟨by simp [segRun_nil], accRel_some hp hmx hm.1 hm.2.1 hm.2.2⟩
      | none =>
        rw [hmx] at hm
        refine ⟨?_, accRel_none hp rfl hm⟩
        rw [segRun_quiet _ s (quiet_of_all rfl)]; simp
    · refine ⟨by simp [segRun_nil], hp, hm⟩

theorem partition_run : ∀ (evs : List Ev) (st : AccState) (w : World) (s : SegLog), AccRel st w s →
    (s.run (run c w evs).flatten).frames = s.frames ++ accepted st evs (run c w evs)
  | [], _, _, s, _ => by simp [run, accepted, segRun_nil]
  | e :: es, st, w, s, h => by
    obtain ⟨h1, h2⟩ := partition_step (c := c) st w s e h
    have ih := partition_run es _ _ _ h2
    show (s.run ((step c w e).2 :: run c (step c w e).1 es).flatten).frames =
      s.frames ++ ((accStep st e (step c w e).2).2 ++ accepted (accStep st e (step c w e).2).1 es (run c (step c w e).1 es))
    rw [List.flatten_cons, segRun_append, ih, h1, List.append_assoc]

end Lal.HlsC
