import LalModel.Proof.Relay
/- Relay push: one goroutine per target, retry on tick, ends with the publisher (Model/Relay.lean). -/
namespace Lal.Relay
open Lal

/-- bookkeeping of one target is consistent with its goroutines: `isPushing` iff a goroutine exists, at most one
    exists, an attached session belongs to an existing goroutine -/
def PushOk (p : Push) : Prop :=
  (p.isPushing = true ↔ p.live ≠ []) ∧ p.live.length ≤ 1 ∧ (∀ id, p.session = some id → id ∈ p.live)

def PushInv (s : State) : Prop := ∀ p ∈ s.push, PushOk p

/-- without an RTMP / RTSP publisher no push session is attached -/
def NoOrphan (s : State) : Prop := s.pushSource = none → ∀ p ∈ s.push, p.session = none

/-! ### the loops -/

theorem startPushLoop_ok (q : Nat) (ps : List Push) : ∀ (i n : Nat), (∀ p ∈ ps, PushOk p) →
    (∀ p ∈ (startPushLoop q i n ps).1, PushOk p ∧ p.isPushing = true) ∧
    (startPushLoop q i n ps).1.length = ps.length ∧
    (startPushLoop q i n ps).1.map (·.session) = ps.map (·.session) := by
  induction ps with
  | nil => intro i n _; simp [startPushLoop]
  | cons p ps ih =>
    intro i n h
    have hp := h p (List.mem_cons_self ..)
    have hps : ∀ x ∈ ps, PushOk x := fun x hx => h x (List.mem_cons_of_mem _ hx)
    unfold startPushLoop
    split
    · rename_i hpush
      obtain ⟨a, b, c⟩ := ih (i + 1) n hps
      refine ⟨?_, by simp [b], by simp [c]⟩
      intro x hx
      simp only [List.mem_cons] at hx
      rcases hx with rfl | hx
      · exact ⟨hp, hpush⟩
      · exact a x hx
    · rename_i hpush
      obtain ⟨a, b, c⟩ := ih (i + 1) (n + 1) hps
      refine ⟨?_, by simp [b], by simp [c]⟩
      intro x hx
      simp only [List.mem_cons] at hx
      rcases hx with rfl | hx
      · have hl : p.live = [] := by
          by_cases hl : p.live = []
          · exact hl
          · exact absurd (hp.1.mpr hl) hpush
        refine ⟨⟨by simp, by simp [hl], ?_⟩, rfl⟩
        intro id hs
        have := hp.2.2 id hs
        rw [hl] at this
        simp at this
      · exact a x hx

theorem stopPushLoop_ok (ps : List Push) : ∀ (i : Nat), (∀ p ∈ ps, PushOk p) →
    (∀ p ∈ (stopPushLoop i ps).1, PushOk p ∧ p.session = none) ∧ (stopPushLoop i ps).1.length = ps.length ∧
    (∀ (t : Nat) (p : Push) (id : Nat), ps[t]? = some p → p.session = some id → .disposePush (i + t) id ∈ (stopPushLoop i ps).2) := by
  induction ps with
  | nil => intro i _; simp [stopPushLoop]
  | cons p ps ih =>
    intro i h
    have hp := h p (List.mem_cons_self ..)
    have hps : ∀ x ∈ ps, PushOk x := fun x hx => h x (List.mem_cons_of_mem _ hx)
    obtain ⟨a, b, c⟩ := ih (i + 1) hps
    unfold stopPushLoop
    simp only
    split
    · rename_i id hs
      refine ⟨?_, by simp [b], ?_⟩
      · intro x hx
        simp only [List.mem_cons] at hx
        rcases hx with rfl | hx
        · exact ⟨⟨hp.1, hp.2.1, by intro id' h'; simp at h'⟩, rfl⟩
        · exact a x hx
      · intro t p' id' ht hs'
        cases t with
        | zero =>
          simp at ht; subst ht
          rw [hs] at hs'; simp at hs'; subst hs'
          simp
        | succ t =>
          simp at ht
          have := c t p' id' ht hs'
          rw [show i + (t + 1) = i + 1 + t by omega]
          exact List.mem_cons_of_mem _ this
    · rename_i hs
      refine ⟨?_, by simp [b], ?_⟩
      · intro x hx
        simp only [List.mem_cons] at hx
        rcases hx with rfl | hx
        · exact ⟨hp, hs⟩
        · exact a x hx
      · intro t p' id' ht hs'
        cases t with
        | zero => simp at ht; subst ht; rw [hs] at hs'; simp at hs'
        | succ t =>
          simp at ht
          rw [show i + (t + 1) = i + 1 + t by omega]
          exact c t p' id' ht hs'

/-- a target that is not being pushed gets a new attempt, with the publisher's URL parameters -/
theorem startPushLoop_retry (q : Nat) (ps : List Push) : ∀ (i n t : Nat) (p : Push), ps[t]? = some p → p.isPushing = false →
    ∃ id, .startPush (i + t) id q ∈ (startPushLoop q i n ps).2.2 := by
  induction ps with
  | nil => intro i n t p h; simp at h
  | cons p0 ps ih =>
    intro i n t p ht hp
    unfold startPushLoop
    cases t with
    | zero =>
      simp at ht; subst ht
      simp only [hp, Bool.false_eq_true, if_false]
      exact ⟨n, by simp⟩
    | succ t =>
      simp at ht
      split
      · obtain ⟨id, hid⟩ := ih (i + 1) n t p ht hp
        exact ⟨id, by rw [show i + (t + 1) = i + 1 + t by omega]; exact hid⟩
      · obtain ⟨id, hid⟩ := ih (i + 1) (n + 1) t p ht hp
        exact ⟨id, by rw [show i + (t + 1) = i + 1 + t by omega]; exact List.mem_cons_of_mem _ hid⟩

theorem setPush_mem (ps : List Push) (t : Nat) (f : Push → Push) (x : Push) (hx : x ∈ setPush ps t f) :
    x ∈ ps ∨ ∃ p, ps[t]? = some p ∧ x = f p := by
  unfold setPush at hx
  split at hx
  · rename_i p hp
    rcases List.mem_or_eq_of_mem_set hx with h | h
    · exact Or.inl h
    · exact Or.inr ⟨p, hp, h⟩
  · exact Or.inl hx

theorem setPush_length (ps : List Push) (t : Nat) (f : Push → Push) : (setPush ps t f).length = ps.length := by
  unfold setPush; split <;> simp

/-! ### effect of the push functions on a state -/

theorem startPushIfNeeded_inv (s : State) (h : PushInv s) :
    PushInv (startPushIfNeeded s).1 ∧ (startPushIfNeeded s).1.push.length = s.push.length ∧
    (startPushIfNeeded s).1.push.map (·.session) = s.push.map (·.session) ∧ (startPushIfNeeded s).1.pub = s.pub ∧
    (s.pushEnable = true → s.pushSource.isSome → ∀ p ∈ (startPushIfNeeded s).1.push, p.isPushing = true) := by
  unfold startPushIfNeeded
  split
  · rename_i he
    exact ⟨h, rfl, rfl, rfl, by intro h1; simp [h1] at he⟩
  · split
    · rename_i hq
      exact ⟨h, rfl, rfl, rfl, by intro _ h2; simp [hq] at h2⟩
    · rename_i q hq
      obtain ⟨a, b, c⟩ := startPushLoop_ok q s.push 0 s.nextId h
      exact ⟨fun p hp => (a p hp).1, b, c, rfl, fun _ _ p hp => (a p hp).2⟩

theorem stopPushIfNeeded_inv (s : State) (h : PushInv s) (hn : s.pushEnable = false → ∀ p ∈ s.push, p.session = none) :
    PushInv (stopPushIfNeeded s).1 ∧ (stopPushIfNeeded s).1.push.length = s.push.length ∧
    (∀ p ∈ (stopPushIfNeeded s).1.push, p.session = none) ∧ (stopPushIfNeeded s).1.pub = s.pub := by
  unfold stopPushIfNeeded
  split
  · rename_i he
    exact ⟨h, rfl, hn (by simpa using he), rfl⟩
  · obtain ⟨a, b, _⟩ := stopPushLoop_ok s.push 0 h
    exact ⟨fun p hp => (a p hp).1, b, fun p hp => (a p hp).2, rfl⟩

/-! ### the invariant over all histories -/

structure Inv (n : Nat) (s : State) : Prop where
  ok : PushInv s
  len : s.push.length = n
  orphan : NoOrphan s
  dis : s.pushEnable = false → s.push = []

theorem inv_frame {n : Nat} {s s' : State} (h : Inv n s) (h1 : s'.push = s.push) (h2 : s'.pub = s.pub) (h3 : s'.pushEnable = s.pushEnable) :
    Inv n s' := by
  refine ⟨?_, by rw [h1]; exact h.len, ?_, by rw [h1, h3]; exact h.dis⟩
  · intro p hp; rw [h1] at hp; exact h.ok p hp
  · intro hs p hp
    rw [h1] at hp
    exact h.orphan (by unfold State.pushSource at hs ⊢; rw [← h2]; exact hs) p hp

theorem pullIfNeeded_frame (s : State) (now : Int) :
    (pullIfNeeded s now).1.push = s.push ∧ (pullIfNeeded s now).1.pub = s.pub ∧ (pullIfNeeded s now).1.pushEnable = s.pushEnable := by
  unfold pullIfNeeded
  simp only
  split <;> (split <;> exact ⟨rfl, rfl, rfl⟩)

theorem stopPull_frame (s : State) :
    (stopPull s).1.push = s.push ∧ (stopPull s).1.pub = s.pub ∧ (stopPull s).1.pushEnable = s.pushEnable := by
  unfold stopPull
  split
  · exact ⟨rfl, rfl, rfl⟩
  · split <;> exact ⟨rfl, rfl, rfl⟩

theorem tickPull_frame (s : State) (now : Int) :
    (tickPull s now).1.push = s.push ∧ (tickPull s now).1.pub = s.pub ∧ (tickPull s now).1.pushEnable = s.pushEnable := by
  unfold tickPull
  simp only
  generalize hs1 : (if s.hasSub then { s with pull := { s.pull with lastHasOut := now } } else s : State) = s1
  have e : s1.push = s.push ∧ s1.pub = s.pub ∧ s1.pushEnable = s.pushEnable := by subst hs1; split <;> exact ⟨rfl, rfl, rfl⟩
  split
  · obtain ⟨a, b, c⟩ := stopPull_frame s1
    exact ⟨a.trans e.1, b.trans e.2.1, c.trans e.2.2⟩
  · obtain ⟨a, b, c⟩ := pullIfNeeded_frame s1 now
    exact ⟨a.trans e.1, b.trans e.2.1, c.trans e.2.2⟩

theorem all_none_of_map_eq {l1 l2 : List Push} (h : l1.map (·.session) = l2.map (·.session)) (h2 : ∀ p ∈ l2, p.session = none) :
    ∀ p ∈ l1, p.session = none := by
  intro p hp
  have : p.session ∈ l1.map (·.session) := List.mem_map_of_mem hp
  rw [h] at this
  obtain ⟨p2, hp2, e⟩ := List.mem_map.mp this
  rw [← e]; exact h2 p2 hp2

theorem startPushIfNeeded_pushEnable (s : State) : (startPushIfNeeded s).1.pushEnable = s.pushEnable := by
  unfold startPushIfNeeded
  split
  · rfl
  · split <;> rfl

theorem inv_startPush {n : Nat} {s : State} (h : Inv n s) : Inv n (startPushIfNeeded s).1 := by
  obtain ⟨a, b, c, d, _⟩ := startPushIfNeeded_inv s h.ok
  refine ⟨a, by rw [b]; exact h.len, ?_, ?_⟩
  · intro hs
    apply all_none_of_map_eq c
    exact h.orphan (by unfold State.pushSource at hs ⊢; rw [← d]; exact hs)
  · intro he
    rw [startPushIfNeeded_pushEnable] at he
    have := h.dis he
    have hl : (startPushIfNeeded s).1.push.length = 0 := by rw [b, this]; rfl
    exact List.eq_nil_of_length_eq_zero hl

theorem stopPushIfNeeded_pushEnable (s : State) : (stopPushIfNeeded s).1.pushEnable = s.pushEnable := by
  unfold stopPushIfNeeded
  split <;> rfl

theorem inv_delIn {n : Nat} {s : State} (h : Inv n s) : Inv n (delIn s).1 ∧ ∀ p ∈ (delIn s).1.push, p.session = none := by
  have hn : s.pushEnable = false → ∀ p ∈ s.push, p.session = none := by
    intro he p hp; rw [h.dis he] at hp; simp at hp
  obtain ⟨a, b, c, _⟩ := stopPushIfNeeded_inv s h.ok hn
  unfold delIn
  refine ⟨⟨a, by show (stopPushIfNeeded s).1.push.length = n; rw [b]; exact h.len, fun _ => c, ?_⟩, c⟩
  intro he
  have he' : s.pushEnable = false := by rw [← stopPushIfNeeded_pushEnable]; exact he
  have hl : (stopPushIfNeeded s).1.push.length = 0 := by rw [b, h.dis he']; rfl
  exact List.eq_nil_of_length_eq_zero hl

theorem hasIn_false_pub {s : State} (h : ¬ s.hasIn = true) : s.pub = none := by
  unfold State.hasIn at h
  cases hp : s.pub <;> simp_all

theorem step_inv (n : Nat) (s : State) (e : Event) (h : Inv n s) : Inv n (step s e).1 := by
  cases e with
  | subJoin now =>
    obtain ⟨a, b, c⟩ := pullIfNeeded_frame { s with subs := s.subs + 1 } now
    exact inv_frame h a b c
  | subLeave => exact inv_frame h rfl rfl rfl
  | tick now =>
    obtain ⟨a, b, c⟩ := tickPull_frame s now
    exact inv_startPush (inv_frame h a b c)
  | apiStart r a now =>
    obtain ⟨a, b, c⟩ := pullIfNeeded_frame { s with pull := { s.pull with apiEnable := true, retryNum := r, autoStopMs := a } } now
    exact inv_frame h a b c
  | apiStop =>
    obtain ⟨a, b, c⟩ := stopPull_frame { s with pull := { s.pull with apiEnable := false } }
    exact inv_frame h a b c
  | kick id =>
    simp only [step, kickPull]
    split
    · obtain ⟨a, b, c⟩ := stopPull_frame { s with pull := { s.pull with apiEnable := false } }
      exact inv_frame h a b c
    · exact h
  | pullAttach id =>
    simp only [step, pullAttach]
    split
    · split
      · exact h
      · split
        · exact h
        · exact inv_startPush (inv_frame h rfl rfl rfl)
    · exact h
  | pullDone id =>
    simp only [step, pullDone]
    split
    · split
      · exact (inv_delIn (s := { { s with pullLive := s.pullLive.erase id, pullStops := s.pullStops + 1 } with
            pull := { s.pull with pulling := false, attached := none } }) (inv_frame h rfl rfl rfl)).1
      · exact inv_frame h rfl rfl rfl
    · exact h
  | pubArrive p =>
    simp only [step, pubArrive]
    split
    · exact h
    · rename_i hin
      have hpub := hasIn_false_pub hin
      have hall : ∀ x ∈ s.push, x.session = none := h.orphan (by unfold State.pushSource; rw [hpub])
      have h1 : Inv n { s with pub := some p } := ⟨h.ok, h.len, fun _ => hall, h.dis⟩
      exact inv_startPush h1
  | pubLeave =>
    simp only [step]
    split
    · exact (inv_delIn h).1
    · exact h
  | pushAttach t id =>
    simp only [step, pushAttach]
    split
    · rename_i hg
      split
      · exact h
      · rename_i hsrc
        obtain ⟨p0, hp0, hid, _⟩ := hg
        refine ⟨?_, by show (setPush s.push t _).length = n; rw [setPush_length]; exact h.len, ?_, ?_⟩
        · intro x hx
          rcases setPush_mem _ _ _ _ hx with hx | ⟨p, hp, rfl⟩
          · exact h.ok x hx
          · have hpp : p = p0 := by rw [hp0] at hp; exact (Option.some.inj hp).symm
            subst hpp
            have hok := h.ok p (List.mem_of_getElem? hp)
            exact ⟨hok.1, hok.2.1, by intro id' he; simp at he; subst he; exact hid⟩
        · intro hs
          exfalso
          have : ({ s with push := setPush s.push t fun p => { p with session := some id } } : State).pushSource = s.pushSource := rfl
          rw [this] at hs
          simp [hs] at hsrc
        · intro he
          have := h.dis he
          show setPush s.push t _ = []
          exact List.eq_nil_of_length_eq_zero (by rw [setPush_length, this]; rfl)
    · exact h
  | pushDone t id =>
    simp only [step, pushDone]
    split
    · rename_i hg
      obtain ⟨p0, hp0, hid⟩ := hg
      refine ⟨?_, by show (setPush s.push t _).length = n; rw [setPush_length]; exact h.len, ?_, ?_⟩
      · intro x hx
        rcases setPush_mem _ _ _ _ hx with hx | ⟨p, hp, rfl⟩
        · exact h.ok x hx
        · have hpp : p = p0 := by rw [hp0] at hp; exact (Option.some.inj hp).symm
          subst hpp
          have hok := h.ok p (List.mem_of_getElem? hp)
          have hl : p.live = [id] := by
            cases hlv : p.live with
            | nil => rw [hlv] at hid; simp at hid
            | cons a r =>
              have : r = [] := by
                have := hok.2.1; rw [hlv] at this; simp at this
                exact this
              subst this
              rw [hlv] at hid; simp at hid; subst hid; rfl
          refine ⟨?_, by simp [hl], by intro id' he; simp at he⟩
          simp [hl]
      · intro hs x hx
        have hs' : s.pushSource = none := hs
        rcases setPush_mem _ _ _ _ hx with hx | ⟨p, hp, rfl⟩
        · exact h.orphan hs' x hx
        · rfl
      · intro he
        have := h.dis he
        show setPush s.push t _ = []
        exact List.eq_nil_of_length_eq_zero (by rw [setPush_length, this]; rfl)
    · exact h

theorem init_inv (static : Bool) (n : Nat) (now : Int) : Inv n (init static n now) := by
  refine ⟨?_, by simp [init], ?_, ?_⟩
  · intro p hp
    simp only [init, List.mem_replicate] at hp
    rw [hp.2]
    exact ⟨by simp, by simp, by intro id h; simp at h⟩
  · intro _ p hp
    simp only [init, List.mem_replicate] at hp
    rw [hp.2]
  · intro he
    simp only [init, decide_eq_false_iff_not, Nat.not_lt, Nat.le_zero_eq] at he
    simp [init, he]

theorem run_inv (n : Nat) (es : List Event) : ∀ (s : State), Inv n s → Inv n (run s es).1 := by
  induction es with
  | nil => intro s h; exact h
  | cons e es ih => intro s h; exact ih _ (step_inv n s e h)

/-! ### the push statements of the property -/

theorem pushSource_frame {s s' : State} (h : s'.pub = s.pub) : s'.pushSource = s.pushSource := by
  unfold State.pushSource; rw [h]

theorem pubArrive_opens_all (n : Nat) (s : State) (p : Pub) (h : Inv n s) (hin : s.hasIn = false) (he : s.pushEnable = true)
    (hp : p ≠ .other) :
    (step s (.pubArrive p)).1.pub = some p ∧
    ∀ x ∈ (step s (.pubArrive p)).1.push, x.isPushing = true ∧ x.live.length = 1 := by
  simp only [step, pubArrive, hin, Bool.false_eq_true, if_false]
  have hpub := hasIn_false_pub (by simp [hin] : ¬ s.hasIn = true)
  have hall : ∀ x ∈ s.push, x.session = none := h.orphan (by unfold State.pushSource; rw [hpub])
  have h1 : Inv n { s with pub := some p } := ⟨h.ok, h.len, fun _ => hall, h.dis⟩
  obtain ⟨a, _, _, d, e⟩ := startPushIfNeeded_inv { s with pub := some p } h1.ok
  refine ⟨d, ?_⟩
  intro x hx
  have hsrc : ({ s with pub := some p } : State).pushSource.isSome = true := by
    unfold State.pushSource
    cases p with
    | rtmp q => rfl
    | rtsp => rfl
    | other => exact absurd rfl hp
  have hpush := e he hsrc x hx
  have hok := a x hx
  refine ⟨hpush, ?_⟩
  have := hok.1.mp hpush
  have := hok.2.1
  cases hl : x.live with
  | nil => simp_all
  | cons y r => rw [hl] at this; simp at this ⊢; exact this

theorem tick_retries (s : State) (now : Int) (q t : Nat) (p : Push) (he : s.pushEnable = true) (hq : s.pushSource = some q)
    (ht : s.push[t]? = some p) (hp : p.isPushing = false) :
    ∃ id, .startPush t id q ∈ (step s (.tick now)).2 := by
  obtain ⟨a, b, c⟩ := tickPull_frame s now
  simp only [step]
  have hq' : (tickPull s now).1.pushSource = some q := by rw [pushSource_frame b]; exact hq
  unfold startPushIfNeeded
  simp only [c, he, Bool.not_true, Bool.false_eq_true, if_false, hq']
  obtain ⟨id, hid⟩ := startPushLoop_retry q (tickPull s now).1.push 0 (tickPull s now).1.nextId t p (by rw [a]; exact ht) hp
  exact ⟨id, List.mem_append_right _ (by simpa using hid)⟩

theorem pubLeave_ends (n : Nat) (s : State) (h : Inv n s) (hp : s.pub.isSome = true) :
    (step s .pubLeave).1.pub = none ∧ (∀ x ∈ (step s .pubLeave).1.push, x.session = none) ∧
    (∀ (t : Nat) (x : Push) (id : Nat), s.push[t]? = some x → x.session = some id → .disposePush t id ∈ (step s .pubLeave).2) := by
  simp only [step, hp, if_true]
  refine ⟨rfl, (inv_delIn h).2, ?_⟩
  intro t x id ht hs
  unfold delIn stopPushIfNeeded
  split
  · rename_i he
    have := h.dis (by simpa using he)
    rw [this] at ht; simp at ht
  · have := (stopPushLoop_ok s.push 0 h.ok).2.2 t x id ht hs
    simpa using this

end Lal.Relay
