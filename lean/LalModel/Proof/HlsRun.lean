import LalModel.Proof.HlsClose
/- Lifting the rules through `openFragment`, `updateFragment`, `FeedMpegts` (with the observer's re-entrant call) and
   then through whole event sequences (publish, PAT/PMT, frames, unpublish, cleanup, re-publish). -/
namespace Lal.HlsC
open Lal Lal.Hls Lal.Fs

variable {PP : Bytes → Prop} {kd aw rdy : Prop} {c : Cfg} {base : Nat} {m : Mux} {o : Obs}

/-- What the remuxer's cached audio must be like: audio, whole packets, and a boundary proposal only in an audio-only stream. -/
def PendOk (kd : Prop) (a : Frame) : Prop := a.audio = true ∧ a.pkts.length % 188 = 0 ∧ (a.boundary = true → kd)

/-- What the observer's re-entrant call guarantees. -/
def NestedOk (PP : Bytes → Prop) (kd aw rdy : Prop) (c : Cfg) (base : Nat) (nested : Nested) (a : Frame) : Prop :=
  ∀ m o, Inv PP kd aw rdy c base m o → m.opened = true →
    AllGood PP c.delThr o (nested m o.dir a).2 ∧ Inv PP kd aw rdy c base (nested m o.dir a).1 (o.run (nested m o.dir a).2)

structure URok (PP : Bytes → Prop) (kd aw rdy : Prop) (c : Cfg) (base : Nat) (o : Obs) (pend : Option Frame) (r : UR) : Prop where
  good : AllGood PP c.delThr o r.ops
  inv  : Inv PP kd aw rdy c base r.m (o.run r.ops)
  ok   : r.ok = true
  pend : r.pend = pend ∨ r.pend = none

theorem openFragment_spec (h : Inv PP kd aw rdy c base m o) (hc : m.opened = false) (hr : rdy)
    (nested : Nested) (now ts : Nat) (discont : Bool) (pend : Option Frame)
    (hb : discont = false → kd ∨ aw) (hn : ∀ a, pend = some a → NestedOk PP kd aw rdy c base nested a) :
    URok PP kd aw rdy c base o pend (openFragment c nested now ts discont m o.dir pend) := by
  rw [openFragment_eq nested now ts discont o.dir pend hc]
  obtain ⟨hag, hinv⟩ := inv_open h hr hc now ts discont hb
  cases pend with
  | none => exact ⟨hag, hinv, rfl, Or.inl rfl⟩
  | some a =>
    have hd : applyAll under o.dir (openOps m now) = (o.run (openOps m now)).dir := (run_dir _ _).symm
    simp only [hd]
    obtain ⟨hag2, hinv2⟩ := hn a rfl _ _ hinv rfl
    exact ⟨allGood_append.mpr ⟨hag, hag2⟩, by rw [run_append]; exact hinv2, rfl, Or.inr rfl⟩

theorem reopen_spec (h : Inv PP kd aw rdy c base m o) (hr : rdy)
    (nested : Nested) (now ts : Nat) (discont : Bool) (pend : Option Frame)
    (hb : discont = false → kd ∨ aw) (hn : ∀ a, pend = some a → NestedOk PP kd aw rdy c base nested a) :
    URok PP kd aw rdy c base o pend (reopen c nested now ts discont m o.dir pend) := by
  unfold reopen
  obtain ⟨hag1, hinv1, hc1, _⟩ := inv_closeFragment h false
  have hd : applyAll under o.dir (closeFragment c false m o.dir).2 = (o.run (closeFragment c false m o.dir).2).dir := (run_dir _ _).symm
  simp only [hd]
  have h2 := openFragment_spec hinv1 hc1 hr nested now ts discont pend hb hn
  exact ⟨allGood_append.mpr ⟨hag1, h2.good⟩, by rw [run_append]; exact h2.inv, h2.ok, h2.pend⟩

theorem inv_updDur (h : Inv PP kd aw rdy c base m o) (fi ts : Nat) : Inv PP kd aw rdy c base (updDur m fi ts) o := by
  unfold updDur
  split
  · split
    · exact inv_setDur h fi _
    · exact h
  · exact h

theorem updateOpened_spec (h : Inv PP kd aw rdy c base m o) (hr : rdy)
    (nested : Nested) (now ts : Nat) (boundary : Bool) (pend : Option Frame)
    (hb : boundary = true → kd ∨ aw) (hn : ∀ a, pend = some a → NestedOk PP kd aw rdy c base nested a) :
    URok PP kd aw rdy c base o pend (updateOpened c nested now ts boundary m o.dir pend) := by
  unfold updateOpened
  have h1 : URok PP kd aw rdy c base o pend
      (if forceSplit c m ts then reopen c nested now ts true m o.dir pend else { m := m, pend := pend, ops := [], ok := true }) := by
    split
    · exact reopen_spec h hr nested now ts true pend (fun hd => by cases hd) hn
    · exact ⟨h.good, h, rfl, Or.inl rfl⟩
  generalize (if forceSplit c m ts then reopen c nested now ts true m o.dir pend else ({ m := m, pend := pend, ops := [], ok := true } : UR)) = r1 at h1
  simp only [h1.ok, Bool.not_true, Bool.false_eq_true, if_false]
  have hinv2 := inv_updDur h1.inv (fragIdx c m m.nfrags) ts
  split
  · exact ⟨h1.good, hinv2, rfl, h1.pend⟩
  · split
    · rename_i hbd
      have hd : applyAll under o.dir r1.ops = (o.run r1.ops).dir := (run_dir _ _).symm
      simp only [hd]
      have hn' : ∀ a, r1.pend = some a → NestedOk PP kd aw rdy c base nested a := by
        intro a ha
        rcases h1.pend with hp | hp
        · rw [hp] at ha; exact hn a ha
        · rw [hp] at ha; cases ha
      have h3 := reopen_spec hinv2 hr nested now ts false r1.pend (fun _ => hb hbd) hn'
      refine ⟨allGood_append.mpr ⟨h1.good, h3.good⟩, by rw [run_append]; exact h3.inv, h3.ok, ?_⟩
      rcases h3.pend with hp | hp
      · rw [hp]; exact h1.pend
      · exact Or.inr hp
    · exact ⟨h1.good, hinv2, rfl, h1.pend⟩

theorem updateFragment_spec (h : Inv PP kd aw rdy c base m o) (hr : rdy)
    (nested : Nested) (now ts : Nat) (boundary : Bool) (pend : Option Frame)
    (hb : boundary = true → kd ∨ aw) (hn : ∀ a, pend = some a → NestedOk PP kd aw rdy c base nested a) :
    URok PP kd aw rdy c base o pend (updateFragment c nested now ts boundary m o.dir pend) := by
  unfold updateFragment
  split
  · exact updateOpened_spec h hr nested now ts boundary pend hb hn
  · split
    · exact reopen_spec h hr nested now ts true pend (fun hd => by cases hd) hn
    · exact ⟨h.good, h, rfl, Or.inl rfl⟩

/-- `FeedMpegts`: `aw` is what may be assumed about the frame while it is in flight, `aw'` afterwards. -/
theorem feedWith_spec {aw' : Prop} (h : Inv PP kd aw rdy c base m o) (hr : rdy)
    (nested : Nested) (now : Nat) (f : Frame) (pend : Option Frame)
    (hf : f.pkts.length % 188 = 0) (hb : f.boundary = true → kd ∨ aw)
    (hk : ∀ fs, firstVideoKey fs ∧ (noVideoIn fs → kd ∨ aw) → firstVideoKey (fs ++ [f]) ∧ (noVideoIn (fs ++ [f]) → kd ∨ aw'))
    (hn : ∀ a, pend = some a → NestedOk PP kd aw rdy c base nested a) :
    AllGood PP c.delThr o (feedWith c nested now f m o.dir pend).2.2 ∧
    Inv PP kd aw' rdy c base (feedWith c nested now f m o.dir pend).1 (o.run (feedWith c nested now f m o.dir pend).2.2) ∧
    ((feedWith c nested now f m o.dir pend).2.1 = pend ∨ (feedWith c nested now f m o.dir pend).2.1 = none) := by
  unfold feedWith
  dsimp only
  have h1 := updateFragment_spec h hr nested now (if f.audio then f.pts else f.dts) f.boundary pend hb hn
  generalize updateFragment c nested now (if f.audio = true then f.pts else f.dts) f.boundary m o.dir pend = r at h1 ⊢
  simp only [h1.ok, Bool.not_true, Bool.false_eq_true, if_false]
  by_cases hop : r.m.opened = true
  · simp only [hop, Bool.not_true, Bool.false_eq_true, if_false]
    obtain ⟨hg, hi⟩ := inv_write h1.inv hop f hf hk
    refine ⟨allGood_append.mpr ⟨h1.good, allGood_last h1.good, hg⟩, ?_, h1.pend⟩
    rw [run_append]; exact hi
  · have hop' : r.m.opened = false := by cases hm : r.m.opened <;> simp_all
    simp only [hop', Bool.not_false, if_true]
    exact ⟨h1.good, inv_aw_closed h1.inv hop', h1.pend⟩

theorem nestedOk_trivial (a : Frame) : NestedOk PP kd aw rdy c base (fun m _ _ => (m, [])) a :=
  fun _ _ h _ => ⟨h.good, h⟩

theorem nestedOk_feedInner (hr : rdy) (now : Nat) {a : Frame} (ha : PendOk kd a) :
    NestedOk PP kd aw rdy c base (feedInner c now) a := by
  intro m o h _
  have := feedWith_spec (aw' := aw) h hr (fun m _ _ => (m, [])) now a none ha.2.1
    (fun hb => Or.inl (ha.2.2 hb)) (fun fs hfs => keyClause_audio ha.1 hfs) (fun a' ha' => by cases ha')
  exact ⟨this.1, this.2.1⟩

/-- `aw` for the frame in flight -/
def KeyVideo (f : Frame) : Prop := f.audio = false ∧ f.key = true

/-- What a frame handed to `FeedMpegts` must be like. -/
def FrameOk (kd : Prop) (f : Frame) : Prop :=
  f.pkts.length % 188 = 0 ∧ (f.boundary = true → KeyVideo f ∨ kd) ∧ (kd → f.audio = true)

theorem feed_spec (h : Inv PP kd False rdy c base m o) (hr : rdy) (now : Nat) (f : Frame) (pend : Option Frame)
    (hf : FrameOk kd f) (hp : ∀ a, pend = some a → PendOk kd a) :
    AllGood PP c.delThr o (feed c now f m o.dir pend).2.2 ∧
    Inv PP kd False rdy c base (feed c now f m o.dir pend).1 (o.run (feed c now f m o.dir pend).2.2) ∧
    ((feed c now f m o.dir pend).2.1 = pend ∨ (feed c now f m o.dir pend).2.1 = none) := by
  unfold feed
  exact feedWith_spec (aw := KeyVideo f) (aw' := False) (inv_aw_weaken h False.elim) hr (feedInner c now) now f pend hf.1
    (fun hb => (hf.2.1 hb).symm) (fun fs hfs => keyClause_outer hf.2.2 id hfs)
    (fun a ha => nestedOk_feedInner hr now (hp a ha))

end Lal.HlsC
