import LalModel.Proof.HlsFs
/-
  The invariant that ties the muxer's state (`Hls.Mux`) to what the observer sees (`HlsC.Obs`), and the rules for the
  three primitive actions — append to the open fragment, open a fragment, close a fragment — each proved for EVERY
  intermediate instant (`AllGood`).
-/
namespace Lal.HlsC
open Lal Lal.Hls Lal.Fs

/-- ring slot that holds (or will hold) fragment number `x`: `getFrag(n)` is `slot (frag + n)` -/
def slot (c : Cfg) (m : Mux) (x : Nat) : FragInfo := m.frags.getD (x % c.cap) {}
/-- `getFragmentId()`: number of the open fragment, or of the next one to open -/
def cid (m : Mux) : Nat := m.frag + m.nfrags
/-- first fragment number not yet used -/
def nxt (m : Mux) : Nat := cid m + (if m.opened then 1 else 0)

theorem getFrag_eq (c : Cfg) (m : Mux) (n : Nat) : getFrag c m n = slot c m (m.frag + n) := rfl
theorem fragIdx_eq (c : Cfg) (m : Mux) (n : Nat) : fragIdx c m n = (m.frag + n) % c.cap := rfl
theorem cap_pos (c : Cfg) : 0 < c.cap := by unfold Cfg.cap; omega

theorem mod_inj_window {x y n : Nat} (h : x % n = y % n) (h1 : x < y + n) (h2 : y < x + n) : x = y := by
  by_cases hxy : x ≤ y
  · have := Nat.sub_mod_eq_zero_of_mod_eq h.symm
    have h3 : (y - x) % n = y - x := Nat.mod_eq_of_lt (by omega)
    omega
  · have := Nat.sub_mod_eq_zero_of_mod_eq h
    have h3 : (x - y) % n = x - y := Nat.mod_eq_of_lt (by omega)
    omega

/-- `base` = the first fragment number of this publish (0, or where the previous publish's playlist ended). -/
structure Ring (c : Cfg) (base : Nat) (m : Mux) : Prop where
  len    : m.frags.length = c.cap
  nle    : m.nfrags ≤ c.fragNum
  ble    : base ≤ m.frag
  bfill  : m.nfrags < c.fragNum → m.frag = base
  /-- the last `cap` fragment numbers in use sit in their slots, with their own number in id and file name -/
  used   : ∀ x, base ≤ x → x < nxt m → nxt m ≤ x + c.cap → (slot c m x).id = x ∧ ∃ now, (slot c m x).name = some (now, x)
  /-- slots not reached yet are empty (`filename == ""`) -/
  unused : ∀ y, nxt m ≤ y → y < base + c.cap → (slot c m y).name = none

theorem slot_set_same (c : Cfg) (m : Mux) (y : Nat) (v : FragInfo) (hl : m.frags.length = c.cap) :
    slot c { m with frags := m.frags.set (y % c.cap) v } y = v := by
  unfold slot
  simp only [List.getD_eq_getElem?_getD, List.getElem?_set]
  have : y % c.cap < m.frags.length := by rw [hl]; exact Nat.mod_lt _ (cap_pos c)
  simp [this]

theorem slot_set_other (c : Cfg) (m : Mux) (x y : Nat) (v : FragInfo) (h : x % c.cap ≠ y % c.cap) :
    slot c { m with frags := m.frags.set (y % c.cap) v } x = slot c m x := by
  unfold slot
  simp only [List.getD_eq_getElem?_getD, List.getElem?_set]
  simp [Ne.symm h]

/-- The observer-side invariant. `kd` = "the stream has no video at all", `aw` = "the frame being fed right now is a
    video key frame" (both only matter for the key-frame clause), `rdy` = "PAT/PMT has been delivered". -/
structure Inv (PP : Bytes → Prop) (kd aw rdy : Prop) (c : Cfg) (base : Nat) (m : Mux) (o : Obs) : Prop where
  ring : Ring c base m
  good : Good PP c.delThr o
  pp   : rdy → PP m.patpmt
  /-- closed fragments still in the ring window are on disk, closed, well formed -/
  closedSegs : ∀ x now, base ≤ x → x < cid m → cid m < x + c.cap → (slot c m x).name = some (now, x) →
      ∃ chunks, o.dir (.seg now x) = some { content := .data chunks, isOpen := false } ∧ SegOk PP (slot c m x).discont chunks
  /-- the open fragment -/
  curSeg : m.opened = true → ∃ now pp fs, m.cur = .seg now (cid m) ∧ (slot c m (cid m)).name = some (now, cid m) ∧
      o.dir (.seg now (cid m)) = some { content := .data (.patpmt pp :: fs.map .frame), isOpen := true } ∧
      PP pp ∧ (∀ f ∈ fs, f.pkts.length % 188 = 0) ∧
      ((slot c m (cid m)).discont = false → firstVideoKey fs ∧ (noVideoIn fs → kd ∨ aw))
  /-- every playlist version seen so far belongs to an earlier publish, or to this one and then lags the muxer's
      `frag` by at most its age -/
  vers : ∀ k v, o.versions[k]? = some v →
      v.fin ≤ base ∨ (base ≤ v.mediaSeq ∧ m.frag ≤ v.mediaSeq + k ∧ v.mediaSeq ≤ m.frag ∧ v.fin ≤ cid m)

variable {PP : Bytes → Prop} {kd aw rdy : Prop} {c : Cfg} {base : Nat} {m : Mux} {o : Obs} {D : Nat}

/-- every segment listed in any version seen so far has a number below the open / next fragment's -/
theorem listed_lt_cid (h : Inv PP kd aw rdy c base m o) {k : Nat} {v : Playlist} (hv : o.versions[k]? = some v) :
    v.fin ≤ cid m := by
  rcases h.vers k v hv with h1 | ⟨_, _, _, h4⟩
  · have := h.ring.ble; unfold cid; omega
  · exact h4

/-- numbers of the entries of a well-formed version -/
theorem entriesOk_ids {d : Dir} {t : Nat} : ∀ {s : Nat} {es : List Entry}, EntriesOk PP d t s es →
    ∀ e ∈ es, ∀ now id, e.name = some (now, id) → s ≤ id ∧ id < s + es.length
  | _, [], _, e, he, _, _, _ => by cases he
  | s, e0 :: es, h, e, he, now, id, hn => by
    obtain ⟨⟨_, now0, _, hn0, _, _⟩, hrest⟩ := h
    cases he with
    | head => rw [hn0] at hn; cases hn; simp
    | tail _ he' =>
      have := entriesOk_ids hrest e he' now id hn
      simp only [List.length_cons]; omega

theorem vlisted_range {d : Dir} {v : Playlist} (hv : VersionOk PP d v) {p : Path} (hp : VListed v p) :
    ∃ now id, p = .seg now id ∧ v.mediaSeq ≤ id ∧ id < v.fin := by
  obtain ⟨e, he, now, id, hn, rfl⟩ := hp
  have := entriesOk_ids hv e he now id hn
  exact ⟨now, id, rfl, this.1, this.2⟩

theorem mem_take_getElem? {α : Type} {l : List α} {n : Nat} {a : α} (h : a ∈ l.take n) : ∃ k, k < n ∧ l[k]? = some a := by
  obtain ⟨k, hk, rfl⟩ := List.getElem_of_mem h
  have hk' : k < n ∧ k < l.length := by
    have : k < min n l.length := by simpa [List.length_take] using hk
    omega
  refine ⟨k, hk'.1, ?_⟩
  rw [List.getElem_take]
  exact List.getElem?_eq_getElem hk'.2

/-- The frame rule, specialised: an operation that leaves alone the live playlist and every segment whose number lies in
    the window of one of the current / previous `delete_threshold` versions preserves `Good`. -/
theorem inv_frame_good (hg : Good PP D o) {op : FOp}
    (hlive : Fs.apply under o.dir op .live = o.dir .live)
    (hseg : ∀ now id, (∃ k v, k ≤ D ∧ o.versions[k]? = some v ∧ v.mediaSeq ≤ id ∧ id < v.fin) →
        Fs.apply under o.dir op (.seg now id) = o.dir (.seg now id)) :
    Good PP D (o.step op) ∧ (o.step op).versions = o.versions := by
  apply good_frame hg hlive
  intro v hv p hp
  obtain ⟨k, hk, hkv⟩ := mem_take_getElem? hv
  obtain ⟨now, id, rfl, hlo, hhi⟩ := vlisted_range (hg.recent v hv) hp
  exact hseg now id ⟨k, v, by omega, hkv, hlo, hhi⟩

/-! ### directory lemmas -/

@[simp] theorem set_same (d : Dir) (p : Path) (f : Option HFile) : Fs.set d p f p = f := by simp [Fs.set]
theorem set_other (d : Dir) {p q : Path} (f : Option HFile) (h : q ≠ p) : Fs.set d p f q = d q := by simp [Fs.set, h]

theorem apply_write_data {d : Dir} {p : Path} {old : List Chunk} {b : Bool} (x : Chunk)
    (h : d p = some { content := .data old, isOpen := b }) :
    Fs.apply under d (.write p x) = Fs.set d p (some { content := .data (old ++ [x]), isOpen := b }) := by
  simp [Fs.apply, h]

theorem apply_close_some {d : Dir} {p : Path} {f : HFile} (h : d p = some f) :
    Fs.apply under d (.close p) = Fs.set d p (some { f with isOpen := false }) := by
  simp [Fs.apply, h]

theorem apply_rename_some {d : Dir} {a b : Path} {f : HFile} (h : d a = some f) :
    Fs.apply under d (.rename a b) = Fs.set (Fs.set d a none) b (some f) := by
  simp [Fs.apply, h]

/-! ### the invariant does not look at durations, timestamps, `recordMaxFragDuration` -/

theorem inv_congr {m' : Mux} (h : Inv PP kd aw rdy c base m o)
    (ho : m'.opened = m.opened) (hf : m'.frag = m.frag) (hn : m'.nfrags = m.nfrags) (hc : m'.cur = m.cur)
    (hp : m'.patpmt = m.patpmt) (hl : m'.frags.length = m.frags.length)
    (hs : ∀ x, (slot c m' x).id = (slot c m x).id ∧ (slot c m' x).name = (slot c m x).name ∧
               (slot c m' x).discont = (slot c m x).discont) :
    Inv PP kd aw rdy c base m' o := by
  have hcid : cid m' = cid m := by unfold cid; rw [hf, hn]
  have hnxt : nxt m' = nxt m := by unfold nxt; rw [hcid, ho]
  constructor
  · constructor
    · rw [hl]; exact h.ring.len
    · rw [hn]; exact h.ring.nle
    · rw [hf]; exact h.ring.ble
    · rw [hn, hf]; exact h.ring.bfill
    · intro x h1 h2 h3
      rw [hnxt] at h2 h3
      rw [(hs x).1, (hs x).2.1]; exact h.ring.used x h1 h2 h3
    · intro y h1 h2
      rw [hnxt] at h1
      rw [(hs y).2.1]; exact h.ring.unused y h1 h2
  · exact h.good
  · rw [hp]; exact h.pp
  · intro x now h1 h2 h3 h4
    rw [hcid] at h2 h3
    rw [(hs x).2.1] at h4
    rw [(hs x).2.2]; exact h.closedSegs x now h1 h2 h3 h4
  · intro hop
    rw [ho] at hop
    rw [hcid, hc, (hs (cid m)).2.1, (hs (cid m)).2.2]
    exact h.curSeg hop
  · intro k v hv
    rw [hf, hcid]; exact h.vers k v hv

/-- `f.duration = duration` through the pointer `f` (any ring index) -/
theorem inv_setDur (h : Inv PP kd aw rdy c base m o) (i : Nat) (dur : Nat) :
    Inv PP kd aw rdy c base { m with frags := m.frags.set i { (m.frags.getD i {}) with dur := dur } } o := by
  refine inv_congr h ?_ ?_ ?_ ?_ ?_ ?_ ?_
  · rfl
  · rfl
  · rfl
  · rfl
  · rfl
  · simp
  intro x
  unfold slot
  simp only [List.getD_eq_getElem?_getD, List.getElem?_set]
  by_cases hi : i = x % c.cap
  · subst hi
    by_cases hl : x % c.cap < m.frags.length
    · simp [hl]
    · simp [hl]
  · simp [hi]

theorem inv_setRecMax (h : Inv PP kd aw rdy c base m o) (r : Nat) : Inv PP kd aw rdy c base { m with recMax := r } o := by
  refine inv_congr h ?_ ?_ ?_ ?_ ?_ ?_ ?_
  · rfl
  · rfl
  · rfl
  · rfl
  · rfl
  · rfl
  · exact fun _ => ⟨rfl, rfl, rfl⟩

/-- when no fragment is open the key-frame bookkeeping is void -/
theorem inv_aw_closed {aw' : Prop} (h : Inv PP kd aw rdy c base m o) (hc : m.opened = false) : Inv PP kd aw' rdy c base m o :=
  { ring := h.ring, good := h.good, pp := h.pp, closedSegs := h.closedSegs, vers := h.vers,
    curSeg := fun ho => by rw [hc] at ho; cases ho }

theorem inv_aw_weaken {aw' : Prop} (h : Inv PP kd aw rdy c base m o) (hw : aw → aw') : Inv PP kd aw' rdy c base m o :=
  { ring := h.ring, good := h.good, pp := h.pp, closedSegs := h.closedSegs, vers := h.vers,
    curSeg := fun ho => by
      obtain ⟨now, pp, fs, h1, h2, h3, h4, h5, h6⟩ := h.curSeg ho
      exact ⟨now, pp, fs, h1, h2, h3, h4, h5, fun hd => ⟨(h6 hd).1, fun hn => ((h6 hd).2 hn).imp id hw⟩⟩ }

/-! ### the frame rule for the whole invariant -/

theorem inv_frame (h : Inv PP kd aw rdy c base m o) {op : FOp} (P : Nat → Prop)
    (hlive : Fs.apply under o.dir op .live = o.dir .live)
    (hseg : ∀ now id, P id → Fs.apply under o.dir op (.seg now id) = o.dir (.seg now id))
    (hrecent : ∀ k v id, k ≤ c.delThr → o.versions[k]? = some v → v.mediaSeq ≤ id → id < v.fin → P id)
    (hwin : ∀ x, base ≤ x → x < cid m → cid m < x + c.cap → P x)
    (hcur : m.opened = true → P (cid m)) :
    Good PP c.delThr (o.step op) ∧ Inv PP kd aw rdy c base m (o.step op) := by
  obtain ⟨hg, hv⟩ := inv_frame_good h.good hlive
    (fun now id ⟨k, v, hk, hkv, h1, h2⟩ => hseg now id (hrecent k v id hk hkv h1 h2))
  refine ⟨hg, ?_⟩
  constructor
  · exact h.ring
  · exact hg
  · exact h.pp
  · intro x now h1 h2 h3 h4
    rw [step_dir, hseg now x (hwin x h1 h2 h3)]
    exact h.closedSegs x now h1 h2 h3 h4
  · intro hop
    obtain ⟨now, pp, fs, h1, h2, h3, h4⟩ := h.curSeg hop
    refine ⟨now, pp, fs, h1, h2, ?_, h4⟩
    rw [step_dir, hseg now (cid m) (hcur hop)]; exact h3
  · intro k v hkv
    rw [hv] at hkv; exact h.vers k v hkv

end Lal.HlsC
