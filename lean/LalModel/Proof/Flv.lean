import LalModel.Model.Flv
import LalModel.Spec.FlvSpec
import LalModel.Proof.Bytes
namespace Lal.Flv
open Lal

theorem packTag_length (t : UInt8) (ts : Nat) (p : Bytes) : (packTag t ts p).length = 11 + p.length + 4 := by
  simp [packTag]; omega

/-- lal's own reader on lal's own tag. -/
theorem readTag_packTag (t : UInt8) (ts : Nat) (p r : Bytes)
    (hl : p.length < 16777216) (hts : ts < 4294967296) :
    readTag (packTag t ts p ++ r)
      = some ({ typ := t, dataSize := p.length, ts := ts }, packTag t ts p, r) := by
  have h24 : rd24 (b8 (p.length/65536)) (b8 (p.length/256)) (b8 p.length) = p.length := rd24_be24 _ hl
  have hts' : (b8 (ts / 16777216)).toNat * 16777216 + rd24 (b8 (ts/65536)) (b8 (ts/256)) (b8 ts) = ts := by
    simp only [rd24, b8_toNat]; omega
  unfold readTag
  have hlen : ¬ (packTag t ts p ++ r).length < 11 := by
    simp [packTag]; omega
  rw [if_neg hlen]
  have htake : (packTag t ts p ++ r).take 11
      = [t, b8 (p.length/65536), b8 (p.length/256), b8 p.length, b8 (ts/65536), b8 (ts/256), b8 ts,
         b8 (ts/16777216), 0, 0, 0] := by
    simp [packTag, be24]
  rw [htake]
  simp only [parseTagHeader, h24, hts']
  have hdrop : (packTag t ts p ++ r).drop 11 = p ++ be32 (11 + p.length) ++ r := by
    simp [packTag, be24]
  rw [hdrop]
  have h2 : ¬ (p ++ be32 (11 + p.length) ++ r).length < p.length + 4 := by simp
  rw [if_neg h2]
  have e : 11 + (p.length + 4) = (packTag t ts p).length := by have := packTag_length t ts p; omega
  simp only [e, List.take_left', List.drop_left']

theorem payloadOfRaw_packTag (t : UInt8) (ts : Nat) (p : Bytes) : payloadOfRaw (packTag t ts p) = p := by
  unfold payloadOfRaw
  rw [packTag_length]
  have : (packTag t ts p).drop 11 = p ++ be32 (11 + p.length) := by simp [packTag, be24]
  rw [this]
  have : 11 + p.length + 4 - 11 - 4 = p.length := by omega
  rw [this]; simp

end Lal.Flv

namespace Lal.FlvSpec
open Lal Lal.Flv

/-- the specification reader on lal's tag -/
theorem spec_readTag_packTag (t : UInt8) (ts : Nat) (p r : Bytes)
    (ht : t.toNat < 32) (hl : p.length < 16777216) (hts : ts < 4294967296) :
    readTag (packTag t ts p ++ r) = some ({ typ := t, ts := ts, payload := p }, r) := by
  have h24 : rd24 (b8 (p.length/65536)) (b8 (p.length/256)) (b8 p.length) = p.length := rd24_be24 _ hl
  have hts' : (b8 (ts / 16777216)).toNat * 16777216 + rd24 (b8 (ts/65536)) (b8 (ts/256)) (b8 ts) = ts := by
    simp only [rd24, b8_toNat]; omega
  have h32 : rd32 (b8 ((11 + p.length)/16777216)) (b8 ((11 + p.length)/65536)) (b8 ((11 + p.length)/256))
      (b8 (11 + p.length)) = 11 + p.length := rd32_be32 _ (by have := hl; omega)
  have hz : rd24 (0:UInt8) 0 0 = 0 := by decide
  have e : packTag t ts p ++ r =
      t :: b8 (p.length/65536) :: b8 (p.length/256) :: b8 p.length :: b8 (ts/65536) :: b8 (ts/256) :: b8 ts ::
        b8 (ts/16777216) :: 0 :: 0 :: 0 :: (p ++ be32 (11 + p.length) ++ r) := by
    simp [packTag, be24]
  rw [e]
  simp only [readTag, h24, hz]
  have h1 : ¬ t.toNat ≥ 32 := by omega
  rw [if_neg h1]
  simp only [ne_eq, not_true_eq_false, if_false]
  have h2 : ¬ (p ++ be32 (11 + p.length) ++ r).length < p.length + 4 := by simp
  rw [if_neg h2]
  have hd : (p ++ be32 (11 + p.length) ++ r).drop p.length = be32 (11 + p.length) ++ r := by
    simp [List.append_assoc]
  have htk : (p ++ be32 (11 + p.length) ++ r).take p.length = p := by
    simp [List.append_assoc]
  rw [hd, htk]
  simp only [be32, List.cons_append, List.nil_append, h32, if_true, hts']

theorem readTags_append (tags : List (UInt8 × Nat × Bytes))
    (hwf : ∀ x ∈ tags, x.1.toNat < 32 ∧ x.2.2.length < 16777216 ∧ x.2.1 < 4294967296) :
    ∀ fuel, fuel ≥ (tags.flatMap fun x => packTag x.1 x.2.1 x.2.2).length →
    readTags fuel (tags.flatMap fun x => packTag x.1 x.2.1 x.2.2)
      = some (tags.map fun x => { typ := x.1, ts := x.2.1, payload := x.2.2 }) := by
  induction tags with
  | nil => intro fuel _; cases fuel <;> simp [readTags]
  | cons x xs ih =>
    intro fuel hf
    have hx := hwf x (by simp)
    have hxs : ∀ y ∈ xs, y.1.toNat < 32 ∧ y.2.2.length < 16777216 ∧ y.2.1 < 4294967296 :=
      fun y hy => hwf y (by simp [hy])
    simp only [List.flatMap_cons, List.length_append, Flv.packTag_length] at hf ⊢
    cases fuel with
    | zero => omega
    | succ f =>
      have hne : ∃ c cs, packTag x.1 x.2.1 x.2.2 ++ (xs.flatMap fun x => packTag x.1 x.2.1 x.2.2) = c :: cs := by
        simp [packTag]
      obtain ⟨c, cs, hc⟩ := hne
      have hrd := spec_readTag_packTag x.1 x.2.1 x.2.2 (xs.flatMap fun x => packTag x.1 x.2.1 x.2.2) hx.1 hx.2.1 hx.2.2
      rw [hc] at hrd ⊢
      simp only [readTags, hrd]
      rw [ih hxs f (by omega)]
      simp

end Lal.FlvSpec
