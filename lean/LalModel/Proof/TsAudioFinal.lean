import LalModel.Proof.TsAudio
import LalModel.Proof.TsFinal
import LalModel.Proof.Aac
/-
  Audio, end to end: from the remuxer's run on the messages of a well-formed publish to the ADTS frames (Opus packets)
  the conforming demultiplexer recovers.
-/
namespace Lal.TsAudioFinal
open Lal Lal.TsRmx Lal.Publish Lal.TsScenario Lal.TsContent Lal.TsStream Lal.TsAudio Lal.TsFinal

/-! ### the messages of the audio elements -/

def ascOf : Option (Nat × Nat × Nat) → Option Aac.AscContext
  | none => none
  | some (o, s, ch) => some ⟨o, s, ch⟩

def ctxOf (fr : AacFrame) : Aac.AscContext := ⟨fr.objType, fr.sfi, fr.ch⟩

/-- the cache entry of an AAC frame: ADTS header for its configuration, then the frame -/
def entOf (fr : AacFrame) : Ent := (fr.ts, Aac.packAdtsHeader (ctxOf fr) fr.frame.length ++ fr.frame)

theorem audioAu_aacConfig (asc : Option Aac.AscContext) (c : VCodec) (o s ch : Nat) (h : ElemWF c (.aacConfig o s ch)) :
    audioAu asc (render c (.aacConfig o s ch)) = .config (some ⟨o, s, ch⟩) := by
  obtain ⟨h1, h2, h3, h4, h5⟩ := h
  unfold audioAu
  have hp : (render c (.aacConfig o s ch)).payload = [0xaf, 0, b8 (o * 8 + s / 2), b8 (s % 2 * 128 + ch * 8)] := rfl
  have hcodec : audioCodecId [0xaf, 0, b8 (o * 8 + s / 2), b8 (s % 2 * 128 + ch * 8)] = Gen.rtmpSoundFormatAac := by
    simp [audioCodecId, pb_cons_zero]; decide
  have a1 : (o * 8 + s / 2) % 256 / 8 = o := by omega
  have a2 : (o * 8 + s / 2) % 256 % 8 * 2 + (s % 2 * 128 + ch * 8) % 256 / 128 = s := by omega
  have a3 : (s % 2 * 128 + ch * 8) % 256 / 8 % 16 = ch := by omega
  simp [hp, hcodec, pb_cons_succ, pb_cons_zero, Aac.ascUnpack, goErr, a1, a3]
  omega

theorem audioAu_aacFrame (x : Aac.AscContext) (c : VCodec) (ts : Nat) (f : Bytes) (h : ElemWF c (.aacFrame ts f)) :
    audioAu (some x) (render c (.aacFrame ts f)) = .aac (Aac.packAdtsHeader x f.length ++ f) := by
  obtain ⟨h1, _, _⟩ := h
  unfold audioAu
  have hp : (render c (.aacFrame ts f)).payload = 0xaf :: 1 :: f := rfl
  have hcodec : audioCodecId (0xaf :: 1 :: f) = Gen.rtmpSoundFormatAac := by
    simp [audioCodecId, pb_cons_zero]; decide
  have hl : 0 < f.length := List.length_pos_iff.mpr h1
  have e2 : ¬ (f.length + 1 + 1 ≤ 1) := by omega
  have e3 : ¬ (f.length = 0) := by omega
  simp [hp, hcodec, pb_cons_succ, pb_cons_zero, e2, e3]

theorem audioAu_aacFrame_none (c : VCodec) (ts : Nat) (f : Bytes) (h : ElemWF c (.aacFrame ts f)) :
    audioAu none (render c (.aacFrame ts f)) = .ignore := by
  obtain ⟨h1, _, _⟩ := h
  unfold audioAu
  have hp : (render c (.aacFrame ts f)).payload = 0xaf :: 1 :: f := rfl
  have hcodec : audioCodecId (0xaf :: 1 :: f) = Gen.rtmpSoundFormatAac := by
    simp [audioCodecId, pb_cons_zero]; decide
  simp [hp, hcodec, pb_cons_succ, pb_cons_zero]

theorem audioAu_opus (asc : Option Aac.AscContext) (c : VCodec) (ts : Nat) (p : Bytes) (h : ElemWF c (.opus ts p)) :
    audioAu asc (render c (.opus ts p)) = .opus p := by
  obtain ⟨h1, _, _⟩ := h
  unfold audioAu
  have hp : (render c (.opus ts p)).payload = 0xdf :: p := rfl
  have hcodec : audioCodecId (0xdf :: p) = Gen.rtmpSoundFormatOpus := by
    simp [audioCodecId, pb_cons_zero]; decide
  have hl : 0 < p.length := List.length_pos_iff.mpr h1
  have e0 : ¬ Gen.rtmpSoundFormatOpus = Gen.rtmpSoundFormatAac := by decide
  have e2 : ¬ (p.length = 0) := by omega
  simp [hp, hcodec, e0, e2]

/-! ### the entries of a well-formed publish -/

theorem render_typ_video (c : VCodec) (e : Elem) (h : e.isVideoConfig = true ∨ e.isVideoFrame = true) : (render c e).typ = 9 := by
  cases e <;> simp_all [Elem.isVideoConfig, Elem.isVideoFrame, render]

theorem astep_video (a : Option Aac.AscContext × List Ent) (m : Msg) (h : m.typ = 9) : astep a m = a := by
  unfold astep; rw [if_neg (by omega)]

theorem afold_aac (c : VCodec) : ∀ (elems : List Elem) (cfg : Option (Nat × Nat × Nat)) (E : List Ent),
    (∀ e ∈ elems, ElemWF c e) → AudioUniform true elems →
    ∃ cfg', afold (ascOf cfg, E) (elems.map (render c)) = (ascOf cfg', E ++ (aacFrames cfg elems).map entOf) := by
  intro elems
  induction elems with
  | nil => intro cfg E _ _; exact ⟨cfg, by simp [afold, aacFrames]⟩
  | cons e es ih =>
    intro cfg E hwf hu
    have hwfe := hwf e (by simp)
    have hrest : ∀ e' ∈ es, ElemWF c e' := fun e' he' => hwf e' (by simp [he'])
    have hurest : AudioUniform true es := fun e' he' => hu e' (by simp [he'])
    simp only [List.map_cons, afold]
    cases e with
    | avcConfig x y sps pps =>
      rw [astep_video _ _ rfl]
      have : aacFrames cfg (.avcConfig x y sps pps :: es) = aacFrames cfg es := by cases cfg <;> rfl
      rw [this]; exact ih cfg E hrest hurest
    | hevcConfig g v sp pp =>
      rw [astep_video _ _ rfl]
      have : aacFrames cfg (.hevcConfig g v sp pp :: es) = aacFrames cfg es := by cases cfg <;> rfl
      rw [this]; exact ih cfg E hrest hurest
    | video ts ct key nals =>
      rw [astep_video _ _ rfl]
      have : aacFrames cfg (.video ts ct key nals :: es) = aacFrames cfg es := by cases cfg <;> rfl
      rw [this]; exact ih cfg E hrest hurest
    | aacConfig o s ch =>
      have hst : astep (ascOf cfg, E) (render c (.aacConfig o s ch)) = (ascOf (some (o, s, ch)), E) := by
        unfold astep aeffect
        have ht : (render c (.aacConfig o s ch)).typ = 8 := rfl
        rw [if_pos ht, audioAu_aacConfig _ c o s ch hwfe]
        simp [ascOf]
      rw [hst]
      have : aacFrames cfg (.aacConfig o s ch :: es) = aacFrames (some (o, s, ch)) es := by cases cfg <;> rfl
      rw [this]; exact ih _ E hrest hurest
    | aacFrame ts f =>
      cases cfg with
      | none =>
        have hst : astep (ascOf none, E) (render c (.aacFrame ts f)) = (ascOf none, E) := by
          unfold astep aeffect
          have ht : (render c (.aacFrame ts f)).typ = 8 := rfl
          rw [if_pos ht]
          simp only [ascOf, audioAu_aacFrame_none c ts f hwfe, List.append_nil]
        rw [hst]
        exact ih none E hrest hurest
      | some cf =>
        obtain ⟨o, s, ch⟩ := cf
        have hst : astep (ascOf (some (o, s, ch)), E) (render c (.aacFrame ts f))
            = (ascOf (some (o, s, ch)), E ++ [entOf { ts := ts, objType := o, sfi := s, ch := ch, frame := f }]) := by
          unfold astep aeffect
          have ht : (render c (.aacFrame ts f)).typ = 8 := rfl
          have hts : (render c (.aacFrame ts f)).ts = ts := rfl
          rw [if_pos ht]
          simp only [ascOf, audioAu_aacFrame ⟨o, s, ch⟩ c ts f hwfe, hts, entOf, ctxOf]
        rw [hst]
        obtain ⟨cfg', h⟩ := ih (some (o, s, ch)) (E ++ [entOf { ts := ts, objType := o, sfi := s, ch := ch, frame := f }]) hrest hurest
        exact ⟨cfg', by rw [h]; simp [aacFrames]⟩
    | opus ts p =>
      have := hu (.opus ts p) (by simp)
      simp [audioKindOK] at this

/-- an AAC frame and its configuration as the ADTS header can carry them -/
def AacWF (fr : AacFrame) : Prop :=
  1 ≤ fr.objType ∧ fr.objType ≤ 4 ∧ fr.sfi < 13 ∧ fr.ch < 8 ∧ fr.frame.length + 7 < 8192

theorem aacFrames_wf (c : VCodec) : ∀ (elems : List Elem) (cfg : Option (Nat × Nat × Nat)),
    (∀ e ∈ elems, ElemWF c e) → (∀ o s ch, cfg = some (o, s, ch) → 1 ≤ o ∧ o ≤ 4 ∧ s < 13 ∧ ch < 8) →
    ∀ fr ∈ aacFrames cfg elems, AacWF fr := by
  intro elems
  induction elems with
  | nil => intro _ _ _ fr h; simp [aacFrames] at h
  | cons e es ih =>
    intro cfg hwf hcfg fr hfr
    have hwfe := hwf e (by simp)
    have hrest : ∀ e' ∈ es, ElemWF c e' := fun e' he' => hwf e' (by simp [he'])
    cases e with
    | avcConfig x y sps pps =>
      have : aacFrames cfg (.avcConfig x y sps pps :: es) = aacFrames cfg es := by cases cfg <;> rfl
      rw [this] at hfr; exact ih cfg hrest hcfg fr hfr
    | hevcConfig g v sp pp =>
      have : aacFrames cfg (.hevcConfig g v sp pp :: es) = aacFrames cfg es := by cases cfg <;> rfl
      rw [this] at hfr; exact ih cfg hrest hcfg fr hfr
    | video ts ct key nals =>
      have : aacFrames cfg (.video ts ct key nals :: es) = aacFrames cfg es := by cases cfg <;> rfl
      rw [this] at hfr; exact ih cfg hrest hcfg fr hfr
    | opus ts p =>
      have : aacFrames cfg (.opus ts p :: es) = aacFrames cfg es := by cases cfg <;> rfl
      rw [this] at hfr; exact ih cfg hrest hcfg fr hfr
    | aacConfig o s ch =>
      have : aacFrames cfg (.aacConfig o s ch :: es) = aacFrames (some (o, s, ch)) es := by cases cfg <;> rfl
      rw [this] at hfr
      obtain ⟨h1, h2, h3, h4, h5⟩ := hwfe
      exact ih _ hrest (fun o' s' ch' he => by simp only [Option.some.injEq, Prod.mk.injEq] at he; obtain ⟨rfl, rfl, rfl⟩ := he; exact ⟨h1, h2, h3, h5⟩) fr hfr
    | aacFrame ts f =>
      cases cfg with
      | none => exact ih none hrest hcfg fr (by simpa [aacFrames] using hfr)
      | some cf =>
        obtain ⟨o, s, ch⟩ := cf
        simp only [aacFrames, List.mem_cons] at hfr
        rcases hfr with rfl | hfr
        · obtain ⟨a1, a2, a3, a4⟩ := hcfg o s ch rfl
          exact ⟨a1, a2, a3, a4, hwfe.2.1⟩
        · exact ih _ hrest hcfg fr hfr

/-! ### groups of frames behind groups of entries -/

theorem split_map {α β} (f : α → β) : ∀ (gs : List (List β)) (pend : List β) (L : List α), gs.flatten ++ pend = L.map f →
    ∃ (G : List (List α)) (P : List α), gs = G.map (List.map f) ∧ pend = P.map f ∧ G.flatten ++ P = L := by
  intro gs
  induction gs with
  | nil => intro pend L h; exact ⟨[], L, rfl, by simpa using h, rfl⟩
  | cons g gs ih =>
    intro pend L h
    simp only [List.flatten_cons, List.append_assoc] at h
    obtain ⟨L1, L2, hL, h1, h2⟩ := List.map_eq_append_iff.mp h.symm
    obtain ⟨G, P, hg, hp, hl⟩ := ih pend L2 h2.symm
    exact ⟨L1 :: G, P, by simp [hg, h1], hp, by simp [hL, hl]⟩

/-- recovered audio PES packets against groups of published frames: whole frames with the header fields of their
    configuration, the PES packet stamped with its first frame's time (re-based, plus delay, modulo 2^33) -/
def PesRel : Option Nat → List Demux.AudioPes → List (List AacFrame) → Prop
  | _, [], [] => True
  | b, p :: ps, g :: gs =>
    g ≠ [] ∧ p.frames = g.map (fun fr => (adtsOf (ctxOf fr) fr.frame.length, fr.frame))
    ∧ p.pts = ((rebase b ((g.headD ⟨0, 0, 0, 0, []⟩).ts * 90)).2 + Ts.delay) % two33
    ∧ PesRel (some (rebase b ((g.headD ⟨0, 0, 0, 0, []⟩).ts * 90)).1) ps gs
  | _, _, _ => False

/-- ADTS frames with per-frame configurations -/
theorem adtsFrames_join' : ∀ (fs : List AacFrame), (∀ fr ∈ fs, AacWF fr) → ∀ fuel, fuel ≥ fs.length →
    Demux.adtsFrames fuel (graw (fs.map entOf)) = some (fs.map fun fr => (adtsOf (ctxOf fr) fr.frame.length, fr.frame)) := by
  intro fs
  induction fs with
  | nil => intro _ fuel _; cases fuel <;> rfl
  | cons fr fs ih =>
    intro hall fuel hf
    cases fuel with
    | zero => simp at hf
    | succ fuel =>
      obtain ⟨w1, w2, w3, w4, w5⟩ := hall fr (by simp)
      have hrd := readAdts_header_append (ctxOf fr) fr.frame.length (fr.frame ++ graw (fs.map entOf)) ⟨w1, w2⟩ (by show fr.sfi < 16; omega) w4 w5
      have e : graw ((fr :: fs).map entOf) = Aac.packAdtsHeader (ctxOf fr) fr.frame.length ++ (fr.frame ++ graw (fs.map entOf)) := by
        simp [graw, entOf, List.append_assoc]
      rw [e]
      have hlen : (Aac.packAdtsHeader (ctxOf fr) fr.frame.length).length = 7 := rfl
      have hne : Aac.packAdtsHeader (ctxOf fr) fr.frame.length ++ (fr.frame ++ graw (fs.map entOf)) ≠ [] := by simp [Aac.packAdtsHeader]
      generalize hL : Aac.packAdtsHeader (ctxOf fr) fr.frame.length ++ (fr.frame ++ graw (fs.map entOf)) = L at hrd hne
      obtain ⟨x, xs, hx⟩ : ∃ x xs, L = x :: xs := by
        cases L with
        | nil => exact absurd rfl hne
        | cons x xs => exact ⟨x, xs, rfl⟩
      have hstep : Demux.adtsFrames (fuel + 1) L =
          (match AudioSpec.readAdts L with
           | none => none
           | some h =>
             let hl := if h.protectionAbsent = 1 then 7 else 9
             if h.frameLength < hl ∨ L.length < h.frameLength then none
             else (Demux.adtsFrames fuel (L.drop h.frameLength)).map fun r => (h, (L.take h.frameLength).drop hl) :: r) := by
        rw [hx]; rfl
      rw [hstep, hrd]
      simp only [adtsOf, if_true]
      have hLlen : L.length = 7 + (fr.frame.length + (graw (fs.map entOf)).length) := by
        rw [← hL]; simp only [List.length_append, hlen]
      have hlt : ¬ (fr.frame.length + 7 < 7 ∨ L.length < fr.frame.length + 7) := by rw [hLlen]; omega
      rw [if_neg hlt]
      have hdrop : L.drop (fr.frame.length + 7) = graw (fs.map entOf) := by
        rw [← hL, ← List.append_assoc]
        rw [List.drop_left' (by simp [hlen]; omega)]
      have htake : (L.take (fr.frame.length + 7)).drop 7 = fr.frame := by
        rw [← hL, ← List.append_assoc]
        rw [List.take_left' (by simp [hlen]; omega)]
        rw [List.drop_left' hlen]
      rw [hdrop, htake, ih (fun g hg => hall g (by simp [hg])) fuel (by simp at hf; omega)]
      simp [adtsOf]

theorem gts_map (g : List AacFrame) (h : g ≠ []) : gts (g.map entOf) = (g.headD ⟨0, 0, 0, 0, []⟩).ts := by
  cases g with
  | nil => exact absurd rfl h
  | cons x xs => rfl

theorem graw_length_ge (g : List AacFrame) : (graw (g.map entOf)).length ≥ g.length := by
  induction g with
  | nil => simp [graw]
  | cons x xs ih =>
    simp only [List.map_cons, graw, List.flatMap_cons, List.length_append, List.length_cons] at ih ⊢
    have : (entOf x).2.length ≥ 7 := by simp [entOf, Aac.packAdtsHeader]
    omega

/-- the audio frames the remuxer packed, demultiplexed and split at the ADTS headers -/
theorem aacPess_of_fg : ∀ (fs : List Ts.Frame) (b : Option Nat) (G : List (List AacFrame)),
    FG b fs (G.map (List.map entOf)) → (∀ g ∈ G, ∀ fr ∈ g, AacWF fr) →
    ∃ pess, Demux.aacPess (fs.map unitOf) = some pess ∧ PesRel b pess G := by
  intro fs
  induction fs with
  | nil =>
    intro b G h _
    cases G with
    | nil => exact ⟨[], rfl, trivial⟩
    | cons g gs => exact absurd h (by simp [TsAudio.FG])
  | cons f fs ih =>
    intro b G h hwf
    cases G with
    | nil => exact absurd h (by simp [TsAudio.FG])
    | cons g gs =>
      simp only [List.map_cons] at h
      obtain ⟨hne, hraw, hdts, hpts, hrest⟩ := h
      have hgne : g ≠ [] := by intro e; rw [e] at hne; exact hne rfl
      rw [gts_map g hgne] at hdts hrest
      obtain ⟨pess, hp, hrel⟩ := ih _ gs hrest (fun g' hg' => hwf g' (by simp [hg']))
      have hsplit := adtsFrames_join' g (hwf g (by simp)) f.raw.length (by rw [hraw]; exact graw_length_ge g)
      rw [← hraw] at hsplit
      refine ⟨{ pts := (f.pts + Ts.delay) % two33, frames := g.map fun fr => (adtsOf (ctxOf fr) fr.frame.length, fr.frame) } :: pess, ?_, ?_⟩
      · simp only [List.map_cons, Demux.aacPess, Demux.aacPes, unitOf, hsplit, hp, two33]
      · exact ⟨hgne, rfl, by simp only [hpts, hdts], hrel⟩

/-! ### end to end -/

section
variable {σ : Type} (obs : Observer σ)

theorem arun_init (aacS : Bool) : ARun aacS ({} : St) [] [] := Or.inr ⟨rfl, rfl, rfl, rfl, rfl, rfl, rfl⟩

/-- AAC, end to end -/
theorem aac_end_to_end (o : σ) (c : VCodec) (elems : List Elem) (evs : List Ev)
    (hm : msgsOf evs = elems.map (render c)) (hwf : ∀ e ∈ elems, ElemWF c e)
    (hu : AudioUniform true elems) (hdone : (run obs {} o evs).1.done = true) :
    ∃ (groups : List (List AacFrame)) (pending : List AacFrame),
      groups.flatten ++ pending = aacFrames none elems
      ∧ ((run obs {} o evs).1.cache = [] → pending = [])
      ∧ ∃ pess, (Demux.pidUnits apid (tsOf (run obs {} o evs).2.2)).bind Demux.aacPess = some pess
          ∧ PesRel none pess groups := by
  have hb := evs_bounded c true elems hwf hu evs hm
  have hq0 : QInv true ({} : St) := fun m hm => by simp at hm
  have hstep := run_step obs true evs {} o sinv_init (fun h => by cases h) hq0 hb
  have harun := run_arun obs true evs {} o [] [] sinv_init (fun h => by cases h) hq0 hb (arun_init true)
  simp only [List.nil_append] at harun
  rcases harun with ⟨_, gs, pend, hinv, _, hall, _⟩ | ⟨hd, _⟩
  · obtain ⟨cfg', hfold⟩ := afold_aac c elems none [] hwf hu
    rw [hm] at hall
    have hf : (afold (none, []) (elems.map (render c))).2 = (aacFrames none elems).map entOf := by
      have : afold (ascOf none, []) (elems.map (render c)) = afold (none, []) (elems.map (render c)) := rfl
      rw [← this, hfold]; simp
    rw [hf] at hall
    obtain ⟨G, P, hg, hp, hl⟩ := split_map entOf gs pend _ hall
    have hwfall : ∀ fr ∈ aacFrames none elems, AacWF fr := aacFrames_wf c elems none hwf (fun _ _ _ h => by cases h)
    have hwfG : ∀ g ∈ G, ∀ fr ∈ g, AacWF fr := by
      intro g hgm fr hfr
      apply hwfall
      rw [← hl]
      exact List.mem_append_left _ (List.mem_flatten.mpr ⟨g, hgm, hfr⟩)
    have hfg := hinv.fg
    rw [hg] at hfg
    obtain ⟨pess, hpess, hrel⟩ := aacPess_of_fg _ none G hfg hwfG
    refine ⟨G, P, hl, ?_, pess, ?_, hrel⟩
    · intro hc
      have : pend = [] := (graw_nil_iff pend hinv.ne).mp (by rw [← hinv.cache]; exact hc)
      rw [hp] at this
      simpa using this
    · rw [(demux_of_step hstep).2]
      exact hpess
  · rw [hd] at hdone; cases hdone

/-! ### Opus -/

theorem afold_opus (c : VCodec) : ∀ (elems : List Elem) (E : List Ent),
    (∀ e ∈ elems, ElemWF c e) → AudioUniform false elems →
    afold (none, E) (elems.map (render c)) = (none, E ++ opusPackets elems) := by
  intro elems
  induction elems with
  | nil => intro E _ _; simp [afold, opusPackets]
  | cons e es ih =>
    intro E hwf hu
    have hwfe := hwf e (by simp)
    have hrest : ∀ e' ∈ es, ElemWF c e' := fun e' he' => hwf e' (by simp [he'])
    have hurest : AudioUniform false es := fun e' he' => hu e' (by simp [he'])
    simp only [List.map_cons, afold]
    cases e with
    | avcConfig x y sps pps => rw [astep_video _ _ rfl]; simpa [opusPackets] using ih E hrest hurest
    | hevcConfig g v sp pp => rw [astep_video _ _ rfl]; simpa [opusPackets] using ih E hrest hurest
    | video ts ct key nals => rw [astep_video _ _ rfl]; simpa [opusPackets] using ih E hrest hurest
    | aacConfig o s ch => have := hu (.aacConfig o s ch) (by simp); simp [audioKindOK] at this
    | aacFrame ts f => have := hu (.aacFrame ts f) (by simp); simp [audioKindOK] at this
    | opus ts p =>
      have hst : astep (none, E) (render c (.opus ts p)) = (none, E ++ [(ts, p)]) := by
        unfold astep aeffect
        have ht : (render c (.opus ts p)).typ = 8 := rfl
        have hts : (render c (.opus ts p)).ts = ts := rfl
        rw [if_pos ht]
        simp only [audioAu_opus none c ts p hwfe, hts]
      rw [hst, ih _ hrest hurest]
      simp [opusPackets]

/-- recovered PES packets of the audio PID against the published Opus packets: one packet per PES packet, stamped
    with the packet's time -/
def OpusRel : Option Nat → List TsSpec.Unit → List (Nat × Bytes) → Prop
  | _, [], [] => True
  | b, u :: us, p :: ps =>
    u.pes.data = p.2 ∧ u.pes.pts = some (((rebase b (p.1 * 90)).2 + Ts.delay) % two33)
    ∧ OpusRel (some (rebase b (p.1 * 90)).1) us ps
  | _, _, _ => False

theorem singletons (gs : List (List Ent)) (h : ∀ g ∈ gs, g.length = 1) : gs = gs.flatten.map fun e => [e] := by
  induction gs with
  | nil => rfl
  | cons g gs ih =>
    have hg := h g (by simp)
    match g, hg with
    | [e], _ =>
      simp only [List.flatten_cons, List.singleton_append, List.map_cons]
      rw [← ih (fun g' hg' => h g' (by simp [hg']))]

theorem opus_of_fg : ∀ (fs : List Ts.Frame) (b : Option Nat) (ps : List Ent),
    TsAudio.FG b fs (ps.map fun e => [e]) → OpusRel b (fs.map unitOf) ps := by
  intro fs
  induction fs with
  | nil =>
    intro b ps h
    cases ps with
    | nil => trivial
    | cons p ps => exact absurd h (by simp [TsAudio.FG])
  | cons f fs ih =>
    intro b ps h
    cases ps with
    | nil => exact absurd h (by simp [TsAudio.FG])
    | cons p ps =>
      simp only [List.map_cons] at h
      obtain ⟨_, hraw, hdts, hpts, hrest⟩ := h
      have hg : gts [p] = p.1 := rfl
      rw [hg] at hdts hrest
      refine ⟨by simp [unitOf, hraw, graw], by simp only [unitOf, hpts, hdts, two33], ih _ ps hrest⟩

theorem opus_end_to_end (o : σ) (c : VCodec) (elems : List Elem) (evs : List Ev)
    (hm : msgsOf evs = elems.map (render c)) (hwf : ∀ e ∈ elems, ElemWF c e)
    (hu : AudioUniform false elems) (hdone : (run obs {} o evs).1.done = true) :
    ∃ units, Demux.pidUnits apid (tsOf (run obs {} o evs).2.2) = some units ∧ OpusRel none units (opusPackets elems) := by
  have hb := evs_bounded c false elems hwf hu evs hm
  have hq0 : QInv false ({} : St) := fun m hm => by simp at hm
  have hstep := run_step obs false evs {} o sinv_init (fun _ => rfl) hq0 hb
  have harun := run_arun obs false evs {} o [] [] sinv_init (fun _ => rfl) hq0 hb (arun_init false)
  simp only [List.nil_append] at harun
  rcases harun with ⟨_, gs, pend, hinv, _, hall, hgrp⟩ | ⟨hd, _⟩
  · have hc := hstep.opus rfl
    have hp0 : pend = [] := (graw_nil_iff pend hinv.ne).mp (by rw [← hinv.cache]; exact hc)
    rw [hm, afold_opus c elems [] hwf hu, hp0] at hall
    simp only [List.append_nil, List.nil_append] at hall
    have hsing : ∀ g ∈ gs, g.length = 1 := by
      intro g hg
      rcases hgrp g hg with h | h
      · cases h
      · exact h
    have hgs := singletons gs hsing
    rw [hall] at hgs
    have hfg := hinv.fg
    rw [hgs] at hfg
    exact ⟨_, (demux_of_step hstep).2, opus_of_fg _ none _ hfg⟩
  · rw [hd] at hdone; cases hdone

theorem run_append : ∀ (a b : List Ev) (s : St) (o : σ),
    run obs s o (a ++ b) = ((run obs (run obs s o a).1 (run obs s o a).2.1 b).1, (run obs (run obs s o a).1 (run obs s o a).2.1 b).2.1,
      (run obs s o a).2.2 ++ (run obs (run obs s o a).1 (run obs s o a).2.1 b).2.2) := by
  intro a
  induction a with
  | nil => intro b s o; simp [run]
  | cons e es ih => intro b s o; simp only [List.cons_append, run, ih, List.append_assoc]

/-- after a final `FlushAudio()` (what `Dispose()` does) the cache is empty -/
theorem flush_last_cache (aac : Bool) (o : σ) (evs : List Ev) (hb : ∀ e ∈ evs, EvBounded aac e) :
    (run obs {} o (evs ++ [.flush])).1.cache = [] := by
  have hq0 : QInv aac ({} : St) := fun m hm => by simp at hm
  have hstep := run_step obs aac evs {} o sinv_init (fun _ => rfl) hq0 hb
  rw [run_append]
  simp only [run, step]
  exact (flushAudio_good obs _ _ hstep.inv).2

end

end Lal.TsAudioFinal
