import LalModel.Proof.Amf0Spec
/- Exported readers: totality, consumed length, round trip at top level (helper lemmas for Props/C18.lean). -/
namespace Lal.Amf0
open Lal

theorem Bd.mono {α} {lo lo' hi hi' : Nat} {r : GoM (α × Nat)} (h : Bd lo hi r) (h1 : lo' ≤ lo) (h2 : hi ≤ hi') :
    Bd lo' hi' r := by
  cases r with
  | error e => cases e <;> simp_all [Bd]
  | ok p => obtain ⟨v, l⟩ := p; simp only [Bd] at h ⊢; omega

theorem Bd.notPanic {α} {lo hi : Nat} {r : GoM (α × Nat)} (h : Bd lo hi r) : isPanic r = false := by
  cases r with
  | error e => cases e <;> simp_all [Bd, isPanic]
  | ok p => rfl

theorem Bd.consumed {α} {lo hi : Nat} {r : GoM (α × Nat)} (h : Bd lo hi r) {v : α} {n : Nat} (hr : r = .ok (v, n)) :
    lo ≤ n ∧ n ≤ hi := by
  subst hr; exact h

theorem readObject_bd (lim stack : Nat) (b : Bytes) (hs : lim ≤ stack + 1) : Bd 4 b.length (readObject lim stack b) := by
  unfold readObject
  rcases readObjectHdr_spec b with ⟨ho, hl⟩ | ho
  · rw [ho]
    exact (read_bd lim (fuelFor b)).2.1 stack 1 b 1 [] hl (by unfold fuelFor; omega) hs
  · rw [ho]; simp [Bd]

theorem readArray_bd (lim stack : Nat) (b : Bytes) (hs : lim ≤ stack + 1) : Bd 5 b.length (readArray lim stack b) := by
  unfold readArray
  rcases readArrayHdr_spec 0x08 b with ⟨c, ho, hl⟩ | ho
  · rw [ho]
    exact (read_bd lim (fuelFor b)).2.2.1 stack 1 b c 5 [] hl (by unfold fuelFor; omega) hs
  · rw [ho]; simp [Bd]

theorem readStrictArray_bd (lim stack : Nat) (b : Bytes) (hs : lim ≤ stack + 1) :
    Bd 5 b.length (readStrictArray lim stack b) := by
  unfold readStrictArray
  rcases readArrayHdr_spec 0x0a b with ⟨c, ho, hl⟩ | ho
  · rw [ho]
    exact (read_bd lim (fuelFor b)).2.2.2 stack 1 b c 5 [] hl (by unfold fuelFor; omega) hs
  · rw [ho]; simp [Bd]

theorem readObjectOrArray_bd (lim stack : Nat) (b : Bytes) (hs : lim ≤ stack + 1) :
    Bd 4 b.length (readObjectOrArray lim stack b) := by
  unfold readObjectOrArray
  by_cases h : b.length < 1
  · simp [h, Bd]
  · rw [if_neg h, idx?_of_lt (by omega)]
    dsimp only
    split
    · exact readObject_bd lim stack b hs
    · split
      · exact (readArray_bd lim stack b hs).mono (by omega) (Nat.le_refl _)
      · simp [Bd]

theorem bd_map {α β} {lo hi : Nat} (r : GoM (α × Nat)) (f : α → β) (h : Bd lo hi r) :
    Bd lo hi (match r with
      | .error e => .error e
      | .ok (v, l) => (.ok (f v, l) : GoM (β × Nat))) := by
  cases r with
  | error e => cases e <;> simp_all [Bd]
  | ok p => obtain ⟨v, l⟩ := p; exact h

theorem readValue_bd (lim stack : Nat) (b : Bytes) (hs : lim ≤ stack + 1) : Bd 1 b.length (readValue lim stack b) := by
  unfold readValue
  cases b with
  | nil => simp [Bd]
  | cons m t =>
    dsimp only
    split
    · have h := readNumber_bd (m :: t)
      split
      · rename_i e he; rw [he] at h; cases e <;> simp_all [Bd]
      · rename_i v l he; rw [he] at h; simp only [Bd] at h ⊢; omega
    split
    · have h := readBoolean_bd (m :: t)
      split
      · rename_i e he; rw [he] at h; cases e <;> simp_all [Bd]
      · rename_i v l he; rw [he] at h; simp only [Bd] at h ⊢; omega
    split
    · have h := readString_bd (m :: t)
      split
      · rename_i e he; rw [he] at h; cases e <;> simp_all [Bd]
      · rename_i v l he; rw [he] at h; simp only [Bd] at h ⊢; omega
    split
    · have h := readObject_bd lim stack (m :: t) hs
      split
      · rename_i e he; rw [he] at h; cases e <;> simp_all [Bd]
      · rename_i v l he; rw [he] at h; simp only [Bd] at h ⊢; omega
    split
    · rename_i h5
      simp [readNull, idx?, h5, Bd]
    split
    · simp [readUndefinedOrUnsupported, Bd]
    split
    · have h := readArray_bd lim stack (m :: t) hs
      split
      · rename_i e he; rw [he] at h; cases e <;> simp_all [Bd]
      · rename_i v l he; rw [he] at h; simp only [Bd] at h ⊢; omega
    split
    · have h := readStrictArray_bd lim stack (m :: t) hs
      split
      · rename_i e he; rw [he] at h; cases e <;> simp_all [Bd]
      · rename_i v l he; rw [he] at h; simp only [Bd] at h ⊢; omega
    · simp [Bd]

/-! ### round trip at top level -/

theorem readObject_enc (lim stack : Nat) (kvs : List (Bytes × Amf)) (rest : Bytes) (hw : wfKvs kvs = true)
    (hd : depthKvs kvs + 1 ≤ lim) (hs : depthKvs kvs ≤ stack) :
    readObject lim stack (enc (.obj kvs) ++ rest) = .ok (members kvs, (enc (.obj kvs)).length) := by
  have hc := encKvs_cost kvs
  have e : enc (.obj kvs) ++ rest = 0x03 :: (encKvs kvs ++ 0 :: 0 :: 9 :: rest) := by simp [enc]
  rw [e]
  unfold readObject
  rw [readObjectHdr_enc]
  dsimp only
  rw [(kvs_enc lim kvs hw _ stack 1 _ 1 [] rest (by simp) (by simp [fuelFor]; omega) hs (by omega)).1]
  simp [enc]; omega

theorem readArray_enc (lim stack : Nat) (kvs : List (Bytes × Amf)) (rest : Bytes) (hw : wfKvs kvs = true)
    (hn : kvs.length < 4294967296) (hd : depthKvs kvs + 1 ≤ lim) (hs : depthKvs kvs ≤ stack) :
    readArray lim stack (enc (.ecma kvs) ++ rest) = .ok (members kvs, (enc (.ecma kvs)).length) := by
  have hc := encKvs_cost kvs
  have e : enc (.ecma kvs) ++ rest = 0x08 :: (be32 kvs.length ++ (encKvs kvs ++ 0 :: 0 :: 9 :: rest)) := by simp [enc]
  rw [e]
  unfold readArray
  rw [readArrayHdr_enc _ _ _ hn]
  dsimp only
  rw [(kvs_enc lim kvs hw _ stack 1 _ 5 [] rest (by simp [be32]) (by simp [fuelFor]; omega) hs (by omega)).2]
  simp [enc]; omega

theorem readStrictArray_enc (lim stack : Nat) (vs : List Amf) (rest : Bytes) (hw : wfVs vs = true)
    (hn : vs.length < 4294967296) (hd : depthVs vs + 1 ≤ lim) (hs : depthVs vs ≤ stack) :
    readStrictArray lim stack (enc (.strict vs) ++ rest) = .ok (items vs, (enc (.strict vs)).length) := by
  have hc := encVs_cost vs
  have e : enc (.strict vs) ++ rest = 0x0a :: (be32 vs.length ++ (encVs vs ++ rest)) := by simp [enc]
  rw [e]
  unfold readStrictArray
  rw [readArrayHdr_enc _ _ _ hn]
  dsimp only
  rw [vs_enc lim vs hw _ stack 1 _ 5 [] rest (by simp [be32]) (by simp [fuelFor]; omega) hs (by omega)]
  simp [enc]; omega

theorem readValue_enc (lim stack : Nat) (v : Amf) (rest : Bytes) (hw : wf v = true)
    (hd : depth v ≤ lim) (hs : depth v ≤ stack + 1) :
    readValue lim stack (enc v ++ rest) = .ok (top v, (enc v).length) := by
  cases v with
  | num bits =>
    simp only [wf, beq_iff_eq] at hw
    simp [enc, writeNumber, readValue, readNumber_enc bits rest hw, top, erase, hw]
  | bool x =>
    have := readBoolean_enc x rest
    simp only [enc, writeBoolean, List.cons_append, List.nil_append, readValue]
    simp [this, top, erase]
  | str s =>
    simp only [wf, decide_eq_true_eq] at hw
    have hr := readString_enc s rest hw
    simp only [enc] at hr ⊢
    by_cases hs' : s.length < 65536
    · have e : writeString s ++ rest = 0x02 :: (be16 s.length ++ (s ++ rest)) := by simp [writeString, hs']
      rw [e] at hr ⊢
      simp only [readValue]
      simp [hr, top, erase]
    · have e : writeString s ++ rest = 0x0c :: (be32 s.length ++ (s ++ rest)) := by simp [writeString, hs']
      rw [e] at hr ⊢
      simp only [readValue]
      simp [hr, top, erase]
  | null => simp [enc, readValue, readNull, idx?, top]
  | undef => simp [enc, readValue, readUndefinedOrUnsupported, top]
  | obj kvs =>
    simp only [wf] at hw
    simp only [depth] at hd hs
    have hr := readObject_enc lim stack kvs rest hw hd (by omega)
    have e : enc (.obj kvs) ++ rest = 0x03 :: (encKvs kvs ++ 0 :: 0 :: 9 :: rest) := by simp [enc]
    rw [e] at hr ⊢
    simp only [readValue]
    simp [hr, top, erase]
  | ecma kvs =>
    simp only [wf, Bool.and_eq_true, decide_eq_true_eq] at hw
    simp only [depth] at hd hs
    have hr := readArray_enc lim stack kvs rest hw.2 hw.1 hd (by omega)
    have e : enc (.ecma kvs) ++ rest = 0x08 :: (be32 kvs.length ++ (encKvs kvs ++ 0 :: 0 :: 9 :: rest)) := by simp [enc]
    rw [e] at hr ⊢
    simp only [readValue]
    simp [hr, top, erase]
  | strict vs =>
    simp only [wf, Bool.and_eq_true, decide_eq_true_eq] at hw
    simp only [depth] at hd hs
    have hr := readStrictArray_enc lim stack vs rest hw.2 hw.1 hd (by omega)
    have e : enc (.strict vs) ++ rest = 0x0a :: (be32 vs.length ++ (encVs vs ++ rest)) := by simp [enc]
    rw [e] at hr ⊢
    simp only [readValue]
    simp [hr, top, erase]

end Lal.Amf0
