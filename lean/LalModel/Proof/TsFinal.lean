import LalModel.Proof.TsContent
/-
  Assembly: from the remuxer's run on the messages of a well-formed publish to what the conforming demultiplexer
  recovers from the packets the observer received.
-/
namespace Lal.TsFinal
open Lal Lal.Nalu Lal.TsRmx Lal.Publish Lal.TsVideo Lal.TsScenario Lal.TsContent Lal.TsStream

def two33 : Nat := 8589934592

/-- recovered access units against published ones: flag, units up to the normalisation, and the 33-bit times the
    remuxer stamps (`rebase`: minus the first forwarded access unit's time — unless the time lies below it) plus
    lal's constant delay -/
def AuRel (c : VCodec) : Option Nat → List Demux.VideoAu → List Au → Prop
  | _, [], [] => True
  | b, g :: gs, a :: as =>
    g.rai = a.key ∧ normTs c g.nals = normTs c a.nals
    ∧ g.dts = ((rebase b (a.ts * 90)).2 + Ts.delay) % two33
    ∧ g.pts = ((rebase b (a.ts * 90)).2 + 90 * a.cts + Ts.delay) % two33
    ∧ AuRel c (some (rebase b (a.ts * 90)).1) gs as
  | _, _, _ => False

theorem videoAus_of_match (c : VCodec) : ∀ (fs : List Ts.Frame) (b : Option Nat) (pub : List Au), Match c b fs pub →
    ∃ aus, Demux.videoAus (fs.map unitOf) = some aus ∧ AuRel c b aus pub := by
  intro fs
  induction fs with
  | nil =>
    intro b pub h
    cases pub with
    | nil => exact ⟨[], rfl, trivial⟩
    | cons a as => exact absurd h (by simp [Match])
  | cons f fs ih =>
    intro b pub h
    cases pub with
    | nil => exact absurd h (by simp [Match])
    | cons a as =>
      obtain ⟨hk, hd, hp, ⟨units, hread, hnorm⟩, hrest⟩ := h
      obtain ⟨aus, haus, hrel⟩ := ih _ _ hrest
      refine ⟨{ dts := (f.dts + Ts.delay) % two33, pts := (f.pts + Ts.delay) % two33, rai := f.key, nals := units } :: aus, ?_, ?_⟩
      · simp only [List.map_cons, Demux.videoAus, Demux.videoAu, unitOf, hread, haus, two33]
      · refine ⟨hk, hnorm, by simp only [hd], by simp only [hp, hd], hrel⟩

def audioKindOK (aac : Bool) : Elem → Prop
  | .aacConfig .. => aac = true
  | .aacFrame .. => aac = true
  | .opus .. => aac = false
  | _ => True

instance (aac : Bool) (e : Elem) : Decidable (audioKindOK aac e) := by
  cases e <;> unfold audioKindOK <;> infer_instance

/-- a publish whose audio is of one kind: AAC, or Opus -/
def AudioUniform (aac : Bool) (elems : List Elem) : Prop := ∀ e ∈ elems, audioKindOK aac e

instance (aac : Bool) (elems : List Elem) : Decidable (AudioUniform aac elems) := by unfold AudioUniform; infer_instance

theorem bounded_render (c : VCodec) (aac : Bool) (e : Elem) (hwf : ElemWF c e)
    (hu : audioKindOK aac e) :
    Bounded aac (render c e) := by
  intro ht
  cases e with
  | avcConfig _ _ _ _ => simp [render] at ht
  | hevcConfig _ _ _ _ => simp [render] at ht
  | video _ _ _ _ => simp [render] at ht
  | aacConfig o s ch =>
    have h1 : audioCodecId (render c (.aacConfig o s ch)).payload = Gen.rtmpSoundFormatAac := by
      simp [render, audioCodecId, pb_cons_zero]; decide
    refine ⟨fun _ => ⟨hu, by simp [render]⟩, fun h2 => ?_⟩
    rw [h1] at h2; exact absurd h2 (by decide)
  | aacFrame ts f =>
    have h1 : audioCodecId (render c (.aacFrame ts f)).payload = Gen.rtmpSoundFormatAac := by
      simp [render, audioCodecId, pb_cons_zero]; decide
    obtain ⟨_, hl, _⟩ := hwf
    refine ⟨fun _ => ⟨hu, by simp [render]; omega⟩, fun h2 => ?_⟩
    rw [h1] at h2; exact absurd h2 (by decide)
  | opus ts p =>
    have h1 : audioCodecId (render c (.opus ts p)).payload = Gen.rtmpSoundFormatOpus := by
      simp [render, audioCodecId, pb_cons_zero]; decide
    obtain ⟨_, hl, _⟩ := hwf
    refine ⟨fun h2 => ?_, fun _ => ⟨hu, by simp [render, Gen.maxAudioCacheSize]; omega⟩⟩
    rw [h1] at h2; exact absurd h2 (by decide)

theorem evs_bounded (c : VCodec) (aac : Bool) (elems : List Elem) (hwf : ∀ e ∈ elems, ElemWF c e) (hu : AudioUniform aac elems) :
    ∀ (evs : List Ev), msgsOf evs = elems.map (render c) → ∀ e ∈ evs, EvBounded aac e := by
  intro evs
  induction evs generalizing elems with
  | nil => intro _ e he; simp at he
  | cons ev evs ih =>
    intro hm e he
    cases ev with
    | flush =>
      simp only [List.mem_cons] at he
      rcases he with rfl | he
      · trivial
      · exact ih elems hwf hu (by simpa [msgsOf] using hm) e he
    | msg m =>
      cases elems with
      | nil => simp [msgsOf] at hm
      | cons el els =>
        simp only [msgsOf, List.map_cons, List.cons.injEq] at hm
        simp only [List.mem_cons] at he
        rcases he with rfl | he
        · show Bounded aac m
          rw [hm.1]
          exact bounded_render c aac el (hwf el (by simp)) (hu el (by simp))
        · exact ih els (fun e' he' => hwf e' (by simp [he'])) (fun e' he' => hu e' (by simp [he'])) hm.2 e he

section
variable {σ : Type} (obs : Observer σ)

theorem runInv_init : RunInv ({} : St) [] [] := Or.inr ⟨rfl, rfl, rfl, rfl, rfl⟩

/-- VIDEO, end to end. -/
theorem video_end_to_end (o : σ) (c : VCodec) (aac : Bool) (elems : List Elem) (evs : List Ev)
    (hm : msgsOf evs = elems.map (render c)) (hwf : ∀ e ∈ elems, ElemWF c e) (hcf : ConfigFirst elems = true)
    (hu : AudioUniform aac elems) (hdone : (run obs {} o evs).1.done = true) :
    ∃ aus, (Demux.pidUnits vpid (tsOf (run obs {} o evs).2.2)).bind Demux.videoAus = some aus
      ∧ AuRel c none aus ((Publish.videoAus elems).filter (fwd c)) := by
  have hb := evs_bounded c aac elems hwf hu evs hm
  have hq0 : QInv aac ({} : St) := fun m hm => by simp at hm
  have hstep := run_step obs aac evs {} o sinv_init (fun _ => rfl) hq0 hb
  have hproj := run_proj obs aac evs {} o [] [] sinv_init (fun _ => rfl) hq0 hb runInv_init
  simp only [List.nil_append] at hproj
  rcases hproj with ⟨_, hv, _⟩ | ⟨hd, _⟩
  · have hmatch := vrun_match0 c elems hcf hwf
    rw [← hm, ← hv] at hmatch
    obtain ⟨aus, haus, hrel⟩ := videoAus_of_match c _ _ _ hmatch
    refine ⟨aus, ?_, hrel⟩
    rw [(demux_of_step hstep).1]
    exact haus
  · rw [hd] at hdone; cases hdone

end

end Lal.TsFinal
