import LalModel.Model.Group
/- Bookkeeping lemmas about the write log of the group model. -/
set_option linter.unusedSimpArgs false
set_option linter.unusedVariables false
namespace Lal.Group

/-- bytes consumer (k, id) has been written so far -/
def St.bytes (s : St) (k : Kind) (id : Nat) : Bytes := (s.log k id).flatten

theorem log_append (s : St) (ws : List (Kind × Nat × Bytes)) (k : Kind) (id : Nat) :
    ({ s with out := s.out ++ ws } : St).log k id
      = s.log k id ++ ((ws.filter fun w => w.1 == k && w.2.1 == id).map (·.2.2)) := by
  simp [St.log, List.filter_append]

theorem bytes_writeAll (s : St) (k k' : Kind) (id id' : Nat) (bs : List Bytes) :
    (s.writeAll k id bs).bytes k' id' = s.bytes k' id' ++ (if k' = k ∧ id' = id then bs.flatten else []) := by
  unfold St.bytes St.writeAll
  rw [log_append]
  by_cases h : k' = k ∧ id' = id
  · obtain ⟨rfl, rfl⟩ := h
    have hft : ∀ (l : List Bytes), l.filter (fun _ => true) = l := fun l => List.filter_eq_self.mpr (by simp)
    simp [List.filter_map, Function.comp_def, List.map_map, hft]
  · simp only [h, if_false, List.append_nil, List.flatten_append]
    have : (List.filter (fun w => w.1 == k' && w.2.1 == id') (bs.map fun b => (k, id, b))) = [] := by
      simp only [List.filter_eq_nil_iff, List.mem_map, forall_exists_index, and_imp]
      intro w b _ hw; subst hw
      simp only [Bool.and_eq_true, beq_iff_eq, not_and]
      intro hk hid; exact h ⟨hk.symm, hid.symm⟩
    simp [this]

theorem bytes_write (s : St) (k k' : Kind) (id id' : Nat) (b : Bytes) :
    (s.write k id b).bytes k' id' = s.bytes k' id' ++ (if k' = k ∧ id' = id then b else []) := by
  have := bytes_writeAll s k k' id id' [b]
  simpa [St.writeAll, St.write] using this

@[simp] theorem writeAll_rtmpSubs (s : St) k id bs : (s.writeAll k id bs).rtmpSubs = s.rtmpSubs := rfl
@[simp] theorem writeAll_flvSubs (s : St) k id bs : (s.writeAll k id bs).flvSubs = s.flvSubs := rfl
@[simp] theorem writeAll_pubLog (s : St) k id bs : (s.writeAll k id bs).pubLog = s.pubLog := rfl
@[simp] theorem writeAll_merge (s : St) k id bs : (s.writeAll k id bs).merge = s.merge := rfl
@[simp] theorem writeAll_mergeFrom (s : St) k id bs : (s.writeAll k id bs).mergeFrom = s.mergeFrom := rfl
@[simp] theorem writeAll_cfg (s : St) k id bs : (s.writeAll k id bs).cfg = s.cfg := rfl
@[simp] theorem writeAll_usedIds (s : St) k id bs : (s.writeAll k id bs).usedIds = s.usedIds := rfl
@[simp] theorem writeAll_rtmpGop (s : St) k id bs : (s.writeAll k id bs).rtmpGop = s.rtmpGop := rfl
@[simp] theorem writeAll_flvGop (s : St) k id bs : (s.writeAll k id bs).flvGop = s.flvGop := rfl

/-- the fold inside `toRtmpSubs` over any list of subscribers -/
def toSubs (bs : List Bytes) (subs : List Sub) (s : St) : St :=
  subs.foldl (fun s sub => if sub.fresh || sub.waitKey then s else s.writeAll .rtmp sub.id bs) s

theorem toSubs_fields (bs : List Bytes) : ∀ (subs : List Sub) (s : St),
    (toSubs bs subs s).rtmpSubs = s.rtmpSubs ∧ (toSubs bs subs s).flvSubs = s.flvSubs ∧
    (toSubs bs subs s).pubLog = s.pubLog ∧ (toSubs bs subs s).merge = s.merge ∧
    (toSubs bs subs s).mergeFrom = s.mergeFrom ∧ (toSubs bs subs s).cfg = s.cfg ∧
    (toSubs bs subs s).usedIds = s.usedIds ∧ (toSubs bs subs s).rtmpGop = s.rtmpGop ∧
    (toSubs bs subs s).flvGop = s.flvGop ∧ (toSubs bs subs s).hasIn = s.hasIn ∧
    (toSubs bs subs s).videoCodecSet = s.videoCodecSet ∧ (toSubs bs subs s).recording = s.recording ∧
    (toSubs bs subs s).nextRecord = s.nextRecord := by
  intro subs
  induction subs with
  | nil => intro s; simp [toSubs]
  | cons x xs ih =>
    intro s
    simp only [toSubs, List.foldl_cons]
    split
    · exact ih s
    · have := ih (s.writeAll .rtmp x.id bs)
      simpa [toSubs, St.writeAll] using this

/-- effect of the fan-out on one consumer's bytes: appended once iff it is a live subscriber -/
theorem toSubs_bytes (bs : List Bytes) : ∀ (subs : List Sub) (s : St) (k : Kind) (id : Nat),
    (subs.map (·.id)).Nodup →
    (toSubs bs subs s).bytes k id = s.bytes k id ++
      (if k = .rtmp ∧ ∃ x ∈ subs, x.id = id ∧ x.fresh = false ∧ x.waitKey = false then bs.flatten else []) := by
  intro subs
  induction subs with
  | nil => intro s k id _; simp [toSubs]
  | cons x xs ih =>
    intro s k id hnd
    simp only [List.map_cons, List.nodup_cons] at hnd
    obtain ⟨hx, hxs⟩ := hnd
    simp only [toSubs, List.foldl_cons]
    by_cases hlive : x.fresh || x.waitKey
    · simp only [hlive, if_true]
      have := ih s k id hxs
      simp only [toSubs] at this
      rw [this]
      congr 1
      have hx' : ¬ (x.fresh = false ∧ x.waitKey = false) := by
        intro ⟨a, b⟩; simp [a, b] at hlive
      by_cases hk : k = .rtmp
      · simp only [hk, true_and, List.mem_cons, exists_eq_or_imp]
        have : ¬ (x.id = id ∧ x.fresh = false ∧ x.waitKey = false) := fun h => hx' h.2
        simp [this]
      · simp [hk]
    · have hf : x.fresh = false ∧ x.waitKey = false := by
        cases h1 : x.fresh <;> cases h2 : x.waitKey <;> simp_all
      simp only [hlive, if_false, Bool.false_eq_true]
      have := ih (s.writeAll .rtmp x.id bs) k id hxs
      simp only [toSubs] at this
      rw [this, bytes_writeAll]
      by_cases hk : k = .rtmp
      · subst hk
        by_cases hid : id = x.id
        · subst hid
          have hnot : ¬ ∃ y ∈ xs, y.id = x.id ∧ y.fresh = false ∧ y.waitKey = false := by
            intro ⟨y, hy, hyid, _⟩
            exact hx (List.mem_map.mpr ⟨y, hy, hyid⟩)
          simp [hnot, hf]
        · have : ¬ (x.id = id) := fun h => hid h.symm
          simp [hid, this]
      · simp [hk]

theorem toRtmpSubs_eq (s : St) (bs : List Bytes) : s.toRtmpSubs bs = toSubs bs s.rtmpSubs s := rfl

end Lal.Group
