import LalModel.Proof.Ts
import LalModel.Spec.Demux
/-
  A transport stream made of the packets of several frames (two PIDs interleaved), read by the
  per-PID demultiplexer of Spec/Demux.lean: it returns, for each PID, exactly the PES packets of the frames of
  that PID, in order — provided the continuity counters of consecutive frames of the PID chain.
  Built on `Ts.pack_packets` / `Ts.demux_pack` (C09).
-/
namespace Lal.TsStream
open Lal TsSpec Demux

/-! ### packets paired with their parse -/

abbrev PP := Bytes × Packet

/-- every pair is a packet with its parse -/
def Parsed (g : List PP) : Prop := ∀ x ∈ g, parsePacket x.1 = some x.2

theorem parseAll_parsed (g : List PP) (h : Parsed g) : parseAll (g.map (·.1)) = some g := by
  induction g with
  | nil => rfl
  | cons x xs ih =>
    have hx := h x (by simp)
    have := ih (fun y hy => h y (by simp [hy]))
    simp only [List.map_cons, parseAll, hx, this]

theorem parsePackets_zip : ∀ (l : List Bytes) (qs : List Packet), parsePackets l = some qs →
    l.length = qs.length ∧ Parsed (l.zip qs) := by
  intro l
  induction l with
  | nil =>
    intro qs h
    simp only [parsePackets, Option.some.injEq] at h
    subst h
    exact ⟨rfl, fun x hx => by simp at hx⟩
  | cons p ps ih =>
    intro qs h
    unfold parsePackets at h
    cases hp : parsePacket p with
    | none => rw [hp] at h; cases h
    | some q =>
      rw [hp] at h
      cases hps : parsePackets ps with
      | none => rw [hps] at h; cases h
      | some qs' =>
        rw [hps] at h
        simp only [Option.some.injEq] at h
        subst h
        obtain ⟨hl, hpar⟩ := ih qs' hps
        refine ⟨by simp [hl], ?_⟩
        intro x hx
        simp only [List.zip_cons_cons, List.mem_cons] at hx
        rcases hx with rfl | hx
        · exact hp
        · exact hpar x hx

theorem map_fst_zip {α β} : ∀ (a : List α) (b : List β), a.length = b.length → (a.zip b).map (·.1) = a := by
  intro a
  induction a with
  | nil => intro b _; rfl
  | cons x xs ih =>
    intro b h
    cases b with
    | nil => simp at h
    | cons y ys => simp only [List.zip_cons_cons, List.map_cons, ih ys (by simpa using h)]

/-! ### the run of packets one frame contributes -/

/-- what a demultiplexer sees of the packets of one frame packed with counter `c` on PID `pid` -/
structure IsRun (pid c : Nat) (g : List PP) : Prop where
  parsed : Parsed g
  ne : g ≠ []
  idx : ∀ i (h : i < g.length), g[i].2.cc = (c + 1 + i) % 16 ∧ g[i].2.pusi = (i == 0) ∧ g[i].2.pid = pid ∧ g[i].2.payload ≠ []

/-- the run of a frame -/
theorem frame_run (f : Ts.Frame) (hcc : f.cc < 256) (hpid : f.pid < 8192) (hraw : f.raw ≠ []) :
    ∃ g : List PP, g.map (·.1) = (Ts.pack f).1 ∧ IsRun f.pid f.cc g ∧ (Ts.pack f).2 = (f.cc + g.length) % 256 := by
  obtain ⟨qs, hp, hl, hc, hidx⟩ := Ts.pack_packets f hcc
  obtain ⟨hlen, hpar⟩ := parsePackets_zip _ _ hp
  have hzl : ((Ts.pack f).1.zip qs).length = qs.length := by simp [List.length_zip, hlen]
  refine ⟨(Ts.pack f).1.zip qs, map_fst_zip _ _ hlen, ⟨hpar, ?_, ?_⟩, by rw [hzl]; exact hc⟩
  · intro e
    have h0 : ((Ts.pack f).1.zip qs).length = 0 := by rw [e]; rfl
    have hne := Ts.pack_nonempty f hraw
    have : (Ts.pack f).1.length = 0 := by rw [hzl] at h0; omega
    exact hne (List.length_eq_zero_iff.mp this)
  · intro i h
    have hi : i < qs.length := by rw [hzl] at h; exact h
    have := hidx i hi
    have e : ((Ts.pack f).1.zip qs)[i].2 = qs[i] := by simp [List.getElem_zip]
    rw [e, Nat.mod_eq_of_lt hpid] at *
    exact ⟨this.1, this.2.1, by rw [this.2.2.1], this.2.2.2⟩

/-! ### grouping at payload_unit_start -/

theorem takeUnit_nopusi (r : List PP) (hr : ∀ x ∈ r, x.2.pusi = false) (t : List (Bytes × Bool)) :
    takeUnit (r.map (fun x => (x.1, x.2.pusi)) ++ t) = (r.map (·.1) ++ (takeUnit t).1, (takeUnit t).2) := by
  induction r with
  | nil => simp
  | cons x xs ih =>
    have hx := hr x (by simp)
    have := ih (fun y hy => hr y (by simp [hy]))
    simp only [List.map_cons, List.cons_append, takeUnit, hx, Bool.false_eq_true, if_false, this]

theorem takeUnit_pusi (p : Bytes) (t : List (Bytes × Bool)) : takeUnit ((p, true) :: t) = ([], (p, true) :: t) := by
  simp [takeUnit]

/-- the tail of a run: no packet has the start indicator -/
theorem run_tail_nopusi {pid c : Nat} {x : PP} {xs : List PP} (h : IsRun pid c (x :: xs)) : ∀ y ∈ xs, y.2.pusi = false := by
  intro y hy
  obtain ⟨i, hi, rfl⟩ := List.mem_iff_getElem.mp hy
  have := (h.idx (i + 1) (by simp; omega)).2.1
  simpa using this

theorem run_head_pusi {pid c : Nat} {x : PP} {xs : List PP} (h : IsRun pid c (x :: xs)) : x.2.pusi = true := by
  have := (h.idx 0 (by simp)).2.1
  simpa using this

def flag (x : PP) : Bytes × Bool := (x.1, x.2.pusi)

/-- the pieces of a concatenation of runs are the runs -/
theorem unitsF_runs : ∀ (gs : List (List PP)), (∀ g ∈ gs, ∃ pid c, IsRun pid c g) →
    ∀ fuel, fuel ≥ (gs.flatten).length → unitsF fuel (gs.flatten.map flag) = gs.map (fun g => g.map (·.1)) := by
  intro gs
  induction gs with
  | nil => intro _ fuel _; cases fuel <;> rfl
  | cons g gs ih =>
    intro hall fuel hf
    obtain ⟨pid, c, hr⟩ := hall g (by simp)
    cases g with
    | nil => exact absurd rfl hr.ne
    | cons x xs =>
      have hrest := ih (fun g' hg' => hall g' (by simp [hg']))
      have hx := run_head_pusi hr
      have hxs := run_tail_nopusi hr
      cases fuel with
      | zero => simp at hf
      | succ fuel =>
        have e : ((x :: xs) :: gs).flatten.map flag = (x.1, true) :: (xs.map flag ++ gs.flatten.map flag) := by
          simp [flag, hx]
        rw [e]
        -- what follows the run is empty or starts with a start indicator
        have hstop : takeUnit (gs.flatten.map flag) = ([], gs.flatten.map flag) := by
          cases gs with
          | nil => rfl
          | cons g2 gs2 =>
            obtain ⟨pid2, c2, hr2⟩ := hall g2 (by simp)
            cases g2 with
            | nil => exact absurd rfl hr2.ne
            | cons y ys =>
              have hy := run_head_pusi hr2
              have : ((y :: ys) :: gs2).flatten.map flag = (y.1, true) :: ((ys ++ gs2.flatten).map flag) := by
                simp [flag, hy]
              rw [this, takeUnit_pusi]
        have ht := takeUnit_nopusi xs hxs (gs.flatten.map flag)
        rw [hstop] at ht
        simp only [List.append_nil] at ht
        have ht' : takeUnit (xs.map flag ++ gs.flatten.map flag) = (xs.map (·.1), gs.flatten.map flag) := ht
        simp only [unitsF, ht', if_true, List.map_cons]
        rw [hrest fuel (by simp only [List.flatten_cons, List.length_append, List.length_cons] at hf; omega)]

/-! ### continuity across runs -/

theorem getLastD_cons {α β} (f : α → β) (p : α) (ps : List α) (d : β) :
    ((p :: ps).getLast?.map f).getD d = (ps.getLast?.map f).getD (f p) := by
  cases ps with
  | nil => simp
  | cons q qs =>
    rw [List.getLast?_cons_cons]
    have hz : (q :: qs).getLast? = some ((q :: qs).getLast (by simp)) := List.getLast?_eq_some_getLast (by simp)
    simp [hz]

theorem ccChain_append (prev : Nat) (a b : List Packet) :
    ccChain prev (a ++ b) = (ccChain prev a && ccChain ((a.getLast?.map (·.cc)).getD prev) b) := by
  induction a generalizing prev with
  | nil => simp [ccChain]
  | cons p ps ih =>
    rw [getLastD_cons]
    simp only [List.cons_append, ccChain, ih, Bool.and_assoc]

/-- the packets of a run chain from the counter the frame was packed with -/
theorem run_chain {pid c : Nat} {g : List PP} (h : IsRun pid c g) : ccChain (c % 16) (g.map (·.2)) = true := by
  apply Ts.ccChain_of_idx
  intro i hi
  have hi' : i < g.length := by simpa using hi
  have := h.idx i hi'
  simp only [List.getElem_map]
  exact ⟨this.1, this.2.2.2⟩

theorem run_last_cc {pid c : Nat} {g : List PP} (h : IsRun pid c g) :
    ((g.map (·.2)).getLast?.map (·.cc)).getD (c % 16) = (c + g.length) % 16 := by
  have hne := h.ne
  have hl : 0 < g.length := List.length_pos_iff.mpr hne
  have hlast : (g.map (·.2)).getLast? = some (g[g.length - 1]'(by omega)).2 := by
    rw [List.getLast?_eq_getElem?]
    simp only [List.length_map]
    rw [List.getElem?_eq_getElem (by simp; omega)]
    simp
  rw [hlast]
  have := (h.idx (g.length - 1) (by omega)).1
  simp only [Option.map_some, Option.getD_some, this]
  omega

/-- Runs of one PID whose counters chain: the counter each frame is packed with is the one the previous frame left
    behind (modulo 16 is all the packets show). -/
def Chained : Nat → List (Nat × List PP) → Prop
  | _, [] => True
  | c, (c', g) :: rest => c' % 16 = c % 16 ∧ Chained (c' + g.length) rest

theorem ccChain_runs (pid : Nat) : ∀ (rs : List (Nat × List PP)) (c : Nat), (∀ r ∈ rs, IsRun pid r.1 r.2) → Chained c rs →
    ccChain (c % 16) ((rs.map (·.2)).flatten.map (·.2)) = true := by
  intro rs
  induction rs with
  | nil => intro c _ _; rfl
  | cons r rs ih =>
    intro c hall hch
    obtain ⟨c', g⟩ := r
    have hr : IsRun pid c' g := hall (c', g) (by simp)
    obtain ⟨hc, hrest⟩ := hch
    simp only [List.map_cons, List.flatten_cons, List.map_append]
    rw [ccChain_append, ← hc, run_chain hr, run_last_cc hr, Bool.true_and]
    exact ih (c' + g.length) (fun r' hr' => hall r' (by simp [hr'])) hrest

/-! ### the stream of a list of frames -/

/-- what `Frame.Pack` needs of a frame for the demultiplexer to give it back (C09 `FrameWF`) -/
structure FrameOK (f : Ts.Frame) : Prop where
  raw : f.raw ≠ []
  cc : f.cc < 256
  pid : f.pid < 8192
  sid : 0xC0 ≤ f.sid ∧ f.sid ≤ 0xEF
  len : videoStreamId f.sid = true ∨ f.raw.length + Ts.pesHeaderSize f + 3 ≤ 65535

/-- the PES packet (and packet-level marks) the demultiplexer must return for a frame -/
def unitOf (f : Ts.Frame) : TsSpec.Unit :=
  { pid := f.pid, cc0 := (f.cc + 1) % 16, packets := (Ts.pack f).1.length, rai := f.key,
    pcr := if f.key then some (Ts.pcrVal f % 8589934592, 0) else none,
    laterMarks := false,
    pes := { sid := f.sid,
             declLen := if f.raw.length + Ts.pesHeaderSize f + 3 > 65535 then 0 else f.raw.length + Ts.pesHeaderSize f + 3,
             pts := some ((f.pts + Ts.delay) % 8589934592), dts := some ((f.dts + Ts.delay) % 8589934592),
             data := f.raw } }

theorem demuxUnit_frame (f : Ts.Frame) (h : FrameOK f) : demuxUnit (Ts.pack f).1 = some (unitOf f) :=
  Ts.demux_pack f h.raw h.cc h.pid h.sid h.len

/-- consecutive frames (of one PID): each is packed with the counter its predecessor left behind -/
def CcChain : List Ts.Frame → Prop
  | [] => True
  | [_] => True
  | f :: g :: rest => g.cc = (Ts.pack f).2 ∧ CcChain (g :: rest)

/-- the transport stream of a list of frames -/
def stream (fs : List Ts.Frame) : List Bytes := fs.flatMap fun f => (Ts.pack f).1

/-- frame and run belong together -/
def RunOf (f : Ts.Frame) (g : List PP) : Prop :=
  g.map (·.1) = (Ts.pack f).1 ∧ IsRun f.pid f.cc g ∧ (Ts.pack f).2 = (f.cc + g.length) % 256

abbrev FG := Ts.Frame × List PP

/-- frames paired with their runs -/
def Runs (fgs : List FG) : Prop := ∀ p ∈ fgs, RunOf p.1 p.2

theorem runs_exist : ∀ (fs : List Ts.Frame), (∀ f ∈ fs, FrameOK f) → ∃ fgs : List FG, fgs.map (·.1) = fs ∧ Runs fgs := by
  intro fs
  induction fs with
  | nil => intro _; exact ⟨[], rfl, fun p hp => by simp at hp⟩
  | cons f fs ih =>
    intro h
    obtain ⟨fgs, hfs, hgs⟩ := ih (fun f' hf' => h f' (by simp [hf']))
    have hf := h f (by simp)
    obtain ⟨g, hg⟩ := frame_run f hf.cc hf.pid hf.raw
    refine ⟨(f, g) :: fgs, by simp [hfs], ?_⟩
    intro p hp
    simp only [List.mem_cons] at hp
    rcases hp with rfl | hp
    · exact hg
    · exact hgs p hp

theorem runs_stream : ∀ (fgs : List FG), Runs fgs →
    (fgs.map (·.2)).flatten.map (·.1) = stream (fgs.map (·.1)) ∧ Parsed (fgs.map (·.2)).flatten := by
  intro fgs
  induction fgs with
  | nil => intro _; exact ⟨rfl, fun x hx => by simp at hx⟩
  | cons p ps ih =>
    intro h
    obtain ⟨e, hp⟩ := ih (fun q hq => h q (by simp [hq]))
    have hfg := h p (by simp)
    refine ⟨?_, ?_⟩
    · simp only [List.map_cons, List.flatten_cons, List.map_append, stream, List.flatMap_cons, hfg.1]
      rw [e]; rfl
    · intro x hx
      simp only [List.map_cons, List.flatten_cons, List.mem_append] at hx
      rcases hx with hx | hx
      · exact hfg.2.1.parsed x hx
      · exact hp x hx

/-- keeping the packets of one PID keeps the runs of the frames of that PID -/
theorem runs_filter (pid : Nat) : ∀ (fgs : List FG), Runs fgs →
    (fgs.map (·.2)).flatten.filter (·.2.pid == pid) = ((fgs.filter (·.1.pid = pid)).map (·.2)).flatten := by
  intro fgs
  induction fgs with
  | nil => intro _; rfl
  | cons p ps ih =>
    intro h
    have h2 := ih (fun q hq => h q (by simp [hq]))
    have hfg := h p (by simp)
    have hall : ∀ x ∈ p.2, x.2.pid = p.1.pid := by
      intro x hx
      obtain ⟨i, hi, rfl⟩ := List.mem_iff_getElem.mp hx
      exact (hfg.2.1.idx i hi).2.2.1
    by_cases hp : p.1.pid = pid
    · simp only [List.map_cons, List.flatten_cons, List.filter_append, h2, List.filter_cons, hp, decide_true, if_true]
      congr 1
      apply List.filter_eq_self.mpr
      intro x hx
      simp [hall x hx, hp]
    · simp only [List.map_cons, List.flatten_cons, List.filter_append, h2, List.filter_cons, hp, decide_false,
        Bool.false_eq_true, if_false]
      have : p.2.filter (·.2.pid == pid) = [] := by
        apply List.filter_eq_nil_iff.mpr
        intro x hx
        simp [hall x hx, hp]
      rw [this, List.nil_append]

theorem filter_map_fst (pid : Nat) (fgs : List FG) :
    (fgs.filter (·.1.pid = pid)).map (·.1) = (fgs.map (·.1)).filter (·.pid = pid) := by
  induction fgs with
  | nil => rfl
  | cons p ps ih =>
    by_cases hp : p.1.pid = pid <;> simp [hp, ih]

theorem chained_of_ccChain : ∀ (fgs : List FG), Runs fgs → CcChain (fgs.map (·.1)) →
    ∀ c, (match fgs with | [] => True | p :: _ => p.1.cc % 16 = c % 16) →
    Chained c (fgs.map fun p => (p.1.cc, p.2)) := by
  intro fgs
  induction fgs with
  | nil => intro _ _ c _; trivial
  | cons p ps ih =>
    intro h hch c hc
    simp only [List.map_cons, Chained]
    refine ⟨hc, ?_⟩
    have hfg := h p (by simp)
    cases ps with
    | nil => trivial
    | cons q qs =>
      simp only [List.map_cons, CcChain] at hch
      obtain ⟨h1, h2⟩ := hch
      apply ih (fun r hr => h r (by simp [hr])) (by simpa using h2)
      show q.1.cc % 16 = (p.1.cc + p.2.length) % 16
      rw [h1, hfg.2.2]
      omega

theorem mapUnits_runs : ∀ (fgs : List FG), Runs fgs → (∀ p ∈ fgs, FrameOK p.1) →
    mapUnits ((fgs.map (·.2)).map fun g => g.map (·.1)) = some ((fgs.map (·.1)).map unitOf) := by
  intro fgs
  induction fgs with
  | nil => intro _ _; rfl
  | cons p ps ih =>
    intro h hok
    have hfg := h p (by simp)
    simp only [List.map_cons, mapUnits, hfg.1, demuxUnit_frame p.1 (hok p (by simp)),
      ih (fun q hq => h q (by simp [hq])) (fun q hq => hok q (by simp [hq]))]

/-- THE STREAM THEOREM. The packets of any list of frames (PIDs interleaved in any way), read by the per-PID
    demultiplexer: for each PID exactly the PES packets of the frames of that PID, in order, provided the counters
    of that PID's frames chain. -/
theorem pidUnits_stream (pid : Nat) (fs : List Ts.Frame) (hok : ∀ f ∈ fs, FrameOK f)
    (hch : CcChain (fs.filter (·.pid = pid))) :
    pidUnits pid (stream fs) = some ((fs.filter (·.pid = pid)).map unitOf) := by
  obtain ⟨fgs, hfs, hruns⟩ := runs_exist fs hok
  subst hfs
  obtain ⟨hs, hpar⟩ := runs_stream fgs hruns
  have hfil := runs_filter pid fgs hruns
  obtain ⟨fgs', hdef⟩ : ∃ x, x = fgs.filter (·.1.pid = pid) := ⟨_, rfl⟩
  rw [← hdef] at hfil
  have hruns' : Runs fgs' := fun p hp => hruns p (List.mem_filter.mp (hdef ▸ hp)).1
  have hfs' : fgs'.map (·.1) = (fgs.map (·.1)).filter (·.pid = pid) := by rw [hdef]; exact filter_map_fst pid fgs
  have hok' : ∀ p ∈ fgs', FrameOK p.1 := fun p hp => hok p.1 (List.mem_map.mpr ⟨p, (List.mem_filter.mp (hdef ▸ hp)).1, rfl⟩)
  have hisrun : ∀ g ∈ fgs'.map (·.2), ∃ p c, IsRun p c g := by
    intro g hg
    obtain ⟨p, hp, rfl⟩ := List.mem_map.mp hg
    exact ⟨_, _, (hruns' p hp).2.1⟩
  unfold pidUnits
  rw [← hs, parseAll_parsed _ hpar]
  simp only [hfil]
  rw [← hfs'] at hch ⊢
  -- continuity over the whole PID
  have hcont : ∀ x rest, (fgs'.map (·.2)).flatten = x :: rest → ccChain x.2.cc (rest.map (·.2)) = true := by
    intro x rest hfl
    cases hfg : fgs' with
    | nil => rw [hfg] at hfl; cases hfl
    | cons p0 prest =>
      have hch' := chained_of_ccChain fgs' hruns' hch p0.1.cc (by rw [hfg])
      have hall : ∀ r ∈ fgs'.map (fun p => (p.1.cc, p.2)), IsRun pid r.1 r.2 := by
        intro r hr
        obtain ⟨p, hp, rfl⟩ := List.mem_map.mp hr
        have hmem : p ∈ fgs.filter (·.1.pid = pid) := hdef ▸ hp
        have hpid : p.1.pid = pid := by simpa using (List.mem_filter.mp hmem).2
        have := (hruns' p hp).2.1
        rw [hpid] at this
        exact this
      have hcc := ccChain_runs pid _ p0.1.cc hall hch'
      have hz : (fgs'.map (fun p => (p.1.cc, p.2))).map (·.2) = fgs'.map (·.2) := by
        simp [List.map_map, Function.comp]
      rw [hz, hfl] at hcc
      simp only [List.map_cons, ccChain, Bool.and_eq_true] at hcc
      exact hcc.2
  have hu : units ((fgs'.map (·.2)).flatten.map fun x => (x.1, x.2.pusi)) = (fgs'.map (·.2)).map (fun g => g.map (·.1)) := by
    unfold units
    have := unitsF_runs (fgs'.map (·.2)) hisrun ((fgs'.map (·.2)).flatten.map fun x => (x.1, x.2.pusi)).length
      (by simp only [List.length_map]; exact Nat.le_refl _)
    exact this
  rw [hu]
  have hm := mapUnits_runs fgs' hruns' hok'
  generalize hfl : (fgs'.map (·.2)).flatten = L at hcont ⊢
  cases L with
  | nil => simpa using hm
  | cons x rest =>
    have := hcont x rest rfl
    simp only [this, Bool.not_true, Bool.false_eq_true, if_false]
    exact hm

end Lal.TsStream
