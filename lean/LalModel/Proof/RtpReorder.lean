import LalModel.Model.RtpUnpack
import LalModel.Spec.RtpSpec
import LalModel.Proof.Seq16
/-
  RtpUnpackContainer.Feed against the ideal jitter buffer of Spec/RtpSpec.lean (`insertIdx`, `consume`, `inWindow`),
  for an arbitrary protocol that unpacks the units of the stream (`UnitsOK`).
  Invariant: list = (arrived ∖ delivered) sorted by CompareSeq, Size = its length, doneSeq = last delivered packet.
-/
namespace Lal.RtpUnpack
open Lal Lal.Rtp Lal.Seq16 Lal.RtpSpec

/-! ### lists of packet indices -/

/-- length of the run `c, c+1, …` at the head of `s` -/
def runLen : Nat → List Nat → Nat
  | _, [] => 0
  | c, h :: t => if h = c then runLen (c + 1) t + 1 else 0

theorem runLen_split : ∀ (s : List Nat) (c : Nat), s = List.range' c (runLen c s) ++ s.drop (runLen c s) := by
  intro s
  induction s with
  | nil => intro c; simp [runLen]
  | cons h t ih =>
    intro c
    unfold runLen
    by_cases e : h = c
    · rw [if_pos e]
      subst e
      simp only [List.range'_succ, List.drop_succ_cons, List.cons_append]
      rw [← ih (h + 1)]
    · rw [if_neg e]; simp

theorem runLen_next : ∀ (s : List Nat) (c : Nat),
    s.drop (runLen c s) = [] ∨ ∃ h T, s.drop (runLen c s) = h :: T ∧ h ≠ c + runLen c s := by
  intro s
  induction s with
  | nil => intro c; simp [runLen]
  | cons h t ih =>
    intro c
    unfold runLen
    by_cases e : h = c
    · rw [if_pos e]
      simp only [List.drop_succ_cons]
      rcases ih (c + 1) with h1 | ⟨x, T, h1, h2⟩
      · exact Or.inl h1
      · exact Or.inr ⟨x, T, h1, by omega⟩
    · rw [if_neg e]
      exact Or.inr ⟨h, t, by simp, by simpa using e⟩

theorem le_runLen_of_take : ∀ (len : Nat) (s : List Nat) (c : Nat), s.take len = List.range' c len → len ≤ runLen c s := by
  intro len
  induction len with
  | zero => intro s c _; omega
  | succ k ih =>
    intro s c h
    cases s with
    | nil => simp [List.range'_succ] at h
    | cons x t =>
      simp only [List.take_succ_cons, List.range'_succ, List.cons.injEq] at h
      unfold runLen
      rw [if_pos h.1]
      have := ih t (c + 1) h.2
      omega

theorem take_range'_le : ∀ (len r c : Nat), len ≤ r → (List.range' c r).take len = List.range' c len := by
  intro len
  induction len with
  | zero => intro r c _; simp
  | succ k ih =>
    intro r c h
    cases r with
    | zero => omega
    | succ r' => simp only [List.range'_succ, List.take_succ_cons]; rw [ih r' (c + 1) (by omega)]

theorem take_of_le_runLen (len : Nat) (s : List Nat) (c : Nat) (h : len ≤ runLen c s) : s.take len = List.range' c len := by
  have hs := runLen_split s c
  rw [hs, List.take_append_of_le_length (by simp; exact h)]
  exact take_range'_le len _ c h

/-- a strictly increasing list that starts with `c`: either it starts with the whole unit `c … c+len-1`, or with a
    proper non-empty prefix of it followed by nothing or by a later packet -/
theorem unit_prefix_cases (s : List Nat) (c len : Nat) (hs : s.Pairwise (· < ·)) (hhead : s.head? = some c) :
    s.take len = List.range' c len ∨
    (s.take len ≠ List.range' c len ∧
     ∃ j T, 1 ≤ j ∧ j < len ∧ s = List.range' c j ++ T ∧ (T = [] ∨ ∃ h T', T = h :: T' ∧ c + j < h)) := by
  by_cases hle : len ≤ runLen c s
  · exact Or.inl (take_of_le_runLen len s c hle)
  · right
    refine ⟨fun h => hle (le_runLen_of_take len s c h), ?_⟩
    have hr1 : 1 ≤ runLen c s := by
      cases s with
      | nil => simp at hhead
      | cons x t => simp at hhead; subst hhead; simp [runLen]
    refine ⟨runLen c s, s.drop (runLen c s), hr1, by omega, runLen_split s c, ?_⟩
    rcases runLen_next s c with h1 | ⟨x, T, h1, h2⟩
    · exact Or.inl h1
    · right
      refine ⟨x, T, h1, ?_⟩
      have hsplit := runLen_split s c
      rw [h1] at hsplit
      rw [hsplit, List.pairwise_append] at hs
      have hm : c + (runLen c s - 1) ∈ List.range' c (runLen c s) := by
        rw [List.mem_range'_1]; omega
      have := hs.2.2 _ hm x (by simp)
      omega

theorem insertIdx_mem (i : Nat) : ∀ (s : List Nat) (x : Nat), x ∈ insertIdx i s ↔ x = i ∨ x ∈ s := by
  intro s
  induction s with
  | nil => intro x; simp [insertIdx]
  | cons j r ih =>
    intro x
    unfold insertIdx
    by_cases e : i = j
    · rw [if_pos e]; subst e; simp
    · rw [if_neg e]
      by_cases l : i < j
      · rw [if_pos l]; simp
      · rw [if_neg l]; simp only [List.mem_cons, ih]
        constructor
        · rintro (h | h | h)
          · exact Or.inr (Or.inl h)
          · exact Or.inl h
          · exact Or.inr (Or.inr h)
        · rintro (h | h | h)
          · exact Or.inr (Or.inl h)
          · exact Or.inl h
          · exact Or.inr (Or.inr h)

theorem insertIdx_sorted (i : Nat) : ∀ (s : List Nat), s.Pairwise (· < ·) → (insertIdx i s).Pairwise (· < ·) := by
  intro s
  induction s with
  | nil => intro _; simp [insertIdx]
  | cons j r ih =>
    intro hs
    unfold insertIdx
    rw [List.pairwise_cons] at hs
    by_cases e : i = j
    · rw [if_pos e]; exact List.pairwise_cons.mpr hs
    · rw [if_neg e]
      by_cases l : i < j
      · rw [if_pos l]
        refine List.pairwise_cons.mpr ⟨?_, List.pairwise_cons.mpr hs⟩
        intro x hx
        rcases List.mem_cons.mp hx with rfl | hx
        · exact l
        · have := hs.1 x hx; omega
      · rw [if_neg l]
        refine List.pairwise_cons.mpr ⟨?_, ih hs.2⟩
        intro x hx
        rcases (insertIdx_mem i r x).mp hx with rfl | hx
        · omega
        · exact hs.1 x hx

theorem insertIdx_length (i : Nat) : ∀ (s : List Nat), s.Pairwise (· < ·) →
    (insertIdx i s).length = if i ∈ s then s.length else s.length + 1 := by
  intro s
  induction s with
  | nil => intro _; simp [insertIdx]
  | cons j r ih =>
    intro hs
    rw [List.pairwise_cons] at hs
    unfold insertIdx
    by_cases e : i = j
    · rw [if_pos e]; simp [e]
    · rw [if_neg e]
      by_cases l : i < j
      · rw [if_pos l]
        have hni : i ∉ j :: r := by
          intro hm
          rcases List.mem_cons.mp hm with h | h
          · exact e h
          · have := hs.1 i h; omega
        simp [hni]
      · rw [if_neg l]
        simp only [List.length_cons, ih hs.2, List.mem_cons, e, false_or]
        by_cases m : i ∈ r <;> simp [m]

/-- a strictly increasing list of numbers ≥ c that contains c … c+len-1 starts with them -/
theorem take_of_contains : ∀ (len : Nat) (s : List Nat) (c : Nat), s.Pairwise (· < ·) → (∀ x ∈ s, c ≤ x) →
    (∀ j, j < len → c + j ∈ s) → s.take len = List.range' c len := by
  intro len
  induction len with
  | zero => intro s c _ _ _; simp
  | succ k ih =>
    intro s c hs hlo hmem
    cases s with
    | nil => have := hmem 0 (by omega); simp at this
    | cons h t =>
      rw [List.pairwise_cons] at hs
      have hc : c ∈ h :: t := by simpa using hmem 0 (by omega)
      have hh : h = c := by
        rcases List.mem_cons.mp hc with e | e
        · exact e.symm
        · have := hs.1 c e; have := hlo h (by simp); omega
      subst hh
      simp only [List.take_succ_cons, List.range'_succ]
      congr 1
      apply ih t (h + 1) hs.2
      · intro x hx; have := hs.1 x hx; omega
      · intro j hj
        have := hmem (j + 1) (by omega)
        rcases List.mem_cons.mp this with e | e
        · omega
        · have e2 : h + (j + 1) = h + 1 + j := by omega
          rw [← e2]; exact e

/-! ### the ideal jitter buffer with the delivered units' outputs -/

def consumeU : List (Nat × List AvPacket) → Nat → List Nat → List (Nat × List AvPacket) × Nat × List Nat × List AvPacket
  | [], c, s => ([], c, s, [])
  | (len, out) :: us, c, s =>
    if s.take len = List.range' c len then
      let r := consumeU us (c + len) (s.drop len)
      (r.1, r.2.1, r.2.2.1, out ++ r.2.2.2)
    else ((len, out) :: us, c, s, [])

theorem consumeU_consume : ∀ (us : List (Nat × List AvPacket)) (c : Nat) (s : List Nat),
    consume (us.map (·.1)) c s = ((consumeU us c s).1.map (·.1), (consumeU us c s).2.1, (consumeU us c s).2.2.1) := by
  intro us
  induction us with
  | nil => intro c s; simp [consume, consumeU]
  | cons u us ih =>
    intro c s
    obtain ⟨len, out⟩ := u
    simp only [List.map_cons, consume, consumeU]
    by_cases h : s.take len = List.range' c len
    · rw [if_pos h, if_pos h]; exact ih (c + len) (s.drop len)
    · rw [if_neg h, if_neg h]; simp

/-- outputs of an arrival order on the ideal buffer -/
def idealRun : List (Nat × List AvPacket) → Nat → List Nat → List Nat → List AvPacket
  | _, _, _, [] => []
  | us, c, s, i :: order =>
    if i < c then idealRun us c s order else
    let r := consumeU us c (insertIdx i s)
    r.2.2.2 ++ idealRun r.1 r.2.1 r.2.2.1 order

section container

variable (pr : Proto) (s0 n listMax : Nat) (raw pk : Nat → RtpPacket)

/-- the stream: `raw i` is the `i`-th packet sent, `pk i` the same packet after `CalcPositionIfNeeded` -/
structure Stream : Prop where
  hn : n ≤ 32768
  hcalc : ∀ i, i < n → pr.calcPosition (raw i) = .ok (pk i)
  seqRaw : ∀ i, i < n → (raw i).hdr.seq = sq s0 i
  seqPk : ∀ i, i < n → (pk i).hdr.seq = sq s0 i

/-- what the protocol must do on the units that start at packet `c`: a complete unit at the head of the list is
    unpacked (whatever follows), an incomplete one followed by nothing or by a later packet is left alone -/
def UnitsOK : Nat → List (Nat × List AvPacket) → Prop
  | c, [] => c = n
  | c, (len, out) :: us =>
    1 ≤ len ∧ c + len ≤ n ∧
    (∀ T, pr.tryUnpackOne ((List.range' c len).map pk ++ T) = .ok (some ⟨out, sq s0 (c + len - 1), T, len⟩)) ∧
    (∀ j T, 1 ≤ j → j < len → (T = [] ∨ ∃ h T', T = pk h :: T' ∧ c + j < h ∧ h < n) →
        pr.tryUnpackOne ((List.range' c j).map pk ++ T) = .ok none) ∧
    UnitsOK (c + len) us

structure Rel (l : PktList) (c : Nat) (s : List Nat) : Prop where
  items : l.items = s.map pk
  size : l.size = s.length
  flag : l.doneFlag = decide (0 < c)
  done : 0 < c → l.doneSeq = sq s0 (c - 1)
  max : l.maxSize = listMax

structure Inv (c : Nat) (s : List Nat) : Prop where
  sorted : s.Pairwise (· < ·)
  lo : ∀ x ∈ s, c ≤ x
  hi : ∀ x ∈ s, x < n
  first : c = 0 → s = [] ∨ s.head? = some 0

variable {pr s0 n listMax raw pk}

theorem insertSorted_map (st : Stream pr s0 n raw pk) (i : Nat) (hi : i < n) :
    ∀ (s : List Nat), s.Pairwise (· < ·) → (∀ x ∈ s, x < n) →
      insertSorted (pk i) (s.map pk) = ((insertIdx i s).map pk, decide (i ∉ s)) := by
  intro s
  induction s with
  | nil => intro _ _; simp [insertSorted, insertIdx]
  | cons j r ih =>
    intro hs hb
    rw [List.pairwise_cons] at hs
    have hj : j < n := hb j (by simp)
    have hn := st.hn
    simp only [List.map_cons, insertSorted, st.seqPk i hi, st.seqPk j hj]
    rw [compareSeq_sq s0 i j (by omega)]
    unfold insertIdx
    by_cases e : i = j
    · rw [if_pos e, if_pos e]; simp [e]
    · rw [if_neg e, if_neg e]
      by_cases l : i < j
      · rw [if_pos l, if_pos l]
        have hni : i ∉ j :: r := by
          intro hm
          rcases List.mem_cons.mp hm with h | h
          · exact e h
          · have := hs.1 i h; omega
        simp [hni]
      · rw [if_neg l, if_neg l]
        rw [ih hs.2 (fun x hx => hb x (by simp [hx]))]
        simp [List.mem_cons, e]

theorem consumeU_length_le : ∀ (us : List (Nat × List AvPacket)) (c : Nat) (s : List Nat), (consumeU us c s).1.length ≤ us.length := by
  intro us
  induction us with
  | nil => intro c s; simp [consumeU]
  | cons u us ih =>
    intro c s
    obtain ⟨len, out⟩ := u
    simp only [consumeU]
    by_cases h : s.take len = List.range' c len
    · rw [if_pos h]; have := ih (c + len) (s.drop len); simp only [List.length_cons]; omega
    · rw [if_neg h]; simp

/-- the ideal buffer either delivers nothing and is unchanged, or moves forward -/
theorem consumeU_mono : ∀ (us : List (Nat × List AvPacket)) (c : Nat) (s : List Nat), UnitsOK pr s0 n pk c us →
    ((consumeU us c s).1 = us ∧ (consumeU us c s).2.1 = c ∧ (consumeU us c s).2.2.1 = s ∧ (consumeU us c s).2.2.2 = []) ∨
      c < (consumeU us c s).2.1 := by
  intro us
  induction us with
  | nil => intro c s _; simp [consumeU]
  | cons u us ih =>
    intro c s hu
    obtain ⟨len, out⟩ := u
    obtain ⟨h1, _, _, _, hrest⟩ := hu
    simp only [consumeU]
    by_cases h : s.take len = List.range' c len
    · rw [if_pos h]
      right
      rcases ih (c + len) (s.drop len) hrest with ⟨_, h2, _⟩ | h2
      · simp only [h2]; omega
      · simp only; omega
    · rw [if_neg h]; simp

theorem isFirstSequential_eq (st : Stream pr s0 n raw pk) (l : PktList) (c h : Nat) (t : List Nat)
    (hr : Rel s0 listMax pk l c (h :: t)) (hi : Inv n c (h :: t)) : l.isFirstSequential = decide (h = c) := by
  have hn := st.hn
  have hh : h < n := hi.hi h (by simp)
  have hlo : c ≤ h := hi.lo h (by simp)
  unfold PktList.isFirstSequential
  rw [hr.items]
  simp only [List.map_cons, hr.flag]
  by_cases hc : 0 < c
  · simp only [hc, decide_true, Bool.not_true, Bool.false_eq_true, if_false, hr.done hc, st.seqPk h hh]
    have := subSeq_sq s0 h (c - 1) (by omega)
    by_cases e : h = c
    · have h1 : subSeq (sq s0 h) (sq s0 (c - 1)) = 1 := this.mpr (by omega)
      rw [h1]; simp [e]
    · have : ¬ subSeq (sq s0 h) (sq s0 (c - 1)) = 1 := fun x => e (by have := this.mp x; omega)
      simp [this, e]
  · have hc0 : c = 0 := by omega
    have := hi.first hc0
    simp at this
    simp [this, hc0]

theorem seqLoop_consume (st : Stream pr s0 n raw pk) :
    ∀ (us : List (Nat × List AvPacket)) (c : Nat) (s : List Nat) (l : PktList) (fuel : Nat),
      UnitsOK pr s0 n pk c us → Rel s0 listMax pk l c s → Inv n c s → s.length + 1 ≤ fuel →
      ∃ l', seqLoop pr fuel l = .ok (l', (consumeU us c s).2.2.2, us.length - (consumeU us c s).1.length) ∧
        Rel s0 listMax pk l' (consumeU us c s).2.1 (consumeU us c s).2.2.1 ∧
        Inv n (consumeU us c s).2.1 (consumeU us c s).2.2.1 ∧
        UnitsOK pr s0 n pk (consumeU us c s).2.1 (consumeU us c s).1 := by
  intro us
  induction us with
  | nil =>
    intro c s l fuel hu hr hi hf
    have hc : c = n := hu
    have hs : s = [] := by
      cases s with
      | nil => rfl
      | cons x t => have := hi.lo x (by simp); have := hi.hi x (by simp); omega
    subst hs
    refine ⟨l, ?_, hr, hi, hu⟩
    have hitems : l.items = [] := by simpa using hr.items
    cases fuel with
    | zero => simp [seqLoop, consumeU]
    | succ f => simp [seqLoop, consumeU, PktList.isFirstSequential, hitems]
  | cons u us ih =>
    intro c s l fuel hu hr hi hf
    obtain ⟨len, out⟩ := u
    have hu' := hu
    obtain ⟨hlen, hcn, hA1, hA2, hrest⟩ := hu
    cases fuel with
    | zero => omega
    | succ f =>
      cases s with
      | nil =>
        have hitems : l.items = [] := by simpa using hr.items
        have hne : ¬ ([] : List Nat).take len = List.range' c len := by
          cases len with
          | zero => omega
          | succ k => simp [List.range'_succ]
        refine ⟨l, ?_, ?_, ?_, ?_⟩ <;> simp only [consumeU, if_neg hne]
        · simp [seqLoop, PktList.isFirstSequential, hitems]
        · exact hr
        · exact hi
        · exact hu'
      | cons h t =>
        have hseq := isFirstSequential_eq st l c h t hr hi
        by_cases e : h = c
        · subst e
          rcases unit_prefix_cases (h :: t) h len hi.sorted (by simp) with htk | ⟨hne, j, T0, hj1, hj2, hsplit, hT0⟩
          · -- the whole unit is at the head of the list
            have hsplit : h :: t = List.range' h len ++ (h :: t).drop len := by
              rw [← htk]; exact (List.take_append_drop len (h :: t)).symm
            have hitems : l.items = (List.range' h len).map pk ++ ((h :: t).drop len).map pk := by
              rw [hr.items, ← List.map_append, ← hsplit]
            have htry := hA1 (((h :: t).drop len).map pk)
            rw [← hitems] at htry
            let l1 : PktList := { l with items := ((h :: t).drop len).map pk, size := l.size - len, doneFlag := true,
                                         doneSeq := sq s0 (h + len - 1) }
            have hdl : ((h :: t).drop len).length = (h :: t).length - len := by simp
            have hr1 : Rel s0 listMax pk l1 (h + len) ((h :: t).drop len) :=
              { items := rfl, size := by show l.size - len = _; rw [hr.size, hdl],
                flag := by show true = _; simp; omega,
                done := fun _ => by show sq s0 (h + len - 1) = _; rfl,
                max := hr.max }
            have hi1 : Inv n (h + len) ((h :: t).drop len) :=
              { sorted := hi.sorted.sublist (List.drop_sublist _ _),
                lo := by
                  intro x hx
                  have hsorted := hi.sorted
                  rw [hsplit, List.pairwise_append] at hsorted
                  have hm : h + (len - 1) ∈ List.range' h len := by rw [List.mem_range'_1]; omega
                  have := hsorted.2.2 _ hm x hx
                  omega,
                hi := fun x hx => hi.hi x (List.mem_of_mem_drop hx),
                first := fun h0 => by omega }
            obtain ⟨l', hloop, hr', hi', hu''⟩ := ih (h + len) ((h :: t).drop len) l1 f hrest hr1 hi1 (by rw [hdl]; simp at hf ⊢; omega)
            refine ⟨l', ?_, ?_, ?_, ?_⟩ <;> simp only [consumeU, if_pos htk]
            · have hle := consumeU_length_le us (h + len) ((h :: t).drop len)
              simp only [seqLoop, hseq, decide_true, Bool.not_true, Bool.false_eq_true, if_false, tryOne, htry]
              show (match seqLoop pr f l1 with
                    | Except.error f => (Except.error f : GoM (PktList × List AvPacket × Nat))
                    | Except.ok (l'', o', c) => Except.ok (l'', out ++ o', c + 1)) = _
              rw [hloop]
              simp only [List.length_cons]
              congr 3
              omega
            · exact hr'
            · exact hi'
            · exact hu''
          · -- an incomplete unit at the head
            have hitems : l.items = (List.range' h j).map pk ++ T0.map pk := by
              rw [hr.items, ← List.map_append, ← hsplit]
            have hcond : T0.map pk = [] ∨ ∃ x T', T0.map pk = pk x :: T' ∧ h + j < x ∧ x < n := by
              rcases hT0 with rfl | ⟨x, T', rfl, hx⟩
              · exact Or.inl rfl
              · refine Or.inr ⟨x, T'.map pk, rfl, hx, hi.hi x ?_⟩
                rw [hsplit]; simp
            have htry := hA2 j (T0.map pk) hj1 hj2 hcond
            rw [← hitems] at htry
            refine ⟨l, ?_, ?_, ?_, ?_⟩ <;> simp only [consumeU, if_neg hne]
            · simp [seqLoop, hseq, tryOne, htry]
            · exact hr
            · exact hi
            · exact hu'
        · have hne : ¬ (h :: t).take len = List.range' c len := by
            cases len with
            | zero => omega
            | succ k => simp [List.range'_succ, e]
          refine ⟨l, ?_, ?_, ?_, ?_⟩ <;> simp only [consumeU, if_neg hne]
          · simp [seqLoop, hseq, e]
          · exact hr
          · exact hi
          · exact hu'

theorem consumeU_c_le : ∀ (us : List (Nat × List AvPacket)) (c : Nat) (s : List Nat), c ≤ (consumeU us c s).2.1 := by
  intro us
  induction us with
  | nil => intro c s; simp [consumeU]
  | cons u us ih =>
    intro c s
    obtain ⟨len, out⟩ := u
    simp only [consumeU]
    by_cases h : s.take len = List.range' c len
    · rw [if_pos h]; have := ih (c + len) (s.drop len); simp only; omega
    · rw [if_neg h]; simp

theorem consumeU_outs : ∀ (us : List (Nat × List AvPacket)) (c : Nat) (s : List Nat),
    (consumeU us c s).2.2.2 ++ (consumeU us c s).1.flatMap (·.2) = us.flatMap (·.2) := by
  intro us
  induction us with
  | nil => intro c s; simp [consumeU]
  | cons u us ih =>
    intro c s
    obtain ⟨len, out⟩ := u
    simp only [consumeU]
    by_cases h : s.take len = List.range' c len
    · rw [if_pos h]; simp only [List.flatMap_cons, List.append_assoc, ih (c + len) (s.drop len)]
    · rw [if_neg h]; simp

/-- after delivery the next unit is not completely there -/
def Maximal (us : List (Nat × List AvPacket)) (c : Nat) (s : List Nat) : Prop :=
  match us with
  | [] => True
  | (len, _) :: _ => ¬ s.take len = List.range' c len

theorem consumeU_maximal : ∀ (us : List (Nat × List AvPacket)) (c : Nat) (s : List Nat),
    Maximal (consumeU us c s).1 (consumeU us c s).2.1 (consumeU us c s).2.2.1 := by
  intro us
  induction us with
  | nil => intro c s; simp [consumeU, Maximal]
  | cons u us ih =>
    intro c s
    obtain ⟨len, out⟩ := u
    simp only [consumeU]
    by_cases h : s.take len = List.range' c len
    · rw [if_pos h]; exact ih (c + len) (s.drop len)
    · rw [if_neg h]; exact h

theorem consumeU_mem : ∀ (us : List (Nat × List AvPacket)) (c : Nat) (s : List Nat) (x : Nat), x ∈ s →
    x < (consumeU us c s).2.1 ∨ x ∈ (consumeU us c s).2.2.1 := by
  intro us
  induction us with
  | nil => intro c s x hx; simp [consumeU, hx]
  | cons u us ih =>
    intro c s x hx
    obtain ⟨len, out⟩ := u
    simp only [consumeU]
    by_cases h : s.take len = List.range' c len
    · rw [if_pos h]
      rw [← List.take_append_drop len s, List.mem_append] at hx
      rcases hx with hx | hx
      · left
        rw [h, List.mem_range'_1] at hx
        have := consumeU_c_le us (c + len) (s.drop len)
        simp only; omega
      · exact ih (c + len) (s.drop len) x hx
    · rw [if_neg h]; exact Or.inr hx

theorem feed_stale (st : Stream pr s0 n raw pk) (l : PktList) (c : Nat) (s : List Nat) (i : Nat)
    (hr : Rel s0 listMax pk l c s) (hic : i < c) (hcn : c ≤ n) : feed pr l (raw i) = .ok (l, []) := by
  have hn := st.hn
  have hc : 0 < c := by omega
  have hstale : l.isStale (raw i).hdr.seq = true := by
    unfold PktList.isStale
    rw [hr.flag, hr.done hc, st.seqRaw i (by omega), compareSeq_sq s0 i (c - 1) (by omega)]
    by_cases e : i = c - 1
    · simp [e, hc]
    · have : i < c - 1 := by omega
      simp [e, this, hc]
  unfold feed
  rw [if_pos hstale]

theorem insertIdx_head0 (i : Nat) (t : List Nat) : (insertIdx i (0 :: t)).head? = some 0 := by
  unfold insertIdx
  by_cases e : i = 0
  · rw [if_pos e]; rfl
  · rw [if_neg e, if_neg (by omega)]; rfl

theorem feed_fresh (st : Stream pr s0 n raw pk) (us : List (Nat × List AvPacket)) (l : PktList) (c : Nat) (s : List Nat) (i : Nat)
    (hu : UnitsOK pr s0 n pk c us) (hr : Rel s0 listMax pk l c s) (hi : Inv n c s) (hin : i < n) (hci : c ≤ i)
    (hstart : c = 0 → s = [] → i = 0)
    (hwin : (consumeU us c (insertIdx i s)).2.2.1.length < listMax) :
    ∃ l', feed pr l (raw i) = .ok (l', (consumeU us c (insertIdx i s)).2.2.2) ∧
      Rel s0 listMax pk l' (consumeU us c (insertIdx i s)).2.1 (consumeU us c (insertIdx i s)).2.2.1 ∧
      Inv n (consumeU us c (insertIdx i s)).2.1 (consumeU us c (insertIdx i s)).2.2.1 ∧
      UnitsOK pr s0 n pk (consumeU us c (insertIdx i s)).2.1 (consumeU us c (insertIdx i s)).1 := by
  have hn := st.hn
  have hstale : l.isStale (raw i).hdr.seq = false := by
    unfold PktList.isStale
    rw [hr.flag]
    by_cases hc : 0 < c
    · rw [hr.done hc, st.seqRaw i hin, compareSeq_sq s0 i (c - 1) (by omega)]
      have e1 : ¬ i = c - 1 := by omega
      have e2 : ¬ i < c - 1 := by omega
      simp [e1, e2]
    · simp [hc]
  have hins := insertSorted_map st i hin s hi.sorted hi.hi
  let l1 : PktList := l.insert (pk i)
  have hr1 : Rel s0 listMax pk l1 c (insertIdx i s) :=
    { items := by show (insertSorted (pk i) l.items).1 = _; rw [hr.items, hins],
      size := by
        show (if (insertSorted (pk i) l.items).2 then l.size + 1 else l.size) = _
        rw [hr.items, hins, insertIdx_length i s hi.sorted, hr.size]
        by_cases m : i ∈ s <;> simp [m],
      flag := hr.flag, done := hr.done, max := hr.max }
  have hi1 : Inv n c (insertIdx i s) :=
    { sorted := insertIdx_sorted i s hi.sorted,
      lo := fun x hx => by rcases (insertIdx_mem i s x).mp hx with rfl | hx; exact hci; exact hi.lo x hx,
      hi := fun x hx => by rcases (insertIdx_mem i s x).mp hx with rfl | hx; exact hin; exact hi.hi x hx,
      first := fun hc0 => by
        right
        cases s with
        | nil => have := hstart hc0 rfl; subst this; rfl
        | cons h t =>
          rcases hi.first hc0 with h1 | h1
          · cases h1
          · simp at h1; subst h1; exact insertIdx_head0 i t }
  obtain ⟨l2, hloop, hr2, hi2, hu2⟩ :=
    seqLoop_consume st us c (insertIdx i s) l1 (l1.items.length + 1) hu hr1 hi1 (by rw [hr1.items]; simp)
  refine ⟨l2, ?_, hr2, hi2, hu2⟩
  unfold feed
  rw [hstale]
  simp only [Bool.false_eq_true, if_false, st.hcalc i hin]
  show (match seqLoop pr (l1.items.length + 1) l1 with
        | Except.error f => (Except.error f : GoM (PktList × List AvPacket))
        | Except.ok (l2, o2, count) => _) = _
  rw [hloop]
  simp only
  by_cases hcount : us.length - (consumeU us c (insertIdx i s)).1.length > 0
  · rw [if_pos hcount]
  · rw [if_neg hcount]
    have hfull : l2.full = false := by
      unfold PktList.full
      rw [hr2.size, hr2.max]
      simp; exact hwin
    rw [hfull]
    simp

/-- Any arrival order that starts with the first packet, stays inside the window and brings every packet at least
    once makes the container deliver every unit, in order (duplicates and wrap-around included). -/
theorem feedAll_reorder (st : Stream pr s0 n raw pk) :
    ∀ (σ : List Nat) (us : List (Nat × List AvPacket)) (c : Nat) (s seen : List Nat) (l : PktList),
      UnitsOK pr s0 n pk c us → Rel s0 listMax pk l c s → Inv n c s →
      (∀ x ∈ seen, x < c ∨ x ∈ s) → Maximal us c s →
      (∀ i ∈ σ, i < n) → (c = 0 → s = [] → σ = [] ∨ σ.head? = some 0) →
      inWindow listMax (us.map (·.1)) c s σ = true →
      (∀ i, i < n → i ∈ seen ∨ i ∈ σ) →
      ∃ l', feedAll pr l (σ.map raw) = .ok (l', us.flatMap (·.2)) := by
  intro σ
  induction σ with
  | nil =>
    intro us c s seen l hu hr hi hseen hmax _ _ _ hall
    have hus : us = [] := by
      cases us with
      | nil => rfl
      | cons u us' =>
        obtain ⟨len, out⟩ := u
        obtain ⟨h1, h2, _, _, _⟩ := hu
        exfalso
        apply hmax
        apply take_of_contains len s c hi.sorted hi.lo
        intro j hj
        rcases hall (c + j) (by omega) with h | h
        · rcases hseen _ h with h | h
          · omega
          · exact h
        · cases h
    subst hus
    exact ⟨l, rfl⟩
  | cons i σ ih =>
    intro us c s seen l hu hr hi hseen hmax hb hstart hwin hall
    have hin : i < n := hb i (by simp)
    have hcn : c ≤ n := by
      cases us with
      | nil => have : c = n := hu; omega
      | cons u us' => obtain ⟨len, out⟩ := u; obtain ⟨_, h2, _⟩ := hu; omega
    simp only [List.map_cons, feedAll]
    by_cases hic : i < c
    · rw [feed_stale st l c s i hr hic hcn]
      have hwin' : inWindow listMax (us.map (·.1)) c s σ = true := by
        simp only [inWindow, if_pos hic] at hwin; exact hwin
      obtain ⟨l', h'⟩ := ih us c s (i :: seen) l hu hr hi
        (fun x hx => by rcases List.mem_cons.mp hx with rfl | hx; exact Or.inl hic; exact hseen x hx)
        hmax (fun x hx => hb x (by simp [hx])) (fun hc0 => by omega) hwin'
        (fun x hx => by
          rcases hall x hx with h | h
          · exact Or.inl (by simp [h])
          · rcases List.mem_cons.mp h with rfl | h
            · exact Or.inl (by simp)
            · exact Or.inr h)
      exact ⟨l', by simp only [h', List.nil_append]⟩
    · have hci : c ≤ i := by omega
      have hw := hwin
      simp only [inWindow, if_neg hic, consumeU_consume, Bool.and_eq_true, decide_eq_true_eq] at hw
      have hst : c = 0 → s = [] → i = 0 := by
        intro hc0 hs0
        rcases hstart hc0 hs0 with h | h
        · cases h
        · simpa using h
      obtain ⟨l1, hfeed, hr1, hi1, hu1⟩ := feed_fresh st us l c s i hu hr hi hin hci hst hw.1
      rw [hfeed]
      have hmem_i : i ∈ insertIdx i s := (insertIdx_mem i s i).mpr (Or.inl rfl)
      obtain ⟨l', h'⟩ := ih _ _ _ (i :: seen) l1 hu1 hr1 hi1
        (fun x hx => by
          rcases List.mem_cons.mp hx with rfl | hx
          · exact consumeU_mem us c _ _ hmem_i
          · rcases hseen x hx with h | h
            · have := consumeU_c_le us c (insertIdx i s); left; omega
            · exact consumeU_mem us c _ x ((insertIdx_mem i s x).mpr (Or.inr h)))
        (consumeU_maximal us c _) (fun x hx => hb x (by simp [hx]))
        (fun hc0 hs0 => by
          rcases consumeU_mono us c (insertIdx i s) hu with ⟨_, _, h3, _⟩ | h
          · rw [h3] at hs0; rw [hs0] at hmem_i; cases hmem_i
          · omega)
        hw.2
        (fun x hx => by
          rcases hall x hx with h | h
          · exact Or.inl (by simp [h])
          · rcases List.mem_cons.mp h with rfl | h
            · exact Or.inl (by simp)
            · exact Or.inr h)
      refine ⟨l', ?_⟩
      simp only [h', consumeU_outs]

end container

end Lal.RtpUnpack
