import LalModel.Proof.Total
import LalModel.Proof.RtpTotal
import LalModel.Proof.SessTotal
import LalModel.Model.Ps
/-
  C13: `gb28181.PsUnpacker` never panics: `FeedRtpBody` for every demultiplexer state and every body,
  `FeedRtpPacket` for every packet sequence (invariant: the packet list's `Size` equals its length — what the
  `RtpPacketList.Reset` fix restores — and every listed packet passed `ParseRtpHeader`).
-/
namespace Lal.Ps
open Lal Lal.Rtp Lal.RtpUnpack Lal.Nalu

/-! ### readers -/

theorem be16At_ok (site : String) (rb : Bytes) (i : Nat) (h : i + 2 ≤ rb.length) :
    ∃ v, be16At site rb i = .ok v ∧ v < 65536 := by
  unfold be16At
  have hd : (rb.drop i).length = rb.length - i := by simp
  rw [from?_ok (by omega)]
  simp only [bind, Except.bind]
  rw [idx?_ok (by omega), idx?_ok (by omega)]
  refine ⟨_, rfl, ?_⟩
  unfold rd16
  have := UInt8.toNat_lt ((rb.drop i)[0]'(by omega))
  have := UInt8.toNat_lt ((rb.drop i)[1]'(by omega))
  omega

theorem be32At_ok (site : String) (rb : Bytes) (i : Nat) (h : i + 4 ≤ rb.length) : ∃ v, be32At site rb i = .ok v := by
  unfold be32At
  have hd : (rb.drop i).length = rb.length - i := by simp
  rw [from?_ok (by omega)]
  simp only [bind, Except.bind]
  rw [idx?_ok (by omega), idx?_ok (by omega), idx?_ok (by omega), idx?_ok (by omega)]
  exact ⟨_, rfl⟩

theorem readPts_ok (b : Bytes) (h : 5 ≤ b.length) : ∃ v, readPts b = .ok v := by
  unfold readPts
  rw [idx?_ok (by omega), idx?_ok (by omega), idx?_ok (by omega), idx?_ok (by omega), idx?_ok (by omega)]
  exact ⟨_, rfl⟩

theorem parsePackHeader_ok (rb : Bytes) (i : Nat) : ∃ r, parsePackHeader rb i = .ok r := by
  unfold parsePackHeader
  split
  · exact ⟨_, rfl⟩
  · rw [idx?_ok (by omega)]
    dsimp only
    split <;> exact ⟨_, rfl⟩

theorem parsePackStreamBody_ok (rb : Bytes) (i : Nat) : ∃ r, parsePackStreamBody rb i = .ok r := by
  unfold parsePackStreamBody
  split
  · exact ⟨_, rfl⟩
  · obtain ⟨l, hl, _⟩ := be16At_ok "parsePackStreamBody rb[i:]" rb i (by omega)
    rw [hl]
    dsimp only
    split <;> exact ⟨_, rfl⟩

/-- the loop invariant of `parsePsm`: behind `i` there are at least `esml + 4` bytes -/
theorem psmLoop_ok (rb : Bytes) : ∀ (fuel : Nat) (s : Dm) (i : Nat) (esml : Int), (rb.length : Int) - i ≥ esml + 4 →
    ∃ r, psmLoop rb fuel s i esml = .ok r := by
  intro fuel
  induction fuel with
  | zero => intro s i esml _; exact ⟨_, rfl⟩
  | succ fuel ih =>
    intro s i esml h
    unfold psmLoop
    split
    · exact ⟨_, rfl⟩
    · rename_i hpos
      have h1 : i + 4 ≤ rb.length := by omega
      rw [idx?_ok (by omega), idx?_ok (by omega)]
      dsimp only
      obtain ⟨esil, he, _⟩ := be16At_ok "parsePsm rb[i:] (es_info_length)" rb (i + 2) (by omega)
      rw [he]
      dsimp only
      apply ih
      push_cast
      omega

theorem parsePsm_ok (s : Dm) (rb : Bytes) (h4 : 4 ≤ rb.length) : ∃ r, parsePsm s rb 4 = .ok r := by
  unfold parsePsm
  rw [from?_ok (by omega)]
  dsimp only
  split; · exact ⟨_, rfl⟩
  rename_i h6
  simp only [List.length_drop] at h6
  obtain ⟨l, hl, _⟩ := be16At_ok "parsePsm rb[i:] (program_stream_info_length)" rb (4 + 4) (by omega)
  rw [hl]
  dsimp only
  rw [from?_ok (by omega)]
  dsimp only
  split; · exact ⟨_, rfl⟩
  rename_i hl2
  simp only [List.length_drop] at hl2
  obtain ⟨esml, he, _⟩ := be16At_ok "parsePsm rb[i:] (elementary_stream_map_length)" rb (4 + 6 + l) (by omega)
  rw [he]
  dsimp only
  rw [from?_ok (by omega)]
  dsimp only
  split; · exact ⟨_, rfl⟩
  rename_i he2
  simp only [List.length_drop] at he2
  obtain ⟨r, hr⟩ := psmLoop_ok rb (esml + 1) s (4 + 8 + l) esml (by push_cast; omega)
  rw [hr]
  exact ⟨_, rfl⟩


/-! ### start codes -/

theorem scan_bound : ∀ (s : Bytes) (i c p l : Nat), scan s i c = some (p, l) → c ≤ i →
    i ≤ p + c ∧ p + l ≤ i + s.length ∧ 3 ≤ l := by
  intro s
  induction s with
  | nil => intro i c p l h; simp [scan] at h
  | cons x rest ih =>
    intro i c p l h hc
    unfold scan at h
    split at h
    · have := ih _ _ _ _ h (by omega)
      simp only [List.length_cons]; omega
    · split at h
      · split at h
        · simp only [Option.some.injEq, Prod.mk.injEq] at h
          simp only [List.length_cons]; omega
        · have := ih _ _ _ _ h (by omega)
          simp only [List.length_cons]; omega
      · have := ih _ _ _ _ h (by omega)
        simp only [List.length_cons]; omega

theorem iterateNaluStartCode_bound (buf : Bytes) (start p l : Nat) (h : iterateNaluStartCode buf start = some (p, l)) :
    start ≤ p ∧ p + l ≤ buf.length ∧ 3 ≤ l := by
  unfold iterateNaluStartCode at h
  split at h; · cases h
  rename_i hs
  cases hsc : scan (buf.drop start) 0 0 with
  | none => rw [hsc] at h; cases h
  | some r =>
    rw [hsc] at h
    simp only [Option.map_some, Option.some.injEq, Prod.mk.injEq] at h
    obtain ⟨hp, hl⟩ := h
    have := scan_bound _ _ _ _ _ (show scan (buf.drop start) 0 0 = some (r.1, r.2) from hsc) (Nat.le_refl 0)
    simp only [List.length_drop] at this
    subst hp; subst hl
    omega

theorem onAvPacketWrap_ok (w : Bool) (o : Out) : ∃ r, onAvPacketWrap w o = .ok r := by
  unfold onAvPacketWrap
  split
  · split
    · exact ⟨_, rfl⟩
    · split
      · exact ⟨_, rfl⟩
      · rw [idx?_ok (by omega)]
        dsimp only
        repeat' split
        all_goals exact ⟨_, rfl⟩
  · exact ⟨_, rfl⟩

theorem naluLoop_ok (buf : Bytes) (vpt pts dts : Int) : ∀ (fuel : Nat) (w : Bool) (startPos preLeading : Nat),
    startPos + preLeading ≤ buf.length → ∃ r, naluLoop buf vpt pts dts fuel w startPos preLeading = .ok r := by
  intro fuel
  induction fuel with
  | zero => intro w sp pl _; exact ⟨_, rfl⟩
  | succ fuel ih =>
    intro w sp pl h
    unfold naluLoop
    split
    · rename_i nextPos leading hn
      have hb := iterateNaluStartCode_bound _ _ _ _ hn
      rw [slice?_ok (by omega) (by omega)]
      dsimp only
      obtain ⟨r, hr⟩ := onAvPacketWrap_ok w ⟨vpt, dts.tdiv 90, pts.tdiv 90, List.take (nextPos - sp) (List.drop sp buf)⟩
      rw [hr]
      dsimp only
      obtain ⟨r2, hr2⟩ := ih r.1 nextPos leading (by omega)
      rw [hr2]
      exact ⟨_, rfl⟩
    · rw [from?_ok (by omega)]
      exact onAvPacketWrap_ok _ _

theorem iterateNalu_ok (buf : Bytes) (vpt : Int) (w : Bool) (pts dts : Int) : ∃ r, iterateNalu buf vpt w pts dts = .ok r := by
  unfold iterateNalu
  split
  · exact ⟨_, rfl⟩
  · rename_i sp pl h
    have hb := iterateNaluStartCode_bound _ _ _ _ h
    exact naluLoop_ok _ _ _ _ _ _ _ _ (by omega)

/-! ### PES packets -/

theorem ptsAt_ok (site : String) (rb : Bytes) (i : Nat) (h : i + 5 ≤ rb.length) : ∃ v, (from? site rb i >>= readPts) = Except.ok v := by
  rw [from?_ok (by omega)]
  exact readPts_ok (rb.drop i) (by simp only [List.length_drop]; omega)

theorem pesHeader_ok (rb : Bytes) (i length flag phdl : Nat) (h : i + length ≤ rb.length + 3) (h3 : 3 ≤ length) :
    ∃ r, pesHeader rb i length flag phdl = .ok r := by
  unfold pesHeader
  by_cases hph : 3 + phdl > length
  · simp only [hph, if_true]; exact ⟨_, rfl⟩
  simp only [hph, if_false]
  have hsl : ∃ v, slice? "parseAvStream rb[i:i+length-3-phdl]" rb (i + phdl) (i + phdl + length - 3 - phdl) = Except.ok v := by
    rw [slice?_ok (by omega) (by omega)]; exact ⟨_, rfl⟩
  obtain ⟨pl, hpl⟩ := hsl
  by_cases hf : flag / 2 % 2 = 1
  · simp only [hf, if_true, true_and]
    by_cases hp5 : phdl < 5
    · simp only [hp5, if_true]; exact ⟨_, rfl⟩
    simp only [hp5, if_false]
    obtain ⟨pts0, hp⟩ := ptsAt_ok "parseAvStream rb[i:] (pts)" rb i (by omega)
    rw [hp]
    dsimp only
    by_cases hd : flag % 2 = 1
    · simp only [hd, if_true, true_and]
      by_cases hd5 : phdl < 5 + 5
      · simp only [hd5, if_true]; exact ⟨_, rfl⟩
      simp only [hd5, if_false]
      obtain ⟨dts, hdd⟩ := ptsAt_ok "parseAvStream rb[i+j:] (dts)" rb (i + 5) (by omega)
      rw [hdd]
      dsimp only
      rw [hpl]; exact ⟨_, rfl⟩
    · simp only [hd, if_false, false_and]
      rw [hpl]; exact ⟨_, rfl⟩
  · simp only [hf, if_false, false_and]
    by_cases hd : flag % 2 = 1
    · simp only [hd, if_true, true_and]
      by_cases hd5 : phdl < 0 + 5
      · simp only [hd5, if_true]; exact ⟨_, rfl⟩
      simp only [hd5, if_false]
      obtain ⟨dts, hdd⟩ := ptsAt_ok "parseAvStream rb[i+j:] (dts)" rb (i + 0) (by omega)
      rw [hdd]
      dsimp only
      rw [hpl]; exact ⟨_, rfl⟩
    · simp only [hd, if_false, false_and]
      rw [hpl]; exact ⟨_, rfl⟩

theorem avAudio_ok (s : Dm) (rt pts0 dts : Int) (payload : Bytes) : ∃ r, avAudio s rt pts0 dts payload = .ok r := by
  unfold avAudio
  split
  · split
    · obtain ⟨r, hr⟩ := onAvPacketWrap_ok s.waitSps ⟨s.audioPt, s.preAudioDts.tdiv 90, s.preAudioPts.tdiv 90, s.audioBuf⟩
      rw [hr]; exact ⟨_, rfl⟩
    · exact ⟨_, rfl⟩
  · exact ⟨_, rfl⟩

theorem avVideo_ok (s : Dm) (rt pts0 dts : Int) (payload : Bytes) : ∃ r, avVideo s rt pts0 dts payload = .ok r := by
  unfold avVideo
  split
  · rename_i t _
    obtain ⟨r, hr⟩ := iterateNalu_ok s.videoBuf s.videoPt s.waitSps t t
    rw [hr]; exact ⟨_, rfl⟩
  · exact ⟨_, rfl⟩

theorem parseAvStream_ok (s : Dm) (audio : Bool) (rtpts : Nat) (rb : Bytes) : ∃ r, parseAvStream s audio rtpts rb 4 = .ok r := by
  unfold parseAvStream
  split; · exact ⟨_, rfl⟩
  rename_i h2
  obtain ⟨length, hl, _⟩ := be16At_ok "parseAvStream rb[i:] (PES_packet_length)" rb 4 (by omega)
  rw [hl]
  dsimp only
  split; · exact ⟨_, rfl⟩
  rename_i hlen
  split; · exact ⟨_, rfl⟩
  rename_i h3
  rw [idx?_ok (by omega), idx?_ok (by omega)]
  dsimp only
  obtain ⟨r, hr⟩ := pesHeader_ok rb (4 + 5) length (rb[4 + 3].toNat / 64) rb[4 + 4].toNat (by omega) (by omega)
  rw [hr]
  cases r with
  | none => exact ⟨_, rfl⟩
  | some v =>
    obtain ⟨pts0, dts, payload⟩ := v
    dsimp only
    have : ∃ r, (if audio then avAudio s rtpts pts0 dts payload else avVideo s rtpts pts0 dts payload) = Except.ok r := by
      split
      · exact avAudio_ok _ _ _ _ _
      · exact avVideo_ok _ _ _ _ _
    obtain ⟨r2, hr2⟩ := this
    rw [hr2]
    exact ⟨_, rfl⟩

theorem dispatch_ok (s : Dm) (rtpts : Nat) (rb : Bytes) (code : Nat) (h4 : 4 ≤ rb.length) : ∃ r, dispatch s rtpts rb code = .ok r := by
  unfold dispatch
  split
  · obtain ⟨r, hr⟩ := parsePackHeader_ok rb 4; rw [hr]; exact ⟨_, rfl⟩
  split
  · obtain ⟨r, hr⟩ := parsePackStreamBody_ok rb 4; rw [hr]; exact ⟨_, rfl⟩
  split
  · obtain ⟨r, hr⟩ := parsePsm_ok s rb h4; rw [hr]; exact ⟨_, rfl⟩
  split
  · obtain ⟨r, hr⟩ := parseAvStream_ok s true rtpts rb; rw [hr]; exact ⟨_, rfl⟩
  split
  · obtain ⟨r, hr⟩ := parseAvStream_ok s false rtpts rb; rw [hr]; exact ⟨_, rfl⟩
  split <;> exact ⟨_, rfl⟩

theorem bodyLoop_ok (rtpts : Nat) : ∀ (fuel : Nat) (s : Dm), ∃ r, bodyLoop rtpts fuel s = .ok r := by
  intro fuel
  induction fuel with
  | zero => intro s; exact ⟨_, rfl⟩
  | succ fuel ih =>
    intro s
    unfold bodyLoop
    split; · exact ⟨_, rfl⟩
    split; · exact ⟨_, rfl⟩
    rename_i h4
    obtain ⟨code, hc⟩ := be32At_ok "FeedRtpBody rb[i:]" s.buf 0 (by omega)
    rw [hc]
    dsimp only
    obtain ⟨r, hr⟩ := dispatch_ok s rtpts s.buf code (by omega)
    rw [hr]
    split
    · rename_i hh; cases hh
    · exact ⟨_, rfl⟩
    · exact ⟨_, rfl⟩
    · rename_i s' o consumed hh
      obtain ⟨r2, hr2⟩ := ih { s' with buf := skip s'.buf (4 + consumed) }
      rw [hr2]; exact ⟨_, rfl⟩

/-- `PsUnpacker.FeedRtpBody` ends without a panic in every state, for every body -/
theorem feedRtpBody_ok (s : Dm) (body : Bytes) (rtpts : Nat) : ∃ r, feedRtpBody s body rtpts = .ok r := by
  unfold feedRtpBody
  exact bodyLoop_ok _ _ _


/-! ### FeedRtpPacket -/

/-- invariant of the packet list of a PsUnpacker -/
structure LInv (l : PktList) : Prop where
  good : ∀ p ∈ l.items, HdrOk p.raw p.hdr
  size : l.size = l.items.length
  max : 0 < l.maxSize

theorem insertSorted_len (p : RtpPacket) : ∀ (l : List RtpPacket),
    (insertSorted p l).1.length = l.length + (if (insertSorted p l).2 then 1 else 0) := by
  intro l
  induction l with
  | nil => simp [insertSorted]
  | cons q l ih =>
    unfold insertSorted
    dsimp only
    split
    · simp
    · split
      · simp
      · simp only [List.length_cons, ih]; omega

theorem insert_inv (l : PktList) (p : RtpPacket) (hp : HdrOk p.raw p.hdr) (hi : LInv l) : LInv (l.insert p) := by
  unfold PktList.insert
  constructor
  · intro q hq
    rcases (insertSorted_mem p l.items).1 q hq with e | e
    · rw [e]; exact hp
    · exact hi.good q e
  · have := insertSorted_len p l.items
    have := hi.size
    dsimp only
    split <;> simp_all
  · exact hi.max

theorem isStartPosition_ok (p : RtpPacket) (h : HdrOk p.raw p.hdr) : ∃ r, isStartPosition p = .ok r := by
  obtain ⟨b, hb, _, _⟩ := body_ok p h
  unfold isStartPosition
  rw [hb]
  dsimp only
  split
  · rw [slice?_ok (by omega) (by omega)]; exact ⟨_, rfl⟩
  · exact ⟨_, rfl⟩

theorem dropLoop_ok : ∀ (fuel : Nat) (l : PktList) (prev : RtpPacket), LInv l → ∃ l', dropLoop fuel l prev = .ok l' ∧ LInv l' := by
  intro fuel
  induction fuel with
  | zero => intro l prev hi; exact ⟨l, rfl, hi⟩
  | succ fuel ih =>
    intro l prev hi
    unfold dropLoop
    split
    · rename_i hs
      split
      · rename_i he
        have := hi.size; rw [he] at this; simp at this; omega
      · rename_i curr rest he
        split
        · exact ⟨l, rfl, hi⟩
        · obtain ⟨st, hst⟩ := isStartPosition_ok curr (hi.good curr (by rw [he]; exact List.mem_cons_self))
          rw [hst]
          dsimp only
          split
          · exact ⟨_, rfl, ⟨hi.good, hi.size, hi.max⟩⟩
          · apply ih
            constructor
            · intro q hq; exact hi.good q (by rw [he]; exact List.mem_cons_of_mem _ hq)
            · have := hi.size; rw [he] at this; simp at this; simp; omega
            · exact hi.max
    · exact ⟨l, rfl, hi⟩

theorem listReset_inv (l : PktList) (hi : LInv l) : LInv (listReset l) := by
  unfold listReset
  constructor
  · intro p hp; cases hp
  · rfl
  · exact hi.max

theorem pktLoop_ok : ∀ (fuel : Nat) (s : St), LInv s.list → ∃ r, pktLoop fuel s = .ok r ∧ LInv r.1.list := by
  intro fuel
  induction fuel with
  | zero => intro s hi; exact ⟨_, rfl, hi⟩
  | succ fuel ih =>
    intro s hi
    unfold pktLoop
    split
    · -- the first packet is the one waited for
      rename_i hseq
      split
      · rename_i he
        unfold PktList.isFirstSequential at hseq
        rw [he] at hseq
        simp at hseq
      · rename_i opkt rest he
        have hok := hi.good opkt (by rw [he]; exact List.mem_cons_self)
        obtain ⟨body, hb, _, _⟩ := body_ok opkt hok
        rw [hb]
        dsimp only
        obtain ⟨r, hr⟩ := feedRtpBody_ok s.dm body opkt.hdr.timestamp
        rw [hr]
        obtain ⟨dm, o, e⟩ := r
        dsimp only
        have hl : LInv { s.list with items := rest, size := s.list.size - 1, doneFlag := true, doneSeq := opkt.hdr.seq } := by
          constructor
          · intro q hq; exact hi.good q (by rw [he]; exact List.mem_cons_of_mem _ hq)
          · have := hi.size; rw [he] at this; simp at this; simp; omega
          · exact hi.max
        have hl2 : LInv (if e then listReset { s.list with items := rest, size := s.list.size - 1, doneFlag := true, doneSeq := opkt.hdr.seq }
            else { s.list with items := rest, size := s.list.size - 1, doneFlag := true, doneSeq := opkt.hdr.seq }) := by
          split
          · exact listReset_inv _ hl
          · exact hl
        obtain ⟨r2, hr2, hi2⟩ := ih { list := if e then listReset { s.list with items := rest, size := s.list.size - 1, doneFlag := true, doneSeq := opkt.hdr.seq }
            else { s.list with items := rest, size := s.list.size - 1, doneFlag := true, doneSeq := opkt.hdr.seq }, dm := dm } hl2
        rw [hr2]
        exact ⟨_, rfl, hi2⟩
    · split
      · exact ⟨_, rfl, hi⟩
      · -- the list is full: drop
        rename_i hfull
        split
        · rename_i he
          -- Size = len = 0 cannot be >= maxSize > 0
          exfalso
          have h1 := hi.size; rw [he] at h1
          have h2 := hi.max
          simp [PktList.full] at hfull
          simp at h1
          omega
        · rename_i prev rest he
          have hl : LInv { s.list with items := rest, size := s.list.size - 1 } := by
            constructor
            · intro q hq; exact hi.good q (by rw [he]; exact List.mem_cons_of_mem _ hq)
            · have := hi.size; rw [he] at this; simp at this; simp; omega
            · exact hi.max
          obtain ⟨l', hd, hi'⟩ := dropLoop_ok (rest.length + 1) _ prev hl
          rw [hd]
          dsimp only
          exact ih _ hi'

/-- `PsUnpacker.FeedRtpPacket` : no panic, the list invariant is kept -/
theorem feedRtpPacket_ok (s : St) (b : Bytes) (hi : LInv s.list) : ∃ r, feedRtpPacket s b = .ok r ∧ LInv r.1.list := by
  unfold feedRtpPacket
  have hnp := parseRtpHeader_noPanic b
  split
  · rename_i site hs
    exfalso
    unfold parseRtpPacket at hs
    split at hs
    · cases hs
    · rename_i f hf; cases hs; exact hnp site hf
  · exact ⟨_, rfl, hi⟩
  · rename_i pkt hp
    obtain ⟨hh, _⟩ := RtspIn.parseRtpPacket_ok b pkt hp
    split
    · exact ⟨_, rfl, hi⟩
    · exact pktLoop_ok _ _ (insert_inv _ _ hh hi)

theorem feedAll_ok : ∀ (bs : List Bytes) (s : St), LInv s.list → ∃ r, feedAll s bs = .ok r := by
  intro bs
  induction bs with
  | nil => intro s _; exact ⟨_, rfl⟩
  | cons b rest ih =>
    intro s hi
    obtain ⟨r, hr, hi'⟩ := feedRtpPacket_ok s b hi
    obtain ⟨s', o⟩ := r
    obtain ⟨r2, hr2⟩ := ih s' hi'
    unfold feedAll
    rw [hr]; dsimp only; rw [hr2]
    exact ⟨_, rfl⟩

theorem init_inv (maxSize : Nat) (h : 0 < maxSize) : LInv (init maxSize).list := by
  constructor
  · intro p hp; cases hp
  · rfl
  · exact h


theorem bodyAll_ok : ∀ (items : List (Nat × Bytes)) (s : Dm), ∃ r, bodyAll s items = .ok r := by
  intro items
  induction items with
  | nil => intro s; exact ⟨_, rfl⟩
  | cons it rest ih =>
    intro s
    obtain ⟨ts, b⟩ := it
    obtain ⟨r, hr⟩ := feedRtpBody_ok s b ts
    obtain ⟨s', o, e⟩ := r
    obtain ⟨r2, hr2⟩ := ih s'
    unfold bodyAll
    rw [hr]; dsimp only; rw [hr2]
    exact ⟨_, rfl⟩

end Lal.Ps
