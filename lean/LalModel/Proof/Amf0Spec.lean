import LalModel.Proof.Amf0Rt
/- The specification decoder on the encoding of a tree; fuel bounds (helper lemmas for Props/C18.lean). -/
namespace Lal.Amf0
open Lal

mutual
theorem enc_cost : (v : Amf) → rcost v + 1 ≤ 2 * (enc v).length
  | .num bits => by simp [rcost, enc, writeNumber]; omega
  | .bool x => by simp [rcost, enc, writeBoolean]
  | .str s => by have := writeString_length s; simp only [rcost, enc]; split at this <;> omega
  | .null => by simp [rcost, enc]
  | .undef => by simp [rcost, enc]
  | .obj kvs => by have := encKvs_cost kvs; simp [rcost, enc]; omega
  | .ecma kvs => by have := encKvs_cost kvs; simp [rcost, enc]; omega
  | .strict vs => by have := encVs_cost vs; simp [rcost, enc]; omega
theorem encKvs_cost : (kvs : List (Bytes × Amf)) → kcost kvs ≤ 2 * (encKvs kvs).length + 1
  | [] => by simp [kcost, encKvs]
  | (k, v) :: r => by have := enc_cost v; have := encKvs_cost r; simp [kcost, encKvs]; omega
theorem encVs_cost : (vs : List Amf) → vcost vs ≤ 2 * (encVs vs).length + 1
  | [] => by simp [vcost, encVs]
  | v :: r => by have := enc_cost v; have := encVs_cost r; simp [vcost, encVs]; omega
end

end Lal.Amf0

namespace Lal.Amf0Spec
open Lal Lal.Amf0

theorem be16_nat (n : Nat) (h : n < 65536) : (b8 (n / 256)).toNat * 256 + (b8 n).toNat = n := by
  simp only [b8_toNat]; omega

theorem be32_nat (n : Nat) (h : n < 4294967296) :
    (((b8 (n / 16777216)).toNat * 256 + (b8 (n / 65536)).toNat) * 256 + (b8 (n / 256)).toNat) * 256 + (b8 n).toNat = n := by
  simp only [b8_toNat]; omega

mutual
theorem value_enc : (v : Amf) → wf v = true → ∀ (fuel : Nat) (rest : Bytes), rcost v ≤ fuel →
    value fuel (enc v ++ rest) = some (v, rest)
  | .num bits, hw, fuel, rest, hf => by
    simp only [wf, beq_iff_eq] at hw
    simp only [rcost] at hf
    obtain ⟨f, rfl⟩ : ∃ f, fuel = f + 1 := ⟨fuel - 1, by omega⟩
    simp only [enc, writeNumber, List.cons_append, value, if_true]
    rw [if_neg (by simp; omega)]
    simp [← hw]
  | .bool x, _, fuel, rest, hf => by
    simp only [rcost] at hf
    obtain ⟨f, rfl⟩ : ∃ f, fuel = f + 1 := ⟨fuel - 1, by omega⟩
    cases x <;> simp [enc, writeBoolean, value]
  | .str s, hw, fuel, rest, hf => by
    simp only [wf, decide_eq_true_eq] at hw
    simp only [rcost] at hf
    obtain ⟨f, rfl⟩ : ∃ f, fuel = f + 1 := ⟨fuel - 1, by omega⟩
    by_cases hs : s.length < 65536
    · have e := be16_nat s.length hs
      simp only [enc, writeString, hs, if_true, be16, List.cons_append, List.nil_append, value, e]
      simp
    · have e := be32_nat s.length hw
      simp only [enc, writeString, hs, if_false, be32, List.cons_append, List.nil_append, value, e]
      simp
  | .null, _, fuel, rest, hf => by
    simp only [rcost] at hf
    obtain ⟨f, rfl⟩ : ∃ f, fuel = f + 1 := ⟨fuel - 1, by omega⟩
    simp [enc, value]
  | .undef, _, fuel, rest, hf => by
    simp only [rcost] at hf
    obtain ⟨f, rfl⟩ : ∃ f, fuel = f + 1 := ⟨fuel - 1, by omega⟩
    simp [enc, value]
  | .obj kvs, hw, fuel, rest, hf => by
    simp only [wf] at hw
    simp only [rcost] at hf
    obtain ⟨f, rfl⟩ : ∃ f, fuel = f + 1 := ⟨fuel - 1, by omega⟩
    have hp := props_enc kvs hw f rest (by omega)
    simp only [enc, List.cons_append, List.nil_append, List.append_assoc, value, hp]
    simp
  | .ecma kvs, hw, fuel, rest, hf => by
    simp only [wf, Bool.and_eq_true, decide_eq_true_eq] at hw
    simp only [rcost] at hf
    obtain ⟨f, rfl⟩ : ∃ f, fuel = f + 1 := ⟨fuel - 1, by omega⟩
    have hp := props_enc kvs hw.2 f rest (by omega)
    have e := be32_nat kvs.length hw.1
    simp only [enc, be32, List.cons_append, List.nil_append, List.append_assoc, value, hp, e]
    simp
  | .strict vs, hw, fuel, rest, hf => by
    simp only [wf, Bool.and_eq_true, decide_eq_true_eq] at hw
    simp only [rcost] at hf
    obtain ⟨f, rfl⟩ : ∃ f, fuel = f + 1 := ⟨fuel - 1, by omega⟩
    have hp := elems_enc vs hw.2 f rest (by omega)
    have e := be32_nat vs.length hw.1
    simp only [enc, be32, List.cons_append, List.nil_append, value, hp, e]
    simp

theorem props_enc : (kvs : List (Bytes × Amf)) → wfKvs kvs = true → ∀ (fuel : Nat) (rest : Bytes), kcost kvs ≤ fuel →
    props fuel (encKvs kvs ++ 0 :: 0 :: 9 :: rest) = some (kvs, rest)
  | [], _, fuel, rest, hf => by
    simp only [kcost] at hf
    obtain ⟨f, rfl⟩ : ∃ f, fuel = f + 1 := ⟨fuel - 1, by omega⟩
    simp [encKvs, props]
  | (k, v) :: r, hw, fuel, rest, hf => by
    obtain ⟨hk, hv, hr⟩ := wfKvs_cons hw
    simp only [kcost] at hf
    obtain ⟨f, rfl⟩ : ∃ f, fuel = f + 1 := ⟨fuel - 1, by omega⟩
    have hv' := value_enc v hv f (encKvs r ++ 0 :: 0 :: 9 :: rest) (by omega)
    have hr' := props_enc r hr f rest (by omega)
    have e := be16_nat k.length hk
    simp only [encKvs, be16, List.cons_append, List.nil_append, List.append_assoc, props, e]
    have hne : ¬ (k.length = 0 ∧ (k ++ (enc v ++ (encKvs r ++ 0 :: 0 :: 9 :: rest))).head? = some 9) := by
      intro ⟨h0, h9⟩
      have : k = [] := List.eq_nil_of_length_eq_zero h0
      subst this
      obtain ⟨m, t, hm, hne⟩ := enc_head v
      rw [hm] at h9
      simp at h9
      exact hne h9
    rw [if_neg hne, if_neg (by simp)]
    simp only [List.drop_left, List.take_left, hv', hr']

theorem elems_enc : (vs : List Amf) → wfVs vs = true → ∀ (fuel : Nat) (rest : Bytes), vcost vs ≤ fuel →
    elems fuel vs.length (encVs vs ++ rest) = some (vs, rest)
  | [], _, fuel, rest, hf => by
    simp only [vcost] at hf
    obtain ⟨f, rfl⟩ : ∃ f, fuel = f + 1 := ⟨fuel - 1, by omega⟩
    simp [encVs, elems]
  | v :: r, hw, fuel, rest, hf => by
    obtain ⟨hv, hr⟩ := wfVs_cons hw
    simp only [vcost] at hf
    obtain ⟨f, rfl⟩ : ∃ f, fuel = f + 1 := ⟨fuel - 1, by omega⟩
    have hv' := value_enc v hv f (encVs r ++ rest) (by omega)
    have hr' := elems_enc r hr f rest (by omega)
    simp only [encVs, List.length_cons, List.append_assoc, elems, hv', hr']
end

theorem decode_enc (v : Amf) (rest : Bytes) (hw : wf v = true) :
    decode (enc v ++ rest) = some (v, (enc v).length) := by
  have hc := enc_cost v
  unfold decode
  rw [value_enc v hw _ rest (by simp only [List.length_append]; omega)]
  simp

end Lal.Amf0Spec
