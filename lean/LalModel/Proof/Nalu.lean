import LalModel.Model.Nalu
import LalModel.Proof.Bytes
import LalModel.Spec.AnnexB
import LalModel.Spec.ConfigRecord
namespace Lal.Nalu
open Lal

/-- no `00 00 00` and no `00 00 01` anywhere in the unit -/
def noStartCode : Bytes → Bool
  | [] => true
  | x :: rest =>
    (match x, rest with
     | 0, 0 :: y :: _ => !(y == 0 || y == 1)
     | _, _ => true) && noStartCode rest

/-- What emulation prevention (H.264 §7.4.1) guarantees of a NAL unit: non-empty, no start-code
    pattern inside, last byte non-zero. -/
def NalWF (n : Bytes) : Prop := n ≠ [] ∧ noStartCode n = true ∧ n.getLast? ≠ some 0

instance (n : Bytes) : Decidable (NalWF n) := by unfold NalWF; infer_instance

def zeros (k : Nat) : Bytes := List.replicate k 0

/-- units joined with `k` zero bytes + `01` each (k = 2: 3-byte start code, k = 3: 4-byte, more: trailing zeros) -/
def joinAnnexb (items : List (Nat × Bytes)) : Bytes := items.flatMap fun it => zeros it.1 ++ 1 :: it.2

theorem noStartCode_tail (x : UInt8) (l : Bytes) (h : noStartCode (x :: l) = true) : noStartCode l = true := by
  simp only [noStartCode, Bool.and_eq_true] at h
  exact h.2

theorem zeros_succ (k : Nat) : zeros (k + 1) = 0 :: zeros k := rfl

theorem zeros_succ' (k : Nat) : zeros (k + 1) = zeros k ++ [0] := by
  simp [zeros, List.replicate_succ']

/-- scanning across `k` zero bytes and the `01` -/
theorem scan_zeros_one (k : Nat) (rest : Bytes) (i c : Nat) (h : c + k ≥ 2) :
    scan (zeros k ++ 1 :: rest) i c = some (i + k - (c + k), c + k + 1) := by
  induction k generalizing i c with
  | zero =>
    have hc : c ≥ 2 := by omega
    simp [zeros, scan, hc]
  | succ k ih =>
    rw [zeros_succ]
    simp only [List.cons_append, scan, if_true]
    rw [ih (i + 1) (c + 1) (by omega)]
    congr 2 <;> omega

/-- with `c ≤ 2` zero bytes before it, a byte string without start codes is scanned to its end -/
theorem scan_body (n : Bytes) : ∀ (tail : Bytes) (i c : Nat), c ≤ 2 → noStartCode (zeros c ++ n) = true →
    n ≠ [] → n.getLast? ≠ some 0 → scan (n ++ tail) i c = scan tail (i + n.length) 0 := by
  induction n with
  | nil => intro _ _ _ _ _ h; exact absurd rfl h
  | cons x rest ih =>
    intro tail i c hc hns _ hlast
    simp only [List.cons_append, scan]
    by_cases hx0 : x = 0
    · subst hx0
      simp only [if_true]
      have hrest : rest ≠ [] := by
        intro h; subst h; simp at hlast
      have hc1 : c ≤ 1 := by
        by_cases h2 : c = 2
        · subst h2
          cases rest with
          | nil => exact absurd rfl hrest
          | cons y ys => simp [zeros, noStartCode] at hns
        · omega
      have hl : rest.getLast? ≠ some 0 := by
        cases rest with
        | nil => exact absurd rfl hrest
        | cons y ys => simpa [List.getLast?_cons_cons] using hlast
      have hns' : noStartCode (zeros (c + 1) ++ rest) = true := by
        rw [zeros_succ']; simpa using hns
      rw [ih tail (i + 1) (c + 1) (by omega) hns' hrest hl]
      congr 1; simp; omega
    · simp only [hx0, if_false]
      have hnsr : noStartCode rest = true := by
        have : ∀ c, noStartCode (zeros c ++ x :: rest) = true → noStartCode rest = true := by
          intro c
          induction c with
          | zero => intro h; exact noStartCode_tail x rest (by simpa [zeros] using h)
          | succ c ihc => intro h; rw [zeros_succ] at h; exact ihc (noStartCode_tail _ _ h)
        exact this c hns
      have hx1c : ¬ (x = 1 ∧ c ≥ 2) := by
        intro ⟨h1, h2⟩
        have hc2 : c = 2 := by omega
        subst hc2; subst h1
        simp [zeros, noStartCode] at hns
      have step : (if x = 1 then (if c ≥ 2 then some (i - c, c + 1) else scan (rest ++ tail) (i + 1) 0)
                   else scan (rest ++ tail) (i + 1) 0) = scan (rest ++ tail) (i + 1) 0 := by
        by_cases h1 : x = 1
        · have : ¬ c ≥ 2 := fun h => hx1c ⟨h1, h⟩
          simp [h1, this]
        · simp [h1]
      rw [step]
      by_cases hr : rest = []
      · subst hr; simp
      · have hl : rest.getLast? ≠ some 0 := by
          cases rest with
          | nil => exact absurd rfl hr
          | cons y ys => simpa [List.getLast?_cons_cons] using hlast
        rw [ih tail (i + 1) 0 (by omega) (by simpa [zeros] using hnsr) hr hl]
        congr 1; simp; omega

/-- …and to the end of the input when nothing follows -/
theorem scan_none (n : Bytes) : ∀ (i c : Nat), c ≤ 2 → noStartCode (zeros c ++ n) = true → scan n i c = none := by
  induction n with
  | nil => intro _ _ _ _; rfl
  | cons x rest ih =>
    intro i c hc hns
    simp only [scan]
    by_cases hx0 : x = 0
    · subst hx0
      simp only [if_true]
      by_cases hr : rest = []
      · subst hr; rfl
      · have hc1 : c ≤ 1 := by
          by_cases h2 : c = 2
          · subst h2
            cases rest with
            | nil => exact absurd rfl hr
            | cons y ys => simp [zeros, noStartCode] at hns
          · omega
        exact ih (i + 1) (c + 1) (by omega) (by rw [zeros_succ']; simpa using hns)
    · simp only [hx0, if_false]
      have hnsr : noStartCode rest = true := by
        have : ∀ c, noStartCode (zeros c ++ x :: rest) = true → noStartCode rest = true := by
          intro c
          induction c with
          | zero => intro h; exact noStartCode_tail x rest (by simpa [zeros] using h)
          | succ c ihc => intro h; rw [zeros_succ] at h; exact ihc (noStartCode_tail _ _ h)
        exact this c hns
      have hx1c : ¬ (x = 1 ∧ c ≥ 2) := by
        intro ⟨h1, h2⟩
        have hc2 : c = 2 := by omega
        subst hc2; subst h1
        simp [zeros, noStartCode] at hns
      by_cases h1 : x = 1
      · have : ¬ c ≥ 2 := fun h => hx1c ⟨h1, h⟩
        simp only [h1, if_true, this, if_false]
        exact ih (i + 1) 0 (by omega) (by simpa [zeros] using hnsr)
      · simp only [h1, if_false]
        exact ih (i + 1) 0 (by omega) (by simpa [zeros] using hnsr)

theorem zeros_length (k : Nat) : (zeros k).length = k := by simp [zeros]

/-- the loop of `IterateNaluAnnexb` positioned at the first byte of a unit -/
theorem annexbLoop_join (n : Bytes) (hn : NalWF n) :
    ∀ (items : List (Nat × Bytes)), (∀ it ∈ items, it.1 ≥ 2 ∧ NalWF it.2) →
    ∀ fuel, fuel ≥ items.length + 1 →
    annexbLoop fuel (n ++ joinAnnexb items) = (n :: items.map (·.2), false) := by
  intro items
  induction items generalizing n with
  | nil =>
    intro _ fuel hf
    obtain ⟨f, rfl⟩ : ∃ f, fuel = f + 1 := ⟨fuel - 1, by omega⟩
    have hne : (n ++ joinAnnexb []).isEmpty = false := by
      cases n with
      | nil => exact absurd rfl hn.1
      | cons x xs => rfl
    simp only [annexbLoop, hne, Bool.false_eq_true, if_false]
    have : scan (n ++ joinAnnexb []) 0 0 = none := by
      simp only [joinAnnexb, List.flatMap_nil, List.append_nil]
      exact scan_none n 0 0 (by omega) (by simpa [zeros] using hn.2.1)
    rw [this]
    simp [joinAnnexb]
  | cons it rest ih =>
    intro hall fuel hf
    obtain ⟨f, rfl⟩ : ∃ f, fuel = f + 1 := ⟨fuel - 1, by omega⟩
    obtain ⟨k, m⟩ := it
    have hk := (hall (k, m) (by simp)).1
    have hm := (hall (k, m) (by simp)).2
    simp only at hk hm
    have hrest : ∀ it ∈ rest, it.1 ≥ 2 ∧ NalWF it.2 := fun it h => hall it (by simp [h])
    have hne : (n ++ joinAnnexb ((k, m) :: rest)).isEmpty = false := by
      cases n with
      | nil => exact absurd rfl hn.1
      | cons x xs => rfl
    have ej : joinAnnexb ((k, m) :: rest) = zeros k ++ 1 :: (m ++ joinAnnexb rest) := by
      simp [joinAnnexb]
    have hs : scan (n ++ joinAnnexb ((k, m) :: rest)) 0 0 = some (n.length, k + 1) := by
      rw [ej, scan_body n _ 0 0 (by omega) (by simpa [zeros] using hn.2.1) hn.1 hn.2.2,
          scan_zeros_one k _ _ 0 (by omega)]
      congr 2 <;> omega
    simp only [annexbLoop, hne, Bool.false_eq_true, if_false, hs]
    have hpos : 0 < n.length := by
      cases n with
      | nil => exact absurd rfl hn.1
      | cons x xs => simp
    simp only [hpos, if_true]
    have hd : (n ++ joinAnnexb ((k, m) :: rest)).drop (n.length + (k + 1)) = m ++ joinAnnexb rest := by
      rw [ej, ← List.drop_drop, List.drop_left]
      rw [show zeros k ++ 1 :: (m ++ joinAnnexb rest) = (zeros k ++ [1]) ++ (m ++ joinAnnexb rest) by simp]
      rw [List.drop_left' (by simp [zeros_length])]
    have ht : (n ++ joinAnnexb ((k, m) :: rest)).take n.length = n := by simp
    rw [hd, ht, ih m hm hrest f (by simp at hf; omega)]
    simp

/-- `SplitNaluAnnexb` of units joined by start codes of any lengths ≥ 3 (trailing zero bytes before the
    next start code are swallowed by it) returns exactly the units, without error. -/
theorem splitNaluAnnexb_join (items : List (Nat × Bytes)) (hne : items ≠ [])
    (hall : ∀ it ∈ items, it.1 ≥ 2 ∧ NalWF it.2) :
    splitNaluAnnexb (joinAnnexb items) = (items.map (·.2), false) := by
  cases items with
  | nil => exact absurd rfl hne
  | cons it rest =>
    obtain ⟨k, n⟩ := it
    have hk := (hall (k, n) (by simp)).1
    have hn := (hall (k, n) (by simp)).2
    simp only at hk hn
    have ej : joinAnnexb ((k, n) :: rest) = zeros k ++ 1 :: (n ++ joinAnnexb rest) := by
      simp [joinAnnexb]
    have hempty : (joinAnnexb ((k, n) :: rest)).isEmpty = false := by
      rw [ej]; cases k <;> rfl
    have hs : scan (joinAnnexb ((k, n) :: rest)) 0 0 = some (0, k + 1) := by
      rw [ej, scan_zeros_one k _ 0 0 (by omega)]
      congr 2 <;> omega
    have hd : (joinAnnexb ((k, n) :: rest)).drop (0 + (k + 1)) = n ++ joinAnnexb rest := by
      rw [ej, show zeros k ++ 1 :: (n ++ joinAnnexb rest) = (zeros k ++ [1]) ++ (n ++ joinAnnexb rest) by simp]
      rw [List.drop_left' (by simp [zeros_length])]
    simp only [splitNaluAnnexb, iterateNaluAnnexb, hempty, Bool.false_eq_true, if_false, hs, hd]
    have hlen : (joinAnnexb ((k, n) :: rest)).length ≥ rest.length + 1 := by
      rw [ej]
      have : ∀ (l : List (Nat × Bytes)), (joinAnnexb l).length ≥ l.length := by
        intro l
        induction l with
        | nil => simp
        | cons a as iha => simp [joinAnnexb] at iha ⊢; omega
      have := this rest
      simp; omega
    rw [annexbLoop_join n hn rest (fun it h => hall it (by simp [h])) _ hlen]
    simp

/- ------------------------------- AVCC ------------------------------- -/

theorem joinNaluAvcc_cons (n : Bytes) (rest : List Bytes) :
    joinNaluAvcc (n :: rest) = be32 n.length ++ n ++ joinNaluAvcc rest := by
  simp [joinNaluAvcc]

theorem joinNaluAvcc_length_ge (l : List Bytes) : (joinNaluAvcc l).length ≥ l.length := by
  induction l with
  | nil => simp [joinNaluAvcc]
  | cons a as ih => rw [joinNaluAvcc_cons]; simp; omega

theorem avccLoop_join (nals : List Bytes) (hne : nals ≠ [])
    (hall : ∀ n ∈ nals, n ≠ [] ∧ n.length < 4294967296) :
    ∀ fuel, fuel ≥ nals.length → avccLoop fuel (joinNaluAvcc nals) = (nals, false) := by
  induction nals with
  | nil => exact absurd rfl hne
  | cons n rest ih =>
    intro fuel hf
    obtain ⟨f, rfl⟩ : ∃ f, fuel = f + 1 := ⟨fuel - 1, by simp at hf; omega⟩
    have hn := hall n (by simp)
    have h32 : rd32 (b8 (n.length / 16777216)) (b8 (n.length / 65536)) (b8 (n.length / 256)) (b8 n.length) = n.length :=
      rd32_be32 _ hn.2
    have hnpos : 0 < n.length := by
      cases n with
      | nil => exact absurd rfl hn.1
      | cons x xs => simp
    rw [joinNaluAvcc_cons]
    simp only [be32, List.cons_append, List.nil_append, avccLoop, h32]
    have hs' : (n ++ joinNaluAvcc rest).isEmpty = false := by
      cases n with
      | nil => exact absurd rfl hn.1
      | cons x xs => rfl
    simp only [hs', Bool.false_eq_true, if_false, List.length_append]
    by_cases hr : rest = []
    · subst hr
      simp [joinNaluAvcc]
    · have hrl : 0 < (joinNaluAvcc rest).length := by
        have := joinNaluAvcc_length_ge rest
        cases rest with
        | nil => exact absurd rfl hr
        | cons a as => simp at this; omega
      have c1 : n.length < n.length + (joinNaluAvcc rest).length := by omega
      have c2 : ¬ n.length = 0 := by omega
      simp only [c1, if_true, c2, if_false, List.take_left', List.drop_left']
      rw [ih hr (fun m h => hall m (by simp [h])) f (by simp at hf; omega)]

/-- `SplitNaluAvcc (JoinNaluAvcc nals) = nals` -/
theorem splitNaluAvcc_join (nals : List Bytes) (hne : nals ≠ [])
    (hall : ∀ n ∈ nals, n ≠ [] ∧ n.length < 4294967296) :
    splitNaluAvcc (joinNaluAvcc nals) = (nals, false) := by
  have hl := joinNaluAvcc_length_ge nals
  have hempty : (joinNaluAvcc nals).isEmpty = false := by
    cases nals with
    | nil => exact absurd rfl hne
    | cons a as => rw [joinNaluAvcc_cons]; simp [be32]
  simp only [splitNaluAvcc, iterateNaluAvcc, hempty, Bool.false_eq_true, if_false]
  exact avccLoop_join nals hne hall _ hl

/-- AVCC → Annex B: every unit gets a 4-byte start code -/
theorem avcc2Annexb_join (nals : List Bytes) (hne : nals ≠ [])
    (hall : ∀ n ∈ nals, n ≠ [] ∧ n.length < 4294967296) :
    avcc2Annexb (joinNaluAvcc nals) = (joinAnnexb (nals.map fun n => (3, n)), false) := by
  have h := splitNaluAvcc_join nals hne hall
  simp only [splitNaluAvcc] at h
  simp only [avcc2Annexb, h]
  congr 1
  simp [joinAnnexb, List.flatMap_map, startCode4, zeros, List.replicate]

/-- Annex B → AVCC -/
theorem annexb2Avcc_join (items : List (Nat × Bytes)) (hne : items ≠ [])
    (hall : ∀ it ∈ items, it.1 ≥ 2 ∧ NalWF it.2) :
    annexb2Avcc (joinAnnexb items) = (joinNaluAvcc (items.map (·.2)), false) := by
  have h := splitNaluAnnexb_join items hne hall
  simp only [splitNaluAnnexb] at h
  simp only [annexb2Avcc, h]

end Lal.Nalu

/- ------------------------------- the Annex B reader of Spec/AnnexB.lean on the same streams ------------------------------- -/
namespace Lal.AnnexB
open Lal Lal.Nalu

theorem skipStart_zeros_one (k : Nat) (rest : Bytes) (z : Nat) (h : z + k ≥ 2) :
    skipStart (zeros k ++ 1 :: rest) z = some (some rest) := by
  induction k generalizing z with
  | zero =>
    have hz : z ≥ 2 := by omega
    simp [zeros, skipStart, hz]
  | succ k ih =>
    rw [zeros_succ]
    simp only [List.cons_append, skipStart, if_true]
    exact ih (z + 1) (by omega)

/-- does the byte string start with `00 00 00` or `00 00 01` -/
def startsSC : Bytes → Bool
  | 0 :: 0 :: y :: _ => y == 0 || y == 1
  | _ => false

theorem takeNal_cons (x : UInt8) (l : Bytes) (h : startsSC (x :: l) = false) :
    takeNal (x :: l) = ((x :: (takeNal l).1), (takeNal l).2) := by
  generalize hr : takeNal l = r
  unfold takeNal
  split
  · next heq => cases heq
  · next rest heq =>
    injection heq with h1 h2; subst h1; subst h2
    simp [startsSC] at h
  · next rest heq =>
    injection heq with h1 h2; subst h1; subst h2
    simp [startsSC] at h
  · next y rest h1 h2 heq =>
    injection heq with e1 e2; subst e1; subst e2
    rw [hr]

theorem takeNal_stop (l : Bytes) (h : startsSC l = true) : takeNal l = ([], l) := by
  unfold startsSC at h
  split at h
  · next y rest =>
    simp only [Bool.or_eq_true, beq_iff_eq] at h
    rcases h with h | h <;> subst h <;> rfl
  · cases h

/-- a well-formed unit followed by a start code (or nothing) is taken whole -/
theorem takeNal_body (n : Bytes) : ∀ (tail : Bytes), noStartCode n = true → n ≠ [] → n.getLast? ≠ some 0 →
    (tail = [] ∨ startsSC tail = true) → takeNal (n ++ tail) = (n, tail) := by
  induction n with
  | nil => intro _ _ h; exact absurd rfl h
  | cons x rest ih =>
    intro tail hns _ hlast htail
    have hnsr := noStartCode_tail x rest hns
    -- the first three bytes of x :: rest ++ tail are no start code
    have hsc : startsSC (x :: (rest ++ tail)) = false := by
      by_cases hx : x = 0
      · subst hx
        cases rest with
        | nil => simp at hlast
        | cons y ys =>
          by_cases hy : y = 0
          · subst hy
            cases ys with
            | nil => simp at hlast
            | cons w ws =>
              simp only [noStartCode, Bool.and_eq_true, Bool.not_eq_true', Bool.or_eq_false_iff, beq_eq_false_iff_ne] at hns
              simp only [List.cons_append, startsSC, Bool.or_eq_false_iff, beq_eq_false_iff_ne]
              exact hns.1
          · cases ys <;> cases tail <;> simp [startsSC, hy]
      · cases h : rest ++ tail with
        | nil => simp [startsSC]
        | cons y ys => cases ys <;> simp [startsSC, hx]
    rw [List.cons_append, takeNal_cons x _ hsc]
    by_cases hr : rest = []
    · subst hr
      simp only [List.nil_append]
      rcases htail with h | h
      · subst h; rfl
      · rw [takeNal_stop tail h]
    · have hl : rest.getLast? ≠ some 0 := by
        cases rest with
        | nil => exact absurd rfl hr
        | cons y ys => simpa [List.getLast?_cons_cons] using hlast
      rw [ih tail hnsr hr hl htail]

theorem startsSC_zeros_one (k : Nat) (rest : Bytes) (hk : k ≥ 2) : startsSC (zeros k ++ 1 :: rest) = true := by
  obtain ⟨j, rfl⟩ : ∃ j, k = j + 2 := ⟨k - 2, by omega⟩
  cases j with
  | zero => rfl
  | succ j => rfl

theorem units_join (items : List (Nat × Bytes)) (hall : ∀ it ∈ items, it.1 ≥ 2 ∧ NalWF it.2) :
    ∀ fuel, fuel ≥ items.length + 1 → units fuel (joinAnnexb items) = some (items.map (·.2)) := by
  induction items with
  | nil =>
    intro fuel hf
    obtain ⟨f, rfl⟩ : ∃ f, fuel = f + 1 := ⟨fuel - 1, by omega⟩
    rfl
  | cons it rest ih =>
    intro fuel hf
    obtain ⟨f, rfl⟩ : ∃ f, fuel = f + 1 := ⟨fuel - 1, by omega⟩
    obtain ⟨k, n⟩ := it
    obtain ⟨hk, hn⟩ := hall (k, n) (by simp)
    simp only at hk hn
    have hrest : ∀ it ∈ rest, it.1 ≥ 2 ∧ NalWF it.2 := fun it h => hall it (by simp [h])
    have ej : joinAnnexb ((k, n) :: rest) = zeros k ++ 1 :: (n ++ joinAnnexb rest) := by simp [joinAnnexb]
    have htail : joinAnnexb rest = [] ∨ startsSC (joinAnnexb rest) = true := by
      cases rest with
      | nil => left; rfl
      | cons it2 rest2 =>
        right
        obtain ⟨k2, n2⟩ := it2
        have := (hrest (k2, n2) (by simp)).1
        have e2 : joinAnnexb ((k2, n2) :: rest2) = zeros k2 ++ 1 :: (n2 ++ joinAnnexb rest2) := by simp [joinAnnexb]
        rw [e2]; exact startsSC_zeros_one k2 _ this
    rw [ej]
    simp only [units, skipStart_zeros_one k _ 0 (by omega), takeNal_body n _ hn.2.1 hn.1 hn.2.2 htail]
    have hne : n.isEmpty = false := by
      cases n with
      | nil => exact absurd rfl hn.1
      | cons x xs => rfl
    simp only [hne, Bool.false_eq_true, if_false, ih hrest f (by simp at hf; omega)]
    simp

/-- the specification's byte-stream reader returns exactly the units lal's conversions are proved to carry -/
theorem read_join (items : List (Nat × Bytes)) (hall : ∀ it ∈ items, it.1 ≥ 2 ∧ NalWF it.2) :
    read (joinAnnexb items) = some (items.map (·.2)) := by
  have hlen : (joinAnnexb items).length ≥ items.length := by
    induction items with
    | nil => simp
    | cons a as iha =>
      have := iha (fun it h => hall it (by simp [h]))
      simp [joinAnnexb] at this ⊢; omega
  exact units_join items hall _ (by simp only [ge_iff_le]; omega)

end Lal.AnnexB

namespace Lal.ConfigRecord
open Lal Lal.Nalu

theorem lengthPrefixed_join (nals : List Bytes) (hall : ∀ n ∈ nals, n.length < 4294967296) :
    ∀ fuel, fuel ≥ nals.length → lengthPrefixed fuel (joinNaluAvcc nals) = some nals := by
  induction nals with
  | nil => intro fuel _; cases fuel <;> rfl
  | cons n rest ih =>
    intro fuel hf
    obtain ⟨f, rfl⟩ : ∃ f, fuel = f + 1 := ⟨fuel - 1, by simp at hf; omega⟩
    have h32 : rd32 (b8 (n.length / 16777216)) (b8 (n.length / 65536)) (b8 (n.length / 256)) (b8 n.length) = n.length :=
      rd32_be32 _ (hall n (by simp))
    rw [joinNaluAvcc_cons]
    simp only [be32, List.cons_append, List.nil_append, List.append_assoc, lengthPrefixed, h32]
    have c : ¬ ((n ++ joinNaluAvcc rest).length < n.length) := by simp
    simp only [c, if_false, List.take_left', List.drop_left']
    rw [ih (fun m h => hall m (by simp [h])) f (by simp at hf; omega)]
    rfl

/-- the ISO/IEC 14496-15 length-prefixed sample reader on what lal's join / Annexb2Avcc produce -/
theorem readLengthPrefixed_join (nals : List Bytes) (hall : ∀ n ∈ nals, n.length < 4294967296) :
    readLengthPrefixed (joinNaluAvcc nals) = some nals :=
  lengthPrefixed_join nals hall _ (joinNaluAvcc_length_ge nals)

end Lal.ConfigRecord
