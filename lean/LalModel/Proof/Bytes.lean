import LalModel.Model.Bytes
namespace Lal

@[simp] theorem b8_toNat (n : Nat) : (b8 n).toNat = n % 256 := by simp [b8]

theorem b8_of_toNat (x : UInt8) : b8 x.toNat = x := by
  have h : x.toNat < 256 := x.toNat_lt
  simp [b8, Nat.mod_eq_of_lt h]

theorem rd16_be16 (n : Nat) (h : n < 65536) : rd16 (b8 (n/256)) (b8 n) = n := by
  simp only [rd16, b8_toNat]; omega
theorem rd24_be24 (n : Nat) (h : n < 16777216) : rd24 (b8 (n/65536)) (b8 (n/256)) (b8 n) = n := by
  simp only [rd24, b8_toNat]; omega
theorem rd24_mod (n : Nat) : rd24 (b8 (n/65536)) (b8 (n/256)) (b8 n) = n % 16777216 := by
  simp only [rd24, b8_toNat]; omega
theorem rd32_be32 (n : Nat) (h : n < 4294967296) :
    rd32 (b8 (n/16777216)) (b8 (n/65536)) (b8 (n/256)) (b8 n) = n := by
  simp only [rd32, b8_toNat]; omega
theorem rd64_be64 (n : Nat) (h : n < 18446744073709551616) :
    rd64 (b8 (n / 72057594037927936)) (b8 (n / 281474976710656)) (b8 (n / 1099511627776)) (b8 (n / 4294967296))
      (b8 (n / 16777216)) (b8 (n / 65536)) (b8 (n / 256)) (b8 n) = n := by
  simp only [rd64, b8_toNat]; omega

@[simp] theorem be16_length (n : Nat) : (be16 n).length = 2 := rfl
@[simp] theorem be24_length (n : Nat) : (be24 n).length = 3 := rfl
@[simp] theorem be32_length (n : Nat) : (be32 n).length = 4 := rfl
@[simp] theorem be64_length (n : Nat) : (be64 n).length = 8 := rfl

end Lal
