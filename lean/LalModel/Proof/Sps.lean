import LalModel.Model.Sps
import LalModel.Spec.SpsEnc
import LalModel.Proof.Bits
import LalModel.Proof.Bytes
namespace Lal.Sps
open Lal Lal.Bits Lal.SpsEnc

/- ---------- emulation prevention: `nal2rbsp` undoes §7.4.1 `escape` ---------- -/

theorem nal2rbsp_escape (x : Bytes) : ∀ z, nal2rbsp (escape x z) z = x := by
  induction x with
  | nil => intro z; rfl
  | cons b rest ih =>
    intro z
    simp only [escape]
    by_cases h : z ≥ 2 ∧ b.toNat ≤ 3
    · simp only [h, and_self, if_true]
      have h3 : (3 : UInt8) = 3 := rfl
      simp only [nal2rbsp, h.1, true_and, if_true]
      have hz : ¬ ((0 : Nat) ≥ 2 ∧ b = 3) := by omega
      simp only [hz, if_false]
      rw [ih]
    · simp only [h, if_false]
      have h' : ¬ (z ≥ 2 ∧ b = 3) := by
        intro ⟨hz, hb⟩
        apply h
        refine ⟨hz, ?_⟩
        subst hb; decide
      simp only [nal2rbsp, h', if_false]
      rw [ih]

/- ---------- bytes ↔ bits ---------- -/

theorem byteBits_b8_bitsVal (b0 b1 b2 b3 b4 b5 b6 b7 : Bool) :
    byteBits (b8 (bitsVal [b0, b1, b2, b3, b4, b5, b6, b7])) = [b0, b1, b2, b3, b4, b5, b6, b7] := by
  cases b0 <;> cases b1 <;> cases b2 <;> cases b3 <;> cases b4 <;> cases b5 <;> cases b6 <;> cases b7 <;> rfl

/-- the bits of the packed bytes are the bits written, zero-padded to a byte boundary -/
theorem bitsOf_packBits (l : List Bool) : ∃ pad, bitsOf (packBits l) = l ++ pad := by
  induction l using packBits.induct with
  | case1 => exact ⟨[], rfl⟩
  | case2 b0 b1 b2 b3 b4 b5 b6 b7 rest ih =>
    obtain ⟨pad, hp⟩ := ih
    refine ⟨pad, ?_⟩
    simp only [packBits, bitsOf, byteBits_b8_bitsVal, hp, List.cons_append, List.nil_append]
  | case3 l h1 h2 =>
    refine ⟨List.replicate (8 - l.length) false, ?_⟩
    match l, h1, h2 with
    | [], h1, _ => exact absurd rfl h1
    | [a], _, _ =>
      show byteBits (b8 (bitsVal [a, false, false, false, false, false, false, false])) ++ [] = _
      rw [byteBits_b8_bitsVal]; rfl
    | [a, b], _, _ =>
      show byteBits (b8 (bitsVal [a, b, false, false, false, false, false, false])) ++ [] = _
      rw [byteBits_b8_bitsVal]; rfl
    | [a, b, c], _, _ =>
      show byteBits (b8 (bitsVal [a, b, c, false, false, false, false, false])) ++ [] = _
      rw [byteBits_b8_bitsVal]; rfl
    | [a, b, c, d], _, _ =>
      show byteBits (b8 (bitsVal [a, b, c, d, false, false, false, false])) ++ [] = _
      rw [byteBits_b8_bitsVal]; rfl
    | [a, b, c, d, e], _, _ =>
      show byteBits (b8 (bitsVal [a, b, c, d, e, false, false, false])) ++ [] = _
      rw [byteBits_b8_bitsVal]; rfl
    | [a, b, c, d, e, f], _, _ =>
      show byteBits (b8 (bitsVal [a, b, c, d, e, f, false, false])) ++ [] = _
      rw [byteBits_b8_bitsVal]; rfl
    | [a, b, c, d, e, f, g], _, _ =>
      show byteBits (b8 (bitsVal [a, b, c, d, e, f, g, false])) ++ [] = _
      rw [byteBits_b8_bitsVal]; rfl
    | a :: b :: c :: d :: e :: f :: g :: h :: rest, _, h2 => exact absurd rfl (h2 a b c d e f g h rest)

/- ---------- stepping the parser monad ---------- -/

/-- parser state with a healthy reader -/
def mk (s : Sps) (bits : List Bool) : St := { sps := s, br := { bits := bits, err := false } }

@[simp] theorem bind_apply {α β} (m : PM α) (f : α → PM β) (st : St) :
    (m >>= f) st = match m st with
      | .ok (some a, st') => f a st'
      | .ok (none, st') => .ok (none, st')
      | .error e => .error e := rfl

@[simp] theorem pure_apply {α} (a : α) (st : St) : (pure a : PM α) st = .ok (some a, st) := rfl
@[simp] theorem set_apply (f : Sps → Sps) (s : Sps) (bits : List Bool) : set f (mk s bits) = .ok (some (), mk (f s) bits) := rfl
@[simp] theorem getSps_apply (s : Sps) (bits : List Bool) : getSps (mk s bits) = .ok (some s, mk s bits) := rfl
@[simp] theorem errCheck_apply (s : Sps) (bits : List Bool) : errCheck (mk s bits) = .ok (some (), mk s bits) := rfl

theorem ueBits_append_ne_nil (v : Nat) (r : List Bool) : ueBits v ++ r ≠ [] := by
  simp [ueBits]

theorem rd_readUe (s : Sps) (v : Nat) (rest : List Bool) (hv : v < 4294967295) (hr : rest ≠ []) :
    rd readUe (mk s (ueBits v ++ rest)) = .ok (some v, mk s rest) := by
  simp only [rd, mk, readUe_ueBits v rest hv (Or.inr hr)]

theorem rdIgn_readUe (s : Sps) (v : Nat) (rest : List Bool) (hv : v < 4294967295) (hr : rest ≠ []) :
    rdIgn 0 readUe (mk s (ueBits v ++ rest)) = .ok (some v, mk s rest) := by
  simp only [rdIgn, mk, readUe_ueBits v rest hv (Or.inr hr)]

theorem rd_readSe (s : Sps) (x : Int) (rest : List Bool) (hx : -1073741823 ≤ x ∧ x ≤ 1073741823) (hr : rest ≠ []) :
    rd readSe (mk s (seBits x ++ rest)) = .ok (some x, mk s rest) := by
  simp only [rd, mk, readSe_seBits x rest hx (Or.inr hr)]

theorem rd_readBits (s : Sps) (w v : Nat) (rest : List Bool) (hw : w ≠ 0) :
    rd (readBits w) (mk s (natBits w v ++ rest)) = .ok (some (v % 2 ^ w), mk s rest) := by
  simp only [rd, mk, readBits_natBits w v rest (Or.inl hw)]

theorem rdIgn_readBits (s : Sps) (w v : Nat) (rest : List Bool) (hw : w ≠ 0) :
    rdIgn 0 (readBits w) (mk s (natBits w v ++ rest)) = .ok (some (v % 2 ^ w), mk s rest) := by
  simp only [rdIgn, mk, readBits_natBits w v rest (Or.inl hw)]

/-- a one-bit flag -/
theorem rd_flag (s : Sps) (b : Bool) (rest : List Bool) :
    rd (readBits 1) (mk s (b :: rest)) = .ok (some (bitNat b), mk s rest) := by
  cases b <;> rfl

theorem rdIgn_flag (s : Sps) (b : Bool) (rest : List Bool) :
    rdIgn 0 (readBits 1) (mk s (b :: rest)) = .ok (some (bitNat b), mk s rest) := by
  cases b <;> rfl

/- ---------- max_num_ref_frames … direct_8x8_inference_flag ---------- -/

theorem gammaDims_enc (p : SpsParams) (s : Sps) (rest : List Bool)
    (hn : p.maxNumRefFrames < 4294967295) (hw : p.picWidthInMbsMinus1 < 4294967295) (hh : p.picHeightInMapUnitsMinus1 < 4294967295) :
    gammaDims (mk s (dimsBits p ++ rest)) = .ok (some (), mk
      { s with numRefFrames := p.maxNumRefFrames, gapsInFrameNumValueAllowedFlag := bitNat p.gapsInFrameNumAllowed,
               picWidthInMbsMinusOne := p.picWidthInMbsMinus1, picHeightInMapUnitsMinusOne := p.picHeightInMapUnitsMinus1,
               frameMbsOnlyFlag := bitNat p.frameMbsOnly,
               mbAdaptiveFrameFieldFlag := if p.frameMbsOnly then s.mbAdaptiveFrameFieldFlag else bitNat p.mbAdaptiveFrameField,
               direct8X8InferenceFlag := bitNat p.direct8x8Inference } rest) := by
  simp only [gammaDims, dimsBits, flag, List.append_assoc, List.cons_append, List.nil_append]
  simp only [bind_apply, rdIgn_readUe _ _ _ hn (List.cons_ne_nil _ _), set_apply, rdIgn_flag,
    rdIgn_readUe _ _ _ hw (ueBits_append_ne_nil _ _), rdIgn_readUe _ _ _ hh (List.cons_ne_nil _ _), errCheck_apply, rd_flag]
  cases hfm : p.frameMbsOnly <;>
    simp [bitNat, rd_flag, set_apply, bind_apply]

/- ---------- frame cropping ---------- -/

def cropResult (p : SpsParams) (s : Sps) : Sps :=
  match p.crop with
  | none => { s with frameCroppingFlag := 0 }
  | some (l, r, t, b) =>
    { s with frameCroppingFlag := 1, frameCropLeftOffset := l, frameCropRightOffset := r,
             frameCropTopOffset := t, frameCropBottomOffset := b }

theorem gammaCrop_enc (p : SpsParams) (s : Sps) (rest : List Bool) (hr : rest ≠ [])
    (hc : ∀ l r t b, p.crop = some (l, r, t, b) → l < 4294967295 ∧ r < 4294967295 ∧ t < 4294967295 ∧ b < 4294967295) :
    gammaCrop (mk s (cropBits p ++ rest)) = .ok (some (), mk (cropResult p s) rest) := by
  cases hcr : p.crop with
  | none =>
    simp [gammaCrop, cropBits, hcr, cropResult, rd_flag, set_apply, bitNat]
  | some q =>
    obtain ⟨l, r, t, b⟩ := q
    obtain ⟨hl, hr', ht, hb⟩ := hc l r t b hcr
    simp only [gammaCrop, cropBits, hcr, cropResult, List.cons_append, List.append_assoc,
      bind_apply, rd_flag, set_apply, bitNat, if_true,
      rdIgn_readUe _ _ _ hl (ueBits_append_ne_nil _ _), rdIgn_readUe _ _ _ hr' (ueBits_append_ne_nil _ _),
      rdIgn_readUe _ _ _ ht (ueBits_append_ne_nil _ _), rdIgn_readUe _ _ _ hb hr, errCheck_apply]

/- ---------- VUI: whatever follows, only the sample aspect ratio is touched and nothing panics ---------- -/

/-- the fields the reported dimensions depend on -/
def dimKey (s : Sps) : Nat × Nat × Nat × Nat × Nat × Nat × Nat × Nat :=
  (s.chromaFormatIdc, s.frameMbsOnlyFlag, s.picWidthInMbsMinusOne, s.picHeightInMapUnitsMinusOne,
   s.frameCropLeftOffset, s.frameCropRightOffset, s.frameCropTopOffset, s.frameCropBottomOffset)

theorem rd_readBits_cases (n : Nat) (hn : n ≠ 0) (st : St) :
    (∃ v st', rd (readBits n) st = .ok (some v, st') ∧ st'.sps = st.sps) ∨
    (∃ st', rd (readBits n) st = .ok (none, st') ∧ st'.sps = st.sps) := by
  by_cases h1 : st.br.err = true
  · right
    refine ⟨{ st with br := st.br }, ?_, rfl⟩
    simp [rd, readBits, h1]
  · by_cases h2 : st.br.bits.length < n
    · right
      refine ⟨{ st with br := { st.br with err := true } }, ?_, rfl⟩
      simp [rd, readBits, h1, h2]
    · left
      have h3 : ¬ (n = 0 ∧ st.br.bits = []) := fun h => hn h.1
      refine ⟨bitsVal (st.br.bits.take n), { st with br := { st.br with bits := st.br.bits.drop n } }, ?_, rfl⟩
      simp [rd, readBits, h1, h2, h3]

@[simp] theorem set_apply' (f : Sps → Sps) (st : St) : set f st = .ok (some (), { st with sps := f st.sps }) := rfl

theorem gammaVui_dimKey (st : St) : ∃ o st', gammaVui st = .ok (o, st') ∧ dimKey st'.sps = dimKey st.sps := by
  simp only [gammaVui, bind_apply]
  rcases rd_readBits_cases 1 (by decide) st with ⟨v, st1, h1, e1⟩ | ⟨st1, h1, e1⟩
  · rw [h1]
    by_cases hv : v = 1
    · simp only [hv, if_true, bind_apply]
      rcases rd_readBits_cases 1 (by decide) st1 with ⟨v2, st2, h2, e2⟩ | ⟨st2, h2, e2⟩
      · rw [h2]
        by_cases hv2 : v2 = 1
        · simp only [hv2, if_true, bind_apply]
          rcases rd_readBits_cases 8 (by decide) st2 with ⟨ari, st3, h3, e3⟩ | ⟨st3, h3, e3⟩
          · rw [h3]
            by_cases ha : ari = 255
            · simp only [ha, if_true, bind_apply]
              rcases rd_readBits_cases 16 (by decide) st3 with ⟨nn, st4, h4, e4⟩ | ⟨st4, h4, e4⟩
              · rw [h4]
                simp only [set_apply', bind_apply]
                rcases rd_readBits_cases 16 (by decide) { st4 with sps := { st4.sps with sarNum := nn } } with
                  ⟨dd, st5, h5, e5⟩ | ⟨st5, h5, e5⟩
                · rw [h5]
                  simp only [set_apply', pure_apply]
                  refine ⟨_, _, rfl, ?_⟩
                  simp only [dimKey]
                  split <;> simp [e5, e4, e3, e2, e1]
                · rw [h5]
                  exact ⟨_, _, rfl, by simp [dimKey, e5, e4, e3, e2, e1]⟩
              · rw [h4]
                exact ⟨_, _, rfl, by simp [dimKey, e4, e3, e2, e1]⟩
            · simp only [ha, if_false]
              by_cases hl : ari < 17
              · simp only [hl, if_true, set_apply', bind_apply, pure_apply]
                refine ⟨_, _, rfl, ?_⟩
                simp only [dimKey]
                split <;> simp [e3, e2, e1]
              · simp only [hl, if_false, pure_apply, set_apply', bind_apply]
                refine ⟨_, _, rfl, ?_⟩
                simp only [dimKey]
                split <;> simp [e3, e2, e1]
          · rw [h3]
            exact ⟨_, _, rfl, by simp [dimKey, e3, e2, e1]⟩
        · simp only [hv2, if_false, pure_apply, set_apply', bind_apply]
          refine ⟨_, _, rfl, ?_⟩
          simp only [dimKey]
          split <;> simp [e2, e1]
      · rw [h2]
        exact ⟨_, _, rfl, by simp [dimKey, e2, e1]⟩
    · simp only [hv, if_false, pure_apply, set_apply', bind_apply]
      refine ⟨_, _, rfl, ?_⟩
      simp only [dimKey]
      split <;> simp [e1]
  · rw [h1]
    exact ⟨_, _, rfl, by simp [dimKey, e1]⟩

/- ---------- log2_max_frame_num_minus4, picture order count ---------- -/

theorem readSe_code (c : Nat) (rest : List Bool) (hc : c < 4294967295) (hr : rest ≠ []) :
    readSe { bits := ueBits c ++ rest } = .ok (some (seOfUe c), { bits := rest }) := by
  simp only [readSe, readUe_ueBits c rest hc (Or.inr hr)]

theorem seCode_lt32 (x : Int) (h : -2147483647 ≤ x ∧ x ≤ 2147483647) : seCode x < 4294967295 := by
  simp only [seCode]; split <;> omega

theorem rdIgn_readSe_any (s : Sps) (x : Int) (rest : List Bool) (hx : -2147483647 ≤ x ∧ x ≤ 2147483647) (hr : rest ≠ []) :
    rdIgn 0 readSe (mk s (seBits x ++ rest)) = .ok (some (seOfUe (seCode x)), mk s rest) := by
  simp only [rdIgn, mk, seBits, readSe_code _ rest (seCode_lt32 x hx) hr]

theorem rd_readSe_any (s : Sps) (x : Int) (rest : List Bool) (hx : -2147483647 ≤ x ∧ x ≤ 2147483647) (hr : rest ≠ []) :
    rd readSe (mk s (seBits x ++ rest)) = .ok (some (seOfUe (seCode x)), mk s rest) := by
  simp only [rd, mk, seBits, readSe_code _ rest (seCode_lt32 x hx) hr]

theorem skipSe_enc (s : Sps) (offs : List Int) (rest : List Bool) (hr : rest ≠ [])
    (ho : ∀ o ∈ offs, -2147483647 ≤ o ∧ o ≤ 2147483647) :
    skipSe offs.length (mk s (offs.flatMap seBits ++ rest)) = .ok (some (), mk s rest) := by
  induction offs with
  | nil => rfl
  | cons o os ih =>
    have hne : os.flatMap seBits ++ rest ≠ [] := by simp [hr]
    simp only [List.length_cons, skipSe, List.flatMap_cons, List.append_assoc, bind_apply,
      rd_readSe_any s o _ (ho o (by simp)) hne]
    exact ih (fun o h => ho o (by simp [h]))

def pocTypeOf : Poc → Nat
  | .t0 _ => 0
  | .t1 .. => 1
  | .t2 => 2

def pocResult (p : SpsParams) (s : Sps) : Sps :=
  match p.poc with
  | .t0 l => { s with log2MaxFrameNumMinus4 := p.log2MaxFrameNumMinus4, picOrderCntType := 0,
                      log2MaxPicOrderCntLsb := (l + 4) % 4294967296 }
  | .t1 .. => { s with log2MaxFrameNumMinus4 := p.log2MaxFrameNumMinus4, picOrderCntType := 1 }
  | .t2 => { s with log2MaxFrameNumMinus4 := p.log2MaxFrameNumMinus4, picOrderCntType := 2 }

theorem ueBits_ne_nil' (v : Nat) : ueBits v ≠ [] := by simp [ueBits]

theorem seBits_append_ne_nil (x : Int) (r : List Bool) : seBits x ++ r ≠ [] := ueBits_append_ne_nil _ _

theorem gammaPoc_enc (p : SpsParams) (s : Sps) (rest : List Bool) (hr : rest ≠ [])
    (hf : p.log2MaxFrameNumMinus4 < 4294967295)
    (hp : match p.poc with
      | .t0 l => l < 4294967295
      | .t1 _ a b offs => offs.length < 4294967295 ∧ (-2147483647 ≤ a ∧ a ≤ 2147483647) ∧ (-2147483647 ≤ b ∧ b ≤ 2147483647)
          ∧ ∀ o ∈ offs, -2147483647 ≤ o ∧ o ≤ 2147483647
      | .t2 => True) :
    gammaPoc (mk s (ueBits p.log2MaxFrameNumMinus4 ++ pocBits p.poc ++ rest)) = .ok (some (), mk (pocResult p s) rest) := by
  cases hpoc : p.poc with
  | t0 l =>
    rw [hpoc] at hp
    simp only [gammaPoc, pocBits, pocResult, hpoc, List.append_assoc, bind_apply, set_apply,
      rd_readUe _ _ _ hf (ueBits_append_ne_nil _ _), rd_readUe _ 0 _ (by omega) (ueBits_append_ne_nil _ _),
      rd_readUe _ l _ hp hr, if_true]
  | t1 z a b offs =>
    rw [hpoc] at hp
    obtain ⟨hn, ha, hb, ho⟩ := hp
    have hne : offs.flatMap seBits ++ rest ≠ [] := by simp [hr]
    have h10 : ¬ ((1 : Nat) = 0) := by decide
    simp only [gammaPoc, pocBits, pocResult, hpoc, flag, List.append_assoc, List.cons_append, List.nil_append, bind_apply, set_apply,
      rd_readUe _ _ _ hf (ueBits_append_ne_nil _ _), rd_readUe _ 1 _ (by omega) (List.cons_ne_nil _ _), h10, if_false, if_true,
      rdIgn_flag, rdIgn_readSe_any _ a _ ha (seBits_append_ne_nil _ _),
      rdIgn_readSe_any _ b _ hb (ueBits_append_ne_nil _ _), errCheck_apply,
      rd_readUe _ offs.length _ hn hne, skipSe_enc _ offs rest hr ho]
  | t2 =>
    have h20 : ¬ ((2 : Nat) = 0) := by decide
    have h21 : ¬ ((2 : Nat) = 1) := by decide
    simp only [gammaPoc, pocBits, pocResult, hpoc, List.append_assoc, bind_apply, set_apply,
      rd_readUe _ _ _ hf (ueBits_append_ne_nil _ _), rd_readUe _ 2 _ (by omega) hr, h20, h21, if_false, pure_apply]

/- ---------- scaling lists ---------- -/

theorem scalingList_enc (s : Sps) (ds : List Int) (rest : List Bool) (hr : rest ≠ [])
    (hd : ∀ d ∈ ds, -128 ≤ d ∧ d ≤ 127) :
    ∀ last next, scalingList ds.length last next (mk s (scalingListBits ds last next ++ rest)) = .ok (some (), mk s rest) := by
  induction ds with
  | nil => intro _ _; rfl
  | cons d ds ih =>
    intro last next
    have ih' := ih (fun x h => hd x (by simp [h]))
    have hdr := hd d (by simp)
    simp only [List.length_cons, scalingList, scalingListBits]
    by_cases hn : next ≠ 0
    · rw [if_pos hn, if_pos hn]
      simp only [bind_apply, List.append_assoc]
      have hne : scalingListBits ds (if (((last : Int) + d + 256) % 256).toNat = 0 then last else (((last : Int) + d + 256) % 256).toNat)
          (((last : Int) + d + 256) % 256).toNat ++ rest ≠ [] := by simp [hr]
      rw [rd_readSe s d _ (by omega) hne]
      simp only [pure_apply]
      have e : (((last : Int) + d) % 256).toNat = (((last : Int) + d + 256) % 256).toNat := by omega
      rw [e]
      have e2 : ∀ (x : Nat), (if x ≠ 0 then x else last) = (if x = 0 then last else x) := by
        intro x; by_cases hx : x = 0 <;> simp [hx]
      rw [e2]
      exact ih' _ _
    · have hn0 : next = 0 := by simpa using hn
      subst hn0
      simp only [ne_eq, not_true_eq_false, if_false, bind_apply, pure_apply]
      exact ih' _ _

theorem scalingLists_enc (s : Sps) (m : List (Option (List Int))) (rest : List Bool) (hr : rest ≠ []) :
    ∀ i, (∀ j (h : j < m.length), scalingListWF (i + j) m[j]) →
    scalingLists m.length i (mk s (scalingMatrixBits m ++ rest)) = .ok (some (), mk s rest) := by
  induction m with
  | nil => intro _ _; rfl
  | cons l ls ih =>
    intro i hwf
    have hrest : ∀ j (h : j < ls.length), scalingListWF (i + 1 + j) ls[j] := by
      intro j h
      have := hwf (j + 1) (by simp; omega)
      simpa [Nat.add_assoc, Nat.add_comm 1 j] using this
    have ih' := ih (i + 1) hrest
    have e : ∀ l, scalingMatrixBits (l :: ls) = (match l with | none => [false] | some ds => true :: scalingListBits ds 8 8) ++ scalingMatrixBits ls := by
      intro l; cases l <;> simp [scalingMatrixBits]
    rw [e]
    cases l with
    | none =>
      simp only [List.length_cons, scalingLists, List.cons_append, List.nil_append, bind_apply, rd_flag, bitNat,
        Bool.false_eq_true, if_false, if_true]
      exact ih'
    | some ds =>
      have h0 := hwf 0 (by simp)
      simp only [List.getElem_cons_zero, Nat.add_zero, scalingListWF] at h0
      have hne : scalingMatrixBits ls ++ rest ≠ [] := by simp [hr]
      have h10 : ¬ ((1 : Nat) = 0) := by decide
      simp only [List.length_cons, scalingLists, List.cons_append, List.append_assoc, bind_apply, rd_flag, bitNat, if_true, h10, if_false]
      have hsize : (if i ≥ 6 then 64 else 16) = ds.length := by
        rw [h0.1]; by_cases h6 : i < 6 <;> simp [h6] <;> omega
      rw [hsize, scalingList_enc s ds _ hne h0.2 8 8]
      exact ih'

/- ---------- chroma_format_idc … seq_scaling_matrix ---------- -/

def chromaResult (p : SpsParams) (s : Sps) : Sps :=
  if hasChromaInfo p then
    { s with chromaFormatIdc := p.chromaFormatIdc,
             residualColorTransformFlag := if p.chromaFormatIdc = 3 then bitNat p.separateColourPlane else s.residualColorTransformFlag,
             bitDepthLuma := (p.bitDepthLumaMinus8 + 8) % 4294967296,
             bitDepthChroma := (p.bitDepthChromaMinus8 + 8) % 4294967296,
             transFormBypass := bitNat p.qpprimeYZeroTransformBypass }
  else { s with chromaFormatIdc := 1, bitDepthLuma := 8, bitDepthChroma := 8 }

theorem highProfiles_eq : highProfiles = chromaProfiles := rfl

def tailResult (p : SpsParams) (s : Sps) : Sps :=
  { s with bitDepthLuma := (p.bitDepthLumaMinus8 + 8) % 4294967296,
           bitDepthChroma := (p.bitDepthChromaMinus8 + 8) % 4294967296,
           transFormBypass := bitNat p.qpprimeYZeroTransformBypass }

def tailBits (p : SpsParams) : List Bool :=
  ueBits p.bitDepthLumaMinus8 ++ (ueBits p.bitDepthChromaMinus8 ++ (p.qpprimeYZeroTransformBypass ::
    (match p.scalingMatrix with
     | none => [false]
     | some m => true :: scalingMatrixBits m)))

theorem gammaChromaTail_enc (p : SpsParams) (s : Sps) (rest : List Bool) (hr : rest ≠ [])
    (hl : p.bitDepthLumaMinus8 ≤ 6) (hc : p.bitDepthChromaMinus8 ≤ 6)
    (hm : ∀ m, p.scalingMatrix = some m →
      m.length = (if p.chromaFormatIdc = 3 then 12 else 8) ∧ ∀ i (h : i < m.length), scalingListWF i m[i]) :
    gammaChromaTail p.chromaFormatIdc (mk s (tailBits p ++ rest)) = .ok (some (), mk (tailResult p s) rest) := by
  have hl' : p.bitDepthLumaMinus8 < 4294967295 := by omega
  have hc' : p.bitDepthChromaMinus8 < 4294967295 := by omega
  cases hsm : p.scalingMatrix with
  | none =>
    simp only [gammaChromaTail, tailBits, tailResult, hsm, List.append_assoc, List.cons_append, List.nil_append, bind_apply, set_apply,
      rd_flag, rd_readUe _ _ _ hl' (ueBits_append_ne_nil _ _), rd_readUe _ _ _ hc' (List.cons_ne_nil _ _), bitNat,
      Bool.false_eq_true, if_false, pure_apply]
    simp
  | some m =>
    obtain ⟨hlen, hwf⟩ := hm m hsm
    have hsl := fun s' => scalingLists_enc s' m rest hr 0 (by simpa using hwf)
    rw [hlen] at hsl
    simp only [gammaChromaTail, tailBits, tailResult, hsm, List.append_assoc, List.cons_append, List.nil_append, bind_apply, set_apply,
      rd_flag, rd_readUe _ _ _ hl' (ueBits_append_ne_nil _ _), rd_readUe _ _ _ hc' (List.cons_ne_nil _ _), bitNat, if_true]
    rw [hsl]

theorem chromaBits_high (p : SpsParams) (hh : hasChromaInfo p = true) :
    chromaBits p = ueBits p.chromaFormatIdc ++ ((if p.chromaFormatIdc = 3 then [p.separateColourPlane] else []) ++ tailBits p) := by
  simp only [chromaBits, hh, if_true, flag, tailBits, List.append_assoc, List.cons_append, List.nil_append]
  cases p.scalingMatrix <;> rfl

theorem gammaChroma_enc_low (p : SpsParams) (s : Sps) (rest : List Bool) (hprof : s.profileIdc = p.profileIdc)
    (hh : hasChromaInfo p = false) :
    gammaChroma highProfiles (mk s (chromaBits p ++ rest)) = .ok (some (), mk (chromaResult p s) rest) := by
  have hc1 : highProfiles.contains s.profileIdc = false := by rw [hprof]; exact hh
  simp only [gammaChroma, bind_apply, getSps_apply, hc1, Bool.false_eq_true, if_false, chromaBits, hh, List.nil_append, set_apply,
    chromaResult]

theorem gammaChroma_enc_444 (p : SpsParams) (s : Sps) (rest : List Bool) (hr : rest ≠ []) (hprof : s.profileIdc = p.profileIdc)
    (hh : hasChromaInfo p = true) (h3 : p.chromaFormatIdc = 3) (hl : p.bitDepthLumaMinus8 ≤ 6) (hc : p.bitDepthChromaMinus8 ≤ 6)
    (hm : ∀ m, p.scalingMatrix = some m →
      m.length = (if p.chromaFormatIdc = 3 then 12 else 8) ∧ ∀ i (h : i < m.length), scalingListWF i m[i]) :
    gammaChroma highProfiles (mk s (chromaBits p ++ rest)) = .ok (some (), mk (chromaResult p s) rest) := by
  have hc1 : highProfiles.contains s.profileIdc = true := by rw [hprof]; exact hh
  have hcf' : p.chromaFormatIdc < 4294967295 := by omega
  have ht := gammaChromaTail_enc p { s with chromaFormatIdc := p.chromaFormatIdc, residualColorTransformFlag := bitNat p.separateColourPlane } rest hr hl hc hm
  rw [chromaBits_high p hh, if_pos h3]
  simp only [gammaChroma, bind_apply, getSps_apply, hc1, if_true, set_apply, if_pos h3, List.append_assoc, List.cons_append, List.nil_append,
    rd_readUe _ _ _ hcf' (List.cons_ne_nil _ _), rd_flag]
  rw [ht]
  simp only [chromaResult, hh, if_pos h3, tailResult, if_true]

theorem gammaChroma_enc_other (p : SpsParams) (s : Sps) (rest : List Bool) (hr : rest ≠ []) (hprof : s.profileIdc = p.profileIdc)
    (hh : hasChromaInfo p = true) (h3 : p.chromaFormatIdc ≠ 3) (hcf : p.chromaFormatIdc ≤ 3)
    (hl : p.bitDepthLumaMinus8 ≤ 6) (hc : p.bitDepthChromaMinus8 ≤ 6)
    (hm : ∀ m, p.scalingMatrix = some m →
      m.length = (if p.chromaFormatIdc = 3 then 12 else 8) ∧ ∀ i (h : i < m.length), scalingListWF i m[i]) :
    gammaChroma highProfiles (mk s (chromaBits p ++ rest)) = .ok (some (), mk (chromaResult p s) rest) := by
  have hcf' : p.chromaFormatIdc < 4294967295 := by omega
  have hc1 : highProfiles.contains s.profileIdc = true := by rw [hprof]; exact hh
  have ht := gammaChromaTail_enc p { s with chromaFormatIdc := p.chromaFormatIdc } rest hr hl hc hm
  have hne : tailBits p ++ rest ≠ [] := by simp [tailBits, ueBits]
  rw [chromaBits_high p hh]
  simp only [gammaChroma, bind_apply, getSps_apply, hc1, if_true, set_apply, h3, if_false, List.append_assoc, List.nil_append,
    rd_readUe _ _ _ hcf' hne, pure_apply]
  rw [ht]
  simp only [chromaResult, hh, h3, tailResult, if_true, if_false]

theorem gammaChroma_enc (p : SpsParams) (s : Sps) (rest : List Bool) (hr : rest ≠ []) (hprof : s.profileIdc = p.profileIdc)
    (hcf : p.chromaFormatIdc ≤ 3) (hl : p.bitDepthLumaMinus8 ≤ 6) (hc : p.bitDepthChromaMinus8 ≤ 6)
    (hm : ∀ m, p.scalingMatrix = some m →
      m.length = (if p.chromaFormatIdc = 3 then 12 else 8) ∧ ∀ i (h : i < m.length), scalingListWF i m[i]) :
    gammaChroma highProfiles (mk s (chromaBits p ++ rest)) = .ok (some (), mk (chromaResult p s) rest) := by
  by_cases hh : hasChromaInfo p = true
  · by_cases h3 : p.chromaFormatIdc = 3
    · exact gammaChroma_enc_444 p s rest hr hprof hh h3 hl hc hm
    · exact gammaChroma_enc_other p s rest hr hprof hh h3 hcf hl hc hm
  · exact gammaChroma_enc_low p s rest hprof (by simpa using hh)

/- ---------- parseSpsBasic ---------- -/

theorem byteBits_eq_natBits (b : UInt8) : byteBits b = natBits 8 b.toNat := by
  simp [byteBits, natBits]

def basicResult (p : SpsParams) : Sps :=
  { profileIdc := p.profileIdc % 2 ^ 8,
    constraintSet0 := bitNat (decide (p.constraintFlags / 2 ^ 7 % 2 = 1)),
    constraintSet1 := bitNat (decide (p.constraintFlags / 2 ^ 6 % 2 = 1)),
    constraintSet2 := bitNat (decide (p.constraintFlags / 2 ^ 5 % 2 = 1)),
    levelIdc := p.levelIdc % 2 ^ 8, spsId := p.spsId }

theorem parseSpsBasic_enc (p : SpsParams) (hdr : UInt8) (rest : List Bool) (hr : rest ≠ []) (hid : p.spsId < 32) :
    parseSpsBasic (mk {} (byteBits hdr ++ (natBits 8 p.profileIdc ++ (natBits 8 p.constraintFlags ++ (natBits 8 p.levelIdc ++
      (ueBits p.spsId ++ rest)))))) = .ok (some (), mk (basicResult p) rest) := by
  have e : natBits 8 p.constraintFlags = decide (p.constraintFlags / 2 ^ 7 % 2 = 1) :: decide (p.constraintFlags / 2 ^ 6 % 2 = 1)
      :: decide (p.constraintFlags / 2 ^ 5 % 2 = 1) :: natBits 5 p.constraintFlags := rfl
  have h8 : (8 : Nat) ≠ 0 := by decide
  have h5 : (5 : Nat) ≠ 0 := by decide
  have hlt : ¬ (p.spsId ≥ 32) := by omega
  rw [byteBits_eq_natBits, e]
  simp only [parseSpsBasic, bind_apply, List.cons_append, rd_readBits _ 8 _ _ h8, rd_readBits _ 5 _ _ h5, rd_flag, set_apply,
    rd_readUe _ p.spsId _ (by omega) hr, hlt, basicResult]
  rfl

/- ---------- assembly ---------- -/

theorem append_ne_nil_right {α} (a b : List α) (h : b ≠ []) : a ++ b ≠ [] := by
  intro hab; exact h (List.append_eq_nil_iff.mp hab).2

theorem cropUnitX_agree (p : SpsParams) (s : Sps) (hcf : p.chromaFormatIdc ≤ 3)
    (hs : s.chromaFormatIdc = (chromaResult p {}).chromaFormatIdc) :
    Sps.cropUnitX true s = SpsEnc.cropUnitX p := by
  simp only [Sps.cropUnitX, SpsEnc.cropUnitX, chromaArrayType, chromaFormatOf, subWidthC, hs, chromaResult, if_true]
  by_cases hh : hasChromaInfo p = true
  · simp only [hh, if_true, true_and]
    have : p.chromaFormatIdc = 0 ∨ p.chromaFormatIdc = 1 ∨ p.chromaFormatIdc = 2 ∨ p.chromaFormatIdc = 3 := by omega
    rcases this with h | h | h | h <;> simp [h] <;> cases p.separateColourPlane <;> try simp
  · simp [hh]

theorem cropUnitY_agree (p : SpsParams) (s : Sps) (hcf : p.chromaFormatIdc ≤ 3)
    (hs : s.chromaFormatIdc = (chromaResult p {}).chromaFormatIdc) (hf : s.frameMbsOnlyFlag = frameMbsOnlyNat p) :
    Sps.cropUnitY true s = SpsEnc.cropUnitY p := by
  simp only [Sps.cropUnitY, SpsEnc.cropUnitY, chromaArrayType, chromaFormatOf, subHeightC, hs, hf, chromaResult, if_true]
  by_cases hh : hasChromaInfo p = true
  · simp only [hh, if_true, true_and]
    have : p.chromaFormatIdc = 0 ∨ p.chromaFormatIdc = 1 ∨ p.chromaFormatIdc = 2 ∨ p.chromaFormatIdc = 3 := by omega
    rcases this with h | h | h | h <;> simp [h] <;> cases p.separateColourPlane <;> (try simp) <;> (try omega)
  · simp [hh]; try omega

def dimsResult (p : SpsParams) (s : Sps) : Sps :=
  { s with numRefFrames := p.maxNumRefFrames, gapsInFrameNumValueAllowedFlag := bitNat p.gapsInFrameNumAllowed,
           picWidthInMbsMinusOne := p.picWidthInMbsMinus1, picHeightInMapUnitsMinusOne := p.picHeightInMapUnitsMinus1,
           frameMbsOnlyFlag := bitNat p.frameMbsOnly,
           mbAdaptiveFrameFieldFlag := if p.frameMbsOnly then s.mbAdaptiveFrameFieldFlag else bitNat p.mbAdaptiveFrameField,
           direct8X8InferenceFlag := bitNat p.direct8x8Inference }

/-- the state after everything up to and including the cropping fields -/
def afterCrop (p : SpsParams) : Sps :=
  cropResult p (dimsResult p (pocResult p (chromaResult p (basicResult p))))

theorem hdr_ne_zero (r : Nat) : b8 (r % 4 * 32 + 7) ≠ 0 := by
  intro h
  have := congrArg UInt8.toNat h
  simp only [b8_toNat] at this
  have : (0 : UInt8).toNat = 0 := rfl
  omega

/-- what the bit reader of `ParseSps` sees for a specification-produced SPS -/
theorem reader_of_encSps (p : SpsParams) : ∃ pad,
    newBitReader (nal2rbsp (encSps p) 0) =
      { bits := byteBits (b8 (p.nalRefIdc % 4 * 32 + 7)) ++ (rbspBits p ++ pad) } := by
  obtain ⟨pad, hp⟩ := bitsOf_packBits (rbspBits p)
  refine ⟨pad, ?_⟩
  have h0 := hdr_ne_zero p.nalRefIdc
  have hz : ¬ ((0 : Nat) ≥ 2 ∧ b8 (p.nalRefIdc % 4 * 32 + 7) = 3) := by omega
  simp only [encSps, nal2rbsp, hz, if_false, h0, nal2rbsp_escape, newBitReader, bitsOf, hp]

theorem gamma_enc (p : SpsParams) (h : SpsWF p) (pad : List Bool) :
    ∃ o st', parseSpsGamma highProfiles (mk (basicResult p)
        (chromaBits p ++ (ueBits p.log2MaxFrameNumMinus4 ++ pocBits p.poc ++ (dimsBits p ++ (cropBits p ++ (vuiBits p ++ ([true] ++ pad)))))))
      = .ok (o, st') ∧ dimKey st'.sps = dimKey (afterCrop p) := by
  have hend : vuiBits p ++ ([true] ++ pad) ≠ [] := append_ne_nil_right _ _ (by simp)
  have hprof : (basicResult p).profileIdc = p.profileIdc := by
    simp only [basicResult]; exact Nat.mod_eq_of_lt h.profile
  have hw : p.picWidthInMbsMinus1 < 4294967295 := by have := h.width; omega
  have hh : p.picHeightInMapUnitsMinus1 < 4294967295 := by have := h.height; omega
  have hpoc : match p.poc with
      | .t0 l => l < 4294967295
      | .t1 _ a b offs => offs.length < 4294967295 ∧ (-2147483647 ≤ a ∧ a ≤ 2147483647) ∧ (-2147483647 ≤ b ∧ b ≤ 2147483647)
          ∧ ∀ o ∈ offs, -2147483647 ≤ o ∧ o ≤ 2147483647
      | .t2 => True := by
    have := h.poc
    cases hp : p.poc with
    | t0 l => rw [hp] at this; simp only at this ⊢; omega
    | t1 z a b offs => rw [hp] at this; simp only at this ⊢; exact ⟨by omega, this.2.1, this.2.2.1, this.2.2.2⟩
    | t2 => trivial
  have hcrop : ∀ l r t b, p.crop = some (l, r, t, b) → l < 4294967295 ∧ r < 4294967295 ∧ t < 4294967295 ∧ b < 4294967295 := by
    intro l r t b hc
    obtain ⟨h1, h2⟩ := h.crop l r t b hc
    have hx : 1 ≤ SpsEnc.cropUnitX p := by
      simp only [SpsEnc.cropUnitX, subWidthC]; split <;> (try split) <;> omega
    have hy : 1 ≤ SpsEnc.cropUnitY p := by
      simp only [SpsEnc.cropUnitY, subHeightC, frameMbsOnlyNat]
      cases p.frameMbsOnly <;> simp <;> split <;> (try split) <;> omega
    have hW := h.width
    have hH := h.height
    have e1 : l + r ≤ SpsEnc.cropUnitX p * (l + r) := Nat.le_mul_of_pos_left _ hx
    have e2 : t + b ≤ SpsEnc.cropUnitY p * (t + b) := Nat.le_mul_of_pos_left _ hy
    have e3 : frameHeightInSamplesL p ≤ 2 * (p.picHeightInMapUnitsMinus1 + 1) * 16 := by
      simp only [frameHeightInSamplesL, frameMbsOnlyNat]
      cases p.frameMbsOnly <;> simp <;> omega
    simp only [picWidthInSamplesL] at h1
    omega
  simp only [parseSpsGamma, bind_apply]
  rw [gammaChroma_enc p _ _ (append_ne_nil_right _ _ (append_ne_nil_right _ _ (append_ne_nil_right _ _ hend))) hprof h.chroma h.bdl h.bdc h.scaling]
  simp only []
  rw [gammaPoc_enc p _ _ (append_ne_nil_right _ _ (append_ne_nil_right _ _ hend)) (by have := h.log2fn; omega) hpoc]
  simp only []
  rw [gammaDims_enc p _ _ (by have := h.nref; omega) hw hh]
  simp only []
  rw [gammaCrop_enc p _ _ hend hcrop]
  simp only []
  obtain ⟨o, st', hv, hk⟩ := gammaVui_dimKey (mk (cropResult p (dimsResult p (pocResult p (chromaResult p (basicResult p)))))
    (vuiBits p ++ ([true] ++ pad)))
  exact ⟨o, st', hv, hk⟩

theorem dims_of_dimKey (s1 s2 : Sps) (h : dimKey s1 = dimKey s2) :
    widthOf true s1 = widthOf true s2 ∧ heightOf true s1 = heightOf true s2 := by
  simp only [dimKey, Prod.mk.injEq] at h
  obtain ⟨h1, h2, h3, h4, h5, h6, h7, h8⟩ := h
  simp only [widthOf, heightOf, Sps.cropUnitX, Sps.cropUnitY, h1, h2, h3, h4, h5, h6, h7, h8, and_self]

theorem bitNat_fmo (p : SpsParams) : bitNat p.frameMbsOnly = frameMbsOnlyNat p := by
  cases h : p.frameMbsOnly <;> simp [bitNat, frameMbsOnlyNat, h]

/-- the dimensions computed from the fields of a specification-produced SPS are the specification's -/
theorem dims_afterCrop (p : SpsParams) (h : SpsWF p) :
    (widthOf true (afterCrop p), heightOf true (afterCrop p)) = specDims p := by
  have hcf : (afterCrop p).chromaFormatIdc = (chromaResult p {}).chromaFormatIdc := by
    simp only [afterCrop, cropResult, dimsResult, pocResult, chromaResult]
    cases p.crop <;> cases p.poc <;> by_cases hh : hasChromaInfo p = true <;> simp [hh]
  have hf : (afterCrop p).frameMbsOnlyFlag = frameMbsOnlyNat p := by
    rw [← bitNat_fmo]
    simp only [afterCrop, cropResult, dimsResult]
    cases p.crop <;> rfl
  have hx := cropUnitX_agree p (afterCrop p) h.chroma hcf
  have hy := cropUnitY_agree p (afterCrop p) h.chroma hcf hf
  have hW := h.width
  have hH := h.height
  have hwf : (afterCrop p).picWidthInMbsMinusOne = p.picWidthInMbsMinus1 := by
    simp only [afterCrop, cropResult, dimsResult]; cases p.crop <;> rfl
  have hhf : (afterCrop p).picHeightInMapUnitsMinusOne = p.picHeightInMapUnitsMinus1 := by
    simp only [afterCrop, cropResult, dimsResult]; cases p.crop <;> rfl
  have e3 : frameHeightInSamplesL p ≤ 2 * (p.picHeightInMapUnitsMinus1 + 1) * 16 := by
    simp only [frameHeightInSamplesL, frameMbsOnlyNat]
    cases p.frameMbsOnly <;> simp <;> omega
  simp only [widthOf, heightOf, hx, hy, hf, hwf, hhf, specDims]
  cases hc : p.crop with
  | none =>
    have z : (afterCrop p).frameCropLeftOffset = 0 ∧ (afterCrop p).frameCropRightOffset = 0 ∧
        (afterCrop p).frameCropTopOffset = 0 ∧ (afterCrop p).frameCropBottomOffset = 0 := by
      simp only [afterCrop, cropResult, hc, dimsResult, pocResult, chromaResult, basicResult]
      cases p.poc <;> by_cases hh : hasChromaInfo p = true <;> simp [hh]
    simp only [z.1, z.2.1, z.2.2.1, z.2.2.2, picWidthInSamplesL, frameHeightInSamplesL, sub32, u32] at e3 ⊢
    simp only [Nat.zero_add, Nat.zero_mul, Nat.zero_mod, Nat.sub_zero, Prod.mk.injEq]
    generalize (2 - frameMbsOnlyNat p) * (p.picHeightInMapUnitsMinus1 + 1) * 16 = H at *
    omega
  | some q =>
    obtain ⟨l, r, t, b⟩ := q
    obtain ⟨c1, c2⟩ := h.crop l r t b hc
    have z : (afterCrop p).frameCropLeftOffset = l ∧ (afterCrop p).frameCropRightOffset = r ∧
        (afterCrop p).frameCropTopOffset = t ∧ (afterCrop p).frameCropBottomOffset = b := by
      simp only [afterCrop, cropResult, hc, and_self]
    simp only [z.1, z.2.1, z.2.2.1, z.2.2.2, picWidthInSamplesL, frameHeightInSamplesL, sub32, u32, Prod.mk.injEq] at e3 c1 c2 ⊢
    rw [Nat.mul_comm (l + r), Nat.mul_comm (t + b)]
    generalize SpsEnc.cropUnitX p * (l + r) = A at *
    generalize SpsEnc.cropUnitY p * (t + b) = B at *
    generalize (2 - frameMbsOnlyNat p) * (p.picHeightInMapUnitsMinus1 + 1) * 16 = H at *
    omega

/-- `avc.ParseSps` on the NAL unit a specification-following encoder produces for `p`. -/
theorem parseSps_encSps (p : SpsParams) (h : SpsWF p) :
    ∃ ctx, parseSps (encSps p) = .ok ctx ∧ (ctx.width, ctx.height) = specDims p := by
  obtain ⟨pad, hrd⟩ := reader_of_encSps p
  have hb := parseSpsBasic_enc p (b8 (p.nalRefIdc % 4 * 32 + 7))
    (chromaBits p ++ (ueBits p.log2MaxFrameNumMinus4 ++ pocBits p.poc ++ (dimsBits p ++ (cropBits p ++ (vuiBits p ++ ([true] ++ pad))))))
    (append_ne_nil_right _ _ (append_ne_nil_right _ _ (append_ne_nil_right _ _ (append_ne_nil_right _ _ (append_ne_nil_right _ _ (by simp))))))
    h.spsId
  obtain ⟨o, st', hg, hk⟩ := gamma_enc p h pad
  have hbits : byteBits (b8 (p.nalRefIdc % 4 * 32 + 7)) ++ (rbspBits p ++ pad) =
      byteBits (b8 (p.nalRefIdc % 4 * 32 + 7)) ++ (natBits 8 p.profileIdc ++ (natBits 8 p.constraintFlags ++ (natBits 8 p.levelIdc ++
      (ueBits p.spsId ++ (chromaBits p ++ (ueBits p.log2MaxFrameNumMinus4 ++ pocBits p.poc ++ (dimsBits p ++ (cropBits p ++ (vuiBits p ++ ([true] ++ pad)))))))))) := by
    simp only [rbspBits, List.append_assoc]
  have hst : ({ sps := {}, br := newBitReader (nal2rbsp (encSps p) 0) } : St) = mk {} (byteBits (b8 (p.nalRefIdc % 4 * 32 + 7)) ++ (natBits 8 p.profileIdc ++ (natBits 8 p.constraintFlags ++ (natBits 8 p.levelIdc ++
      (ueBits p.spsId ++ (chromaBits p ++ (ueBits p.log2MaxFrameNumMinus4 ++ pocBits p.poc ++ (dimsBits p ++ (cropBits p ++ (vuiBits p ++ ([true] ++ pad))))))))))) := by
    rw [hrd, hbits]; rfl
  obtain ⟨hwd, hhd⟩ := dims_of_dimKey _ _ hk
  refine ⟨{ profile := st'.sps.profileIdc, level := st'.sps.levelIdc, width := widthOf true st'.sps,
            height := heightOf true st'.sps, sps := st'.sps }, ?_, ?_⟩
  · simp only [parseSps, parseSpsWith, Variant.fixed, if_true, hst, hb, hg, recoverErr]
  · simp only [hwd, hhd]; exact dims_afterCrop p h

end Lal.Sps
