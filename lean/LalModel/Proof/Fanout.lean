import LalModel.Model.Fanout
import LalModel.Proof.MsgClass
import LalModel.Proof.GopRingTotal
import LalModel.Proof.GoOk
import LalModel.Proof.SeqHeaderTotal
import LalModel.Proof.TsRemux
import LalModel.Proof.RtspRemux
import LalModel.Proof.DummyAudio
import LalModel.Proof.Amf0Meta
/-
  The whole fan-out returns normally: for every configuration, every message sequence and every interleaving of
  subscriber joins, `runAll` is `.ok`. `G.Inv` (the GOP rings are well formed, the RTSP remuxer's cache holds
  length-checked messages, an SDP exists once the RTSP remuxer has left its analysis stage) is an invariant.
-/
namespace Lal.GopRing
open Lal
variable {α : Type}

theorem Ring.count_ok (r : Ring α) (h : r.WF) : r.count = .ok ((r.last + r.gopSize - r.first) % r.gopSize) := by
  have : r.gopSize ≠ 0 := by have := h.1; omega
  simp [Ring.count, Ring.mod?, this]

theorem Ring.dataAt_ok (r : Ring α) (h : r.WF) (pos : Nat) : Ok (fun _ => True) (r.dataAt pos) := by
  obtain ⟨h1, h2, h3, h4⟩ := h
  have hne : r.gopSize ≠ 0 := by omega
  have hpos : 0 < r.gopSize := by omega
  unfold Ring.dataAt
  simp only [Ring.count_ok r ⟨h1, h2, h3, h4⟩, Ring.mod?, hne, if_false, GoM.ok_bind, GoM.pure_eq]
  split
  · exact Ok.triv _
  · have hlt : (pos + r.first) % r.gopSize < r.ring.length := by rw [h2]; exact Nat.mod_lt _ hpos
    simp only [Ring.at?, List.getElem?_eq_getElem hlt]
    exact Ok.triv _

theorem Ring.allLoop_ok (r : Ring α) (h : r.WF) : ∀ (n i : Nat), Ok (fun _ => True) (r.allLoop n i) := by
  intro n
  induction n with
  | zero => intro i; exact Ok.triv _
  | succ n ih =>
    intro i
    unfold Ring.allLoop
    obtain ⟨d, hd, _⟩ := r.dataAt_ok h i
    obtain ⟨rest, hr, _⟩ := ih (i + 1)
    simp only [hd, hr, GoM.ok_bind, GoM.pure_eq]
    exact Ok.triv _

theorem Ring.all_ok (r : Ring α) (h : r.WF) : Ok (fun _ => True) r.all := by
  unfold Ring.all
  simp only [Ring.count_ok r h, GoM.ok_bind]
  exact r.allLoop_ok h _ _

end Lal.GopRing

namespace Lal.Fanout
open Lal Lal.MsgClass
set_option linter.unusedSimpArgs false
set_option linter.unusedVariables false

/-- the invariant of the group state -/
structure G.Inv (g : G) : Prop where
  rtmp : g.rtmpGop.r.WF
  flv : g.flvGop.r.WF
  ts : g.tsGop.WF
  rtsp : ∀ r, g.rtsp = some r → r.WF ∧ (r.analyzeDone = true → g.sdp.isSome = true)

theorem G.new_inv (c : Cfg) : (G.new c).Inv := by
  refine ⟨GopRing.Ring.new_wf _ _, GopRing.Ring.new_wf _ _, GopRing.Ring.new_wf _ _, ?_⟩
  intro r hr
  simp only [G.new] at hr
  split at hr
  · cases hr; exact ⟨RtspRemux.St.init_wf, by intro h; cases h⟩
  · cases hr

/-- the invariant only reads the caches, the RTSP remuxer and the SDP -/
theorem G.Inv.congr {g g' : G} (h : g.Inv) (h1 : g'.rtmpGop = g.rtmpGop) (h2 : g'.flvGop = g.flvGop) (h3 : g'.tsGop = g.tsGop)
    (h4 : g'.rtsp = g.rtsp) (h5 : g'.sdp = g.sdp) : g'.Inv :=
  ⟨by rw [h1]; exact h.rtmp, by rw [h2]; exact h.flv, by rw [h3]; exact h.ts, by rw [h4, h5]; exact h.rtsp⟩

theorem mapSubs_inv (g : G) (f : Sub → Sub) (h : g.Inv) : (mapSubs g f).Inv := h.congr rfl rfl rfl rfl rfl

theorem hls_upd_inv (g : G) (x : Option Hls) (h : g.Inv) : ({ g with hls := x } : G).Inv := h.congr rfl rfl rfl rfl rfl

/-! ### TS side -/

theorem tsSubsStep_same (g : G) (e : TsRemux.FrameEv) (c n : Nat) :
    (tsSubsStep g e c n).rtmpGop = g.rtmpGop ∧ (tsSubsStep g e c n).flvGop = g.flvGop ∧ (tsSubsStep g e c n).tsGop = g.tsGop
    ∧ (tsSubsStep g e c n).rtsp = g.rtsp ∧ (tsSubsStep g e c n).sdp = g.sdp := by
  have key : ∀ (g0 : G) (x : Nat), let g1 : G := if g0.cfg.recTs then { g0 with recTs := x } else g0
      g1.rtmpGop = g0.rtmpGop ∧ g1.flvGop = g0.flvGop ∧ g1.tsGop = g0.tsGop ∧ g1.rtsp = g0.rtsp ∧ g1.sdp = g0.sdp := by
    intro g0 x
    dsimp only
    split <;> exact ⟨rfl, rfl, rfl, rfl, rfl⟩
  exact key (mapSubs g _) _

theorem feedTsRest_ok (g : G) (e : TsRemux.FrameEv) (h : g.Inv) : Ok G.Inv (feedTsRest g e) := by
  unfold feedTsRest
  obtain ⟨c, hc, _⟩ := g.tsGop.all_ok h.ts
  simp only [hc, GopRing.Ring.count_ok g.tsGop h.ts, GoM.ok_bind, GoM.pure_eq]
  obtain ⟨e1, e2, e3, e4, e5⟩ := tsSubsStep_same g e c.length ((g.tsGop.last + g.tsGop.gopSize - g.tsGop.first) % g.tsGop.gopSize)
  obtain ⟨r', hr, hw⟩ := g.tsGop.feedMpegts_ok h.ts () e.boundary
  rw [e3, hr]
  simp only [GoM.ok_bind]
  exact Ok.ok ⟨by rw [e1]; exact h.rtmp, by rw [e2]; exact h.flv, hw, by rw [e4, e5]; exact h.rtsp⟩

theorem hlsWrite_inv (g : G) (hh : Hls) (e : TsRemux.FrameEv) (h : g.Inv) : (hlsWrite g hh e).Inv := by
  unfold hlsWrite
  dsimp only
  split
  · exact hls_upd_inv g _ h
  · exact h

theorem openF_ok (nested : G → TsRemux.FrameEv → GoM G) (hn : ∀ g a, g.Inv → Ok G.Inv (nested g a))
    (ts : Nat) (g : G) (hh : Hls) (p : Option TsRemux.FrameEv) (h : g.Inv) : Ok (fun r => r.1.Inv) (openF nested ts g hh p) := by
  unfold openF
  dsimp only
  split
  · rename_i a
    obtain ⟨g', hg, hi⟩ := hn { g with hls := some (hh.openPre ts) } a (hls_upd_inv g _ h)
    rw [hg]
    exact Ok.ok hi
  · exact Ok.ok (hls_upd_inv g _ h)

theorem hlsUpdate_ok (nested : G → TsRemux.FrameEv → GoM G) (hn : ∀ g a, g.Inv → Ok G.Inv (nested g a))
    (g : G) (hh : Hls) (ts : Nat) (b : Bool) (p : Option TsRemux.FrameEv) (h : g.Inv) :
    Ok (fun r => r.1.Inv) (hlsUpdate nested g hh ts b p) := by
  unfold hlsUpdate
  split
  · dsimp only
    have h0 : Ok (fun r => r.1.Inv)
        (if (ts > hh.fragTs ∧ ts - hh.fragTs > hlsMaxFragLen) ∨ (hh.fragTs > ts ∧ hh.fragTs - ts > hlsNegMaxFragLen)
         then openF nested ts g hh.close p else Except.ok (g, p)) := by
      split
      · exact openF_ok nested hn ts g _ p h
      · exact Ok.ok h
    obtain ⟨r, hr, hi⟩ := h0
    simp only [hr]
    split
    · exact Ok.ok (hls_upd_inv r.1 _ hi)
    · split
      · exact openF_ok nested hn ts _ _ _ (hls_upd_inv r.1 _ hi)
      · exact Ok.ok (hls_upd_inv r.1 _ hi)
  · split
    · exact openF_ok nested hn ts g _ p h
    · exact Ok.ok h

theorem hlsFeed_ok (nested : G → TsRemux.FrameEv → GoM G) (hn : ∀ g a, g.Inv → Ok G.Inv (nested g a))
    (g : G) (e : TsRemux.FrameEv) (p : Option TsRemux.FrameEv) (h : g.Inv) : Ok (fun r => r.1.Inv) (hlsFeed nested g e p) := by
  unfold hlsFeed
  split
  · exact Ok.ok h
  · rename_i hh _
    dsimp only
    obtain ⟨r, hr, hi⟩ := hlsUpdate_ok nested hn g hh (if e.f.sid = Gen.tsStreamIdAudio then e.f.pts else e.f.dts) e.boundary p h
    simp only [hr]
    exact Ok.ok (hlsWrite_inv r.1 hh e hi)

theorem feedTsWith_ok (nested : G → TsRemux.FrameEv → GoM G) (hn : ∀ g a, g.Inv → Ok G.Inv (nested g a))
    (g : G) (e : TsRemux.FrameEv) (p : Option TsRemux.FrameEv) (h : g.Inv) : Ok (fun r => r.1.Inv) (feedTsWith nested g e p) := by
  unfold feedTsWith
  obtain ⟨r, hr, hi⟩ := hlsFeed_ok nested hn g e p h
  obtain ⟨g', hg, hi'⟩ := feedTsRest_ok r.1 e hi
  simp only [hr, hg]
  exact Ok.ok hi'

theorem feedTsInner_ok (g : G) (e : TsRemux.FrameEv) (h : g.Inv) : Ok G.Inv (feedTsInner g e) := by
  unfold feedTsInner
  obtain ⟨r, hr, hi⟩ := feedTsWith_ok (fun g _ => pure g) (fun g a hg => Ok.ok hg) g e none h
  rw [hr]
  exact Ok.ok hi

/-- the invariant of the group seen as the TS remuxer's observer: no fault recorded, group invariant -/
def TsObs.Good (o : TsObs) : Prop := o.fault = none ∧ o.g.Inv

theorem tsObserver_inv : TsRemux.ObsInv tsObserver TsObs.Good := by
  constructor
  · intro o b ⟨hf, hi⟩
    refine ⟨hf, ?_⟩
    show G.Inv (if _ then _ else _)
    split
    · exact ⟨hi.rtmp, hi.flv, hi.ts, hi.rtsp⟩
    · exact ⟨hi.rtmp, hi.flv, hi.ts, hi.rtsp⟩
  · intro o e p ⟨hf, hi⟩
    show TsObs.Good (match o.fault with
      | some _ => (o, false)
      | none => match feedTsWith feedTsInner o.g e p with
        | .ok (g, used) => ({ o with g := g }, used)
        | .error f => ({ o with fault := some f }, false)).1
    rw [hf]
    dsimp only
    obtain ⟨⟨g', used⟩, hr, hi'⟩ := feedTsWith_ok feedTsInner feedTsInner_ok o.g e p hi
    rw [hr]
    exact ⟨rfl, hi'⟩

theorem tsPart_ok (g : G) (m : Msg) (h : g.Inv) : Ok G.Inv (tsPart g m) := by
  unfold tsPart
  split
  · exact Ok.ok h
  · rename_i ts _
    obtain ⟨r, hr, hf, hi⟩ := TsRemux.feed_ok tsObserver_inv ts ({ g := g } : TsObs) m ⟨rfl, h⟩
    simp only [hr, hf]
    refine Ok.ok ⟨hi.rtmp, hi.flv, hi.ts, hi.rtsp⟩

/-! ### RTSP side -/

theorem isAvcBoundary_ok (b : Bytes) : Total (isAvcBoundary b) := by
  unfold isAvcBoundary; np_norm; tot

theorem isHevcBoundary_ok (b : Bytes) : Total (isHevcBoundary b) := by
  unfold isHevcBoundary; np_norm; tot

theorem boundaryOf_ok (c : Sdp.LogicContext) (p : Rtp.RtpPacket) : Total (boundaryOf c p) := by
  have h1 := isAvcBoundary_ok (p.raw.drop 12)
  have h2 := isHevcBoundary_ok (p.raw.drop 12)
  unfold boundaryOf
  dsimp only
  tot

/-- the part of the invariant that does not mention the SDP -/
structure G.Inv0 (g : G) : Prop where
  rtmp : g.rtmpGop.r.WF
  flv : g.flvGop.r.WF
  ts : g.tsGop.WF
  rtsp : ∀ r, g.rtsp = some r → r.WF

theorem G.Inv.inv0 {g : G} (h : g.Inv) : g.Inv0 := ⟨h.rtmp, h.flv, h.ts, fun r hr => (h.rtsp r hr).1⟩

theorem feedRtp_ok (g : G) (p : Rtp.RtpPacket) (h : g.Inv0) (hs : g.sdp.isSome = true) :
    Ok (fun g' => g'.Inv0 ∧ g'.sdp = g.sdp ∧ g'.rtsp = g.rtsp) (feedRtp g p) := by
  have hm : ∀ f, (mapSubs g f).Inv0 := fun f => ⟨h.rtmp, h.flv, h.ts, h.rtsp⟩
  unfold feedRtp
  split
  · exact Ok.ok ⟨hm _, rfl, rfl⟩
  · split
    · exact Ok.ok ⟨hm _, rfl, rfl⟩
    · split
      · rename_i hn; rw [hn] at hs; cases hs
      · rename_i c _
        obtain ⟨b, hb⟩ := boundaryOf_ok c p
        rw [hb]
        exact Ok.ok ⟨hm _, rfl, rfl⟩

theorem feedRtspEvs_ok : ∀ (evs : List RtspRemux.Ev) (g : G), g.Inv0 → (g.sdp.isSome = true ∨ evs = [] ∨ RtspRemux.HeadSdp evs) →
    Ok (fun g' => g'.Inv0 ∧ g'.rtsp = g.rtsp ∧ (g.sdp.isSome = true ∨ RtspRemux.HeadSdp evs → g'.sdp.isSome = true)
                  ∧ (evs = [] → g'.sdp = g.sdp)) (feedRtspEvs g evs) := by
  intro evs
  induction evs with
  | nil => intro g h _; exact Ok.ok ⟨h, rfl, fun hh => hh.elim id (fun ⟨_, _, e⟩ => by cases e), fun _ => rfl⟩
  | cons ev rest ih =>
    intro g h hs
    cases ev with
    | sdp c =>
      unfold feedRtspEvs
      dsimp only
      have hi : (mapSubs { g with sdp := some c } fun s => if s.kind = Kind.rtsp ∧ s.sdp.isNone = true then { s with sdp := some c } else s).Inv0 :=
        ⟨h.rtmp, h.flv, h.ts, h.rtsp⟩
      obtain ⟨g', hg, hi', hr', hs', _⟩ := ih _ hi (.inl rfl)
      exact ⟨g', hg, hi', hr', fun _ => hs' (.inl rfl), fun e => by cases e⟩
    | rtp a p =>
      have hsome : g.sdp.isSome = true := by
        rcases hs with hs | hs | ⟨c, r, hs⟩
        · exact hs
        · cases hs
        · cases hs
      unfold feedRtspEvs
      obtain ⟨g1, hg1, hi1, hs1, hr1⟩ := feedRtp_ok g p h hsome
      simp only [hg1, GoM.ok_bind]
      obtain ⟨g', hg, hi', hr', hs', _⟩ := ih g1 hi1 (.inl (by rw [hs1]; exact hsome))
      exact ⟨g', hg, hi', by rw [hr', hr1], fun _ => hs' (.inl (by rw [hs1]; exact hsome)), fun e => by cases e⟩

theorem rtspPart_ok (env : RtspRemux.Env) (g : G) (m : Msg) (h : g.Inv) : Ok G.Inv (rtspPart env g m) := by
  unfold rtspPart
  split
  · exact Ok.ok h
  · rename_i r hr
    obtain ⟨hw, hsdp⟩ := h.rtsp r hr
    obtain ⟨q, hq, hqw, hshape⟩ := RtspRemux.feed_ok env r m hw
    simp only [hq]
    have hpre : g.sdp.isSome = true ∨ q.2 = [] ∨ RtspRemux.HeadSdp q.2 := by
      rcases hshape with ⟨hd, _⟩ | ⟨he, _⟩ | hh
      · exact .inl (hsdp hd)
      · exact .inr (.inl he)
      · exact .inr (.inr hh)
    have h0 : ({ g with rtsp := some q.1 } : G).Inv0 := ⟨h.rtmp, h.flv, h.ts, fun r' hr' => by cases hr'; exact hqw⟩
    obtain ⟨g', hg, hi', hr', hs', he'⟩ := feedRtspEvs_ok q.2 { g with rtsp := some q.1 } h0 hpre
    refine ⟨g', hg, hi'.rtmp, hi'.flv, hi'.ts, ?_⟩
    intro r' hr''
    rw [hr'] at hr''
    cases hr''
    refine ⟨hqw, fun hd => ?_⟩
    rcases hshape with ⟨hd0, _⟩ | ⟨he, hsame⟩ | hh
    · exact hs' (.inl (hsdp hd0))
    · rw [he' he]; exact hsdp (by rw [← hsame]; exact hd)
    · exact hs' (.inr hh)

/-! ### subscribers, recording, caches, statistics -/

theorem rtmpSubs_ok (g : G) (k hd : Bool) (h : g.Inv) : Ok G.Inv (rtmpSubs g k hd) := by
  unfold rtmpSubs
  obtain ⟨c, hc, _⟩ := g.rtmpGop.r.all_ok h.rtmp
  simp only [hc, GopRing.Ring.count_ok _ h.rtmp, GoM.ok_bind, GoM.pure_eq]
  exact Ok.ok (mapSubs_inv g _ h)

theorem flvSubs_ok (g : G) (k hd : Bool) (h : g.Inv) : Ok G.Inv (flvSubs g k hd) := by
  unfold flvSubs
  obtain ⟨c, hc, _⟩ := g.flvGop.r.all_ok h.flv
  simp only [hc, GopRing.Ring.count_ok _ h.flv, GoM.ok_bind, GoM.pure_eq]
  exact Ok.ok (mapSubs_inv g _ h)

theorem flvTagLen_ok (m : Msg) : Total (flvTagLen m) := by
  unfold flvTagLen
  obtain ⟨_, _, x, _, e'', _, _, h3⟩ := Amf0.with_without m.payload
  split
  · rw [h3]; exact Total.ok _
  · exact Total.ok _

theorem recFlvPart_ok (g : G) (m : Msg) (h : g.Inv) : Ok G.Inv (recFlvPart g m) := by
  unfold recFlvPart
  split
  · obtain ⟨n, hn⟩ := flvTagLen_ok m
    rw [hn]
    exact Ok.ok (h.congr rfl rfl rfl rfl rfl)
  · exact Ok.ok h

theorem withMeta_wf {α} (c : GopRing.Cache α) (m : Msg) (b : α) (h : c.r.WF) : (withMeta c m b).r.WF := by
  unfold withMeta; split <;> exact h

theorem rtmpCachePart_ok (g : G) (m : Msg) (h : g.Inv) : Ok G.Inv (rtmpCachePart g m) := by
  unfold rtmpCachePart
  split
  · rw [GopRing.Cache.feed_eq _ h.rtmp]
    exact Ok.ok ⟨withMeta_wf _ _ _ (GopRing.Cache.feedP_wf _ h.rtmp m ()), h.flv, h.ts, h.rtsp⟩
  · exact Ok.ok h

theorem flvCachePart_ok (g : G) (m : Msg) (h : g.Inv) : Ok G.Inv (flvCachePart g m) := by
  unfold flvCachePart
  split
  · rw [GopRing.Cache.feed_eq _ h.flv]
    exact Ok.ok ⟨h.rtmp, withMeta_wf _ _ _ (GopRing.Cache.feedP_wf _ h.flv m ()), h.ts, h.rtsp⟩
  · exact Ok.ok h

theorem statAudio_ok (st : Stat) (m : Msg) : Total (statAudio st m) := by
  unfold statAudio
  simp only [audioCodecId_eq, isAacSeqHeader_eq, GoM.ok_bind, GoM.pure_eq]
  tot

theorem parseSps_np (b : Bytes) : NoPanicB (Sps.parseSps b) := by
  unfold Sps.parseSps Sps.recoverErr
  split <;> simp_all [NoPanicB, isPanic]

theorem hevcParseSps_np (b : Bytes) (c : HevcPs.Context) : NoPanicB (HevcPs.parseSps b c) := by
  unfold HevcPs.parseSps HevcPs.recoverErr
  split <;> simp_all [NoPanicB, isPanic]

theorem statDimsAvc_ok (st : Stat) (m : Msg) : Total (statDimsAvc st m) := by
  unfold statDimsAvc
  have h1 := SeqHeader.avcParse_np m.payload
  split
  · rename_i r _
    have h2 := parseSps_np r.1
    split
    · exact Total.ok _
    · exact Total.ok _
    · have := h2.elim (by assumption); simp_all
  · exact Total.ok _
  · have := h1.elim (by assumption); simp_all

theorem statDimsHevc_ok (st : Stat) (m : Msg) (enh : Bool) : Total (statDimsHevc st m enh) := by
  unfold statDimsHevc
  have h1 : NoPanicB (if enh = true then SeqHeader.hevcParseEnhanced m.payload else SeqHeader.hevcParse m.payload) := by
    split
    · exact SeqHeader.hevcParseEnhanced_np _
    · exact SeqHeader.hevcParse_np _
  split
  · rename_i r _
    have h2 := hevcParseSps_np r.2.1 {}
    split
    · exact Total.ok _
    · exact Total.ok _
    · exact Total.ok _
    · have := h2.elim (by assumption); simp_all
  · exact Total.ok _
  · have := h1.elim (by assumption); simp_all

theorem statDims_ok (st : Stat) (m : Msg) (avc hevc enh : Bool) : Total (statDims st m avc hevc enh) := by
  unfold statDims
  split
  · have hA : Total (if avc = true then statDimsAvc st m else Except.ok st) := by
      split
      · exact statDimsAvc_ok st m
      · exact Total.ok _
    obtain ⟨st3, h3⟩ := hA
    rw [h3]
    dsimp only
    split
    · exact statDimsHevc_ok _ m _
    · exact Total.ok _
  · exact Total.ok _

theorem statUpdate_ok (st : Stat) (m : Msg) : Total (statUpdate st m) := by
  unfold statUpdate
  obtain ⟨st1, h1⟩ := statAudio_ok st m
  simp only [h1, isAvcKeySeqHeader_eq, isHevcKeySeqHeader_eq, isEnhanced_eq, GoM.ok_bind, GoM.pure_eq]
  exact statDims_ok _ m _ _ _

theorem statPart_ok (g : G) (m : Msg) (h : g.Inv) : Ok G.Inv (statPart g m) := by
  unfold statPart
  obtain ⟨st, hs⟩ := statUpdate_ok g.stat m
  rw [hs]
  exact Ok.ok (h.congr rfl rfl rfl rfl rfl)

theorem metaCheck_ok (m : Msg) : Total (metaCheck m) := by
  unfold metaCheck
  split
  · have hp := Amf0.parseMetadata_notPanic Gen.amf0MaxDepth (Gen.amf0MaxDepth - 1) m.payload (by decide)
    split
    · rename_i e he
      rw [he] at hp; simp [isPanic] at hp
    · exact Total.ok _
  · exact Total.ok _

/-- `broadcastByRtmpMsg` returns normally and keeps the invariant -/
theorem broadcast_ok (env : RtspRemux.Env) (g : G) (m : Msg) (h : g.Inv) : Ok G.Inv (broadcast env g m) := by
  unfold broadcast
  obtain ⟨u, hu⟩ := metaCheck_ok m
  simp only [hu, GoM.ok_bind, GoM.pure_eq, isVideoKeyNalu_eq, isVideoKeySeqHeader_eq, isAacSeqHeader_eq]
  split
  · exact Ok.ok h
  · obtain ⟨g1, e1, i1⟩ := tsPart_ok g m h
    obtain ⟨g2, e2, i2⟩ := rtspPart_ok env g1 m i1
    obtain ⟨g3, e3, i3⟩ := rtmpSubs_ok g2 (isVideoKeyNaluP m) (decide (m.typeId = tMeta) || isVideoKeySeqHeaderP m || isAacSeqHeaderP m) i2
    obtain ⟨g4, e4, i4⟩ := flvSubs_ok g3 (isVideoKeyNaluP m) (decide (m.typeId = tMeta) || isVideoKeySeqHeaderP m || isAacSeqHeaderP m) i3
    obtain ⟨g5, e5, i5⟩ := recFlvPart_ok g4 m i4
    obtain ⟨g6, e6, i6⟩ := rtmpCachePart_ok g5 m i5
    obtain ⟨g7, e7, i7⟩ := flvCachePart_ok g6 m i6
    simp only [e1, e2, e3, e4, e5, e6, e7, GoM.ok_bind]
    exact statPart_ok g7 m i7

theorem broadcastAll_ok (env : RtspRemux.Env) : ∀ (ms : List Msg) (g : G), g.Inv → Ok G.Inv (broadcastAll env g ms) := by
  intro ms
  induction ms with
  | nil => intro g h; exact Ok.ok h
  | cons m rest ih =>
    intro g h
    unfold broadcastAll
    obtain ⟨g1, e1, i1⟩ := broadcast_ok env g m h
    simp only [e1, GoM.ok_bind]
    exact ih g1 i1

theorem onMsg_ok (env : RtspRemux.Env) (g : G) (m : Msg) (h : g.Inv) : Ok G.Inv (onMsg env g m) := by
  unfold onMsg
  split
  · exact broadcast_ok env g m h
  · rename_i d _
    obtain ⟨r, hr, _⟩ := DummyAudio.feed_ok d m
    simp only [hr, GoM.ok_bind]
    exact broadcastAll_ok env r.2 _ (h.congr rfl rfl rfl rfl rfl)

theorem rtspProgress_inv (g : G) (h : g.Inv) : (rtspProgress g).Inv := mapSubs_inv g _ h

theorem join_inv (g : G) (k : Kind) (h : g.Inv) : (join g k).Inv := by
  unfold join
  exact rtspProgress_inv _ (h.congr rfl rfl rfl rfl rfl)

theorem step_ok (env : RtspRemux.Env) (g : G) (e : Event) (h : g.Inv) : Ok G.Inv (step env g e) := by
  cases e with
  | msg m =>
    unfold step
    obtain ⟨g1, e1, i1⟩ := onMsg_ok env g m h
    simp only [e1, GoM.ok_bind, GoM.pure_eq]
    exact Ok.ok (rtspProgress_inv g1 i1)
  | join k => exact Ok.ok (join_inv g k h)

theorem runAll_ok (env : RtspRemux.Env) : ∀ (evs : List Event) (g : G), g.Inv → Ok G.Inv (runAll env g evs) := by
  intro evs
  induction evs with
  | nil => intro g h; exact Ok.ok h
  | cons e rest ih =>
    intro g h
    unfold runAll
    obtain ⟨g1, e1, i1⟩ := step_ok env g e h
    simp only [e1, GoM.ok_bind]
    exact ih g1 i1

theorem finish_ok (g : G) (h : g.Inv) : Ok G.Inv (finish g) := by
  unfold finish
  split
  · exact Ok.ok h
  · rename_i ts _
    have := TsRemux.dispose_inv tsObserver_inv ts ({ g := g } : TsObs) ⟨rfl, h⟩
    obtain ⟨hf, hi⟩ := this
    dsimp only
    rw [hf]
    exact Ok.ok hi

end Lal.Fanout
