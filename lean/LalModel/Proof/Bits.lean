import LalModel.Model.Bits
import LalModel.Proof.Go
namespace Lal.Bits
open Lal

theorem natBits_length (w v : Nat) : (natBits w v).length = w := by
  induction w with
  | zero => rfl
  | succ w ih => simp [natBits, ih]

theorem bitsValAux_append (a b : List Bool) (acc : Nat) :
    bitsValAux acc (a ++ b) = bitsValAux (bitsValAux acc a) b := by
  induction a generalizing acc with
  | nil => rfl
  | cons x xs ih => simp [bitsValAux, ih]

theorem bitNat_decide (v w : Nat) : bitNat (decide (v / 2 ^ w % 2 = 1)) = v / 2 ^ w % 2 := by
  by_cases h : v / 2 ^ w % 2 = 1
  · simp [bitNat, h]
  · have : v / 2 ^ w % 2 = 0 := by omega
    simp [bitNat, this]

theorem bitsValAux_natBits (w v acc : Nat) : bitsValAux acc (natBits w v) = acc * 2 ^ w + v % 2 ^ w := by
  induction w generalizing acc with
  | zero => simp [natBits, bitsValAux, Nat.mod_one]
  | succ w ih =>
    simp only [natBits, bitsValAux, ih, bitNat_decide]
    rw [Nat.mod_pow_succ, Nat.pow_succ]
    have e1 : acc * (2 ^ w * 2) = 2 * (acc * 2 ^ w) := by rw [← Nat.mul_assoc, Nat.mul_comm]
    have e2 : v / 2 ^ w % 2 * 2 ^ w = 2 ^ w * (v / 2 ^ w % 2) := Nat.mul_comm _ _
    rw [Nat.add_mul, e1, e2, Nat.mul_assoc]
    omega

theorem bitsVal_natBits (w v : Nat) : bitsVal (natBits w v) = v % 2 ^ w := by
  simp [bitsVal, bitsValAux_natBits]

/-- reading back a fixed-width field -/
theorem readBits_natBits (w v : Nat) (rest : List Bool) (h : w ≠ 0 ∨ rest ≠ []) :
    readBits w { bits := natBits w v ++ rest } = .ok (some (v % 2 ^ w), { bits := rest }) := by
  have hl : ¬ ((natBits w v ++ rest).length < w) := by simp [natBits_length]
  have hp : ¬ (w = 0 ∧ (natBits w v ++ rest).isEmpty = true) := by
    intro ⟨h0, he⟩
    subst h0
    cases h with
    | inl h => exact h rfl
    | inr h => simp [natBits] at he; exact h he
  simp only [readBits, Bool.false_eq_true, if_false, hl, hp]
  rw [List.take_left' (natBits_length w v), List.drop_left' (natBits_length w v), bitsVal_natBits]

theorem splitZeros_replicate (n : Nat) (rest : List Bool) :
    splitZeros (List.replicate n false ++ true :: rest) = (n, some rest) := by
  induction n with
  | zero => rfl
  | succ n ih => simp [List.replicate_succ, splitZeros, ih]

theorem log2_bounds (v : Nat) : 2 ^ Nat.log2 (v + 1) ≤ v + 1 ∧ v + 1 < 2 ^ (Nat.log2 (v + 1) + 1) :=
  ⟨Nat.log2_self_le (by omega), Nat.lt_log2_self⟩

/-- ue(v) written per H.264 §9.1 is read back by `ReadUeGolomb`, for every value a 32-bit code number can take
    (v = 0 as the very last bit of the buffer is the nazabits panic, hence the side condition). -/
theorem readUe_ueBits (v : Nat) (rest : List Bool) (hv : v < 4294967295) (h : v ≠ 0 ∨ rest ≠ []) :
    readUe { bits := ueBits v ++ rest } = .ok (some v, { bits := rest }) := by
  obtain ⟨hlo, hhi⟩ := log2_bounds v
  have hn : Nat.log2 (v + 1) < 32 := by
    rw [Nat.log2_lt (by omega)]; omega
  have hn0 : Nat.log2 (v + 1) ≠ 0 ∨ rest ≠ [] := by
    cases h with
    | inr h => exact Or.inr h
    | inl h =>
      left
      intro h0
      rw [h0] at hhi
      omega
  have hp32 : 2 ^ Nat.log2 (v + 1) ≤ 2 ^ 31 := Nat.pow_le_pow_right (by omega) (by omega)
  rw [Nat.pow_succ] at hhi
  simp only [readUe, Bool.false_eq_true, if_false, ueBits, List.append_assoc, List.cons_append, splitZeros_replicate]
  simp only [readBits32, readBits_natBits _ _ rest hn0, shl1u32, hn, if_true]
  generalize Nat.log2 (v + 1) = n at *
  generalize 2 ^ n = P at *
  have hm : (v + 1 - P) % P = v + 1 - P := Nat.mod_eq_of_lt (by omega)
  rw [hm]
  have h31 : (2 : Nat) ^ 31 = 2147483648 := by decide
  rw [h31] at hp32
  have e : (P + (v + 1 - P) % 4294967296 + 4294967295) % 4294967296 = v := by omega
  rw [e]

theorem seOfUe_seCode (x : Int) (h : -1073741823 ≤ x ∧ x ≤ 1073741823) : seOfUe (seCode x) = x := by
  simp only [seOfUe, seCode, toI32]
  by_cases hx : x > 0
  · simp only [hx, if_true]
    have e : ((2 * x - 1).toNat + 1) % 4294967296 = (2 * x).toNat := by omega
    rw [e]
    have c : (2 * x).toNat < 2147483648 := by omega
    simp only [c, if_true]
    have e2 : ((2 * x).toNat : Int) = 2 * x := by omega
    rw [e2]
    have c2 : ¬ (2 * x % 2 = 1) := by omega
    simp only [c2, if_false]
    omega
  · simp only [hx, if_false]
    have e : ((-2 * x).toNat + 1) % 4294967296 = (-2 * x + 1).toNat := by omega
    rw [e]
    have c : (-2 * x + 1).toNat < 2147483648 := by omega
    simp only [c, if_true]
    have e2 : ((-2 * x + 1).toNat : Int) = -2 * x + 1 := by omega
    rw [e2]
    have c2 : (-2 * x + 1) % 2 = 1 := by omega
    simp only [c2, if_true]
    omega

theorem seCode_lt (x : Int) (h : -1073741823 ≤ x ∧ x ≤ 1073741823) : seCode x < 4294967295 := by
  simp only [seCode]; split <;> omega

theorem seCode_ne_zero (x : Int) (h : x ≠ 0) : seCode x ≠ 0 := by
  simp only [seCode]; split <;> omega

/-- se(v) written per H.264 §9.1.1 is read back by `ReadSeGolomb` for |v| < 2^30 (beyond, the int32
    arithmetic of nazabits wraps: see the witnesses in Props/C19) -/
theorem readSe_seBits (x : Int) (rest : List Bool) (hx : -1073741823 ≤ x ∧ x ≤ 1073741823) (h : x ≠ 0 ∨ rest ≠ []) :
    readSe { bits := seBits x ++ rest } = .ok (some x, { bits := rest }) := by
  have hu := readUe_ueBits (seCode x) rest (seCode_lt x hx)
    (by cases h with
        | inl h => exact Or.inl (seCode_ne_zero x h)
        | inr h => exact Or.inr h)
  simp only [readSe, seBits, hu, seOfUe_seCode x hx]

end Lal.Bits
