import LalModel.Proof.AdmissionInv5
import LalModel.Proof.AdmissionRefuse
/- C03 — consequences of the invariant: media is forwarded only from the accepted input; the stat view
   lists only attached sessions. -/
set_option linter.unusedSimpArgs false
namespace Lal.Adm
open Grp Spec

theorem mem_inputsAt_of_holds {s : Srv} {st : Stream} {sl : Slot} {x : Sid} (h : holdsAt s st sl x) (hi : sl.isIn = true) :
    x ∈ inputsAt s st := by
  obtain ⟨g, hg, hh⟩ := h
  simp only [inputsAt, hg, Option.map_some, Option.getD_some]
  rw [mem_inputs]
  cases sl <;> simp_all [holds, Slot.isIn]

/-- only the media events can be answered `fwd` -/
theorem fwd_is_media {s : Srv} {e : Ev} {st : Stream} (h : (step Code.fixed s e).2 = .fwd st) :
    (∃ c, e = .rMedia c) ∨ (∃ c, e = .sMedia c) ∨ (∃ k, e = .custFeed k) ∨ (∃ k, e = .psMedia k) ∨ (∃ a, e = .pullMedia a) := by
  cases e <;> simp only [step] at h
  case rMedia c => exact Or.inl ⟨c, rfl⟩
  case sMedia c => exact Or.inr (Or.inl ⟨c, rfl⟩)
  case custFeed k => exact Or.inr (Or.inr (Or.inl ⟨k, rfl⟩))
  case psMedia k => exact Or.inr (Or.inr (Or.inr (Or.inl ⟨k, rfl⟩)))
  case pullMedia a => exact Or.inr (Or.inr (Or.inr (Or.inr ⟨a, rfl⟩)))
  case rOpen c => unfold rOpen at h; split at h <;> simp at h
  case rPublish c st' a =>
    exfalso; unfold rPublish at h
    split at h
    · split at h
      · simp at h
      · split at h
        · simp [Code.fixed] at h
        · dsimp only at h; split at h <;> simp at h
    · simp at h
  case rPlay c st' a n =>
    exfalso; unfold rPlay at h
    split at h
    · split at h
      · simp at h
      · split at h
        · simp [Code.fixed] at h
        · dsimp only at h; split at h <;> simp at h
    · simp at h
  case rClose c => exfalso; unfold rClose at h; (repeat' split at h) <;> simp at h
  case sOpen c => unfold sOpen at h; split at h <;> simp at h
  case sAnnounce c p st' a =>
    exfalso; unfold sAnnounce at h
    split at h
    · split at h
      · simp at h
      · split at h
        · simp at h
        · dsimp only at h; split at h <;> simp at h
    · simp at h
  case sDescribe c p st' a =>
    exfalso; unfold sDescribe at h
    split at h
    · split at h
      · simp at h
      · split at h
        · simp at h
        · dsimp only at h; split at h <;> simp at h
    · simp at h
  case sSetup c => exfalso; unfold sSetup at h; (repeat' split at h) <;> simp at h
  case sRecord c => exfalso; unfold sRecord at h; (repeat' split at h) <;> simp at h
  case sPlay c n => exfalso; unfold sPlay at h; (repeat' split at h) <;> simp at h
  case sClose c => exfalso; unfold sClose at h; (repeat' split at h) <;> simp at h
  case custAdd k st' =>
    exfalso; unfold custAdd at h; split at h
    · simp at h
    · dsimp only at h; split at h <;> simp at h
  case custDel k =>
    exfalso; unfold custDel at h
    split at h
    · split at h
      · simp at h
      · dsimp only at h
        split at h
        · simp at h
        · split at h <;> simp at h
    · simp at h
  case rtpPub k st' =>
    exfalso; unfold rtpPub at h; split at h
    · simp at h
    · dsimp only at h; split at h <;> simp at h
  case psEnd k =>
    exfalso; unfold psEnd at h
    split at h
    · split at h
      · simp at h
      · dsimp only at h
        split at h <;> simp at h
    · simp at h
  case startPull st' r n nid =>
    exfalso; unfold startPull at h; split at h
    · simp at h
    · dsimp only at h; split at h <;> simp at h
  case pullAttach a =>
    exfalso; unfold pullAttach at h
    split at h
    · split at h
      · simp at h
      · split at h
        · simp at h
        · dsimp only at h; split at h <;> split at h <;> simp at h
    · simp at h
  case pullDone a => exfalso; unfold pullDone at h; (repeat' split at h) <;> simp at h
  case stopPull st' =>
    exfalso; unfold stopPull at h; split at h
    · simp at h
    · dsimp only at h; split at h <;> simp at h
  case kick st' x =>
    exfalso; unfold kick at h; split at h
    · simp at h
    · dsimp only at h; split at h <;> simp at h
  case tick st' n => exfalso; unfold tick at h; (repeat' split at h) <;> simp at h
  case stat st' => simp at h

/-- only an arrival can be answered `refused` -/
theorem refused_is_arrival {s : Srv} {e : Ev} (h : (step Code.fixed s e).2 = .refused) :
    (∃ c st a, e = .rPublish c st a) ∨ (∃ c st a n, e = .rPlay c st a n) ∨ (∃ c p st a, e = .sAnnounce c p st a) ∨
    (∃ c q st a, e = .sDescribe c q st a) ∨ (∃ k st, e = .custAdd k st) ∨ (∃ k st, e = .rtpPub k st) ∨ (∃ a, e = .pullAttach a) := by
  cases e <;> simp only [step] at h
  case rMedia c => exfalso; unfold rMedia at h; (repeat' split at h) <;> simp at h
  case sMedia c => exfalso; unfold sMedia at h; (repeat' split at h) <;> simp at h
  case custFeed k => exfalso; unfold custFeed at h; (repeat' split at h) <;> simp at h
  case psMedia k => exfalso; unfold psMedia at h; (repeat' split at h) <;> simp at h
  case pullMedia a => exfalso; unfold pullMedia at h; (repeat' split at h) <;> simp at h
  case rOpen c => unfold rOpen at h; split at h <;> simp at h
  case rPublish c st' a => exact Or.inl ⟨c, st', a, rfl⟩
  case rPlay c st' a n => exact Or.inr (Or.inl ⟨c, st', a, n, rfl⟩)
  case rClose c => exfalso; unfold rClose at h; (repeat' split at h) <;> simp at h
  case sOpen c => unfold sOpen at h; split at h <;> simp at h
  case sAnnounce c p st' a => exact Or.inr (Or.inr (Or.inl ⟨c, p, st', a, rfl⟩))
  case sDescribe c p st' a => exact Or.inr (Or.inr (Or.inr (Or.inl ⟨c, p, st', a, rfl⟩)))
  case sSetup c => exfalso; unfold sSetup at h; (repeat' split at h) <;> simp at h
  case sRecord c => exfalso; unfold sRecord at h; (repeat' split at h) <;> simp at h
  case sPlay c n => exfalso; unfold sPlay at h; (repeat' split at h) <;> simp at h
  case sClose c => exfalso; unfold sClose at h; (repeat' split at h) <;> simp at h
  case custAdd k st' => exact Or.inr (Or.inr (Or.inr (Or.inr (Or.inl ⟨k, st', rfl⟩))))
  case custDel k =>
    exfalso; unfold custDel at h
    split at h
    · split at h
      · simp at h
      · dsimp only at h
        split at h
        · simp at h
        · split at h <;> simp at h
    · simp at h
  case rtpPub k st' => exact Or.inr (Or.inr (Or.inr (Or.inr (Or.inr (Or.inl ⟨k, st', rfl⟩)))))
  case psEnd k =>
    exfalso; unfold psEnd at h
    split at h
    · split at h
      · simp at h
      · dsimp only at h
        split at h <;> simp at h
    · simp at h
  case startPull st' r n nid =>
    exfalso; unfold startPull at h; split at h
    · simp at h
    · dsimp only at h; split at h <;> simp at h
  case pullAttach a => exact Or.inr (Or.inr (Or.inr (Or.inr (Or.inr (Or.inr ⟨a, rfl⟩)))))
  case pullDone a => exfalso; unfold pullDone at h; (repeat' split at h) <;> simp at h
  case stopPull st' =>
    exfalso; unfold stopPull at h; split at h
    · simp at h
    · dsimp only at h; split at h <;> simp at h
  case kick st' x =>
    exfalso; unfold kick at h; split at h
    · simp at h
    · dsimp only at h; split at h <;> simp at h
  case tick st' n => exfalso; unfold tick at h; (repeat' split at h) <;> simp at h
  case stat st' => simp at h

/-- T4 on any state that satisfies the invariant -/
theorem fwd_from_input {s : Srv} (h : Inv s) {e : Ev} {st : Stream} (hf : (step Code.fixed s e).2 = .fwd st) :
    ∃ x, source s e = some x ∧ x ∈ inputsAt s st := by
  rcases fwd_is_media hf with ⟨c, rfl⟩ | ⟨c, rfl⟩ | ⟨k, rfl⟩ | ⟨k, rfl⟩ | ⟨a, rfl⟩ <;> simp only [step] at hf
  · -- rMedia
    unfold rMedia at hf
    split at hf
    · rename_i r hr
      split at hf
      · simp at hf
      · rename_i hc
        simp only [Bool.or_eq_true, bne_iff_ne, ne_eq, not_or, Bool.not_eq_true, Decidable.not_not] at hc
        split at hf
        · rename_i st' ho
          split at hf
          · simp at hf; subst hf
            obtain ⟨h1, h2, h3⟩ := h.obs c r st' hr ho
            refine ⟨c, rfl, ?_⟩
            have hclaim : claimOf s c = some (st', .rtmpPub) := by
              rw [claimOf_of_sess hr]; simp [Sess.claim, hc.1, h3, h1, h2]
            exact mem_inputsAt_of_holds ((h.ci c _ _).mp hclaim) rfl
          · simp at hf
        · simp at hf
    · simp at hf
  · -- sMedia
    unfold sMedia at hf
    split at hf
    · rename_i k hk
      split at hf
      · simp at hf
      · rename_i hcl
        have hcl' : k.closed = false := by simpa using hcl
        split at hf
        · rename_i p hp
          split at hf
          · rename_i pp hpp
            split at hf
            · rename_i hacc
              simp at hf; subst hf
              simp only [Bool.and_eq_true] at hacc
              obtain ⟨_, h2, _⟩ := h.link c k hk hcl'
              obtain ⟨pp', e1, _, e3, _, _⟩ := h2 p hp
              rw [hpp] at e1; cases e1
              refine ⟨p, by simp [source, hk, hp], ?_⟩
              have hclaim : claimOf s p = some (pp.stream, .rtspPub) := by
                rw [claimOf_of_sess hpp]; simp [Sess.claim, hacc.1, e3]
              exact mem_inputsAt_of_holds ((h.ci p _ _).mp hclaim) rfl
            · simp at hf
          · simp at hf
        · split at hf <;> simp at hf
    · simp at hf
  · -- custFeed
    unfold custFeed at hf
    split at hf
    · rename_i cu hcu
      split at hf
      · simp at hf
      · rename_i hd
        split at hf
        · simp at hf; subst hf
          refine ⟨k, rfl, ?_⟩
          have hdel : cu.deleted = false := by
            cases hx : cu.deleted
            · rfl
            · exact absurd (h.cust k cu hcu hx) hd
          have hclaim : claimOf s k = some (cu.stream, .custPub) := by
            rw [claimOf_of_sess hcu]; simp [Sess.claim, hdel]
          exact mem_inputsAt_of_holds ((h.ci k _ _).mp hclaim) rfl
        · simp at hf
    · simp at hf
  · -- psMedia
    unfold psMedia at hf
    split at hf
    · rename_i p hp
      split at hf
      · simp at hf
      · rename_i he
        have he' : p.ended = false := by simpa using he
        split at hf
        · split at hf
          · simp at hf; subst hf
            refine ⟨k, rfl, ?_⟩
            have hclaim : claimOf s k = some (p.stream, .psPub) := by
              rw [claimOf_of_sess hp]; simp [Sess.claim, he']
            exact mem_inputsAt_of_holds ((h.ci k _ _).mp hclaim) rfl
          · simp at hf
        · simp at hf
    · simp at hf
  · -- pullMedia
    unfold pullMedia at hf
    split at hf
    · rename_i p hp
      split at hf
      · simp at hf
      · split at hf
        · simp at hf
        · rename_i hatt
          simp only [Code.fixed, Bool.true_and, bne_iff_ne, ne_eq, Decidable.not_not] at hatt
          split at hf
          · simp at hf; subst hf
            refine ⟨a, rfl, ?_⟩
            have hclaim : claimOf s a = some (p.stream, if p.rtsp then .pullRtsp else .pullRtmp) := by
              rw [claimOf_of_sess hp]; simp [Sess.claim, hatt]
            refine mem_inputsAt_of_holds ((h.ci a _ _).mp hclaim) ?_
            cases p.rtsp <;> rfl
          · simp at hf
    · simp at hf

/-- T6 on any state that satisfies the invariant: whoever the stat view of `st` lists claims a place in
    `st` (is a live, accepted session of that stream) -/
theorem stat_listed_claims {s : Srv} (h : Inv s) {st : Stream} {x : Sid} (hx : x ∈ statIds (statView s st)) :
    ∃ sl, claimOf s x = some (st, sl) := by
  unfold statView at hx
  cases hg : s.groups st with
  | none => simp [hg, statIds] at hx
  | some g =>
    simp only [hg, statIds, List.mem_append, Option.mem_toList] at hx
    have held : ∀ sl, g.holds sl x → ∃ sl, claimOf s x = some (st, sl) :=
      fun sl hh => ⟨sl, (h.ci x st sl).mpr ⟨g, hg, hh⟩⟩
    rcases hx with (hx | hx) | hx
    · unfold Grp.statPub at hx
      split at hx
      · rename_i y hy; cases hx; exact held .rtmpPub hy
      · split at hx
        · rename_i y hy; cases hx; exact held .rtspPub hy
        · exact held .psPub hx
    · unfold Grp.statPull at hx
      split at hx
      · rename_i y hy; cases hx; exact held .pullRtmp hy
      · exact held .pullRtsp hx
    · unfold Grp.statSubs at hx
      rcases List.mem_append.mp hx with hx | hx
      · exact held .rtmpSub hx
      · exact held .rtspSub hx

theorem coreAt_congr {s s' : Srv} (e : s'.groups = s.groups) (st : Stream) : coreAt s' st = coreAt s st := by
  unfold coreAt; rw [e]

theorem noteRelay_log_stop (s : Srv) (a : Sid) : (s.noteRelay [.relayStop a]).log = s.log ++ [⟨.pullStop, a⟩] := by
  simp [Srv.noteRelay]

/-- T2 on any state that satisfies the invariant -/
theorem refusal_silent {s : Srv} (h : Inv s) {e : Ev} (hr : (step Code.fixed s e).2 = .refused) :
    (∀ st, coreAt (step Code.fixed s e).1 st = coreAt s st) ∧
    ((∀ a, e ≠ .pullAttach a) → (step Code.fixed s e).1.groups = s.groups ∧ (step Code.fixed s e).1.log = s.log) ∧
    (∀ a, e = .pullAttach a → (step Code.fixed s e).1.log = s.log ++ [⟨.pullStop, a⟩]) := by
  rcases refused_is_arrival hr with ⟨c, st, a, rfl⟩ | ⟨c, st, a, n, rfl⟩ | ⟨c, p, st, a, rfl⟩ | ⟨c, q, st, a, rfl⟩ |
      ⟨k, st, rfl⟩ | ⟨k, st, rfl⟩ | ⟨a, rfl⟩ <;> simp only [step] at hr ⊢
  · obtain ⟨r, _, e⟩ := rPublish_refused_eq hr
    rw [e]; exact ⟨fun st => coreAt_congr (by simp) st, fun _ => ⟨by simp, by simp⟩, fun a e => by cases e⟩
  · obtain ⟨r, _, e⟩ := rPlay_refused_eq hr
    rw [e]; exact ⟨fun st => coreAt_congr (by simp) st, fun _ => ⟨by simp, by simp⟩, fun a e => by cases e⟩
  · obtain ⟨e1, e2⟩ := sAnnounce_refused hr
    exact ⟨fun st => coreAt_congr e1 st, fun _ => ⟨e1, e2⟩, fun a e => by cases e⟩
  · obtain ⟨e1, e2⟩ := sDescribe_refused hr
    exact ⟨fun st => coreAt_congr e1 st, fun _ => ⟨e1, e2⟩, fun a e => by cases e⟩
  · rw [custAdd_refused hr]; exact ⟨fun _ => rfl, fun _ => ⟨rfl, rfl⟩, fun a e => by cases e⟩
  · rw [rtpPub_refused hr]; exact ⟨fun _ => rfl, fun _ => ⟨rfl, rfl⟩, fun a e => by cases e⟩
  · obtain ⟨p, hp, hst, e, hg⟩ := pullAttach_refused hr
    have hc0 : claimOf s a = none := by rw [claimOf_of_sess hp]; simp [Sess.claim, hst]
    have hnot : ∀ st, a ∉ inputsAt s st := by
      intro st hm
      cases hgs : s.groups st with
      | none => simp [inputsAt, hgs] at hm
      | some g =>
        simp only [inputsAt, hgs, Option.map_some, Option.getD_some] at hm
        rw [mem_inputs] at hm
        have : ∃ sl, holdsAt s st sl a := by
          rcases hm with hm | hm | hm | hm | hm | hm
          · exact ⟨.rtmpPub, g, hgs, hm⟩
          · exact ⟨.rtspPub, g, hgs, hm⟩
          · exact ⟨.custPub, g, hgs, hm⟩
          · exact ⟨.psPub, g, hgs, hm⟩
          · exact ⟨.pullRtmp, g, hgs, hm⟩
          · exact ⟨.pullRtsp, g, hgs, hm⟩
        obtain ⟨sl, hh⟩ := this
        exact h.ci.not_held hc0 st sl hh
    rw [e]
    refine ⟨?_, fun hne => absurd rfl (hne a), ?_⟩
    · intro st
      rw [Srv.core_delPull]
      · simp
      · rw [inputsAt_congr (s := s) (by simp)]; exact hnot st
    · intro a' ea; cases ea
      unfold Srv.delPull
      simp only [Srv.modP_groups]
      cases hgs : s.groups p.stream with
      | none => simp [hgs] at hg
      | some g =>
        dsimp only
        have hna : a ∉ g.inputs := by
          have := hnot p.stream; simpa [inputsAt, hgs] using this
        have : (g.delPull Code.fixed a).2 = [.relayStop a] := by
          have h1 : g.pullRtmp ≠ some a := fun hh => hna (mem_inputs.mpr (Or.inr (Or.inr (Or.inr (Or.inr (Or.inl hh))))))
          have h2 : g.pullRtsp ≠ some a := fun hh => hna (mem_inputs.mpr (Or.inr (Or.inr (Or.inr (Or.inr (Or.inr hh))))))
          unfold Grp.delPull; simp [Code.fixed, h1, h2]
        rw [this, noteRelay_log_stop]; simp

end Lal.Adm
