import LalModel.Model.Av2Rtmp
import LalModel.Spec.Av2RtmpSpec
import LalModel.Proof.SeqHeader
import LalModel.Proof.Nalu
/-
  AvPacket2RtmpRemuxer against the specification of Spec/Av2RtmpSpec.lean (C07 `av2rtmp_frames`).
-/
namespace Lal.Av2Rtmp
open Lal Lal.Av Lal.Av2RtmpSpec

/-- the video message `emitRtmpAvMsg(false, payload, ts)` hands to the callback -/
def vmsg (payload : Bytes) (ts : Int) : Msg := { typ := 9, csid := 7, msid := 1, ts := u32 ts, payload := payload }

/-- the video messages of an output -/
def vid (ms : List Msg) : List Msg := ms.filter (·.typ = 9)

def setsOf (st : St) : Sets := (st.vps, st.sps, st.pps)

/-- the fields `FeedAvPacket` never writes in its video branch -/
def sameOpts (a b : St) : Prop :=
  a.videoFormat = b.videoFormat ∧ a.audioFormat = b.audioFormat ∧ a.audioType = b.audioType ∧ a.videoType = b.videoType ∧
  a.hasAdts2Asc = b.hasAdts2Asc

theorem sameOpts_refl (a : St) : sameOpts a a := ⟨rfl, rfl, rfl, rfl, rfl⟩
theorem sameOpts_trans {a b c : St} (h1 : sameOpts a b) (h2 : sameOpts b c) : sameOpts a c := by
  obtain ⟨a1, a2, a3, a4, a5⟩ := h1
  obtain ⟨b1, b2, b3, b4, b5⟩ := h2
  exact ⟨a1.trans b1, a2.trans b2, a3.trans b3, a4.trans b4, a5.trans b5⟩

theorem vid_append (a b : List Msg) : vid (a ++ b) = vid a ++ vid b := by simp [vid]

theorem emit_video (st : St) (p : Bytes) (ts : Int) :
    (emit st false p ts).1 = { st with hasEmittedMetadata := true } ∧ vid (emit st false p ts).2 = [vmsg p ts] := by
  unfold emit
  by_cases h : st.hasEmittedMetadata = true
  · simp only [h, if_true]
    refine ⟨?_, by simp [vid, vmsg]⟩
    cases st; simp_all
  · simp only [h]
    exact ⟨rfl, by simp [vid, vmsg]⟩

/-- `BuildSeqHeader…` on a group of parameter sets -/
def buildSets (hevc : Bool) (s : Sets) : GoM Bytes :=
  if hevc then SeqHeader.hevcBuild s.1 s.2.1 s.2.2 else SeqHeader.avcBuild s.2.1 s.2.2

theorem buildSh_eq (hevc : Bool) (st : St) : buildSh hevc st = buildSets hevc (setsOf st) := rfl

theorem naluType_eq (hevc : Bool) (n : Bytes) : naluTypeOf hevc (n.headD 0) = nalType hevc n := by
  unfold naluTypeOf nalType; rfl

theorem aud_iff (hevc : Bool) (n : Bytes) : (nalType hevc n = audType hevc) ↔ isAud hevc n = true := by
  unfold isAud audType; simp

theorem isPsType_eq (hevc : Bool) (n : Bytes) : isPsType hevc (nalType hevc n) = isParamSet hevc n := by
  unfold isPsType isParamSet; rfl

theorem isKeyType_eq (hevc : Bool) (n : Bytes) : isKeyType hevc (nalType hevc n) = isKey hevc n := by
  unfold isKeyType isKey isIrap
  cases hevc <;> simp

theorem setPs_sets (hevc : Bool) (st : St) (n : Bytes) (h : isParamSet hevc n = true) :
    setsOf (setPs hevc st (nalType hevc n) n) = addSet hevc (setsOf st) n := by
  unfold setPs addSet setsOf
  cases hevc
  · simp only [Bool.false_eq_true, if_false]
    by_cases h7 : nalType false n = 7 <;> simp [h7]
  · simp only [if_true]
    by_cases h32 : nalType true n = 32
    · simp [h32]
    · by_cases h33 : nalType true n = 33 <;> simp [h32, h33]

theorem setPs_same (hevc : Bool) (st : St) (t : Nat) (n : Bytes) : sameOpts (setPs hevc st t n) st ∧
    (setPs hevc st t n).hasEmittedMetadata = st.hasEmittedMetadata := by
  unfold setPs sameOpts
  cases hevc <;> simp <;> (repeat' split) <;> simp

theorem psComplete_eq (hevc : Bool) (st : St) : psComplete hevc st = complete hevc (setsOf st) := rfl

theorem key_ne_inter (hevc : Bool) : (interByte hevc == keyByte hevc) = false := by cases hevc <;> decide

theorem ps_not_aud (hevc : Bool) (n : Bytes) (h : isParamSet hevc n = true) : isAud hevc n = false := by
  unfold isParamSet at h
  unfold isAud
  cases hevc
  · simp only [Bool.false_eq_true, if_false, Bool.or_eq_true, beq_iff_eq] at h ⊢
    rcases h with h | h <;> simp [h]
  · simp only [if_true, Bool.or_eq_true, beq_iff_eq] at h ⊢
    rcases h with (h | h) | h <;> simp [h]

theorem step_aud (hevc : Bool) (ts : Int) (s : St × List Msg × VAcc) (n : Bytes) (h : isAud hevc n = true) :
    step .fixed hevc ts s n = s := by
  unfold step
  simp only [naluType_eq]
  rw [if_pos ((aud_iff hevc n).mpr h)]

theorem step_data (hevc : Bool) (ts : Int) (s : St × List Msg × VAcc) (n : Bytes)
    (h1 : isAud hevc n = false) (h2 : isParamSet hevc n = false) :
    step .fixed hevc ts s n = (s.1, s.2.1, accNal .fixed hevc s.2.2 (isKey hevc n) n) := by
  unfold step
  simp only [naluType_eq, isPsType_eq, isKeyType_eq]
  rw [if_neg (fun e => by rw [(aud_iff hevc n).mp e] at h1; cases h1), h2]
  simp

theorem step_ps_incomplete (hevc : Bool) (ts : Int) (s : St × List Msg × VAcc) (n : Bytes)
    (h2 : isParamSet hevc n = true) (hc : complete hevc (addSet hevc (setsOf s.1) n) = false) :
    step .fixed hevc ts s n = (setPs hevc s.1 (nalType hevc n) n, s.2.1, s.2.2) := by
  have h1 := ps_not_aud hevc n h2
  unfold step
  simp only [naluType_eq, isPsType_eq]
  rw [if_neg (fun e => by rw [(aud_iff hevc n).mp e] at h1; cases h1), h2]
  simp only [if_true, psComplete_eq, setPs_sets hevc s.1 n h2, hc, Bool.false_eq_true, if_false]

theorem step_ps_complete (hevc : Bool) (ts : Int) (s : St × List Msg × VAcc) (n : Bytes) (sh : Bytes)
    (h2 : isParamSet hevc n = true) (hc : complete hevc (addSet hevc (setsOf s.1) n) = true)
    (hb : buildSets hevc (addSet hevc (setsOf s.1) n) = .ok sh) :
    step .fixed hevc ts s n =
      ({ (emit (setPs hevc s.1 (nalType hevc n) n) false sh ts).1 with vps := [], sps := [], pps := [] },
       s.2.1 ++ (emit (setPs hevc s.1 (nalType hevc n) n) false sh ts).2, s.2.2) := by
  have h1 := ps_not_aud hevc n h2
  unfold step
  simp only [naluType_eq, isPsType_eq]
  rw [if_neg (fun e => by rw [(aud_iff hevc n).mp e] at h1; cases h1), h2]
  simp only [if_true, psComplete_eq, buildSh_eq, setPs_sets hevc s.1 n h2, hc, hb]

/-- the frame-type byte of a flag -/
def byteOf (hevc : Bool) (k : Bool) : UInt8 := if k then keyByte hevc else interByte hevc

theorem byteOf_beq (hevc : Bool) (k : Bool) : (byteOf hevc k == keyByte hevc) = k := by
  cases hevc <;> cases k <;> decide

/-- the frame-type byte after writing the unit(s) -/
def b0After (hevc : Bool) (b0 : UInt8) (d : List Bytes) : UInt8 :=
  if d = [] then b0 else byteOf hevc (b0 == keyByte hevc || d.any (isKey hevc))

theorem b0After_cons (hevc : Bool) (b0 : UInt8) (n : Bytes) (d : List Bytes) :
    b0After hevc (byteOf hevc (isKey hevc n || b0 == keyByte hevc)) d = b0After hevc b0 (n :: d) := by
  unfold b0After
  by_cases hd : d = []
  · subst hd
    simp only [if_true, List.any_cons, List.any_nil, Bool.or_false, reduceCtorEq, if_false]
    rw [Bool.or_comm]
  · simp only [hd, if_false, List.any_cons, reduceCtorEq, byteOf_beq]
    cases isKey hevc n <;> cases (b0 == keyByte hevc) <;> simp

/-- sequence-header payloads built from the groups, pairwise -/
def Built (hevc : Bool) : List Sets → List Bytes → Prop
  | [], [] => True
  | s :: ss, b :: bs => buildSets hevc s = .ok b ∧ Built hevc ss bs
  | _, _ => False

/-- The loop `for _, nal := range nals` of the video branch, against the specification walk: parameter sets,
    untouched options, the sequence headers emitted (one per completed group, built from exactly that group),
    and the message under construction. -/
theorem fold_spec (hevc : Bool) (ts : Int) :
    ∀ (nals : List Bytes) (st : St) (out : List Msg) (acc : VAcc),
      (∀ s ∈ (headers hevc (setsOf st) nals).2, ∃ sh, buildSets hevc s = .ok sh) →
      setsOf (nals.foldl (step .fixed hevc ts) (st, out, acc)).1 = (headers hevc (setsOf st) nals).1
      ∧ sameOpts (nals.foldl (step .fixed hevc ts) (st, out, acc)).1 st
      ∧ (∃ shs : List Bytes, Built hevc (headers hevc (setsOf st) nals).2 shs
            ∧ vid (nals.foldl (step .fixed hevc ts) (st, out, acc)).2.1 = vid out ++ shs.map (vmsg · ts))
      ∧ (nals.foldl (step .fixed hevc ts) (st, out, acc)).2.2.body = acc.body ++ Nalu.joinNaluAvcc (dataNals hevc nals)
      ∧ (nals.foldl (step .fixed hevc ts) (st, out, acc)).2.2.b0 = b0After hevc acc.b0 (dataNals hevc nals)
      ∧ (nals.foldl (step .fixed hevc ts) (st, out, acc)).2.2.b1 = (if dataNals hevc nals = [] then acc.b1 else 1) := by
  intro nals
  induction nals with
  | nil =>
    intro st out acc _
    refine ⟨rfl, sameOpts_refl _, ⟨[], trivial, by simp⟩, by simp [dataNals, Nalu.joinNaluAvcc], by simp [dataNals, b0After], by simp [dataNals]⟩
  | cons n ns ih =>
    intro st out acc hb
    rw [List.foldl_cons]
    by_cases hps : isParamSet hevc n = true
    · -- parameter set
      have hd : dataNals hevc (n :: ns) = dataNals hevc ns := by
        simp [dataNals, hps]
      by_cases hc : complete hevc (addSet hevc (setsOf st) n) = true
      · -- group complete: sequence header, sets cleared
        have hh : headers hevc (setsOf st) (n :: ns) =
            ((headers hevc ([], [], []) ns).1, addSet hevc (setsOf st) n :: (headers hevc ([], [], []) ns).2) := by
          simp [headers, hps, hc]
        rw [hh] at hb ⊢
        obtain ⟨sh, hsh⟩ := hb _ (List.mem_cons_self ..)
        rw [step_ps_complete hevc ts (st, out, acc) n sh hps hc hsh]
        have he := emit_video (setPs hevc st (nalType hevc n) n) sh ts
        have hsame := setPs_same hevc st (nalType hevc n) n
        have ih' := ih { (emit (setPs hevc st (nalType hevc n) n) false sh ts).1 with vps := [], sps := [], pps := [] }
          (out ++ (emit (setPs hevc st (nalType hevc n) n) false sh ts).2) acc
          (fun s hs => hb s (List.mem_cons_of_mem _ hs))
        have hsets : setsOf { (emit (setPs hevc st (nalType hevc n) n) false sh ts).1 with vps := [], sps := [], pps := [] } = ([], [], []) := rfl
        rw [hsets] at ih'
        obtain ⟨i1, i2, ⟨shs, i3, i4⟩, i5, i6, i7⟩ := ih'
        refine ⟨i1, ?_, ⟨sh :: shs, ⟨hsh, i3⟩, ?_⟩, by rw [i5, hd], by rw [i6, hd], by rw [i7, hd]⟩
        · refine sameOpts_trans i2 ?_
          rw [he.1]
          exact hsame.1
        · rw [i4, vid_append, he.2]
          simp
      · -- group not complete yet
        have hc' : complete hevc (addSet hevc (setsOf st) n) = false := by simpa using hc
        have hh : headers hevc (setsOf st) (n :: ns) = headers hevc (addSet hevc (setsOf st) n) ns := by
          simp [headers, hps, hc']
        rw [hh] at hb ⊢
        rw [step_ps_incomplete hevc ts (st, out, acc) n hps hc']
        have hsame := setPs_same hevc st (nalType hevc n) n
        have ih' := ih (setPs hevc st (nalType hevc n) n) out acc (by rw [setPs_sets hevc st n hps]; exact hb)
        rw [setPs_sets hevc st n hps] at ih'
        obtain ⟨i1, i2, i3, i5, i6, i7⟩ := ih'
        exact ⟨i1, sameOpts_trans i2 hsame.1, i3, by rw [i5, hd], by rw [i6, hd], by rw [i7, hd]⟩
    · have hps' : isParamSet hevc n = false := by simpa using hps
      have hh : headers hevc (setsOf st) (n :: ns) = headers hevc (setsOf st) ns := by
        simp [headers, hps']
      rw [hh] at hb ⊢
      by_cases ha : isAud hevc n = true
      · -- access unit delimiter: dropped
        have hd : dataNals hevc (n :: ns) = dataNals hevc ns := by simp [dataNals, ha]
        rw [step_aud hevc ts (st, out, acc) n ha, hd]
        exact ih st out acc hb
      · -- a unit of the frame
        have ha' : isAud hevc n = false := by simpa using ha
        have hd : dataNals hevc (n :: ns) = n :: dataNals hevc ns := by simp [dataNals, ha', hps']
        rw [step_data hevc ts (st, out, acc) n ha' hps']
        have ih' := ih st out (accNal .fixed hevc acc (isKey hevc n) n) hb
        obtain ⟨i1, i2, i3, i5, i6, i7⟩ := ih'
        refine ⟨i1, i2, i3, ?_, ?_, ?_⟩
        · rw [i5, hd, Nalu.joinNaluAvcc_cons]
          simp [accNal]
        · rw [i6, hd]
          exact b0After_cons hevc acc.b0 n (dataNals hevc ns)
        · rw [i7, hd]
          simp [accNal]

theorem joinNaluAvcc_eq_nil (d : List Bytes) : Nalu.joinNaluAvcc d = [] ↔ d = [] := by
  cases d with
  | nil => simp [Nalu.joinNaluAvcc]
  | cons a as => rw [Nalu.joinNaluAvcc_cons]; simp [be32]

/-- the frame message written for the units `d` -/
def frameMsg (hevc : Bool) (d : List Bytes) (ts : Int) : Msg :=
  vmsg ([byteOf hevc (d.any (isKey hevc)), 1, 0, 0, 0] ++ Nalu.joinNaluAvcc d) ts

/-- One packet through the video branch (after the split): state and video messages. -/
theorem feedVideoNals_spec (hevc : Bool) (ts : Int) (nals : List Bytes) (st : St)
    (hb : ∀ s ∈ (headers hevc (setsOf st) nals).2, ∃ sh, buildSets hevc s = .ok sh) :
    setsOf (feedVideoNals .fixed st hevc ts nals).1 = (headers hevc (setsOf st) nals).1
    ∧ sameOpts (feedVideoNals .fixed st hevc ts nals).1 st
    ∧ ∃ shs : List Bytes, Built hevc (headers hevc (setsOf st) nals).2 shs
        ∧ vid (feedVideoNals .fixed st hevc ts nals).2 =
            shs.map (vmsg · ts) ++ (if dataNals hevc nals = [] then [] else [frameMsg hevc (dataNals hevc nals) ts]) := by
  obtain ⟨f1, f2, ⟨shs, f3, f4⟩, f5, f6, f7⟩ := fold_spec hevc ts nals st [] {} hb
  unfold feedVideoNals
  simp only []
  by_cases hd : dataNals hevc nals = []
  · have hbody : (nals.foldl (step .fixed hevc ts) (st, [], {})).2.2.body = [] := by
      rw [f5, hd]; rfl
    rw [if_neg (by simp [hbody])]
    refine ⟨f1, f2, shs, f3, ?_⟩
    rw [f4, hd]
    simp [vid]
  · have hbody : (nals.foldl (step .fixed hevc ts) (st, [], {})).2.2.body ≠ [] := by
      rw [f5]
      intro e
      have : Nalu.joinNaluAvcc (dataNals hevc nals) = [] := by simpa using e
      exact hd ((joinNaluAvcc_eq_nil _).mp this)
    rw [if_pos hbody]
    have he := emit_video (nals.foldl (step .fixed hevc ts) (st, [], {})).1
      ([(nals.foldl (step .fixed hevc ts) (st, [], {})).2.2.b0, (nals.foldl (step .fixed hevc ts) (st, [], {})).2.2.b1, 0, 0, 0]
        ++ (nals.foldl (step .fixed hevc ts) (st, [], {})).2.2.body) ts
    refine ⟨?_, ?_, shs, f3, ?_⟩
    · rw [he.1]; exact f1
    · rw [he.1]; exact f2
    · rw [vid_append, he.2, f4, f5, f6, f7]
      simp only [hd, if_false, frameMsg, b0After]
      have h0 : ((0 : UInt8) == keyByte hevc) = false := by cases hevc <;> decide
      simp [vid, h0]

/-! ### reading the messages back with the specification-side readers -/

theorem readVideo_frame (hevc : Bool) (d : List Bytes) (ts : Int) (hd : ∀ n ∈ d, n.length < 4294967296) :
    readVideo hevc (frameMsg hevc d ts) = some (.frame (u32 ts) (d.any (isKey hevc)) d) := by
  have hr := ConfigRecord.readLengthPrefixed_join d hd
  unfold readVideo frameMsg vmsg
  simp only [List.cons_append, List.nil_append, ConfigRecord.videoTagHeader]
  cases hevc <;> cases hk : d.any (isKey _) <;>
    simp [byteOf, keyByte, interByte, hr, rd24]

theorem readVideo_seqHdr (hevc : Bool) (s : Sets) (sh : Bytes) (ts : Int) (hb : buildSets hevc s = .ok sh)
    (hv : s.1.length < 65536) (hs : s.2.1.length < 65536) (hp : s.2.2.length < 65536) :
    readVideo hevc (vmsg sh ts) = some (.seqHdr (u32 ts) (normSets hevc s)) := by
  obtain ⟨v, sp, pp⟩ := s
  cases hevc
  · simp only [buildSets, Bool.false_eq_true, if_false] at hb
    obtain ⟨x, y, rfl⟩ := SeqHeader.avcBuild_layout sp pp sh hb
    have h := SeqHeader.avcC_layout x y sp pp hs hp
    unfold readVideo vmsg
    simp only [h]
    simp [SeqHeader.avcLayout, ConfigRecord.videoTagHeader, rd24, normSets]
  · simp only [buildSets, if_true] at hb
    obtain ⟨mid, ⟨hm, hres⟩, rfl⟩ := SeqHeader.hevcBuild_layout v sp pp sh hb
    obtain ⟨r, h, h32, h33, h34, _⟩ := SeqHeader.hvcC_layout mid v sp pp hm hres hv hs hp
    unfold readVideo vmsg
    simp only [h, h32, h33, h34]
    simp [SeqHeader.hevcLayout, ConfigRecord.videoTagHeader, rd24, normSets]

/-- what `av2rtmp_frames` assumes of a group of parameter sets that gets completed: lal's sequence-header builder
    accepts it (its SPS reader can read the SPS) and each set fits the 16-bit length fields -/
def SetsOK (hevc : Bool) (s : Sets) : Prop :=
  (∃ sh, buildSets hevc s = .ok sh) ∧ s.1.length < 65536 ∧ s.2.1.length < 65536 ∧ s.2.2.length < 65536

theorem built_read (hevc : Bool) (ts : Int) : ∀ (hdrs : List Sets) (shs : List Bytes), Built hevc hdrs shs →
    (∀ s ∈ hdrs, SetsOK hevc s) →
    (shs.map (vmsg · ts)).map (readVideo hevc) = hdrs.map fun s => some (Ev.seqHdr (u32 ts) (normSets hevc s))
  | [], [], _, _ => rfl
  | [], _ :: _, h, _ => by cases h
  | _ :: _, [], h, _ => by cases h
  | s :: ss, b :: bs, h, hok => by
    obtain ⟨h1, h2⟩ := h
    have ho := hok s (List.mem_cons_self ..)
    simp only [List.map_cons]
    rw [readVideo_seqHdr hevc s b ts h1 ho.2.1 ho.2.2.1 ho.2.2.2,
        built_read hevc ts ss bs h2 (fun x hx => hok x (List.mem_cons_of_mem _ hx))]

theorem mem_dataNals {hevc : Bool} {nals : List Bytes} {n : Bytes} (h : n ∈ dataNals hevc nals) : n ∈ nals := by
  unfold dataNals at h
  exact (List.mem_filter.mp h).1

/-- One packet: a consumer reads exactly what the specification demands of this access unit. -/
theorem unit_read (hevc : Bool) (ts : Int) (nals : List Bytes) (st : St)
    (hset : ∀ s ∈ (headers hevc (setsOf st) nals).2, SetsOK hevc s) (hlen : ∀ n ∈ nals, n.length < 4294967296) :
    (vid (feedVideoNals .fixed st hevc ts nals).2).map (readVideo hevc)
      = (expectUnit hevc (setsOf st) (u32 ts) nals).2.map fun e => some (normEv hevc e) := by
  obtain ⟨_, _, shs, hb, hv⟩ := feedVideoNals_spec hevc ts nals st (fun s hs => (hset s hs).1)
  rw [hv, List.map_append, built_read hevc ts _ shs hb hset]
  unfold expectUnit
  simp only [List.map_append, List.map_map]
  congr 1
  by_cases hd : dataNals hevc nals = []
  · simp [hd]
  · simp only [hd, if_false, List.map_cons, List.map_nil]
    rw [readVideo_frame hevc _ ts (fun n hn => hlen n (mem_dataNals hn))]
    rfl

/-! ### whole streams -/

/-- an access unit as the publisher hands it over: AVCC (4-byte NAL unit lengths) or an Annex-B byte stream in which
    unit `i` is preceded by `kᵢ ≥ 2` zero bytes and `01` (3-byte, 4-byte or longer start codes, in any mix) -/
def encUnit (avcc : Bool) (items : List (Nat × Bytes)) : Bytes :=
  if avcc then Nalu.joinNaluAvcc (items.map (·.2)) else Nalu.joinAnnexb items

/-- non-empty; every NAL unit is one an encoder emits (emulation prevention applied: no 00 00 0x inside, last byte
    non-zero) and fits a 32-bit length -/
def UnitWF (items : List (Nat × Bytes)) : Prop :=
  items ≠ [] ∧ ∀ it ∈ items, it.1 ≥ 2 ∧ Nalu.NalWF it.2 ∧ it.2.length < 4294967296

instance (items : List (Nat × Bytes)) : Decidable (UnitWF items) := by
  unfold UnitWF Nalu.NalWF; infer_instance

def videoPkt (hevc avcc : Bool) (u : Int × List (Nat × Bytes)) : AvPacket :=
  { pt := if hevc then ptHevc else ptAvc, ts := u.1, payload := encUnit avcc u.2 }

theorem feed_video_pkt (hevc : Bool) (st : St) (u : Int × List (Nat × Bytes)) (hwf : UnitWF u.2) :
    feedAvPacket .fixed st (videoPkt hevc (decide (st.videoFormat = 1)) u)
      = feedVideoNals .fixed st hevc u.1 (u.2.map (·.2)) := by
  obtain ⟨hne, hall⟩ := hwf
  have hne' : u.2.map (·.2) ≠ [] := by simpa using hne
  have hpt : (if hevc = true then ptHevc else ptAvc) = ptAvc ∨ (if hevc = true then ptHevc else ptAvc) = ptHevc := by
    cases hevc <;> simp
  have hh : decide ((if hevc = true then ptHevc else ptAvc) = ptHevc) = hevc := by
    cases hevc <;> decide
  unfold feedAvPacket videoPkt encUnit
  simp only [if_pos hpt]
  by_cases hf : st.videoFormat = 1
  · have hs := Nalu.splitNaluAvcc_join (u.2.map (·.2)) hne' (by
      intro n hn
      obtain ⟨it, hit, rfl⟩ := List.mem_map.mp hn
      exact ⟨(hall it hit).2.1.1, (hall it hit).2.2⟩)
    simp only [hf, decide_true, if_true, hs, Bool.false_eq_true, if_false, hh]
  · have hs := Nalu.splitNaluAnnexb_join u.2 hne (fun it hit => ⟨(hall it hit).1, (hall it hit).2.1⟩)
    simp only [hf, decide_false, Bool.false_eq_true, if_false, hs, hh]

theorem feedAll_append (var : Variant) : ∀ (a b : List AvPacket) (st : St),
    feedAll var st (a ++ b) = ((feedAll var (feedAll var st a).1 b).1, (feedAll var st a).2 ++ (feedAll var (feedAll var st a).1 b).2)
  | [], b, st => by simp [feedAll]
  | p :: a, b, st => by
    simp only [List.cons_append, feedAll]
    rw [feedAll_append var a b]
    simp

theorem mem_expectAll_head {hevc : Bool} {pend : Sets} {ts : Nat} {nals : List Bytes} {rest : List (Nat × List Bytes)} {s : Sets}
    (h : s ∈ (headers hevc pend nals).2) : Ev.seqHdr ts s ∈ expectAll hevc pend ((ts, nals) :: rest) := by
  simp only [expectAll, expectUnit, List.mem_append, List.mem_map]
  exact Or.inl (Or.inl ⟨s, h, rfl⟩)

theorem mem_expectAll_tail {hevc : Bool} {pend : Sets} {ts : Nat} {nals : List Bytes} {rest : List (Nat × List Bytes)} {e : Ev}
    (h : e ∈ expectAll hevc (headers hevc pend nals).1 rest) : e ∈ expectAll hevc pend ((ts, nals) :: rest) := by
  simp only [expectAll, expectUnit, List.mem_append]
  exact Or.inr h

/-- A stream of access units through `FeedAvPacket`: read with the specification-side readers, the video messages
    are exactly the events the specification demands. -/
theorem feedAll_video (hevc : Bool) : ∀ (us : List (Int × List (Nat × Bytes))) (st : St) (avcc : Bool),
    avcc = decide (st.videoFormat = 1) →
    (∀ u ∈ us, UnitWF u.2) →
    (∀ ts s, Ev.seqHdr ts s ∈ expectAll hevc (setsOf st) (us.map fun u => (u32 u.1, u.2.map (·.2))) → SetsOK hevc s) →
    (vid (feedAll .fixed st (us.map (videoPkt hevc avcc))).2).map (readVideo hevc)
      = (expectAll hevc (setsOf st) (us.map fun u => (u32 u.1, u.2.map (·.2)))).map fun e => some (normEv hevc e)
  | [], st, avcc, _, _, _ => by simp [feedAll, expectAll, vid]
  | u :: us, st, avcc, havcc, hwf, hok => by
    simp only [List.map_cons, feedAll, expectAll]
    rw [havcc, feed_video_pkt hevc st u (hwf u (List.mem_cons_self ..))]
    have hset : ∀ s ∈ (headers hevc (setsOf st) (u.2.map (·.2))).2, SetsOK hevc s :=
      fun s hs => hok (u32 u.1) s (mem_expectAll_head hs)
    have hlen : ∀ n ∈ u.2.map (·.2), n.length < 4294967296 := by
      intro n hn
      obtain ⟨it, hit, rfl⟩ := List.mem_map.mp hn
      exact ((hwf u (List.mem_cons_self ..)).2 it hit).2.2
    obtain ⟨f1, f2, _⟩ := feedVideoNals_spec hevc u.1 (u.2.map (·.2)) st (fun s hs => (hset s hs).1)
    have ih := feedAll_video hevc us (feedVideoNals .fixed st hevc u.1 (u.2.map (·.2))).1 (decide (st.videoFormat = 1))
      (by rw [f2.1]) (fun v hv => hwf v (List.mem_cons_of_mem _ hv))
      (by rw [f1]; intro ts s hs; exact hok ts s (mem_expectAll_tail hs))
    rw [vid_append, List.map_append, unit_read hevc u.1 _ st hset hlen, ih, f1]
    simp [expectUnit]

/-! ### audio -/

/-- the audio message `emitRtmpAvMsg(true, payload, ts)` hands to the callback -/
def amsg (payload : Bytes) (ts : Int) : Msg := { typ := 8, csid := 6, msid := 1, ts := u32 ts, payload := payload }

def aud (ms : List Msg) : List Msg := ms.filter (·.typ = 8)

theorem emit_audio (st : St) (p : Bytes) (ts : Int) :
    (emit st true p ts).1 = { st with hasEmittedMetadata := true } ∧ aud (emit st true p ts).2 = [amsg p ts]
    ∧ vid (emit st true p ts).2 = [] := by
  unfold emit
  by_cases h : st.hasEmittedMetadata = true
  · simp only [h, if_true]
    refine ⟨?_, by simp [aud, amsg], by simp [vid]⟩
    cases st; simp_all
  · simp only [h]
    exact ⟨rfl, by simp [aud, amsg], by simp [vid]⟩

theorem emit_proj (st : St) (a : Bool) (p : Bytes) (ts : Int) :
    sameOpts (emit st a p ts).1 st ∧ setsOf (emit st a p ts).1 = setsOf st ∧ (emit st a p ts).1.hasEmittedMetadata = true := by
  unfold emit sameOpts setsOf
  by_cases h : st.hasEmittedMetadata = true
  · simp [h]
  · simp [h]

/-- raw AAC (`AvPacketStreamAudioFormatRawAac`), G.711 A-law / µ-law and Opus: one message per frame, the FLV sound
    byte (and for AAC the AACPacketType 1) followed by the frame, byte for byte, at the packet's timestamp -/
theorem feed_audio_raw (st : St) (pt : Int) (ts : Int) (frame : Bytes)
    (h : (pt = ptAac ∧ st.audioFormat = 1) ∨ pt = ptG711A ∨ pt = ptG711U ∨ pt = ptOpus) :
    aud (feedAvPacket .fixed st { pt := pt, ts := ts, payload := frame }).2 =
      [amsg ((if pt = ptAac then [0xaf, 1] else if pt = ptG711A then [0x72] else if pt = ptG711U then [0x82] else [0xdf]) ++ frame) ts]
    ∧ vid (feedAvPacket .fixed st { pt := pt, ts := ts, payload := frame }).2 = []
    ∧ sameOpts (feedAvPacket .fixed st { pt := pt, ts := ts, payload := frame }).1 st
    ∧ setsOf (feedAvPacket .fixed st { pt := pt, ts := ts, payload := frame }).1 = setsOf st := by
  unfold feedAvPacket
  rcases h with ⟨h1, h2⟩ | h | h | h
  · subst h1
    have e := emit_audio st ([0xaf, 1] ++ frame) ts
    have q := emit_proj st true ([0xaf, 1] ++ frame) ts
    rw [if_neg (show ¬ (ptAac = ptAvc ∨ ptAac = ptHevc) by decide), if_pos rfl, if_pos h2]
    exact ⟨e.2.1, e.2.2, q.1, q.2.1⟩
  · subst h
    have e := emit_audio st (0x72 :: frame) ts
    have q := emit_proj st true (0x72 :: frame) ts
    rw [if_neg (show ¬ (ptG711A = ptAvc ∨ ptG711A = ptHevc) by decide), if_neg (show ¬ (ptG711A = ptAac) by decide), if_pos rfl]
    exact ⟨e.2.1, e.2.2, q.1, q.2.1⟩
  · subst h
    have e := emit_audio st (0x82 :: frame) ts
    have q := emit_proj st true (0x82 :: frame) ts
    rw [if_neg (show ¬ (ptG711U = ptAvc ∨ ptG711U = ptHevc) by decide), if_neg (show ¬ (ptG711U = ptAac) by decide),
      if_neg (show ¬ (ptG711U = ptG711A) by decide), if_pos rfl]
    exact ⟨e.2.1, e.2.2, q.1, q.2.1⟩
  · subst h
    have e := emit_audio st (0xdf :: frame) ts
    have q := emit_proj st true (0xdf :: frame) ts
    rw [if_neg (show ¬ (ptOpus = ptAvc ∨ ptOpus = ptHevc) by decide), if_neg (show ¬ (ptOpus = ptAac) by decide),
      if_neg (show ¬ (ptOpus = ptG711A) by decide), if_neg (show ¬ (ptOpus = ptG711U) by decide), if_pos rfl]
    exact ⟨e.2.1, e.2.2, q.1, q.2.1⟩

/-- AAC with ADTS headers (`AvPacketStreamAudioFormatAdtsAac`, the GB28181 path): the first packet yields the AAC
    sequence header made from its ADTS header, every packet of at least 12 bytes its raw frame (header stripped) -/
theorem feed_audio_adts (st : St) (ts : Int) (p : Bytes) (sh : Bytes) (hf : st.audioFormat = 2) (hl : 12 ≤ p.length)
    (hsh : Aac.makeAudioDataSeqHeaderWithAdtsHeader p = .ok sh) :
    aud (feedAvPacket .fixed st { pt := ptAac, ts := ts, payload := p }).2 =
      (if st.hasAdts2Asc then [] else [amsg sh ts]) ++ [amsg ([0xaf, 1] ++ p.drop 7) ts]
    ∧ (feedAvPacket .fixed st { pt := ptAac, ts := ts, payload := p }).1.hasAdts2Asc = true
    ∧ (feedAvPacket .fixed st { pt := ptAac, ts := ts, payload := p }).1.audioFormat = 2 := by
  unfold feedAvPacket
  rw [if_neg (show ¬ (ptAac = ptAvc ∨ ptAac = ptHevc) by decide), if_pos rfl, if_neg (by omega), if_pos hf]
  simp only [show ¬ (p.length < 12) by omega, hsh, Except.toOption, Option.getD, if_false]
  by_cases ha : st.hasAdts2Asc = true
  · have e := emit_audio st ([0xaf, 1] ++ p.drop 7) ts
    have q := emit_proj st true ([0xaf, 1] ++ p.drop 7) ts
    simp only [ha, Bool.not_true, Bool.false_eq_true, if_false, if_true, List.nil_append]
    exact ⟨e.2.1, by rw [q.1.2.2.2.2, ha], by rw [q.1.2.1, hf]⟩
  · have ha' : st.hasAdts2Asc = false := by simpa using ha
    have e1 := emit_audio st sh ts
    have q1 := emit_proj st true sh ts
    have e2 := emit_audio { (emit st true sh ts).1 with hasAdts2Asc := true } ([0xaf, 1] ++ p.drop 7) ts
    have q2 := emit_proj { (emit st true sh ts).1 with hasAdts2Asc := true } true ([0xaf, 1] ++ p.drop 7) ts
    simp only [ha', Bool.not_false, if_true, Bool.false_eq_true, if_false]
    refine ⟨?_, by rw [q2.1.2.2.2.2], by rw [q2.1.2.1]; exact q1.1.2.1.trans hf⟩
    simp only [aud, List.filter_append] at e1 e2 ⊢
    rw [e1.2.1, e2.2.1]

/-- for ADTS packets too: no video message, video-side state untouched -/
theorem feed_audio_adts_video (st : St) (ts : Int) (p : Bytes) (hf : st.audioFormat = 2) :
    vid (feedAvPacket .fixed st { pt := ptAac, ts := ts, payload := p }).2 = []
    ∧ setsOf (feedAvPacket .fixed st { pt := ptAac, ts := ts, payload := p }).1 = setsOf st
    ∧ (feedAvPacket .fixed st { pt := ptAac, ts := ts, payload := p }).1.videoFormat = st.videoFormat := by
  unfold feedAvPacket
  rw [if_neg (show ¬ (ptAac = ptAvc ∨ ptAac = ptHevc) by decide), if_pos rfl, if_neg (by omega), if_pos hf]
  by_cases ha : st.hasAdts2Asc = true
  · simp only [ha, Bool.not_true, Bool.false_eq_true, if_false]
    by_cases hl : p.length < 12
    · simp only [hl, if_true]; exact ⟨by first | rfl | trivial, by first | rfl | trivial, by first | rfl | trivial⟩
    · simp only [hl, if_false, List.nil_append]
      have e := emit_audio st ([0xaf, 1] ++ p.drop 7) ts
      have q := emit_proj st true ([0xaf, 1] ++ p.drop 7) ts
      exact ⟨e.2.2, q.2.1, q.1.1⟩
  · have ha' : st.hasAdts2Asc = false := by simpa using ha
    simp only [ha', Bool.not_false, if_true]
    have e1 := emit_audio st ((Aac.makeAudioDataSeqHeaderWithAdtsHeader p).toOption.getD []) ts
    have q1 := emit_proj st true ((Aac.makeAudioDataSeqHeaderWithAdtsHeader p).toOption.getD []) ts
    by_cases hl : p.length < 12
    · simp only [hl, if_true]
      exact ⟨e1.2.2, q1.2.1, q1.1.1⟩
    · simp only [hl, if_false]
      have e2 := emit_audio { (emit st true ((Aac.makeAudioDataSeqHeaderWithAdtsHeader p).toOption.getD []) ts).1 with hasAdts2Asc := true } ([0xaf, 1] ++ p.drop 7) ts
      have q2 := emit_proj { (emit st true ((Aac.makeAudioDataSeqHeaderWithAdtsHeader p).toOption.getD []) ts).1 with hasAdts2Asc := true } true ([0xaf, 1] ++ p.drop 7) ts
      refine ⟨?_, ?_, ?_⟩
      · rw [vid_append, e1.2.2, e2.2.2]; rfl
      · rw [q2.2.1]; exact q1.2.1
      · rw [q2.1.1]; exact q1.1.1

/-- the audio packets the ingest paths can produce for a remuxer in state `st` -/
def AudioPkt (st : St) (p : AvPacket) : Prop :=
  (p.pt = ptAac ∧ (st.audioFormat = 1 ∨ st.audioFormat = 2)) ∨ p.pt = ptG711A ∨ p.pt = ptG711U ∨ p.pt = ptOpus

theorem audio_no_video (st : St) (p : AvPacket) (h : AudioPkt st p) :
    vid (feedAvPacket .fixed st p).2 = [] ∧ setsOf (feedAvPacket .fixed st p).1 = setsOf st
    ∧ (feedAvPacket .fixed st p).1.videoFormat = st.videoFormat ∧ (feedAvPacket .fixed st p).1.audioFormat = st.audioFormat := by
  obtain ⟨pt, ts, pts, payload⟩ := p
  have hpts : feedAvPacket .fixed st { pt := pt, ts := ts, pts := pts, payload := payload } = feedAvPacket .fixed st { pt := pt, ts := ts, payload := payload } := rfl
  rw [hpts]
  rcases h with ⟨h1, h2 | h2⟩ | h | h | h
  · simp only [] at h1; subst h1
    obtain ⟨_, a, b, c⟩ := feed_audio_raw st ptAac ts payload (Or.inl ⟨rfl, h2⟩)
    exact ⟨a, c, b.1, b.2.1⟩
  · simp only [] at h1; subst h1
    obtain ⟨a, b, c⟩ := feed_audio_adts_video st ts payload h2
    refine ⟨a, b, c, ?_⟩
    -- the audio format is never written
    unfold feedAvPacket
    rw [if_neg (show ¬ (ptAac = ptAvc ∨ ptAac = ptHevc) by decide), if_pos rfl, if_neg (by omega), if_pos h2]
    by_cases ha : st.hasAdts2Asc = true
    · simp only [ha, Bool.not_true, Bool.false_eq_true, if_false]
      by_cases hl : payload.length < 12
      · simp only [hl, if_true]
      · simp only [hl, if_false]; exact (emit_proj st true _ ts).1.2.1
    · have ha' : st.hasAdts2Asc = false := by simpa using ha
      simp only [ha', Bool.not_false, if_true]
      have q1 := emit_proj st true ((Aac.makeAudioDataSeqHeaderWithAdtsHeader payload).toOption.getD []) ts
      by_cases hl : payload.length < 12
      · simp only [hl, if_true]; exact q1.1.2.1
      · simp only [hl, if_false]
        have q2 := emit_proj { (emit st true ((Aac.makeAudioDataSeqHeaderWithAdtsHeader payload).toOption.getD []) ts).1 with hasAdts2Asc := true } true ([0xaf, 1] ++ payload.drop 7) ts
        rw [q2.1.2.1]; exact q1.1.2.1
  · simp only [] at h; subst h
    obtain ⟨_, a, b, c⟩ := feed_audio_raw st ptG711A ts payload (Or.inr (Or.inl rfl))
    exact ⟨a, c, b.1, b.2.1⟩
  · simp only [] at h; subst h
    obtain ⟨_, a, b, c⟩ := feed_audio_raw st ptG711U ts payload (Or.inr (Or.inr (Or.inl rfl)))
    exact ⟨a, c, b.1, b.2.1⟩
  · simp only [] at h; subst h
    obtain ⟨_, a, b, c⟩ := feed_audio_raw st ptOpus ts payload (Or.inr (Or.inr (Or.inr rfl)))
    exact ⟨a, c, b.1, b.2.1⟩

/-- a mixed stream: `inl` = a video access unit (as in `feedAll_video`), `inr` = an audio packet -/
def mixedPkts (hevc avcc : Bool) : List ((Int × List (Nat × Bytes)) ⊕ AvPacket) → List AvPacket
  | [] => []
  | .inl u :: rest => videoPkt hevc avcc u :: mixedPkts hevc avcc rest
  | .inr p :: rest => p :: mixedPkts hevc avcc rest

def videoUnits : List ((Int × List (Nat × Bytes)) ⊕ AvPacket) → List (Int × List (Nat × Bytes))
  | [] => []
  | .inl u :: rest => u :: videoUnits rest
  | .inr _ :: rest => videoUnits rest

/-- Audio packets in between change nothing for the video track: the video messages of a mixed stream are the
    specification's events for its video access units. -/
theorem feedAll_video_mixed (hevc : Bool) : ∀ (xs : List ((Int × List (Nat × Bytes)) ⊕ AvPacket)) (st : St) (avcc : Bool),
    avcc = decide (st.videoFormat = 1) →
    (∀ u, Sum.inl u ∈ xs → UnitWF u.2) →
    (∀ p, Sum.inr p ∈ xs → (p.pt = ptAac ∧ (st.audioFormat = 1 ∨ st.audioFormat = 2)) ∨ p.pt = ptG711A ∨ p.pt = ptG711U ∨ p.pt = ptOpus) →
    (∀ ts s, Ev.seqHdr ts s ∈ expectAll hevc (setsOf st) ((videoUnits xs).map fun u => (u32 u.1, u.2.map (·.2))) → SetsOK hevc s) →
    (vid (feedAll .fixed st (mixedPkts hevc avcc xs)).2).map (readVideo hevc)
      = (expectAll hevc (setsOf st) ((videoUnits xs).map fun u => (u32 u.1, u.2.map (·.2)))).map fun e => some (normEv hevc e)
  | [], st, avcc, _, _, _, _ => by simp [feedAll, expectAll, vid, mixedPkts, videoUnits]
  | .inl u :: xs, st, avcc, havcc, hwf, hau, hok => by
    simp only [mixedPkts, videoUnits, List.map_cons, feedAll, expectAll]
    rw [havcc, feed_video_pkt hevc st u (hwf u (List.mem_cons_self ..))]
    have hset : ∀ s ∈ (headers hevc (setsOf st) (u.2.map (·.2))).2, SetsOK hevc s :=
      fun s hs => hok (u32 u.1) s (by simp only [videoUnits, List.map_cons]; exact mem_expectAll_head hs)
    have hlen : ∀ n ∈ u.2.map (·.2), n.length < 4294967296 := by
      intro n hn
      obtain ⟨it, hit, rfl⟩ := List.mem_map.mp hn
      exact ((hwf u (List.mem_cons_self ..)).2 it hit).2.2
    obtain ⟨f1, f2, _⟩ := feedVideoNals_spec hevc u.1 (u.2.map (·.2)) st (fun s hs => (hset s hs).1)
    have ih := feedAll_video_mixed hevc xs (feedVideoNals .fixed st hevc u.1 (u.2.map (·.2))).1 (decide (st.videoFormat = 1))
      (by rw [f2.1]) (fun v hv => hwf v (List.mem_cons_of_mem _ hv))
      (by rw [f2.2.1]; exact fun p hp => hau p (List.mem_cons_of_mem _ hp))
      (by rw [f1]; intro ts s hs; exact hok ts s (by simp only [videoUnits, List.map_cons]; exact mem_expectAll_tail hs))
    rw [vid_append, List.map_append, unit_read hevc u.1 _ st hset hlen, ih, f1]
    simp [expectUnit]
  | .inr p :: xs, st, avcc, havcc, hwf, hau, hok => by
    simp only [mixedPkts, videoUnits, feedAll]
    obtain ⟨a1, a2, a3, a4⟩ := audio_no_video st p (hau p (List.mem_cons_self ..))
    have ih := feedAll_video_mixed hevc xs (feedAvPacket .fixed st p).1 avcc (by rw [a3]; exact havcc)
      (fun v hv => hwf v (List.mem_cons_of_mem _ hv))
      (by rw [a4]; exact fun q hq => hau q (List.mem_cons_of_mem _ hq))
      (by rw [a2]; exact hok)
    rw [vid_append, a1, List.nil_append, ih, a2]

/-! ### InitWithAvConfig (OnSdp) -/

/-- `InitWithAvConfig(asc, vps, sps, pps)` on a fresh remuxer with an ASC and parameter sets from the SDP: the AAC
    sequence header with exactly that ASC, then the video sequence header built from exactly those sets, both at
    timestamp 0; the sets are not kept (in-band ones start a fresh group). -/
theorem init_spec (asc sps pps : Bytes) (vps : Option Bytes) (hasc : 2 ≤ asc.length)
    (hok : SetsOK vps.isSome (vps.getD [], sps, pps)) :
    aud (initWithAvConfig {} (some asc) vps (some sps) (some pps)).2 = [amsg (0xaf :: 0 :: asc) 0]
    ∧ (vid (initWithAvConfig {} (some asc) vps (some sps) (some pps)).2).map (readVideo vps.isSome)
        = [some (.seqHdr 0 (normSets vps.isSome (vps.getD [], sps, pps)))]
    ∧ setsOf (initWithAvConfig {} (some asc) vps (some sps) (some pps)).1 = ([], [], [])
    ∧ (initWithAvConfig {} (some asc) vps (some sps) (some pps)).1.videoFormat = 1 := by
  obtain ⟨⟨sh, hb⟩, hv, hs, hp⟩ := hok
  have hrd := readVideo_seqHdr vps.isSome (vps.getD [], sps, pps) sh 0 hb hv hs hp
  have hasc' : ¬ (asc.length < Aac.minAscLength) := by simp [Aac.minAscLength]; omega
  cases vps with
  | none =>
    simp only [buildSets, Option.isSome_none, Bool.false_eq_true, if_false, Option.getD_none] at hb hrd ⊢
    unfold initWithAvConfig
    simp only [Option.isSome_some, Option.isSome_none, if_true, and_self, Bool.false_eq_true, if_false, Option.getD_some,
      Aac.makeAudioDataSeqHeaderWithAsc, hasc', hb, Except.toOption,
      show ¬ (ptAac = ptUnknown ∧ ptAvc = ptUnknown) by decide, show ptAac ≠ ptUnknown by decide, show ptAvc ≠ ptUnknown by decide,
      show ¬ (ptAvc = ptHevc) by decide, ne_eq, not_false_eq_true]
    have e1 := emit_audio { audioType := ptAac, videoType := ptAvc } (0xaf :: 0 :: asc) 0
    have e2 := emit_video { hasEmittedMetadata := true, audioType := ptAac, videoType := ptAvc } sh 0
    have a2 : aud (emit { hasEmittedMetadata := true, audioType := ptAac, videoType := ptAvc } false sh 0).2 = [] := by
      simp [emit, aud]
    simp only [e1.1, show ¬ (ptAvc = ptUnknown) by decide, not_false_eq_true, if_true]
    refine ⟨?_, ?_, ?_, ?_⟩
    · rw [show ∀ a b : List Msg, aud (a ++ b) = aud a ++ aud b from fun a b => by simp [aud], e1.2.1, a2]; rfl
    · rw [vid_append, e1.2.2, e2.2]
      have h0 : u32 0 = 0 := by decide
      rw [h0] at hrd
      simpa using hrd
    · rw [e2.1]; rfl
    · rw [e2.1]
  | some v =>
    simp only [buildSets, Option.isSome_some, if_true, Option.getD_some] at hb hrd ⊢
    unfold initWithAvConfig
    simp only [Option.isSome_some, if_true, and_self, Option.getD_some,
      Aac.makeAudioDataSeqHeaderWithAsc, hasc', hb, Except.toOption, if_false,
      show ¬ (ptAac = ptUnknown ∧ ptHevc = ptUnknown) by decide, show ptAac ≠ ptUnknown by decide, show ptHevc ≠ ptUnknown by decide,
      ne_eq, not_false_eq_true]
    have e1 := emit_audio { audioType := ptAac, videoType := ptHevc } (0xaf :: 0 :: asc) 0
    have e2 := emit_video { hasEmittedMetadata := true, audioType := ptAac, videoType := ptHevc } sh 0
    have a2 : aud (emit { hasEmittedMetadata := true, audioType := ptAac, videoType := ptHevc } false sh 0).2 = [] := by
      simp [emit, aud]
    simp only [e1.1, show ¬ (ptHevc = ptUnknown) by decide, not_false_eq_true, if_true]
    refine ⟨?_, ?_, ?_, ?_⟩
    · rw [show ∀ a b : List Msg, aud (a ++ b) = aud a ++ aud b from fun a b => by simp [aud], e1.2.1, a2]; rfl
    · rw [vid_append, e1.2.2, e2.2]
      have h0 : u32 0 = 0 := by decide
      rw [h0] at hrd
      simpa using hrd
    · rw [e2.1]; rfl
    · rw [e2.1]

end Lal.Av2Rtmp