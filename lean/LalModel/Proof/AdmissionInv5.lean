import LalModel.Proof.AdmissionInv4
/- C03 — preservation of the invariant by the RTSP connection events, and the invariant of every
   reachable state. -/
set_option linter.unusedSimpArgs false
namespace Lal.Adm
open Grp Spec

theorem modSP_eq_setS {s : Srv} {c : Sid} {r : SPub} (h : s.sess c = some (.rtspPub r)) (f : SPub → SPub) :
    s.modSP c f = s.setS c (.rtspPub (f r)) := by
  unfold Srv.modSP; rw [h]
theorem modSS_eq_setS {s : Srv} {c : Sid} {r : SSub} (h : s.sess c = some (.rtspSub r)) (f : SSub → SSub) :
    s.modSS c f = s.setS c (.rtspSub (f r)) := by
  unfold Srv.modSS; rw [h]

def isSessObj : Sess → Prop
  | .rtspPub _ | .rtspSub _ => True
  | _ => False

def connOf : Sess → Option Sid
  | .rtspPub p => some p.conn
  | .rtspSub q => some q.conn
  | _ => none

/-- the common shape of an RTSP step: the connection `c` and possibly session objects of `c` (those in
    `ps`) change, nothing else; `ok`, `ci` and the link of `c` itself are supplied -/
theorem Inv.mkRtsp {s s' : Srv} (h : Inv s) (hok : OkAll s') (hci : CI s') (c : Sid) (ps : List Sid) (k k' : SConn)
    (hc : s.sess c = some (.rtspConn k)) (hc' : s'.sess c = some (.rtspConn k'))
    (hp : ∀ p ∈ ps, (s.sess p = none ∨ ∃ v, s.sess p = some v ∧ isSessObj v ∧ connOf v = some c) ∧
                    (∃ v', s'.sess p = some v' ∧ isSessObj v'))
    (hne : ∀ y, y ≠ c → y ∉ ps → s'.sess y = s.sess y)
    (hlink : k'.closed = false →
      (k'.pub = none ∨ k'.sub = none) ∧
      (∀ x, k'.pub = some x → ∃ pp, s'.sess x = some (.rtspPub pp) ∧ pp.conn = c ∧ pp.ended = false ∧ pp.flag = false ∧ pp.accepted = true) ∧
      (∀ x, k'.sub = some x → ∃ qq, s'.sess x = some (.rtspSub qq) ∧ qq.conn = c ∧ qq.ended = false ∧ qq.flag = false ∧ qq.accepted = true)) :
    Inv s' := by
  -- a session object of another connection is none of the changed ones
  have other : ∀ y x v, y ≠ c → s.sess x = some v → isSessObj v → connOf v = some y → s'.sess x = s.sess x := by
    intro y x v hyc hx hv hcv
    apply hne
    · rintro rfl; rw [hc] at hx; cases hx; exact hv
    · intro hxp
      rcases (hp x hxp).1 with e | ⟨v0, e, _, e2⟩
      · rw [e] at hx; cases hx
      · rw [e] at hx; cases hx; rw [hcv] at e2; cases e2; exact hyc rfl
  have notObj : ∀ y v, s'.sess y = some v → ¬isSessObj v → y ∉ ps := by
    intro y v hy hv hyp
    obtain ⟨v', e, hv'⟩ := (hp y hyp).2
    rw [e] at hy; cases hy; exact hv hv'
  refine ⟨hok, hci, ?_, ?_, ?_, ?_⟩
  · intro y ky hy hcl
    by_cases hyc : y = c
    · subst hyc; rw [hc'] at hy; cases hy; exact hlink hcl
    · have hyp : y ∉ ps := notObj y _ hy (by simp [isSessObj])
      rw [hne y hyc hyp] at hy
      obtain ⟨h1, h2, h3⟩ := h.link y ky hy hcl
      refine ⟨h1, ?_, ?_⟩
      · intro x hx; obtain ⟨pp, e1, e2, e3⟩ := h2 x hx
        exact ⟨pp, by rw [other y x _ hyc e1 (by simp [isSessObj]) (by simp [connOf, e2])]; exact e1, e2, e3⟩
      · intro x hx; obtain ⟨qq, e1, e2, e3⟩ := h3 x hx
        exact ⟨qq, by rw [other y x _ hyc e1 (by simp [isSessObj]) (by simp [connOf, e2])]; exact e1, e2, e3⟩
  · intro y cu hy hd
    have hyc : y ≠ c := by rintro rfl; rw [hc'] at hy; cases hy
    have hyp : y ∉ ps := notObj y _ hy (by simp [isSessObj])
    exact h.cust y cu (hne y hyc hyp ▸ hy) hd
  · intro y r st hy ho
    have hyc : y ≠ c := by rintro rfl; rw [hc'] at hy; cases hy
    have hyp : y ∉ ps := notObj y _ hy (by simp [isSessObj])
    exact h.obs y r st (hne y hyc hyp ▸ hy) ho
  · intro y r hy hf
    have hyc : y ≠ c := by rintro rfl; rw [hc'] at hy; cases hy
    have hyp : y ∉ ps := notObj y _ hy (by simp [isSessObj])
    exact h.flag y r (hne y hyc hyp ▸ hy) hf


/-- where an RTSP publisher object can be registered at all -/
theorem spub_held {s : Srv} (h : Inv s) {p : Sid} {pp : SPub} (hp : s.sess p = some (.rtspPub pp)) {st : Stream} {sl : Slot}
    (hh : holdsAt s st sl p) : st = pp.stream ∧ sl = .rtspPub := by
  have := (h.ci p st sl).mpr hh
  rw [claimOf_of_sess hp] at this
  simp only [Sess.claim] at this
  split at this
  · simp at this; exact ⟨this.1.symm, this.2.symm⟩
  · cases this

theorem ssub_held {s : Srv} (h : Inv s) {q : Sid} {qq : SSub} (hq : s.sess q = some (.rtspSub qq)) {st : Stream} {sl : Slot}
    (hh : holdsAt s st sl q) : st = qq.stream ∧ sl = .rtspSub := by
  have := (h.ci q st sl).mpr hh
  rw [claimOf_of_sess hq] at this
  simp only [Sess.claim] at this
  split at this
  · simp at this; exact ⟨this.1.symm, this.2.symm⟩
  · cases this

/-- the end of an RTSP connection -/
theorem inv_rtspTail {s : Srv} (h : Inv s) {c : Sid} {k : SConn} (hc : s.sess c = some (.rtspConn k)) (hcl : k.closed = false) :
    Inv (rtspTail Code.fixed s c k) := by
  have hok : OkAll (rtspTail Code.fixed s c k) := ok_rtspTail h.ok _ c k
  obtain ⟨h1, h2, h3⟩ := h.link c k hc hcl
  obtain ⟨kp, ks, kc⟩ := k
  dsimp only at hcl h1 h2 h3
  subst hcl
  unfold rtspTail at hok ⊢; dsimp only at hok ⊢
  cases kp with
  | some p =>
    obtain ⟨pp, hp, hpc, hpe, hpf, hpa⟩ := h2 p rfl
    have hpne : p ≠ c := by rintro rfl; rw [hc] at hp; cases hp
    have hp1 : ∀ v, (s.setS c v).sess p = some (.rtspPub pp) := by intro v; simp [hpne, hp]
    simp only [hp1, hpf, Code.fixed, Bool.and_false, Bool.false_eq_true, if_false] at hok ⊢
    rw [modSP_eq_setS (hp1 _)] at hok ⊢
    have hsess : ∀ y, (((s.setS c (.rtspConn { pub := some p, sub := ks, closed := true })).setS p (.rtspPub { pp with ended := true })).onDelRtspPub p pp.stream).sess y =
        if y = p then some (.rtspPub { pp with ended := true }) else if y = c then some (.rtspConn { pub := some p, sub := ks, closed := true }) else s.sess y := by
      intro y; simp
    refine h.mkRtsp hok ?_ c [p] _ { pub := some p, sub := ks, closed := true } hc (by rw [hsess]; simp [hpne.symm]) ?_ ?_ (by simp)
    · refine h.ci.vanish p ?_ ?_ ?_
      · intro y hy; unfold claimOf; rw [hsess]; simp only [hy, if_false]
        split
        · rename_i e; subst e; rw [hc]; rfl
        · rfl
      · unfold claimOf; rw [hsess]; simp [Sess.claim]
      · intro st sl y
        unfold Srv.onDelRtspPub
        simp only [Srv.setS_groups]
        cases hg : s.groups pp.stream with
        | none =>
          simp only [holdsAt_setS]
          constructor
          · intro hh; refine ⟨hh, ?_⟩; rintro rfl
            obtain ⟨e, -⟩ := spub_held h hp hh
            subst e; obtain ⟨g, hg', -⟩ := hh; rw [hg] at hg'; cases hg'
          · exact fun hh => hh.1
        | some g =>
          simp only [holdsAt_note]
          exact holds_after_remove' (P := (· = .rtspPub)) (fun st sl hh => spub_held h hp hh)
            (holdsAt_remove (g := g) hg (by funext j; simp) (fun sl y => holds_delRtspPub (h.ok _ g hg) p sl y)) st sl y
    · intro x hx
      simp only [List.mem_singleton] at hx; subst hx
      exact ⟨Or.inr ⟨_, hp, by simp [isSessObj], by simp [connOf, hpc]⟩, ⟨.rtspPub { pp with ended := true }, by rw [hsess]; simp, by simp [isSessObj]⟩⟩
    · intro y hyc hyp
      simp only [List.mem_singleton] at hyp
      rw [hsess]; simp [hyp, hyc]
  | none =>
    cases ks with
    | some q =>
      obtain ⟨qq, hq, hqc, hqe, hqf, hqa⟩ := h3 q rfl
      have hqne : q ≠ c := by rintro rfl; rw [hc] at hq; cases hq
      have hq1 : ∀ v, (s.setS c v).sess q = some (.rtspSub qq) := by intro v; simp [hqne, hq]
      simp only [hq1, hqf, Code.fixed, Bool.and_false, Bool.false_eq_true, if_false] at hok ⊢
      rw [modSS_eq_setS (hq1 _)] at hok ⊢
      have hsess : ∀ y, (((s.setS c (.rtspConn { pub := none, sub := some q, closed := true })).setS q (.rtspSub { qq with ended := true })).onDelRtspSub q qq.stream).sess y =
          if y = q then some (.rtspSub { qq with ended := true }) else if y = c then some (.rtspConn { pub := none, sub := some q, closed := true }) else s.sess y := by
        intro y; simp
      refine h.mkRtsp hok ?_ c [q] _ { pub := none, sub := some q, closed := true } hc (by rw [hsess]; simp [hqne.symm]) ?_ ?_ (by simp)
      · refine h.ci.vanish q ?_ ?_ ?_
        · intro y hy; unfold claimOf; rw [hsess]; simp only [hy, if_false]
          split
          · rename_i e; subst e; rw [hc]; rfl
          · rfl
        · unfold claimOf; rw [hsess]; simp [Sess.claim]
        · intro st sl y
          unfold Srv.onDelRtspSub
          simp only [Srv.setS_groups]
          cases hg : s.groups qq.stream with
          | none =>
            simp only [holdsAt_setS]
            constructor
            · intro hh; refine ⟨hh, ?_⟩; rintro rfl
              obtain ⟨e, -⟩ := ssub_held h hq hh
              subst e; obtain ⟨g, hg', -⟩ := hh; rw [hg] at hg'; cases hg'
            · exact fun hh => hh.1
          | some g =>
            simp only [holdsAt_note]
            exact holds_after_remove' (P := (· = .rtspSub)) (fun st sl hh => ssub_held h hq hh)
              (holdsAt_remove (g := g) hg (by funext j; simp) (fun sl y => holds_delRtspSub g q sl y)) st sl y
      · intro x hx
        simp only [List.mem_singleton] at hx; subst hx
        exact ⟨Or.inr ⟨_, hq, by simp [isSessObj], by simp [connOf, hqc]⟩, ⟨.rtspSub { qq with ended := true }, by rw [hsess]; simp, by simp [isSessObj]⟩⟩
      · intro y hyc hyp
        simp only [List.mem_singleton] at hyp
        rw [hsess]; simp [hyp, hyc]
    | none =>
      refine h.mkRtsp hok ?_ c [] _ { pub := none, sub := none, closed := true } hc (by simp) (by simp) ?_ (by simp)
      · refine h.ci.same ?_ rfl
        funext y; unfold claimOf; simp only [Srv.setS_sess]
        split
        · rename_i e; subst e; rw [hc]; rfl
        · rfl
      · intro y hyc _; simp [hyc]


theorem inv_sSetup {s : Srv} (h : Inv s) (c : Sid) : Inv (sSetup Code.fixed s c).1 := by
  unfold sSetup; split
  · rename_i k hk
    split
    · exact h
    · rename_i hcl
      split
      · exact inv_rtspTail h hk (by simpa using hcl)
      · exact h
  · exact h

theorem inv_sRecord {s : Srv} (h : Inv s) (c : Sid) : Inv (sRecord s c).1 := by
  unfold sRecord; (repeat' split) <;> exact h

theorem inv_sMedia {s : Srv} (h : Inv s) (c : Sid) : Inv (sMedia Code.fixed s c).1 := by
  unfold sMedia; split
  · rename_i k hk
    split
    · exact h
    · rename_i hcl
      split
      · (repeat' split) <;> exact h
      · split
        · exact h
        · exact inv_rtspTail h hk (by simpa using hcl)
  · exact h

theorem inv_sClose {s : Srv} (h : Inv s) (c : Sid) : Inv (sClose Code.fixed s c).1 := by
  unfold sClose; split
  · rename_i k hk
    split
    · exact h
    · rename_i hcl; exact inv_rtspTail h hk (by simpa using hcl)
  · exact h

theorem inv_sPlay {s : Srv} (h : Inv s) (c nid : Sid) : Inv (sPlay Code.fixed s c nid).1 := by
  have hok : OkAll (sPlay Code.fixed s c nid).1 := ok_step h.ok (.sPlay c nid)
  unfold sPlay at hok ⊢
  split
  · rename_i k hk
    simp only [hk] at hok
    split
    · exact h
    · rename_i hcl
      simp only [Bool.or_eq_true, Bool.not_eq_true', not_or, Bool.not_eq_true, Bool.not_eq_false] at hcl
      simp only [hcl.1, hcl.2, Bool.false_or, Bool.not_true, Bool.false_eq_true, if_false] at hok
      split
      · exact inv_rtspTail h hk hcl.1
      · rename_i q hq
        simp only [hq] at hok
        split
        · rename_i qq hqq
          simp only [hqq] at hok
          unfold Srv.onNewRtspSubPlay at hok ⊢
          exact h.spawnOnly hok hcl.2 (pullIfNeeded_spawn _ nid) (fun sl y => holds_playRtspSub _ nid sl y)
        · exact h
  · exact h


/-! ### ANNOUNCE / DESCRIBE -/

theorem Srv.onNewRtspPub_true {s : Srv} {x : Sid} {st : Stream} {a : Bool} (h : (s.onNewRtspPub x st a).2 = true) :
    ((s.getOrCreate st).addRtspPub x).2.1 = true ∧
    (s.onNewRtspPub x st a).1 = (s.setG st ((s.getOrCreate st).addRtspPub x).1).note .pubStart x := by
  unfold Srv.onNewRtspPub at h ⊢
  split
  · rename_i ha; simp [ha] at h
  · rename_i ha
    simp only [ha, if_false] at h
    dsimp only at h ⊢
    split
    · rename_i hr; exact ⟨hr, rfl⟩
    · rename_i hr; simp [hr] at h

theorem Srv.onNewRtspSubDescribe_true {s : Srv} {x : Sid} {st : Stream} {a : Bool} (h : (s.onNewRtspSubDescribe x st a).2 = true) :
    (s.onNewRtspSubDescribe x st a).1 = (s.setG st ((s.getOrCreate st).describeRtspSub x)).note .subStart x := by
  unfold Srv.onNewRtspSubDescribe at h ⊢
  split
  · rename_i ha; simp [ha] at h
  · rfl

/-- the state after a refused ANNOUNCE / DESCRIBE: the connection is closed, its one session object is
    flagged and ended, nothing else happened -/
theorem inv_rtsp_refused {s : Srv} (h : Inv s) {c p : Sid} {k k' : SConn} (v : Sess)
    (hc : s.sess c = some (.rtspConn k)) (hp : s.sess p = none) (hv : isSessObj v) (hcl : v.claim = none)
    (hk' : k'.closed = true) :
    Inv ((s.setS c (.rtspConn k')).setS p v) := by
  have hpc : p ≠ c := by rintro rfl; rw [hc] at hp; cases hp
  refine h.mkRtsp (OkAll.same h.ok (by simp)) ?_ c [p] k k' hc (by simp [hpc.symm]) ?_ ?_ (by simp [hk'])
  · refine h.ci.same ?_ rfl
    funext y; unfold claimOf; simp only [Srv.setS_sess]
    split
    · rename_i e; subst e; simp [hp, hcl]
    · split
      · rename_i e; subst e; rw [hc]; rfl
      · rfl
  · intro x hx
    simp only [List.mem_singleton] at hx; subst hx
    exact ⟨Or.inl hp, ⟨v, by simp, hv⟩⟩
  · intro y hyc hyp
    simp only [List.mem_singleton] at hyp
    simp [hyp, hyc]

/-- the shapes of the state after ANNOUNCE -/
theorem sAnnounce_eq (s : Srv) (c p : Sid) (st : Stream) (a : Bool) :
    (sAnnounce Code.fixed s c p st a).1 = s ∨
    (∃ k, s.sess c = some (.rtspConn k) ∧ k.closed = false ∧ (sAnnounce Code.fixed s c p st a).1 = rtspTail Code.fixed s c k) ∨
    (s.sess c = some (.rtspConn {}) ∧ s.fresh p = true ∧
      (sAnnounce Code.fixed s c p st a).1 =
        (if (((s.setS c (.rtspConn { pub := some p })).setS p (.rtspPub { conn := c, stream := st })).onNewRtspPub p st a).2 = true then
          (((s.setS c (.rtspConn { pub := some p })).setS p (.rtspPub { conn := c, stream := st })).onNewRtspPub p st a).1.modSP p
            fun x => { x with accepted := true }
         else rtspTail Code.fixed (((s.setS c (.rtspConn { pub := some p })).setS p (.rtspPub { conn := c, stream := st })).modSP p
            fun x => { x with flag := true }) c { pub := some p })) := by
  unfold sAnnounce
  split
  · rename_i k hk
    obtain ⟨kp, ks, kc⟩ := k
    split
    · exact Or.inl rfl
    · rename_i hcl
      simp only [Bool.or_eq_true, Bool.not_eq_true', not_or, Bool.not_eq_true, Bool.not_eq_false] at hcl
      obtain ⟨hcl, hfr⟩ := hcl
      subst hcl
      split
      · exact Or.inr (Or.inl ⟨_, hk, rfl, rfl⟩)
      · rename_i hsec
        simp only [Code.fixed, Bool.true_and, Bool.or_eq_true, not_or, Bool.not_eq_true, Option.isSome_eq_false_iff, Option.isNone_iff_eq_none] at hsec
        obtain ⟨hkp, hks⟩ := hsec
        subst hkp; subst hks
        refine Or.inr (Or.inr ⟨hk, hfr, ?_⟩)
        dsimp only
        split <;> rfl
  · exact Or.inl rfl

theorem inv_sAnnounce {s : Srv} (h : Inv s) (c p : Sid) (st : Stream) (a : Bool) : Inv (sAnnounce Code.fixed s c p st a).1 := by
  have hok : OkAll (sAnnounce Code.fixed s c p st a).1 := ok_step h.ok (.sAnnounce c p st a)
  rcases sAnnounce_eq s c p st a with e | ⟨k, hk, hcl, e⟩ | ⟨hk, hfr, e⟩
  · rw [e]; exact h
  · rw [e]; exact inv_rtspTail h hk hcl
  · rw [e] at hok ⊢
    have hpn : s.sess p = none := by simpa [Srv.fresh] using hfr
    have hpc : p ≠ c := by rintro rfl; rw [hk] at hpn; cases hpn
    by_cases hacc : (((s.setS c (.rtspConn { pub := some p })).setS p (.rtspPub { conn := c, stream := st })).onNewRtspPub p st a).2 = true
    · -- accepted
      rw [if_pos hacc] at hok ⊢
      obtain ⟨hadd, e1⟩ := Srv.onNewRtspPub_true hacc
      rw [e1] at hok ⊢
      have hgoc : ((s.setS c (.rtspConn { pub := some p })).setS p (.rtspPub { conn := c, stream := st })).getOrCreate st = s.getOrCreate st := by
        simp [Srv.getOrCreate]
      rw [hgoc] at hok hadd ⊢
      rw [modSP_eq_setS (r := { conn := c, stream := st }) (by simp)] at hok ⊢
      have hsess : ∀ y, (((((s.setS c (.rtspConn { pub := some p })).setS p (.rtspPub { conn := c, stream := st })).setG st
          ((s.getOrCreate st).addRtspPub p).1).note .pubStart p).setS p (.rtspPub { conn := c, stream := st, accepted := true })).sess y =
          if y = p then some (.rtspPub { conn := c, stream := st, accepted := true }) else
          if y = c then some (.rtspConn { pub := some p }) else s.sess y := by
        intro y; simp only [Srv.setS_sess, Srv.note_sess, Srv.setG_sess]
        split
        · rfl
        · rename_i hy; simp [hy]
      refine h.mkRtsp hok ?_ c [p] {} { pub := some p } hk (by rw [hsess]; simp [hpc.symm]) ?_ ?_ ?_
      · refine h.ci.add p st .rtspPub ?_ (by simp [claimOf, hpn]) ?_ ?_
        · intro y hy; unfold claimOf; rw [hsess]; simp only [hy, if_false]
          split
          · rename_i e; subst e; rw [hk]; rfl
          · rfl
        · unfold claimOf; rw [hsess]; simp [Sess.claim]
        · intro st' sl y
          simp only [holdsAt_setS, holdsAt_note]
          exact holdsAt_add (s := s) (k := st) (g' := ((s.getOrCreate st).addRtspPub p).1) (by funext j; simp)
            (fun sl y => holds_addRtspPub hadd sl y) st' sl y
      · intro x hx
        simp only [List.mem_singleton] at hx; subst hx
        exact ⟨Or.inl hpn, ⟨.rtspPub { conn := c, stream := st, accepted := true }, by rw [hsess]; simp, by simp [isSessObj]⟩⟩
      · intro y hyc hyp
        simp only [List.mem_singleton] at hyp
        rw [hsess]; simp [hyp, hyc]
      · intro _
        refine ⟨Or.inr rfl, ?_, ?_⟩
        · intro x hx; simp at hx; subst hx
          exact ⟨{ conn := c, stream := st, accepted := true }, by rw [hsess]; simp, rfl, rfl, rfl, rfl⟩
        · intro x hx; cases hx
    · -- refused: the tail of handleTcpConnect runs at once and finds the session flagged
      rw [if_neg hacc] at hok ⊢
      have e : rtspTail Code.fixed (((s.setS c (.rtspConn { pub := some p })).setS p (.rtspPub { conn := c, stream := st })).modSP p
          fun x => { x with flag := true }) c { pub := some p } =
          (s.setS c (.rtspConn { pub := some p, closed := true })).setS p (.rtspPub { conn := c, stream := st, flag := true, ended := true }) := by
        rw [modSP_eq_setS (r := { conn := c, stream := st }) (by simp)]
        unfold rtspTail; dsimp only
        have : ∀ v, (((((s.setS c (.rtspConn { pub := some p })).setS p (.rtspPub { conn := c, stream := st })).setS p
            (.rtspPub { conn := c, stream := st, flag := true })).setS c v).sess p) = some (.rtspPub { conn := c, stream := st, flag := true }) := by
          intro v; simp [hpc]
        simp only [this, Code.fixed, Bool.and_self, if_true]
        rw [modSP_eq_setS (this _)]
        unfold Srv.setS; congr 1; funext y; dsimp only
        by_cases h1 : y = p <;> by_cases h2 : y = c <;> simp [h1, h2, hpc]
      rw [e]
      exact inv_rtsp_refused h _ hk hpn (by simp [isSessObj]) (by simp [Sess.claim]) rfl

/-- the shapes of the state after DESCRIBE -/
theorem sDescribe_eq (s : Srv) (c q : Sid) (st : Stream) (a : Bool) :
    (sDescribe Code.fixed s c q st a).1 = s ∨
    (∃ k, s.sess c = some (.rtspConn k) ∧ k.closed = false ∧ (sDescribe Code.fixed s c q st a).1 = rtspTail Code.fixed s c k) ∨
    (s.sess c = some (.rtspConn {}) ∧ s.fresh q = true ∧
      (sDescribe Code.fixed s c q st a).1 =
        (if (((s.setS c (.rtspConn { sub := some q })).setS q (.rtspSub { conn := c, stream := st })).onNewRtspSubDescribe q st a).2 = true then
          (((s.setS c (.rtspConn { sub := some q })).setS q (.rtspSub { conn := c, stream := st })).onNewRtspSubDescribe q st a).1.modSS q
            fun x => { x with accepted := true }
         else rtspTail Code.fixed (((s.setS c (.rtspConn { sub := some q })).setS q (.rtspSub { conn := c, stream := st })).modSS q
            fun x => { x with flag := true }) c { sub := some q })) := by
  unfold sDescribe
  split
  · rename_i k hk
    obtain ⟨kp, ks, kc⟩ := k
    split
    · exact Or.inl rfl
    · rename_i hcl
      simp only [Bool.or_eq_true, Bool.not_eq_true', not_or, Bool.not_eq_true, Bool.not_eq_false] at hcl
      obtain ⟨hcl, hfr⟩ := hcl
      subst hcl
      split
      · exact Or.inr (Or.inl ⟨_, hk, rfl, rfl⟩)
      · rename_i hsec
        simp only [Code.fixed, Bool.true_and, Bool.or_eq_true, not_or, Bool.not_eq_true, Option.isSome_eq_false_iff, Option.isNone_iff_eq_none] at hsec
        obtain ⟨hkp, hks⟩ := hsec
        subst hkp; subst hks
        refine Or.inr (Or.inr ⟨hk, hfr, ?_⟩)
        dsimp only
        split <;> rfl
  · exact Or.inl rfl

theorem inv_sDescribe {s : Srv} (h : Inv s) (c q : Sid) (st : Stream) (a : Bool) : Inv (sDescribe Code.fixed s c q st a).1 := by
  have hok : OkAll (sDescribe Code.fixed s c q st a).1 := ok_step h.ok (.sDescribe c q st a)
  rcases sDescribe_eq s c q st a with e | ⟨k, hk, hcl, e⟩ | ⟨hk, hfr, e⟩
  · rw [e]; exact h
  · rw [e]; exact inv_rtspTail h hk hcl
  · rw [e] at hok ⊢
    have hqn : s.sess q = none := by simpa [Srv.fresh] using hfr
    have hqc : q ≠ c := by rintro rfl; rw [hk] at hqn; cases hqn
    by_cases hacc : (((s.setS c (.rtspConn { sub := some q })).setS q (.rtspSub { conn := c, stream := st })).onNewRtspSubDescribe q st a).2 = true
    · -- accepted
      rw [if_pos hacc] at hok ⊢
      have e1 := Srv.onNewRtspSubDescribe_true hacc
      rw [e1] at hok ⊢
      have hgoc : ((s.setS c (.rtspConn { sub := some q })).setS q (.rtspSub { conn := c, stream := st })).getOrCreate st = s.getOrCreate st := by
        simp [Srv.getOrCreate]
      rw [hgoc] at hok ⊢
      rw [modSS_eq_setS (r := { conn := c, stream := st }) (by simp)] at hok ⊢
      have hsess : ∀ y, (((((s.setS c (.rtspConn { sub := some q })).setS q (.rtspSub { conn := c, stream := st })).setG st
          ((s.getOrCreate st).describeRtspSub q)).note .subStart q).setS q (.rtspSub { conn := c, stream := st, accepted := true })).sess y =
          if y = q then some (.rtspSub { conn := c, stream := st, accepted := true }) else
          if y = c then some (.rtspConn { sub := some q }) else s.sess y := by
        intro y; simp only [Srv.setS_sess, Srv.note_sess, Srv.setG_sess]
        split
        · rfl
        · rename_i hy; simp [hy]
      refine h.mkRtsp hok ?_ c [q] {} { sub := some q } hk (by rw [hsess]; simp [hqc.symm]) ?_ ?_ ?_
      · refine h.ci.add q st .rtspSub ?_ (by simp [claimOf, hqn]) ?_ ?_
        · intro y hy; unfold claimOf; rw [hsess]; simp only [hy, if_false]
          split
          · rename_i e; subst e; rw [hk]; rfl
          · rfl
        · unfold claimOf; rw [hsess]; simp [Sess.claim]
        · intro st' sl y
          simp only [holdsAt_setS, holdsAt_note]
          exact holdsAt_add (s := s) (k := st) (g' := (s.getOrCreate st).describeRtspSub q) (by funext j; simp)
            (fun sl y => holds_describeRtspSub _ q sl y) st' sl y
      · intro x hx
        simp only [List.mem_singleton] at hx; subst hx
        exact ⟨Or.inl hqn, ⟨.rtspSub { conn := c, stream := st, accepted := true }, by rw [hsess]; simp, by simp [isSessObj]⟩⟩
      · intro y hyc hyp
        simp only [List.mem_singleton] at hyp
        rw [hsess]; simp [hyp, hyc]
      · intro _
        refine ⟨Or.inl rfl, ?_, ?_⟩
        · intro x hx; cases hx
        · intro x hx; simp at hx; subst hx
          exact ⟨{ conn := c, stream := st, accepted := true }, by rw [hsess]; simp, rfl, rfl, rfl, rfl⟩
    · -- refused
      rw [if_neg hacc] at hok ⊢
      have e : rtspTail Code.fixed (((s.setS c (.rtspConn { sub := some q })).setS q (.rtspSub { conn := c, stream := st })).modSS q
          fun x => { x with flag := true }) c { sub := some q } =
          (s.setS c (.rtspConn { sub := some q, closed := true })).setS q (.rtspSub { conn := c, stream := st, flag := true, ended := true }) := by
        rw [modSS_eq_setS (r := { conn := c, stream := st }) (by simp)]
        unfold rtspTail; dsimp only
        have : ∀ v, (((((s.setS c (.rtspConn { sub := some q })).setS q (.rtspSub { conn := c, stream := st })).setS q
            (.rtspSub { conn := c, stream := st, flag := true })).setS c v).sess q) = some (.rtspSub { conn := c, stream := st, flag := true }) := by
          intro v; simp [hqc]
        simp only [this, Code.fixed, Bool.and_self, if_true]
        rw [modSS_eq_setS (this _)]
        unfold Srv.setS; congr 1; funext y; dsimp only
        by_cases h1 : y = q <;> by_cases h2 : y = c <;> simp [h1, h2, hqc]
      rw [e]
      exact inv_rtsp_refused h _ hk hqn (by simp [isSessObj]) (by simp [Sess.claim]) rfl

/-! ### every event, every reachable state -/

theorem inv_step {s : Srv} (h : Inv s) (e : Ev) : Inv (step Code.fixed s e).1 := by
  cases e <;> simp only [step]
  case rOpen c => exact inv_rOpen h c
  case rPublish c st a => exact inv_rPublish h c st a
  case rPlay c st a n => exact inv_rPlay h c st a n
  case rMedia c => unfold rMedia; (repeat' split) <;> exact h
  case rClose c => exact inv_rClose h c
  case sOpen c => exact inv_sOpen h c
  case sAnnounce c p st a => exact inv_sAnnounce h c p st a
  case sDescribe c q st a => exact inv_sDescribe h c q st a
  case sSetup c => exact inv_sSetup h c
  case sRecord c => exact inv_sRecord h c
  case sPlay c n => exact inv_sPlay h c n
  case sMedia c => exact inv_sMedia h c
  case sClose c => exact inv_sClose h c
  case custAdd k st => exact inv_custAdd h k st
  case custDel k => exact inv_custDel h k
  case custFeed k => unfold custFeed; (repeat' split) <;> exact h
  case rtpPub k st => exact inv_rtpPub h k st
  case psEnd k => exact inv_psEnd h k
  case psMedia k => unfold psMedia; (repeat' split) <;> exact h
  case startPull st r n nid => exact inv_startPull h st r n nid
  case pullAttach a => exact inv_pullAttach h a
  case pullDone a => exact inv_pullDone h a
  case pullMedia a => unfold pullMedia; (repeat' split) <;> exact h
  case stopPull st => exact inv_stopPull h st
  case kick st x => exact inv_kick h st x
  case tick st n => exact inv_tick h st n
  case stat st => exact h

theorem inv_run (evs : List Ev) : Inv (run Code.fixed evs) := by
  unfold run
  suffices h : ∀ s : Srv, Inv s → Inv (evs.foldl (fun s e => (step Code.fixed s e).1) s) from h init inv_init
  induction evs with
  | nil => intro s h; exact h
  | cons e r ih => intro s h; simp only [List.foldl]; exact ih _ (inv_step h e)

end Lal.Adm
