import LalModel.Model.Aac
import LalModel.Spec.AudioSpec
import LalModel.Proof.Bits
import LalModel.Proof.Bytes
/- The ISO/IEC 14496-3 readers of Spec/AudioSpec.lean on the bytes lal's AAC functions write. -/
namespace Lal.AudioSpec
open Lal Lal.Bits

theorem take?_natBits (w v : Nat) (rest : List Bool) : take? w (natBits w v ++ rest) = some (v % 2 ^ w, rest) := by
  have hl : ¬ ((natBits w v ++ rest).length < w) := by simp [natBits_length]
  simp only [take?, hl, if_false]
  rw [List.take_left' (natBits_length w v), List.drop_left' (natBits_length w v), bitsVal_natBits]

/-- the 56 header bits, field by field (adts_fixed_header + adts_variable_header) -/
def adtsBits (prof sfi ch len : Nat) : List Bool :=
  natBits 12 4095 ++ (natBits 1 0 ++ (natBits 2 0 ++ (natBits 1 1 ++ (natBits 2 prof ++ (natBits 4 sfi ++ (natBits 1 0 ++
    (natBits 3 ch ++ (natBits 4 0 ++ (natBits 13 len ++ (natBits 11 2047 ++ natBits 2 0))))))))))

theorem bitsOf_packAdtsHeader (c : Aac.AscContext) (n : Nat)
    (ho : 1 ≤ c.audioObjectType ∧ c.audioObjectType ≤ 4) (hs : c.samplingFrequencyIndex < 16)
    (hc : c.channelConfiguration < 8) (hn : n + 7 < 8192) :
    bitsOf (Aac.packAdtsHeader c n) = adtsBits (c.audioObjectType - 1) c.samplingFrequencyIndex c.channelConfiguration (n + 7) := by
  obtain ⟨o, s, ch⟩ := c
  simp only at ho hs hc
  have e1 : (o + 255) % 256 % 4 = o - 1 := by omega
  have e2 : s % 16 = s := by omega
  have e3 : ch % 8 = ch := by omega
  have e4 : (n + 7) % 8192 = n + 7 := by omega
  simp only [Aac.packAdtsHeader, e1, e2, e3, e4, bitsOf, byteBits, b8_toNat, adtsBits, natBits, List.cons_append, List.nil_append,
    List.append_nil]
  generalize o - 1 = p at *
  have hp : p < 4 := by omega
  simp only [List.cons.injEq, decide_eq_decide, and_true]
  refine ⟨?_, ?_, ?_, ?_, ?_, ?_, ?_, ?_, ?_, ?_, ?_, ?_, ?_, ?_, ?_, ?_, ?_, ?_, ?_, ?_, ?_, ?_, ?_, ?_, ?_, ?_, ?_, ?_,
          ?_, ?_, ?_, ?_, ?_, ?_, ?_, ?_, ?_, ?_, ?_, ?_, ?_, ?_, ?_, ?_, ?_, ?_, ?_, ?_, ?_, ?_, ?_, ?_, ?_, ?_, ?_, ?_⟩ <;>
    first | decide | omega | (rw [iff_true]; omega)

/-- the ISO/IEC 14496-3 ADTS header reader on `PackAdtsHeader`'s output -/
theorem readAdts_packAdtsHeader (c : Aac.AscContext) (n : Nat)
    (ho : 1 ≤ c.audioObjectType ∧ c.audioObjectType ≤ 4) (hs : c.samplingFrequencyIndex < 16)
    (hc : c.channelConfiguration < 8) (hn : n + 7 < 8192) :
    readAdts (Aac.packAdtsHeader c n) = some
      { id := 0, layer := 0, protectionAbsent := 1, profileObjectType := c.audioObjectType - 1,
        samplingFrequencyIndex := c.samplingFrequencyIndex, channelConfiguration := c.channelConfiguration,
        frameLength := n + 7, bufferFullness := 2047, rawDataBlocks := 0 } := by
  have hb := bitsOf_packAdtsHeader c n ho hs hc hn
  have m1 : (c.audioObjectType - 1) % 2 ^ 2 = c.audioObjectType - 1 := by
    have : c.audioObjectType - 1 < 4 := by omega
    exact Nat.mod_eq_of_lt this
  have m2 : c.samplingFrequencyIndex % 2 ^ 4 = c.samplingFrequencyIndex := Nat.mod_eq_of_lt hs
  have m3 : c.channelConfiguration % 2 ^ 3 = c.channelConfiguration := Nat.mod_eq_of_lt hc
  have m4 : (n + 7) % 2 ^ 13 = n + 7 := Nat.mod_eq_of_lt hn
  have t : natBits 2 0 = natBits 2 0 ++ [] := by simp
  simp only [readAdts, hb, adtsBits, take?_natBits, bind, Option.bind, pure, m1, m2, m3, m4]
  rw [t, take?_natBits]
  simp

theorem bitsOf_ascPack (c : Aac.AscContext) (ho : c.audioObjectType < 32) (hs : c.samplingFrequencyIndex < 16)
    (hc : c.channelConfiguration < 16) :
    bitsOf (Aac.ascPack c) = natBits 5 c.audioObjectType ++ (natBits 4 c.samplingFrequencyIndex ++ (natBits 4 c.channelConfiguration ++ natBits 3 0)) := by
  obtain ⟨o, s, ch⟩ := c
  simp only at ho hs hc
  have e1 : o % 32 = o := by omega
  have e2 : s % 16 = s := by omega
  have e3 : ch % 16 = ch := by omega
  simp only [Aac.ascPack, e1, e2, e3, bitsOf, byteBits, b8_toNat, natBits, List.cons_append, List.nil_append, List.append_nil]
  simp only [List.cons.injEq, decide_eq_decide, and_true]
  refine ⟨?_, ?_, ?_, ?_, ?_, ?_, ?_, ?_, ?_, ?_, ?_, ?_, ?_, ?_, ?_, ?_⟩ <;>
    first | decide | omega | (rw [iff_false]; omega) | (rw [iff_true]; omega)

/-- the ISO/IEC 14496-3 AudioSpecificConfig reader on `AscContext.Pack`'s output (object types below the 31 escape,
    sampling indices below the 0xf escape) -/
theorem readAsc_ascPack (c : Aac.AscContext) (ho : c.audioObjectType < 31) (hs : c.samplingFrequencyIndex < 15)
    (hc : c.channelConfiguration < 16) :
    readAsc (Aac.ascPack c) = some { objectType := c.audioObjectType, samplingFrequencyIndex := c.samplingFrequencyIndex,
                                      samplingFrequency := none, channelConfiguration := c.channelConfiguration } := by
  have hb := bitsOf_ascPack c (by omega) (by omega) hc
  have m1 : c.audioObjectType % 2 ^ 5 = c.audioObjectType := Nat.mod_eq_of_lt (by omega)
  have m2 : c.samplingFrequencyIndex % 2 ^ 4 = c.samplingFrequencyIndex := Nat.mod_eq_of_lt (by omega)
  have m3 : c.channelConfiguration % 2 ^ 4 = c.channelConfiguration := Nat.mod_eq_of_lt hc
  have n1 : ¬ (c.audioObjectType = 31) := by omega
  have n2 : ¬ (c.samplingFrequencyIndex = 15) := by omega
  simp only [readAsc, hb, take?_natBits, bind, Option.bind, pure, m1, m2, m3, n1, n2, if_false]

end Lal.AudioSpec
