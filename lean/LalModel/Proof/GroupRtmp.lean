import LalModel.Proof.GroupLog
/-
  Invariant of the RTMP-subscriber side of the group model: what each subscriber has been
  written is its start-up prologue followed by one contiguous slice of the publish log.
-/
set_option linter.unusedSimpArgs false
set_option linter.unusedVariables false
namespace Lal.Group

def bytesOf (l : List InMsg) : Bytes := (l.map chunksWithoutSdf).flatten

def slice {α} (l : List α) (a b : Nat) : List α := (l.drop a).take (b - a)

/-- index up to which the publish log has been handed to live RTMP subscribers -/
def St.D (s : St) : Nat := if s.cfg.mergeSize > 0 then s.mergeFrom else s.pubLog.length

abbrev St.rb (s : St) (id : Nat) : Bytes := s.bytes .rtmp id

structure SubOk (s : St) (x : Sub) : Prop where
  fresh_ : x.fresh = true → s.rb x.id = [] ∧ x.start = none
  wait_ : x.fresh = false → x.start = none → x.waitKey = true ∧ s.rb x.id = x.pro.flatten
  live_ : x.fresh = false → ∀ a, x.start = some a →
    x.waitKey = false ∧ a ≤ s.D ∧ s.rb x.id = x.pro.flatten ++ bytesOf (slice s.pubLog a s.D)

/-- the invariant, with the subscribers in `ex` exempt from `SubOk` (mid-update) -/
structure InvX (ex : List Nat) (s : St) : Prop where
  nodup : (s.rtmpSubs.map (·.id)).Nodup
  used : ∀ x ∈ s.rtmpSubs, x.id ∈ s.usedIds
  unused : ∀ id, id ∉ s.usedIds → s.rb id = []
  subs : ∀ x ∈ s.rtmpSubs, x.id ∉ ex → SubOk s x
  mfle : s.mergeFrom ≤ s.pubLog.length
  pend : s.cfg.mergeSize > 0 → (∃ x ∈ s.rtmpSubs, x.fresh = false) →
    s.merge.bs.flatten = bytesOf (s.pubLog.drop s.mergeFrom)
  size : s.merge.currSize = s.merge.bs.flatten.length
  exu : ∀ id ∈ ex, id ∈ s.usedIds

abbrev Inv (s : St) : Prop := InvX [] s

theorem bytesOf_append (a b : List InMsg) : bytesOf (a ++ b) = bytesOf a ++ bytesOf b := by
  simp [bytesOf]

theorem slice_split {α} (l : List α) (a b c : Nat) (h1 : a ≤ b) (h2 : b ≤ c) :
    slice l a c = slice l a b ++ slice l b c := by
  unfold slice
  have e : c - a = (b - a) + (c - b) := by omega
  rw [e, List.take_add, List.drop_drop]
  congr 2
  · congr 1; omega
  
theorem slice_to_end {α} (l : List α) (a : Nat) : slice l a l.length = l.drop a := by
  unfold slice; rw [List.take_of_length_le]; simp

theorem slice_self {α} (l : List α) (a : Nat) : slice l a a = [] := by simp [slice]

theorem slice_append_left {α} (l m : List α) (a b : Nat) (h : b ≤ l.length) : slice (l ++ m) a b = slice l a b := by
  unfold slice
  by_cases hab : a ≤ b
  · rw [List.drop_append_of_le_length (by omega), List.take_append_of_le_length (by simp; omega)]
  · have : b - a = 0 := by omega
    simp [this]

theorem eq_of_nodup_map {α β} (f : α → β) : ∀ (l : List α), (l.map f).Nodup → ∀ a b, a ∈ l → b ∈ l → f a = f b → a = b := by
  intro l
  induction l with
  | nil => intro _ a b ha; cases ha
  | cons x xs ih =>
    intro hnd a b ha hb hab
    simp only [List.map_cons, List.nodup_cons] at hnd
    simp only [List.mem_cons] at ha hb
    rcases ha with rfl | ha <;> rcases hb with rfl | hb
    · rfl
    · exact absurd (List.mem_map.mpr ⟨b, hb, hab.symm⟩) hnd.1
    · exact absurd (List.mem_map.mpr ⟨a, ha, hab⟩) hnd.1
    · exact ih hnd.2 a b ha hb hab

/-- fields a step leaves alone -/
structure SameBut (s s' : St) : Prop where
  rtmpSubs : s'.rtmpSubs = s.rtmpSubs
  flvSubs : s'.flvSubs = s.flvSubs
  pubLog : s'.pubLog = s.pubLog
  cfg : s'.cfg = s.cfg
  usedIds : s'.usedIds = s.usedIds
  rtmpGop : s'.rtmpGop = s.rtmpGop
  flvGop : s'.flvGop = s.flvGop
  hasIn : s'.hasIn = s.hasIn
  vcs : s'.videoCodecSet = s.videoCodecSet
  recording : s'.recording = s.recording
  nextRecord : s'.nextRecord = s.nextRecord

abbrev isLive (s : St) (id : Nat) : Prop := ∃ x ∈ s.rtmpSubs, x.id = id ∧ x.fresh = false ∧ x.waitKey = false

theorem flush_effect {ex} (s : St) (hI : InvX ex s) :
    SameBut s s.mergeFlush ∧ s.mergeFlush.mergeFrom = s.pubLog.length ∧
    s.mergeFlush.merge.bs.flatten = [] ∧ s.mergeFlush.merge.currSize = 0 ∧
    (∀ k id, s.mergeFlush.bytes k id = s.bytes k id ++
        (if k = .rtmp ∧ isLive s id then s.merge.bs.flatten else [])) := by
  by_cases hc : s.merge.currSize > 0
  · have e : s.mergeFlush = { toSubs s.merge.bs s.rtmpSubs s with merge := {}, mergeFrom := s.pubLog.length } := by
      simp [St.mergeFlush, hc, St.mergeFlushNow, toRtmpSubs_eq]
    obtain ⟨h1, h2, h3, h4, h5, h6, h7, h8, h9, h10, h11, h12, h13⟩ := toSubs_fields s.merge.bs s.rtmpSubs s
    rw [e]
    refine ⟨⟨h1, h2, h3, h6, h7, h8, h9, h10, h11, h12, h13⟩, rfl, rfl, rfl, ?_⟩
    intro k id
    exact toSubs_bytes s.merge.bs s.rtmpSubs s k id hI.nodup
  · have h0 : s.merge.currSize = 0 := by omega
    have hz : s.merge.bs.flatten = [] := by
      have := hI.size
      rw [h0] at this
      exact List.eq_nil_of_length_eq_zero this.symm
    have e : s.mergeFlush = { s with mergeFrom := s.pubLog.length } := by
      simp [St.mergeFlush, hc]
    rw [e]
    refine ⟨⟨rfl, rfl, rfl, rfl, rfl, rfl, rfl, rfl, rfl, rfl, rfl⟩, rfl, hz, h0, ?_⟩
    intro k id
    simp only [hz]
    split <;> simp [St.bytes, St.log]

theorem D_of_merge (s : St) (hm : s.cfg.mergeSize > 0) : s.D = s.mergeFrom := by simp [St.D, hm]

/-- what a live subscriber holds, re-expressed after a flush -/
theorem flush_inv {ex} (s : St) (hI : InvX ex s) (hm : s.cfg.mergeSize > 0) : InvX ex s.mergeFlush := by
  obtain ⟨hS, hmf, hbs, hcs, hby⟩ := flush_effect s hI
  have hcfg : s.mergeFlush.cfg.mergeSize > 0 := by rw [hS.cfg]; exact hm
  have hD' : s.mergeFlush.D = s.pubLog.length := by rw [D_of_merge _ hcfg, hmf]
  have hD : s.D = s.mergeFrom := D_of_merge s hm
  refine ⟨by rw [hS.rtmpSubs]; exact hI.nodup, ?_, ?_, ?_, by rw [hmf, hS.pubLog]; exact Nat.le_refl _, ?_, by simp [hcs, hbs], by rw [hS.usedIds]; exact hI.exu⟩
  · intro x hx; rw [hS.rtmpSubs] at hx; rw [hS.usedIds]; exact hI.used x hx
  · intro id hid
    rw [hS.usedIds] at hid
    have hnl : ¬ isLive s id := by
      intro ⟨x, hx, hxid, _⟩; exact hid (hxid ▸ hI.used x hx)
    show s.mergeFlush.bytes .rtmp id = []
    rw [hby, if_neg (fun h => hnl h.2)]
    simpa using hI.unused id hid
  · intro x hx hex
    rw [hS.rtmpSubs] at hx
    have ok := hI.subs x hx hex
    have hrb : s.mergeFlush.rb x.id = s.rb x.id ++ (if isLive s x.id then s.merge.bs.flatten else []) := by
      show s.mergeFlush.bytes .rtmp x.id = _
      rw [hby]; simp
    -- with unique ids, `isLive s x.id` is a statement about x itself
    have hlive_iff : isLive s x.id ↔ (x.fresh = false ∧ x.waitKey = false) := by
      constructor
      · intro ⟨y, hy, hyid, hf, hw⟩
        have : y = x := by
          have hnd := hI.nodup
          exact eq_of_nodup_map (·.id) _ hnd y x hy hx hyid
        subst this; exact ⟨hf, hw⟩
      · intro ⟨hf, hw⟩; exact ⟨x, hx, rfl, hf, hw⟩
    constructor
    · intro hf
      have hnl : ¬ isLive s x.id := by rw [hlive_iff]; intro ⟨h, _⟩; rw [hf] at h; cases h
      rw [hrb, if_neg hnl]; simpa using ok.fresh_ hf
    · intro hf hs
      obtain ⟨hw, hb⟩ := ok.wait_ hf hs
      have hnl : ¬ isLive s x.id := by rw [hlive_iff]; intro ⟨_, h⟩; rw [hw] at h; cases h
      rw [hrb, if_neg hnl]; exact ⟨hw, by simpa using hb⟩
    · intro hf a hs
      obtain ⟨hw, hle, hb⟩ := ok.live_ hf a hs
      have hl : isLive s x.id := hlive_iff.mpr ⟨hf, hw⟩
      rw [hD] at hle hb
      have hp := hI.pend hm ⟨x, hx, hf⟩
      refine ⟨hw, by rw [hD']; exact Nat.le_trans hle hI.mfle, ?_⟩
      rw [hrb, if_pos hl, hb, hp, hD', hS.pubLog, List.append_assoc, ← bytesOf_append]
      congr 2
      rw [slice_split s.pubLog a s.mergeFrom s.pubLog.length hle hI.mfle, slice_to_end]
  · intro _ _
    rw [hbs, hmf, hS.pubLog]; simp [bytesOf]

theorem subOk_of_eq {s s' : St} {x : Sub} (hrb : s'.rb x.id = s.rb x.id) (hD : s'.D = s.D)
    (hp : s'.pubLog = s.pubLog) (h : SubOk s x) : SubOk s' x := by
  constructor
  · intro hf; rw [hrb]; exact h.fresh_ hf
  · intro hf hs; rw [hrb]; exact h.wait_ hf hs
  · intro hf a hs; rw [hrb, hD, hp]; exact h.live_ hf a hs

theorem D_eq {s s' : St} (hcfg : s'.cfg = s.cfg) (hmf : s'.mergeFrom = s.mergeFrom) (hp : s'.pubLog = s.pubLog) :
    s'.D = s.D := by simp [St.D, hcfg, hmf, hp]

/-- a change that touches neither the subscriber table nor the publish log / merge writer, and only the
    bytes of exempt consumers -/
theorem inv_transfer {ex ex' : List Nat} (s s' : St) (hI : InvX ex s)
    (hsubs : s'.rtmpSubs = s.rtmpSubs) (hpub : s'.pubLog = s.pubLog) (hcfg : s'.cfg = s.cfg)
    (hused : s'.usedIds = s.usedIds) (hmerge : s'.merge = s.merge) (hmf : s'.mergeFrom = s.mergeFrom)
    (hrb : ∀ id, id ∉ ex' → s'.rb id = s.rb id) (hex : ∀ id ∈ ex, id ∈ ex')
    (hexUsed : ∀ id ∈ ex', id ∈ s.usedIds) : InvX ex' s' := by
  have hD := D_eq hcfg hmf hpub
  refine ⟨by rw [hsubs]; exact hI.nodup, ?_, ?_, ?_, by rw [hmf, hpub]; exact hI.mfle, ?_, by rw [hmerge]; exact hI.size, by rw [hused]; exact hexUsed⟩
  · intro x hx; rw [hsubs] at hx; rw [hused]; exact hI.used x hx
  · intro id hid
    rw [hused] at hid
    have : id ∉ ex' := fun h => hid (hexUsed id h)
    rw [hrb id this]; exact hI.unused id hid
  · intro x hx hxe
    rw [hsubs] at hx
    exact subOk_of_eq (hrb x.id hxe) hD hpub (hI.subs x hx (fun h => hxe (hex _ h)))
  · intro hm hex2
    rw [hcfg] at hm; rw [hsubs] at hex2
    rw [hmerge, hpub, hmf]; exact hI.pend hm hex2

/-- writing to one RTMP subscriber exempts it -/
theorem write_inv {ex} (s : St) (hI : InvX ex s) (x : Sub) (hx : x ∈ s.rtmpSubs) (bs : List Bytes) :
    InvX (x.id :: ex) (s.writeAll .rtmp x.id bs) := by
  refine inv_transfer s _ hI rfl rfl rfl rfl rfl rfl ?_ (fun id h => List.mem_cons_of_mem _ h) ?_
  · intro id hid
    show (s.writeAll .rtmp x.id bs).bytes .rtmp id = s.bytes .rtmp id
    rw [bytes_writeAll]
    have : ¬ (id = x.id) := fun h => hid (h ▸ List.mem_cons_self)
    simp [this]
  · intro id hid
    rcases List.mem_cons.mp hid with rfl | h
    · exact hI.used x hx
    · exact hI.exu id h

theorem modRtmp_mem {s : St} {id : Nat} {f : Sub → Sub} {y' : Sub} (h : y' ∈ (s.modRtmp id f).rtmpSubs) :
    ∃ y ∈ s.rtmpSubs, y' = (if y.id == id then f y else y) := by
  simp only [St.modRtmp, List.mem_map] at h
  obtain ⟨y, hy, rfl⟩ := h
  exact ⟨y, hy, rfl⟩

theorem modRtmp_ids (s : St) (id : Nat) (f : Sub → Sub) (hid : ∀ y, (f y).id = y.id) :
    (s.modRtmp id f).rtmpSubs.map (·.id) = s.rtmpSubs.map (·.id) := by
  simp only [St.modRtmp, List.map_map]
  apply List.map_congr_left
  intro y _
  simp only [Function.comp]
  split <;> simp [hid]

/-- updating the flags of the one exempt subscriber closes the invariant again -/
theorem mod_inv {ex} (s : St) (hI : InvX ex s) (x : Sub) (hx : x ∈ s.rtmpSubs) (f : Sub → Sub)
    (hid : ∀ y, (f y).id = y.id)
    (hok : SubOk (s.modRtmp x.id f) (f x))
    (hpend : s.cfg.mergeSize > 0 → (f x).fresh = false → s.merge.bs.flatten = bytesOf (s.pubLog.drop s.mergeFrom))
    (hex : ∀ id ∈ ex, id = x.id) : Inv (s.modRtmp x.id f) := by
  have hids := modRtmp_ids s x.id f hid
  refine ⟨by rw [hids]; exact hI.nodup, ?_, hI.unused, ?_, hI.mfle, ?_, hI.size, by intro id h; cases h⟩
  · intro y' hy'
    obtain ⟨y, hy, rfl⟩ := modRtmp_mem hy'
    have : (if y.id == x.id then f y else y).id = y.id := by split <;> simp [hid]
    rw [this]; exact hI.used y hy
  · intro y' hy' _
    obtain ⟨y, hy, rfl⟩ := modRtmp_mem hy'
    by_cases hyx : y.id = x.id
    · have : y = x := eq_of_nodup_map (·.id) _ hI.nodup y x hy hx hyx
      subst this
      simpa using hok
    · have hne : (y.id == x.id) = false := by simpa using hyx
      simp only [hne, Bool.false_eq_true, if_false]
      have hyex : y.id ∉ ex := fun h => hyx (hex _ h)
      exact subOk_of_eq (s := s) (s' := s.modRtmp x.id f) rfl rfl rfl (hI.subs y hy hyex)
  · intro hm ⟨y', hy', hfr⟩
    obtain ⟨y, hy, rfl⟩ := modRtmp_mem hy'
    by_cases hyx : y.id = x.id
    · have : y = x := eq_of_nodup_map (·.id) _ hI.nodup y x hy hx hyx
      subst this
      have hfr' : (f y).fresh = false := by simpa using hfr
      exact hpend hm hfr'
    · have hne : (y.id == x.id) = false := by simpa using hyx
      simp only [hne, Bool.false_eq_true, if_false] at hfr
      exact hI.pend hm ⟨y, hy, hfr⟩

theorem getRtmp_mem {s : St} {id : Nat} {x : Sub} (h : s.getRtmp id = some x) : x ∈ s.rtmpSubs ∧ x.id = id := by
  simp only [St.getRtmp] at h
  exact ⟨List.mem_of_find?_eq_some h, by simpa using List.find?_some h⟩

theorem modRtmp_congr (s : St) (hnd : (s.rtmpSubs.map (·.id)).Nodup) (x : Sub) (hx : x ∈ s.rtmpSubs) (f g : Sub → Sub)
    (h : f x = g x) : s.modRtmp x.id f = s.modRtmp x.id g := by
  simp only [St.modRtmp]
  congr 1
  apply List.map_congr_left
  intro y hy
  by_cases hyx : y.id = x.id
  · have : y = x := eq_of_nodup_map (·.id) _ hnd y x hy hx hyx
    subst this; simp [h]
  · have hne : (y.id == x.id) = false := by simpa using hyx
    simp [hne]

theorem find_map_upd (x : Sub) (f : Sub → Sub) (hid : ∀ y, (f y).id = y.id) :
    ∀ (l : List Sub), (l.map (·.id)).Nodup → x ∈ l →
    (l.map fun y => if y.id == x.id then f y else y).find? (·.id == x.id) = some (f x) := by
  intro l
  induction l with
  | nil => intro _ hx; cases hx
  | cons y ys ih =>
    intro hnd hx
    simp only [List.map_cons, List.nodup_cons] at hnd
    simp only [List.map_cons, List.find?_cons]
    by_cases hyx : y.id = x.id
    · rcases List.mem_cons.mp hx with rfl | hx'
      · simp [hid]
      · exact absurd (List.mem_map.mpr ⟨x, hx', hyx.symm⟩) hnd.1
    · have hne : (y.id == x.id) = false := by simpa using hyx
      rcases List.mem_cons.mp hx with rfl | hx'
      · exact absurd rfl hyx
      · simp only [hne, Bool.false_eq_true, if_false]
        exact ih hnd.2 hx'

theorem getRtmp_modRtmp (s : St) (hnd : (s.rtmpSubs.map (·.id)).Nodup) (x : Sub) (hx : x ∈ s.rtmpSubs) (f : Sub → Sub)
    (hid : ∀ y, (f y).id = y.id) : (s.modRtmp x.id f).getRtmp x.id = some (f x) := by
  simp only [St.getRtmp, St.modRtmp]
  exact find_map_upd x f hid s.rtmpSubs hnd hx

/-- A subscriber that is not live (fresh or waiting) and has been written exactly `P` is given its
    new flags, after the merge writer was flushed to the others. -/
theorem settle (s : St) (x : Sub) (hI : InvX [x.id] s) (hx : x ∈ s.rtmpSubs)
    (hnl : x.fresh = true ∨ x.waitKey = true) (P : List Bytes) (hrb : s.rb x.id = P.flatten) (w : Bool) :
    Inv ((if s.cfg.mergeSize > 0 then s.mergeFlush else s).modRtmp x.id fun y =>
      { y with fresh := false, waitKey := w, pro := P, start := if w then none else some s.pubLog.length }) := by
  by_cases hm : s.cfg.mergeSize > 0
  · simp only [hm, if_true]
    obtain ⟨hS, hmf, hbs, hcs, hby⟩ := flush_effect s hI
    have hIB := flush_inv s hI hm
    have hxB : x ∈ s.mergeFlush.rtmpSubs := by rw [hS.rtmpSubs]; exact hx
    have hnotlive : ¬ isLive s x.id := by
      intro ⟨y, hy, hyid, hf, hw⟩
      have : y = x := eq_of_nodup_map (·.id) _ hI.nodup y x hy hx hyid
      subst this
      rcases hnl with h | h
      · rw [h] at hf; cases hf
      · rw [h] at hw; cases hw
    have hrbB : s.mergeFlush.rb x.id = P.flatten := by
      show s.mergeFlush.bytes .rtmp x.id = _
      rw [hby, if_neg (fun h => hnotlive h.2)]; simpa using hrb
    have hcfgB : s.mergeFlush.cfg.mergeSize > 0 := by rw [hS.cfg]; exact hm
    refine mod_inv s.mergeFlush hIB x hxB _ (fun y => rfl) ?_ ?_ (by intro id h; simpa using h)
    · have hD : (s.mergeFlush.modRtmp x.id fun y =>
          { y with fresh := false, waitKey := w, pro := P, start := if w then none else some s.pubLog.length }).D
          = s.pubLog.length := by
        simp [St.D, St.modRtmp, hcfgB, hmf]
      constructor
      · intro h; cases h
      · intro _ hs
        cases w with
        | true => exact ⟨rfl, hrbB⟩
        | false => simp at hs
      · intro _ a hs
        cases w with
        | true => simp at hs
        | false =>
          simp only [Bool.false_eq_true, if_false, Option.some.injEq] at hs
          subst hs
          refine ⟨rfl, by rw [hD]; exact Nat.le_refl _, ?_⟩
          rw [hD]
          show s.mergeFlush.rb x.id = _
          rw [hrbB, slice_self]; simp [bytesOf]
    · intro _ _
      rw [hbs, hmf, hS.pubLog]; simp [bytesOf]
  · simp only [hm, if_false]
    have hm0 : s.cfg.mergeSize = 0 := by omega
    refine mod_inv s hI x hx _ (fun y => rfl) ?_ (fun h => absurd h hm) (by intro id h; simpa using h)
    have hD : (s.modRtmp x.id fun y =>
        { y with fresh := false, waitKey := w, pro := P, start := if w then none else some s.pubLog.length }).D
        = s.pubLog.length := by
      simp [St.D, St.modRtmp, hm0]
    constructor
    · intro h; cases h
    · intro _ hs
      cases w with
      | true => exact ⟨rfl, hrb⟩
      | false => simp at hs
    · intro _ a hs
      cases w with
      | true => simp at hs
      | false =>
        simp only [Bool.false_eq_true, if_false, Option.some.injEq] at hs
        subst hs
        refine ⟨rfl, by rw [hD]; exact Nat.le_refl _, ?_⟩
        rw [hD]
        show s.rb x.id = _
        rw [hrb, slice_self]; simp [bytesOf]

/-- what the RTMP-subscriber loop leaves alone -/
structure Frame (s s' : St) : Prop where
  pubLog : s'.pubLog = s.pubLog
  cfg : s'.cfg = s.cfg
  usedIds : s'.usedIds = s.usedIds
  flvSubs : s'.flvSubs = s.flvSubs
  rtmpGop : s'.rtmpGop = s.rtmpGop
  flvGop : s'.flvGop = s.flvGop
  hasIn : s'.hasIn = s.hasIn
  vcs : s'.videoCodecSet = s.videoCodecSet
  recording : s'.recording = s.recording
  nextRecord : s'.nextRecord = s.nextRecord
  ids : s'.rtmpSubs.map (·.id) = s.rtmpSubs.map (·.id)
  other : ∀ k id, k ≠ .rtmp → s'.bytes k id = s.bytes k id

theorem Frame.refl (s : St) : Frame s s := ⟨rfl, rfl, rfl, rfl, rfl, rfl, rfl, rfl, rfl, rfl, rfl, fun _ _ _ => rfl⟩

theorem Frame.trans {a b c : St} (h1 : Frame a b) (h2 : Frame b c) : Frame a c :=
  ⟨h2.pubLog.trans h1.pubLog, h2.cfg.trans h1.cfg, h2.usedIds.trans h1.usedIds, h2.flvSubs.trans h1.flvSubs,
   h2.rtmpGop.trans h1.rtmpGop, h2.flvGop.trans h1.flvGop, h2.hasIn.trans h1.hasIn, h2.vcs.trans h1.vcs,
   h2.recording.trans h1.recording, h2.nextRecord.trans h1.nextRecord, h2.ids.trans h1.ids,
   fun k id hk => (h2.other k id hk).trans (h1.other k id hk)⟩

theorem frame_write (s : St) (id : Nat) (bs : List Bytes) : Frame s (s.writeAll .rtmp id bs) :=
  ⟨rfl, rfl, rfl, rfl, rfl, rfl, rfl, rfl, rfl, rfl, rfl, by
    intro k id' hk; rw [bytes_writeAll]; simp [hk]⟩

theorem frame_flush {ex} (s : St) (hI : InvX ex s) : Frame s s.mergeFlush := by
  obtain ⟨hS, _, _, _, hby⟩ := flush_effect s hI
  exact ⟨hS.pubLog, hS.cfg, hS.usedIds, hS.flvSubs, hS.rtmpGop, hS.flvGop, hS.hasIn, hS.vcs, hS.recording,
    hS.nextRecord, by rw [hS.rtmpSubs], by intro k id hk; rw [hby]; simp [hk]⟩

theorem frame_mod (s : St) (id : Nat) (f : Sub → Sub) (hid : ∀ y, (f y).id = y.id) : Frame s (s.modRtmp id f) :=
  ⟨rfl, rfl, rfl, rfl, rfl, rfl, rfl, rfl, rfl, rfl, modRtmp_ids s id f hid, fun _ _ _ => rfl⟩

theorem invX_weaken (s : St) (hI : Inv s) (x : Sub) (hx : x ∈ s.rtmpSubs) : InvX [x.id] s :=
  ⟨hI.nodup, hI.used, hI.unused, fun y hy _ => hI.subs y hy (by simp), hI.mfle, hI.pend, hI.size,
   by intro id h; have : id = x.id := by simpa using h
      subst this; exact hI.used x hx⟩

/-- the stored record of subscriber `id` after a step, for the next step of the same iteration -/
structure Stored (s : St) (id : Nat) (x : Sub) : Prop where
  get : s.getRtmp id = some x
  mem : x ∈ s.rtmpSubs
  id_ : x.id = id
  notFresh : x.fresh = false

/-- step A of `rtmpOne`: a fresh subscriber is sent the cached headers and GOPs -/
theorem rtmpOne_stepA (s : St) (sub : Sub) (hI : Inv s) (hg : s.getRtmp sub.id = some sub) :
    let s1 := (if sub.fresh then
          ((if s.cfg.mergeSize > 0 then (s.writeAll .rtmp sub.id (prologue s.rtmpGop)).mergeFlush
            else s.writeAll .rtmp sub.id (prologue s.rtmpGop)).modRtmp sub.id fun x =>
            { x with fresh := false,
                     waitKey := if GopCache.gopCount s.rtmpGop > 0 then false else sub.waitKey,
                     pro := prologue s.rtmpGop,
                     start := if (if GopCache.gopCount s.rtmpGop > 0 then false else sub.waitKey) then none
                              else some s.pubLog.length })
        else s)
    Inv s1 ∧ Frame s s1 ∧ ∃ sub1, Stored s1 sub.id sub1 := by
  intro s1
  obtain ⟨hx, _⟩ := getRtmp_mem hg
  by_cases hf : sub.fresh = true
  · have es1 : s1 = ((if s.cfg.mergeSize > 0 then (s.writeAll .rtmp sub.id (prologue s.rtmpGop)).mergeFlush
            else s.writeAll .rtmp sub.id (prologue s.rtmpGop)).modRtmp sub.id fun x =>
            { x with fresh := false,
                     waitKey := if GopCache.gopCount s.rtmpGop > 0 then false else sub.waitKey,
                     pro := prologue s.rtmpGop,
                     start := if (if GopCache.gopCount s.rtmpGop > 0 then false else sub.waitKey) then none
                              else some s.pubLog.length }) := by
      simp only [s1, hf, if_true]
    rw [es1]
    have hIA := write_inv s hI sub hx (prologue s.rtmpGop)
    have hrb : (s.writeAll .rtmp sub.id (prologue s.rtmpGop)).rb sub.id = (prologue s.rtmpGop).flatten := by
      show (s.writeAll .rtmp sub.id (prologue s.rtmpGop)).bytes .rtmp sub.id = _
      rw [bytes_writeAll]
      have := ((hI.subs sub hx (by simp)).fresh_ hf).1
      simp [St.rb] at this
      simp [this]
    have hset := settle (s.writeAll .rtmp sub.id (prologue s.rtmpGop)) sub hIA hx (Or.inl hf) _ hrb
      (if GopCache.gopCount s.rtmpGop > 0 then false else sub.waitKey)
    refine ⟨hset, ?_, ?_⟩
    · have f1 := frame_write s sub.id (prologue s.rtmpGop)
      have f2 : Frame (s.writeAll .rtmp sub.id (prologue s.rtmpGop))
          (if s.cfg.mergeSize > 0 then (s.writeAll .rtmp sub.id (prologue s.rtmpGop)).mergeFlush
           else s.writeAll .rtmp sub.id (prologue s.rtmpGop)) := by
        split
        · exact frame_flush _ hIA
        · exact Frame.refl _
      exact Frame.trans f1 (Frame.trans f2 (frame_mod _ _ _ (fun _ => rfl)))
    · have hxB : sub ∈ (if s.cfg.mergeSize > 0 then (s.writeAll .rtmp sub.id (prologue s.rtmpGop)).mergeFlush
          else s.writeAll .rtmp sub.id (prologue s.rtmpGop)).rtmpSubs := by
        split
        · rw [(flush_effect _ hIA).1.rtmpSubs]; exact hx
        · exact hx
      have hndB : ((if s.cfg.mergeSize > 0 then (s.writeAll .rtmp sub.id (prologue s.rtmpGop)).mergeFlush
          else s.writeAll .rtmp sub.id (prologue s.rtmpGop)).rtmpSubs.map (·.id)).Nodup := by
        split
        · rw [(flush_effect _ hIA).1.rtmpSubs]; exact hI.nodup
        · exact hI.nodup
      have hget := getRtmp_modRtmp _ hndB sub hxB (fun x =>
        { x with fresh := false,
                 waitKey := if GopCache.gopCount s.rtmpGop > 0 then false else sub.waitKey,
                 pro := prologue s.rtmpGop,
                 start := if (if GopCache.gopCount s.rtmpGop > 0 then false else sub.waitKey) then none
                          else some s.pubLog.length }) (fun _ => rfl)
      exact ⟨_, hget, (getRtmp_mem hget).1, rfl, rfl⟩
  · have hf' : sub.fresh = false := by simpa using hf
    have es1 : s1 = s := by simp only [s1, hf', Bool.false_eq_true, if_false]
    rw [es1]
    exact ⟨hI, Frame.refl s, sub, hg, hx, rfl, hf'⟩

/-- the header step: a waiting subscriber is sent the metadata / sequence header being broadcast -/
theorem rtmpOne_stepH (s1 : St) (id : Nat) (sub1 : Sub) (hdr : Option Bytes) (hI1 : Inv s1) (hst : Stored s1 id sub1) :
    let s1h := (if sub1.waitKey && hdr.isSome then
        (s1.writeAll .rtmp id hdr.toList).modRtmp id fun x => { x with pro := x.pro ++ hdr.toList } else s1)
    Inv s1h ∧ Frame s1 s1h ∧ ∃ sub2, Stored s1h id sub2 ∧ sub2.waitKey = sub1.waitKey := by
  intro s1h
  obtain ⟨hg1, hx1, hid1, hfr1⟩ := hst
  by_cases hc : (sub1.waitKey && hdr.isSome) = true
  · have es : s1h = (s1.writeAll .rtmp id hdr.toList).modRtmp id fun x => { x with pro := x.pro ++ hdr.toList } := by
      simp only [s1h, hc, if_true]
    rw [es]
    subst hid1
    have hw : sub1.waitKey = true := by cases h : sub1.waitKey <;> simp_all
    have ok := hI1.subs sub1 hx1 (by simp)
    have hstart : sub1.start = none := by
      cases hs : sub1.start with
      | none => rfl
      | some a => have := (ok.live_ hfr1 a hs).1; rw [hw] at this; cases this
    have hrb : s1.rb sub1.id = sub1.pro.flatten := (ok.wait_ hfr1 hstart).2
    have hIA := write_inv s1 hI1 sub1 hx1 hdr.toList
    have hinv : Inv ((s1.writeAll .rtmp sub1.id hdr.toList).modRtmp sub1.id fun x => { x with pro := x.pro ++ hdr.toList }) := by
      refine mod_inv _ hIA sub1 hx1 _ (fun _ => rfl) ?_ ?_ (by intro i h; simpa using h)
      · constructor
        · intro h; rw [hfr1] at h; cases h
        · intro _ _
          refine ⟨hw, ?_⟩
          show (s1.writeAll .rtmp sub1.id hdr.toList).bytes .rtmp sub1.id = _
          rw [bytes_writeAll]
          have : s1.bytes .rtmp sub1.id = sub1.pro.flatten := hrb
          simp [this]
        · intro _ a ha; rw [hstart] at ha; cases ha
      · intro hm _
        exact hI1.pend hm ⟨sub1, hx1, hfr1⟩
    refine ⟨hinv, Frame.trans (frame_write s1 sub1.id _) (frame_mod _ _ _ (fun _ => rfl)), ?_⟩
    have hget := getRtmp_modRtmp (s1.writeAll .rtmp sub1.id hdr.toList) hI1.nodup sub1 hx1
      (fun x => { x with pro := x.pro ++ hdr.toList }) (fun _ => rfl)
    exact ⟨_, ⟨hget, (getRtmp_mem hget).1, rfl, hfr1⟩, rfl⟩
  · have es : s1h = s1 := by simp only [s1h, hc, if_false, Bool.false_eq_true]
    rw [es]
    exact ⟨hI1, Frame.refl s1, sub1, ⟨hg1, hx1, hid1, hfr1⟩, rfl⟩

/-- the key-frame step: a waiting subscriber goes live -/
theorem rtmpOne_stepK (s1 : St) (id n : Nat) (sub1 : Sub) (hI1 : Inv s1) (hst : Stored s1 id sub1)
    (hw : sub1.waitKey = true) (hn : n = s1.pubLog.length) :
    Inv ((if s1.cfg.mergeSize > 0 then s1.mergeFlush else s1).modRtmp id fun x => { x with waitKey := false, start := some n }) ∧
    Frame s1 ((if s1.cfg.mergeSize > 0 then s1.mergeFlush else s1).modRtmp id fun x => { x with waitKey := false, start := some n }) := by
  obtain ⟨hg1, hx1, hid1, hfr1⟩ := hst
  subst hid1
  have ok := hI1.subs sub1 hx1 (by simp)
  have hstart : sub1.start = none := by
    cases hs : sub1.start with
    | none => rfl
    | some a => have := (ok.live_ hfr1 a hs).1; rw [hw] at this; cases this
  have hrb : s1.rb sub1.id = sub1.pro.flatten := (ok.wait_ hfr1 hstart).2
  have hset := settle s1 sub1 (invX_weaken s1 hI1 sub1 hx1) hx1 (Or.inr hw) sub1.pro hrb false
  have hndC : ((if s1.cfg.mergeSize > 0 then s1.mergeFlush else s1).rtmpSubs.map (·.id)).Nodup := by
    split
    · rw [(flush_effect s1 hI1).1.rtmpSubs]; exact hI1.nodup
    · exact hI1.nodup
  have hxC : sub1 ∈ (if s1.cfg.mergeSize > 0 then s1.mergeFlush else s1).rtmpSubs := by
    split
    · rw [(flush_effect s1 hI1).1.rtmpSubs]; exact hx1
    · exact hx1
  have hcong := modRtmp_congr _ hndC sub1 hxC
    (fun x => { x with waitKey := false, start := some n })
    (fun y => { y with fresh := false, waitKey := false, pro := sub1.pro,
                       start := if false then none else some s1.pubLog.length })
    (by simp [hfr1, hn])
  rw [hcong]
  simp only [Bool.false_eq_true, if_false] at hset ⊢
  have f2 : Frame s1 (if s1.cfg.mergeSize > 0 then s1.mergeFlush else s1) := by
    split
    · exact frame_flush s1 hI1
    · exact Frame.refl _
  exact ⟨hset, Frame.trans f2 (frame_mod _ _ _ (fun _ => rfl))⟩

theorem rtmpOne_inv (key : Bool) (hdr : Option Bytes) (s : St) (id : Nat) (hI : Inv s) :
    Inv (rtmpOne key hdr s id) ∧ Frame s (rtmpOne key hdr s id) := by
  unfold rtmpOne
  cases hg : s.getRtmp id with
  | none => exact ⟨hI, Frame.refl s⟩
  | some sub =>
    obtain ⟨hx, hsid⟩ := getRtmp_mem hg
    subst hsid
    simp only
    obtain ⟨hI1, hF1, sub1, hst1⟩ := rtmpOne_stepA s sub hI hg
    generalize (if sub.fresh then
          ((if s.cfg.mergeSize > 0 then (s.writeAll .rtmp sub.id (prologue s.rtmpGop)).mergeFlush
            else s.writeAll .rtmp sub.id (prologue s.rtmpGop)).modRtmp sub.id fun x =>
            { x with fresh := false,
                     waitKey := if GopCache.gopCount s.rtmpGop > 0 then false else sub.waitKey,
                     pro := prologue s.rtmpGop,
                     start := if (if GopCache.gopCount s.rtmpGop > 0 then false else sub.waitKey) then none
                              else some s.pubLog.length })
        else s) = s1 at hI1 hF1 hst1 ⊢
    rw [hst1.get]
    simp only
    obtain ⟨hIh, hFh, sub2, hst2, hw2⟩ := rtmpOne_stepH s1 sub.id sub1 hdr hI1 hst1
    generalize (if sub1.waitKey && hdr.isSome then
        (s1.writeAll .rtmp sub.id hdr.toList).modRtmp sub.id fun x => { x with pro := x.pro ++ hdr.toList } else s1) = s1h
      at hIh hFh hst2 ⊢
    by_cases hwk : (sub1.waitKey && key) = true
    · simp only [hwk, if_true]
      have hw : sub2.waitKey = true := by rw [hw2]; cases h : sub1.waitKey <;> simp_all
      have hcfg : s1h.cfg = s.cfg := (Frame.trans hF1 hFh).cfg
      have hpl : s1h.pubLog = s.pubLog := (Frame.trans hF1 hFh).pubLog
      obtain ⟨hK, fK⟩ := rtmpOne_stepK s1h sub.id s.pubLog.length sub2 hIh hst2 hw (by rw [hpl])
      rw [hcfg] at hK fK
      exact ⟨hK, Frame.trans (Frame.trans hF1 hFh) fK⟩
    · simp only [hwk, if_false, Bool.false_eq_true]
      exact ⟨hIh, Frame.trans hF1 hFh⟩

theorem rtmpLoop_inv (key : Bool) (hdr : Option Bytes) (s : St) (hI : Inv s) :
    Inv (rtmpLoop key hdr s) ∧ Frame s (rtmpLoop key hdr s) := by
  unfold rtmpLoop
  generalize s.rtmpSubs.map (·.id) = ids
  induction ids generalizing s with
  | nil => exact ⟨hI, Frame.refl s⟩
  | cons i is ih =>
    simp only [List.foldl_cons]
    obtain ⟨h1, f1⟩ := rtmpOne_inv key hdr s i hI
    obtain ⟨h2, f2⟩ := ih (rtmpOne key hdr s i) h1
    exact ⟨h2, Frame.trans f1 f2⟩

theorem slice_snoc {α} (l : List α) (m : α) (a : Nat) (h : a ≤ l.length) :
    slice (l ++ [m]) a (l.length + 1) = slice l a l.length ++ [m] := by
  unfold slice
  rw [List.drop_append_of_le_length h]
  have e1 : l.length + 1 - a = (l.drop a).length + 1 := by simp; omega
  have e2 : l.length - a = (l.drop a).length := by simp
  rw [e1, e2, List.take_length]
  rw [List.take_of_length_le (by simp)]

theorem bytesOf_snoc (l : List InMsg) (m : InMsg) : bytesOf (l ++ [m]) = bytesOf l ++ chunksWithoutSdf m := by
  simp [bytesOf]

theorem D_le (s : St) (hI : Inv s) : s.D ≤ s.pubLog.length := by
  unfold St.D; split
  · exact hI.mfle
  · exact Nat.le_refl _

theorem forward_frame (s : St) (m : InMsg) (hI : Inv s) : 
    (forward s m).pubLog = s.pubLog ++ [m] ∧ (forward s m).cfg = s.cfg ∧ (forward s m).usedIds = s.usedIds ∧
    (forward s m).flvSubs = s.flvSubs ∧ (forward s m).rtmpGop = s.rtmpGop ∧ (forward s m).flvGop = s.flvGop ∧
    (forward s m).hasIn = s.hasIn ∧ (forward s m).videoCodecSet = s.videoCodecSet ∧
    (forward s m).recording = s.recording ∧ (forward s m).nextRecord = s.nextRecord ∧
    (forward s m).rtmpSubs = s.rtmpSubs ∧ (∀ k id, k ≠ .rtmp → (forward s m).bytes k id = s.bytes k id) := by
  unfold forward
  simp only
  split
  · exact ⟨rfl, rfl, rfl, rfl, rfl, rfl, rfl, rfl, rfl, rfl, rfl, fun _ _ _ => rfl⟩
  · split
    · rw [toRtmpSubs_eq]
      obtain ⟨h1, h2, h3, h4, h5, h6, h7, h8, h9, h10, h11, h12, h13⟩ :=
        toSubs_fields [chunksWithoutSdf m] s.rtmpSubs { s with pubLog := s.pubLog ++ [m] }
      refine ⟨h3, h6, h7, h2, h8, h9, h10, h11, h12, h13, h1, ?_⟩
      intro k id hk
      have := toSubs_bytes [chunksWithoutSdf m] s.rtmpSubs { s with pubLog := s.pubLog ++ [m] } k id hI.nodup
      rw [this]; simp [hk]; rfl
    · unfold St.mergeWrite
      simp only
      split
      · simp only [St.mergeFlushNow, toRtmpSubs_eq]
        obtain ⟨h1, h2, h3, h4, h5, h6, h7, h8, h9, h10, h11, h12, h13⟩ :=
          toSubs_fields (s.merge.bs ++ [chunksWithoutSdf m]) s.rtmpSubs
            { s with pubLog := s.pubLog ++ [m],
                     merge := { currSize := s.merge.currSize + (chunksWithoutSdf m).length, bs := s.merge.bs ++ [chunksWithoutSdf m] } }
        refine ⟨h3, h6, h7, h2, h8, h9, h10, h11, h12, h13, h1, ?_⟩
        intro k id hk
        have := toSubs_bytes (s.merge.bs ++ [chunksWithoutSdf m]) s.rtmpSubs
          { s with pubLog := s.pubLog ++ [m],
                   merge := { currSize := s.merge.currSize + (chunksWithoutSdf m).length, bs := s.merge.bs ++ [chunksWithoutSdf m] } }
          k id hI.nodup
        simp only [St.bytes, St.log] at this ⊢
        rw [this]; simp [hk]
      · exact ⟨rfl, rfl, rfl, rfl, rfl, rfl, rfl, rfl, rfl, rfl, rfl, fun _ _ _ => rfl⟩

/-- the state with the message appended to both the publish log and the merge writer's pending list -/
def pended (s : St) (m : InMsg) : St :=
  { s with pubLog := s.pubLog ++ [m],
           merge := { currSize := s.merge.currSize + (chunksWithoutSdf m).length, bs := s.merge.bs ++ [chunksWithoutSdf m] } }

theorem mergeWrite_pended (s : St) (m : InMsg) :
    ({ s with pubLog := s.pubLog ++ [m] } : St).mergeWrite (chunksWithoutSdf m) =
      if (pended s m).merge.currSize ≥ (pended s m).cfg.mergeSize then (pended s m).mergeFlushNow else pended s m := rfl

theorem forward_inv (s : St) (m : InMsg) (hI : Inv s) : Inv (forward s m) := by
  unfold forward
  simp only
  by_cases he : s.rtmpSubs.isEmpty = true
  · -- nobody to forward to
    have hnil : s.rtmpSubs = [] := by simpa using he
    simp only [he, if_true]
    refine ⟨hI.nodup, hI.used, hI.unused, ?_, by simp; exact Nat.le_succ_of_le hI.mfle, ?_, hI.size, hI.exu⟩
    · intro x hx; rw [hnil] at hx; cases hx
    · intro _ ⟨x, hx, _⟩; rw [hnil] at hx; cases hx
  · simp only [he, if_false, Bool.false_eq_true]
    by_cases hm0 : (s.cfg.mergeSize == 0) = true
    · -- direct write
      have hm : s.cfg.mergeSize = 0 := by simpa using hm0
      simp only [hm0, if_true]
      rw [toRtmpSubs_eq]
      obtain ⟨h1, h2, h3, h4, h5, h6, h7, h8, h9, h10, h11, h12, h13⟩ :=
        toSubs_fields [chunksWithoutSdf m] s.rtmpSubs { s with pubLog := s.pubLog ++ [m] }
      have hby := fun id => toSubs_bytes [chunksWithoutSdf m] s.rtmpSubs { s with pubLog := s.pubLog ++ [m] } .rtmp id hI.nodup
      have hDs : s.D = s.pubLog.length := by simp [St.D, hm]
      have hD' : (toSubs [chunksWithoutSdf m] s.rtmpSubs { s with pubLog := s.pubLog ++ [m] }).D = s.pubLog.length + 1 := by
        simp [St.D, h6, h3, hm]
      refine ⟨by rw [h1]; exact hI.nodup, by rw [h1, h7]; exact hI.used, ?_, ?_, by rw [h5, h3]; simp; exact Nat.le_succ_of_le hI.mfle,
        by rw [h6]; intro h; simp [hm] at h, by rw [h4]; exact hI.size, by intro id h; cases h⟩
      · intro id hid
        rw [h7] at hid
        show (toSubs _ _ _).bytes .rtmp id = []
        rw [hby id]
        have hnl : ¬ ∃ x ∈ s.rtmpSubs, x.id = id ∧ x.fresh = false ∧ x.waitKey = false := by
          intro ⟨x, hx, hxid, _⟩; exact hid (hxid ▸ hI.used x hx)
        simp only [true_and, hnl, if_false, List.append_nil]
        exact hI.unused id hid
      · intro x hx _
        rw [h1] at hx
        have ok := hI.subs x hx (by simp)
        have hlive_iff : (∃ y ∈ s.rtmpSubs, y.id = x.id ∧ y.fresh = false ∧ y.waitKey = false) ↔
            (x.fresh = false ∧ x.waitKey = false) := by
          constructor
          · intro ⟨y, hy, hyid, hf, hw⟩
            have : y = x := eq_of_nodup_map (·.id) _ hI.nodup y x hy hx hyid
            subst this; exact ⟨hf, hw⟩
          · intro ⟨hf, hw⟩; exact ⟨x, hx, rfl, hf, hw⟩
        have hrb : (toSubs [chunksWithoutSdf m] s.rtmpSubs { s with pubLog := s.pubLog ++ [m] }).rb x.id =
            s.rb x.id ++ (if x.fresh = false ∧ x.waitKey = false then chunksWithoutSdf m else []) := by
          show (toSubs _ _ _).bytes .rtmp x.id = _
          rw [hby x.id]
          by_cases hl : x.fresh = false ∧ x.waitKey = false
          · simp only [true_and, hlive_iff.mpr hl, hl, and_self, if_true]; simp; rfl
          · have : ¬ ∃ y ∈ s.rtmpSubs, y.id = x.id ∧ y.fresh = false ∧ y.waitKey = false := fun h => hl (hlive_iff.mp h)
            simp only [true_and, this, hl, if_false]; rfl
        constructor
        · intro hf
          rw [hrb]; simp only [hf, Bool.true_eq_false, false_and, if_false, List.append_nil]
          exact ok.fresh_ hf
        · intro hf hs
          obtain ⟨hw, hb⟩ := ok.wait_ hf hs
          rw [hrb]; simp only [hw, Bool.true_eq_false, and_false, if_false, List.append_nil]
          exact ⟨trivial, hb⟩
        · intro hf a hs
          obtain ⟨hw, hle, hb⟩ := ok.live_ hf a hs
          rw [hDs] at hle hb
          rw [hD', h3]
          refine ⟨hw, Nat.le_succ_of_le hle, ?_⟩
          rw [hrb]; simp only [hf, hw, and_self, if_true]
          show s.rb x.id ++ _ = _
          rw [hb, slice_snoc _ _ _ hle, bytesOf_snoc, List.append_assoc]
    · -- through the merge writer
      have hm : s.cfg.mergeSize > 0 := by
        have : ¬ s.cfg.mergeSize = 0 := by simpa using hm0
        omega
      simp only [hm0, if_false, Bool.false_eq_true]
      have hne : ∃ x, x ∈ s.rtmpSubs := by
        cases hs : s.rtmpSubs with
        | nil => simp [hs] at he
        | cons a as => exact ⟨a, by simp⟩
      have hmid : Inv (pended s m) := by
        refine ⟨hI.nodup, hI.used, hI.unused, ?_, by simp [pended]; exact Nat.le_succ_of_le hI.mfle, ?_,
          by simp [pended, hI.size], hI.exu⟩
        · intro x hx _
          have ok := hI.subs x hx (by simp)
          have hDeq : (pended s m).D = s.D := by simp [St.D, pended, hm]
          constructor
          · exact ok.fresh_
          · exact ok.wait_
          · intro hf a hs
            obtain ⟨hw, hle, hb⟩ := ok.live_ hf a hs
            rw [hDeq]
            refine ⟨hw, hle, ?_⟩
            show s.rb x.id = _
            rw [hb]
            show _ = x.pro.flatten ++ bytesOf (slice (s.pubLog ++ [m]) a s.D)
            rw [slice_append_left _ _ _ _ (D_le s hI)]
        · intro _ hex
          have hp := hI.pend hm hex
          show (s.merge.bs ++ [chunksWithoutSdf m]).flatten = bytesOf ((s.pubLog ++ [m]).drop s.mergeFrom)
          simp only [List.flatten_append, List.flatten_cons, List.flatten_nil, List.append_nil, hp]
          rw [List.drop_append_of_le_length hI.mfle, bytesOf_snoc]
      rw [mergeWrite_pended]
      split
      · rename_i hth
        have hpos : (pended s m).merge.currSize > 0 := by
          have : (pended s m).cfg.mergeSize > 0 := hm
          omega
        have hfl := flush_inv _ hmid hm
        simp only [St.mergeFlush, hpos, if_true] at hfl
        exact hfl
      · exact hmid

/-- what the FLV-subscriber loop, the recorder and the caches leave alone -/
structure Frame2 (s s' : St) : Prop where
  rtmpSubs : s'.rtmpSubs = s.rtmpSubs
  pubLog : s'.pubLog = s.pubLog
  cfg : s'.cfg = s.cfg
  usedIds : s'.usedIds = s.usedIds
  merge : s'.merge = s.merge
  mergeFrom : s'.mergeFrom = s.mergeFrom
  rb : ∀ id, s'.rb id = s.rb id

theorem Frame2.refl (s : St) : Frame2 s s := ⟨rfl, rfl, rfl, rfl, rfl, rfl, fun _ => rfl⟩
theorem Frame2.trans {a b c : St} (h1 : Frame2 a b) (h2 : Frame2 b c) : Frame2 a c :=
  ⟨h2.rtmpSubs.trans h1.rtmpSubs, h2.pubLog.trans h1.pubLog, h2.cfg.trans h1.cfg, h2.usedIds.trans h1.usedIds,
   h2.merge.trans h1.merge, h2.mergeFrom.trans h1.mergeFrom, fun id => (h2.rb id).trans (h1.rb id)⟩

theorem inv_of_frame2 {s s' : St} (hI : Inv s) (h : Frame2 s s') : Inv s' :=
  inv_transfer s s' hI h.rtmpSubs h.pubLog h.cfg h.usedIds h.merge h.mergeFrom (fun id _ => h.rb id)
    (fun _ h => h) (fun _ h => by cases h)

theorem frame2_writeAll (s : St) (k : Kind) (id : Nat) (bs : List Bytes) (hk : k ≠ .rtmp) :
    Frame2 s (s.writeAll k id bs) :=
  ⟨rfl, rfl, rfl, rfl, rfl, rfl, by
    intro id'
    show (s.writeAll k id bs).bytes .rtmp id' = s.bytes .rtmp id'
    rw [bytes_writeAll]
    have : ¬ (Kind.rtmp = k ∧ id' = id) := fun h => hk h.1.symm
    simp [this]⟩

theorem frame2_writeFlv (s : St) (sub : Sub) (b : Bytes) : Frame2 s (s.writeFlv sub b) := by
  unfold St.writeFlv
  apply frame2_writeAll
  split <;> simp

theorem frame2_writeFlvAll (sub : Sub) : ∀ (bs : List Bytes) (s : St), Frame2 s (s.writeFlvAll sub bs) := by
  intro bs
  induction bs with
  | nil => intro s; exact Frame2.refl s
  | cons b bs ih =>
    intro s
    simp only [St.writeFlvAll, List.foldl_cons]
    exact Frame2.trans (frame2_writeFlv s sub b) (ih _)

theorem frame2_modFlv (s : St) (id : Nat) (f : Sub → Sub) : Frame2 s (s.modFlv id f) :=
  ⟨rfl, rfl, rfl, rfl, rfl, rfl, fun _ => rfl⟩

theorem frame2_flvOne (key isHdr : Bool) (tag : Bytes) (s : St) (id : Nat) : Frame2 s (flvOne key isHdr tag s id) := by
  unfold flvOne
  cases s.getFlv id with
  | none => exact Frame2.refl s
  | some sub => exact Frame2.trans (frame2_writeFlvAll sub _ s) (frame2_modFlv _ _ _)

theorem frame2_flvLoop (key isHdr : Bool) (tag : Bytes) (s : St) : Frame2 s (flvLoop key isHdr tag s) := by
  unfold flvLoop
  generalize s.flvSubs.map (·.id) = ids
  induction ids generalizing s with
  | nil => exact Frame2.refl s
  | cons i is ih =>
    simp only [List.foldl_cons]
    exact Frame2.trans (frame2_flvOne key isHdr tag s i) (ih _)

theorem frame2_fields {s s' : St} (h1 : s'.rtmpSubs = s.rtmpSubs) (h2 : s'.pubLog = s.pubLog) (h3 : s'.cfg = s.cfg)
    (h4 : s'.usedIds = s.usedIds) (h5 : s'.merge = s.merge) (h6 : s'.mergeFrom = s.mergeFrom) (h7 : s'.out = s.out) :
    Frame2 s s' := ⟨h1, h2, h3, h4, h5, h6, fun id => by simp [St.rb, St.bytes, St.log, h7]⟩

theorem broadcast_inv (s : St) (m : InMsg) (hI : Inv s) : Inv (broadcast s m) := by
  unfold broadcast
  split
  · exact hI
  · simp only
    obtain ⟨h0, _⟩ := rtmpLoop_inv (Classify.isVideoKeyNalu m.typ m.payload) (if isHeaderMsg m then some (chunksWithoutSdf m) else none) s hI
    have h2 := forward_inv _ m h0
    have h3 := inv_of_frame2 h2 (frame2_flvLoop (Classify.isVideoKeyNalu m.typ m.payload) (isHeaderMsg m) (tagWithoutSdf m) _)
    have h4 : Inv (recordStage (flvLoop (Classify.isVideoKeyNalu m.typ m.payload) (isHeaderMsg m) (tagWithoutSdf m)
        (forward (rtmpLoop (Classify.isVideoKeyNalu m.typ m.payload) (if isHeaderMsg m then some (chunksWithoutSdf m) else none) s) m)) m) := by
      unfold recordStage
      split
      · exact inv_of_frame2 h3 (frame2_writeAll _ .record _ [tagWithoutSdf m] (by simp))
      · exact h3
    have h5 : ∀ t, Inv t → Inv (rtmpCacheStage t m) := by
      intro t ht; unfold rtmpCacheStage; split
      · exact inv_of_frame2 ht (frame2_fields rfl rfl rfl rfl rfl rfl rfl)
      · exact ht
    have h6 : ∀ t, Inv t → Inv (flvCacheStage t m) := by
      intro t ht; unfold flvCacheStage; split
      · exact inv_of_frame2 ht (frame2_fields rfl rfl rfl rfl rfl rfl rfl)
      · exact ht
    have h7 : ∀ t, Inv t → Inv (statStage t m) := by
      intro t ht; unfold statStage; split
      · exact inv_of_frame2 ht (frame2_fields rfl rfl rfl rfl rfl rfl rfl)
      · exact ht
    exact h7 _ (h6 _ (h5 _ h4))

theorem init_inv (cfg : Cfg) : Inv (init cfg) := by
  refine ⟨by simp [init], by simp [init], by intro id _; simp [init, St.rb, St.bytes, St.log], by simp [init],
    by simp [init], ?_, by simp [init], by intro id h; cases h⟩
  intro _ ⟨x, hx, _⟩; simp [init] at hx

theorem joinFlv_rinv (s : St) (id : Nat) (ws : Bool) (hI : Inv s) : Inv (joinFlv s id ws) := by
  unfold joinFlv
  refine inv_of_frame2 ?_ (frame2_writeFlv _ _ _)
  refine ⟨hI.nodup, fun x hx => List.mem_cons_of_mem _ (hI.used x hx), ?_, ?_, hI.mfle, hI.pend, hI.size, by intro i h; cases h⟩
  · intro i hi; exact hI.unused i (fun h => hi (List.mem_cons_of_mem _ h))
  · intro x hx _; exact subOk_of_eq (s := s) rfl rfl rfl (hI.subs x hx (by simp))

theorem step_inv (s : St) (e : Ev) (hI : Inv s) : Inv (step s e) := by
  cases e with
  | addPub =>
    simp only [step]
    split
    · exact hI
    · split
      · have f1 : Frame2 s ({ s with hasIn := true, recording := some s.nextRecord, nextRecord := s.nextRecord + 1 } : St) :=
          frame2_fields rfl rfl rfl rfl rfl rfl rfl
        exact inv_of_frame2 hI (Frame2.trans f1 (frame2_writeAll _ .record _ [Gen.flvHeader] (by simp)))
      · exact inv_of_frame2 hI (frame2_fields rfl rfl rfl rfl rfl rfl rfl)
  | delPub =>
    simp only [step]
    split
    · exact hI
    · have h1 : Inv (if s.cfg.mergeSize > 0 then s.mergeFlush else s) := by
        split
        · rename_i hm; exact flush_inv s hI hm
        · exact hI
      have hD1 : (if s.cfg.mergeSize > 0 then s.mergeFlush else s).D = s.pubLog.length := by
        split
        · rename_i hm
          obtain ⟨hS, hmf, _⟩ := flush_effect s hI
          have : s.mergeFlush.cfg.mergeSize > 0 := by rw [hS.cfg]; exact hm
          rw [D_of_merge _ this, hmf]
        · rename_i hm; simp [St.D, hm]
      have hpl : (if s.cfg.mergeSize > 0 then s.mergeFlush else s).pubLog = s.pubLog := by
        split
        · exact (flush_effect s hI).1.pubLog
        · rfl
      generalize (if s.cfg.mergeSize > 0 then s.mergeFlush else s) = s1 at h1 hD1 hpl ⊢
      show Inv (afterDelIn s1 s.pubLog.length)
      have hids : (s1.rtmpSubs.map (stopWaiting s.pubLog.length)).map (·.id) = s1.rtmpSubs.map (·.id) := by
        simp only [List.map_map]; apply List.map_congr_left; intro x _
        simp only [Function.comp, stopWaiting]; split <;> rfl
      refine ⟨by show ((s1.rtmpSubs.map (stopWaiting s.pubLog.length)).map (·.id)).Nodup; rw [hids]; exact h1.nodup, ?_, h1.unused, ?_, h1.mfle, ?_, h1.size, by intro i h; cases h⟩
      · intro x' hx'
        have hx'' : x' ∈ s1.rtmpSubs.map (stopWaiting s.pubLog.length) := hx'
        obtain ⟨x, hx, rfl⟩ := List.mem_map.mp hx''
        have : (stopWaiting s.pubLog.length x).id = x.id := by simp only [stopWaiting]; split <;> rfl
        rw [this]; exact h1.used x hx
      · intro x' hx' _
        have hx'' : x' ∈ s1.rtmpSubs.map (stopWaiting s.pubLog.length) := hx'
        obtain ⟨x, hx, rfl⟩ := List.mem_map.mp hx''
        have ok := h1.subs x hx (by simp)
        have hid : (stopWaiting s.pubLog.length x).id = x.id := by simp only [stopWaiting]; split <;> rfl
        by_cases hw : x.waitKey = true
        · by_cases hf : x.fresh = true
          · have e : stopWaiting s.pubLog.length x = { x with waitKey := false, start := none } := by
              simp [stopWaiting, hw, hf]
            rw [e]
            constructor
            · intro _; exact ⟨(ok.fresh_ hf).1, rfl⟩
            · intro h; simp [hf] at h
            · intro h; simp [hf] at h
          · have hf' : x.fresh = false := by simpa using hf
            have e : stopWaiting s.pubLog.length x = { x with waitKey := false, start := some s.pubLog.length } := by
              simp [stopWaiting, hw, hf']
            have hstart : x.start = none := by
              cases hs : x.start with
              | none => rfl
              | some a => have := (ok.live_ hf' a hs).1; rw [hw] at this; cases this
            have hb := (ok.wait_ hf' hstart).2
            rw [e]
            constructor
            · intro h; simp [hf'] at h
            · intro _ h; cases h
            · intro _ a ha
              simp only [Option.some.injEq] at ha
              subst ha
              have hDn : (afterDelIn s1 s.pubLog.length).D = s.pubLog.length := hD1
              refine ⟨rfl, by rw [hDn]; exact Nat.le_refl _, ?_⟩
              rw [hDn]
              show s1.rb x.id = _
              rw [hb, slice_self]; simp [bytesOf]
        · have e : stopWaiting s.pubLog.length x = x := by simp [stopWaiting, hw]
          rw [e]
          exact subOk_of_eq (s := s1) (s' := afterDelIn s1 s.pubLog.length) rfl rfl rfl ok
      · intro hm ⟨x', hx', hf⟩
        have hx'' : x' ∈ s1.rtmpSubs.map (stopWaiting s.pubLog.length) := hx'
        obtain ⟨x, hx, rfl⟩ := List.mem_map.mp hx''
        have : (stopWaiting s.pubLog.length x).fresh = x.fresh := by simp only [stopWaiting]; split <;> rfl
        rw [this] at hf
        exact h1.pend hm ⟨x, hx, hf⟩
  | msg m =>
    simp only [step]
    split
    · exact broadcast_inv s m hI
    · exact hI
  | join k id =>
    cases k with
    | rtmp =>
      simp only [step]
      split
      · exact hI
      · rename_i hnew
        have hnew' : id ∉ s.usedIds := by simpa using hnew
        have hfresh : ∀ x ∈ s.rtmpSubs, x.id ≠ id := fun x hx h => hnew' (h ▸ hI.used x hx)
        refine ⟨?_, ?_, ?_, ?_, hI.mfle, ?_, hI.size, by intro i h; cases h⟩
        · simp only [List.map_append, List.map_cons, List.map_nil]
          rw [List.nodup_append]
          refine ⟨hI.nodup, by simp, ?_⟩
          intro a ha b hb
          simp only [List.mem_singleton] at hb
          subst hb
          obtain ⟨x, hx, rfl⟩ := List.mem_map.mp ha
          exact hfresh x hx
        · intro x hx
          simp only [List.mem_append, List.mem_singleton] at hx
          rcases hx with hx | rfl
          · exact List.mem_cons_of_mem _ (hI.used x hx)
          · exact List.mem_cons_self
        · intro i hi
          have : i ∉ s.usedIds := fun h => hi (List.mem_cons_of_mem _ h)
          exact hI.unused i this
        · intro x hx _
          simp only [List.mem_append, List.mem_singleton] at hx
          rcases hx with hx | rfl
          · exact subOk_of_eq (s := s) rfl rfl rfl (hI.subs x hx (by simp))
          · constructor
            · intro _; exact ⟨hI.unused id hnew', rfl⟩
            · intro h; cases h
            · intro h; cases h
        · intro hm ⟨x, hx, hf⟩
          simp only [List.mem_append, List.mem_singleton] at hx
          rcases hx with hx | rfl
          · exact hI.pend hm ⟨x, hx, hf⟩
          · cases hf
    | flv =>
      simp only [step]
      split
      · exact hI
      · exact joinFlv_rinv s id false hI
    | wsflv =>
      simp only [step]
      split
      · exact hI
      · exact joinFlv_rinv s id true hI
    | record => exact hI
  | leave k id =>
    cases k with
    | rtmp =>
      simp only [step]
      refine ⟨?_, ?_, hI.unused, ?_, hI.mfle, ?_, hI.size, by intro i h; cases h⟩
      · exact List.Nodup.sublist (List.Sublist.map _ List.filter_sublist) hI.nodup
      · intro x hx; exact hI.used x ((List.mem_filter.mp hx).1)
      · intro x hx _
        exact subOk_of_eq (s := s) rfl rfl rfl (hI.subs x ((List.mem_filter.mp hx).1) (by simp))
      · intro hm ⟨x, hx, hf⟩
        exact hI.pend hm ⟨x, (List.mem_filter.mp hx).1, hf⟩
    | flv => exact inv_of_frame2 hI (frame2_fields rfl rfl rfl rfl rfl rfl rfl)
    | wsflv => exact inv_of_frame2 hI (frame2_fields rfl rfl rfl rfl rfl rfl rfl)
    | record => exact hI

/-- the invariant holds in every reachable state -/
theorem run_inv (cfg : Cfg) (evs : List Ev) : Inv (run cfg evs) := by
  unfold run
  generalize hi : init cfg = s0
  have h0 : Inv s0 := hi ▸ init_inv cfg
  clear hi
  induction evs generalizing s0 with
  | nil => exact h0
  | cons e es ih => exact ih _ (step_inv s0 e h0)

theorem stage_cfg (t : St) (m : InMsg) :
    (recordStage t m).cfg = t.cfg ∧ (rtmpCacheStage t m).cfg = t.cfg ∧ (flvCacheStage t m).cfg = t.cfg ∧
    (statStage t m).cfg = t.cfg := by
  refine ⟨?_, ?_, ?_, ?_⟩
  · unfold recordStage; split <;> rfl
  · unfold rtmpCacheStage; split <;> rfl
  · unfold flvCacheStage; split <;> rfl
  · unfold statStage; split <;> rfl

theorem stage_pubLog (t : St) (m : InMsg) :
    (recordStage t m).pubLog = t.pubLog ∧ (rtmpCacheStage t m).pubLog = t.pubLog ∧ (flvCacheStage t m).pubLog = t.pubLog ∧
    (statStage t m).pubLog = t.pubLog := by
  refine ⟨?_, ?_, ?_, ?_⟩
  · unfold recordStage; split <;> rfl
  · unfold rtmpCacheStage; split <;> rfl
  · unfold flvCacheStage; split <;> rfl
  · unfold statStage; split <;> rfl

theorem broadcast_cfg_pub (s : St) (m : InMsg) (hI : Inv s) :
    (broadcast s m).cfg = s.cfg ∧
    (broadcast s m).pubLog = if m.payload.isEmpty then s.pubLog else s.pubLog ++ [m] := by
  unfold broadcast
  split
  · exact ⟨rfl, rfl⟩
  · simp only
    obtain ⟨h0, f0⟩ := rtmpLoop_inv (Classify.isVideoKeyNalu m.typ m.payload) (if isHeaderMsg m then some (chunksWithoutSdf m) else none) s hI
    obtain ⟨fp, fc, _⟩ := forward_frame (rtmpLoop (Classify.isVideoKeyNalu m.typ m.payload) (if isHeaderMsg m then some (chunksWithoutSdf m) else none) s) m h0
    have f2 := frame2_flvLoop (Classify.isVideoKeyNalu m.typ m.payload) (isHeaderMsg m) (tagWithoutSdf m)
      (forward (rtmpLoop (Classify.isVideoKeyNalu m.typ m.payload) (if isHeaderMsg m then some (chunksWithoutSdf m) else none) s) m)
    constructor
    · rw [(stage_cfg _ m).2.2.2, (stage_cfg _ m).2.2.1, (stage_cfg _ m).2.1, (stage_cfg _ m).1, f2.cfg, fc, f0.cfg]
    · rw [(stage_pubLog _ m).2.2.2, (stage_pubLog _ m).2.2.1, (stage_pubLog _ m).2.1, (stage_pubLog _ m).1, f2.pubLog, fp, f0.pubLog]

theorem step_cfg (s : St) (e : Ev) (hI : Inv s) : (step s e).cfg = s.cfg := by
  cases e with
  | addPub => simp only [step]; split; rfl; split <;> rfl
  | delPub =>
    simp only [step]; split
    · rfl
    · show (afterDelIn (if s.cfg.mergeSize > 0 then s.mergeFlush else s) s.pubLog.length).cfg = s.cfg
      show (if s.cfg.mergeSize > 0 then s.mergeFlush else s).cfg = s.cfg
      split
      · exact (flush_effect s hI).1.cfg
      · rfl
  | msg m => simp only [step]; split; exact (broadcast_cfg_pub s m hI).1; rfl
  | join k id => cases k <;> simp only [step] <;> (try split) <;> rfl
  | leave k id => cases k <;> rfl

theorem run_cfg (cfg : Cfg) (evs : List Ev) : (run cfg evs).cfg = cfg := by
  unfold run
  have : ∀ (s0 : St), Inv s0 → (evs.foldl step s0).cfg = s0.cfg := by
    induction evs with
    | nil => intro s0 _; rfl
    | cons e es ih =>
      intro s0 h0
      simp only [List.foldl_cons]
      rw [ih _ (step_inv s0 e h0), step_cfg s0 e h0]
  rw [this _ (init_inv cfg)]; rfl

end Lal.Group
