import LalModel.Proof.HlsRules
/- The rule for closing a fragment: `CloseFile`, `incrFrag`, `writePlaylist` (write the `.bak`, rename it over the live
   playlist), then the record playlist or the removal of the fragment that left the ring. -/
namespace Lal.HlsC
open Lal Lal.Hls Lal.Fs

variable {PP : Bytes → Prop} {kd aw rdy : Prop} {c : Cfg} {base : Nat} {m : Mux} {o : Obs}

theorem nearestSec_eq_roundSec (t : Nat) : nearestSec t = roundSec t := by
  unfold nearestSec roundSec; omega

theorem liveTarget_ge (c : Cfg) (fs : List FragInfo) : ∀ f ∈ fs, roundSec f.dur ≤ liveTarget c fs := by
  unfold liveTarget
  suffices h : ∀ (init : Nat) (f : FragInfo), f ∈ fs →
      roundSec f.dur ≤ fs.foldl (fun mx f => if roundSec f.dur > mx then roundSec f.dur else mx) init by
    intro f hf; exact h _ f hf
  have mono : ∀ (l : List FragInfo) (init : Nat),
      init ≤ l.foldl (fun mx f => if roundSec f.dur > mx then roundSec f.dur else mx) init := by
    intro l
    induction l with
    | nil => intro init; simp
    | cons a l ih =>
      intro init
      simp only [List.foldl_cons]
      by_cases h : roundSec a.dur > init
      · simp only [h, if_true]; exact Nat.le_trans (Nat.le_of_lt h) (ih _)
      · simp only [h, if_false]; exact ih _
  induction fs with
  | nil => intro _ f hf; cases hf
  | cons a l ih =>
    intro init f hf
    simp only [List.foldl_cons]
    cases hf with
    | head =>
      by_cases h : roundSec a.dur > init
      · simp only [h, if_true]; exact mono l _
      · simp only [h, if_false]; exact Nat.le_trans (Nat.le_of_not_gt h) (mono l _)
    | tail _ hf' => exact ih _ f hf'

theorem entriesOk_of_forall {d : Dir} {t : Nat} : ∀ {s : Nat} {es : List Entry},
    (∀ i (hi : i < es.length), EntryOk PP d t (s + i) es[i]) → EntriesOk PP d t s es
  | _, [], _ => trivial
  | s, e :: es, h => by
    have h0 := h 0 (Nat.zero_lt_succ _)
    simp only [List.getElem_cons_zero, Nat.add_zero] at h0
    refine ⟨h0, entriesOk_of_forall (s := s + 1) ?_⟩
    intro i hi
    have h1 := h (i + 1) (by simp only [List.length_cons]; omega)
    simp only [List.getElem_cons_succ] at h1
    have e : s + (i + 1) = s + 1 + i := by omega
    rw [e] at h1; exact h1

/-- the muxer after `CloseFile` and `incrFrag` -/
def closedMux (c : Cfg) (m : Mux) : Mux := incrFrag c { m with opened := false }

def closeOps1 (c : Cfg) (m : Mux) (isLast : Bool) : List FOp :=
  [.close m.cur, .writeFile .liveBak (livePlaylist c (closedMux c m) isLast), .rename .liveBak .live]

theorem closedMux_frags : (closedMux c m).frags = m.frags := by unfold closedMux incrFrag; split <;> rfl
theorem closedMux_opened : (closedMux c m).opened = false := by unfold closedMux incrFrag; split <;> rfl
theorem closedMux_cur : (closedMux c m).cur = m.cur := by unfold closedMux incrFrag; split <;> rfl
theorem closedMux_patpmt : (closedMux c m).patpmt = m.patpmt := by unfold closedMux incrFrag; split <;> rfl
theorem closedMux_cid : cid (closedMux c m) = cid m + 1 := by
  unfold closedMux incrFrag cid; split <;> simp <;> omega
theorem closedMux_frag_ge : m.frag ≤ (closedMux c m).frag := by unfold closedMux incrFrag; split <;> simp
theorem closedMux_frag_le : (closedMux c m).frag ≤ m.frag + 1 := by unfold closedMux incrFrag; split <;> simp
theorem closedMux_nfrags_le (h : m.nfrags ≤ c.fragNum) : (closedMux c m).nfrags ≤ c.fragNum := by
  unfold closedMux incrFrag; dsimp only; split <;> dsimp only <;> omega
theorem closedMux_bfill (hb : m.nfrags < c.fragNum → m.frag = base) :
    (closedMux c m).nfrags < c.fragNum → (closedMux c m).frag = base := by
  unfold closedMux incrFrag; split
  · rename_i h; simp at h ⊢; omega
  · rename_i h; simp at h ⊢; intro h'; exact hb (by omega)
theorem slot_closedMux (x : Nat) : slot c (closedMux c m) x = slot c m x := by unfold slot; rw [closedMux_frags]
theorem closedMux_nxt : nxt (closedMux c m) = cid m + 1 := by unfold nxt; rw [closedMux_opened, closedMux_cid]; simp

theorem livePlaylist_fin (m : Mux) (isLast : Bool) : (livePlaylist c m isLast).fin = cid m := by
  simp [livePlaylist, Playlist.fin, playlistFrags, cid]

theorem obs_step_rename_live {o : Obs} {pl : Playlist}
    (h : o.dir .liveBak = some { content := .doc pl, isOpen := false }) :
    (o.step (.rename .liveBak .live)).dir =
        Fs.set (Fs.set o.dir .liveBak none) .live (some { content := .doc pl, isOpen := false }) ∧
    (o.step (.rename .liveBak .live)).versions = if o.versions.head? = some pl then o.versions else pl :: o.versions := by
  have hd : Fs.apply under o.dir (.rename .liveBak .live) =
      Fs.set (Fs.set o.dir .liveBak none) .live (some { content := .doc pl, isOpen := false }) := apply_rename_some h
  refine ⟨by rw [step_dir, hd], ?_⟩
  show (match Fs.apply under o.dir (.rename .liveBak .live) .live with
      | none => []
      | some f => match f.content with
        | .doc pl => if o.versions.head? = some pl then o.versions else pl :: o.versions
        | .data _ => o.versions) = _
  rw [hd, set_same]

theorem getElem?_of_mem {α : Type} {l : List α} {a : α} (h : a ∈ l) : ∃ k : Nat, l[k]? = some a := by
  obtain ⟨k, hk, rfl⟩ := List.getElem_of_mem h
  exact ⟨k, List.getElem?_eq_getElem hk⟩

/-- `CloseFile`, `incrFrag`, `writePlaylist`: at every instant the directory is consistent, and afterwards the
    invariant holds for the closed muxer (the fragment that leaves the ring is still on disk). -/
theorem inv_close_core (h : Inv PP kd aw rdy c base m o) (ho : m.opened = true) (isLast : Bool) :
    AllGood PP c.delThr o (closeOps1 c m isLast) ∧
    Inv PP kd aw rdy c base (closedMux c m) (o.run (closeOps1 c m isLast)) := by
  obtain ⟨now, pp, fs, hcur, hname, hfile, hpp, hfs, hkey⟩ := h.curSeg ho
  have hnxt : nxt m = cid m + 1 := by unfold nxt; simp [ho]
  let pl := livePlaylist c (closedMux c m) isLast
  -- 1. close the fragment file
  have happ1 := apply_close_some (d := o.dir) (p := m.cur) (by rw [hcur]; exact hfile)
  have hg1 := inv_frame_good h.good (op := .close m.cur)
    (by rw [happ1, hcur]; exact set_other _ _ (by simp))
    (fun now' id ⟨k, v, _, hkv, _, h2⟩ => by
      rw [happ1, hcur]; apply set_other
      have := listed_lt_cid h hkv
      simp only [ne_eq, Path.seg.injEq, not_and]; omega)
  -- 2. write the .bak
  have happ2 : Fs.apply under (o.step (.close m.cur)).dir (.writeFile .liveBak pl) =
      Fs.set (o.step (.close m.cur)).dir .liveBak (some { content := .doc pl, isOpen := false }) := rfl
  have hg2 := inv_frame_good hg1.1 (op := .writeFile .liveBak pl)
    (by rw [happ2]; exact set_other _ _ (by simp))
    (fun now' id _ => by rw [happ2]; exact set_other _ _ (by simp))
  -- 3. rename over the live playlist
  have hbak : ((o.step (.close m.cur)).step (.writeFile .liveBak pl)).dir .liveBak = some { content := .doc pl, isOpen := false } := by
    rw [step_dir, happ2, set_same]
  obtain ⟨hd3, hv3⟩ := obs_step_rename_live hbak
  have hv2 : ((o.step (.close m.cur)).step (.writeFile .liveBak pl)).versions = o.versions := by rw [hg2.2, hg1.2]
  have hfin : pl.fin = cid m + 1 := by rw [livePlaylist_fin, closedMux_cid]
  have hne : ¬ (o.versions.head? = some pl) := by
    intro hh
    have h0 : o.versions[0]? = some pl := by
      cases hvs : o.versions with
      | nil => rw [hvs] at hh; cases hh
      | cons a l => rw [hvs] at hh; simpa using hh
    have := listed_lt_cid h h0
    omega
  rw [hv2, if_neg hne] at hv3
  -- the directory after the three operations
  let o3 := ((o.step (.close m.cur)).step (.writeFile .liveBak pl)).step (.rename .liveBak .live)
  have ho3 : o.run (closeOps1 c m isLast) = o3 := rfl
  have hseg : ∀ now' id, id ≠ cid m → o3.dir (.seg now' id) = o.dir (.seg now' id) := by
    intro now' id hid
    show (((o.step (.close m.cur)).step (.writeFile .liveBak pl)).step (.rename .liveBak .live)).dir _ = _
    rw [hd3, set_other _ _ (by simp), set_other _ _ (by simp), step_dir, happ2, set_other _ _ (by simp),
      step_dir, happ1, hcur, set_other _ _ (by simp only [ne_eq, Path.seg.injEq, not_and]; omega)]
  have hsegcur : o3.dir (.seg now (cid m)) = some { content := .data (.patpmt pp :: fs.map .frame), isOpen := false } := by
    show (((o.step (.close m.cur)).step (.writeFile .liveBak pl)).step (.rename .liveBak .live)).dir _ = _
    rw [hd3, set_other _ _ (by simp), set_other _ _ (by simp), step_dir, happ2, set_other _ _ (by simp),
      step_dir, happ1, hcur, set_same]
  have hlive3 : o3.dir .live = some { content := .doc pl, isOpen := false } := by
    show (((o.step (.close m.cur)).step (.writeFile .liveBak pl)).step (.rename .liveBak .live)).dir _ = _
    rw [hd3, set_same]
  have hsegAll2 : ∀ now' id, o3.dir (.seg now' id) = ((o.step (.close m.cur)).step (.writeFile .liveBak pl)).dir (.seg now' id) := by
    intro now' id
    show (((o.step (.close m.cur)).step (.writeFile .liveBak pl)).step (.rename .liveBak .live)).dir _ = _
    rw [hd3, set_other _ _ (by simp), set_other _ _ (by simp)]
  -- every slot of the new playlist
  have hslot : ∀ x, (closedMux c m).frag ≤ x → x < cid m + 1 →
      ∃ now' chunks, (slot c m x).name = some (now', x) ∧
        o3.dir (.seg now' x) = some { content := .data chunks, isOpen := false } ∧ SegOk PP (slot c m x).discont chunks := by
    intro x hx1 hx2
    have hfg := closedMux_frag_ge (c := c) (m := m)
    have hn1 := closedMux_nfrags_le (c := c) (m := m) h.ring.nle
    have hc1 := closedMux_cid (c := c) (m := m)
    have hcap : c.cap = c.fragNum + c.delThr + 1 := rfl
    have hb := h.ring.ble
    have hcid1 : cid (closedMux c m) = (closedMux c m).frag + (closedMux c m).nfrags := rfl
    obtain ⟨_, now', hnm⟩ := h.ring.used x (by omega) (by omega) (by omega)
    by_cases hxy : x = cid m
    · subst hxy
      rw [hname] at hnm
      have : now' = now := by cases hnm; rfl
      subst this
      exact ⟨now', _, hname, hsegcur, pp, fs, rfl, hpp, hfs, fun hd => (hkey hd).1⟩
    · obtain ⟨chunks, hf, hs⟩ := h.closedSegs x now' (by omega) (by omega) (by omega) hnm
      exact ⟨now', chunks, hnm, by rw [hseg now' x hxy]; exact hf, hs⟩
  have hvok : VersionOk PP o3.dir pl := by
    apply entriesOk_of_forall
    intro i hi
    have hlen : pl.entries.length = (closedMux c m).nfrags := by simp [pl, livePlaylist, playlistFrags]
    have hi' : i < (closedMux c m).nfrags := by rw [← hlen]; exact hi
    have he : pl.entries[i] = entryOf (slot c m ((closedMux c m).frag + i)) := by
      simp [pl, livePlaylist, playlistFrags, getFrag_eq, slot_closedMux]
    have hc1 := closedMux_cid (c := c) (m := m)
    have hcid1 : cid (closedMux c m) = (closedMux c m).frag + (closedMux c m).nfrags := rfl
    obtain ⟨now', chunks, hnm, hf, hs⟩ := hslot ((closedMux c m).frag + i) (by omega) (by omega)
    rw [he]
    refine ⟨?_, now', chunks, hnm, hf, hs⟩
    rw [nearestSec_eq_roundSec]
    have hsl : slot c m ((closedMux c m).frag + i) = getFrag c (closedMux c m) i := by rw [getFrag_eq, slot_closedMux]
    rw [hsl]
    apply liveTarget_ge c (playlistFrags c (closedMux c m)) (getFrag c (closedMux c m) i)
    simp only [playlistFrags, List.mem_map, List.mem_range]
    exact ⟨i, hi', rfl⟩
  have hgood3 : Good PP c.delThr o3 := by
    constructor
    · intro f hf
      rw [hlive3] at hf
      refine ⟨pl, by cases hf; rfl, ?_⟩
      show (((o.step (.close m.cur)).step (.writeFile .liveBak pl)).step (.rename .liveBak .live)).versions.head? = _
      rw [hv3]; rfl
    · intro hn; rw [hlive3] at hn; cases hn
    · intro v hv
      have hvs : o3.versions = pl :: o.versions := hv3
      rw [hvs, List.take_succ_cons] at hv
      cases hv with
      | head => exact hvok
      | tail _ hv' =>
        have hv'' : v ∈ ((o.step (.close m.cur)).step (.writeFile .liveBak pl)).versions.take (c.delThr + 1) := by
          rw [hv2]
          exact List.take_subset_take_left _ (Nat.le_succ _) hv'
        apply versionOk_frame _ (hg2.1.recent v hv'')
        intro p hp
        obtain ⟨e, _, now', id, _, rfl⟩ := hp
        exact hsegAll2 now' id
    · have hvs : o3.versions = pl :: o.versions := hv3
      rw [hvs, List.pairwise_cons]
      refine ⟨?_, h.good.mono⟩
      intro v hv
      obtain ⟨k, hk⟩ := getElem?_of_mem hv
      have hfg := closedMux_frag_ge (c := c) (m := m)
      have hb := h.ring.ble
      have hpm : pl.mediaSeq = (closedMux c m).frag := rfl
      have hvf : v.mediaSeq ≤ v.fin := by unfold Playlist.fin; omega
      rcases h.vers k v hk with h1 | ⟨_, _, h3, h4⟩
      · rw [hfin, hpm]; unfold cid; omega
      · rw [hfin, hpm]; omega
  refine ⟨⟨h.good, hg1.1, hg2.1, ?_⟩, ?_⟩
  · exact hgood3
  rw [ho3]
  constructor
  · constructor
    · rw [closedMux_frags]; exact h.ring.len
    · exact closedMux_nfrags_le h.ring.nle
    · exact Nat.le_trans h.ring.ble closedMux_frag_ge
    · exact closedMux_bfill h.ring.bfill
    · intro x h1 h2 h3
      rw [closedMux_nxt] at h2 h3
      rw [slot_closedMux]
      exact h.ring.used x h1 (by omega) (by omega)
    · intro y h1 h2
      rw [closedMux_nxt] at h1
      rw [slot_closedMux]
      exact h.ring.unused y (by omega) h2
  · exact hgood3
  · rw [closedMux_patpmt]; exact h.pp
  · intro x now' h1 h2 h3 h4
    rw [closedMux_cid] at h2 h3
    rw [slot_closedMux] at h4 ⊢
    by_cases hxy : x = cid m
    · subst hxy
      rw [hname] at h4
      have : now = now' := by cases h4; rfl
      subst this
      exact ⟨_, hsegcur, pp, fs, rfl, hpp, hfs, fun hd => (hkey hd).1⟩
    · obtain ⟨chunks, hf, hs⟩ := h.closedSegs x now' h1 (by omega) (by omega) h4
      exact ⟨chunks, by rw [hseg now' x hxy]; exact hf, hs⟩
  · intro hop; rw [closedMux_opened] at hop; cases hop
  · intro k v hkv
    have hvs : o3.versions = pl :: o.versions := hv3
    rw [hvs] at hkv
    have hfg := closedMux_frag_ge (c := c) (m := m)
    have hfl := closedMux_frag_le (c := c) (m := m)
    have hb := h.ring.ble
    rw [closedMux_cid]
    cases k with
    | zero =>
      simp at hkv; subst hkv
      right
      have hpm : pl.mediaSeq = (closedMux c m).frag := rfl
      rw [hfin, hpm]; omega
    | succ k =>
      simp at hkv
      rcases h.vers k v hkv with h1 | ⟨h1, h2, h3, h4⟩
      · left; exact h1
      · right; omega

/-! ### operations that touch neither the live playlist nor any segment -/

def NoSegNoLive (op : FOp) : Prop :=
  ∀ d : Dir, Fs.apply under d op .live = d .live ∧ ∀ now id, Fs.apply under d op (.seg now id) = d (.seg now id)

theorem inv_frame_ops : ∀ {ops : List FOp} {o : Obs}, (∀ op ∈ ops, NoSegNoLive op) → Inv PP kd aw rdy c base m o →
    AllGood PP c.delThr o ops ∧ Inv PP kd aw rdy c base m (o.run ops)
  | [], _, _, h => ⟨h.good, h⟩
  | op :: ops, o, hops, h => by
    have hop := hops op List.mem_cons_self o.dir
    obtain ⟨hg, hi⟩ := inv_frame h (op := op) (fun _ => True) hop.1 (fun now id _ => hop.2 now id)
      (fun _ _ _ _ _ _ _ => trivial) (fun _ _ _ _ => trivial) (fun _ => trivial)
    obtain ⟨hag, hi'⟩ := inv_frame_ops (fun op' h' => hops op' (List.mem_cons_of_mem _ h')) hi
    exact ⟨⟨h.good, hag⟩, hi'⟩

theorem noSegNoLive_readFile (p : Path) : NoSegNoLive (.readFile p) := fun _ => ⟨rfl, fun _ _ => rfl⟩
theorem noSegNoLive_mkdirAll (p : Path) : NoSegNoLive (.mkdirAll p) := fun _ => ⟨rfl, fun _ _ => rfl⟩
theorem noSegNoLive_writeFile_recordBak (pl : Playlist) : NoSegNoLive (.writeFile .recordBak pl) :=
  fun _ => ⟨set_other _ _ (by simp), fun _ _ => set_other _ _ (by simp)⟩
theorem noSegNoLive_rename_record : NoSegNoLive (.rename .recordBak .record) := by
  intro d
  cases hd : d .recordBak with
  | none => simp [Fs.apply, hd]
  | some f =>
    rw [apply_rename_some hd]
    exact ⟨by rw [set_other _ _ (by simp), set_other _ _ (by simp)],
           fun _ _ => by rw [set_other _ _ (by simp), set_other _ _ (by simp)]⟩

theorem noSegNoLive_writeM3u8_record (pl : Playlist) :
    ∀ op ∈ ([Fs.Op.readFile Path.record] ++ writeM3u8 .record .recordBak pl : List FOp), NoSegNoLive op := by
  intro op hop
  have : op = .readFile .record ∨ op = .writeFile .recordBak pl ∨ op = .rename .recordBak .record := by
    simpa [writeM3u8] using hop
  rcases this with rfl | rfl | rfl
  · exact noSegNoLive_readFile _
  · exact noSegNoLive_writeFile_recordBak _
  · exact noSegNoLive_rename_record

theorem writeRecord_spec (m : Mux) (old : Option HFile) :
    ∃ r ops, writeRecord c m old = ({ m with recMax := r }, ops) ∧ ∀ op ∈ ops, NoSegNoLive op := by
  unfold writeRecord
  have hm : ∀ (b : Prop) [Decidable b] (r : Nat), ∃ r', (if b then { m with recMax := r } else m) = { m with recMax := r' } := by
    intro b _ r
    by_cases hb : b
    · exact ⟨r, by simp [hb]⟩
    · exact ⟨m.recMax, by simp [hb]⟩
  obtain ⟨r', hr'⟩ := hm (roundSec (m.frags.getD ((m.frag + m.nfrags - 1) % c.cap) {}).dur > m.recMax)
    (roundSec (m.frags.getD ((m.frag + m.nfrags - 1) % c.cap) {}).dur)
  simp only [hr']
  refine ⟨r', ?_⟩
  cases old with
  | none => exact ⟨_, rfl, noSegNoLive_writeM3u8_record _⟩
  | some f =>
    obtain ⟨ct, b⟩ := f
    cases ct with
    | data l =>
      refine ⟨_, rfl, ?_⟩
      intro op hop
      have : op = .readFile .record := by simpa using hop
      subst this
      exact noSegNoLive_readFile _
    | doc pl => exact ⟨_, rfl, noSegNoLive_writeM3u8_record _⟩

/-! ### removing the fragment that left the ring (cleanup mode "as soon as possible") -/

theorem slot_cid_name (h : Inv PP kd aw rdy c base m o) (hc : m.opened = false) {now' id' : Nat}
    (hn : (slot c m (cid m)).name = some (now', id')) : id' + c.cap = cid m ∧ base ≤ id' := by
  have hnxt : nxt m = cid m := by unfold nxt; simp [hc]
  by_cases hlt : cid m < base + c.cap
  · have := h.ring.unused (cid m) (by omega) hlt
    rw [this] at hn; cases hn
  · have hcp := cap_pos c
    obtain ⟨_, now'', hu⟩ := h.ring.used (cid m - c.cap) (by omega) (by omega) (by omega)
    have hs : slot c m (cid m - c.cap) = slot c m (cid m) := by
      unfold slot
      have : cid m = (cid m - c.cap) + c.cap := by omega
      rw [this, Nat.add_mod_right]
      simp
    rw [hs, hn] at hu
    cases hu
    omega

theorem inv_remove (h : Inv PP kd aw rdy c base m o) (hc : m.opened = false) {now' id' : Nat}
    (hn : (slot c m (cid m)).name = some (now', id')) :
    Good PP c.delThr (o.step (.remove (.seg now' id'))) ∧ Inv PP kd aw rdy c base m (o.step (.remove (.seg now' id'))) := by
  obtain ⟨hid, hb⟩ := slot_cid_name h hc hn
  have hcap : c.cap = c.fragNum + c.delThr + 1 := rfl
  have hnl := h.ring.nle
  have hcid : cid m = m.frag + m.nfrags := rfl
  apply inv_frame h (fun id => id ≠ id')
  · exact set_other _ _ (by simp)
  · intro now id hne
    exact set_other _ _ (by simp only [ne_eq, Path.seg.injEq, not_and]; intro _; exact hne)
  · intro k v id hk hkv h1 h2
    rcases h.vers k v hkv with h3 | ⟨_, h4, _, _⟩
    · omega
    · omega
  · intro x _ _ h3; omega
  · intro ho; rw [hc] at ho; cases ho

/-! ### `closeFragment` as a whole -/

/-- what `closeFragment` does after `writePlaylist` -/
def closeTail (c : Cfg) (m1 : Mux) (d1 : Dir) : Mux × List FOp :=
  if c.cleanup = Gen.c10CleanupNever ∨ c.cleanup = Gen.c10CleanupInTheEnd then writeRecord c m1 (d1 .record)
  else if c.cleanup = Gen.c10CleanupAsap then
    match (getFrag c m1 m1.nfrags).name with
    | some (now, id) => (m1, [.remove (.seg now id)])
    | none => (m1, [])
  else (m1, [])

theorem closeFragment_eq (isLast : Bool) (d : Dir) (ho : m.opened = true) :
    closeFragment c isLast m d =
      ((closeTail c (closedMux c m) (applyAll under d (closeOps1 c m isLast))).1,
       closeOps1 c m isLast ++ (closeTail c (closedMux c m) (applyAll under d (closeOps1 c m isLast))).2) := by
  unfold closeFragment closeTail
  simp only [ho, Bool.not_true, Bool.false_eq_true, if_false]
  by_cases h01 : c.cleanup = Gen.c10CleanupNever ∨ c.cleanup = Gen.c10CleanupInTheEnd
  · simp only [h01, if_true]; rfl
  · simp only [h01, if_false]
    by_cases h2 : c.cleanup = Gen.c10CleanupAsap
    · simp only [h2, if_true]
      show (match (getFrag c (closedMux c m) (closedMux c m).nfrags).name with
        | some (now, id) => (closedMux c m, closeOps1 c m isLast ++ [Fs.Op.remove (Path.seg now id)])
        | none => (closedMux c m, closeOps1 c m isLast)) = _
      cases (getFrag c (closedMux c m) (closedMux c m).nfrags).name with
      | none => simp
      | some p => rfl
    · simp only [h2, if_false]
      show (closedMux c m, closeOps1 c m isLast) = _
      simp

theorem closeFragment_closed (isLast : Bool) (d : Dir) (ho : m.opened = false) : closeFragment c isLast m d = (m, []) := by
  unfold closeFragment; simp [ho]

theorem inv_closeTail (h : Inv PP kd aw rdy c base m o) (hc : m.opened = false) :
    AllGood PP c.delThr o (closeTail c m o.dir).2 ∧
    Inv PP kd aw rdy c base (closeTail c m o.dir).1 (o.run (closeTail c m o.dir).2) ∧
    (closeTail c m o.dir).1.opened = false ∧ (closeTail c m o.dir).1.patpmt = m.patpmt := by
  unfold closeTail
  by_cases h01 : c.cleanup = Gen.c10CleanupNever ∨ c.cleanup = Gen.c10CleanupInTheEnd
  · simp only [h01, if_true]
    obtain ⟨r, ops2, hw, hns⟩ := writeRecord_spec (c := c) m (o.dir .record)
    rw [hw]
    obtain ⟨hag2, hinv2⟩ := inv_frame_ops hns h
    exact ⟨hag2, inv_setRecMax hinv2 r, hc, rfl⟩
  · simp only [h01, if_false]
    by_cases h2 : c.cleanup = Gen.c10CleanupAsap
    · simp only [h2, if_true]
      cases hnm : (getFrag c m m.nfrags).name with
      | none => exact ⟨h.good, h, hc, rfl⟩
      | some p =>
        obtain ⟨now', id'⟩ := p
        have hnm' : (slot c m (cid m)).name = some (now', id') := hnm
        obtain ⟨hg, hi⟩ := inv_remove h hc hnm'
        exact ⟨⟨h.good, hg⟩, hi, hc, rfl⟩
    · simp only [h2, if_false]
      exact ⟨h.good, h, hc, trivial⟩

theorem inv_closeFragment (h : Inv PP kd aw rdy c base m o) (isLast : Bool) :
    AllGood PP c.delThr o (closeFragment c isLast m o.dir).2 ∧
    Inv PP kd aw rdy c base (closeFragment c isLast m o.dir).1 (o.run (closeFragment c isLast m o.dir).2) ∧
    (closeFragment c isLast m o.dir).1.opened = false ∧
    (closeFragment c isLast m o.dir).1.patpmt = m.patpmt := by
  by_cases ho : m.opened = true
  · rw [closeFragment_eq isLast o.dir ho]
    obtain ⟨hag, hinv⟩ := inv_close_core h ho isLast
    have hd : applyAll under o.dir (closeOps1 c m isLast) = (o.run (closeOps1 c m isLast)).dir := (run_dir _ _).symm
    rw [hd]
    obtain ⟨hag2, hinv2, hop2, hpp2⟩ := inv_closeTail hinv closedMux_opened
    refine ⟨allGood_append.mpr ⟨hag, hag2⟩, ?_, hop2, ?_⟩
    · rw [run_append]; exact hinv2
    · rw [hpp2, closedMux_patpmt]
  · have ho' : m.opened = false := by cases hm : m.opened <;> simp_all
    rw [closeFragment_closed isLast o.dir ho']
    exact ⟨h.good, h, ho', rfl⟩

end Lal.HlsC
