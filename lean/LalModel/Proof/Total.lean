import LalModel.Model.Go
import LalModel.Proof.Go
/-
  Toolkit for totality proofs ("no Go panic"): `NoPanic x` and how it goes through `>>=`, and when the
  index / slice primitives of Model/Go.lean succeed.
-/
namespace Lal

/-- the computation does not end in a Go panic -/
def NoPanic {α} (x : GoM α) : Prop := ∀ s, x ≠ .error (.panic s)

theorem NoPanic.ok {α} (a : α) : NoPanic (Except.ok a : GoM α) := by intro s h; cases h
theorem NoPanic.pure {α} (a : α) : NoPanic (pure a : GoM α) := NoPanic.ok a
theorem NoPanic.err {α} : NoPanic (Except.error Fault.err : GoM α) := by intro s h; cases h
theorem NoPanic.throwErr {α} : NoPanic (throw Fault.err : GoM α) := NoPanic.err

theorem NoPanic.bind {α β} {x : GoM α} {f : α → GoM β} (hx : NoPanic x) (hf : ∀ a, x = .ok a → NoPanic (f a)) :
    NoPanic (x >>= f) := by
  cases x with
  | ok a => exact hf a rfl
  | error e =>
    intro s h
    cases e with
    | err => cases h
    | panic t => exact hx t rfl

theorem NoPanic.ite {α} {c : Prop} [Decidable c] {x y : GoM α} (hx : c → NoPanic x) (hy : ¬ c → NoPanic y) :
    NoPanic (if c then x else y) := by
  split
  · exact hx ‹_›
  · exact hy ‹_›

theorem noPanic_iff_isPanic {α} (x : GoM α) : NoPanic x ↔ isPanic x = false := by
  cases x with
  | ok a => simp [NoPanic, isPanic]
  | error e =>
    cases e with
    | err => simp [NoPanic, isPanic]
    | panic t => simp [NoPanic, isPanic]

/-! ### when the primitives succeed -/

theorem idx?_ok {site : String} {b : Bytes} {i : Nat} (h : i < b.length) : idx? site b i = .ok b[i] := by
  simp [idx?, List.getElem?_eq_getElem h]

theorem idx?_noPanic {site : String} {b : Bytes} {i : Nat} (h : i < b.length) : NoPanic (idx? site b i) := by
  rw [idx?_ok h]; exact NoPanic.ok _

theorem from?_ok {site : String} {b : Bytes} {i : Nat} (h : i ≤ b.length) : from? site b i = .ok (b.drop i) := by
  simp [from?, h]

theorem from?_noPanic {site : String} {b : Bytes} {i : Nat} (h : i ≤ b.length) : NoPanic (from? site b i) := by
  rw [from?_ok h]; exact NoPanic.ok _

theorem upto?_ok {site : String} {b : Bytes} {j : Nat} (h : j ≤ b.length) : upto? site b j = .ok (b.take j) := by
  simp [upto?, h]

theorem slice?_ok {site : String} {b : Bytes} {i j : Nat} (h1 : i ≤ j) (h2 : j ≤ b.length) :
    slice? site b i j = .ok ((b.drop i).take (j - i)) := by
  simp [slice?, h1, h2]

theorem slice?_noPanic {site : String} {b : Bytes} {i j : Nat} (h1 : i ≤ j) (h2 : j ≤ b.length) : NoPanic (slice? site b i j) := by
  rw [slice?_ok h1 h2]; exact NoPanic.ok _

theorem idx?_eq_ok {site : String} {b : Bytes} {i : Nat} {x : UInt8} (h : idx? site b i = .ok x) : i < b.length := by
  unfold idx? at h
  cases hb : b[i]? with
  | none => rw [hb] at h; cases h
  | some y =>
    exact (List.getElem?_eq_some_iff.mp hb).1

theorem from?_eq_ok {site : String} {b r : Bytes} {i : Nat} (h : from? site b i = .ok r) : i ≤ b.length ∧ r = b.drop i := by
  unfold from? at h
  split at h
  · exact ⟨‹_›, by cases h; rfl⟩
  · cases h

end Lal
