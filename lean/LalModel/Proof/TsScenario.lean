import LalModel.Proof.TsStream
import LalModel.Proof.TsVideo
import LalModel.Model.TsRmx
/-
  The remuxer as a whole: whatever messages it is fed and whatever its observer does, the frames it hands to
  `Frame.Pack` are acceptable to it (non-empty, bounded audio PES) and their continuity counters chain per PID —
  hence (Proof/TsStream) the transport stream demultiplexes into exactly those frames.
-/
namespace Lal.TsScenario
open Lal Lal.TsRmx Lal.TsStream

/-- the frames of a list of observer calls -/
def frames : List Out → List Ts.Frame
  | [] => []
  | .patpmt _ :: r => frames r
  | .ts i :: r => i.frame :: frames r

theorem frames_append (a b : List Out) : frames (a ++ b) = frames a ++ frames b := by
  induction a with
  | nil => rfl
  | cons x xs ih => cases x <;> simp [frames, ih]

/-- frames of one PID chained from counter `c` to counter `c'` -/
def ChainFrom : Nat → List Ts.Frame → Nat → Prop
  | c, [], c' => c = c'
  | c, f :: fs, c' => f.cc = c ∧ ChainFrom (Ts.pack f).2 fs c'

theorem chainFrom_append : ∀ (a b : List Ts.Frame) (c c1 c2 : Nat), ChainFrom c a c1 → ChainFrom c1 b c2 → ChainFrom c (a ++ b) c2 := by
  intro a
  induction a with
  | nil => intro b c c1 c2 h1 h2; simp only [ChainFrom] at h1; subst h1; exact h2
  | cons f fs ih =>
    intro b c c1 c2 h1 h2
    exact ⟨h1.1, ih b _ c1 c2 h1.2 h2⟩

theorem ccChain_of_chainFrom : ∀ (fs : List Ts.Frame) (c c' : Nat), ChainFrom c fs c' → CcChain fs := by
  intro fs
  induction fs with
  | nil => intro _ _ _; trivial
  | cons f fs ih =>
    intro c c' h
    cases fs with
    | nil => trivial
    | cons g gs => exact ⟨h.2.1, ih _ _ h.2⟩

def vpid : Nat := Gen.tsPidVideo
def apid : Nat := Gen.tsPidAudio

def vOf (fs : List Ts.Frame) : List Ts.Frame := fs.filter (·.pid = vpid)
def aOf (fs : List Ts.Frame) : List Ts.Frame := fs.filter (·.pid = apid)

/-- what is known of the frames of a piece of output: all acceptable to `Pack`, every one on the video or the audio
    PID, and per PID chained between the counters before (`vc`, `ac`) and after (`vc'`, `ac'`) -/
structure GoodC (vc ac : Nat) (out : List Out) (vc' ac' : Nat) : Prop where
  ok : ∀ f ∈ frames out, FrameOK f
  pids : ∀ f ∈ frames out, f.pid = vpid ∨ f.pid = apid
  vchain : ChainFrom vc (vOf (frames out)) vc'
  achain : ChainFrom ac (aOf (frames out)) ac'

abbrev Good (s : St) (out : List Out) (s' : St) : Prop := GoodC s.videoCc s.audioCc out s'.videoCc s'.audioCc

theorem goodC_nil (vc ac : Nat) : GoodC vc ac [] vc ac :=
  { ok := fun _ h => by simp [frames] at h, pids := fun _ h => by simp [frames] at h, vchain := rfl, achain := rfl }

theorem good_nil (s : St) : Good s [] s := goodC_nil _ _

theorem goodC_append {vc ac vc1 ac1 vc2 ac2 : Nat} {a b : List Out} (h1 : GoodC vc ac a vc1 ac1) (h2 : GoodC vc1 ac1 b vc2 ac2) :
    GoodC vc ac (a ++ b) vc2 ac2 := by
  refine { ok := ?_, pids := ?_, vchain := ?_, achain := ?_ }
  · intro f hf; rw [frames_append, List.mem_append] at hf; rcases hf with hf | hf; exact h1.ok f hf; exact h2.ok f hf
  · intro f hf; rw [frames_append, List.mem_append] at hf; rcases hf with hf | hf; exact h1.pids f hf; exact h2.pids f hf
  · rw [frames_append]; simp only [vOf, List.filter_append]; exact chainFrom_append _ _ _ _ _ h1.vchain h2.vchain
  · rw [frames_append]; simp only [aOf, List.filter_append]; exact chainFrom_append _ _ _ _ _ h1.achain h2.achain

/-- state invariant: counters are `uint8`s, the audio cache fits one PES packet -/
structure SInv (s : St) : Prop where
  vcc : s.videoCc < 256
  acc : s.audioCc < 256
  cache : s.cache.length ≤ Gen.maxAudioCacheSize

/-- The audio messages of a stream: one codec (AAC, or something else — of which only Opus is sent on), and frames that
    fit: an AAC frame its 13-bit ADTS length, an Opus packet one PES packet. Nothing is asked of video messages. -/
def Bounded (aacStream : Bool) (m : Msg) : Prop :=
  m.typ = 8 →
    (audioCodecId m.payload = Gen.rtmpSoundFormatAac → aacStream = true ∧ m.payload.length ≤ 8186)
    ∧ (audioCodecId m.payload = Gen.rtmpSoundFormatOpus → aacStream = false ∧ m.payload.length ≤ Gen.maxAudioCacheSize)

theorem pack_cc_lt (f : Ts.Frame) (h : f.cc < 256) : (Ts.pack f).2 < 256 := by
  obtain ⟨qs, _, _, hc, _⟩ := Ts.pack_packets f h
  rw [hc]; omega

section
variable {σ : Type} (obs : Observer σ)

/-- a step that emits audio frames only and leaves the video side of the state alone -/
structure AudioOnly (s s' : St) (out : List Out) : Prop where
  good : Good s out s'
  inv : SInv s'
  novideo : vOf (frames out) = []
  vcc : s'.videoCc = s.videoCc
  spspps : s'.spspps = s.spspps
  baseV : s'.baseV = s.baseV

theorem audioOnly_refl (s : St) (hs : SInv s) : AudioOnly s s [] :=
  { good := good_nil s, inv := hs, novideo := rfl, vcc := rfl, spspps := rfl, baseV := rfl }

/-- `FlushAudio`: at most one audio frame; the cache is empty afterwards; nothing else of the state moves except the
    audio counter, the audio base and `opened` -/
theorem flushAudio_good (s : St) (o : σ) (hs : SInv s) :
    AudioOnly s (flushAudio obs s o).1 (flushAudio obs s o).2.2 ∧ (flushAudio obs s o).1.cache = [] := by
  unfold flushAudio
  by_cases he : s.cache.isEmpty = true
  · rw [if_pos he]
    exact ⟨audioOnly_refl s hs, by simpa using he⟩
  · rw [if_neg he]
    have hne : s.cache ≠ [] := by intro e; rw [e] at he; exact he rfl
    simp only [audioFrame]
    refine ⟨{ good := ?_, inv := ?_, novideo := ?_, vcc := rfl, spspps := rfl, baseV := rfl }, trivial⟩
    · refine { ok := ?_, pids := ?_, vchain := ?_, achain := ?_ }
      · intro f hf
        simp only [frames, List.mem_singleton] at hf
        subst hf
        refine { raw := hne, cc := hs.acc, pid := by show Gen.tsPidAudio < 8192; decide,
                 sid := by show 192 ≤ Gen.tsStreamIdAudio ∧ Gen.tsStreamIdAudio ≤ 239; decide, len := Or.inr ?_ }
        have := hs.cache
        simp only [Ts.pesHeaderSize, ne_eq, not_true_eq_false, if_false]
        simp only [Gen.maxAudioCacheSize] at this
        omega
      · intro f hf
        simp only [frames, List.mem_singleton] at hf
        subst hf
        exact Or.inr rfl
      · simp [frames, vOf, vpid, ChainFrom, Gen.tsPidAudio, Gen.tsPidVideo]
      · simp [frames, aOf, apid, ChainFrom, Item.cc]
    · exact { vcc := hs.vcc, acc := pack_cc_lt _ hs.acc, cache := by simp }
    · simp [frames, vOf, vpid, Gen.tsPidAudio, Gen.tsPidVideo]

/-- `if cond then FlushAudio() …` -/
theorem maybeFlush_good (s : St) (o : σ) (hs : SInv s) (b : Prop) [Decidable b] :
    AudioOnly s (if b then flushAudio obs s o else (s, o, [])).1 (if b then flushAudio obs s o else (s, o, [])).2.2 := by
  by_cases hb : b
  · rw [if_pos hb]; exact (flushAudio_good obs s o hs).1
  · rw [if_neg hb]; exact audioOnly_refl s hs

/-- the video frame `feedVideo` sends for an access unit -/
def vframeOf (s : St) (ts : Nat) (raw : Bytes) (key : Bool) (c : Nat) : Ts.Frame :=
  { pts := (rebase s.baseV (ts * 90)).2 + 90 * c, dts := (rebase s.baseV (ts * 90)).2, cc := s.videoCc, pid := Gen.tsPidVideo,
    sid := Gen.tsStreamIdVideo, key := key, raw := raw }

/-- what the second part of `feedVideo` does: possibly audio frames, then exactly one video frame -/
structure VideoRes (s s' : St) (out : List Out) (f : Ts.Frame) (b : Nat) : Prop where
  good : Good s out s'
  inv : SInv s'
  vframes : vOf (frames out) = [f]
  baseV : s'.baseV = some b
  spspps : s'.spspps = s.spspps

theorem audioOnly_trans {s s1 s2 : St} {a b : List Out} (h1 : AudioOnly s s1 a) (h2 : AudioOnly s1 s2 b) : AudioOnly s s2 (a ++ b) :=
  { good := goodC_append h1.good h2.good, inv := h2.inv,
    novideo := by rw [frames_append]; simp only [vOf, List.filter_append]; rw [← vOf, ← vOf, h1.novideo, h2.novideo]; rfl,
    vcc := h2.vcc.trans h1.vcc, spspps := h2.spspps.trans h1.spspps, baseV := h2.baseV.trans h1.baseV }

theorem videoFrame_good (s : St) (o : σ) (hs : SInv s) (ts : Nat) (raw : Bytes) (key : Bool) (c : Nat) (hraw : raw ≠ []) :
    VideoRes s (videoFrame obs s o ts raw key c).1 (videoFrame obs s o ts raw key c).2.2 (vframeOf s ts raw key c)
      (rebase s.baseV (ts * 90)).1 := by
  unfold videoFrame
  simp only []
  -- the audio that goes first
  generalize hr0 : (if !s.cache.isEmpty ∧ s.cacheFirst + Gen.maxAudioCacheDelayByVideo < ts * 90 then flushAudio obs s o else (s, o, [])) = r0
  have h0 : AudioOnly s r0.1 r0.2.2 := by rw [← hr0]; exact maybeFlush_good obs s o hs _
  -- the state `onFrame` hands to the observer
  generalize hbd : (key && (r0.1.asc.isNone || !r0.1.opened || !r0.1.cache.isEmpty)) = bd
  generalize hs1 : ({ r0.1 with baseV := some (rebase r0.1.baseV (ts * 90)).1, opened := r0.1.opened || bd } : St) = s1
  have hs1inv : SInv s1 := by rw [← hs1]; exact { vcc := h0.inv.vcc, acc := h0.inv.acc, cache := h0.inv.cache }
  have hf : ({ pts := (rebase r0.1.baseV (ts * 90)).2 + 90 * c, dts := (rebase r0.1.baseV (ts * 90)).2, cc := r0.1.videoCc,
               pid := Gen.tsPidVideo, sid := Gen.tsStreamIdVideo, key := key, raw := raw } : Ts.Frame) = vframeOf s ts raw key c := by
    simp only [vframeOf, h0.baseV, h0.vcc]
  rw [hf]
  generalize hit : ({ frame := vframeOf s ts raw key c, boundary := bd } : Item) = it
  generalize he1 : obs.enter1 r0.2.1 it = e1
  generalize hr1 : (if e1.2.2 = true then flushAudio obs s1 e1.1 else (s1, e1.1, [])) = r1
  have h1 : AudioOnly s1 r1.1 r1.2.2 := by rw [← hr1]; exact maybeFlush_good obs s1 e1.1 hs1inv _
  generalize he2 : obs.enter2 r1.2.1 e1.2.1 it = e2
  generalize hr2 : (if e2.2 = true then flushAudio obs r1.1 e2.1 else (r1.1, e2.1, [])) = r2
  have h2 : AudioOnly r1.1 r2.1 r2.2.2 := by rw [← hr2]; exact maybeFlush_good obs r1.1 e2.1 h1.inv _
  have h12 := audioOnly_trans h1 h2
  have hfok : FrameOK (vframeOf s ts raw key c) :=
    { raw := hraw, cc := hs.vcc, pid := by show Gen.tsPidVideo < 8192; decide,
      sid := by show 192 ≤ Gen.tsStreamIdVideo ∧ Gen.tsStreamIdVideo ≤ 239; decide, len := Or.inl (by show TsSpec.videoStreamId Gen.tsStreamIdVideo = true; decide) }
  have hitf : it.frame = vframeOf s ts raw key c := by rw [← hit]
  -- the last call: the video frame
  have hlast : GoodC s.videoCc r2.1.audioCc [.ts it] it.cc r2.1.audioCc := by
    refine { ok := ?_, pids := ?_, vchain := ?_, achain := ?_ }
    · intro f hfm; simp only [frames, List.mem_singleton] at hfm; rw [hfm, hitf]; exact hfok
    · intro f hfm; simp only [frames, List.mem_singleton] at hfm; rw [hfm, hitf]; exact Or.inl rfl
    · simp [frames, vOf, vpid, hitf, vframeOf, ChainFrom, Item.cc]
    · simp [frames, aOf, apid, hitf, vframeOf, ChainFrom, Gen.tsPidAudio, Gen.tsPidVideo]
  have hs1cc : s1.videoCc = r0.1.videoCc ∧ s1.audioCc = r0.1.audioCc := by rw [← hs1]; exact ⟨rfl, rfl⟩
  have hmid : GoodC r0.1.videoCc r0.1.audioCc (r1.2.2 ++ r2.2.2) r2.1.videoCc r2.1.audioCc := by
    have := h12.good
    simp only [Good, hs1cc.1, hs1cc.2] at this
    exact this
  have hv2 : r2.1.videoCc = s.videoCc := by rw [h12.vcc, hs1cc.1, h0.vcc]
  refine { good := ?_, inv := ?_, vframes := ?_, baseV := ?_, spspps := ?_ }
  · have hall := goodC_append (goodC_append h0.good hmid) (hv2 ▸ hlast)
    simpa [List.append_assoc] using hall
  · exact { vcc := by show it.cc < 256; rw [Item.cc, hitf]; exact pack_cc_lt _ hs.vcc, acc := h2.inv.acc, cache := h2.inv.cache }
  · simp only [frames_append, vOf, List.filter_append]
    rw [← vOf, ← vOf, ← vOf, h0.novideo, h1.novideo, h2.novideo]
    simp [frames, vpid, hitf, vframeOf]
  · show r2.1.baseV = _
    rw [h12.baseV, ← hs1, h0.baseV]
  · show r2.1.spspps = _
    rw [h12.spspps, ← hs1]; exact h0.spspps

/-! ### `feedAudio` -/

theorem audioAu_aac {asc : Option Aac.AscContext} {m : Msg} {entry : Bytes} (h : audioAu asc m = .aac entry) :
    audioCodecId m.payload = Gen.rtmpSoundFormatAac ∧ entry.length = 7 + (m.payload.length - 2) := by
  unfold audioAu at h
  simp only [] at h
  split at h
  · cases h
  · split at h
    · cases h
    · split at h
      · cases h
      · split at h
        · rename_i haac
          cases hasc : asc with
          | none => rw [hasc] at h; cases h
          | some c =>
            rw [hasc] at h
            simp only [VRes, ARes.aac.injEq] at h
            subst h
            exact ⟨haac, by simp [Aac.packAdtsHeader]; omega⟩
        · cases h

theorem audioAu_opus {asc : Option Aac.AscContext} {m : Msg} {pkt : Bytes} (h : audioAu asc m = .opus pkt) :
    audioCodecId m.payload = Gen.rtmpSoundFormatOpus ∧ pkt = m.payload.drop 1 ∧ pkt ≠ [] := by
  unfold audioAu at h
  simp only [] at h
  split at h
  · cases h
  · rename_i h1
    split at h
    · cases h
    · rename_i h2
      split at h
      · cases h
      · split at h
        · split at h <;> cases h
        · rename_i h4
          simp only [ARes.opus.injEq] at h
          subst h
          have hop : audioCodecId m.payload = Gen.rtmpSoundFormatOpus := by
            by_cases ho : audioCodecId m.payload = Gen.rtmpSoundFormatOpus
            · exact ho
            · exact absurd ⟨h4, ho⟩ h1
          refine ⟨hop, rfl, ?_⟩
          intro e
          have : (m.payload.drop 1).length = 0 := by rw [e]; rfl
          simp only [List.length_drop] at this
          apply h2
          left; omega

/-- a step of the audio side: audio frames only, the video side untouched, and — on a stream without AAC — nothing left
    in the cache -/
theorem feedAudio_good (aacS : Bool) (s : St) (o : σ) (m : Msg) (hs : SInv s) (hop : aacS = false → s.cache = [])
    (hb : Bounded aacS m) (ht : m.typ = 8) :
    AudioOnly s (feedAudio obs s o m).1 (feedAudio obs s o m).2.2 ∧ (aacS = false → (feedAudio obs s o m).1.cache = []) := by
  unfold feedAudio
  cases hau : audioAu s.asc m with
  | ignore => exact ⟨audioOnly_refl s hs, hop⟩
  | config a =>
    exact ⟨{ good := good_nil s, inv := { vcc := hs.vcc, acc := hs.acc, cache := hs.cache }, novideo := rfl, vcc := rfl,
             spspps := rfl, baseV := rfl }, hop⟩
  | aac entry =>
    obtain ⟨hcodec, hlen⟩ := audioAu_aac hau
    have hbb := (hb ht).1 hcodec
    have hentry : entry.length ≤ 8191 := by rw [hlen]; omega
    simp only []
    generalize hr : (if !s.cache.isEmpty ∧ (s.cacheFirst + Gen.maxAudioCacheDelayByAudio < m.ts * 90 ∨ m.ts * 90 < s.cacheFirst
        ∨ s.cache.length + entry.length > Gen.maxAudioCacheSize) then flushAudio obs s o else (s, o, [])) = r
    have h0 : AudioOnly s r.1 r.2.2 := by rw [← hr]; exact maybeFlush_good obs s o hs _
    have hcache : r.1.cache.length + entry.length ≤ Gen.maxAudioCacheSize := by
      by_cases hc : !s.cache.isEmpty ∧ (s.cacheFirst + Gen.maxAudioCacheDelayByAudio < m.ts * 90 ∨ m.ts * 90 < s.cacheFirst
          ∨ s.cache.length + entry.length > Gen.maxAudioCacheSize)
      · rw [if_pos hc] at hr
        have := (flushAudio_good obs s o hs).2
        rw [hr] at this
        rw [this]; simp only [List.length_nil, Gen.maxAudioCacheSize]; omega
      · rw [if_neg hc] at hr
        rw [← hr]
        simp only []
        by_cases he : s.cache.isEmpty = true
        · have : s.cache = [] := by simpa using he
          rw [this]; simp only [List.length_nil, Gen.maxAudioCacheSize]; omega
        · have he' : (!s.cache.isEmpty) = true := by simp [he]
          have := fun x => hc ⟨he', x⟩
          have h3 : ¬ (s.cache.length + entry.length > Gen.maxAudioCacheSize) := fun x => this (Or.inr (Or.inr x))
          omega
    have hfin : ∀ t : St, t.videoCc = r.1.videoCc → t.audioCc = r.1.audioCc → t.cache = r.1.cache → t.spspps = r.1.spspps →
        t.baseV = r.1.baseV → AudioOnly s { t with cache := t.cache ++ entry } r.2.2 := by
      intro t e1 e2 e3 e4 e5
      refine { good := ?_, inv := ?_, novideo := h0.novideo, vcc := e1.trans h0.vcc, spspps := e4.trans h0.spspps,
               baseV := e5.trans h0.baseV }
      · have := h0.good
        simp only [Good] at this ⊢
        rw [e1, e2]; exact this
      · exact { vcc := by show t.videoCc < 256; rw [e1]; exact h0.inv.vcc,
                acc := by show t.audioCc < 256; rw [e2]; exact h0.inv.acc,
                cache := by show (t.cache ++ entry).length ≤ _; rw [e3]; simpa using hcache }
    refine ⟨?_, fun hf => by rw [hbb.1] at hf; cases hf⟩
    by_cases he2 : r.1.cache.isEmpty = true
    · rw [if_pos he2]; exact hfin _ rfl rfl rfl rfl rfl
    · rw [if_neg he2]; exact hfin _ rfl rfl rfl rfl rfl
  | opus pkt =>
    obtain ⟨hcodec, hpkt, _⟩ := audioAu_opus hau
    have hbb := (hb ht).2 hcodec
    have hc0 := hop hbb.1
    have hs' : SInv { s with cacheFirst := m.ts * 90, cache := s.cache ++ pkt } :=
      { vcc := hs.vcc, acc := hs.acc, cache := by
          simp only [hc0, List.nil_append, hpkt, List.length_drop]
          have := hbb.2; omega }
    have h := flushAudio_good obs { s with cacheFirst := m.ts * 90, cache := s.cache ++ pkt } o hs'
    exact ⟨{ good := h.1.good, inv := h.1.inv, novideo := h.1.novideo, vcc := h.1.vcc, spspps := h.1.spspps, baseV := h.1.baseV },
           fun _ => h.2⟩

/-! ### the whole remuxer -/

theorem maybeFlush_cache (s : St) (o : σ) (hs : SInv s) (b : Prop) [Decidable b] (hc : s.cache = []) :
    (if b then flushAudio obs s o else (s, o, [])).1.cache = [] := by
  by_cases hb : b
  · rw [if_pos hb]; exact (flushAudio_good obs s o hs).2
  · rw [if_neg hb]; exact hc

theorem videoFrame_cache (s : St) (o : σ) (hs : SInv s) (ts : Nat) (raw : Bytes) (key : Bool) (c : Nat) (hc : s.cache = []) :
    (videoFrame obs s o ts raw key c).1.cache = [] := by
  unfold videoFrame
  simp only []
  generalize hr0 : (if !s.cache.isEmpty ∧ s.cacheFirst + Gen.maxAudioCacheDelayByVideo < ts * 90 then flushAudio obs s o else (s, o, [])) = r0
  have h0 : AudioOnly s r0.1 r0.2.2 := by rw [← hr0]; exact maybeFlush_good obs s o hs _
  have c0 : r0.1.cache = [] := by rw [← hr0]; exact maybeFlush_cache obs s o hs _ hc
  generalize hbd : (key && (r0.1.asc.isNone || !r0.1.opened || !r0.1.cache.isEmpty)) = bd
  generalize hs1 : ({ r0.1 with baseV := some (rebase r0.1.baseV (ts * 90)).1, opened := r0.1.opened || bd } : St) = s1
  have hs1inv : SInv s1 := by rw [← hs1]; exact { vcc := h0.inv.vcc, acc := h0.inv.acc, cache := h0.inv.cache }
  have c1 : s1.cache = [] := by rw [← hs1]; exact c0
  generalize hf : ({ pts := (rebase r0.1.baseV (ts * 90)).2 + 90 * c, dts := (rebase r0.1.baseV (ts * 90)).2, cc := r0.1.videoCc, pid := Gen.tsPidVideo, sid := Gen.tsStreamIdVideo, key := key, raw := raw } : Ts.Frame) = f
  generalize hit : ({ frame := f, boundary := bd } : Item) = it
  generalize he1 : obs.enter1 r0.2.1 it = e1
  generalize hr1 : (if e1.2.2 = true then flushAudio obs s1 e1.1 else (s1, e1.1, [])) = r1
  have h1 : AudioOnly s1 r1.1 r1.2.2 := by rw [← hr1]; exact maybeFlush_good obs s1 e1.1 hs1inv _
  have c2 : r1.1.cache = [] := by rw [← hr1]; exact maybeFlush_cache obs s1 e1.1 hs1inv _ c1
  generalize he2 : obs.enter2 r1.2.1 e1.2.1 it = e2
  show (if e2.2 = true then flushAudio obs r1.1 e2.1 else (r1.1, e2.1, [])).1.cache = []
  exact maybeFlush_cache obs r1.1 e2.1 h1.inv _ c2

theorem videoAu_frame_raw {sp : Option Bytes} {m : Msg} {ps : Option Bytes} {raw : Bytes} {key : Bool} {c : Nat}
    (h : videoAu sp m = .frame ps raw key c) : raw ≠ [] := by
  unfold videoAu at h
  simp only [] at h
  repeat' split at h
  all_goals first
    | (cases h; done)
    | (cases h
       rename_i hne
       intro e
       apply hne
       rw [e]; rfl)

/-- one message: the frames it makes the remuxer send are acceptable to `Pack` and chain, the invariant is kept -/
structure Step (aacS : Bool) (s s' : St) (out : List Out) : Prop where
  good : Good s out s'
  inv : SInv s'
  opus : aacS = false → s'.cache = []

theorem onPop_step (aacS : Bool) (s : St) (o : σ) (m : Msg) (hs : SInv s) (hop : aacS = false → s.cache = [])
    (hb : Bounded aacS m) : Step aacS s (onPop obs s o m).1 (onPop obs s o m).2.2 := by
  unfold onPop
  by_cases h8 : m.typ = 8
  · rw [if_pos h8]
    have := feedAudio_good obs aacS s o m hs hop hb h8
    exact { good := this.1.good, inv := this.1.inv, opus := this.2 }
  · rw [if_neg h8]
    by_cases h9 : m.typ = 9
    · rw [if_pos h9]
      unfold feedVideo
      cases hv : videoAu s.spspps m with
      | ignore => exact { good := good_nil s, inv := hs, opus := hop }
      | cache ps => exact { good := good_nil s, inv := { vcc := hs.vcc, acc := hs.acc, cache := hs.cache }, opus := hop }
      | frame ps raw key c =>
        have hraw : raw ≠ [] := videoAu_frame_raw hv
        have hs' : SInv { s with spspps := ps } := { vcc := hs.vcc, acc := hs.acc, cache := hs.cache }
        have h := videoFrame_good obs { s with spspps := ps } o hs' m.ts raw key c hraw
        exact { good := h.good, inv := h.inv, opus := fun ha => videoFrame_cache obs _ o hs' m.ts raw key c (hop ha) }
    · rw [if_neg h9]
      exact { good := good_nil s, inv := hs, opus := hop }

theorem popAll_step (aacS : Bool) : ∀ (ms : List Msg) (s : St) (o : σ), SInv s → (aacS = false → s.cache = []) →
    (∀ m ∈ ms, Bounded aacS m) → Step aacS s (popAll obs s o ms).1 (popAll obs s o ms).2.2 := by
  intro ms
  induction ms with
  | nil => intro s o hs hop _; exact { good := good_nil s, inv := hs, opus := hop }
  | cons m ms ih =>
    intro s o hs hop hb
    have h1 := onPop_step obs aacS s o m hs hop (hb m (by simp))
    have h2 := ih (onPop obs s o m).1 (onPop obs s o m).2.1 h1.inv h1.opus (fun m' hm' => hb m' (by simp [hm']))
    simp only [popAll]
    exact { good := goodC_append h1.good h2.good, inv := h2.inv, opus := h2.opus }

/-- an event of a scenario is bounded when its message is -/
def EvBounded (aacS : Bool) : Ev → Prop
  | .msg m => Bounded aacS m
  | .flush => True

theorem step_cc (s t : St) (h1 : t.videoCc = s.videoCc) (h2 : t.audioCc = s.audioCc) (h3 : t.cache = s.cache) (hs : SInv s) :
    SInv t := { vcc := h1 ▸ hs.vcc, acc := h2 ▸ hs.acc, cache := h3 ▸ hs.cache }

theorem drain_step (aacS : Bool) (s : St) (o : σ) (hs : SInv s) (hop : aacS = false → s.cache = [])
    (hq : ∀ m ∈ s.queue, Bounded aacS m) : Step aacS s (drain obs s o).1 (drain obs s o).2.2 := by
  unfold drain
  simp only []
  have hs' : SInv { s with queue := [], done := true } := step_cc s _ rfl rfl rfl hs
  have h := popAll_step obs aacS s.queue { s with queue := [], done := true } (obs.patpmt o (Psi.packPat ++ Psi.packPmt s.videoId s.audioId))
    hs' hop hq
  refine { good := ?_, inv := h.inv, opus := h.opus }
  have hg := h.good
  refine { ok := ?_, pids := ?_, vchain := ?_, achain := ?_ }
  · intro f hf; exact hg.ok f (by simpa [frames] using hf)
  · intro f hf; exact hg.pids f (by simpa [frames] using hf)
  · simpa [frames] using hg.vchain
  · simpa [frames] using hg.achain

/-- the state of the probe filter: what it holds back is bounded -/
def QInv (aacS : Bool) (s : St) : Prop := ∀ m ∈ s.queue, Bounded aacS m

theorem flushAudio_queue (s : St) (o : σ) : (flushAudio obs s o).1.queue = s.queue := by
  unfold flushAudio; split <;> rfl

/-- `onPop` never touches the probe filter's queue -/
theorem onPop_queue (s : St) (o : σ) (m : Msg) : (onPop obs s o m).1.queue = s.queue := by
  unfold onPop
  split
  · unfold feedAudio
    split
    · rfl
    · rfl
    · simp only []
      split <;> (split <;> first | rfl | (unfold flushAudio; split <;> rfl))
    · unfold flushAudio; split <;> rfl
  · split
    · unfold feedVideo
      split
      · rfl
      · rfl
      · unfold videoFrame
        simp only []
        repeat' split
        all_goals first | rfl | (unfold flushAudio; repeat' split; all_goals rfl)
    · rfl

theorem popAll_queue : ∀ (ms : List Msg) (s : St) (o : σ), (popAll obs s o ms).1.queue = s.queue := by
  intro ms
  induction ms with
  | nil => intro s o; rfl
  | cons m ms ih =>
    intro s o
    simp only [popAll]
    rw [ih, onPop_queue]

/-- one scenario step keeps everything -/
theorem step_step (aacS : Bool) (s : St) (o : σ) (e : Ev) (hs : SInv s) (hop : aacS = false → s.cache = [])
    (hq : QInv aacS s) (he : EvBounded aacS e) :
    Step aacS s (step obs s o e).1 (step obs s o e).2.2 ∧ QInv aacS (step obs s o e).1 := by
  cases e with
  | flush =>
    have h := flushAudio_good obs s o hs
    refine ⟨{ good := h.1.good, inv := h.1.inv, opus := fun _ => h.2 }, ?_⟩
    show QInv aacS (flushAudio obs s o).1
    unfold QInv
    rw [flushAudio_queue]; exact hq
  | msg m =>
    show Step aacS s (feed obs s o m).1 (feed obs s o m).2.2 ∧ QInv aacS (feed obs s o m).1
    unfold feed
    by_cases hd : s.done = true
    · rw [if_pos hd]
      refine ⟨onPop_step obs aacS s o m hs hop he, ?_⟩
      unfold QInv; rw [onPop_queue]; exact hq
    · rw [if_neg hd]
      simp only []
      generalize hs1 : (if m.typ = 8 then { ({ s with queue := s.queue ++ [m] } : St) with audioId := (audioCodecId m.payload : Nat) }
          else if m.typ = 9 then { ({ s with queue := s.queue ++ [m] } : St) with videoId := (videoCodecId m.payload : Nat) }
          else ({ s with queue := s.queue ++ [m] } : St)) = s1
      have hfields : s1.videoCc = s.videoCc ∧ s1.audioCc = s.audioCc ∧ s1.cache = s.cache ∧ s1.queue = s.queue ++ [m] := by
        rw [← hs1]; split
        · exact ⟨rfl, rfl, rfl, rfl⟩
        · split <;> exact ⟨rfl, rfl, rfl, rfl⟩
      have hs1inv : SInv s1 := step_cc s s1 hfields.1 hfields.2.1 hfields.2.2.1 hs
      have hop1 : aacS = false → s1.cache = [] := fun h => by rw [hfields.2.2.1]; exact hop h
      have hq1 : QInv aacS s1 := by
        intro m' hm'
        rw [hfields.2.2.2, List.mem_append] at hm'
        rcases hm' with h | h
        · exact hq m' h
        · simp only [List.mem_singleton] at h; rw [h]; exact he
      have hdrain : Step aacS s (drain obs s1 o).1 (drain obs s1 o).2.2 ∧ QInv aacS (drain obs s1 o).1 := by
        have h := drain_step obs aacS s1 o hs1inv hop1 hq1
        refine ⟨{ good := ?_, inv := h.inv, opus := h.opus }, ?_⟩
        · have := h.good
          simp only [Good, hfields.1, hfields.2.1] at this
          exact this
        · unfold QInv drain
          simp only []
          rw [popAll_queue]
          intro _ hm; simp at hm
      have hnone : Step aacS s s1 [] ∧ QInv aacS s1 := by
        refine ⟨{ good := ?_, inv := hs1inv, opus := hop1 }, hq1⟩
        have := goodC_nil s.videoCc s.audioCc
        simp only [Good, hfields.1, hfields.2.1]
        exact this
      split
      · exact hdrain
      · split
        · exact hdrain
        · exact hnone

theorem run_step (aacS : Bool) : ∀ (evs : List Ev) (s : St) (o : σ), SInv s → (aacS = false → s.cache = []) → QInv aacS s →
    (∀ e ∈ evs, EvBounded aacS e) → Step aacS s (run obs s o evs).1 (run obs s o evs).2.2 := by
  intro evs
  induction evs with
  | nil => intro s o hs hop _ _; exact { good := good_nil s, inv := hs, opus := hop }
  | cons e es ih =>
    intro s o hs hop hq hb
    obtain ⟨h1, hq1⟩ := step_step obs aacS s o e hs hop hq (hb e (by simp))
    have h2 := ih (step obs s o e).1 (step obs s o e).2.1 h1.inv h1.opus hq1 (fun e' he' => hb e' (by simp [he']))
    simp only [run]
    exact { good := goodC_append h1.good h2.good, inv := h2.inv, opus := h2.opus }

end

/-- the transport stream an observer has received: the packets of all `OnTsPackets` calls -/
def tsOf (out : List Out) : List Bytes := stream (frames out)

/-- STRUCTURE THEOREM. Whatever is published (bounded audio frames of one codec; ANY video messages) and whatever the
    observer does, the packets handed to it form a transport stream that the per-PID demultiplexer reads as exactly the
    PES packets of the frames the remuxer packed, video and audio, in order, with continuous counters. -/
theorem demux_of_step {aacS : Bool} {s s' : St} {out : List Out} (h : Step aacS s s' out) :
    Demux.pidUnits vpid (tsOf out) = some ((vOf (frames out)).map unitOf)
    ∧ Demux.pidUnits apid (tsOf out) = some ((aOf (frames out)).map unitOf) :=
  ⟨pidUnits_stream vpid _ h.good.ok (ccChain_of_chainFrom _ _ _ h.good.vchain),
   pidUnits_stream apid _ h.good.ok (ccChain_of_chainFrom _ _ _ h.good.achain)⟩

/-! ### a consumer that joins later -/

theorem ccChain_tail : ∀ (fs : List Ts.Frame), CcChain fs → CcChain fs.tail := by
  intro fs h
  cases fs with
  | nil => trivial
  | cons f fs =>
    cases fs with
    | nil => trivial
    | cons g gs => exact h.2

theorem ccChain_drop (fs : List Ts.Frame) (h : CcChain fs) : ∀ k, CcChain (fs.drop k) := by
  intro k
  induction k generalizing fs with
  | zero => simpa using h
  | succ k ih =>
    cases fs with
    | nil => trivial
    | cons f fs => simpa using ih fs (ccChain_tail _ h)

theorem filter_drop_suffix {α} (p : α → Bool) : ∀ (l : List α) (k : Nat), ∃ j, (l.drop k).filter p = (l.filter p).drop j := by
  intro l
  induction l with
  | nil => intro k; exact ⟨0, by simp⟩
  | cons x xs ih =>
    intro k
    cases k with
    | zero => exact ⟨0, by simp⟩
    | succ k =>
      obtain ⟨j, hj⟩ := ih k
      by_cases hp : p x = true
      · exact ⟨j + 1, by simp [List.filter_cons, hp, hj]⟩
      · exact ⟨j, by simp [List.filter_cons, hp, hj]⟩

/-- JOIN POINTS. What a consumer receives that joins at the `k`-th `OnTsPackets` call (an HTTP-TS subscriber waiting for
    a boundary, an HLS client starting with a later segment): the demultiplexer returns exactly the PES packets of the
    frames from that call on. -/
theorem demux_from {aacS : Bool} {s s' : St} {out : List Out} (h : Step aacS s s' out) (k : Nat) :
    Demux.pidUnits vpid (stream ((frames out).drop k)) = some ((vOf ((frames out).drop k)).map unitOf)
    ∧ Demux.pidUnits apid (stream ((frames out).drop k)) = some ((aOf ((frames out).drop k)).map unitOf) := by
  have hok : ∀ f ∈ (frames out).drop k, FrameOK f := fun f hf => h.good.ok f (List.mem_of_mem_drop hf)
  obtain ⟨jv, hjv⟩ := filter_drop_suffix (fun f : Ts.Frame => decide (f.pid = vpid)) (frames out) k
  obtain ⟨ja, hja⟩ := filter_drop_suffix (fun f : Ts.Frame => decide (f.pid = apid)) (frames out) k
  refine ⟨pidUnits_stream vpid _ hok ?_, pidUnits_stream apid _ hok ?_⟩
  · rw [hjv]; exact ccChain_drop _ (ccChain_of_chainFrom _ _ _ h.good.vchain) jv
  · rw [hja]; exact ccChain_drop _ (ccChain_of_chainFrom _ _ _ h.good.achain) ja

theorem sinv_init : SInv {} := { vcc := by decide, acc := by decide, cache := by decide }

end Lal.TsScenario
