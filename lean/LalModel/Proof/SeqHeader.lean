import LalModel.Model.SeqHeader
import LalModel.Spec.ConfigRecord
import LalModel.Proof.Bytes
import LalModel.Proof.Go
namespace Lal.SeqHeader
open Lal

theorem slice?_append (site : String) (a b c : Bytes) :
    slice? site (a ++ b ++ c) a.length (a.length + b.length) = .ok b := by
  simp [slice?]

/-- the layout `BuildSeqHeaderFromSpsPps` writes, for any profile / level bytes -/
def avcLayout (x y : UInt8) (sps pps : Bytes) : Bytes :=
  [0x17, 0, 0, 0, 0, 1, x, 0, y, 0xFF, 0xE1] ++ be16 sps.length ++ sps ++ [1] ++ be16 pps.length ++ pps

theorem avcBuild_layout (sps pps sh : Bytes) (h : avcBuild sps pps = .ok sh) :
    ∃ x y, sh = avcLayout x y sps pps := by
  unfold avcBuild at h
  cases hp : Sps.parseSps sps with
  | error e => rw [hp] at h; cases h
  | ok ctx =>
    rw [hp] at h
    refine ⟨b8 ctx.profile, b8 ctx.level, ?_⟩
    injection h with h
    exact h.symm

theorem avcParse_layout (x y : UInt8) (sps pps : Bytes) (hs : sps.length < 65536) (hp : pps.length < 65536) :
    avcParse (avcLayout x y sps pps) = .ok (sps, pps) := by
  have h16s : rd16 (b8 (sps.length / 256)) (b8 sps.length) = sps.length := rd16_be16 _ hs
  have h16p : rd16 (b8 (pps.length / 256)) (b8 pps.length) = pps.length := rd16_be16 _ hp
  have e : avcLayout x y sps pps =
      [0x17, 0, 0, 0, 0, 1, x, 0, y, 0xFF, 0xE1, b8 (sps.length / 256), b8 sps.length] ++
        (sps ++ ([1, b8 (pps.length / 256), b8 pps.length] ++ pps)) := by
    simp [avcLayout, be16]
  have hlen : (avcLayout x y sps pps).length = 16 + sps.length + pps.length := by
    rw [e]; simp; omega
  have hi : ∀ k, (avcLayout x y sps pps)[13 + sps.length + k]? =
      ([1, b8 (pps.length / 256), b8 pps.length] ++ pps)[k]? := by
    intro k
    rw [e, List.getElem?_append_right (by simp; omega), List.getElem?_append_right (by simp; omega)]
    congr 1; simp; omega
  have hi0 := hi 0; have hi1 := hi 1; have hi2 := hi 2
  have hsps : ((avcLayout x y sps pps).drop 13).take (13 + sps.length - 13) = sps := by
    rw [e]; simp
  have hpps : ((avcLayout x y sps pps).drop (13 + sps.length + 3)).take (13 + sps.length + 3 + pps.length - (13 + sps.length + 3)) = pps := by
    rw [e]
    have : 13 + sps.length + 3 = ([0x17, 0, 0, 0, 0, 1, x, 0, y, 0xFF, 0xE1, b8 (sps.length / 256), b8 sps.length] ++ (sps ++ [1, b8 (pps.length / 256), b8 pps.length])).length := by
      simp only [List.length_append, List.length_cons, List.length_nil]; omega
    rw [show ∀ (a b c d : Bytes), a ++ (b ++ (c ++ d)) = (a ++ (b ++ c)) ++ d by intros; simp]
    rw [this, List.drop_left' rfl]
    simp
  have g : ∀ i v, i < 13 → ([0x17, 0, 0, 0, 0, 1, x, 0, y, 0xFF, 0xE1, b8 (sps.length / 256), b8 sps.length] : Bytes)[i]? = some v →
      (avcLayout x y sps pps)[i]? = some v := by
    intro i v hi' hv
    rw [e, List.getElem?_append_left (by simpa using hi')]; exact hv
  have g0 := g 0 _ (by omega) rfl; have g1 := g 1 _ (by omega) rfl; have g2 := g 2 _ (by omega) rfl
  have g3 := g 3 _ (by omega) rfl; have g4 := g 4 _ (by omega) rfl; have g10 := g 10 _ (by omega) rfl
  have g11 := g 11 _ (by omega) rfl; have g12 := g 12 _ (by omega) rfl
  generalize avcLayout x y sps pps = p at *
  simp only [List.cons_append, List.nil_append, List.getElem?_cons_zero, List.getElem?_cons_succ] at hi0 hi1 hi2
  rw [Nat.add_zero] at hi0
  have c1 : ¬ (16 + sps.length + pps.length < 13) := by omega
  have c2 : ¬ (16 + sps.length + pps.length < 13 + sps.length) := by omega
  have c3 : 13 + sps.length ≤ 16 + sps.length + pps.length := by omega
  have c4 : ¬ (16 + sps.length + pps.length < 16 + sps.length) := by omega
  have c6 : 13 + sps.length + 3 ≤ 13 + sps.length + 3 + pps.length ∧ 13 + sps.length + 3 + pps.length ≤ 16 + sps.length + pps.length := by omega
  simp [avcParse, idx?, slice?, g0, g1, g2, g3, g4, g10, g11, g12, h16s, h16p, hlen, hi0, hi1, hi2, c1, c2, c3, c4, c6]
  refine ⟨?_, ?_⟩
  · have := hsps; rw [show 13 + sps.length - 13 = sps.length by omega] at this; exact this
  · have := hpps
    rw [show 13 + sps.length + 3 + pps.length - (13 + sps.length + 3) = pps.length by omega] at this; exact this

theorem nalus16_one (u rest : Bytes) (h : u.length < 65536) :
    ConfigRecord.nalus16 1 (b8 (u.length / 256) :: b8 u.length :: (u ++ rest)) = some ([u], rest) := by
  have h16 : rd16 (b8 (u.length / 256)) (b8 u.length) = u.length := rd16_be16 _ h
  simp [ConfigRecord.nalus16, h16]

/-- the ISO/IEC 14496-15 reader on the same bytes -/
theorem avcC_layout (x y : UInt8) (sps pps : Bytes) (hs : sps.length < 65536) (hp : pps.length < 65536) :
    ConfigRecord.avcSeqHeader (avcLayout x y sps pps) = some ([sps], [pps]) := by
  have e : avcLayout x y sps pps =
      0x17 :: 0 :: 0 :: 0 :: 0 :: 1 :: x :: 0 :: y :: 0xFF :: 0xE1 :: b8 (sps.length / 256) :: b8 sps.length ::
        (sps ++ (1 :: b8 (pps.length / 256) :: b8 pps.length :: (pps ++ []))) := by
    simp [avcLayout, be16]
  rw [e]
  simp only [ConfigRecord.avcSeqHeader, ConfigRecord.videoTagHeader, ConfigRecord.avcC]
  have n1 : (225 : UInt8).toNat % 32 = 1 := by decide
  have n2 : (1 : UInt8).toNat = 1 := by decide
  simp only [n1, n2, nalus16_one _ _ hs, nalus16_one _ _ hp]
  have d1 : ¬ ((23 : UInt8).toNat % 16 ≠ 7 ∨ (0 : UInt8).toNat ≠ 0) := by decide
  have d2 : ¬ ((1 : UInt8) ≠ 1 ∨ (255 : UInt8).toNat / 4 ≠ 63 ∨ (225 : UInt8).toNat / 32 ≠ 7) := by decide
  rw [if_neg d1, if_neg d2]
  rfl

theorem readUnits_one (u rest : Bytes) (h : u.length < 65536) :
    readUnits 1 (b8 (u.length / 256) :: b8 u.length :: (u ++ rest)) = some ([u], rest) := by
  have h16 : rd16 (b8 (u.length / 256)) (b8 u.length) = u.length := rd16_be16 _ h
  simp [readUnits, h16]

theorem avcSeqHeader2Annexb_layout (x y : UInt8) (sps pps : Bytes) (hs : sps.length < 65536) (hp : pps.length < 65536) :
    avcSeqHeader2Annexb (avcLayout x y sps pps) = .ok (Nalu.startCode4 ++ sps ++ (Nalu.startCode4 ++ pps)) := by
  have e : avcLayout x y sps pps =
      0x17 :: 0 :: 0 :: 0 :: 0 :: 1 :: x :: 0 :: y :: 0xFF :: 0xE1 :: b8 (sps.length / 256) :: b8 sps.length ::
        (sps ++ (1 :: b8 (pps.length / 256) :: b8 pps.length :: (pps ++ []))) := by
    simp [avcLayout, be16]
  have n1 : (225 : UInt8).toNat % 32 = 1 := by decide
  have n2 : (1 : UInt8).toNat % 32 = 1 := by decide
  have hp' := readUnits_one pps [] hp
  rw [List.append_nil] at hp'
  rw [e]
  simp [avcSeqHeader2Annexb, avcParseLists, readUnits_one _ _ hs, hp']
  rw [if_neg (by omega), if_neg (by omega)]

/- ------------------------------- HEVC ------------------------------- -/

/-- one array of the hvcC record as `BuildSeqHeaderFromVpsSpsPps` writes it -/
def hevcArr (t : UInt8) (u : Bytes) : Bytes := [t, 0, 1] ++ be16 u.length ++ u

def hevcLayout (mid vps sps pps : Bytes) : Bytes :=
  [0x1c, 0, 0, 0, 0] ++ mid ++ [3] ++ hevcArr 32 vps ++ hevcArr 33 sps ++ hevcArr 34 pps

theorem or252 : ∀ y, y < 256 → (y ||| 252) / 4 = 63 := by decide +kernel
theorem or248 : ∀ y, y < 256 → (y ||| 248) / 8 = 31 := by decide +kernel

theorem b8_or252 (x : Nat) : (b8 (x ||| 252)).toNat / 4 = 63 := by
  rw [b8_toNat, show (256 : Nat) = 2 ^ 8 by rfl, Nat.or_mod_two_pow]
  exact or252 (x % 2 ^ 8) (Nat.mod_lt _ (by decide))

theorem b8_or248 (x : Nat) : (b8 (x ||| 248)).toNat / 8 = 31 := by
  rw [b8_toNat, show (256 : Nat) = 2 ^ 8 by rfl, Nat.or_mod_two_pow]
  exact or248 (x % 2 ^ 8) (Nat.mod_lt _ (by decide))

/-- the fixed and reserved bits an ISO/IEC 14496-15 reader checks in the 22 bytes before numOfArrays -/
def HvcReserved (mid : Bytes) : Prop :=
  (mid.getD 0 0) = 1 ∧ (mid.getD 13 0).toNat / 16 = 15 ∧ (mid.getD 15 0).toNat / 4 = 63 ∧ (mid.getD 16 0).toNat / 4 = 63
  ∧ (mid.getD 17 0).toNat / 8 = 31 ∧ (mid.getD 18 0).toNat / 8 = 31

theorem hevcBuild_layout (vps sps pps sh : Bytes) (h : hevcBuild vps sps pps = .ok sh) :
    ∃ mid, (mid.length = 22 ∧ HvcReserved mid) ∧ sh = hevcLayout mid vps sps pps := by
  unfold hevcBuild at h
  cases h1 : HevcPs.parseVps vps HevcPs.newContext with
  | error e => rw [h1] at h; cases h
  | ok r1 =>
    obtain ⟨o1, c1⟩ := r1
    rw [h1] at h
    simp only [GoM.ok_bind] at h
    by_cases hn : o1.isNone = true
    · simp [hn] at h
    · simp only [hn] at h
      cases h2 : HevcPs.parseSps sps c1 with
      | error e => rw [h2] at h; cases h
      | ok r2 =>
        obtain ⟨o2, c2⟩ := r2
        rw [h2] at h
        simp only [GoM.ok_bind] at h
        by_cases hn2 : o2.isNone = true
        · simp [hn2] at h
        · simp only [hn2] at h
          simp only [Bool.false_eq_true, if_false, GoM.pure_eq] at h
          injection h with h
          subst h
          refine ⟨[1, b8 ((c2.generalProfileSpace * 64 % 256) ||| (c2.generalTierFlag * 32 % 256) ||| c2.generalProfileIdc)]
              ++ be32 c2.generalProfileCompatibilityFlags ++ be32 (c2.generalConstraintIndicatorFlags / 65536)
              ++ be16 c2.generalConstraintIndicatorFlags
              ++ [b8 c2.generalLevelIdc, 0xf0, 0x00, 0xfc, b8 (c2.chromaFormat ||| 0xfc), b8 (c2.bitDepthLumaMinus8 ||| 0xf8),
                  b8 (c2.bitDepthChromaMinus8 ||| 0xf8), 0, 0,
                  b8 ((c2.numTemporalLayers * 8 % 256) ||| (c2.temporalIdNested * 4 % 256) ||| c2.lengthSizeMinusOne)], ?_, ?_⟩
          · refine ⟨by simp, ?_⟩
            simp only [HvcReserved, be32, be16, List.cons_append, List.nil_append, List.getD_cons_zero, List.getD_cons_succ]
            exact ⟨trivial, by decide, by decide, b8_or252 _, b8_or248 _, b8_or248 _⟩
          · simp only [hevcLayout, hevcArr, be32, be16, List.cons_append, List.nil_append, List.append_assoc]

theorem hevcArray_at (pre u post : Bytes) (t : UInt8) (need : Nat) (ht : t.toNat < 64) (hu : u.length < 65536)
    (hneed : need + u.length ≤ (pre ++ hevcArr t u ++ post).length) :
    hevcArray (pre ++ hevcArr t u ++ post) pre.length t.toNat need = .ok (u, u.length) := by
  have h16 : rd16 (b8 (u.length / 256)) (b8 u.length) = u.length := rd16_be16 _ hu
  have e : pre ++ hevcArr t u ++ post = pre ++ ([t, 0, 1, b8 (u.length / 256), b8 u.length] ++ (u ++ post)) := by
    simp [hevcArr, be16]
  have g : ∀ k, (pre ++ hevcArr t u ++ post)[pre.length + k]? = ([t, 0, 1, b8 (u.length / 256), b8 u.length] ++ (u ++ post))[k]? := by
    intro k
    rw [e, List.getElem?_append_right (by omega)]
    congr 1; omega
  have g0 := g 0; have g1 := g 1; have g2 := g 2; have g3 := g 3; have g4 := g 4
  rw [Nat.add_zero] at g0
  have hsl : ((pre ++ hevcArr t u ++ post).drop (pre.length + 5)).take (pre.length + 5 + u.length - (pre.length + 5)) = u := by
    rw [e]
    rw [show ∀ (a b c : Bytes), a ++ (b ++ c) = (a ++ b) ++ c by intros; simp]
    rw [show pre.length + 5 = (pre ++ [t, 0, 1, b8 (u.length / 256), b8 u.length]).length by simp]
    rw [List.drop_left' rfl]
    simp
  have hlen : pre.length + 5 + u.length ≤ (pre ++ hevcArr t u ++ post).length := by
    rw [e]; simp; omega
  generalize pre ++ hevcArr t u ++ post = p at *
  simp only [List.cons_append, List.nil_append, List.getElem?_cons_zero, List.getElem?_cons_succ] at g0 g1 g2 g3 g4
  have r1 : rd16 (0 : UInt8) 1 = 1 := by decide
  have hm : t.toNat % 64 = t.toNat := Nat.mod_eq_of_lt ht
  have c1 : ¬ (p.length < need + u.length) := by omega
  have c2 : pre.length + 5 ≤ pre.length + 5 + u.length ∧ pre.length + 5 + u.length ≤ p.length := by omega
  simp [hevcArray, idx?, slice?, g0, g1, g2, g3, g4, h16, r1, hm, c1, c2]
  rw [show pre.length + 5 + u.length - (pre.length + 5) = u.length by omega] at hsl
  exact hsl

theorem hevcArr_length (t : UInt8) (u : Bytes) : (hevcArr t u).length = 5 + u.length := by
  simp [hevcArr]; omega

theorem hevcLayout_length (mid vps sps pps : Bytes) (hm : mid.length = 22) :
    (hevcLayout mid vps sps pps).length = 43 + vps.length + sps.length + pps.length := by
  simp [hevcLayout, hevcArr_length, hm]; omega

theorem hevcParseRecord_layout (mid vps sps pps : Bytes) (hm : mid.length = 22)
    (hv : vps.length < 65536) (hs : sps.length < 65536) (hp : pps.length < 65536) :
    hevcParseRecord (hevcLayout mid vps sps pps) = .ok (vps, sps, pps) := by
  have hlen := hevcLayout_length mid vps sps pps hm
  -- the three arrays at their offsets
  have a1 := hevcArray_at ([0x1c, 0, 0, 0, 0] ++ mid ++ [3]) vps (hevcArr 33 sps ++ hevcArr 34 pps) 32 33 (by decide) hv
    (by simp [hevcArr_length, hm]; omega)
  have a2 := hevcArray_at ([0x1c, 0, 0, 0, 0] ++ mid ++ [3] ++ hevcArr 32 vps) sps (hevcArr 34 pps) 33 (38 + vps.length) (by decide) hs
    (by simp [hevcArr_length, hm]; omega)
  have a3 := hevcArray_at ([0x1c, 0, 0, 0, 0] ++ mid ++ [3] ++ hevcArr 32 vps ++ hevcArr 33 sps) pps [] 34 (43 + vps.length + sps.length) (by decide) hp
    (by simp [hevcArr_length, hm]; omega)
  have e1 : [0x1c, 0, 0, 0, 0] ++ mid ++ [3] ++ hevcArr 32 vps ++ (hevcArr 33 sps ++ hevcArr 34 pps) = hevcLayout mid vps sps pps := by
    simp [hevcLayout]
  have e2 : [0x1c, 0, 0, 0, 0] ++ mid ++ [3] ++ hevcArr 32 vps ++ hevcArr 33 sps ++ hevcArr 34 pps = hevcLayout mid vps sps pps := by
    simp [hevcLayout]
  have e3 : [0x1c, 0, 0, 0, 0] ++ mid ++ [3] ++ hevcArr 32 vps ++ hevcArr 33 sps ++ hevcArr 34 pps ++ [] = hevcLayout mid vps sps pps := by
    simp [hevcLayout]
  have l1 : ([0x1c, 0, 0, 0, 0] ++ mid ++ [3] : Bytes).length = 28 := by simp [hm]
  have l2 : ([0x1c, 0, 0, 0, 0] ++ mid ++ [3] ++ hevcArr 32 vps : Bytes).length = 33 + vps.length := by
    simp [hm, hevcArr_length]; omega
  have l3 : ([0x1c, 0, 0, 0, 0] ++ mid ++ [3] ++ hevcArr 32 vps ++ hevcArr 33 sps : Bytes).length = 38 + vps.length + sps.length := by
    simp [hm, hevcArr_length]; omega
  rw [e1, l1] at a1; rw [e2, l2] at a2; rw [e3, l3] at a3
  have g27 : (hevcLayout mid vps sps pps)[27]? = some 3 := by
    have : hevcLayout mid vps sps pps = ([0x1c, 0, 0, 0, 0] ++ mid) ++ (3 :: (hevcArr 32 vps ++ hevcArr 33 sps ++ hevcArr 34 pps)) := by
      simp [hevcLayout]
    rw [this, List.getElem?_append_right (by simp [hm])]
    simp [hm]
  have t32 : (32 : UInt8).toNat = 32 := by decide
  have t33 : (33 : UInt8).toNat = 33 := by decide
  have t34 : (34 : UInt8).toNat = 34 := by decide
  rw [t32] at a1; rw [t33] at a2; rw [t34] at a3
  have c1 : ¬ ((hevcLayout mid vps sps pps).length < 38 + vps.length) := by omega
  have c2 : ¬ ((hevcLayout mid vps sps pps).length < 43 + vps.length + sps.length) := by omega
  have c0 : 33 ≤ (hevcLayout mid vps sps pps).length := by omega
  simp [hevcParseRecord, idx?, g27, a1, a2, a3, c0, c1, c2]

theorem hevcParse_layout (mid vps sps pps : Bytes) (hm : mid.length = 22)
    (hv : vps.length < 65536) (hs : sps.length < 65536) (hp : pps.length < 65536) :
    hevcParse (hevcLayout mid vps sps pps) = .ok (vps, sps, pps) := by
  have hlen := hevcLayout_length mid vps sps pps hm
  have hr := hevcParseRecord_layout mid vps sps pps hm hv hs hp
  have g : ∀ (i : Nat) (v : UInt8), ([0x1c, 0, 0, 0, 0] : Bytes)[i]? = some v → (hevcLayout mid vps sps pps)[i]? = some v := by
    intro i v h
    have hi : i < 5 := by
      by_cases hi : i < 5
      · exact hi
      · have hge : ([0x1c, 0, 0, 0, 0] : Bytes).length ≤ i := by simp; omega
        rw [List.getElem?_eq_none hge] at h; cases h
    have : hevcLayout mid vps sps pps = [0x1c, 0, 0, 0, 0] ++ (mid ++ [3] ++ hevcArr 32 vps ++ hevcArr 33 sps ++ hevcArr 34 pps) := by
      simp [hevcLayout]
    rw [this, List.getElem?_append_left (by simpa using hi)]; exact h
  have g0 := g 0 _ rfl; have g1 := g 1 _ rfl; have g2 := g 2 _ rfl; have g3 := g 3 _ rfl; have g4 := g 4 _ rfl
  have c1 : ¬ ((hevcLayout mid vps sps pps).length < 5) := by omega
  have c2 : ¬ ((hevcLayout mid vps sps pps).length < 33) := by omega
  simp [hevcParse, idx?, g0, g1, g2, g3, g4, c1, c2, hr]

theorem hvcArrays_one (t : UInt8) (u rest : Bytes) (n : Nat) (ht : t.toNat < 64) (hu : u.length < 65536) :
    ConfigRecord.hvcArrays (n + 1) (hevcArr t u ++ rest) =
      (ConfigRecord.hvcArrays n rest).map fun (as, r') => ({ completeness := false, nalType := t.toNat, nalus := [u] } :: as, r') := by
  have r1 : rd16 (0 : UInt8) 1 = 1 := by decide
  have hc : ¬ (t.toNat / 64 % 2 ≠ 0) := by omega
  have h128 : (t.toNat / 128 = 1) = False := by simp; omega
  have hm : t.toNat % 64 = t.toNat := Nat.mod_eq_of_lt ht
  simp only [hevcArr, be16, List.cons_append, List.nil_append, List.append_assoc, ConfigRecord.hvcArrays, hc, if_false, r1,
    nalus16_one u rest hu, hm, h128, decide_false]

/-- the ISO/IEC 14496-15 HEVCDecoderConfigurationRecord reader on the bytes lal builds -/
theorem hvcC_layout (mid vps sps pps : Bytes) (hm : mid.length = 22) (hres : HvcReserved mid)
    (hv : vps.length < 65536) (hs : sps.length < 65536) (hp : pps.length < 65536) :
    ∃ r, ConfigRecord.hevcSeqHeader (hevcLayout mid vps sps pps) = some r
      ∧ r.ofType 32 = [vps] ∧ r.ofType 33 = [sps] ∧ r.ofType 34 = [pps] ∧ r.arrays.length = 3 := by
  obtain ⟨m0, m13, m15, m16, m17, m18⟩ := hres
  have e : hevcLayout mid vps sps pps = 0x1c :: 0 :: 0 :: 0 :: 0 :: (mid ++ 3 :: (hevcArr 32 vps ++ (hevcArr 33 sps ++ (hevcArr 34 pps ++ [])))) := by
    simp [hevcLayout]
  have hlen : ¬ ((mid ++ 3 :: (hevcArr 32 vps ++ (hevcArr 33 sps ++ (hevcArr 34 pps ++ [])))).length < 23) := by
    simp [hm]; omega
  have g : ∀ i, i < 22 → (mid ++ 3 :: (hevcArr 32 vps ++ (hevcArr 33 sps ++ (hevcArr 34 pps ++ [])))).getD i 0 = mid.getD i 0 := by
    intro i hi
    simp only [List.getD_eq_getElem?_getD]
    rw [List.getElem?_append_left (by omega)]
  have g22 : (mid ++ 3 :: (hevcArr 32 vps ++ (hevcArr 33 sps ++ (hevcArr 34 pps ++ [])))).getD 22 0 = 3 := by
    simp only [List.getD_eq_getElem?_getD]
    rw [List.getElem?_append_right (by omega)]
    simp [hm]
  have hd : (mid ++ 3 :: (hevcArr 32 vps ++ (hevcArr 33 sps ++ (hevcArr 34 pps ++ [])))).drop 23 =
      hevcArr 32 vps ++ (hevcArr 33 sps ++ (hevcArr 34 pps ++ [])) := by
    rw [show mid ++ 3 :: (hevcArr 32 vps ++ (hevcArr 33 sps ++ (hevcArr 34 pps ++ []))) =
        (mid ++ [3]) ++ (hevcArr 32 vps ++ (hevcArr 33 sps ++ (hevcArr 34 pps ++ []))) by simp]
    exact List.drop_left' (by simp [hm])
  have harr : ConfigRecord.hvcArrays 3 (hevcArr 32 vps ++ (hevcArr 33 sps ++ (hevcArr 34 pps ++ []))) =
      some ([{ completeness := false, nalType := 32, nalus := [vps] }, { completeness := false, nalType := 33, nalus := [sps] },
             { completeness := false, nalType := 34, nalus := [pps] }], []) := by
    rw [hvcArrays_one 32 vps _ 2 (by decide) hv, hvcArrays_one 33 sps _ 1 (by decide) hs, hvcArrays_one 34 pps _ 0 (by decide) hp]
    rfl
  have t3 : (3 : UInt8).toNat = 3 := by decide
  have hcond : ¬ ((mid.getD 0 0).toNat ≠ 1 ∨ (mid.getD 13 0).toNat / 16 ≠ 15 ∨ (mid.getD 15 0).toNat / 4 ≠ 63 ∨ (mid.getD 16 0).toNat / 4 ≠ 63
      ∨ (mid.getD 17 0).toNat / 8 ≠ 31 ∨ (mid.getD 18 0).toNat / 8 ≠ 31) := by
    have m0' : (mid.getD 0 0).toNat = 1 := by rw [m0]; rfl
    omega
  refine ⟨{ profileSpace := (mid.getD 1 0).toNat / 64, tier := (mid.getD 1 0).toNat / 32 % 2, profileIdc := (mid.getD 1 0).toNat % 32,
             level := (mid.getD 12 0).toNat, lengthSize := (mid.getD 21 0).toNat % 4 + 1,
             arrays := [{ completeness := false, nalType := 32, nalus := [vps] }, { completeness := false, nalType := 33, nalus := [sps] },
                        { completeness := false, nalType := 34, nalus := [pps] }] }, ?_, ?_⟩
  · rw [e]
    simp only [ConfigRecord.hevcSeqHeader, ConfigRecord.videoTagHeader, ConfigRecord.hvcC, hlen, if_false,
      g 0 (by omega), g 1 (by omega), g 12 (by omega), g 13 (by omega), g 15 (by omega), g 16 (by omega), g 17 (by omega), g 18 (by omega), g 21 (by omega), g22, hd, harr, t3, hcond]
    have d : ¬ ((28 : UInt8).toNat % 16 ≠ 12 ∨ (0 : UInt8).toNat ≠ 0) := by decide
    simp only [d, if_false]
  · simp [ConfigRecord.HvcC.ofType]

end Lal.SeqHeader
