import LalModel.Proof.TsContent
/-
  How the remuxer drives its observer: the observer's final state is what a sequence of well-bracketed `OnTsPackets`
  calls makes of it — each call possibly with audio frames flushed from inside it at its two flush points — and the
  order in which the calls finish is the order of the recorded outputs. For every observer.
-/
namespace Lal.TsObserver
open Lal Lal.TsRmx Lal.TsScenario

section
variable {σ : Type} (obs : Observer σ)

/-- one `OnTsPackets(it)` during which the audio frames `n1`, `n2` were flushed (each handled by a nested, flush-free callback) -/
def ocall (o : σ) (it : Item) (n1 n2 : List Item) : σ :=
  let e1 := obs.enter1 o it
  let o1 := n1.foldl obs.whole e1.1
  let e2 := obs.enter2 o1 e1.2.1 it
  let o2 := n2.foldl obs.whole e2.1
  obs.leave o2 it

def ocalls : σ → List (Item × List Item × List Item) → σ
  | o, [] => o
  | o, (it, n1, n2) :: r => ocalls (ocall obs o it n1 n2) r

def leaveOrder : List (Item × List Item × List Item) → List Item
  | [] => []
  | (it, n1, n2) :: r => n1 ++ n2 ++ [it] ++ leaveOrder r

def itemsOf : List Out → List Item
  | [] => []
  | .patpmt _ :: r => itemsOf r
  | .ts i :: r => i :: itemsOf r

theorem itemsOf_append (a b : List Out) : itemsOf (a ++ b) = itemsOf a ++ itemsOf b := by
  induction a with
  | nil => rfl
  | cons x xs ih => cases x <;> simp [itemsOf, ih]

theorem ocalls_append (o : σ) (a b : List (Item × List Item × List Item)) : ocalls obs o (a ++ b) = ocalls obs (ocalls obs o a) b := by
  induction a generalizing o with
  | nil => rfl
  | cons c cs ih => obtain ⟨it, n1, n2⟩ := c; simp only [List.cons_append, ocalls, ih]

theorem leaveOrder_append (a b : List (Item × List Item × List Item)) : leaveOrder (a ++ b) = leaveOrder a ++ leaveOrder b := by
  induction a with
  | nil => rfl
  | cons c cs ih => obtain ⟨it, n1, n2⟩ := c; simp only [List.cons_append, leaveOrder, ih, List.append_assoc]

/-- the observer went from `o` to `o'` through calls that finished in the order of `out` -/
def Traced (o : σ) (out : List Out) (o' : σ) : Prop := ∃ cs, o' = ocalls obs o cs ∧ leaveOrder cs = itemsOf out

theorem traced_refl (o : σ) : Traced obs o [] o := ⟨[], rfl, rfl⟩

theorem traced_trans {o o1 o2 : σ} {a b : List Out} (h1 : Traced obs o a o1) (h2 : Traced obs o1 b o2) : Traced obs o (a ++ b) o2 := by
  obtain ⟨c1, e1, l1⟩ := h1
  obtain ⟨c2, e2, l2⟩ := h2
  exact ⟨c1 ++ c2, by rw [ocalls_append, ← e1, e2], by rw [leaveOrder_append, itemsOf_append, l1, l2]⟩

/-- `FlushAudio()`: nothing, or one audio frame handled by a flush-free callback -/
theorem flushAudio_fold (s : St) (o : σ) :
    (flushAudio obs s o).2.1 = (itemsOf (flushAudio obs s o).2.2).foldl obs.whole o := by
  unfold flushAudio
  split
  · rfl
  · rfl

theorem flushAudio_traced (s : St) (o : σ) : Traced obs o (flushAudio obs s o).2.2 (flushAudio obs s o).2.1 := by
  unfold flushAudio
  split
  · exact traced_refl obs o
  · simp only [audioFrame]
    exact ⟨[(_, [], [])], rfl, rfl⟩

theorem maybe_fold (s : St) (o : σ) (b : Prop) [Decidable b] :
    (if b then flushAudio obs s o else (s, o, [])).2.1 = (itemsOf (if b then flushAudio obs s o else (s, o, [])).2.2).foldl obs.whole o := by
  split
  · exact flushAudio_fold obs s o
  · rfl

theorem maybe_traced (s : St) (o : σ) (b : Prop) [Decidable b] :
    Traced obs o (if b then flushAudio obs s o else (s, o, [])).2.2 (if b then flushAudio obs s o else (s, o, [])).2.1 := by
  split
  · exact flushAudio_traced obs s o
  · exact traced_refl obs o

theorem videoFrame_traced (s : St) (o : σ) (ts : Nat) (raw : Bytes) (key : Bool) (c : Nat) :
    Traced obs o (videoFrame obs s o ts raw key c).2.2 (videoFrame obs s o ts raw key c).2.1 := by
  unfold videoFrame
  simp only []
  generalize hr0 : (if !s.cache.isEmpty ∧ s.cacheFirst + Gen.maxAudioCacheDelayByVideo < ts * 90 then flushAudio obs s o else (s, o, [])) = r0
  have t0 : Traced obs o r0.2.2 r0.2.1 := by rw [← hr0]; exact maybe_traced obs s o _
  generalize hbd : (key && (r0.1.asc.isNone || !r0.1.opened || !r0.1.cache.isEmpty)) = bd
  generalize hs1 : ({ r0.1 with baseV := some (rebase r0.1.baseV (ts * 90)).1, opened := r0.1.opened || bd } : St) = s1
  generalize hf : ({ pts := (rebase r0.1.baseV (ts * 90)).2 + 90 * c, dts := (rebase r0.1.baseV (ts * 90)).2, cc := r0.1.videoCc, pid := Gen.tsPidVideo, sid := Gen.tsStreamIdVideo, key := key, raw := raw } : Ts.Frame) = f
  generalize hit : ({ frame := f, boundary := bd } : Item) = it
  generalize he1 : obs.enter1 r0.2.1 it = e1
  generalize hr1 : (if e1.2.2 = true then flushAudio obs s1 e1.1 else (s1, e1.1, [])) = r1
  have f1 : r1.2.1 = (itemsOf r1.2.2).foldl obs.whole e1.1 := by rw [← hr1]; exact maybe_fold obs s1 e1.1 _
  generalize he2 : obs.enter2 r1.2.1 e1.2.1 it = e2
  generalize hr2 : (if e2.2 = true then flushAudio obs r1.1 e2.1 else (r1.1, e2.1, [])) = r2
  have f2 : r2.2.1 = (itemsOf r2.2.2).foldl obs.whole e2.1 := by rw [← hr2]; exact maybe_fold obs r1.1 e2.1 _
  have tcall : Traced obs r0.2.1 (r1.2.2 ++ r2.2.2 ++ [.ts it]) (obs.leave r2.2.1 it) := by
    refine ⟨[(it, itemsOf r1.2.2, itemsOf r2.2.2)], ?_, ?_⟩
    · simp only [ocalls, ocall, he1, ← f1, he2, ← f2]
    · simp [leaveOrder, itemsOf_append, itemsOf]
  have := traced_trans obs t0 tcall
  simpa [List.append_assoc] using this

theorem onPop_traced (s : St) (o : σ) (m : Msg) : Traced obs o (onPop obs s o m).2.2 (onPop obs s o m).2.1 := by
  unfold onPop
  split
  · unfold feedAudio
    split
    · exact traced_refl obs o
    · exact traced_refl obs o
    · simp only []
      exact maybe_traced obs s o _
    · exact flushAudio_traced obs _ o
  · split
    · unfold feedVideo
      split
      · exact traced_refl obs o
      · exact traced_refl obs o
      · exact videoFrame_traced obs _ o _ _ _ _
    · exact traced_refl obs o

theorem popAll_traced : ∀ (ms : List Msg) (s : St) (o : σ), Traced obs o (popAll obs s o ms).2.2 (popAll obs s o ms).2.1 := by
  intro ms
  induction ms with
  | nil => intro s o; exact traced_refl obs o
  | cons m ms ih =>
    intro s o
    simp only [popAll]
    exact traced_trans obs (onPop_traced obs s o m) (ih _ _)

/-- a run: either nothing has been sent and the observer has not been called, or it got the PAT/PMT — the one recorded
    in the output — and then well-bracketed `OnTsPackets` calls finishing in the order of the output -/
def RunTraced (o : σ) (out : List Out) (o' : σ) : Prop :=
  (out = [] ∧ o' = o) ∨ (∃ b rest, out = .patpmt b :: rest ∧ Traced obs (obs.patpmt o b) rest o')

theorem step_traced (s : St) (o : σ) (e : Ev) : (s.done = true → Traced obs o (step obs s o e).2.2 (step obs s o e).2.1)
    ∧ (s.done = false → s.cache = [] →
        ((step obs s o e).2.2 = [] ∧ (step obs s o e).2.1 = o ∧ (step obs s o e).1.done = false ∧ (step obs s o e).1.cache = [])
        ∨ (∃ b rest, (step obs s o e).2.2 = .patpmt b :: rest ∧ Traced obs (obs.patpmt o b) rest (step obs s o e).2.1
             ∧ (step obs s o e).1.done = true)) := by
  cases e with
  | flush =>
    have hst : step obs s o .flush = flushAudio obs s o := rfl
    rw [hst]
    refine ⟨fun _ => flushAudio_traced obs s o, fun hd hc => Or.inl ?_⟩
    have hemp : s.cache.isEmpty = true := by rw [hc]; rfl
    have hfl : flushAudio obs s o = (s, o, []) := by unfold flushAudio; rw [if_pos hemp]
    rw [hfl]; exact ⟨rfl, rfl, hd, hc⟩
  | msg m =>
    have hst : step obs s o (.msg m) = feed obs s o m := rfl
    rw [hst]
    unfold feed
    refine ⟨fun hd => by rw [if_pos hd]; exact onPop_traced obs s o m, fun hd hc => ?_⟩
    have hd' : ¬ s.done = true := by rw [hd]; simp
    rw [if_neg hd']
    simp only []
    generalize hs1 : (if m.typ = 8 then { ({ s with queue := s.queue ++ [m] } : St) with audioId := (audioCodecId m.payload : Nat) }
        else if m.typ = 9 then { ({ s with queue := s.queue ++ [m] } : St) with videoId := (videoCodecId m.payload : Nat) }
        else ({ s with queue := s.queue ++ [m] } : St)) = s1
    have hfields : s1.cache = s.cache ∧ s1.done = s.done := by
      rw [← hs1]; split
      · exact ⟨rfl, rfl⟩
      · split <;> exact ⟨rfl, rfl⟩
    have hdrain : ∃ b rest, (drain obs s1 o).2.2 = .patpmt b :: rest ∧ Traced obs (obs.patpmt o b) rest (drain obs s1 o).2.1
        ∧ (drain obs s1 o).1.done = true := by
      unfold drain
      simp only []
      exact ⟨_, _, rfl, popAll_traced obs _ _ _, by rw [TsContent.popAll_done]⟩
    split
    · exact Or.inr hdrain
    · split
      · exact Or.inr hdrain
      · exact Or.inl ⟨rfl, rfl, by rw [hfields.2]; exact hd, by rw [hfields.1]; exact hc⟩

end

end Lal.TsObserver
