import LalModel.Proof.Av2Rtmp
/-
  The metadata message of AvPacket2RtmpRemuxer: emitted exactly once, immediately before the first audio / video
  message, and nothing else depends on whether it has been emitted (C07 `metadata_first`).
-/
namespace Lal.Av2Rtmp
open Lal Lal.Av

/-- the state with the metadata marked as emitted -/
def done (st : St) : St := { st with hasEmittedMetadata := true }

/-- the metadata message `emitRtmpAvMsg` builds from the codec types known at that moment -/
def metaMsg (st : St) : Msg :=
  { typ := 18, csid := 5, msid := 1, ts := 0,
    payload := buildMetadata (if st.audioType = ptAac then 10 else -1)
      (if st.videoType = ptAvc then 7 else if st.videoType = ptHevc then 12 else -1) }

/-- the relation between a run that still owes the metadata and the run that does not: same state up to the flag,
    same messages up to the metadata in front of the first one -/
def Rel (a b : St × List Msg) (st : St) : Prop :=
  done a.1 = b.1 ∧ a.2 = (if st.hasEmittedMetadata ∨ b.2 = [] then [] else [metaMsg st]) ++ b.2
  ∧ (∀ m ∈ b.2, m.typ ≠ 18) ∧ (a.1.hasEmittedMetadata = (st.hasEmittedMetadata || !b.2.isEmpty))
  ∧ a.1.audioType = st.audioType ∧ a.1.videoType = st.videoType

theorem done_done (st : St) : done (done st) = done st := rfl

theorem emit_rel (st : St) (isAudio : Bool) (p : Bytes) (ts : Int) :
    Rel (emit st isAudio p ts) (emit (done st) isAudio p ts) st := by
  unfold Rel emit done metaMsg
  by_cases h : st.hasEmittedMetadata = true
  · simp only [h, if_true]
    refine ⟨by first | rfl | trivial, by simp, ?_, by simp, by first | rfl | trivial, by first | rfl | trivial⟩
    intro m hm
    simp only [List.mem_singleton] at hm
    subst hm
    cases isAudio <;> simp
  · have h' : st.hasEmittedMetadata = false := by simpa using h
    simp only [h', Bool.false_eq_true, if_false, if_true]
    refine ⟨by first | rfl | trivial, by simp, ?_, by simp, by first | rfl | trivial, by first | rfl | trivial⟩
    intro m hm
    simp only [List.mem_singleton] at hm
    subst hm
    cases isAudio <;> simp

theorem metaMsg_eq {a b : St} (h1 : a.audioType = b.audioType) (h2 : a.videoType = b.videoType) : metaMsg a = metaMsg b := by
  unfold metaMsg; rw [h1, h2]

/-- sequential composition -/
theorem rel_comp {st : St} {sa1 sb1 sa2 sb2 : St} {oa1 ob1 oa2 ob2 : List Msg}
    (r1 : Rel (sa1, oa1) (sb1, ob1) st) (r2 : Rel (sa2, oa2) (sb2, ob2) sa1) :
    Rel (sa2, oa1 ++ oa2) (sb2, ob1 ++ ob2) st := by
  obtain ⟨_, a2, a3, a4, a5, a6⟩ := r1
  obtain ⟨b1, b2, b3, b4, b5, b6⟩ := r2
  simp only [] at a2 a3 a4 a5 a6 b1 b2 b3 b4 b5 b6
  have hm : metaMsg sa1 = metaMsg st := metaMsg_eq a5 a6
  refine ⟨b1, ?_, ?_, ?_, b5.trans a5, b6.trans a6⟩
  · simp only []
    rw [a2, b2, hm, a4]
    by_cases hs : st.hasEmittedMetadata = true
    · simp [hs]
    · have hs' : st.hasEmittedMetadata = false := by simpa using hs
      by_cases h1 : ob1 = []
      · subst h1
        simp [hs']
      · simp [hs', h1]
  · intro m hm'
    rcases List.mem_append.mp hm' with h | h
    · exact a3 m h
    · exact b3 m h
  · simp only []
    rw [b4, a4]
    cases st.hasEmittedMetadata <;> cases h1 : ob1 <;> cases h2 : ob2 <;> simp

theorem rel_refl (st : St) : Rel (st, []) (done st, []) st := by
  unfold Rel
  simp

theorem setPs_done (hevc : Bool) (st : St) (t : Nat) (n : Bytes) : done (setPs hevc st t n) = setPs hevc (done st) t n := by
  unfold setPs done
  cases hevc <;> simp <;> (repeat' split) <;> rfl

theorem psComplete_done (hevc : Bool) (st : St) : psComplete hevc (done st) = psComplete hevc st := rfl
theorem buildSh_done (hevc : Bool) (st : St) : buildSh hevc (done st) = buildSh hevc st := rfl

theorem rel_of_same {st st1 : St} (hs : sameOpts st1 st) (hm : st1.hasEmittedMetadata = st.hasEmittedMetadata) :
    Rel (st1, []) (done st1, []) st := by
  unfold Rel
  simp only [List.isEmpty_nil, Bool.not_true, Bool.or_false, List.append_nil, or_true, if_true, List.not_mem_nil, false_imp_iff,
    implies_true, true_and]
  exact ⟨hm, hs.2.2.1, hs.2.2.2.1⟩

/-- weaken the reference state of a relation to one with the same flag and codec types -/
theorem rel_base {a b : St × List Msg} {st st0 : St} (r : Rel a b st) (hm : st.hasEmittedMetadata = st0.hasEmittedMetadata)
    (h1 : st.audioType = st0.audioType) (h2 : st.videoType = st0.videoType) : Rel a b st0 := by
  obtain ⟨e1, e2, e3, e4, e5, e6⟩ := r
  refine ⟨e1, ?_, e3, ?_, e5.trans h1, e6.trans h2⟩
  · rw [e2, hm, metaMsg_eq h1 h2]
  · rw [e4, hm]

/-- one iteration of the loop, run owing the metadata and run not owing it -/
theorem step_rel (var : Variant) (hevc : Bool) (ts : Int) (st : St) (oa ob : List Msg) (acc : VAcc) (n : Bytes) :
    ∃ da db, (step var hevc ts (st, oa, acc) n).2.1 = oa ++ da
      ∧ (step var hevc ts (done st, ob, acc) n).2.1 = ob ++ db
      ∧ Rel ((step var hevc ts (st, oa, acc) n).1, da) ((step var hevc ts (done st, ob, acc) n).1, db) st
      ∧ (step var hevc ts (st, oa, acc) n).2.2 = (step var hevc ts (done st, ob, acc) n).2.2 := by
  unfold step
  simp only []
  by_cases ha : naluTypeOf hevc (n.headD 0) = audType hevc
  · simp only [ha, if_true]
    exact ⟨[], [], by simp, by simp, rel_refl st, trivial⟩
  · simp only [ha, if_false]
    by_cases hp : isPsType hevc (naluTypeOf hevc (n.headD 0)) = true
    · simp only [hp, if_true, ← setPs_done, psComplete_done, buildSh_done]
      have hs := setPs_same hevc st (naluTypeOf hevc (n.headD 0)) n
      by_cases hc : psComplete hevc (setPs hevc st (naluTypeOf hevc (n.headD 0)) n) = true
      · simp only [hc, if_true]
        cases hb : buildSh hevc (setPs hevc st (naluTypeOf hevc (n.headD 0)) n) with
        | error e =>
          simp only []
          exact ⟨[], [], by simp, by simp, rel_of_same hs.1 hs.2, trivial⟩
        | ok vsh =>
          simp only []
          have re := emit_rel (setPs hevc st (naluTypeOf hevc (n.headD 0)) n) false vsh ts
          refine ⟨_, _, rfl, rfl, ?_, trivial⟩
          have re2 := rel_base re hs.2 hs.1.2.2.1 hs.1.2.2.2.1
          obtain ⟨e1, e2, e3, e4, e5, e6⟩ := re2
          refine ⟨?_, e2, e3, e4, e5, e6⟩
          simp only [] at e1 ⊢
          rw [← e1]
          rfl
      · simp only [hc, Bool.false_eq_true, if_false]
        exact ⟨[], [], by simp, by simp, rel_of_same hs.1 hs.2, trivial⟩
    · simp only [hp, Bool.false_eq_true, if_false]
      exact ⟨[], [], by simp, by simp, rel_refl st, trivial⟩

/-- the loop of the video branch, run owing the metadata and run not owing it -/
theorem fold_rel (var : Variant) (hevc : Bool) (ts : Int) : ∀ (nals : List Bytes) (st : St) (oa ob : List Msg) (acc : VAcc),
    ∃ da db, (nals.foldl (step var hevc ts) (st, oa, acc)).2.1 = oa ++ da
      ∧ (nals.foldl (step var hevc ts) (done st, ob, acc)).2.1 = ob ++ db
      ∧ Rel ((nals.foldl (step var hevc ts) (st, oa, acc)).1, da) ((nals.foldl (step var hevc ts) (done st, ob, acc)).1, db) st
      ∧ (nals.foldl (step var hevc ts) (st, oa, acc)).2.2 = (nals.foldl (step var hevc ts) (done st, ob, acc)).2.2
  | [], st, oa, ob, acc => ⟨[], [], by simp, by simp, rel_refl st, rfl⟩
  | n :: ns, st, oa, ob, acc => by
    simp only [List.foldl_cons]
    obtain ⟨d1, d2, s1, s2, s3, s4⟩ := step_rel var hevc ts st oa ob acc n
    -- name the two results of the step
    have ea : step var hevc ts (st, oa, acc) n = ((step var hevc ts (st, oa, acc) n).1, oa ++ d1, (step var hevc ts (st, oa, acc) n).2.2) := by
      rw [← s1]
    have eb : step var hevc ts (done st, ob, acc) n = (done (step var hevc ts (st, oa, acc) n).1, ob ++ d2, (step var hevc ts (st, oa, acc) n).2.2) := by
      rw [← s2, s4, s3.1]
    rw [ea, eb]
    obtain ⟨d3, d4, t1, t2, t3, t4⟩ := fold_rel var hevc ts ns (step var hevc ts (st, oa, acc) n).1 (oa ++ d1) (ob ++ d2) (step var hevc ts (st, oa, acc) n).2.2
    exact ⟨d1 ++ d3, d2 ++ d4, by rw [t1, List.append_assoc], by rw [t2, List.append_assoc], rel_comp s3 t3, t4⟩

theorem feedVideoNals_rel (var : Variant) (hevc : Bool) (ts : Int) (nals : List Bytes) (st : St) :
    Rel (feedVideoNals var st hevc ts nals) (feedVideoNals var (done st) hevc ts nals) st := by
  obtain ⟨da, db, h1, h2, h3, h4⟩ := fold_rel var hevc ts nals st [] [] {}
  unfold feedVideoNals
  simp only []
  rw [← h4]
  by_cases hb : (nals.foldl (step var hevc ts) (st, [], {})).2.2.body ≠ []
  · rw [if_pos hb, if_pos hb]
    rw [h1, h2, ← h3.1]
    exact rel_comp h3 (emit_rel _ false _ ts)
  · rw [if_neg hb, if_neg hb]
    rw [h1, h2]
    exact h3

theorem feedAvPacket_rel (var : Variant) (st : St) (pkt : AvPacket) :
    Rel (feedAvPacket var st pkt) (feedAvPacket var (done st) pkt) st := by
  unfold feedAvPacket
  have hvf : (done st).videoFormat = st.videoFormat := rfl
  have haf : (done st).audioFormat = st.audioFormat := rfl
  have had : (done st).hasAdts2Asc = st.hasAdts2Asc := rfl
  rw [hvf, haf, had]
  by_cases hv : pkt.pt = ptAvc ∨ pkt.pt = ptHevc
  · -- video
    simp only [hv, if_true]
    by_cases hf : st.videoFormat = 1
    · simp only [hf, if_true]
      by_cases he : (Nalu.splitNaluAvcc pkt.payload).2 = true
      · simp only [he, if_true]; exact rel_refl st
      · simp only [he, Bool.false_eq_true, if_false]; exact feedVideoNals_rel var _ pkt.ts _ st
    · simp only [hf, if_false]
      by_cases he : (Nalu.splitNaluAnnexb pkt.payload).2 = true
      · simp only [he, if_true]; exact rel_refl st
      · simp only [he, Bool.false_eq_true, if_false]; exact feedVideoNals_rel var _ pkt.ts _ st
  · simp only [hv, if_false]
    by_cases hA : pkt.pt = ptAac
    · simp only [hA, if_true]
      by_cases h1 : st.audioFormat = 1
      · simp only [h1, if_true]; exact emit_rel st true _ pkt.ts
      · simp only [h1, if_false]
        by_cases h2 : st.audioFormat = 2
        · simp only [h2, if_true]
          by_cases ha : st.hasAdts2Asc = true
          · simp only [ha, Bool.not_true, Bool.false_eq_true, if_false]
            by_cases hl : pkt.payload.length < 12
            · simp only [hl, if_true]; exact rel_refl st
            · simp only [hl, if_false, List.nil_append]
              exact emit_rel st true ([0xaf, 1] ++ pkt.payload.drop 7) pkt.ts
          · have ha' : st.hasAdts2Asc = false := by simpa using ha
            simp only [ha', Bool.not_false, if_true]
            have r1 := emit_rel st true ((Aac.makeAudioDataSeqHeaderWithAdtsHeader pkt.payload).toOption.getD []) pkt.ts
            have r1' : Rel ({ (emit st true ((Aac.makeAudioDataSeqHeaderWithAdtsHeader pkt.payload).toOption.getD []) pkt.ts).1 with hasAdts2Asc := true },
                            (emit st true ((Aac.makeAudioDataSeqHeaderWithAdtsHeader pkt.payload).toOption.getD []) pkt.ts).2)
                           ({ (emit (done st) true ((Aac.makeAudioDataSeqHeaderWithAdtsHeader pkt.payload).toOption.getD []) pkt.ts).1 with hasAdts2Asc := true },
                            (emit (done st) true ((Aac.makeAudioDataSeqHeaderWithAdtsHeader pkt.payload).toOption.getD []) pkt.ts).2) st := by
              obtain ⟨e1, e2, e3, e4, e5, e6⟩ := r1
              refine ⟨?_, e2, e3, e4, e5, e6⟩
              simp only [] at e1 ⊢
              rw [← e1]; rfl
            by_cases hl : pkt.payload.length < 12
            · simp only [hl, if_true]; exact r1'
            · simp only [hl, if_false]
              have r2 := emit_rel { (emit st true ((Aac.makeAudioDataSeqHeaderWithAdtsHeader pkt.payload).toOption.getD []) pkt.ts).1 with hasAdts2Asc := true }
                true ([0xaf, 1] ++ pkt.payload.drop 7) pkt.ts
              have hd : done { (emit st true ((Aac.makeAudioDataSeqHeaderWithAdtsHeader pkt.payload).toOption.getD []) pkt.ts).1 with hasAdts2Asc := true }
                  = { (emit (done st) true ((Aac.makeAudioDataSeqHeaderWithAdtsHeader pkt.payload).toOption.getD []) pkt.ts).1 with hasAdts2Asc := true } := r1'.1
              rw [hd] at r2
              exact rel_comp r1' r2
        · simp only [h2, if_false]; exact rel_refl st
    · simp only [hA, if_false]
      by_cases h1 : pkt.pt = ptG711A
      · simp only [h1, if_true]; exact emit_rel st true _ pkt.ts
      · simp only [h1, if_false]
        by_cases h2 : pkt.pt = ptG711U
        · simp only [h2, if_true]; exact emit_rel st true _ pkt.ts
        · simp only [h2, if_false]
          by_cases h3 : pkt.pt = ptOpus
          · simp only [h3, if_true]; exact emit_rel st true _ pkt.ts
          · simp only [h3, if_false]; exact rel_refl st

/-- Any sequence of packets: the run that still owes the metadata produces the messages of the run that does not,
    with the one metadata message in front of the first of them. -/
theorem feedAll_rel (var : Variant) : ∀ (pkts : List AvPacket) (st : St),
    Rel (feedAll var st pkts) (feedAll var (done st) pkts) st
  | [], st => rel_refl st
  | p :: ps, st => by
    simp only [feedAll]
    have r1 := feedAvPacket_rel var st p
    have r2 := feedAll_rel var ps (feedAvPacket var st p).1
    rw [r1.1] at r2
    exact rel_comp r1 r2

end Lal.Av2Rtmp