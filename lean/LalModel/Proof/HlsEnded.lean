import LalModel.Proof.HlsActs
/- When the stream ends the live playlist is finalised with an end marker. -/
namespace Lal.HlsC
open Lal Lal.Hls Lal.Fs

variable {c : Cfg}

/-- no live playlist, or one that carries `#EXT-X-ENDLIST` -/
def LiveEnded (d : Dir) : Prop :=
  d .live = none ∨ ∃ pl, d .live = some { content := .doc pl, isOpen := false } ∧ pl.ended = true

theorem applyAll_nil (d : Dir) : applyAll under d [] = d := rfl
theorem applyAll_cons (d : Dir) (op : FOp) (ops : List FOp) :
    applyAll under d (op :: ops) = applyAll under (Fs.apply under d op) ops := rfl

theorem applyAll_noSegNoLive_live : ∀ (ops : List FOp) (d : Dir), (∀ op ∈ ops, NoSegNoLive op) →
    applyAll under d ops .live = d .live
  | [], _, _ => rfl
  | op :: ops, d, h => by
    rw [applyAll_cons, applyAll_noSegNoLive_live ops _ (fun op' h' => h op' (List.mem_cons_of_mem _ h'))]
    exact (h op List.mem_cons_self d).1

theorem closeTail_live (m1 : Mux) (d1 d : Dir) : applyAll under d (closeTail c m1 d1).2 .live = d .live := by
  unfold closeTail
  split
  · obtain ⟨r, ops, hw, hns⟩ := writeRecord_spec (c := c) m1 (d1 .record)
    rw [hw]; exact applyAll_noSegNoLive_live ops d hns
  · split
    · split
      · rename_i now' id' _
        show Fs.set d (.seg now' id') none .live = _
        exact set_other _ _ (by simp)
      · rfl
    · rfl

theorem closeOps1_live (m : Mux) (l : Bool) (d : Dir) :
    applyAll under d (closeOps1 c m l) .live = some { content := .doc (livePlaylist c (closedMux c m) l), isOpen := false } := by
  show Fs.apply under (Fs.apply under (Fs.apply under d (.close m.cur)) (.writeFile .liveBak _)) (.rename .liveBak .live) .live = _
  have h2 : Fs.apply under (Fs.apply under d (.close m.cur)) (.writeFile .liveBak (livePlaylist c (closedMux c m) l)) .liveBak
      = some { content := .doc (livePlaylist c (closedMux c m) l), isOpen := false } := set_same _ _ _
  rw [apply_rename_some h2, set_same]

/-- `Dispose` with an open fragment leaves a live playlist that ends with `#EXT-X-ENDLIST`. -/
theorem dispose_live (m : Mux) (d : Dir) (ho : m.opened = true) :
    ∃ pl, applyAll under d (closeFragment c true m d).2 .live = some { content := .doc pl, isOpen := false } ∧ pl.ended = true := by
  rw [closeFragment_eq true d ho]
  refine ⟨livePlaylist c (closedMux c m) true, ?_, rfl⟩
  show applyAll under d (closeOps1 c m true ++ _) .live = _
  rw [applyAll_append, closeTail_live, closeOps1_live]

theorem feed_noop (now : Nat) (f : Frame) (m : Mux) (d : Dir) (pend : Option Frame)
    (ho : m.opened = false) (hb : f.boundary = false) : feed c now f m d pend = (m, pend, []) := by
  unfold feed feedWith updateFragment
  simp [ho, hb]

/-- Whenever no fragment is open (before the first one, and after unpublish) the live playlist — if there is one — is ended. -/
def EndInv (w : World) : Prop :=
  match w.mux with
  | none => LiveEnded w.dir
  | some m => m.opened = false → LiveEnded w.dir

theorem endInv_step (w : World) (e : Ev) (h : EndInv w) : EndInv (step c w e).1 := by
  cases e with
  | start =>
    cases hm : w.mux with
    | some m0 => simp only [step, hm]; exact h
    | none =>
      simp only [step, hm]
      unfold EndInv at h ⊢
      rw [hm] at h
      simp only []
      intro _; exact h
  | patpmt b =>
    cases hm : w.mux with
    | some m0 =>
      simp only [step, hm]
      unfold EndInv at h ⊢
      rw [hm] at h; exact h
    | none => simp only [step, hm]; exact h
  | pend a =>
    simp only [step]
    unfold EndInv at h ⊢; exact h
  | feed f now =>
    cases hm : w.mux with
    | none => simp only [step, hm]; exact h
    | some m0 =>
      simp only [step, hm]
      unfold EndInv at h ⊢
      rw [hm] at h
      simp only []
      intro hcl
      obtain ⟨as, h1, _, h3, _, _⟩ := feed_acts (c := c) now f m0 w.dir w.pending
      have hop := actsRun_opened (c := c) as m0 w.dir _ h3
      rw [← h1, hcl] at hop
      have hmo : m0.opened = false := by
        cases hx : m0.opened with
        | false => rfl
        | true => rw [hx] at hop; simp at hop
      have hfb : f.boundary = false := by
        cases hx : f.boundary with
        | false => rfl
        | true => rw [hx] at hop; simp at hop
      rw [feed_noop now f m0 w.dir w.pending hmo hfb]
      exact h hmo
  | dispose =>
    cases hm : w.mux with
    | none => simp only [step, hm]; exact h
    | some m0 =>
      simp only [step, hm]
      unfold EndInv at h ⊢
      rw [hm] at h
      simp only []
      by_cases ho : m0.opened = true
      · obtain ⟨pl, hl, he⟩ := dispose_live (c := c) m0 w.dir ho
        exact Or.inr ⟨pl, hl, he⟩
      · have ho' : m0.opened = false := by cases hx : m0.opened <;> simp_all
        rw [closeFragment_closed true w.dir ho']
        exact h ho'
  | cleanup =>
    simp only [step]
    split
    · cases hm : w.mux with
      | some m0 => simp only []; exact h
      | none =>
        simp only []
        unfold EndInv
        simp only []
        left
        show Fs.apply under w.dir (.removeAll .dir) .live = none
        simp [Fs.apply, under]
    · exact h

theorem endInv_run : ∀ (evs : List Ev) (w : World), EndInv w → EndInv (runWorld c w evs)
  | [], _, h => h
  | e :: es, w, h => endInv_run es _ (endInv_step w e h)

end Lal.HlsC
