import LalModel.Model.Path
import LalModel.Spec.AccessSpec
/-
  Lemmas for C14 about Model/Path.lean: the model of `filepath.Clean / Join` against its specification
  (normal form, idempotence, same denotation) and the confinement lemmas for `join`.
-/
namespace Lal.Path
open Lal.Str

/-! ### `strings.Split` -/

theorem splitByte_ne_nil (c : UInt8) (s : Bytes) : splitByte c s ≠ [] := by
  induction s with
  | nil => simp [splitByte]
  | cons x r ih =>
    unfold splitByte
    by_cases hx : x = c
    · simp [hx]
    · simp only [if_neg hx]
      split <;> simp

theorem splitByte_noSep {c : UInt8} {s : Bytes} (h : c ∉ s) : splitByte c s = [s] := by
  induction s with
  | nil => rfl
  | cons x r ih =>
    have hx : x ≠ c := fun e => h (by simp [e])
    have hr : c ∉ r := fun e => h (by simp [e])
    unfold splitByte
    simp only [if_neg hx, ih hr]

/-- splitting distributes over a separator -/
theorem splitByte_append_sep (c : UInt8) (a b : Bytes) :
    splitByte c (a ++ c :: b) = splitByte c a ++ splitByte c b := by
  induction a with
  | nil => simp [splitByte]
  | cons x r ih =>
    by_cases hx : x = c
    · simp only [List.cons_append, splitByte, if_pos hx, ih, List.cons_append]
    · simp only [List.cons_append, splitByte, if_neg hx, ih]
      cases hs : splitByte c r with
      | nil => exact absurd hs (splitByte_ne_nil c r)
      | cons l ls => simp

/-- no piece contains the separator -/
theorem splitByte_pieces {c : UInt8} {s : Bytes} : ∀ p ∈ splitByte c s, c ∉ p := by
  induction s with
  | nil => intro p hp; simp [splitByte] at hp; simp [hp]
  | cons x r ih =>
    intro p hp
    unfold splitByte at hp
    by_cases hx : x = c
    · rw [if_pos hx] at hp
      rcases List.mem_cons.mp hp with h | h
      · simp [h]
      · exact ih p h
    · rw [if_neg hx] at hp
      cases hs : splitByte c r with
      | nil => exact absurd hs (splitByte_ne_nil c r)
      | cons l ls =>
        rw [hs] at hp ih
        rcases List.mem_cons.mp hp with h | h
        · rw [h]
          intro hm
          rcases List.mem_cons.mp hm with h1 | h1
          · exact hx h1.symm
          · exact ih l List.mem_cons_self h1
        · exact ih p (List.mem_cons_of_mem _ h)

/-! ### path elements -/

/-- an ordinary path element: not empty, no separator, not `.` or `..` -/
def OkSeg (s : Bytes) : Prop := s ≠ [] ∧ (47 : UInt8) ∉ s ∧ s ≠ dot ∧ s ≠ dotdot

theorem cleanStep_ok {rooted : Bool} {st : List Bytes} {seg : Bytes} (h : OkSeg seg) :
    cleanStep rooted st seg = seg :: st := by
  unfold cleanStep
  have h1 : ¬ (seg = [] ∨ seg = dot) := fun e => e.elim h.1 h.2.2.1
  rw [if_neg h1, if_neg h.2.2.2]

theorem foldl_cleanStep_ok {rooted : Bool} (segs : List Bytes) (hs : ∀ s ∈ segs, OkSeg s) (st : List Bytes) :
    segs.foldl (cleanStep rooted) st = segs.reverse ++ st := by
  induction segs generalizing st with
  | nil => rfl
  | cons a r ih =>
    rw [List.foldl_cons, cleanStep_ok (hs a List.mem_cons_self), ih (fun s h => hs s (List.mem_cons_of_mem _ h))]
    simp

/-! ### the stack invariant: what `norm` returns is in normal form -/

/-- stack (top first) in normal form: ordinary elements on top of a block of `..` that only a relative
    path can have -/
def StackNF (rooted : Bool) (st : List Bytes) : Prop :=
  ∃ body k, st = body ++ List.replicate k dotdot ∧ (∀ s ∈ body, OkSeg s) ∧ (rooted = true → k = 0)

theorem stackNF_nil (rooted : Bool) : StackNF rooted [] := ⟨[], 0, rfl, by simp, fun _ => rfl⟩

theorem stackNF_step {rooted : Bool} {st : List Bytes} (h : StackNF rooted st) (seg : Bytes) (hs : (47 : UInt8) ∉ seg) :
    StackNF rooted (cleanStep rooted st seg) := by
  obtain ⟨body, k, hst, hb, hk⟩ := h
  unfold cleanStep
  by_cases h1 : seg = [] ∨ seg = dot
  · rw [if_pos h1]; exact ⟨body, k, hst, hb, hk⟩
  · rw [if_neg h1]
    by_cases h2 : seg = dotdot
    · rw [if_pos h2]
      cases body with
      | nil =>
        cases k with
        | zero =>
          simp only [List.nil_append, List.replicate_zero] at hst
          subst hst
          cases rooted with
          | true => exact stackNF_nil true
          | false => exact ⟨[], 1, rfl, by simp, by simp⟩
        | succ k =>
          simp only [List.nil_append, List.replicate_succ] at hst
          subst hst
          simp only [if_true]
          exact ⟨[], k + 2, by simp [List.replicate_succ], by simp, fun hr => by have := hk hr; omega⟩
      | cons top body' =>
        simp only [List.cons_append] at hst
        subst hst
        have htop : top ≠ dotdot := (hb top List.mem_cons_self).2.2.2
        simp only [if_neg htop]
        exact ⟨body', k, rfl, fun s h => hb s (List.mem_cons_of_mem _ h), hk⟩
    · rw [if_neg h2]
      have hok : OkSeg seg := ⟨fun e => h1 (Or.inl e), hs, fun e => h1 (Or.inr e), h2⟩
      refine ⟨seg :: body, k, by rw [hst]; rfl, ?_, hk⟩
      intro s hs'
      rcases List.mem_cons.mp hs' with h | h
      · rw [h]; exact hok
      · exact hb s h

theorem stackNF_foldl {rooted : Bool} (segs : List Bytes) (hs : ∀ s ∈ segs, (47 : UInt8) ∉ s) {st : List Bytes}
    (h : StackNF rooted st) : StackNF rooted (segs.foldl (cleanStep rooted) st) := by
  induction segs generalizing st with
  | nil => exact h
  | cons a r ih =>
    exact ih (fun s hm => hs s (List.mem_cons_of_mem _ hm)) (stackNF_step h a (hs a List.mem_cons_self))

/-- normal form of a cleaned path as (rooted, elements): a block of `..` (relative paths only) followed by
    ordinary elements -/
def NF (n : Bool × List Bytes) : Prop :=
  ∃ k body, n.2 = List.replicate k dotdot ++ body ∧ (∀ s ∈ body, OkSeg s) ∧ (n.1 = true → k = 0)

theorem norm_nf (p : Bytes) : NF (norm p) := by
  have h := stackNF_foldl (rooted := isRooted p) (splitByte 47 p) (fun s hs => splitByte_pieces s hs) (stackNF_nil _)
  obtain ⟨body, k, hst, hb, hk⟩ := h
  refine ⟨k, body.reverse, ?_, fun s hs => hb s (List.mem_reverse.mp hs), hk⟩
  simp only [norm, hst, List.reverse_append, List.reverse_replicate]

/-! ### `norm (render n) = n` on normal forms: `Clean` is idempotent -/

theorem dotdot_noSep : (47 : UInt8) ∉ dotdot := by decide

theorem foldl_dotdots (k j : Nat) :
    (List.replicate k dotdot).foldl (cleanStep false) (List.replicate j dotdot) = List.replicate (j + k) dotdot := by
  induction k generalizing j with
  | zero => rfl
  | succ k ih =>
    rw [List.replicate_succ, List.foldl_cons]
    have : cleanStep false (List.replicate j dotdot) dotdot = List.replicate (j + 1) dotdot := by
      unfold cleanStep
      have h1 : ¬ (dotdot = [] ∨ dotdot = dot) := by decide
      rw [if_neg h1, if_pos rfl]
      cases j with
      | zero => rfl
      | succ j => simp [List.replicate_succ]
    rw [this, ih]
    congr 1; omega

theorem foldl_nf {n : Bool × List Bytes} (h : NF n) : n.2.foldl (cleanStep n.1) [] = n.2.reverse := by
  obtain ⟨k, body, hn, hb, hk⟩ := h
  rw [hn, List.foldl_append]
  have h1 : (List.replicate k dotdot).foldl (cleanStep n.1) [] = List.replicate k dotdot := by
    cases hr : n.1 with
    | true => rw [hk hr]; rfl
    | false => have := foldl_dotdots k 0; simpa using this
  rw [h1, foldl_cleanStep_ok body hb]
  simp

theorem splitByte_joinWith (segs : List Bytes) (hne : segs ≠ []) (h : ∀ s ∈ segs, (47 : UInt8) ∉ s) :
    splitByte 47 (joinWith [47] segs) = segs := by
  induction segs with
  | nil => exact absurd rfl hne
  | cons a r ih =>
    cases r with
    | nil => simp only [joinWith]; exact splitByte_noSep (h a List.mem_cons_self)
    | cons b r' =>
      have : joinWith [47] (a :: b :: r') = a ++ 47 :: joinWith [47] (b :: r') := by simp [joinWith]
      rw [this, splitByte_append_sep, splitByte_noSep (h a List.mem_cons_self),
        ih (by simp) (fun s hs => h s (List.mem_cons_of_mem _ hs))]
      rfl

theorem joinWith_head (a : Bytes) (r : List Bytes) (ha : a ≠ []) : (joinWith [47] (a :: r)).head? = a.head? := by
  cases r with
  | nil => rfl
  | cons b r' =>
    have : joinWith [47] (a :: b :: r') = a ++ 47 :: joinWith [47] (b :: r') := by simp [joinWith]
    rw [this]
    cases a with
    | nil => exact absurd rfl ha
    | cons x xs => rfl

theorem nf_noSep {n : Bool × List Bytes} (h : NF n) : ∀ s ∈ n.2, (47 : UInt8) ∉ s := by
  obtain ⟨k, body, hn, hb, _⟩ := h
  intro s hs
  rw [hn] at hs
  rcases List.mem_append.mp hs with h1 | h1
  · rw [(List.mem_replicate.mp h1).2]; exact dotdot_noSep
  · exact (hb s h1).2.1

theorem nf_head_not_rooted {n : Bool × List Bytes} (h : NF n) (a : Bytes) (r : List Bytes) (hn : n.2 = a :: r) :
    a ≠ [] ∧ a.head? ≠ some 47 := by
  have hs := nf_noSep h a (by rw [hn]; exact List.mem_cons_self)
  obtain ⟨k, body, hn', hb, _⟩ := h
  have ha : a ≠ [] := by
    rw [hn] at hn'
    cases k with
    | zero =>
      simp only [List.replicate_zero, List.nil_append] at hn'
      exact (hb a (by rw [← hn']; exact List.mem_cons_self)).1
    | succ k =>
      simp only [List.replicate_succ, List.cons_append, List.cons.injEq] at hn'
      rw [hn'.1]; decide
  refine ⟨ha, ?_⟩
  cases a with
  | nil => exact absurd rfl ha
  | cons x xs =>
    intro e
    simp only [List.head?_cons, Option.some.injEq] at e
    exact hs (by simp [e])

theorem norm_render {n : Bool × List Bytes} (h : NF n) : norm (render n) = n := by
  obtain ⟨r, segs⟩ := n
  have hfold := foldl_nf h
  have hsep := nf_noSep h
  cases r with
  | true =>
    have hr : isRooted (render (true, segs)) = true := by simp [render, isRooted]
    unfold norm
    rw [hr]
    simp only [render, if_true]
    have : splitByte 47 (47 :: joinWith [47] segs) = [] :: splitByte 47 (joinWith [47] segs) := by
      simp [splitByte]
    rw [this, List.foldl_cons]
    have h0 : cleanStep true [] [] = [] := by simp [cleanStep]
    rw [h0]
    cases segs with
    | nil => simp [joinWith, splitByte, cleanStep]
    | cons a rr =>
      rw [splitByte_joinWith (a :: rr) (by simp) hsep]
      simp only at hfold
      rw [hfold]; simp
  | false =>
    cases segs with
    | nil => decide
    | cons a rr =>
      obtain ⟨ha, hh⟩ := nf_head_not_rooted h a rr rfl
      have hrend : render (false, a :: rr) = joinWith [47] (a :: rr) := by simp [render]
      have hr : isRooted (render (false, a :: rr)) = false := by
        rw [hrend]
        unfold isRooted
        rw [joinWith_head a rr ha]
        cases hx : a.head? with
        | none => rfl
        | some x =>
          have : x ≠ 47 := fun e => hh (by rw [hx, e])
          simp [this]
      unfold norm
      rw [hr, hrend, splitByte_joinWith (a :: rr) (by simp) hsep]
      simp only at hfold
      rw [hfold]; simp

/-- cleaning does not change what a path normalises to -/
theorem norm_clean (p : Bytes) : norm (clean p) = norm p := norm_render (norm_nf p)

/-- `Clean` is idempotent -/
theorem clean_idem (p : Bytes) : clean (clean p) = clean p := by
  unfold clean; rw [norm_render (norm_nf p)]

/-! ### joining ordinary elements below a directory -/

theorem isRooted_append {p : Bytes} (hp : p ≠ []) (q : Bytes) : isRooted (p ++ q) = isRooted p := by
  cases p with
  | nil => exact absurd rfl hp
  | cons x xs => rfl

theorem norm_append_seg {p a : Bytes} (hp : p ≠ []) (ha : OkSeg a) :
    norm (p ++ 47 :: a) = ((norm p).1, (norm p).2 ++ [a]) := by
  unfold norm
  rw [isRooted_append hp, splitByte_append_sep, splitByte_noSep ha.2.1, List.foldl_append]
  simp only [List.foldl_cons, List.foldl_nil, cleanStep_ok ha, List.reverse_cons]

theorem norm_okSeg {a : Bytes} (ha : OkSeg a) : norm a = (false, [a]) := by
  unfold norm
  have hr : isRooted a = false := by
    unfold isRooted
    cases a with
    | nil => rfl
    | cons x xs =>
      have : x ≠ 47 := fun e => ha.2.1 (by simp [e])
      simp [this]
  rw [hr, splitByte_noSep ha.2.1]
  simp [cleanStep_ok ha]

theorem joinWith_cons_cons (p a : Bytes) (r : List Bytes) :
    joinWith [47] (p :: a :: r) = joinWith [47] ((p ++ 47 :: a) :: r) := by
  cases r with
  | nil => simp [joinWith]
  | cons b r' => simp [joinWith]

theorem norm_joinWith {p : Bytes} (hp : p ≠ []) (segs : List Bytes) (hok : ∀ s ∈ segs, OkSeg s) :
    norm (joinWith [47] (p :: segs)) = ((norm p).1, (norm p).2 ++ segs) := by
  induction segs generalizing p with
  | nil => simp [joinWith]
  | cons a r ih =>
    rw [joinWith_cons_cons, ih (by simp) (fun s hs => hok s (List.mem_cons_of_mem _ hs)),
      norm_append_seg hp (hok a List.mem_cons_self)]
    simp

theorem norm_nil : norm [] = (false, []) := by decide

theorem okSeg_ne_nil {a : Bytes} (h : OkSeg a) : a ≠ [] := h.1

/-- `filepath.Join(root, e1, …, en)` for ordinary elements: the elements are appended to the cleaned root -/
theorem norm_join (root : Bytes) (segs : List Bytes) (hne : segs ≠ []) (hok : ∀ s ∈ segs, OkSeg s) :
    norm (join (root :: segs)) = ((norm root).1, (norm root).2 ++ segs) := by
  unfold join
  by_cases hr : root = []
  · subst hr
    cases segs with
    | nil => exact absurd rfl hne
    | cons a r =>
      have ha := hok a List.mem_cons_self
      have hd : List.dropWhile (fun x => x == []) ([] :: a :: r) = a :: r := by
        have : a.isEmpty = false := by cases a with
          | nil => exact absurd rfl ha.1
          | cons _ _ => rfl
        simp [List.dropWhile, this]
      rw [hd]
      dsimp only
      rw [norm_clean, norm_joinWith ha.1 r (fun s hs => hok s (List.mem_cons_of_mem _ hs)), norm_okSeg ha, norm_nil]
      rfl
  · have hd : List.dropWhile (fun x => x == []) (root :: segs) = root :: segs := by
      have : root.isEmpty = false := by cases root with
        | nil => exact absurd rfl hr
        | cons _ _ => rfl
      simp [List.dropWhile, this]
    rw [hd]
    dsimp only
    rw [norm_clean, norm_joinWith hr segs hok]

theorem under_of_norm {root p : Bytes} {rest : List Bytes} (h : norm p = ((norm root).1, (norm root).2 ++ rest))
    (hr : dotdot ∉ rest) : under root p := by
  unfold under
  rw [h]
  exact ⟨rfl, rest, rfl, hr⟩

theorem okSegs_no_dotdot {segs : List Bytes} (hok : ∀ s ∈ segs, OkSeg s) : dotdot ∉ segs :=
  fun h => (hok dotdot h).2.2.2 rfl

/-- the confinement lemma: joining ordinary path elements to a directory stays below that directory -/
theorem under_join (root : Bytes) (segs : List Bytes) (hne : segs ≠ []) (hok : ∀ s ∈ segs, OkSeg s) :
    under root (join (root :: segs)) :=
  under_of_norm (norm_join root segs hne hok) (okSegs_no_dotdot hok)

theorem join_ne_nil (root : Bytes) (segs : List Bytes) (hne : segs ≠ []) (hok : ∀ s ∈ segs, OkSeg s) :
    join (root :: segs) ≠ [] := by
  intro h
  have := norm_join root segs hne hok
  rw [h, norm_nil] at this
  have h2 : ([] : List Bytes) = (norm root).2 ++ segs := (Prod.mk.inj this).2
  cases segs with
  | nil => exact hne rfl
  | cons a r => simp at h2

/-! ### stream names and request paths -/

theorem safeName_ok {name : Bytes} (h : safeName name = true) : OkSeg name := by
  unfold safeName at h
  simp only [Bool.and_eq_true, bne_iff_ne, ne_eq, Bool.not_eq_true', List.contains_eq_mem, decide_eq_false_iff_not] at h
  exact ⟨h.1.1.1.1, h.1.2, h.1.1.1.2, h.1.1.2⟩

theorem lastIndexByte_none {c : UInt8} {s : Bytes} (h : lastIndexByte c s = none) : c ∉ s := by
  induction s with
  | nil => simp
  | cons x r ih =>
    unfold lastIndexByte at h
    cases hr : lastIndexByte c r with
    | some i => rw [hr] at h; simp at h
    | none =>
      rw [hr] at h
      by_cases hx : x = c
      · simp [hx] at h
      · intro hm
        rcases List.mem_cons.mp hm with h1 | h1
        · exact hx h1.symm
        · exact ih hr h1

theorem lastIndexByte_some {c : UInt8} {s : Bytes} {i : Nat} (h : lastIndexByte c s = some i) : c ∉ s.drop (i + 1) := by
  induction s generalizing i with
  | nil => simp [lastIndexByte] at h
  | cons x r ih =>
    unfold lastIndexByte at h
    cases hr : lastIndexByte c r with
    | some j =>
      rw [hr] at h
      simp only [Option.some.injEq] at h
      subst h
      exact ih hr
    | none =>
      rw [hr] at h
      by_cases hx : x = c
      · simp only [hx, if_true, Option.some.injEq] at h
        subst h
        exact lastIndexByte_none hr
      · simp [hx] at h

/-- the last item of a parsed URL path contains no separator -/
theorem lastItem_noSep (path q : Bytes) : (47 : UInt8) ∉ (Url.parseUrlPath path q).lastItem := by
  unfold Url.parseUrlPath
  cases h : lastIndexByte 47 path with
  | none => simp
  | some i => exact lastIndexByte_some h

/-- a last item that has a file type is an ordinary path element -/
theorem lastItem_ok {l : Bytes} (hs : (47 : UInt8) ∉ l) (ht : (Url.nameAndType l).2 ≠ []) : OkSeg l := by
  refine ⟨?_, hs, ?_, ?_⟩
  · intro e; rw [e] at ht; exact ht (by decide)
  · intro e; rw [e] at ht; exact ht (by decide)
  · intro e; rw [e] at ht; exact ht (by decide)

theorem playlist_ok : OkSeg Gen.c14PlaylistName := by
  refine ⟨by decide, by decide, by decide, by decide⟩

theorem record_ok : OkSeg Gen.c14RecordName := by
  refine ⟨by decide, by decide, by decide, by decide⟩

/-- every file `GetRequestInfo` names lies below the root -/
theorem requestInfo_under (path q root : Bytes) :
    (getRequestInfo (Url.parseUrlPath path q) root).fileNameWithPath = [] ∨
    under root (getRequestInfo (Url.parseUrlPath path q) root).fileNameWithPath := by
  generalize hu : Url.parseUrlPath path q = u
  have hsep : (47 : UInt8) ∉ u.lastItem := by rw [← hu]; exact lastItem_noSep path q
  unfold getRequestInfo
  dsimp only
  by_cases hm : u.fileType = asc "m3u8"
  · rw [if_pos hm]
    cases hsafe : safeName (requestStream u) with
    | false => left; rfl
    | true =>
      have hok := safeName_ok hsafe
      simp only [Bool.not_true, Bool.false_eq_true, if_false]
      have hl : OkSeg u.lastItem := lastItem_ok hsep (by
        have : (Url.nameAndType u.lastItem).2 = asc "m3u8" := hm
        rw [this]; decide)
      split
      · right
        exact under_join root [requestStream u, u.lastItem] (by simp) (by
          intro s hs
          simp only [List.mem_cons, List.not_mem_nil, or_false] at hs
          rcases hs with h | h <;> rw [h]
          · exact hok
          · exact hl)
      · right
        exact under_join root [requestStream u, Gen.c14PlaylistName] (by simp) (by
          intro s hs
          simp only [List.mem_cons, List.not_mem_nil, or_false] at hs
          rcases hs with h | h <;> rw [h]
          · exact hok
          · exact playlist_ok)
  · rw [if_neg hm]
    by_cases ht : u.fileType = asc "ts"
    · rw [if_pos ht]
      cases hsafe : safeName (requestStream u) with
      | false => left; rfl
      | true =>
        have hok := safeName_ok hsafe
        simp only [Bool.not_true, Bool.false_eq_true, if_false]
        have hl : OkSeg u.lastItem := lastItem_ok hsep (by
          have : (Url.nameAndType u.lastItem).2 = asc "ts" := ht
          rw [this]; decide)
        right
        exact under_join root [requestStream u, u.lastItem] (by simp) (by
          intro s hs
          simp only [List.mem_cons, List.not_mem_nil, or_false] at hs
          rcases hs with h | h <;> rw [h]
          · exact hok
          · exact hl)
    · rw [if_neg ht]; left; rfl

/-! ### write side -/

theorem natDigits_noSep (fuel n : Nat) (acc : Bytes) (h : (47 : UInt8) ∉ acc) : (47 : UInt8) ∉ natDigits fuel n acc := by
  induction fuel generalizing n acc with
  | zero => exact h
  | succ f ih =>
    unfold natDigits
    have hd : (47 : UInt8) ∉ UInt8.ofNat (48 + n % 10) :: acc := by
      intro hm
      rcases List.mem_cons.mp hm with h1 | h1
      · have h2 : n % 10 < 10 := Nat.mod_lt _ (by omega)
        have h3 : (47 : UInt8).toNat = (UInt8.ofNat (48 + n % 10)).toNat := by rw [← h1]
        simp only [UInt8.toNat_ofNat'] at h3
        have : (47 : UInt8).toNat = 47 := rfl
        omega
      · exact h h1
    dsimp only
    split
    · exact hd
    · exact ih _ _ hd

theorem natDec_noSep (n : Nat) : (47 : UInt8) ∉ natDec n := natDigits_noSep _ _ _ (by simp)

theorem intDec_noSep (i : Int) : (47 : UInt8) ∉ intDec i := by
  unfold intDec
  cases i with
  | ofNat n => exact natDec_noSep n
  | negSucc n =>
    intro hm
    rcases List.mem_cons.mp hm with h | h
    · exact absurd h (by decide)
    · exact natDec_noSep _ h

theorem okSeg_of_long {s : Bytes} (h1 : (47 : UInt8) ∉ s) (h2 : 3 ≤ s.length) : OkSeg s := by
  refine ⟨?_, h1, ?_, ?_⟩ <;> intro e <;> rw [e] at h2 <;> simp [dot, dotdot] at h2

theorem tsFileName_ok {name : Bytes} (hn : (47 : UInt8) ∉ name) (i t : Int) : OkSeg (tsFileName name i t) := by
  apply okSeg_of_long
  · unfold tsFileName
    intro hm
    simp only [List.mem_append, List.mem_cons, List.not_mem_nil, or_false] at hm
    rcases hm with ((((h | h) | h) | h) | h) | h
    · exact hn h
    · exact absurd h (by decide)
    · exact intDec_noSep t h
    · exact absurd h (by decide)
    · exact intDec_noSep i h
    · revert h; decide
  · unfold tsFileName
    simp only [List.length_append]
    have : (asc ".ts").length = 3 := by decide
    omega

theorem recordName_ok {name ext : Bytes} (hn : (47 : UInt8) ∉ name) (now : Int) (he : (47 : UInt8) ∉ ext) (hl : 2 ≤ ext.length) :
    OkSeg (name ++ [45] ++ intDec now ++ ext) := by
  apply okSeg_of_long
  · intro hm
    simp only [List.mem_append, List.mem_cons, List.not_mem_nil, or_false] at hm
    rcases hm with ((h | h) | h) | h
    · exact hn h
    · exact absurd h (by decide)
    · exact intDec_noSep now h
    · exact he h
  · simp only [List.length_append, List.length_cons, List.length_nil]
    omega

/-- appending text to a rendered path appends it to the last element -/
theorem joinWith_append_last (segs : List Bytes) (f t : Bytes) :
    joinWith [47] (segs ++ [f]) ++ t = joinWith [47] (segs ++ [f ++ t]) := by
  induction segs with
  | nil => simp [joinWith]
  | cons a r ih =>
    cases r with
    | nil => simp [joinWith]
    | cons b r' =>
      have e1 : joinWith [47] (a :: b :: r' ++ [f]) = a ++ [47] ++ joinWith [47] (b :: r' ++ [f]) := by simp [joinWith]
      have e2 : joinWith [47] (a :: b :: r' ++ [f ++ t]) = a ++ [47] ++ joinWith [47] (b :: r' ++ [f ++ t]) := by simp [joinWith]
      rw [e1, e2, ← ih]
      simp

theorem render_append_last (r : Bool) (segs : List Bytes) (f t : Bytes) :
    render (r, segs ++ [f]) ++ t = render (r, segs ++ [f ++ t]) := by
  unfold render
  cases r with
  | true => simp only [if_true, List.cons_append, joinWith_append_last]
  | false =>
    have h1 : segs ++ [f] ≠ [] := by simp
    have h2 : segs ++ [f ++ t] ≠ [] := by simp
    simp only [Bool.false_eq_true, if_false, h1, h2, joinWith_append_last]

theorem nf_append_ok {n : Bool × List Bytes} (h : NF n) (segs : List Bytes) (hok : ∀ s ∈ segs, OkSeg s) : NF (n.1, n.2 ++ segs) := by
  obtain ⟨k, body, hn, hb, hk⟩ := h
  refine ⟨k, body ++ segs, by simp [hn], ?_, hk⟩
  intro s hs
  rcases List.mem_append.mp hs with h1 | h1
  · exact hb s h1
  · exact hok s h1

theorem clean_join (elems : List Bytes) (h : join elems ≠ []) : clean (join elems) = join elems := by
  unfold join at h ⊢
  split
  · rename_i he; rw [he] at h; exact absurd rfl h
  · exact clean_idem _

/-- a file below `root` with a suffix appended to its name is still below `root` -/
theorem under_join_suffix (root : Bytes) (segs : List Bytes) (f t : Bytes) (hok : ∀ s ∈ segs, OkSeg s) (hf : OkSeg f)
    (hft : OkSeg (f ++ t)) : under root (join (root :: (segs ++ [f])) ++ t) := by
  have hall : ∀ s ∈ segs ++ [f], OkSeg s := by
    intro s hs
    rcases List.mem_append.mp hs with h | h
    · exact hok s h
    · simp only [List.mem_cons, List.not_mem_nil, or_false] at h; rw [h]; exact hf
  have hall' : ∀ s ∈ segs ++ [f ++ t], OkSeg s := by
    intro s hs
    rcases List.mem_append.mp hs with h | h
    · exact hok s h
    · simp only [List.mem_cons, List.not_mem_nil, or_false] at h; rw [h]; exact hft
  have hj := norm_join root (segs ++ [f]) (by simp) hall
  -- the joined path is the rendering of its normal form
  have hnf : NF (norm (join (root :: (segs ++ [f])))) := norm_nf _
  have hrend : join (root :: (segs ++ [f])) = render ((norm root).1, ((norm root).2 ++ segs) ++ [f]) := by
    have hc : clean (join (root :: (segs ++ [f]))) = join (root :: (segs ++ [f])) :=
      clean_join _ (join_ne_nil root (segs ++ [f]) (by simp) hall)
    rw [← hc]
    unfold clean
    rw [hj, List.append_assoc]
  rw [hrend, render_append_last]
  have hnf' : NF ((norm root).1, ((norm root).2 ++ segs) ++ [f ++ t]) := by
    have := nf_append_ok (norm_nf root) (segs ++ [f ++ t]) hall'
    simpa [List.append_assoc] using this
  apply under_of_norm (rest := segs ++ [f ++ t])
  · rw [norm_render hnf', List.append_assoc]
  · exact okSegs_no_dotdot hall'

theorem join_eq_render (root : Bytes) (segs : List Bytes) (hne : segs ≠ []) (hok : ∀ s ∈ segs, OkSeg s) :
    join (root :: segs) = render ((norm root).1, (norm root).2 ++ segs) := by
  rw [← clean_join _ (join_ne_nil root segs hne hok)]
  unfold clean
  rw [norm_join root segs hne hok]

/-- joining below a joined directory is joining all elements at once -/
theorem join_join (root name f : Bytes) (hn : OkSeg name) (hf : OkSeg f) :
    join [join [root, name], f] = join [root, name, f] := by
  have h1 : ∀ s ∈ [name], OkSeg s := by simp [hn]
  have h2 : ∀ s ∈ [f], OkSeg s := by simp [hf]
  have h3 : ∀ s ∈ [name, f], OkSeg s := by
    intro s hs
    simp only [List.mem_cons, List.not_mem_nil, or_false] at hs
    rcases hs with h | h <;> rw [h] <;> assumption
  rw [join_eq_render (join [root, name]) [f] (by simp) h2, norm_join root [name] (by simp) h1,
    join_eq_render root [name, f] (by simp) h3]
  simp

theorem mem_pair {s a b : Bytes} (hs : s ∈ [a, b]) : s = a ∨ s = b := by
  simpa using hs

/-- every path a muxer for an ordinary stream name hands to the file-system layer is below the root -/
theorem muxerPaths_under (root name : Bytes) (mode : Nat) (frags : List (Int × Int)) (hn : OkSeg name) :
    ∀ p ∈ muxerPaths root name mode frags, under root p := by
  have hop : under root (muxerOutPath root name) :=
    under_join root [name] (by simp) (by simp [hn])
  have h2 : ∀ f, OkSeg f → ∀ s ∈ [name, f], OkSeg s := by
    intro f hf s hs
    rcases mem_pair hs with h | h <;> rw [h] <;> assumption
  have hfile : ∀ f, OkSeg f → under root (join [muxerOutPath root name, f]) := by
    intro f hf
    unfold muxerOutPath
    rw [join_join root name f hn hf]
    exact under_join root [name, f] (by simp) (h2 f hf)
  have hbak : ∀ f, OkSeg f → OkSeg (f ++ asc ".bak") → under root (join [muxerOutPath root name, f] ++ asc ".bak") := by
    intro f hf hfb
    unfold muxerOutPath
    rw [join_join root name f hn hf]
    exact under_join_suffix root [name] f (asc ".bak") (by simp [hn]) hf hfb
  have hpb : OkSeg (Gen.c14PlaylistName ++ asc ".bak") := by refine ⟨by decide, by decide, by decide, by decide⟩
  have hrb : OkSeg (Gen.c14RecordName ++ asc ".bak") := by refine ⟨by decide, by decide, by decide, by decide⟩
  intro p hp
  unfold muxerPaths at hp
  dsimp only at hp
  split at hp
  · simp only [List.mem_cons, List.not_mem_nil, or_false] at hp
    rcases hp with hp | hp
    · rw [hp]; exact hop
    · rw [hp]; exact hfile _ playlist_ok
  · simp only [List.mem_append, List.mem_cons, List.not_mem_nil, or_false, List.mem_map] at hp
    rcases hp with ((h | h | h) | h) | ⟨fr, _, h⟩
    · rw [h]; exact hop
    · rw [h]; exact hfile _ playlist_ok
    · rw [h]; exact hbak _ playlist_ok hpb
    · split at h
      · simp at h
      · simp only [List.mem_cons, List.not_mem_nil, or_false] at h
        rcases h with h | h
        · rw [h]; exact hfile _ record_ok
        · rw [h]; exact hbak _ record_ok hrb
    · rw [← h]
      exact hfile _ (tsFileName_ok hn.2.1 fr.1 fr.2)

theorem recordFile_under (outPath name ext : Bytes) (now : Int) (hn : OkSeg name) (he : (47 : UInt8) ∉ ext) (hl : 2 ≤ ext.length) :
    under outPath (recordFile outPath name now ext) :=
  under_join outPath [name ++ [45] ++ intDec now ++ ext] (by simp) (by
    intro s hs
    simp only [List.mem_cons, List.not_mem_nil, or_false] at hs
    rw [hs]; exact recordName_ok hn.2.1 now he hl)

/-- every path `Group.addIn` creates or writes for a stream lies below the directory configured for it;
    for a stream name that is not an ordinary path element nothing is created -/
theorem groupPaths_under (c : OutConf) (name : Bytes) (now : Int) (frags : List (Int × Int)) :
    ∀ dp ∈ groupPaths c name now frags, under dp.1 dp.2 := by
  intro dp hdp
  unfold groupPaths at hdp
  cases hs : safeName name with
  | false => simp [hs] at hdp
  | true =>
    have hn := safeName_ok hs
    simp only [hs, Bool.not_true, Bool.false_eq_true, if_false, List.mem_append] at hdp
    rcases hdp with (h | h) | h
    · split at h
      · obtain ⟨p, hp, he⟩ := List.mem_map.mp h
        rw [← he]; exact muxerPaths_under _ _ _ _ hn p hp
      · simp at h
    · split at h
      · simp only [List.mem_cons, List.not_mem_nil, or_false] at h
        rw [h]; exact recordFile_under _ _ _ _ hn (by decide) (by decide)
      · simp at h
    · split at h
      · simp only [List.mem_cons, List.not_mem_nil, or_false] at h
        rw [h]; exact recordFile_under _ _ _ _ hn (by decide) (by decide)
      · simp at h

/-! ### `Clean` against the meaning of paths -/

open AccessSpec in
theorem walk_step_clean {rooted : Bool} {st : List Bytes} (h : StackNF rooted st) (seg : Bytes) (base : List Bytes)
    (hb : rooted = true → base = []) :
    (st.reverse ++ [seg]).foldl walkStep base = (cleanStep rooted st seg).reverse.foldl walkStep base := by
  obtain ⟨body, k, hst, hbody, hk⟩ := h
  unfold cleanStep
  by_cases h1 : seg = [] ∨ seg = dot
  · rw [if_pos h1, List.foldl_append]
    simp [walkStep, h1]
  · rw [if_neg h1]
    by_cases h2 : seg = dotdot
    · rw [if_pos h2]
      subst h2
      cases body with
      | nil =>
        cases k with
        | zero =>
          simp only [List.nil_append, List.replicate_zero] at hst
          subst hst
          cases rooted with
          | true => rw [hb rfl]; decide
          | false => rfl
        | succ k =>
          simp only [List.nil_append, List.replicate_succ] at hst
          subst hst
          simp
      | cons top body' =>
        simp only [List.cons_append] at hst
        subst hst
        have htop := hbody top List.mem_cons_self
        simp only [if_neg htop.2.2.2, List.reverse_cons, List.append_assoc, List.foldl_append, List.foldl_cons, List.foldl_nil]
        have h3 : ¬ (top = [] ∨ top = dot) := fun e => e.elim htop.1 htop.2.2.1
        have h4 : ¬ (dotdot = [] ∨ dotdot = dot) := by decide
        simp [walkStep, h3, htop.2.2.2, h4]
    · rw [if_neg h2]; simp

open AccessSpec in
theorem walk_foldl_clean {rooted : Bool} (segs : List Bytes) (hs : ∀ s ∈ segs, (47 : UInt8) ∉ s) (base : List Bytes)
    (hb : rooted = true → base = []) {st : List Bytes} (h : StackNF rooted st) :
    (st.reverse ++ segs).foldl walkStep base = (segs.foldl (cleanStep rooted) st).reverse.foldl walkStep base := by
  induction segs generalizing st with
  | nil => simp
  | cons a r ih =>
    have ha := hs a List.mem_cons_self
    rw [List.foldl_cons, ← ih (fun s hm => hs s (List.mem_cons_of_mem _ hm)) (stackNF_step h a ha)]
    have : st.reverse ++ a :: r = (st.reverse ++ [a]) ++ r := by simp
    rw [this, List.foldl_append, walk_step_clean h a base hb, ← List.foldl_append]

/-- walking a path is walking its cleaned elements -/
theorem walk_eq_norm (cwd : List Bytes) (p : Bytes) :
    AccessSpec.walk cwd p = (norm p).2.foldl AccessSpec.walkStep (if (norm p).1 then [] else cwd) := by
  unfold AccessSpec.walk norm
  have := walk_foldl_clean (rooted := isRooted p) (splitByte 47 p) (fun s hs => splitByte_pieces s hs)
    (if isRooted p then [] else cwd) (by intro h; simp [h]) (stackNF_nil _)
  simpa using this

/-- `Clean` returns a path that leads to the same place from every working directory -/
theorem walk_clean (cwd : List Bytes) (p : Bytes) : AccessSpec.walk cwd (clean p) = AccessSpec.walk cwd p := by
  rw [walk_eq_norm, walk_eq_norm, norm_clean]

/-! ### what `under` means -/

theorem nf_mem {n : Bool × List Bytes} (h : NF n) : ∀ s ∈ n.2, s = dotdot ∨ OkSeg s := by
  obtain ⟨k, body, hn, hb, _⟩ := h
  intro s hs
  rw [hn] at hs
  rcases List.mem_append.mp hs with h1 | h1
  · exact Or.inl (List.mem_replicate.mp h1).2
  · exact Or.inr (hb s h1)

theorem foldl_walkStep_ok (segs : List Bytes) (hok : ∀ s ∈ segs, OkSeg s) (base : List Bytes) :
    segs.foldl AccessSpec.walkStep base = segs.reverse ++ base := by
  induction segs generalizing base with
  | nil => rfl
  | cons a r ih =>
    have ha := hok a List.mem_cons_self
    have h1 : ¬ (a = [] ∨ a = dot) := fun e => e.elim ha.1 ha.2.2.1
    rw [List.foldl_cons, ih (fun s hs => hok s (List.mem_cons_of_mem _ hs))]
    simp [AccessSpec.walkStep, h1, ha.2.2.2]

/-- `under root p` read as a statement about locations: from every working directory, `p` leads to a
    place reached from where `root` leads by going down only -/
theorem under_walk {root p : Bytes} (h : under root p) (cwd : List Bytes) :
    ∃ down : List Bytes, (∀ s ∈ down, OkSeg s) ∧ AccessSpec.walk cwd p = down.reverse ++ AccessSpec.walk cwd root := by
  obtain ⟨h1, rest, h2, h3⟩ := h
  have hok : ∀ s ∈ rest, OkSeg s := by
    intro s hs
    rcases nf_mem (norm_nf p) s (by rw [h2]; exact List.mem_append_right _ hs) with e | e
    · rw [e] at hs; exact absurd hs h3
    · exact e
  refine ⟨rest, hok, ?_⟩
  rw [walk_eq_norm cwd p, walk_eq_norm cwd root, h2, ← h1, List.foldl_append, foldl_walkStep_ok rest hok]

end Lal.Path
