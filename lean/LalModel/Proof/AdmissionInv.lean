import LalModel.Proof.AdmissionOne
/- C03 — the invariant that ties the session objects to the groups: a session "claims" a place in a
   group (an input slot or a subscriber set) exactly when the group holds it there. -/
set_option linter.unusedSimpArgs false
namespace Lal.Adm
open Grp Spec

inductive Slot | rtmpPub | rtspPub | custPub | psPub | pullRtmp | pullRtsp | rtmpSub | rtspSub
deriving DecidableEq, Repr

def Slot.isPub : Slot → Bool
  | .rtmpPub | .rtspPub | .custPub | .psPub => true
  | _ => false

def Slot.isIn : Slot → Bool
  | .rtmpSub | .rtspSub => false
  | _ => true

/-- where a live, accepted session must be registered: stream and place -/
def Sess.claim : Sess → Option (Stream × Slot)
  | .rtmp r => if r.closed || r.flag then none else
    match r.typ with
    | .pub => some (r.stream, .rtmpPub)
    | .sub => some (r.stream, .rtmpSub)
    | .unknown => none
  | .rtspPub p => if p.accepted && !p.ended then some (p.stream, .rtspPub) else none
  | .rtspSub q => if q.accepted && !q.ended then some (q.stream, .rtspSub) else none
  | .cust c => if c.deleted then none else some (c.stream, .custPub)
  | .ps p => if p.ended then none else some (p.stream, .psPub)
  | .pull p => if p.st = .attached then some (p.stream, if p.rtsp then .pullRtsp else .pullRtmp) else none
  | .rtspConn _ => none

def Grp.holds (g : Grp) : Slot → Sid → Prop
  | .rtmpPub, x => g.rtmpPub = some x
  | .rtspPub, x => g.rtspPub = some x
  | .custPub, x => g.custPub = some x
  | .psPub, x => g.psPub = some x
  | .pullRtmp, x => g.pullRtmp = some x
  | .pullRtsp, x => g.pullRtsp = some x
  | .rtmpSub, x => x ∈ g.rtmpSubs
  | .rtspSub, x => x ∈ g.rtspSubs

def holdsAt (s : Srv) (st : Stream) (sl : Slot) (x : Sid) : Prop := ∃ g, s.groups st = some g ∧ g.holds sl x

def claimOf (s : Srv) (x : Sid) : Option (Stream × Slot) := (s.sess x).bind Sess.claim

/-- claims and registrations coincide -/
def CI (s : Srv) : Prop := ∀ x st sl, claimOf s x = some (st, sl) ↔ holdsAt s st sl x

/-! ### `holdsAt` / `claimOf` under the elementary updates -/
section upd
variable (s : Srv)

@[simp] theorem holdsAt_setG (k : Stream) (g : Grp) (st : Stream) (sl : Slot) (x : Sid) :
    holdsAt (s.setG k g) st sl x ↔ if st = k then g.holds sl x else holdsAt s st sl x := by
  unfold holdsAt; simp only [Srv.setG_groups]; split <;> simp
@[simp] theorem holdsAt_eraseG (k st : Stream) (sl : Slot) (x : Sid) :
    holdsAt (s.eraseG k) st sl x ↔ st ≠ k ∧ holdsAt s st sl x := by
  unfold holdsAt; simp only [Srv.eraseG_groups]; split <;> simp_all
@[simp] theorem holdsAt_setS (y : Sid) (v : Sess) : holdsAt (s.setS y v) = holdsAt s := rfl
@[simp] theorem holdsAt_note (k : NKind) (y : Sid) : holdsAt (s.note k y) = holdsAt s := rfl
theorem holdsAt_congr {s s' : Srv} (e : s'.groups = s.groups) : holdsAt s' = holdsAt s := by
  funext st sl x; unfold holdsAt; rw [e]
@[simp] theorem holdsAt_noteRelay (l : List GObs) : holdsAt (s.noteRelay l) = holdsAt s := holdsAt_congr (by simp)
@[simp] theorem holdsAt_spawned (k : Stream) (r : Bool) (a : Option Sid) : holdsAt (s.spawned k r a) = holdsAt s := holdsAt_congr (by simp)
@[simp] theorem holdsAt_modR (c : Sid) (f : RConn → RConn) : holdsAt (s.modR c f) = holdsAt s := holdsAt_congr (by simp)
@[simp] theorem holdsAt_modSP (c : Sid) (f : SPub → SPub) : holdsAt (s.modSP c f) = holdsAt s := holdsAt_congr (by simp)
@[simp] theorem holdsAt_modSS (c : Sid) (f : SSub → SSub) : holdsAt (s.modSS c f) = holdsAt s := holdsAt_congr (by simp)
@[simp] theorem holdsAt_modC (c : Sid) (f : Cust → Cust) : holdsAt (s.modC c f) = holdsAt s := holdsAt_congr (by simp)
@[simp] theorem holdsAt_modP (c : Sid) (f : Pull → Pull) : holdsAt (s.modP c f) = holdsAt s := holdsAt_congr (by simp)

@[simp] theorem claimOf_setG (k : Stream) (g : Grp) : claimOf (s.setG k g) = claimOf s := rfl
@[simp] theorem claimOf_eraseG (k : Stream) : claimOf (s.eraseG k) = claimOf s := rfl
@[simp] theorem claimOf_note (k : NKind) (y : Sid) : claimOf (s.note k y) = claimOf s := rfl
theorem claimOf_congr {s s' : Srv} (e : s'.sess = s.sess) : claimOf s' = claimOf s := by
  funext x; unfold claimOf; rw [e]
@[simp] theorem claimOf_noteRelay (l : List GObs) : claimOf (s.noteRelay l) = claimOf s := claimOf_congr (by simp)
@[simp] theorem claimOf_setS (y : Sid) (v : Sess) (x : Sid) :
    claimOf (s.setS y v) x = if x = y then v.claim else claimOf s x := by
  unfold claimOf; simp only [Srv.setS_sess]; split <;> rfl

end upd

/-- the frame rule: one session `x` changes its claim, the groups change accordingly, nobody else is
    affected -/
theorem CI.update {s s' : Srv} (h : CI s) (x : Sid)
    (hs : ∀ y, y ≠ x → claimOf s' y = claimOf s y)
    (hg : ∀ y st sl, y ≠ x → (holdsAt s' st sl y ↔ holdsAt s st sl y))
    (hx : ∀ st sl, claimOf s' x = some (st, sl) ↔ holdsAt s' st sl x) : CI s' := by
  intro y st sl
  by_cases hy : y = x
  · subst hy; exact hx st sl
  · rw [hs y hy, hg y st sl hy]; exact h y st sl

/-- nothing about registrations or claims changed -/
theorem CI.same {s s' : Srv} (h : CI s) (hc : claimOf s' = claimOf s) (hh : holdsAt s' = holdsAt s) : CI s' := by
  intro y st sl; rw [hc, hh]; exact h y st sl

/-! ### what the group operations do to `holds` -/

theorem Grp.holds_addIn (g : Grp) (sl : Slot) (y : Sid) : g.addIn.1.holds sl y ↔ g.holds sl y := by
  cases sl <;> rfl

theorem Grp.holds_delIn (g : Grp) (sl : Slot) (y : Sid) : g.delIn.1.holds sl y ↔ (g.holds sl y ∧ sl.isPub = false) := by
  cases sl <;> simp [delIn, holds, Slot.isPub]

theorem Grp.holds_pullIfNeeded (g : Grp) (n : Sid) (sl : Slot) (y : Sid) : (g.pullIfNeeded n).1.holds sl y ↔ g.holds sl y := by
  unfold pullIfNeeded; split
  · cases sl <;> rfl
  · rfl

/-- with no input, no input slot holds anything -/
theorem Grp.not_holds_of_not_hasIn {g : Grp} (h : g.hasIn = false) (sl : Slot) (y : Sid) (hs : sl.isIn = true) : ¬g.holds sl y := by
  obtain ⟨a, b, c, d, e, f⟩ := slots_of_not_hasIn h
  cases sl <;> simp_all [holds, Slot.isIn]

/-- in an Ok group, a session in one input slot excludes every other input registration -/
theorem Grp.Ok.unique {g : Grp} (h : g.Ok) {sl sl' : Slot} {x y : Sid} (h1 : g.holds sl x) (h2 : g.holds sl' y)
    (i1 : sl.isIn = true) (i2 : sl'.isIn = true) : sl = sl' ∧ x = y := by
  have := h.one
  cases sl <;> cases sl' <;> simp_all [holds, Slot.isIn, inputs] <;>
    (cases h3 : g.rtmpPub <;> cases h4 : g.rtspPub <;> cases h5 : g.custPub <;> cases h6 : g.psPub <;>
       cases h7 : g.pullRtmp <;> cases h8 : g.pullRtsp <;> simp_all)


/-! #### arrivals -/

theorem Grp.addRtmpPub_refused {g : Grp} {x : Sid} (h : (g.addRtmpPub x).2.1 = false) : (g.addRtmpPub x).1 = g := by
  unfold addRtmpPub at h ⊢; split <;> simp_all
theorem Grp.addRtspPub_refused {g : Grp} {x : Sid} (h : (g.addRtspPub x).2.1 = false) : (g.addRtspPub x).1 = g := by
  unfold addRtspPub at h ⊢; split <;> simp_all
theorem Grp.addCustPub_refused {g : Grp} {x : Sid} (h : (g.addCustPub x).2.1 = false) : (g.addCustPub x).1 = g := by
  unfold addCustPub at h ⊢; split <;> simp_all
theorem Grp.startRtpPub_refused {g : Grp} {x : Sid} (h : (g.startRtpPub Code.fixed x).2.1 = false) : (g.startRtpPub Code.fixed x).1 = g := by
  unfold startRtpPub at h ⊢; split <;> simp_all
theorem Grp.addRtmpPull_refused {code : Code} {g : Grp} {x : Sid} (h : (g.addRtmpPull code x).2.1 = false) : (g.addRtmpPull code x).1 = g := by
  unfold addRtmpPull at h ⊢; split <;> simp_all
theorem Grp.addRtspPull_refused {code : Code} {g : Grp} {x : Sid} (h : (g.addRtspPull code x).2.1 = false) : (g.addRtspPull code x).1 = g := by
  unfold addRtspPull at h ⊢; split <;> simp_all

theorem Grp.holds_addRtmpPub {g : Grp} {x : Sid} (h : (g.addRtmpPub x).2.1 = true) (sl : Slot) (y : Sid) :
    (g.addRtmpPub x).1.holds sl y ↔ (g.holds sl y ∨ (sl = .rtmpPub ∧ y = x)) := by
  unfold addRtmpPub at h ⊢; split
  · simp_all
  · rename_i hin
    have hn := slots_of_not_hasIn (g := g) (by simpa using hin)
    cases sl <;> simp [holds, addIn, hn, eq_comm]

theorem Grp.holds_addRtspPub {g : Grp} {x : Sid} (h : (g.addRtspPub x).2.1 = true) (sl : Slot) (y : Sid) :
    (g.addRtspPub x).1.holds sl y ↔ (g.holds sl y ∨ (sl = .rtspPub ∧ y = x)) := by
  unfold addRtspPub at h ⊢; split
  · simp_all
  · rename_i hin
    have hn := slots_of_not_hasIn (g := g) (by simpa using hin)
    cases sl <;> simp [holds, addIn, hn, eq_comm]

theorem Grp.holds_addCustPub {g : Grp} {x : Sid} (h : (g.addCustPub x).2.1 = true) (sl : Slot) (y : Sid) :
    (g.addCustPub x).1.holds sl y ↔ (g.holds sl y ∨ (sl = .custPub ∧ y = x)) := by
  unfold addCustPub at h ⊢; split
  · simp_all
  · rename_i hin
    have hn := slots_of_not_hasIn (g := g) (by simpa using hin)
    cases sl <;> simp [holds, addIn, hn, eq_comm]

theorem Grp.holds_startRtpPub {g : Grp} {x : Sid} (h : (g.startRtpPub Code.fixed x).2.1 = true) (sl : Slot) (y : Sid) :
    (g.startRtpPub Code.fixed x).1.holds sl y ↔ (g.holds sl y ∨ (sl = .psPub ∧ y = x)) := by
  unfold startRtpPub at h ⊢; split
  · simp_all
  · rename_i hin
    have hn := slots_of_not_hasIn (g := g) (by simpa [Code.fixed] using hin)
    cases sl <;> simp [holds, addIn, hn, eq_comm]

theorem Grp.holds_addRtmpPull {code : Code} {g : Grp} {x : Sid} (h : (g.addRtmpPull code x).2.1 = true) (sl : Slot) (y : Sid) :
    (g.addRtmpPull code x).1.holds sl y ↔ (g.holds sl y ∨ (sl = .pullRtmp ∧ y = x)) := by
  unfold addRtmpPull at h ⊢; split
  · simp_all
  · rename_i hin
    have hn := slots_of_not_hasIn (g := g) (not_hasIn_of_pullRefusal hin)
    cases sl <;> simp [holds, addIn, hn, eq_comm]

theorem Grp.holds_addRtspPull {code : Code} {g : Grp} {x : Sid} (h : (g.addRtspPull code x).2.1 = true) (sl : Slot) (y : Sid) :
    (g.addRtspPull code x).1.holds sl y ↔ (g.holds sl y ∨ (sl = .pullRtsp ∧ y = x)) := by
  unfold addRtspPull at h ⊢; split
  · simp_all
  · rename_i hin
    have hn := slots_of_not_hasIn (g := g) (not_hasIn_of_pullRefusal hin)
    cases sl <;> simp [holds, addIn, hn, eq_comm]

/-! #### departures -/

/-- `delIn` in an Ok group whose input is the publisher `x` in slot `sl0` removes exactly that registration -/
theorem Grp.holds_delIn_of {g : Grp} (ok : g.Ok) {sl0 : Slot} {x : Sid} (h0 : g.holds sl0 x) (hp : sl0.isPub = true)
    (sl : Slot) (y : Sid) : g.delIn.1.holds sl y ↔ (g.holds sl y ∧ ¬(sl = sl0 ∧ y = x)) := by
  rw [holds_delIn]
  constructor
  · rintro ⟨h1, h2⟩
    refine ⟨h1, ?_⟩
    rintro ⟨rfl, rfl⟩
    rw [hp] at h2; cases h2
  · rintro ⟨h1, h2⟩
    refine ⟨h1, ?_⟩
    cases hs : sl.isPub
    · rfl
    · exfalso
      have i1 : sl.isIn = true := by cases sl <;> simp_all [Slot.isPub, Slot.isIn]
      have i0 : sl0.isIn = true := by cases sl0 <;> simp_all [Slot.isPub, Slot.isIn]
      exact h2 (ok.unique h1 h0 i1 i0)

theorem Grp.holds_delRtmpPub {g : Grp} (ok : g.Ok) (x : Sid) (sl : Slot) (y : Sid) :
    (g.delRtmpPub x).1.holds sl y ↔ (g.holds sl y ∧ ¬(sl = .rtmpPub ∧ y = x)) := by
  unfold delRtmpPub; split
  · rename_i h; exact holds_delIn_of ok (sl0 := .rtmpPub) h rfl sl y
  · rename_i h
    constructor
    · intro h1; exact ⟨h1, by rintro ⟨rfl, rfl⟩; exact h h1⟩
    · exact fun h1 => h1.1

theorem Grp.holds_delRtspPub {g : Grp} (ok : g.Ok) (x : Sid) (sl : Slot) (y : Sid) :
    (g.delRtspPub x).1.holds sl y ↔ (g.holds sl y ∧ ¬(sl = .rtspPub ∧ y = x)) := by
  unfold delRtspPub; split
  · rename_i h; exact holds_delIn_of ok (sl0 := .rtspPub) h rfl sl y
  · rename_i h
    constructor
    · intro h1; exact ⟨h1, by rintro ⟨rfl, rfl⟩; exact h h1⟩
    · exact fun h1 => h1.1

theorem Grp.holds_delCustPub {g : Grp} (ok : g.Ok) (x : Sid) (sl : Slot) (y : Sid) :
    (g.delCustPub x).1.holds sl y ↔ (g.holds sl y ∧ ¬(sl = .custPub ∧ y = x)) := by
  unfold delCustPub; split
  · rename_i h; exact holds_delIn_of ok (sl0 := .custPub) h rfl sl y
  · rename_i h
    constructor
    · intro h1; exact ⟨h1, by rintro ⟨rfl, rfl⟩; exact h h1⟩
    · exact fun h1 => h1.1

theorem Grp.holds_delPsPub {g : Grp} (ok : g.Ok) (x : Sid) (sl : Slot) (y : Sid) :
    (g.delPsPub x).1.holds sl y ↔ (g.holds sl y ∧ ¬(sl = .psPub ∧ y = x)) := by
  unfold delPsPub; split
  · rename_i h; exact holds_delIn_of ok (sl0 := .psPub) h rfl sl y
  · rename_i h
    constructor
    · intro h1; exact ⟨h1, by rintro ⟨rfl, rfl⟩; exact h h1⟩
    · exact fun h1 => h1.1

theorem Grp.holds_delPull {g : Grp} (ok : g.Ok) (x : Sid) (sl : Slot) (y : Sid) :
    (g.delPull Code.fixed x).1.holds sl y ↔ (g.holds sl y ∧ ¬((sl = .pullRtmp ∨ sl = .pullRtsp) ∧ y = x)) := by
  unfold delPull; split
  · rename_i h
    simp only [Code.fixed, Bool.true_and, Bool.not_eq_true', Bool.or_eq_false_iff, decide_eq_false_iff_not] at h
    have e : ({ g with pulling := false } : Grp).holds sl y ↔ g.holds sl y := by cases sl <;> rfl
    dsimp only
    rw [e]
    constructor
    · intro h1
      refine ⟨h1, ?_⟩
      rintro ⟨hs, rfl⟩
      rcases hs with rfl | rfl
      · exact h.1 h1
      · exact h.2 h1
    · exact fun h1 => h1.1
  · rename_i h
    simp only [Code.fixed, Bool.true_and, Bool.not_eq_true', Bool.not_eq_false, Bool.or_eq_true, decide_eq_true_eq] at h
    dsimp only
    rw [holds_delIn]
    have key : ∀ sl' y', sl'.isIn = true → g.holds sl' y' → (sl' = .pullRtmp ∨ sl' = .pullRtsp) ∧ y' = x := by
      intro sl' y' i1 h1
      rcases h with h | h
      · have := ok.unique (sl := sl') (sl' := .pullRtmp) h1 h i1 rfl
        exact ⟨Or.inl this.1, this.2⟩
      · have := ok.unique (sl := sl') (sl' := .pullRtsp) h1 h i1 rfl
        exact ⟨Or.inr this.1, this.2⟩
    constructor
    · rintro ⟨h1, h2⟩
      cases sl <;> simp [holds, resetPull, Slot.isPub] at h1 h2 ⊢ <;> exact h1
    · rintro ⟨h1, h2⟩
      cases hi : sl.isIn
      · cases sl <;> simp [Slot.isIn] at hi <;> exact ⟨h1, rfl⟩
      · exact absurd (key sl y hi h1) h2


/-! #### subscribers and the operations that register nothing -/

theorem mem_insert {l : List Sid} {x y : Sid} : y ∈ Grp.insert l x ↔ (y ∈ l ∨ y = x) := by
  unfold Grp.insert; split
  · rename_i h
    constructor
    · exact Or.inl
    · rintro (h1 | rfl)
      · exact h1
      · simpa using h
  · simp

theorem Grp.holds_addRtmpSub (g : Grp) (x n : Sid) (sl : Slot) (y : Sid) :
    (g.addRtmpSub x n).1.holds sl y ↔ (g.holds sl y ∨ (sl = .rtmpSub ∧ y = x)) := by
  unfold addRtmpSub; rw [holds_pullIfNeeded]
  cases sl <;> simp [holds, mem_insert]

theorem Grp.holds_delRtmpSub (g : Grp) (x : Sid) (sl : Slot) (y : Sid) :
    (g.delRtmpSub x).holds sl y ↔ (g.holds sl y ∧ ¬(sl = .rtmpSub ∧ y = x)) := by
  cases sl <;> simp [holds, delRtmpSub]

theorem Grp.holds_describeRtspSub (g : Grp) (x : Sid) (sl : Slot) (y : Sid) :
    (g.describeRtspSub x).holds sl y ↔ (g.holds sl y ∨ (sl = .rtspSub ∧ y = x)) := by
  cases sl <;> simp [holds, describeRtspSub, mem_insert]

theorem Grp.holds_delRtspSub (g : Grp) (x : Sid) (sl : Slot) (y : Sid) :
    (g.delRtspSub x).holds sl y ↔ (g.holds sl y ∧ ¬(sl = .rtspSub ∧ y = x)) := by
  cases sl <;> simp [holds, delRtspSub]

theorem Grp.holds_playRtspSub (g : Grp) (n : Sid) (sl : Slot) (y : Sid) : (g.playRtspSub n).1.holds sl y ↔ g.holds sl y :=
  holds_pullIfNeeded g n sl y

theorem Grp.holds_startPull (g : Grp) (r : Bool) (retry : Option Nat) (n : Sid) (sl : Slot) (y : Sid) :
    (g.startPull r retry n).1.holds sl y ↔ g.holds sl y := by
  unfold startPull; rw [holds_pullIfNeeded]; cases sl <;> rfl

theorem Grp.holds_stopPull' (code : Code) (g : Grp) (sl : Slot) (y : Sid) : (g.stopPull' code).1.holds sl y ↔ g.holds sl y := by
  unfold stopPull'; dsimp only; split
  · cases sl <;> rfl
  · split
    · cases sl <;> rfl
    · split <;> cases sl <;> rfl

theorem Grp.holds_stopPull (code : Code) (g : Grp) (sl : Slot) (y : Sid) : (g.stopPull code).1.holds sl y ↔ g.holds sl y := by
  unfold stopPull; rw [holds_stopPull']; cases sl <;> rfl

theorem Grp.holds_kick (code : Code) (g : Grp) (k : KKind) (x : Sid) (sl : Slot) (y : Sid) : (g.kick code k x).1.holds sl y ↔ g.holds sl y := by
  unfold kick
  cases k <;> dsimp only
  · split <;> rfl
  · split
    · rw [holds_stopPull']; cases sl <;> rfl
    · rfl
  · split <;> rfl
  · split <;> rfl
  · split <;> rfl
  · rfl

theorem Grp.holds_tick (g : Grp) (n : Sid) (sl : Slot) (y : Sid) : (g.tick n).1.holds sl y ↔ g.holds sl y :=
  holds_pullIfNeeded g n sl y

theorem Grp.not_holds_default (sl : Slot) (y : Sid) : ¬({} : Grp).holds sl y := by
  cases sl <;> simp [holds]

/-- an inactive group holds nothing -/
theorem Grp.not_holds_of_inactive {g : Grp} (h : g.isInactive = true) (sl : Slot) (y : Sid) : ¬g.holds sl y := by
  simp only [isInactive, Bool.and_eq_true, Bool.not_eq_true', hasOut, hasSub, Bool.or_eq_false_iff] at h
  obtain ⟨⟨h1, ⟨h2, h3⟩, _⟩, _⟩ := h
  cases hi : sl.isIn
  · cases sl <;> simp [Slot.isIn] at hi
    · simp only [holds]; intro hm
      have : g.rtmpSubs ≠ [] := List.ne_nil_of_mem hm
      simp_all
    · simp only [holds]; intro hm
      have : g.rtspSubs ≠ [] := List.ne_nil_of_mem hm
      simp_all
  · exact not_holds_of_not_hasIn h1 sl y hi

/-- `getOrCreateGroup` registers nothing new -/
theorem holds_getOrCreate (s : Srv) (st : Stream) (sl : Slot) (y : Sid) : (s.getOrCreate st).holds sl y ↔ holdsAt s st sl y := by
  unfold Srv.getOrCreate holdsAt
  cases h : s.groups st with
  | none => simp [Grp.not_holds_default]
  | some g => simp

theorem holdsAt_of_groups {s : Srv} {st : Stream} {g : Grp} (hg : s.groups st = some g) (sl : Slot) (y : Sid) :
    holdsAt s st sl y ↔ g.holds sl y := by
  unfold holdsAt; simp [hg]

end Lal.Adm
