import LalModel.Proof.Total
import LalModel.Model.Rtp
import LalModel.Model.RtspIn
/-
  C13: `ParseRtpHeader` never panics, and what it accepts is safe for `RtpPacket.Body()`:
  the payload offset and the padding count leave a non-empty payload inside the packet.
-/
namespace Lal.Rtp
open Lal

theorem readCsrc_noPanic (b : Bytes) : ∀ (n off : Nat), NoPanic (readCsrc b n off) := by
  intro n
  induction n with
  | zero => intro off; exact NoPanic.ok _
  | succ n ih =>
    intro off
    unfold readCsrc
    split; · exact NoPanic.err
    split
    · have := ih (off + 4)
      split
      · exact NoPanic.ok _
      · rename_i f hf; intro s h; cases h; exact this s hf
    · exact NoPanic.err

theorem readCsrc_off (b : Bytes) : ∀ (n off : Nat) (l : List Nat) (o : Nat), readCsrc b n off = .ok (l, o) → off ≤ o := by
  intro n
  induction n with
  | zero => intro off l o h; simp only [readCsrc, Except.ok.injEq, Prod.mk.injEq] at h; omega
  | succ n ih =>
    intro off l o h
    unfold readCsrc at h
    split at h; · cases h
    split at h
    · split at h
      · rename_i l' o' hr
        have := ih _ _ _ hr
        simp only [Except.ok.injEq, Prod.mk.injEq] at h
        omega
      · cases h
    · cases h

/-- what `ParseRtpHeader` guarantees about an accepted packet -/
structure HdrOk (b : Bytes) (h : RtpHeader) : Prop where
  len : 12 ≤ b.length
  off12 : 12 ≤ h.payloadOffset
  off : h.payloadOffset < b.length
  pad : h.padding = 0 ∨ (h.padding = 1 ∧ h.payloadOffset + h.paddingLength < b.length)

theorem parseRtpHeader_noPanic (b : Bytes) : NoPanic (parseRtpHeader b) := by
  have hc := readCsrc_noPanic
  unfold parseRtpHeader
  split
  · dsimp only
    split
    · rename_i f hf; intro s h; cases h; exact hc _ _ _ s hf
    · repeat' split
      all_goals (first | exact NoPanic.err | exact NoPanic.ok _)
  · exact NoPanic.err

theorem parseRtpHeader_ok (b : Bytes) (h : RtpHeader) (hp : parseRtpHeader b = .ok h) : HdrOk b h := by
  unfold parseRtpHeader at hp
  split at hp
  · rename_i b0 b1 s0 s1 t0 t1 t2 t3 c0 c1 c2 c3 rest
    dsimp only at hp
    have hlen : 12 ≤ (b0 :: b1 :: s0 :: s1 :: t0 :: t1 :: t2 :: t3 :: c0 :: c1 :: c2 :: c3 :: rest).length := by
      simp only [List.length_cons]; omega
    have hpad : b0.toNat / 32 % 2 = 0 ∨ b0.toNat / 32 % 2 = 1 := by omega
    split at hp
    · cases hp
    · rename_i csrc off hcs
      have hoff := readCsrc_off _ _ _ _ _ hcs
      repeat' split at hp
      all_goals (try (cases hp; done))
      all_goals
        simp only [Except.ok.injEq] at hp
        subst hp
        refine ⟨hlen, ?_, ?_, ?_⟩
        · simp only; omega
        · simp only; omega
        · simp only
          rcases hpad with hz | ho
          · left; exact hz
          · right; refine ⟨ho, ?_⟩
            simp_all
  · cases hp

end Lal.Rtp

namespace Lal.Rtp
open Lal

/-- `Body()` of a packet that `ParseRtpHeader` accepted: in range and not empty -/
theorem body_ok (p : RtpPacket) (h : HdrOk p.raw p.hdr) :
    ∃ body, p.body = .ok body ∧ 0 < body.length ∧ body.length ≤ p.raw.length := by
  obtain ⟨hlen, h12, hoff, hpad⟩ := h
  unfold RtpPacket.body
  have hne : ¬ p.hdr.payloadOffset = 0 := by omega
  simp only [hne, if_false]
  rcases hpad with hz | ⟨h1, hlt⟩
  · have : ¬ p.hdr.padding = 1 := by omega
    simp only [this, if_false]
    rw [from?_ok (by omega)]
    refine ⟨_, rfl, ?_, ?_⟩ <;> simp <;> omega
  · simp only [h1, if_true]
    rw [if_neg (by omega)]
    rw [slice?_ok (by omega) (by omega)]
    refine ⟨_, rfl, ?_, ?_⟩ <;> simp <;> omega

end Lal.Rtp

namespace Lal.RtspIn
open Lal Lal.Rtp

theorem avcBoundaryOfBody_noPanic (b : Bytes) : NoPanic (avcBoundaryOfBody b) := by
  unfold avcBoundaryOfBody
  split; · exact NoPanic.ok _
  rw [idx?_ok (by omega)]
  dsimp only
  split; · exact NoPanic.ok _
  split
  · rw [idx?_ok (by omega)]; exact NoPanic.ok _
  · split
    · rw [idx?_ok (by omega)]; exact NoPanic.ok _
    · exact NoPanic.ok _

theorem hevcBoundaryOfBody_noPanic (b : Bytes) : NoPanic (hevcBoundaryOfBody b) := by
  unfold hevcBoundaryOfBody
  split; · exact NoPanic.ok _
  rw [idx?_ok (by omega)]
  dsimp only
  split; · exact NoPanic.ok _
  split
  · rw [idx?_ok (by omega)]; exact NoPanic.ok _
  · exact NoPanic.ok _

theorem isAvcBoundary_noPanic (p : RtpPacket) (h : HdrOk p.raw p.hdr) : NoPanic (isAvcBoundary p) := by
  obtain ⟨body, hb, _, _⟩ := body_ok p h
  unfold isAvcBoundary; rw [hb]; exact avcBoundaryOfBody_noPanic _

theorem isHevcBoundary_noPanic (p : RtpPacket) (h : HdrOk p.raw p.hdr) : NoPanic (isHevcBoundary p) := by
  obtain ⟨body, hb, _, _⟩ := body_ok p h
  unfold isHevcBoundary; rw [hb]; exact hevcBoundaryOfBody_noPanic _

end Lal.RtspIn
