import LalModel.Model.Rtp
import LalModel.Spec.RtpSpec
import LalModel.Proof.Bytes
/- Packing side: the RFC readers of Spec/RtpSpec.lean on what the packer models produce. -/
namespace Lal.Rtp
open Lal

theorem lor128 : ∀ pt, pt < 128 → pt ||| 128 = pt + 128 := by decide

theorem lor_mark (pt mark : Nat) (hpt : pt < 128) (hm : mark ≤ 1) : pt ||| mark * 128 = pt + mark * 128 := by
  have : mark = 0 ∨ mark = 1 := by omega
  rcases this with rfl | rfl
  · simp
  · simpa using lor128 pt hpt

/-- the payloads `PackNal` returns when it returns -/
def nalPayloads (hevc : Bool) (nal : Bytes) (maxSize : Nat) : List Bytes :=
  if nal.length ≤ maxSize then [nal]
  else fuLoop hevc (nal.getD 0 0) (nal.getD 1 0) (maxSize - fuHeaderSize hevc) nal.length true
         (nal.drop (if hevc then 2 else 1))

theorem packNal_ok (hevc : Bool) (nal : Bytes) (maxSize : Nat) (h : nal.length ≤ maxSize ∨ fuHeaderSize hevc < maxSize) :
    packNal hevc nal maxSize = .ok (nalPayloads hevc nal maxSize) := by
  unfold packNal nalPayloads
  by_cases h1 : nal.length ≤ maxSize
  · rw [if_pos h1, if_pos h1]
  · have h2 : fuHeaderSize hevc < maxSize := by rcases h with h | h; exact absurd h h1; exact h
    rw [if_neg h1, if_neg h1, if_neg (by omega), if_neg (by omega)]

theorem fuHeader_length (hevc : Bool) (n0 n1 : UInt8) (f l : Bool) :
    (fuHeader hevc n0 n1 f l).length = fuHeaderSize hevc := by
  cases hevc <;> simp [fuHeader, fuHeaderSize]

/-- every FU packet respects the payload limit -/
theorem fuLoop_size (hevc : Bool) (n0 n1 : UInt8) (chunk : Nat) :
    ∀ fuel first rest, ∀ p ∈ fuLoop hevc n0 n1 chunk fuel first rest, p.length ≤ fuHeaderSize hevc + chunk := by
  intro fuel
  induction fuel with
  | zero => intro first rest p hp; simp [fuLoop] at hp
  | succ f ih =>
    intro first rest p hp
    unfold fuLoop at hp
    by_cases h : rest.length > chunk
    · rw [if_pos h] at hp
      rcases List.mem_cons.mp hp with rfl | hp
      · simp [fuHeader_length]; omega
      · exact ih _ _ p hp
    · rw [if_neg h] at hp
      simp at hp
      subst hp
      simp [fuHeader_length]; omega

theorem nalPayloads_size (hevc : Bool) (nal : Bytes) (maxSize : Nat) (h : nal.length ≤ maxSize ∨ fuHeaderSize hevc < maxSize) :
    ∀ p ∈ nalPayloads hevc nal maxSize, p.length ≤ maxSize := by
  intro p hp
  unfold nalPayloads at hp
  by_cases h1 : nal.length ≤ maxSize
  · rw [if_pos h1] at hp; simp at hp; subst hp; exact h1
  · rw [if_neg h1] at hp
    have := fuLoop_size hevc _ _ _ _ _ _ p hp
    have h2 : fuHeaderSize hevc < maxSize := by rcases h with h | h; exact absurd h h1; exact h
    omega

/-! ### RtpPacker.Pack -/

theorem packLoop_length (pt ts ssrc : Nat) : ∀ (ps : List Bytes) (seq : Nat), (packLoop pt ts ssrc seq ps).length = ps.length := by
  intro ps
  induction ps with
  | nil => intro seq; simp [packLoop]
  | cons p rest ih =>
    intro seq
    cases rest with
    | nil => simp [packLoop]
    | cons q r => simp only [packLoop, List.length_cons, ih]

theorem packLoop_get (pt ts ssrc : Nat) :
    ∀ (ps : List Bytes) (seq i : Nat) (h : i < ps.length), seq < 65536 →
      (packLoop pt ts ssrc seq ps)[i]? =
        some (mkPacket pt ts ssrc (if i + 1 = ps.length then 1 else 0) ((seq + i) % 65536) ps[i]) := by
  intro ps
  induction ps with
  | nil => intro seq i h; simp at h
  | cons p rest ih =>
    intro seq i h hs
    cases rest with
    | nil =>
      have : i = 0 := by simp at h; omega
      subst this
      simp [packLoop, Nat.mod_eq_of_lt hs]
    | cons q r =>
      cases i with
      | zero => simp [packLoop, Nat.mod_eq_of_lt hs]
      | succ j =>
        have hj : j < (q :: r).length := by simp at h ⊢; omega
        have := ih ((seq + 1) % 65536) j hj (by omega)
        simp only [packLoop, List.getElem?_cons_succ, this, List.length_cons, List.getElem_cons_succ]
        have e1 : ((seq + 1) % 65536 + j) % 65536 = (seq + (j + 1)) % 65536 := by omega
        have e2 : (j + 1 = r.length + 1) = (j + 1 + 1 = r.length + 1 + 1) := by
          apply propext; omega
        rw [e1]
        simp only [e2]

/-- the RFC 3550 reader on a packet of `RtpPacker.Pack` -/
theorem spec_parse_mkPacket (pt ts ssrc mark seq : Nat) (payload : Bytes)
    (hpt : pt < 128) (hm : mark ≤ 1) (hseq : seq < 65536) (hts : ts < 4294967296) (hss : ssrc < 4294967296) :
    RtpSpec.parse (mkPacket pt ts ssrc mark seq payload).raw =
      some { marker := mark = 1, pt := pt, seq := seq, ts := ts, ssrc := ssrc, csrc := [], payload := payload } := by
  have h1 : pt % 256 ||| mark * 128 = pt + mark * 128 := by
    rw [Nat.mod_eq_of_lt (by omega)]; exact lor_mark pt mark hpt hm
  have h0 : (0 ||| 0 * 16 ||| 0 * 32 ||| 2 * 64 : Nat) = 128 := by decide
  have r16 := rd16_be16 seq hseq
  have r32a := rd32_be32 ts hts
  have r32b := rd32_be32 ssrc hss
  have hm1 : (pt + mark * 128) % 256 / 128 = mark := by omega
  have hm2 : (pt + mark * 128) % 256 % 128 = pt := by omega
  simp only [mkPacket, makeRtpPacket, packTo, defaultHeader, h0, h1, be16, be32, List.cons_append, List.nil_append,
    RtpSpec.parse, b8_toNat]
  simp [RtpSpec.csrcList, r16, r32a, r32b, hm1, hm2]

theorem rtpTimestamp_lt (ms rate : Nat) : rtpTimestamp ms rate < 4294967296 := by unfold rtpTimestamp; omega

/-- every packet of one `RtpPacker.Pack` call, read by the RFC 3550 reader -/
theorem packerPack_parse (kind : Kind) (rate ssrc maxSize seq pt ms : Nat) (payload : Bytes) (pkts : List RtpPacket) (seq' : Nat)
    (hpt : pt < 128) (hseq : seq < 65536) (hss : ssrc < 4294967296)
    (h : packerPack kind rate ssrc maxSize seq pt ms payload = .ok (pkts, seq')) :
    ∃ ps, payloadPack kind payload maxSize = .ok ps ∧ pkts.length = ps.length ∧ seq' = (seq + ps.length) % 65536 ∧
      ∀ i (hi : i < ps.length), (pkts[i]?).map (fun p => RtpSpec.parse p.raw) =
        some (some { marker := decide (i + 1 = ps.length), pt := pt, seq := (seq + i) % 65536, ts := rtpTimestamp ms rate,
                     ssrc := ssrc, csrc := [], payload := ps[i] }) := by
  unfold packerPack at h
  cases hp : payloadPack kind payload maxSize with
  | error e => rw [hp] at h; cases h
  | ok ps =>
    rw [hp] at h
    simp only [Except.ok.injEq, Prod.mk.injEq] at h
    obtain ⟨h1, h2⟩ := h
    refine ⟨ps, rfl, ?_, h2.symm, ?_⟩
    · rw [← h1, packLoop_length]
    · intro i hi
      rw [← h1, packLoop_get pt _ ssrc ps seq i hi hseq]
      simp only [Option.map_some]
      rw [spec_parse_mkPacket pt _ ssrc _ _ _ hpt (by split <;> omega) (by omega) (rtpTimestamp_lt ms rate) hss]
      by_cases e : i + 1 = ps.length <;> simp [e]

/-! ### well-formed units -/

/-- An H.264 NAL unit a sender may hand to the packer: non-empty, forbidden_zero_bit = 0; if it fits the limit it is
    sent as a single NAL unit packet and must have a single-NAL type (1..23); otherwise the limit must leave room
    for the two FU-A octets. -/
def AvcNalWF (nal : Bytes) (maxSize : Nat) : Prop :=
  match nal with
  | [] => False
  | h :: _ => h.toNat < 128 ∧ (if nal.length ≤ maxSize then 1 ≤ h.toNat % 32 ∧ h.toNat % 32 ≤ 23 else 2 < maxSize)

/-- An H.265 NAL unit: at least its two header bytes, any F / type / layer id / tid; sent whole it must not have one
    of the payload-structure types 48..63; otherwise the limit must leave room for the three FU octets. -/
def HevcNalWF (nal : Bytes) (maxSize : Nat) : Prop :=
  match nal with
  | h :: _ :: _ => if nal.length ≤ maxSize then h.toNat / 2 % 64 < 48 else 3 < maxSize
  | _ => False

instance (nal : Bytes) (m : Nat) : Decidable (AvcNalWF nal m) := by unfold AvcNalWF; split <;> infer_instance
instance (nal : Bytes) (m : Nat) : Decidable (HevcNalWF nal m) := by unfold HevcNalWF; split <;> infer_instance

def NalWF (hevc : Bool) (nal : Bytes) (maxSize : Nat) : Prop := if hevc then HevcNalWF nal maxSize else AvcNalWF nal maxSize

theorem NalWF.fits (hevc : Bool) (nal : Bytes) (maxSize : Nat) (h : NalWF hevc nal maxSize) :
    nal.length ≤ maxSize ∨ fuHeaderSize hevc < maxSize := by
  unfold NalWF at h
  by_cases h1 : nal.length ≤ maxSize
  · exact Or.inl h1
  · right
    cases hevc with
    | true =>
      simp only [if_true] at h
      match nal, h, h1 with
      | _ :: _ :: _, h, h1 => simp only [HevcNalWF] at h; rw [if_neg h1] at h; simpa [fuHeaderSize] using h
    | false =>
      simp only [Bool.false_eq_true, if_false] at h
      match nal, h, h1 with
      | _ :: _, h, h1 => simp only [AvcNalWF] at h; rw [if_neg h1] at h; simpa [fuHeaderSize] using h.2

end Lal.Rtp

/-! ### RFC 6184 reader on `PackNal` output -/
namespace Lal.RtpSpec
open Lal Lal.Rtp

theorem run_cons (step : Pending → Bytes → Option (Pending × List Bytes)) (pend pend' : Pending) (p : Bytes)
    (out : List Bytes) (ps : List Bytes) (h : step pend p = some (pend', out)) :
    run step pend (p :: ps) = (run step pend' ps).map fun r => out ++ r := by
  simp [run, h]

theorem run_cons_nil (step : Pending → Bytes → Option (Pending × List Bytes)) (pend pend' : Pending) (p : Bytes)
    (ps : List Bytes) (h : step pend p = some (pend', [])) :
    run step pend (p :: ps) = run step pend' ps := by
  simp [run, h]

theorem run_cons_one (step : Pending → Bytes → Option (Pending × List Bytes)) (pend pend' : Pending) (p u : Bytes)
    (ps : List Bytes) (h : step pend p = some (pend', [u])) :
    run step pend (p :: ps) = (run step pend' ps).map fun r => u :: r := by
  simp [run, h]

section avc

theorem step6184_single (nal : Bytes) (h : UInt8) (t : Bytes) (hn : nal = h :: t)
    (ht : 1 ≤ h.toNat % 32 ∧ h.toNat % 32 ≤ 23) :
    step6184 none nal = some (none, [nal]) := by
  subst hn
  simp [step6184, ht]

/-- FU-A on abstract indicator / header octets -/
theorem step6184_fu_start' (ind fh n0 : UInt8) (frag : Bytes) (hi : ind.toNat % 32 = 28) (hs : fh.toNat / 128 = 1)
    (he : ¬ fh.toNat / 64 % 2 = 1) (hh : b8 (ind.toNat / 32 * 32 + fh.toNat % 32) = n0) :
    step6184 none (ind :: fh :: frag) = some (some (n0 :: frag), []) := by
  simp [step6184, hi, hs, he, hh]

theorem step6184_fu_mid' (ind fh n0 : UInt8) (acc frag : Bytes) (hi : ind.toNat % 32 = 28) (hs : ¬ fh.toNat / 128 = 1)
    (he : ¬ fh.toNat / 64 % 2 = 1) (hh : b8 (ind.toNat / 32 * 32 + fh.toNat % 32) = n0) :
    step6184 (some (n0 :: acc)) (ind :: fh :: frag) = some (some (n0 :: (acc ++ frag)), []) := by
  simp [step6184, hi, hs, he, hh]

theorem step6184_fu_end' (ind fh n0 : UInt8) (acc frag : Bytes) (hi : ind.toNat % 32 = 28) (hs : ¬ fh.toNat / 128 = 1)
    (he : fh.toNat / 64 % 2 = 1) (hh : b8 (ind.toNat / 32 * 32 + fh.toNat % 32) = n0) :
    step6184 (some (n0 :: acc)) (ind :: fh :: frag) = some (none, [n0 :: (acc ++ frag)]) := by
  simp [step6184, hi, hs, he, hh]

theorem fuHeader_avc (n0 n1 : UInt8) (first last : Bool) :
    fuHeader false n0 n1 first last
      = [b8 (28 + n0.toNat / 32 % 4 * 32), b8 (n0.toNat % 32 + ((if first then 128 else 0) + (if last then 64 else 0)))] := by
  simp [fuHeader]

theorem avc_hdr_back (n0 : UInt8) (se : Nat) (h0 : n0.toNat < 128) (hse : se = 0 ∨ se = 64 ∨ se = 128) :
    b8 ((b8 (28 + n0.toNat / 32 % 4 * 32)).toNat / 32 * 32 + (b8 (n0.toNat % 32 + se)).toNat % 32) = n0 := by
  simp only [b8_toNat]
  have : (28 + n0.toNat / 32 % 4 * 32) % 256 / 32 * 32 + (n0.toNat % 32 + se) % 256 % 32 = n0.toNat := by omega
  rw [this]; exact b8_of_toNat n0

theorem step6184_fu_start (n0 n1 : UInt8) (frag : Bytes) (h0 : n0.toNat < 128) :
    step6184 none (fuHeader false n0 n1 true false ++ frag) = some (some (n0 :: frag), []) := by
  rw [fuHeader_avc]
  exact step6184_fu_start' _ _ n0 frag (by simp only [b8_toNat]; omega) (by simp only [b8_toNat]; simp; omega)
    (by simp only [b8_toNat]; simp; omega) (avc_hdr_back n0 _ h0 (by simp))

theorem step6184_fu_mid (n0 n1 : UInt8) (acc frag : Bytes) (h0 : n0.toNat < 128) :
    step6184 (some (n0 :: acc)) (fuHeader false n0 n1 false false ++ frag) = some (some (n0 :: (acc ++ frag)), []) := by
  rw [fuHeader_avc]
  exact step6184_fu_mid' _ _ n0 acc frag (by simp only [b8_toNat]; omega) (by simp only [b8_toNat]; simp; omega)
    (by simp only [b8_toNat]; simp; omega) (avc_hdr_back n0 _ h0 (by simp))

theorem step6184_fu_end (n0 n1 : UInt8) (acc frag : Bytes) (h0 : n0.toNat < 128) :
    step6184 (some (n0 :: acc)) (fuHeader false n0 n1 false true ++ frag) = some (none, [n0 :: (acc ++ frag)]) := by
  rw [fuHeader_avc]
  exact step6184_fu_end' _ _ n0 acc frag (by simp only [b8_toNat]; omega) (by simp only [b8_toNat]; simp; omega)
    (by simp only [b8_toNat]; simp; omega) (avc_hdr_back n0 _ h0 (by simp))

theorem run6184_fu_tail (n0 n1 : UInt8) (h0 : n0.toNat < 128) (chunk : Nat) (hc : 0 < chunk) :
    ∀ (fuel : Nat) (rest acc : Bytes) (more : List Bytes), rest.length < fuel →
      run step6184 (some (n0 :: acc)) (fuLoop false n0 n1 chunk fuel false rest ++ more)
        = (run step6184 none more).map fun r => (n0 :: (acc ++ rest)) :: r := by
  intro fuel
  induction fuel with
  | zero => intro rest acc more h; omega
  | succ f ih =>
    intro rest acc more h
    unfold fuLoop
    by_cases hl : rest.length > chunk
    · rw [if_pos hl, List.cons_append, run_cons_nil _ _ _ _ _ (step6184_fu_mid n0 n1 acc _ h0)]
      have hlen : (rest.drop chunk).length < f := by simp; omega
      rw [ih (rest.drop chunk) (acc ++ rest.take chunk) more hlen]
      simp [List.append_assoc]
    · rw [if_neg hl, List.cons_append, List.nil_append, run_cons_one _ _ _ _ _ _ (step6184_fu_end n0 n1 acc _ h0)]

/-- RFC 6184 on the payloads of one NAL unit, whatever follows: the unit comes out first, byte for byte. -/
theorem run6184_nal (nal : Bytes) (maxSize : Nat) (h : UInt8) (t : Bytes) (hn : nal = h :: t) (hF : h.toNat < 128)
    (hwf : if nal.length ≤ maxSize then 1 ≤ h.toNat % 32 ∧ h.toNat % 32 ≤ 23 else 2 < maxSize) (more : List Bytes) :
    run step6184 none (nalPayloads false nal maxSize ++ more) = (run step6184 none more).map fun r => nal :: r := by
  unfold nalPayloads
  by_cases h1 : nal.length ≤ maxSize
  · rw [if_pos h1] at hwf
    rw [if_pos h1, List.cons_append, List.nil_append, run_cons_one _ _ _ _ _ _ (step6184_single nal h t hn hwf)]
  · rw [if_neg h1] at hwf
    rw [if_neg h1]
    subst hn
    have hlen : (h :: t).length = t.length + 1 := by simp
    simp only [Bool.false_eq_true, if_false, List.drop_succ_cons, List.drop_zero, fuHeaderSize]
    have hd : (h :: t).getD 0 0 = h := by simp
    rw [hd, hlen]
    generalize (h :: t).getD 1 0 = n1
    unfold fuLoop
    have hl : t.length > maxSize - 2 := by simp at h1; omega
    rw [if_pos hl, List.cons_append, run_cons_nil _ _ _ _ _ (step6184_fu_start h n1 _ hF)]
    have hlen2 : (t.drop (maxSize - 2)).length < t.length := by simp; omega
    rw [run6184_fu_tail h n1 hF (maxSize - 2) (by omega) t.length _ _ more hlen2]
    simp

theorem run6184_nals (maxSize : Nat) : ∀ (nals : List Bytes), (∀ n ∈ nals, AvcNalWF n maxSize) →
    run step6184 none (nals.flatMap fun n => nalPayloads false n maxSize) = some nals := by
  intro nals
  induction nals with
  | nil => intro _; simp [run]
  | cons n ns ih =>
    intro hwf
    have hn := hwf n (by simp)
    rw [List.flatMap_cons]
    unfold AvcNalWF at hn
    split at hn
    · exact absurd hn id
    · rename_i h t
      rw [run6184_nal _ maxSize h t rfl hn.1 hn.2, ih (fun m hm => hwf m (by simp [hm]))]
      simp

end avc

section hevc

theorem step7798_single (nal : Bytes) (h0 h1 : UInt8) (t : Bytes) (hn : nal = h0 :: h1 :: t)
    (ht : h0.toNat / 2 % 64 < 48) :
    step7798 none nal = some (none, [nal]) := by
  subst hn
  simp [step7798, hevcHdr, ht]

/-- FU on abstract payload-header / FU-header octets -/
theorem step7798_fu_start' (p0 p1 fh f0 n0 n1 : UInt8) (frag : Bytes) (ht : p0.toNat / 2 % 64 = 49) (hs : fh.toNat / 128 = 1)
    (he : ¬ fh.toNat / 64 % 2 = 1)
    (hh : ({ hevcHdr p0 p1 with type := fh.toNat % 64 } : HevcHdr).bytes = [n0, n1]) :
    step7798 none (p0 :: p1 :: fh :: f0 :: frag) = some (some (n0 :: n1 :: f0 :: frag), []) := by
  have ht' : (hevcHdr p0 p1).type = 49 := ht
  simp only [step7798, ht', hh]
  simp [hs, he]

theorem step7798_fu_mid' (p0 p1 fh f0 n0 n1 : UInt8) (acc frag : Bytes) (ht : p0.toNat / 2 % 64 = 49) (hs : ¬ fh.toNat / 128 = 1)
    (he : ¬ fh.toNat / 64 % 2 = 1)
    (hh : ({ hevcHdr p0 p1 with type := fh.toNat % 64 } : HevcHdr).bytes = [n0, n1]) :
    step7798 (some (n0 :: n1 :: acc)) (p0 :: p1 :: fh :: f0 :: frag) = some (some (n0 :: n1 :: (acc ++ f0 :: frag)), []) := by
  have ht' : (hevcHdr p0 p1).type = 49 := ht
  simp only [step7798, ht', hh]
  simp [hs, he]

theorem step7798_fu_end' (p0 p1 fh f0 n0 n1 : UInt8) (acc frag : Bytes) (ht : p0.toNat / 2 % 64 = 49) (hs : ¬ fh.toNat / 128 = 1)
    (he : fh.toNat / 64 % 2 = 1)
    (hh : ({ hevcHdr p0 p1 with type := fh.toNat % 64 } : HevcHdr).bytes = [n0, n1]) :
    step7798 (some (n0 :: n1 :: acc)) (p0 :: p1 :: fh :: f0 :: frag) = some (none, [n0 :: n1 :: (acc ++ f0 :: frag)]) := by
  have ht' : (hevcHdr p0 p1).type = 49 := ht
  simp only [step7798, ht', hh]
  simp [hs, he]

theorem fuHeader_hevc (n0 n1 : UInt8) (first last : Bool) :
    fuHeader true n0 n1 first last
      = [b8 (n0.toNat / 128 * 128 + 98 + n0.toNat % 2), n1,
         b8 (n0.toNat / 2 % 64 + ((if first then 128 else 0) + (if last then 64 else 0)))] := by
  simp [fuHeader]

theorem hevc_hdr_bytes (n0 n1 : UInt8) (se : Nat) (hse : se = 0 ∨ se = 64 ∨ se = 128) :
    ({ hevcHdr (b8 (n0.toNat / 128 * 128 + 98 + n0.toNat % 2)) n1 with type := (b8 (n0.toNat / 2 % 64 + se)).toNat % 64 } : HevcHdr).bytes
      = [n0, n1] := by
  have hx := n0.toNat_lt
  have hy := n1.toNat_lt
  simp only [hevcHdr, HevcHdr.bytes, b8_toNat]
  have e0 : (n0.toNat / 128 * 128 + 98 + n0.toNat % 2) % 256 / 128 * 128 + (n0.toNat / 2 % 64 + se) % 256 % 64 * 2 +
      ((n0.toNat / 128 * 128 + 98 + n0.toNat % 2) % 256 % 2 * 32 + n1.toNat / 8) / 32 = n0.toNat := by omega
  have e1 : ((n0.toNat / 128 * 128 + 98 + n0.toNat % 2) % 256 % 2 * 32 + n1.toNat / 8) % 32 * 8 + n1.toNat % 8 = n1.toNat := by omega
  rw [e0, e1, b8_of_toNat, b8_of_toNat]

theorem fu_type49 (n0 : UInt8) : (b8 (n0.toNat / 128 * 128 + 98 + n0.toNat % 2)).toNat / 2 % 64 = 49 := by
  have hx := n0.toNat_lt
  simp only [b8_toNat]; omega

theorem step7798_fu_start (n0 n1 f0 : UInt8) (frag : Bytes) :
    step7798 none (fuHeader true n0 n1 true false ++ f0 :: frag) = some (some (n0 :: n1 :: f0 :: frag), []) := by
  have hx := n0.toNat_lt
  rw [fuHeader_hevc]
  exact step7798_fu_start' _ _ _ f0 n0 n1 frag (fu_type49 n0) (by simp only [b8_toNat]; simp; omega)
    (by simp only [b8_toNat]; simp; omega) (hevc_hdr_bytes n0 n1 _ (by simp))

theorem step7798_fu_mid (n0 n1 f0 : UInt8) (acc frag : Bytes) :
    step7798 (some (n0 :: n1 :: acc)) (fuHeader true n0 n1 false false ++ f0 :: frag)
      = some (some (n0 :: n1 :: (acc ++ f0 :: frag)), []) := by
  have hx := n0.toNat_lt
  rw [fuHeader_hevc]
  exact step7798_fu_mid' _ _ _ f0 n0 n1 acc frag (fu_type49 n0) (by simp only [b8_toNat]; simp; omega)
    (by simp only [b8_toNat]; simp; omega) (hevc_hdr_bytes n0 n1 _ (by simp))

theorem step7798_fu_end (n0 n1 f0 : UInt8) (acc frag : Bytes) :
    step7798 (some (n0 :: n1 :: acc)) (fuHeader true n0 n1 false true ++ f0 :: frag)
      = some (none, [n0 :: n1 :: (acc ++ f0 :: frag)]) := by
  have hx := n0.toNat_lt
  rw [fuHeader_hevc]
  exact step7798_fu_end' _ _ _ f0 n0 n1 acc frag (fu_type49 n0) (by simp only [b8_toNat]; simp; omega)
    (by simp only [b8_toNat]; simp; omega) (hevc_hdr_bytes n0 n1 _ (by simp))

theorem run7798_fu_tail (n0 n1 : UInt8) (chunk : Nat) (hc : 0 < chunk) :
    ∀ (fuel : Nat) (rest acc : Bytes) (more : List Bytes), rest.length < fuel → 0 < rest.length →
      run step7798 (some (n0 :: n1 :: acc)) (fuLoop true n0 n1 chunk fuel false rest ++ more)
        = (run step7798 none more).map fun r => (n0 :: n1 :: (acc ++ rest)) :: r := by
  intro fuel
  induction fuel with
  | zero => intro rest acc more h; omega
  | succ f ih =>
    intro rest acc more h hpos
    unfold fuLoop
    by_cases hl : rest.length > chunk
    · rw [if_pos hl, List.cons_append]
      have htk : ∃ f0 fr, rest.take chunk = f0 :: fr := by
        cases rest with
        | nil => simp at hpos
        | cons x xs => cases chunk with
          | zero => omega
          | succ c => exact ⟨x, xs.take c, by simp⟩
      obtain ⟨f0, fr, htk⟩ := htk
      rw [htk, run_cons_nil _ _ _ _ _ (step7798_fu_mid n0 n1 f0 acc fr)]
      have hlen : (rest.drop chunk).length < f := by simp; omega
      have hpos' : 0 < (rest.drop chunk).length := by simp; omega
      rw [ih (rest.drop chunk) (acc ++ f0 :: fr) more hlen hpos', ← htk]
      simp [List.append_assoc]
    · rw [if_neg hl, List.cons_append, List.nil_append]
      cases rest with
      | nil => simp at hpos
      | cons x xs => rw [run_cons_one _ _ _ _ _ _ (step7798_fu_end n0 n1 x acc xs)]

/-- RFC 7798 on the payloads of one NAL unit, whatever follows: the unit comes out first, both header bytes included. -/
theorem run7798_nal (nal : Bytes) (maxSize : Nat) (h0 h1 : UInt8) (t : Bytes) (hn : nal = h0 :: h1 :: t)
    (hwf : if nal.length ≤ maxSize then h0.toNat / 2 % 64 < 48 else 3 < maxSize) (more : List Bytes) :
    run step7798 none (nalPayloads true nal maxSize ++ more) = (run step7798 none more).map fun r => nal :: r := by
  unfold nalPayloads
  by_cases hle : nal.length ≤ maxSize
  · rw [if_pos hle] at hwf
    rw [if_pos hle, List.cons_append, List.nil_append, run_cons_one _ _ _ _ _ _ (step7798_single nal h0 h1 t hn hwf)]
  · rw [if_neg hle] at hwf
    rw [if_neg hle]
    subst hn
    have hlen : (h0 :: h1 :: t).length = t.length + 2 := by simp
    simp only [if_true, List.drop_succ_cons, List.drop_zero, fuHeaderSize]
    have hd0 : (h0 :: h1 :: t).getD 0 0 = h0 := by simp
    have hd1 : (h0 :: h1 :: t).getD 1 0 = h1 := by simp
    rw [hd0, hd1, hlen]
    unfold fuLoop
    have hl : t.length > maxSize - 3 := by simp at hle; omega
    rw [if_pos hl, List.cons_append]
    have htk : ∃ f0 fr, t.take (maxSize - 3) = f0 :: fr := by
      cases t with
      | nil => simp at hl
      | cons x xs =>
        have : maxSize - 3 = (maxSize - 4) + 1 := by omega
        rw [this]; exact ⟨x, xs.take (maxSize - 4), by simp⟩
    obtain ⟨f0, fr, htk⟩ := htk
    rw [htk, run_cons_nil _ _ _ _ _ (step7798_fu_start h0 h1 f0 fr)]
    have hlen2 : (t.drop (maxSize - 3)).length < t.length + 1 := by simp; omega
    have hpos : 0 < (t.drop (maxSize - 3)).length := by simp; omega
    rw [run7798_fu_tail h0 h1 (maxSize - 3) (by omega) (t.length + 1) _ _ more hlen2 hpos, ← htk]
    simp

theorem run7798_nals (maxSize : Nat) : ∀ (nals : List Bytes), (∀ n ∈ nals, HevcNalWF n maxSize) →
    run step7798 none (nals.flatMap fun n => nalPayloads true n maxSize) = some nals := by
  intro nals
  induction nals with
  | nil => intro _; simp [run]
  | cons n ns ih =>
    intro hwf
    have hn := hwf n (by simp)
    rw [List.flatMap_cons]
    unfold HevcNalWF at hn
    split at hn
    · rename_i h0 h1 t
      rw [run7798_nal _ maxSize h0 h1 t rfl hn, ih (fun m hm => hwf m (by simp [hm]))]
      simp
    · exact absurd hn id

end hevc

section aac

theorem step3640_single' (a b : UInt8) (frame : Bytes) (h8 : b.toNat % 8 = 0) (hs : (a.toNat * 256 + b.toNat) / 8 = frame.length) :
    step3640 none (0 :: 16 :: a :: b :: frame) = some (none, [frame]) := by
  have hb : rd16 (0 : UInt8) 16 = 16 := by decide
  simp only [step3640, hb]
  simp [auHeaders, h8, hs]

theorem step3640_single (frame : Bytes) (hl : frame.length < 8192) :
    step3640 none ([0, 16, b8 (frame.length / 32), b8 (frame.length % 32 * 8)] ++ frame) = some (none, [frame]) :=
  step3640_single' _ _ frame (by simp only [b8_toNat]; omega) (by simp only [b8_toNat]; omega)

theorem run3640_frame (frame : Bytes) (maxSize : Nat) (h0 : 0 < frame.length) (hl : frame.length < 8192) (hm : 0 < maxSize)
    (more : List Bytes) :
    run3640 none (aacPack frame maxSize ++ more) = (run3640 none more).map fun r => frame :: r := by
  have hne : frame ≠ [] := by intro e; subst e; simp at h0
  have : aacPack frame maxSize = [[0, 16, b8 (frame.length / 32), b8 (frame.length % 32 * 8)] ++ frame] := by
    unfold aacPack; rw [if_neg (by simp [hne]; omega)]
  rw [this, List.cons_append, List.nil_append]
  simp only [run3640, step3640_single frame hl]
  simp

theorem run3640_frames (maxSize : Nat) (hm : 0 < maxSize) : ∀ (frames : List Bytes),
    (∀ f ∈ frames, 0 < f.length ∧ f.length < 8192) →
    run3640 none (frames.flatMap fun f => aacPack f maxSize) = some frames := by
  intro frames
  induction frames with
  | nil => intro _; simp [run3640]
  | cons f fs ih =>
    intro hwf
    have hf := hwf f (by simp)
    rw [List.flatMap_cons, run3640_frame f maxSize hf.1 hf.2 hm, ih (fun m hm => hwf m (by simp [hm]))]
    simp

end aac

end Lal.RtpSpec
