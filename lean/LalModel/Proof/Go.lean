import LalModel.Model.Go
namespace Lal

@[simp] theorem GoM.ok_bind {α β} (a : α) (f : α → GoM β) : ((Except.ok a : GoM α) >>= f) = f a := rfl
@[simp] theorem GoM.error_bind {α β} (e : Fault) (f : α → GoM β) : ((Except.error e : GoM α) >>= f) = Except.error e := rfl
@[simp] theorem GoM.throw_bind {α β} (e : Fault) (f : α → GoM β) : ((throw e : GoM α) >>= f) = Except.error e := rfl
@[simp] theorem GoM.pure_eq {α} (a : α) : (pure a : GoM α) = Except.ok a := rfl
@[simp] theorem GoM.throw_eq {α} (e : Fault) : (throw e : GoM α) = Except.error e := rfl
@[simp] theorem GoM.ite_bind {α β} (c : Prop) [Decidable c] (x y : GoM α) (f : α → GoM β) :
    ((if c then x else y) >>= f) = if c then x >>= f else y >>= f := by
  split <;> rfl

theorem idx?_eq (site : String) (b : Bytes) (i : Nat) (x : UInt8) (h : b[i]? = some x) : idx? site b i = .ok x := by
  simp [idx?, h]

end Lal
