import LalModel.Proof.HlsEnded
import LalModel.Proof.HlsPartition
/- Unless cleanup is immediate, the record playlist lists every segment ever closed (since the directory was wiped), in order. -/
namespace Lal.HlsC
open Lal Lal.Hls Lal.Fs

variable {c : Cfg}

theorem closedLog_nil (log : List (Nat × Nat)) : closedLog log [] = log := rfl
theorem closedLog_cons (log : List (Nat × Nat)) (op : FOp) (ops : List FOp) :
    closedLog log (op :: ops) = closedLog (logStep log op) ops := rfl
theorem closedLog_append (log : List (Nat × Nat)) (a b : List FOp) :
    closedLog log (a ++ b) = closedLog (closedLog log a) b := by simp [closedLog, List.foldl_append]

/-- muxer side: ring allocated, and the open fragment's file is the one named in its ring slot -/
def RecM (c : Cfg) (m : Mux) : Prop :=
  m.frags.length = c.cap ∧
  (m.opened = true → ∃ now, m.cur = .seg now (cid m) ∧ (slot c m (cid m)).name = some (now, cid m))

/-- directory side: the record playlist, if present, is a document listing exactly the closed segments -/
def RecD (d : Dir) (log : List (Nat × Nat)) : Prop :=
  recordNames d = log.map some ∧ ∀ f, d .record = some f → ∃ pl, f = { content := .doc pl, isOpen := false }

theorem recD_frame {d d' : Dir} {log : List (Nat × Nat)} (h : RecD d log) (hr : d' .record = d .record) : RecD d' log := by
  unfold RecD recordNames at *
  rw [hr]; exact h

theorem slot_updDur (m : Mux) (fi ts x : Nat) :
    (slot c (updDur m fi ts) x).name = (slot c m x).name ∧ (updDur m fi ts).frags.length = m.frags.length := by
  unfold updDur
  split
  · split
    · refine ⟨?_, by simp⟩
      unfold slot
      simp only [List.getD_eq_getElem?_getD, List.getElem?_set]
      by_cases hi : fi = x % c.cap
      · subst hi
        by_cases hl : x % c.cap < m.frags.length
        · simp [hl]
        · simp [hl]
      · simp [hi]
    · exact ⟨rfl, (by first | rfl | trivial)⟩
  · exact ⟨rfl, (by first | rfl | trivial)⟩

theorem updDur_cid (m : Mux) (fi ts : Nat) : cid (updDur m fi ts) = cid m := by
  unfold updDur; split
  · split <;> rfl
  · rfl

theorem writeRecord_ops_none (m : Mux) :
    ∃ pl' : Playlist, (writeRecord c m none).2 = [Fs.Op.readFile Path.record] ++ writeM3u8 .record .recordBak pl' ∧
      pl'.entries = [entryOf (m.frags.getD ((m.frag + m.nfrags - 1) % c.cap) {})] := by
  unfold writeRecord; exact ⟨_, rfl, rfl⟩

theorem writeRecord_ops_doc (m : Mux) (pl : Playlist) (b : Bool) :
    ∃ pl' : Playlist, (writeRecord c m (some { content := .doc pl, isOpen := b })).2 =
        [Fs.Op.readFile Path.record] ++ writeM3u8 .record .recordBak pl' ∧
      pl'.entries = pl.entries ++ [entryOf (m.frags.getD ((m.frag + m.nfrags - 1) % c.cap) {})] := by
  unfold writeRecord; exact ⟨_, rfl, rfl⟩

/-- `closeFragment` in the modes that keep a record playlist -/
theorem rec_close (h01 : c.cleanup = Gen.c10CleanupNever ∨ c.cleanup = Gen.c10CleanupInTheEnd)
    (l : Bool) (m : Mux) (d : Dir) (log : List (Nat × Nat)) (hm : RecM c m) (hd : RecD d log) :
    RecM c (closeFragment c l m d).1 ∧ RecD (applyAll under d (closeFragment c l m d).2) (closedLog log (closeFragment c l m d).2) := by
  by_cases ho : m.opened = true
  · obtain ⟨now, hcur, hname⟩ := hm.2 ho
    rw [closeFragment_eq l d ho]
    have htail : closeTail c (closedMux c m) (applyAll under d (closeOps1 c m l)) =
        writeRecord c (closedMux c m) (applyAll under d (closeOps1 c m l) .record) := by
      unfold closeTail; simp only [h01, if_true]
    rw [htail]
    -- the directory and the log after close / write .bak / rename
    have hrec1 : applyAll under d (closeOps1 c m l) .record = d .record := by
      show Fs.apply under (Fs.apply under (Fs.apply under d (.close m.cur)) (.writeFile .liveBak (livePlaylist c (closedMux c m) l))) (.rename .liveBak .live) .record = _
      have h2 : Fs.apply under (Fs.apply under d (.close m.cur)) (.writeFile .liveBak (livePlaylist c (closedMux c m) l)) .liveBak
          = some { content := .doc (livePlaylist c (closedMux c m) l), isOpen := false } := set_same _ _ _
      rw [apply_rename_some h2, set_other _ _ (by simp), set_other _ _ (by simp)]
      have h3 : ∀ (d0 : Dir) (pl0 : Playlist), Fs.apply under d0 (.writeFile .liveBak pl0) .record = d0 .record :=
        fun d0 pl0 => set_other _ _ (by simp)
      rw [h3, hcur]
      cases hf : d (.seg now (cid m)) with
      | none => simp [Fs.apply, hf]
      | some f0 => rw [apply_close_some hf, set_other _ _ (by simp)]
    have hlog1 : closedLog log (closeOps1 c m l) = log ++ [(now, cid m)] := by
      have h0 : closedLog log (closeOps1 c m l) = logStep (logStep (logStep log (.close m.cur))
          (.writeFile .liveBak (livePlaylist c (closedMux c m) l))) (.rename .liveBak .live) := rfl
      rw [h0, hcur]; rfl
    have hcf : (closedMux c m).frags.getD (((closedMux c m).frag + (closedMux c m).nfrags - 1) % c.cap) {} = slot c m (cid m) := by
      have : (closedMux c m).frag + (closedMux c m).nfrags - 1 = cid m := by
        have := closedMux_cid (c := c) (m := m); unfold cid at this ⊢; omega
      rw [this, closedMux_frags]; rfl
    have hrm : RecM c (writeRecord c (closedMux c m) (applyAll under d (closeOps1 c m l) .record)).1 := by
      obtain ⟨r, ops, hw, _⟩ := writeRecord_spec (c := c) (closedMux c m) (applyAll under d (closeOps1 c m l) .record)
      rw [hw]
      refine ⟨?_, ?_⟩
      · show (closedMux c m).frags.length = _; rw [closedMux_frags]; exact hm.1
      · intro hop
        have : (closedMux c m).opened = true := hop
        rw [closedMux_opened] at this; cases this
    refine ⟨hrm, ?_⟩
    show RecD (applyAll under d (closeOps1 c m l ++ _)) (closedLog log (closeOps1 c m l ++ _))
    rw [applyAll_append, closedLog_append, hlog1, hrec1]
    -- the record playlist is rewritten with one more entry
    have hd1 : RecD (applyAll under d (closeOps1 c m l)) log := recD_frame hd hrec1
    generalize applyAll under d (closeOps1 c m l) = d1 at hd1 hrec1 ⊢
    have hfin : ∀ pl' : Playlist, applyAll under d1 ([Fs.Op.readFile Path.record] ++ writeM3u8 .record .recordBak pl') .record
        = some { content := .doc pl', isOpen := false } := by
      intro pl'
      show Fs.apply under (Fs.apply under (Fs.apply under d1 (.readFile .record)) (.writeFile .recordBak pl')) (.rename .recordBak .record) .record = _
      have h2 : Fs.apply under (Fs.apply under d1 (.readFile .record)) (.writeFile .recordBak pl') .recordBak
          = some { content := .doc pl', isOpen := false } := set_same _ _ _
      rw [apply_rename_some h2, set_same]
    have hlogq : ∀ pl' : Playlist, closedLog (log ++ [(now, cid m)]) ([Fs.Op.readFile Path.record] ++ writeM3u8 .record .recordBak pl')
        = log ++ [(now, cid m)] := fun _ => rfl
    cases hr : d .record with
    | none =>
      have hnames : log = [] := by
        have := hd.1; unfold recordNames at this; rw [hr] at this
        cases log with
        | nil => rfl
        | cons a l' => simp at this
      obtain ⟨pl', hops, hent⟩ := writeRecord_ops_none (c := c) (closedMux c m)
      rw [hops, hlogq]
      refine ⟨?_, ?_⟩
      · unfold recordNames
        rw [hfin]
        simp only [hent, hcf, hnames]
        simp [entryOf, hname]
      · intro f hf; rw [hfin] at hf; cases hf; exact ⟨_, rfl⟩
    | some f0 =>
      obtain ⟨pl, rfl⟩ := hd.2 f0 hr
      obtain ⟨pl', hops, hent⟩ := writeRecord_ops_doc (c := c) (closedMux c m) pl false
      rw [hops, hlogq]
      refine ⟨?_, ?_⟩
      · unfold recordNames
        rw [hfin]
        have := hd.1; unfold recordNames at this; rw [hr] at this
        simp only [] at this
        simp only [hent, hcf]
        simp [entryOf, hname, this]
      · intro f hf; rw [hfin] at hf; cases hf; exact ⟨_, rfl⟩
  · have ho' : m.opened = false := by cases hx : m.opened <;> simp_all
    rw [closeFragment_closed l d ho']
    exact ⟨hm, hd⟩

theorem rec_acts (h01 : c.cleanup = Gen.c10CleanupNever ∨ c.cleanup = Gen.c10CleanupInTheEnd) :
    ∀ (as : List Act) (m : Mux) (d : Dir) (log : List (Nat × Nat)) (o : Bool),
    actsOk as m.opened = some o → RecM c m → RecD d log →
    RecM c (actsRun c as m d).1 ∧ RecD (applyAll under d (actsRun c as m d).2) (closedLog log (actsRun c as m d).2)
  | [], m, d, log, _, _, hm, hd => ⟨hm, hd⟩
  | .close l :: as, m, d, log, o, hv, hm, hd => by
    simp only [actsRun, actStep]
    obtain ⟨h1, h2⟩ := rec_close h01 l m d log hm hd
    have hv' : actsOk as (closeFragment c l m d).1.opened = some o := by rw [closeFragment_opened]; exact hv
    have := rec_acts h01 as _ _ _ o hv' h1 h2
    rw [applyAll_append, closedLog_append]; exact this
  | .opn now ts dc :: as, m, d, log, o, hv, hm, hd => by
    simp only [actsRun, actStep]
    have hmo : m.opened = false := by
      cases hx : m.opened with
      | false => rfl
      | true => simp [actsOk, hx] at hv
    have hv' : actsOk as (openMux c m now ts dc).opened = some o := by
      simp only [actsOk, hmo, Bool.false_eq_true, if_false] at hv; exact hv
    have h1 : RecM c (openMux c m now ts dc) := by
      refine ⟨?_, fun _ => ⟨now, rfl, ?_⟩⟩
      · show (m.frags.set _ _).length = _; rw [List.length_set]; exact hm.1
      · rw [cid_openMux, slot_openMux_self hm.1]
    have h2 : RecD (applyAll under d (openOps m now)) (closedLog log (openOps m now)) := by
      have hl : closedLog log (openOps m now) = log := rfl
      rw [hl]
      apply recD_frame hd
      show Fs.apply under (Fs.apply under d (.create _)) (.write _ _) .record = _
      have hc1 : Fs.apply under d (.create (.seg now (fragmentId m))) (.seg now (fragmentId m)) = some { content := .data [], isOpen := true } := set_same _ _ _
      rw [apply_write_data _ hc1, set_other _ _ (by simp)]
      exact set_other _ _ (by simp)
    have := rec_acts h01 as _ _ _ o hv' h1 h2
    rw [applyAll_append, closedLog_append]; exact this
  | .wr f :: as, m, d, log, o, hv, hm, hd => by
    simp only [actsRun, actStep]
    have hmo : m.opened = true := by
      cases hx : m.opened with
      | true => rfl
      | false => simp [actsOk, hx] at hv
    have hv' : actsOk as m.opened = some o := by simp only [actsOk, hmo, if_true] at hv; rw [hmo]; exact hv
    obtain ⟨now, hcur, _⟩ := hm.2 hmo
    have h2 : RecD (applyAll under d [.write m.cur (.frame f)]) (closedLog log [.write m.cur (.frame f)]) := by
      have hl : closedLog log [.write m.cur (.frame f)] = log := rfl
      rw [hl]
      apply recD_frame hd
      show Fs.apply under d (.write m.cur (.frame f)) .record = _
      rw [hcur]
      cases hf : d (.seg now (cid m)) with
      | none => simp [Fs.apply, hf]
      | some f0 =>
        obtain ⟨ct, b⟩ := f0
        cases ct with
        | data old => rw [apply_write_data _ hf]; exact set_other _ _ (by simp)
        | doc pl => simp [Fs.apply, hf]
    have := rec_acts h01 as m _ _ o hv' hm h2
    rw [applyAll_append, closedLog_append]; exact this
  | .dur fi ts :: as, m, d, log, o, hv, hm, hd => by
    simp only [actsRun, actStep]
    have hv' : actsOk as (updDur m fi ts).opened = some o := by rw [updDur_opened]; exact hv
    have h1 : RecM c (updDur m fi ts) := by
      refine ⟨by rw [(slot_updDur (c := c) m fi ts 0).2]; exact hm.1, ?_⟩
      intro hop
      rw [updDur_opened] at hop
      obtain ⟨now, h1, h2⟩ := hm.2 hop
      exact ⟨now, by rw [updDur_cur, updDur_cid]; exact h1, by rw [updDur_cid, (slot_updDur m fi ts _).1]; exact h2⟩
    exact rec_acts h01 as _ (applyAll under d []) (closedLog log []) o hv' h1 hd

/-- world invariant -/
def RecW (c : Cfg) (w : World) (log : List (Nat × Nat)) : Prop :=
  RecD w.dir log ∧ ∀ m, w.mux = some m → RecM c m

theorem rec_step (h01 : c.cleanup = Gen.c10CleanupNever ∨ c.cleanup = Gen.c10CleanupInTheEnd)
    (w : World) (log : List (Nat × Nat)) (e : Ev) (h : RecW c w log) :
    RecW c (step c w e).1 (closedLog log (step c w e).2) ∧ (step c w e).1.dir = applyAll under w.dir (step c w e).2 := by
  obtain ⟨hd, hm⟩ := h
  cases e with
  | start =>
    cases hmx : w.mux with
    | some m0 => simp only [step, hmx]; exact ⟨⟨hd, hm⟩, (by first | rfl | trivial)⟩
    | none =>
      simp only [step, hmx]
      refine ⟨⟨hd, ?_⟩, (by first | rfl | trivial)⟩
      intro m hmm
      simp only [Option.some.injEq] at hmm
      subst hmm
      refine ⟨?_, ?_⟩
      · cases hl : w.dir .live with
        | none => simp [newMux]
        | some f0 => obtain ⟨ct, b⟩ := f0; cases ct <;> simp [newMux]
      · intro ho
        exfalso
        cases hl : w.dir .live with
        | none => rw [hl] at ho; cases ho
        | some f0 => obtain ⟨ct, b⟩ := f0; cases ct <;> (rw [hl] at ho; cases ho)
  | patpmt b =>
    cases hmx : w.mux with
    | some m0 =>
      simp only [step, hmx]
      refine ⟨⟨hd, ?_⟩, (by first | rfl | trivial)⟩
      intro m hmm
      simp only [Option.some.injEq] at hmm
      subst hmm
      exact hm m0 hmx
    | none => simp only [step, hmx]; exact ⟨⟨hd, hm⟩, (by first | rfl | trivial)⟩
  | pend a => simp only [step]; exact ⟨⟨hd, hm⟩, (by first | rfl | trivial)⟩
  | feed f now =>
    cases hmx : w.mux with
    | none => simp only [step, hmx]; exact ⟨⟨hd, hm⟩, (by first | rfl | trivial)⟩
    | some m0 =>
      simp only [step, hmx]
      obtain ⟨as, h1, h2, h3, _, _⟩ := feed_acts (c := c) now f m0 w.dir w.pending
      obtain ⟨g1, g2⟩ := rec_acts h01 as m0 w.dir log _ h3 (hm m0 hmx) hd
      rw [h2]
      refine ⟨⟨g2, ?_⟩, (by first | rfl | trivial)⟩
      intro m hmm
      simp only [Option.some.injEq] at hmm
      subst hmm
      rw [h1]; exact g1
  | dispose =>
    cases hmx : w.mux with
    | none => simp only [step, hmx]; exact ⟨⟨hd, hm⟩, (by first | rfl | trivial)⟩
    | some m0 =>
      simp only [step, hmx]
      obtain ⟨_, g2⟩ := rec_close h01 true m0 w.dir log (hm m0 hmx) hd
      refine ⟨⟨g2, ?_⟩, (by first | rfl | trivial)⟩
      intro m hmm; cases hmm
  | cleanup =>
    simp only [step]
    split
    · cases hmx : w.mux with
      | some m0 => simp only []; exact ⟨⟨hd, hm⟩, (by first | rfl | trivial)⟩
      | none =>
        simp only []
        refine ⟨⟨?_, ?_⟩, (by first | rfl | trivial)⟩
        · refine ⟨?_, ?_⟩
          · simp [recordNames, applyAll, Fs.apply, under, closedLog, logStep]
          · intro f hf; simp [applyAll, Fs.apply, under] at hf
        · intro m hmm; cases hmm
    · exact ⟨⟨hd, hm⟩, (by first | rfl | trivial)⟩

theorem rec_run (h01 : c.cleanup = Gen.c10CleanupNever ∨ c.cleanup = Gen.c10CleanupInTheEnd) :
    ∀ (evs : List Ev) (w : World) (log : List (Nat × Nat)), RecW c w log →
    RecD (applyAll under w.dir (run c w evs).flatten) (closedLog log (run c w evs).flatten)
  | [], _, _, h => h.1
  | e :: es, w, log, h => by
    obtain ⟨h1, h2⟩ := rec_step h01 w log e h
    have ih := rec_run h01 es _ _ h1
    show RecD (applyAll under w.dir ((step c w e).2 :: run c (step c w e).1 es).flatten) (closedLog log ((step c w e).2 :: run c (step c w e).1 es).flatten)
    rw [List.flatten_cons, applyAll_append, closedLog_append, ← h2]
    exact ih

end Lal.HlsC
